import CarModel.Section
/-
The CARv2 container (`v2/car.go`): pragma, 40-byte little-endian header, layout arithmetic.
Numeric constants are re-checked against `/repo` by `Gen/Facts.lean` (regenerated every run).
-/
namespace Car

def pragmaSize : Nat := 11
def v2HeaderSize : Nat := 40
def charSize : Nat := 16
def fullyIndexedBit : Nat := 7

/-- `carv2.Pragma`. -/
def pragma : Bytes := [0x0a] ++ pragmaBody

structure V2Header where
  charHi : Nat := 0
  charLo : Nat := 0
  dataOffset : Nat := 0
  dataSize : Nat := 0
  indexOffset : Nat := 0
  deriving DecidableEq, Repr, Inhabited

def u64 (n : Nat) : Nat := n % 2 ^ 64

namespace V2Header

/-- `carv2.NewHeader(dataSize)`. -/
def new (dataSize : Nat) : V2Header :=
  { dataSize := dataSize, dataOffset := pragmaSize + v2HeaderSize,
    indexOffset := u64 (pragmaSize + v2HeaderSize + dataSize) }

def withIndexPadding (h : V2Header) (p : Nat) : V2Header :=
  { h with indexOffset := u64 (h.indexOffset + p) }

def withDataPadding (h : V2Header) (p : Nat) : V2Header :=
  { h with dataOffset := u64 (pragmaSize + v2HeaderSize + p), indexOffset := u64 (h.indexOffset + p) }

def withDataSize (h : V2Header) (n : Nat) : V2Header :=
  { h with dataSize := n, indexOffset := u64 (n + h.indexOffset) }

def hasIndex (h : V2Header) : Bool := h.indexOffset != 0

/-- bit `fullyIndexedBit` of `Characteristics.Hi`. -/
def fullyIndexed (h : V2Header) : Bool := (h.charHi / 2 ^ fullyIndexedBit) % 2 == 1

def setFullyIndexed (h : V2Header) (b : Bool) : V2Header :=
  if b then (if h.fullyIndexed then h else { h with charHi := h.charHi + 2 ^ fullyIndexedBit })
  else (if h.fullyIndexed then { h with charHi := h.charHi - 2 ^ fullyIndexedBit } else h)

/-- `Header.WriteTo`: 16 bytes characteristics, then 3 × uint64 LE. -/
def bytes (h : V2Header) : Bytes :=
  le64 h.charHi ++ le64 h.charLo ++ le64 h.dataOffset ++ le64 h.dataSize ++ le64 h.indexOffset

end V2Header

def int64Neg (n : Nat) : Bool := n ≥ 2 ^ 63

/-- `Header.ReadFrom` on the 40 bytes after the pragma; range checks with the `int64` casts. -/
def readV2Header (bs : Bytes) : Except Err (V2Header × Bytes) :=
  if bs.length < 16 then .error (if bs.length = 0 then .eof else .unexpectedEOF)
  else if bs.length < 40 then .error (if bs.length = 16 then .eof else .unexpectedEOF)
  else
    let hi := leVal (bs.take 8)
    let lo := leVal ((bs.drop 8).take 8)
    let dOff := leVal ((bs.drop 16).take 8)
    let dSize := leVal ((bs.drop 24).take 8)
    let iOff := leVal ((bs.drop 32).take 8)
    if int64Neg dOff ∨ dOff < pragmaSize + v2HeaderSize then .error .badHeader
    else if int64Neg dSize ∨ dSize = 0 then .error .badHeader
    else if int64Neg iOff then .error .badHeader
    else .ok ({ charHi := hi, charLo := lo, dataOffset := dOff, dataSize := dSize, indexOffset := iOff },
              bs.drop 40)

end Car
