import CarModel.Store
/-
The specification side of C04/C05/C12/C20: an append-only, content-addressed log.
No file, no index, no offsets — just what the properties say. Meant to be read in minutes.
-/
namespace Car.Spec
open Car

structure State where
  api : Api
  roots : List Cid
  /-- blocks actually stored, in put order -/
  log : List Block := []
  closed : Bool := false
  finalized : Bool := false
  deriving Repr

/-- The key a store goes by: the multihash (code + digest) by default, the whole CID on request. -/
def sameKey (o : WOpts) (a b : Cid) : Bool :=
  if o.wholeCids then a == b else (a.mhCode == b.mhCode && a.digest == b.digest)

/-- First stored block carrying the key. -/
def stored (o : WOpts) (s : State) (c : Cid) : Option Block := s.log.find? fun b => sameKey o b.cid c

/-- IdStore rule: identity CIDs are not stored, and always "present", unless StoreIdentityCIDs. -/
def idRule (o : WOpts) (c : Cid) : Bool := !o.storeIdentity && c.isIdentity

def putOne (o : WOpts) (s : State) (c : Cid) (d : Bytes) : State × Out :=
  if idRule o c then (s, .ok)
  else if c.byteLen > o.maxIndexCidSize then (s, .err .cidTooLarge)
  else if !o.allowDup && (stored o s c).isSome then (s, .ok)
  else ({ s with log := s.log ++ [⟨c, d⟩] }, .ok)

def putMany (o : WOpts) (s : State) : List Block → State × Out
  | [] => (s, .ok)
  | b :: bs => match putOne o s b.cid b.data with
    | (s', .ok) => putMany o s' bs
    | r => r

/-- may the store still be written? (`none` = yes) -/
def writeGuard (s : State) : Option Err :=
  if s.closed then some .closed
  else if s.api = .blockstore ∧ s.finalized then some .finalized
  else none

def step (o : WOpts) (s : State) : Op → State × Out
  | .put c d => match writeGuard s with
    | some e => (s, .err e)
    | none => putOne o s c d
  | .putMany bs => match writeGuard s with
    | some e => (s, .err e)
    | none => putMany o s bs
  | .has c => if s.closed then (s, .err .closed)
              else (s, .bool (idRule o c || (stored o s c).isSome))
  | .get c => if idRule o c then (s, .data c.digest)
              else if s.closed then (s, .err .closed)
              else match stored o s c with
                | some b => (s, .data b.data)
                | none => (s, .err .notFound)
  | .getSize c => if idRule o c then (s, .size c.digest.length)
                  else if s.closed then (s, .err .closed)
                  else match stored o s c with
                    | some b => (s, .size b.data.length)
                    | none => (s, .err .notFound)
  | .allKeys => if s.closed then (s, .err .closed)
                else (s, .cids (s.log.map fun b => if o.wholeCids then b.cid else b.cid.toRawV1))
  | .roots => if s.closed ∧ s.api = .blockstore then (s, .err .other) else (s, .cids s.roots)
  | .finalizeRO =>
    if o.v1 then ({ s with finalized := true }, .ok)
    else if s.closed then (s, .err .closed)
    else if s.finalized then (s, .err .finalized)
    else ({ s with finalized := true }, .ok)
  | .finalize =>
    match s.api with
    | .blockstore =>
      if s.closed then (s, .err .closed)
      else if !o.v1 && s.finalized then ({ s with closed := true }, .err .finalized)
      else ({ s with finalized := true, closed := true }, .ok)
    | .storage =>
      if o.v1 then ({ s with closed := true }, .ok)
      else if s.closed then (s, .err .closed)
      else ({ s with closed := true }, .ok)
  | .close =>
    if !o.v1 && !s.finalized then (s, .err .other)
    else if s.closed then (s, .err .closed)
    else ({ s with closed := true }, .ok)
  | .discard => ({ s with closed := true }, .ok)

def run (o : WOpts) (s : State) : List Op → State × List Out
  | [] => (s, [])
  | op :: ops =>
    let r := step o s op
    let r' := run o r.1 ops
    (r'.1, r.2 :: r'.2)

/-- The file a finalised session must leave behind (C05): the intended layout of the log. -/
def finalFile (o : WOpts) (roots : Option (List Cid)) (log : List Block) : Option Bytes :=
  let p := payload roots log
  if o.v1 then some p
  else
    let h := headerSize ⟨roots, 1⟩
    match Index.load o.codec (withOffsets h log) with
    | none => none
    | some ix => some (layoutV2 o.dataPad o.indexPad p true o.storeIdentity ix.bytes)

/-- The file of an open (not finalised) session: pragma, zero header, padding, payload so far. -/
def openFile (o : WOpts) (roots : Option (List Cid)) (log : List Block) : Bytes :=
  let p := payload roots log
  if o.v1 then p else pragma ++ zeros 40 ++ zeros o.dataPad ++ p

end Car.Spec
