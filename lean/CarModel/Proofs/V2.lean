import CarModel.Proofs.Container
namespace Car

theorem pragma_decode : decodeHeaderBody pragmaBody = .ok ⟨none, 2⟩ := by
  simp [decodeHeaderBody, pragmaBody, decodeRootsField, decodeVersionField, stripPrefix, keyRoots,
    keyVersion, readCborHead]

theorem readHeader_pragma (maxHeader : Nat) (rest : Bytes) (hmax : 10 ≤ maxHeader) :
    readHeader maxHeader (pragma ++ rest) = .ok (⟨none, 2⟩, rest) := by
  have hl : pragmaBody.length = 10 := by decide
  have e : pragma ++ rest = uvarint pragmaBody.length ++ pragmaBody ++ rest := by
    rw [hl, uvarint_small 10 (by omega)]; rfl
  unfold readHeader
  rw [e, ldRead_framed false maxHeader pragmaBody rest (by omega) (by omega) (by rw [hl]; decide)]
  simp only
  rw [pragma_decode]

theorem le64_length (n : Nat) : (le64 n).length = 8 := leN_length 8 n

theorem leVal_le64 (n : Nat) (h : n < 2 ^ 64) : leVal (le64 n) = n :=
  leVal_leN 8 n (by simpa using h)

structure V2Header.wf (h : V2Header) : Prop where
  hi : h.charHi < 2 ^ 64
  lo : h.charLo < 2 ^ 64
  dOff : 51 ≤ h.dataOffset ∧ h.dataOffset < 2 ^ 63
  dSize : 0 < h.dataSize ∧ h.dataSize < 2 ^ 63
  iOff : h.indexOffset < 2 ^ 63

theorem V2Header.bytes_length (h : V2Header) : h.bytes.length = 40 := by
  simp [V2Header.bytes, le64_length]

/-- `Header.ReadFrom` inverts `Header.WriteTo` on every header that passes the range checks. -/
theorem readV2Header_bytes (h : V2Header) (hwf : h.wf) (rest : Bytes) :
    readV2Header (h.bytes ++ rest) = .ok (h, rest) := by
  obtain ⟨hhi, hlo, ⟨hd1, hd2⟩, ⟨hs1, hs2⟩, hio⟩ := hwf
  unfold readV2Header
  have hlen : (h.bytes ++ rest).length = 40 + rest.length := by simp [V2Header.bytes_length]
  have c1 : ¬ ((h.bytes ++ rest).length < 16) := by omega
  have c2 : ¬ ((h.bytes ++ rest).length < 40) := by omega
  simp only [c1, c2, ↓reduceIte]
  have p64 : (2:Nat) ^ 63 < 2 ^ 64 := by decide
  have e : h.bytes ++ rest = le64 h.charHi ++ (le64 h.charLo ++ (le64 h.dataOffset ++ (le64 h.dataSize ++ (le64 h.indexOffset ++ rest)))) := by
    simp [V2Header.bytes]
  have t0 : (h.bytes ++ rest).take 8 = le64 h.charHi := by rw [e]; exact List.take_left' (le64_length _)
  have d8 : (h.bytes ++ rest).drop 8 = le64 h.charLo ++ (le64 h.dataOffset ++ (le64 h.dataSize ++ (le64 h.indexOffset ++ rest))) := by
    rw [e]; exact List.drop_left' (le64_length _)
  have d16 : (h.bytes ++ rest).drop 16 = le64 h.dataOffset ++ (le64 h.dataSize ++ (le64 h.indexOffset ++ rest)) := by
    rw [show 16 = 8 + 8 by rfl, ← List.drop_drop, d8]; exact List.drop_left' (le64_length _)
  have d24 : (h.bytes ++ rest).drop 24 = le64 h.dataSize ++ (le64 h.indexOffset ++ rest) := by
    rw [show 24 = 16 + 8 by rfl, ← List.drop_drop, d16]; exact List.drop_left' (le64_length _)
  have d32 : (h.bytes ++ rest).drop 32 = le64 h.indexOffset ++ rest := by
    rw [show 32 = 24 + 8 by rfl, ← List.drop_drop, d24]; exact List.drop_left' (le64_length _)
  have d40 : (h.bytes ++ rest).drop 40 = rest := by
    rw [show 40 = 32 + 8 by rfl, ← List.drop_drop, d32]; exact List.drop_left' (le64_length _)
  rw [t0, d8, d16, d24, d32, d40]
  rw [List.take_left' (le64_length _), List.take_left' (le64_length _), List.take_left' (le64_length _),
      List.take_left' (le64_length _)]
  rw [leVal_le64 _ hhi, leVal_le64 _ hlo, leVal_le64 _ (by omega), leVal_le64 _ (by omega), leVal_le64 _ (by omega)]
  have k1 : ¬ (int64Neg h.dataOffset = true ∨ h.dataOffset < pragmaSize + v2HeaderSize) := by
    simp [int64Neg, pragmaSize, v2HeaderSize]; omega
  have k2 : ¬ (int64Neg h.dataSize = true ∨ h.dataSize = 0) := by simp [int64Neg]; omega
  have k3 : ¬ (int64Neg h.indexOffset = true) := by simp [int64Neg]; omega
  simp only [k1, k2, k3, ↓reduceIte]
  simp

end Car

namespace Car

theorem zeros_length (n : Nat) : (zeros n).length = n := by simp [zeros]

theorem payload_length_pos (roots : Option (List Cid)) (bs : List Block) : 0 < (payload roots bs).length := by
  have := uvarintSize_pos (encodeHeaderBody ⟨roots, 1⟩).length
  simp only [payload, encodeHeader, List.length_append, uvarint_length]; omega

/-- Side conditions under which the layout's header passes `Header.ReadFrom`'s range checks. -/
structure LayoutOK (dp ip n : Nat) : Prop where
  dOff : 51 + dp < 2 ^ 63
  dSize : n < 2 ^ 63
  iOff : 51 + dp + n + ip < 2 ^ 63

theorem finalHeader_wf (dp ip n : Nat) (hasIdx fi : Bool) (hn : 0 < n) (ok : LayoutOK dp ip n) :
    (finalHeader dp ip n hasIdx fi).wf := by
  refine ⟨?_, by simp [finalHeader], ⟨by simp [finalHeader], ok.dOff⟩, ⟨hn, ok.dSize⟩, ?_⟩
  · simp only [finalHeader]; split <;> decide
  · simp only [finalHeader]; split
    · exact ok.iOff
    · decide

/-- Opening any CARv2 container whose (well-formed) header announces a window that starts with a
    CARv1 header positions the block reader right after that header, on the rest of the window.
    Covers intact files (any padding, any tail) and files cut inside the window alike. -/
theorem newBlockReader_container (o : ReadOpts) (seek : Bool) (hdr : V2Header) (dp : Nat) (body : Bytes)
    (roots : Option (List Cid)) (secs : Bytes)
    (hh : hdr.wf) (hoff : hdr.dataOffset = 51 + dp)
    (hbody : body.take hdr.dataSize = encodeHeader ⟨roots, 1⟩ ++ secs)
    (hwf : (CarHeader.mk roots 1).wf) (hmax : (encodeHeaderBody ⟨roots, 1⟩).length ≤ o.maxHeader)
    (h63 : (encodeHeaderBody ⟨roots, 1⟩).length < 2 ^ 63) (h10 : 10 ≤ o.maxHeader) :
    ∃ br, newBlockReader o seek (pragma ++ (hdr.bytes ++ (zeros dp ++ body))) = .ok br ∧
      br.version = 2 ∧ br.roots = roots.getD [] ∧ br.rest = secs ∧
      br.offset = 51 + dp + headerSize ⟨roots, 1⟩ ∧ br.v1offset = 51 + dp ∧ br.seekable = false := by
  unfold newBlockReader
  rw [readHeader_pragma o.maxHeader _ h10]
  simp only [show ¬ ((2 : Nat) = 1) by decide, ↓reduceIte]
  rw [readV2Header_bytes _ hh]
  simp only
  have hskip : hdr.dataOffset - pragmaSize - v2HeaderSize = dp := by
    simp [hoff, pragmaSize, v2HeaderSize]; omega
  rw [hskip]
  have c : ¬ (¬ seek = true ∧ (zeros dp ++ body).length < dp) := by simp [zeros_length]
  simp only [c, ↓reduceIte]
  rw [List.drop_left' (zeros_length dp), hbody]
  rw [readHeader_encode o.maxHeader ⟨roots, 1⟩ secs hwf hmax h63]
  simp [CarHeader.rootList, hoff]

/-- Opening a laid-out CARv2 positions the block reader on the payload window, whatever follows. -/
theorem newBlockReader_v2 (o : ReadOpts) (seek : Bool) (dp ip : Nat) (roots : Option (List Cid)) (secs : Bytes)
    (hasIdx fi : Bool) (index : Bytes)
    (hwf : (CarHeader.mk roots 1).wf) (hmax : (encodeHeaderBody ⟨roots, 1⟩).length ≤ o.maxHeader)
    (h63 : (encodeHeaderBody ⟨roots, 1⟩).length < 2 ^ 63) (h10 : 10 ≤ o.maxHeader)
    (lok : LayoutOK dp ip (encodeHeader ⟨roots, 1⟩ ++ secs).length) :
    ∃ br, newBlockReader o seek (layoutV2 dp ip (encodeHeader ⟨roots, 1⟩ ++ secs) hasIdx fi index) = .ok br ∧
      br.version = 2 ∧ br.roots = roots.getD [] ∧ br.rest = secs ∧
      br.offset = 51 + dp + headerSize ⟨roots, 1⟩ ∧ br.v1offset = 51 + dp ∧ br.seekable = false := by
  have hp : 0 < (encodeHeader ⟨roots, 1⟩ ++ secs).length := by
    have := uvarintSize_pos (encodeHeaderBody ⟨roots, 1⟩).length
    simp only [encodeHeader, List.length_append, uvarint_length]; omega
  have e : layoutV2 dp ip (encodeHeader ⟨roots, 1⟩ ++ secs) hasIdx fi index
      = pragma ++ ((finalHeader dp ip (encodeHeader ⟨roots, 1⟩ ++ secs).length hasIdx fi).bytes ++
          (zeros dp ++ ((encodeHeader ⟨roots, 1⟩ ++ secs) ++ (if hasIdx then zeros ip ++ index else [])))) := by
    simp [layoutV2]
  rw [e]
  exact newBlockReader_container o seek _ dp _ roots secs
    (finalHeader_wf dp ip _ hasIdx fi hp lok) (by simp [finalHeader])
    (by simp only [finalHeader]; exact List.take_left' rfl) hwf hmax h63 h10

/-- C01 (reader side, v2 BlockReader over a CARv2 with any padding, with or without index). -/
theorem scanBlockReader_v2 (H : HashFn) (o : ReadOpts) (seek : Bool) (dp ip : Nat)
    (roots : Option (List Cid)) (bs : List Block) (hasIdx fi : Bool) (index : Bytes)
    (ok : PayloadOK H o roots bs) (h10 : 10 ≤ o.maxHeader) (lok : LayoutOK dp ip (payload roots bs).length) :
    scanBlockReader H o seek (layoutV2 dp ip (payload roots bs) hasIdx fi index)
      = .ok ⟨roots.getD [], bs, .eof⟩ := by
  obtain ⟨br, hbr, _, hroots, hrest, _⟩ :=
    newBlockReader_v2 o seek dp ip roots (sectionsBytes bs) hasIdx fi index ok.hdr ok.hdrMax ok.hdr63 h10 lok
  unfold scanBlockReader
  unfold payload
  rw [hbr]
  simp only [BR.drain, hrest, hroots]
  rw [scanSections_sections H o bs ok.blocks]

end Car
