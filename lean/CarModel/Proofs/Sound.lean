import CarModel.Section
namespace Car

theorem checkBlock_ok_verifies (H : HashFn) (b : Block) (h : checkBlock H false b = .ok ()) :
    verifies H b.cid b.data = true := by
  unfold checkBlock at h
  simp only [Bool.false_eq_true, ↓reduceIte] at h
  split at h
  · cases h
  · split at h
    · assumption
    · cases h

theorem nextBlock_sound (H : HashFn) (o : ReadOpts) (ht : o.trusted = false) (bs : Bytes) (b : Block) (rest : Bytes)
    (h : nextBlock H o bs = .ok (b, rest)) : verifies H b.cid b.data = true := by
  unfold nextBlock at h
  split at h
  · cases h
  · rename_i b' rest' _
    split at h
    · cases h
    · rename_i hc
      injection h with h; injection h with h1 _; subst h1
      rw [ht] at hc
      exact checkBlock_ok_verifies H _ hc

theorem scanAux_sound (H : HashFn) (o : ReadOpts) (ht : o.trusted = false) :
    ∀ fuel bs, ∀ b ∈ (scanAux H o fuel bs).1, verifies H b.cid b.data = true := by
  intro fuel
  induction fuel with
  | zero => intro bs b hb; simp [scanAux] at hb
  | succ f ih =>
    intro bs b hb
    unfold scanAux at hb
    split at hb
    · simp at hb
    · rename_i b' rest hn
      simp only [List.mem_cons] at hb
      rcases hb with rfl | hb
      · exact nextBlock_sound H o ht bs _ rest hn
      · exact ih rest b hb

end Car
