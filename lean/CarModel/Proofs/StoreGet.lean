import CarModel.Proofs.StoreRefine
import CarModel.Proofs.IndexGen
namespace Car

/-- every record of `withOffsets` is a block of the list at the offset where its section starts -/
theorem withOffsets_mem (h : Nat) (log : List Block) (r : Record) (hr : r ∈ withOffsets h log) :
    ∃ l1 b l2, log = l1 ++ b :: l2 ∧ r = ⟨b.cid, h + (sectionsBytes l1).length⟩ := by
  induction log generalizing h with
  | nil => simp [withOffsets] at hr
  | cons x xs ih =>
    simp only [withOffsets, List.mem_cons] at hr
    rcases hr with rfl | hr
    · exact ⟨[], x, xs, rfl, by simp [sectionsBytes]⟩
    · obtain ⟨l1, b, l2, hl, hrr⟩ := ih (h + sectionSize x) hr
      refine ⟨x :: l1, b, l2, by simp [hl], ?_⟩
      rw [hrr]; simp [sectionsBytes, sectionBytes_length]; omega

theorem mem_withOffsets (h : Nat) (l1 : List Block) (b : Block) (l2 : List Block) :
    (⟨b.cid, h + (sectionsBytes l1).length⟩ : Record) ∈ withOffsets h (l1 ++ b :: l2) := by
  induction l1 generalizing h with
  | nil => simp [withOffsets, sectionsBytes]
  | cons x xs ih =>
    simp only [List.cons_append, withOffsets, List.mem_cons]
    right
    have := ih (h + sectionSize x)
    simpa [sectionsBytes, sectionBytes_length, Nat.add_assoc] using this

/-- What `Get` needs of the stored blocks: readable within the section limit, CID within go-cid's cap. -/
def Block.getOk (o : WOpts) (b : Block) : Prop := b.wf o.maxSection ∧ b.cid.digest.length ≤ maxDigestAlloc

/-- Reading at the offset of a stored block yields that block (both FindCid modes). -/
theorem readAtOffset_log (o : WOpts) (roots : Option (List Cid)) (tail : Bytes)
    (l1 : List Block) (b : Block) (l2 : List Block) (hb : b.getOk o) (readBytes : Bool) :
    ∃ dataOff, readAtOffset o (payload roots (l1 ++ b :: l2) ++ tail)
        (headerSize ⟨roots, 1⟩ + (sectionsBytes l1).length) readBytes
      = .ok (b.cid, if readBytes then b.data else [], b.data.length, dataOff) ∧
      (readBytes = false →
        ((payload roots (l1 ++ b :: l2) ++ tail).drop dataOff).take b.data.length = b.data) := by
  have hdrop : (payload roots (l1 ++ b :: l2) ++ tail).drop (headerSize ⟨roots, 1⟩ + (sectionsBytes l1).length)
      = sectionBytes b ++ (sectionsBytes l2 ++ tail) := by
    have : payload roots (l1 ++ b :: l2) ++ tail
        = (encodeHeader ⟨roots, 1⟩ ++ sectionsBytes l1) ++ (sectionBytes b ++ (sectionsBytes l2 ++ tail)) := by
      simp [payload, sectionsBytes]
    rw [this, List.drop_left' (by simp [headerSize])]
  unfold readAtOffset
  simp only [hdrop]
  cases readBytes with
  | true =>
    refine ⟨0, ?_, by simp⟩
    simp only [↓reduceIte]
    rw [readNode_section _ _ b _ hb.1]
  | false =>
    obtain ⟨hwf, _, h63⟩ := hb.1
    have e : sectionBytes b ++ (sectionsBytes l2 ++ tail)
        = uvarint (b.cid.byteLen + b.data.length) ++ (b.cid.bytes ++ (b.data ++ (sectionsBytes l2 ++ tail))) := by
      simp [sectionBytes]
    refine ⟨headerSize ⟨roots, 1⟩ + (sectionsBytes l1).length
        + ((sectionBytes b ++ (sectionsBytes l2 ++ tail)).length
            - (b.cid.bytes ++ (b.data ++ (sectionsBytes l2 ++ tail))).length) + b.cid.byteLen, ?_, ?_⟩
    · simp only [Bool.false_eq_true, ↓reduceIte]
      rw [e, readUvarint_uvarint _ h63]
      simp only
      rw [cidFromReader_bytes b.cid hwf hb.2]
      simp
    · intro _
      have hlen : (sectionBytes b ++ (sectionsBytes l2 ++ tail)).length
            - (b.cid.bytes ++ (b.data ++ (sectionsBytes l2 ++ tail))).length
          = uvarintSize (b.cid.byteLen + b.data.length) := by
        rw [e]; simp only [List.length_append, uvarint_length]; omega
      rw [hlen]
      have : payload roots (l1 ++ b :: l2) ++ tail
          = (encodeHeader ⟨roots, 1⟩ ++ sectionsBytes l1 ++ uvarint (b.cid.byteLen + b.data.length) ++ b.cid.bytes)
            ++ (b.data ++ (sectionsBytes l2 ++ tail)) := by
        simp [payload, sectionsBytes, sectionBytes]
      rw [this, List.drop_left' (by simp [headerSize, uvarint_length, Cid.byteLen]; omega), List.take_left' rfl]

/-- `FindCid` over a list of candidate offsets each of which is a stored block's offset:
    the answer is the first candidate whose CID carries the key. -/
theorem findCidAux_log (o : WOpts) (roots : Option (List Cid)) (log : List Block) (tail : Bytes) (key : Cid)
    (readBytes : Bool) (hlog : ∀ b ∈ log, b.getOk o) :
    ∀ offs : List Nat,
    (∀ off ∈ offs, ∃ l1 b l2, log = l1 ++ b :: l2 ∧ off = headerSize ⟨roots, 1⟩ + (sectionsBytes l1).length) →
    (∃ b d n dataOff, findCidAux o (payload roots log ++ tail) key readBytes offs = .ok (some (d, n, dataOff)) ∧
        b ∈ log ∧ Spec.sameKey o b.cid key = true ∧ n = b.data.length ∧
        (readBytes = true → d = b.data) ∧
        (readBytes = false → ((payload roots log ++ tail).drop dataOff).take n = b.data)) ∨
    (findCidAux o (payload roots log ++ tail) key readBytes offs = .ok none ∧
        ∀ off ∈ offs, ∀ l1 b l2, log = l1 ++ b :: l2 → off = headerSize ⟨roots, 1⟩ + (sectionsBytes l1).length →
          Spec.sameKey o b.cid key = false) := by
  intro offs
  induction offs with
  | nil => intro _; right; exact ⟨rfl, by simp⟩
  | cons off rest ih =>
    intro hoffs
    obtain ⟨l1, b, l2, hl, hoff⟩ := hoffs off (by simp)
    have hb : b.getOk o := hlog b (by rw [hl]; simp)
    obtain ⟨dataOff, hread, hdata⟩ := readAtOffset_log o roots tail l1 b l2 hb readBytes
    unfold findCidAux
    rw [hl, hoff, hread]
    simp only
    have hkeyeq : (if o.wholeCids = true then b.cid == key else (b.cid.mhCode == key.mhCode && b.cid.digest == key.digest))
        = Spec.sameKey o b.cid key := by simp [Spec.sameKey]
    rw [hkeyeq]
    by_cases hk : Spec.sameKey o b.cid key = true
    · left
      simp only [hk, ↓reduceIte]
      refine ⟨b, _, _, _, rfl, by simp, hk, rfl, ?_, ?_⟩
      · intro h; simp [h]
      · intro h; exact hdata h
    · have hk' : Spec.sameKey o b.cid key = false := by simpa using hk
      simp only [hk', Bool.false_eq_true, ↓reduceIte]
      rw [← hl]
      rcases ih (fun x hx => hoffs x (by simp [hx])) with ⟨b', d, n, dOff, hf, hm, hs, hn, hd1, hd2⟩ | ⟨hf, hnone⟩
      · left; exact ⟨b', d, n, dOff, hf, hm, hs, hn, hd1, hd2⟩
      · right
        refine ⟨hf, ?_⟩
        intro x hx l1' b' l2' hl' hx'
        simp only [List.mem_cons] at hx
        rcases hx with rfl | hx
        · -- same offset ⇒ same split of the log ⇒ same block
          have hpre : (sectionsBytes l1').length = (sectionsBytes l1).length := by omega
          have : l1' = l1 ∧ b' = b := by
            have e2 : l1 ++ b :: l2 = l1' ++ b' :: l2' := by rw [← hl, hl']
            exact split_unique l1 l1' b b' l2 l2' e2 hpre.symm
          rw [this.2]; exact hk'
        · exact hnone x hx l1' b' l2' hl' hx'
where
  /-- two splits of one block list at the same byte offset are the same split
      (every section is at least one byte long) -/
  split_unique : ∀ (l1 l1' : List Block) (b b' : Block) (l2 l2' : List Block),
      l1 ++ b :: l2 = l1' ++ b' :: l2' → (sectionsBytes l1).length = (sectionsBytes l1').length →
      l1' = l1 ∧ b' = b := by
    intro l1
    induction l1 with
    | nil =>
      intro l1' b b' l2 l2' he hlen
      cases l1' with
      | nil => simp at he; exact ⟨rfl, he.1.symm⟩
      | cons y ys =>
        exfalso
        have := uvarintSize_pos (y.cid.byteLen + y.data.length)
        simp [sectionsBytes, sectionBytes_length, sectionSize] at hlen
        omega
    | cons x xs ih =>
      intro l1' b b' l2 l2' he hlen
      cases l1' with
      | nil =>
        exfalso
        have := uvarintSize_pos (x.cid.byteLen + x.data.length)
        simp [sectionsBytes, sectionBytes_length, sectionSize] at hlen
        omega
      | cons y ys =>
        simp only [List.cons_append, List.cons.injEq] at he
        obtain ⟨hxy, he'⟩ := he
        subst hxy
        have hlen' : (sectionsBytes xs).length = (sectionsBytes ys).length := by
          simp [sectionsBytes] at hlen ⊢; omega
        obtain ⟨h1, h2⟩ := ih ys b b' l2 l2' he' hlen'
        exact ⟨by rw [h1], h2⟩

end Car
