import CarModel.Crash
import CarModel.Proofs.Resume
import CarModel.Proofs.CidPrefix
namespace Car

def LogOK' (log : List Block) : Prop :=
  ∀ b ∈ log, b.cid.wf ∧ b.cid.digest.length ≤ maxDigestAlloc ∧ b.cid.byteLen + b.data.length < 2 ^ 63

/-- Resume's scan walks over complete sections whatever follows them. -/
theorem resumeLoop_sections_then (zeroEOF : Bool) (tail : Bytes) :
    ∀ (rem : List Block) (pre : Bytes) (ix : InsIndex) (fuel : Nat),
    LogOK' rem →
    resumeLoop zeroEOF (pre ++ sectionsBytes rem ++ tail) (fuel + rem.length) pre.length ix
      = resumeLoop zeroEOF (pre ++ sectionsBytes rem ++ tail) fuel (pre ++ sectionsBytes rem).length
          (insertAll ix pre.length rem) := by
  intro rem
  induction rem with
  | nil => intro pre ix fuel _; simp [sectionsBytes, insertAll]
  | cons b tl ih =>
    intro pre ix fuel hok
    obtain ⟨hwf, hdig, h63⟩ := hok b (by simp)
    have hpos := cid_byteLen_pos b.cid
    have hfuel : fuel + (b :: tl).length = (fuel + tl.length) + 1 := by simp; omega
    rw [hfuel]
    conv => lhs; unfold resumeLoop
    have hdrop : (pre ++ sectionsBytes (b :: tl) ++ tail).drop pre.length
        = uvarint (b.cid.byteLen + b.data.length) ++ (b.cid.bytes ++ (b.data ++ (sectionsBytes tl ++ tail))) := by
      rw [List.append_assoc, List.drop_left' rfl, sectionsBytes_cons]; simp [sectionBytes]
    rw [hdrop, readUvarint_uvarint _ h63]
    simp only
    have c0 : ¬ (b.cid.byteLen + b.data.length = 0) := by omega
    simp only [c0, ↓reduceIte]
    rw [cidFromReader_bytes b.cid hwf hdig]
    simp only
    have hlen : (pre ++ sectionsBytes (b :: tl) ++ tail).length
        = pre.length + sectionSize b + ((sectionsBytes tl).length + tail.length) := by
      rw [sectionsBytes_cons]; simp only [List.length_append, sectionBytes_length]; omega
    have hafter : (pre ++ sectionsBytes (b :: tl) ++ tail).length - (b.data ++ (sectionsBytes tl ++ tail)).length
        = pre.length + uvarintSize (b.cid.byteLen + b.data.length) + b.cid.byteLen := by
      rw [hlen]; simp only [List.length_append, sectionSize]; omega
    rw [hafter]
    have hnext : ((pre.length + uvarintSize (b.cid.byteLen + b.data.length) + b.cid.byteLen : Nat) : Int)
        + (((b.cid.byteLen + b.data.length : Nat) : Int) - (b.cid.byteLen : Int))
        = ((pre.length + sectionSize b : Nat) : Int) := by
      simp only [sectionSize]; omega
    rw [hnext]
    have c1 : ¬ (((pre.length + sectionSize b : Nat) : Int) < 0) := by omega
    have c2 : ¬ (b.cid.byteLen + b.data.length > b.cid.byteLen ∧
        ((pre.length + sectionSize b : Nat) : Int).toNat > (pre ++ sectionsBytes (b :: tl) ++ tail).length) := by
      rw [hlen]; simp only [Int.toNat_natCast]; omega
    simp only [c1, c2, ↓reduceIte, Int.toNat_natCast]
    have hpl : (pre ++ sectionBytes b).length = pre.length + sectionSize b := by simp [sectionBytes_length]
    have e : pre ++ sectionsBytes (b :: tl) ++ tail = (pre ++ sectionBytes b) ++ sectionsBytes tl ++ tail := by
      rw [sectionsBytes_cons]; simp
    rw [e, ← hpl, ih (pre ++ sectionBytes b) _ fuel (fun x hx => hok x (by simp [hx]))]
    simp [insertAll, hpl, sectionsBytes_cons]
    intro _ h; rw [sectionBytes_length] at h; omega

/-- A section cut anywhere strictly inside it stops the scan with an error — in the length prefix,
    in the CID, or in the data (the last by the completeness check). -/
theorem resumeLoop_partial (zeroEOF : Bool) (pre : Bytes) (b : Block) (m : Nat) (ix : InsIndex) (fuel : Nat)
    (hwf : b.cid.wf) (hdig : b.cid.digest.length ≤ maxDigestAlloc) (h63 : b.cid.byteLen + b.data.length < 2 ^ 63)
    (hm0 : 0 < m) (hm : m < sectionSize b) :
    ∃ e, resumeLoop zeroEOF (pre ++ (sectionBytes b).take m) (fuel + 1) pre.length ix = .error e := by
  have hpos := cid_byteLen_pos b.cid
  unfold resumeLoop
  rw [List.drop_left' rfl]
  have hsec : sectionBytes b = uvarint (b.cid.byteLen + b.data.length) ++ (b.cid.bytes ++ b.data) := by
    simp [sectionBytes]
  rw [hsec]
  rcases readUvarint_cut (b.cid.byteLen + b.data.length) h63 (b.cid.bytes ++ b.data) m with ⟨hlt, e, he⟩ | ⟨hge, he⟩
  · rw [he]
    cases e with
    | eof =>
      -- impossible: m > 0, so the cut varint is not empty
      exfalso
      rw [List.take_append_of_le_length (by omega)] at he
      have := readUvarint_uvarint_prefix _ m h63 hlt hm0
      rw [this] at he; cases he
    | unexpectedEOF => exact ⟨_, rfl⟩
    | overflow => exact ⟨_, rfl⟩
    | notMinimal => exact ⟨_, rfl⟩
  · rw [he]
    simp only
    have c0 : ¬ (b.cid.byteLen + b.data.length = 0) := by omega
    simp only [c0, ↓reduceIte]
    generalize hk : m - (uvarint (b.cid.byteLen + b.data.length)).length = k
    have hvl : (uvarint (b.cid.byteLen + b.data.length)).length = uvarintSize (b.cid.byteLen + b.data.length) :=
      uvarint_length _
    have hklt : k < b.cid.byteLen + b.data.length := by
      simp only [sectionSize] at hm; omega
    by_cases hkc : k < b.cid.byteLen
    · -- cut inside the CID
      rw [List.take_append_of_le_length (by simp [Cid.byteLen] at hkc ⊢; omega)]
      obtain ⟨e, he2⟩ := cidFromReader_prefix b.cid hwf k hkc
      rw [he2]; cases e <;> exact ⟨_, rfl⟩
    · -- cut inside the data: the CID parses, the completeness check fails
      have hkge : b.cid.byteLen ≤ k := by omega
      have htake : (b.cid.bytes ++ b.data).take k = b.cid.bytes ++ b.data.take (k - b.cid.byteLen) := by
        rw [List.take_append, List.take_of_length_le (by simp [Cid.byteLen] at hkge ⊢; omega)]
        rfl
      rw [htake, cidFromReader_bytes b.cid hwf hdig]
      simp only
      refine ⟨.unexpectedEOF, ?_⟩
      have hpl : (pre ++ (uvarint (b.cid.byteLen + b.data.length) ++ (b.cid.bytes ++ b.data)).take m).length
          = pre.length + m := by
        simp only [List.length_append, List.length_take, hvl, Cid.byteLen] at *
        simp only [sectionSize, Cid.byteLen] at hm
        omega
      have hr2 : (b.data.take (k - b.cid.byteLen)).length = k - b.cid.byteLen := by
        simp only [List.length_take]; omega
      rw [hpl, hr2]
      have c1 : ¬ (((pre.length + m - (k - b.cid.byteLen) : Nat) : Int)
          + (((b.cid.byteLen + b.data.length : Nat) : Int) - (b.cid.byteLen : Int)) < 0) := by omega
      have c2 : (b.cid.byteLen + b.data.length > b.cid.byteLen ∧
          (((pre.length + m - (k - b.cid.byteLen) : Nat) : Int)
            + (((b.cid.byteLen + b.data.length : Nat) : Int) - (b.cid.byteLen : Int))).toNat > pre.length + m) := by
        refine ⟨by omega, ?_⟩
        have : (((pre.length + m - (k - b.cid.byteLen) : Nat) : Int)
            + (((b.cid.byteLen + b.data.length : Nat) : Int) - (b.cid.byteLen : Int))).toNat
            = pre.length + m - (k - b.cid.byteLen) + b.data.length := by omega
        rw [this]; omega
      simp only [c1, c2, ↓reduceIte, and_self]

end Car

namespace Car

/-- `Resume` on any un-finalised CARv2/CARv1 file whose payload window starts with the expected
    CARv1 header: the only mutation is re-zeroing the (already zero) header slot, and the outcome is
    decided by the section scan of the window. -/
theorem resumeCore_unfinalized (api : Api) (o : WOpts) (roots : Option (List Cid)) (body : Bytes)
    (hwf : (CarHeader.mk roots 1).wf) (hmax : (encodeHeaderBody ⟨roots, 1⟩).length ≤ o.maxHeader)
    (hmax32 : (encodeHeaderBody ⟨roots, 1⟩).length ≤ 32 * 2 ^ 20) :
    resumeCore api o roots (o.filePrefix (zeros 40) ++ (encodeHeader ⟨roots, 1⟩ ++ body))
      = ((if o.v1 then [] else headerEvs {}),
         match resumeLoop o.zeroEOF (encodeHeader ⟨roots, 1⟩ ++ body) ((encodeHeader ⟨roots, 1⟩ ++ body).length + 1)
                 (encodeHeader ⟨roots, 1⟩).length [] with
         | .error e => .error e
         | .ok (ix, pos) =>
           .ok { api := api, file := o.filePrefix (zeros 40) ++ (encodeHeader ⟨roots, 1⟩ ++ body), base := o.base,
                 pos := pos, idx := ix, roots := roots }) := by
  have h63 : (encodeHeaderBody ⟨roots, 1⟩).length < 2 ^ 63 := by
    have : (32 : Nat) * 2 ^ 20 < 2 ^ 63 := by decide
    omega
  have hplen := o.filePrefix_length (zeros 40) (by simp [zeros])
  have hdropb : (o.filePrefix (zeros 40) ++ (encodeHeader ⟨roots, 1⟩ ++ body)).drop o.base
      = encodeHeader ⟨roots, 1⟩ ++ body := List.drop_left' hplen
  by_cases hv : o.v1 = true
  · have hpre : o.filePrefix (zeros 40) = [] := by simp [WOpts.filePrefix, hv]
    have hb0 : o.base = 0 := by simp [WOpts.base, hv]
    simp only [hpre, List.nil_append] at hdropb ⊢
    unfold resumeCore
    rw [readHeader_encode _ ⟨roots, 1⟩ _ hwf hmax32 h63]
    simp only [hv, and_self, true_or, not_true_eq_false, ↓reduceIte, false_and]
    rw [hb0, List.drop_zero, readHeader_encode _ ⟨roots, 1⟩ _ hwf hmax h63]
    simp only [ne_eq, not_true_eq_false, CarHeader.rootList, rootsMatch_refl, Bool.not_true, Bool.false_eq_true,
      or_self, ↓reduceIte, show ({} : V2Header).dataOffset = 0 from rfl, List.append_nil, applyWrites,
      List.foldl_nil, List.drop_zero, headerSize]
    split <;> simp_all
  · have hv' : o.v1 = false := by simpa using hv
    have hpre : o.filePrefix (zeros 40) = pragma ++ zeros 40 ++ zeros o.dataPad := by simp [WOpts.filePrefix, hv']
    have hfile : o.filePrefix (zeros 40) ++ (encodeHeader ⟨roots, 1⟩ ++ body)
        = pragma ++ (zeros 40 ++ (zeros o.dataPad ++ (encodeHeader ⟨roots, 1⟩ ++ body))) := by rw [hpre]; simp
    have hdrop11 : (o.filePrefix (zeros 40) ++ (encodeHeader ⟨roots, 1⟩ ++ body)).drop 11
        = zeros 40 ++ (zeros o.dataPad ++ (encodeHeader ⟨roots, 1⟩ ++ body)) := by
      rw [hfile]; exact List.drop_left' (by decide)
    obtain ⟨e0, he0⟩ := readV2Header_zeros (zeros o.dataPad ++ (encodeHeader ⟨roots, 1⟩ ++ body))
    have hwr : applyWrites (o.filePrefix (zeros 40) ++ (encodeHeader ⟨roots, 1⟩ ++ body)) (headerEvs {})
        = o.filePrefix (zeros 40) ++ (encodeHeader ⟨roots, 1⟩ ++ body) := by
      have e : o.filePrefix (zeros 40) ++ (encodeHeader ⟨roots, 1⟩ ++ body)
          = pragma ++ zeros 40 ++ (zeros o.dataPad ++ (encodeHeader ⟨roots, 1⟩ ++ body)) := by
        rw [hpre]; simp
      rw [e, headerEvs_apply (zeros 40) _ (by simp [zeros]), zeroHeader_bytes]
    unfold resumeCore
    simp only
    rw [hfile, readHeader_pragma _ _ (by decide)]
    rw [← hfile, hdrop11, he0]
    simp only [hv', Bool.false_eq_true, and_false, not_false_eq_true, and_self, or_true, not_true_eq_false,
      ↓reduceIte, show ({} : V2Header).dataOffset = 0 from rfl, ne_eq, true_and, false_and, List.nil_append]
    rw [hdropb, readHeader_encode _ ⟨roots, 1⟩ _ hwf hmax h63]
    simp only [not_true_eq_false, CarHeader.rootList, rootsMatch_refl, Bool.not_true,
      Bool.false_eq_true, or_self, ↓reduceIte, headerSize]
    rw [hwr, hdropb]
    split <;> simp_all

/-- Re-zeroing the header slot never touches the payload window. -/
theorem payload_window_untouched (o : WOpts) (body : Bytes) :
    (applyWrites (o.filePrefix (zeros 40) ++ body) (if o.v1 then [] else headerEvs {})).drop o.base = body := by
  have hplen := o.filePrefix_length (zeros 40) (by simp [zeros])
  by_cases hv : o.v1 = true
  · simp only [hv, ↓reduceIte, applyWrites, List.foldl_nil]; exact List.drop_left' hplen
  · have hv' : o.v1 = false := by simpa using hv
    have hpre : o.filePrefix (zeros 40) = pragma ++ zeros 40 ++ zeros o.dataPad := by simp [WOpts.filePrefix, hv']
    simp only [hv', Bool.false_eq_true, ↓reduceIte]
    have e : o.filePrefix (zeros 40) ++ body = pragma ++ zeros 40 ++ (zeros o.dataPad ++ body) := by rw [hpre]; simp
    rw [e, headerEvs_apply (zeros 40) _ (by simp [zeros]), zeroHeader_bytes, ← e]
    exact List.drop_left' hplen

end Car
