import CarModel.Varint
namespace Car

theorem toNat_ofNat_lt (n : Nat) (h : n < 256) : (UInt8.ofNat n).toNat = n := by
  simp [UInt8.toNat_ofNat']; omega

theorem uvarint_ne_nil (n : Nat) : uvarint n ≠ [] := by
  unfold uvarint; split <;> simp

theorem uvarint_length (n : Nat) : (uvarint n).length = uvarintSize n := by
  induction n using Nat.strongRecOn with
  | _ n ih =>
    unfold uvarint uvarintSize
    split
    · simp
    · simp only [List.length_cons]
      rw [ih (n / 128) (by omega)]; omega

theorem uvarintSize_pos (n : Nat) : 0 < uvarintSize n := by
  unfold uvarintSize; split <;> omega

theorem readAux_uvarint (n : Nat) : ∀ (i acc : Nat) (rest : Bytes),
    n < 2 ^ (63 - 7 * i) → i ≤ 8 → (i > 0 → n > 0) →
    readUvarintAux i acc (uvarint n ++ rest) = .ok (acc + n * 2 ^ (7 * i), rest) := by
  induction n using Nat.strongRecOn with
  | _ n ih =>
    intro i acc rest hn hi hpos
    unfold uvarint
    split
    · rename_i h
      have h1 : (UInt8.ofNat n).toNat = n := toNat_ofNat_lt n (by omega)
      simp only [List.cons_append, List.nil_append, readUvarintAux, h1]
      have : ¬ ((i = 8 ∧ n ≥ 128) ∨ i ≥ 9) := by omega
      simp only [this, ↓reduceIte, h]
      have : ¬ (n = 0 ∧ i > 0) := by
        intro ⟨a, b⟩; have := hpos b; omega
      simp [this]
    · rename_i h
      have hlt : n % 128 + 128 < 256 := by omega
      have h1 : (UInt8.ofNat (n % 128 + 128)).toNat = n % 128 + 128 := toNat_ofNat_lt _ hlt
      simp only [List.cons_append, readUvarintAux, h1]
      have hi8 : i < 8 := by
        by_cases h8 : i = 8
        · subst h8; simp at hn; omega
        · omega
      have c1 : ¬ ((i = 8 ∧ n % 128 + 128 ≥ 128) ∨ i ≥ 9) := by omega
      have c2 : ¬ (n % 128 + 128 < 128) := by omega
      simp only [c1, c2, ↓reduceIte]
      have hdiv : n / 128 < n := by omega
      have hb : n / 128 < 2 ^ (63 - 7 * (i + 1)) := by
        have : 2 ^ (63 - 7 * i) = 2 ^ (63 - 7 * (i + 1)) * 128 := by
          have : 63 - 7 * i = (63 - 7 * (i + 1)) + 7 := by omega
          rw [this, Nat.pow_add]
        rw [this] at hn
        exact Nat.div_lt_of_lt_mul (by rw [Nat.mul_comm]; exact hn)
      rw [ih (n / 128) hdiv (i + 1) _ rest hb (by omega) (by intro _; omega)]
      have hp : 2 ^ (7 * (i + 1)) = 128 * 2 ^ (7 * i) := by
        rw [show 7 * (i + 1) = 7 + 7 * i by omega, Nat.pow_add]
      rw [hp]
      generalize 2 ^ (7 * i) = p
      have e : n % 128 + 128 - 128 = n % 128 := by omega
      have hs : n = 128 * (n / 128) + n % 128 := (Nat.div_add_mod n 128).symm
      have key : acc + (n % 128 + 128 - 128) * p + n / 128 * (128 * p) = acc + n * p := by
        rw [e]
        generalize n / 128 = q at hs
        generalize n % 128 = r at hs
        subst hs
        grind
      rw [key]

/-- The go-varint decoder inverts the LEB128 encoder for every value below 2^63. -/
theorem readUvarint_uvarint (n : Nat) (h : n < 2 ^ 63) (rest : Bytes) :
    readUvarint (uvarint n ++ rest) = .ok (n, rest) := by
  have := readAux_uvarint n 0 0 rest (by simpa using h) (by omega) (by omega)
  simpa [readUvarint] using this

/-- Every successful read consumes at least one byte. -/
theorem readUvarintAux_consumes : ∀ (bs : Bytes) (i acc v : Nat) (rest : Bytes),
    readUvarintAux i acc bs = .ok (v, rest) → rest.length < bs.length := by
  intro bs
  induction bs with
  | nil => intro i acc v rest h; simp [readUvarintAux] at h
  | cons b tl ih =>
    intro i acc v rest h
    unfold readUvarintAux at h
    split at h
    · cases h
    · split at h
      · split at h
        · cases h
        · injection h with h; injection h with _ h2; subst h2; simp
      · have := ih _ _ _ _ h; simp; omega

theorem readUvarint_consumes (bs : Bytes) (v : Nat) (rest : Bytes)
    (h : readUvarint bs = .ok (v, rest)) : rest.length < bs.length :=
  readUvarintAux_consumes bs 0 0 v rest h

/-- A successful read returns a suffix of its input. -/
theorem readUvarintAux_suffix : ∀ (bs : Bytes) (i acc v : Nat) (rest : Bytes),
    readUvarintAux i acc bs = .ok (v, rest) → ∃ pre, bs = pre ++ rest := by
  intro bs
  induction bs with
  | nil => intro i acc v rest h; simp [readUvarintAux] at h
  | cons b tl ih =>
    intro i acc v rest h
    unfold readUvarintAux at h
    split at h
    · cases h
    · split at h
      · split at h
        · cases h
        · injection h with h; injection h with _ h2; subst h2; exact ⟨[b], rfl⟩
      · obtain ⟨pre, hp⟩ := ih _ _ _ _ h; exact ⟨b :: pre, by simp [hp]⟩

end Car
