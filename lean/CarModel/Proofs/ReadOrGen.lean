import CarModel.Proofs.IndexGen
import CarModel.Proofs.InspectFull
import CarModel.Proofs.IndexWf
/-
`ReadOrGenerateIndex` on the three kinds of valid input: a CARv1 (indexed), an index-less CARv2 (its
data window is indexed, offsets relative to the payload), a CARv2 carrying an index (handed back).
-/
namespace Car

theorem readOrGenerate_v1 (o : IdxOpts) (codec : Nat) (roots : Option (List Cid)) (bs : List Block)
    (hwf : (CarHeader.mk roots 1).wf) (hmax : (encodeHeaderBody ⟨roots, 1⟩).length ≤ o.maxHeader)
    (h63 : (encodeHeaderBody ⟨roots, 1⟩).length < 2 ^ 63) :
    readOrGenerateIndex o codec (payload roots bs) = generateIndex .seekable o codec (payload roots bs) := by
  unfold readOrGenerateIndex
  have : readHeader o.maxHeader (payload roots bs) = .ok (⟨roots, 1⟩, sectionsBytes bs) := by
    unfold payload; exact readHeader_encode o.maxHeader ⟨roots, 1⟩ _ hwf hmax h63
  rw [this]
  simp

/-- the pieces of a laid-out CARv2 that `NewReader` looks at -/
theorem layout_parts (dp ip : Nat) (p : Bytes) (hasIdx fi : Bool) (index : Bytes) (maxHeader : Nat) (h10 : 10 ≤ maxHeader) :
    (∃ rest, readHeader maxHeader (layoutV2 dp ip p hasIdx fi index) = .ok (⟨none, 2⟩, rest)) ∧
    ((layoutV2 dp ip p hasIdx fi index).drop 11).take 40 = (finalHeader dp ip p.length hasIdx fi).bytes := by
  have e : layoutV2 dp ip p hasIdx fi index
      = pragma ++ ((finalHeader dp ip p.length hasIdx fi).bytes ++ (zeros dp ++ (p ++ (if hasIdx then zeros ip ++ index else [])))) := by
    simp [layoutV2]
  constructor
  · exact ⟨_, by rw [e, readHeader_pragma maxHeader _ h10]⟩
  · rw [e, List.drop_left' pragma_length, List.take_left' (V2Header.bytes_length _)]

theorem readOrGenerate_indexless (o : IdxOpts) (codec : Nat) (dp ip : Nat) (roots : Option (List Cid)) (bs : List Block)
    (fi : Bool) (h10 : 10 ≤ o.maxHeader) (lok : LayoutOK dp ip (payload roots bs).length) :
    readOrGenerateIndex o codec (layoutV2 dp ip (payload roots bs) false fi [])
      = generateIndex .seekable o codec (layoutV2 dp ip (payload roots bs) false fi []) := by
  obtain ⟨⟨rest, hr⟩, h40⟩ := layout_parts dp ip (payload roots bs) false fi [] o.maxHeader h10
  unfold readOrGenerateIndex
  rw [hr]
  simp only [show ¬ ((2 : Nat) = 1) by decide, ↓reduceIte]
  rw [h40]
  have hfw := finalHeader_wf dp ip (payload roots bs).length false fi (payload_length_pos roots bs) lok
  have hrv := readV2Header_bytes _ hfw []
  rw [List.append_nil] at hrv
  rw [hrv]
  simp [V2Header.hasIndex, finalHeader]

theorem readOrGenerate_embedded (o : IdxOpts) (codec : Nat) (dp ip : Nat) (roots : Option (List Cid)) (bs : List Block)
    (fi : Bool) (ix : Index) (hix : ix.wf) (h10 : 10 ≤ o.maxHeader) (lok : LayoutOK dp ip (payload roots bs).length) :
    readOrGenerateIndex o codec (layoutV2 dp ip (payload roots bs) true fi ix.bytes) = .ok ix := by
  obtain ⟨⟨rest, hr⟩, h40⟩ := layout_parts dp ip (payload roots bs) true fi ix.bytes o.maxHeader h10
  have hp := payload_length_pos roots bs
  generalize hn : (payload roots bs).length = n at *
  have hfw := finalHeader_wf dp ip n true fi hp lok
  have hdrop : (layoutV2 dp ip (payload roots bs) true fi ix.bytes).drop (51 + dp + n + ip) = ix.bytes := by
    have e2 : layoutV2 dp ip (payload roots bs) true fi ix.bytes
        = (pragma ++ ((finalHeader dp ip n true fi).bytes ++ (zeros dp ++ (payload roots bs ++ zeros ip)))) ++ ix.bytes := by
      simp [layoutV2, hn]
    have hl : (pragma ++ ((finalHeader dp ip n true fi).bytes ++ (zeros dp ++ (payload roots bs ++ zeros ip)))).length = 51 + dp + n + ip := by
      simp [pragma_length, V2Header.bytes_length, zeros_length, hn]; omega
    rw [e2, List.drop_left' hl]
  unfold readOrGenerateIndex
  rw [hr]
  simp only [show ¬ ((2 : Nat) = 1) by decide, ↓reduceIte]
  rw [h40]
  have hrv := readV2Header_bytes _ hfw []
  rw [List.append_nil] at hrv
  rw [hrv]
  have hhas : (finalHeader dp ip n true fi).hasIndex = true := by simp [V2Header.hasIndex, finalHeader]
  have hio : (finalHeader dp ip n true fi).indexOffset = 51 + dp + n + ip := by simp [finalHeader]
  simp only [hhas, ↓reduceIte, hio]
  rw [hdrop]
  have hrt := index_roundtrip ix hix []
  rw [List.append_nil] at hrt
  rw [hrt]

end Car
