import CarModel.Proofs.Crash
import CarModel.Proofs.Writes
/-
Torn CARv2 header writes (C06, finalize phase): what `Resume` does with a 40-byte header slot that holds
only the first `j` bytes of the final header (the rest still zero).
-/
namespace Car

theorem leN_zero (m : Nat) : leN m 0 = zeros m := by
  induction m with
  | zero => rfl
  | succ m ih => simp [leN, ih, zeros, List.replicate_succ]

/-- The first `k` bytes of a little-endian field followed by zeros are the field of the value
    reduced modulo `256^k` — what a write torn after `k` bytes leaves in a zeroed slot. -/
theorem leN_mod (m : Nat) : ∀ (k n : Nat), k ≤ m →
    leN m (n % 256 ^ k) = (leN m n).take k ++ zeros (m - k) := by
  induction m with
  | zero => intro k n hk; simp [leN, zeros]
  | succ m ih =>
    intro k n hk
    cases k with
    | zero => simp [Nat.mod_one, leN_zero]
    | succ k =>
      have h1 : n % 256 ^ (k + 1) % 256 = n % 256 := by
        rw [Nat.pow_succ, Nat.mul_comm]; exact Nat.mod_mul_right_mod n 256 (256 ^ k)
      have h2 : n % 256 ^ (k + 1) / 256 = n / 256 % 256 ^ k := by
        rw [Nat.pow_succ, Nat.mul_comm, Nat.mod_mul_right_div_self]
      simp only [leN, List.take_succ_cons, List.cons_append, h1, h2]
      rw [ih k (n / 256) (by omega)]
      have e : m + 1 - (k + 1) = m - k := by omega
      rw [e]

theorem le64_mod (k n : Nat) (hk : k ≤ 8) : le64 (n % 256 ^ k) = (le64 n).take k ++ zeros (8 - k) :=
  leN_mod 8 k n hk
theorem truncate_append_ge (a b : Bytes) (t : Nat) (h : a.length ≤ t) :
    truncate (a ++ b) t = a ++ truncate b (t - a.length) := by
  unfold truncate
  by_cases hl : (a ++ b).length < t
  · have hl2 : b.length < t - a.length := by simp at hl; omega
    rw [if_pos hl, if_pos hl2, List.append_assoc, List.length_append, Nat.sub_add_eq]
  · have hl2 : ¬ b.length < t - a.length := by simp at hl; omega
    rw [if_neg hl, if_neg hl2, List.take_append, List.take_of_length_le h]

/-- After Resume's two mutations the 40 header bytes no longer matter. -/
theorem resume_mutations_erase_header (h : V2Header) (tail : Bytes) (t : Nat) (ht : 51 ≤ t) :
    applyWrites (pragma ++ h.bytes ++ tail) ([.truncate t] ++ headerEvs {})
      = pragma ++ zeros 40 ++ truncate tail (t - 51) := by
  rw [applyWrites_append]
  have hl : (pragma ++ h.bytes).length = 51 := by simp [V2Header.bytes_length, pragma, pragmaBody, keyVersion]
  have : applyWrites (pragma ++ h.bytes ++ tail) [.truncate t] = pragma ++ h.bytes ++ truncate tail (t - 51) := by
    simp only [applyWrites, List.foldl_cons, List.foldl_nil, WriteEv.apply]
    rw [truncate_append_ge _ _ _ (by omega), hl]
  rw [this, headerEvs_apply _ _ (V2Header.bytes_length _), zeroHeader_bytes]

theorem resumeCore_header_refused (api : Api) (o : WOpts) (roots : Option (List Cid)) (h : V2Header) (tail : Bytes)
    (hv2 : o.v1 = false) (hwf : h.wf)
    (hbad : h.dataOffset ≠ o.base ∨ h.indexOffset < h.dataOffset + h.dataSize) :
    ∃ e, resumeCore api o roots (pragma ++ h.bytes ++ tail) = ([], .error e) := by
  have hd0 : h.dataOffset ≠ 0 := by have := hwf.dOff.1; omega
  have hdrop11 : (pragma ++ h.bytes ++ tail).drop 11 = h.bytes ++ tail := by
    rw [List.append_assoc]; exact List.drop_left' (by decide)
  unfold resumeCore
  simp only
  rw [List.append_assoc, readHeader_pragma _ _ (by decide)]
  rw [← List.append_assoc, hdrop11, readV2Header_bytes _ hwf]
  simp only [hv2, Bool.false_eq_true, and_false, not_false_eq_true, and_self, or_true, not_true_eq_false,
    ↓reduceIte, true_and, ne_eq, hd0]
  by_cases hb : h.dataOffset = o.base
  · have hlt : h.indexOffset < h.dataOffset + h.dataSize := by
      rcases hbad with hb' | hb'
      · exact absurd hb hb'
      · exact hb'
    simp only [hb, not_true_eq_false, ↓reduceIte]
    rw [← hb]
    simp only [hlt, ↓reduceIte]
    exact ⟨_, rfl⟩
  · simp only [hb, not_false_eq_true, ↓reduceIte]
    exact ⟨_, rfl⟩

theorem resumeCore_header_congr (api : Api) (o : WOpts) (roots : Option (List Cid)) (h1 h2 : V2Header) (tail : Bytes)
    (hv2 : o.v1 = false) (hwf1 : h1.wf) (hwf2 : h2.wf)
    (hoff1 : h1.dataOffset = o.base) (hoff2 : h2.dataOffset = o.base) (hsz : h1.dataSize = h2.dataSize)
    (hio1 : h1.dataOffset + h1.dataSize ≤ h1.indexOffset) (hio2 : h2.dataOffset + h2.dataSize ≤ h2.indexOffset) :
    resumeCore api o roots (pragma ++ h1.bytes ++ tail) = resumeCore api o roots (pragma ++ h2.bytes ++ tail) := by
  have hbase : o.base = 51 + o.dataPad := by simp [WOpts.base, hv2]
  have hb0 : o.base ≠ 0 := by omega
  have hdrop11 : ∀ h : V2Header, (pragma ++ h.bytes ++ tail).drop 11 = h.bytes ++ tail := by
    intro h; rw [List.append_assoc]; exact List.drop_left' (by decide)
  have hdropb : ∀ h : V2Header, (pragma ++ h.bytes ++ tail).drop o.base = tail.drop o.dataPad := by
    intro h
    have hl : (pragma ++ h.bytes).length = 51 := by simp [V2Header.bytes_length, pragma, pragmaBody, keyVersion]
    rw [hbase, ← List.drop_drop, List.drop_left' hl]
  have hmut1 := resume_mutations_erase_header h1 tail (o.base + h1.dataSize) (by omega)
  have hmut2 := resume_mutations_erase_header h2 tail (o.base + h2.dataSize) (by omega)
  have c1 : ¬ (h1.indexOffset < o.base + h1.dataSize) := by omega
  have c2 : ¬ (h2.indexOffset < o.base + h2.dataSize) := by omega
  have r1 : readHeader (32 * 2 ^ 20) (pragma ++ h1.bytes ++ tail) = .ok (⟨none, 2⟩, h1.bytes ++ tail) := by
    rw [List.append_assoc, readHeader_pragma _ _ (by decide)]
  have r2 : readHeader (32 * 2 ^ 20) (pragma ++ h2.bytes ++ tail) = .ok (⟨none, 2⟩, h2.bytes ++ tail) := by
    rw [List.append_assoc, readHeader_pragma _ _ (by decide)]
  rw [hsz] at hmut1 c1
  unfold resumeCore
  simp only [r1, r2, hdrop11, readV2Header_bytes _ hwf1, readV2Header_bytes _ hwf2, hdropb]
  simp only [hv2, Bool.false_eq_true, and_false, not_false_eq_true, and_self, or_true, not_true_eq_false,
    ↓reduceIte, ne_eq, hoff1, hoff2, hb0, c1, c2, hmut1, hmut2, hsz]

theorem le64_zero : le64 0 = zeros 8 := leN_zero 8

/-- A header write torn after `j ≥ 32` bytes into a zeroed slot: all fields but the index offset are
    complete, the index offset is reduced modulo `256^(j-32)`. -/
theorem torn_header_ge32 (h : V2Header) (j : Nat) (h32 : 32 ≤ j) (hj : j ≤ 40) :
    h.bytes.take j ++ zeros (40 - j) = ({ h with indexOffset := h.indexOffset % 256 ^ (j - 32) } : V2Header).bytes := by
  have hA : (le64 h.charHi ++ le64 h.charLo ++ le64 h.dataOffset ++ le64 h.dataSize).length = 32 := by
    simp [le64_length]
  simp only [V2Header.bytes]
  rw [List.take_append, List.take_of_length_le (by omega), hA, le64_mod _ _ (by omega), List.append_assoc]
  congr 3; omega

/-- … torn after `24 ≤ j ≤ 32` bytes: the data size is reduced modulo `256^(j-24)`, the index offset is zero. -/
theorem torn_header_24_32 (h : V2Header) (j : Nat) (h24 : 24 ≤ j) (hj : j ≤ 32) :
    h.bytes.take j ++ zeros (40 - j)
      = ({ h with dataSize := h.dataSize % 256 ^ (j - 24), indexOffset := 0 } : V2Header).bytes := by
  have hA : (le64 h.charHi ++ le64 h.charLo ++ le64 h.dataOffset).length = 24 := by simp [le64_length]
  have hB : (le64 h.charHi ++ le64 h.charLo ++ le64 h.dataOffset ++ le64 h.dataSize).length = 32 := by
    simp [le64_length]
  simp only [V2Header.bytes]
  rw [List.take_append, hB, List.take_append, hA, List.take_of_length_le (l := le64 h.charHi ++ le64 h.charLo ++ le64 h.dataOffset) (by omega),
    le64_mod _ _ (by omega), le64_zero]
  have e1 : (le64 h.indexOffset).take (j - 32) = [] := by
    have : j - 32 = 0 := by omega
    rw [this]; rfl
  rw [e1]
  have e2 : zeros (40 - j) = zeros (8 - (j - 24)) ++ zeros 8 := by
    simp only [zeros, List.replicate_append_replicate]; congr 1; omega
  rw [e2]; simp

theorem leVal_zeros (n : Nat) : leVal (zeros n) = 0 := by
  induction n with
  | zero => rfl
  | succ n ih => simp only [zeros, List.replicate_succ, leVal] at *; simp [ih]

/-- A 40-byte slot whose bytes 24..32 (the DataSize field) are still zero is not a readable header. -/
theorem readV2Header_datasize_zero (pre : Bytes) (rest : Bytes) (hl : pre.length = 24) :
    ∃ e, readV2Header (pre ++ (zeros 16 ++ rest)) = .error e := by
  unfold readV2Header
  have l1 : ¬ ((pre ++ (zeros 16 ++ rest)).length < 16) := by simp [hl, zeros]; omega
  have l2 : ¬ ((pre ++ (zeros 16 ++ rest)).length < 40) := by simp [hl, zeros]; omega
  simp only [l1, l2, ↓reduceIte]
  have : leVal (((pre ++ (zeros 16 ++ rest)).drop 24).take 8) = 0 := by
    have e : zeros 16 ++ rest = zeros 8 ++ (zeros 8 ++ rest) := by
      simp [zeros]
    rw [List.drop_left' hl, e, List.take_left' (by simp [zeros]), leVal_zeros]
  rw [this]
  split
  · exact ⟨_, rfl⟩
  · simp

/-- a header write torn after at most 24 bytes leaves such a slot -/
theorem torn_header_le24 (h : V2Header) (j : Nat) (hj : j ≤ 24) :
    ∃ pre, pre.length = 24 ∧ h.bytes.take j ++ zeros (40 - j) = pre ++ zeros 16 := by
  refine ⟨h.bytes.take j ++ zeros (24 - j), by simp [V2Header.bytes_length, zeros]; omega, ?_⟩
  rw [List.append_assoc]
  congr 1
  simp only [zeros, List.replicate_append_replicate]; congr 1; omega

/-- An unreadable header slot is treated exactly like the all-zero slot of an un-finalised file. -/
theorem resumeCore_unreadable_header (api : Api) (o : WOpts) (roots : Option (List Cid)) (hb tail : Bytes)
    (hv2 : o.v1 = false) (hl : hb.length = 40) (e : Err) (hbad : readV2Header (hb ++ tail) = .error e) :
    resumeCore api o roots (pragma ++ hb ++ tail) = resumeCore api o roots (pragma ++ zeros 40 ++ tail) := by
  have hbase : o.base = 51 + o.dataPad := by simp [WOpts.base, hv2]
  have hdrop11 : ∀ h : Bytes, (pragma ++ h ++ tail).drop 11 = h ++ tail := by
    intro h; rw [List.append_assoc]; exact List.drop_left' (by decide)
  have hdropb : ∀ h : Bytes, h.length = 40 → (pragma ++ h ++ tail).drop o.base = tail.drop o.dataPad := by
    intro h hh
    have hl : (pragma ++ h).length = 51 := by simp [hh, pragma, pragmaBody, keyVersion]
    rw [hbase, ← List.drop_drop, List.drop_left' hl]
  have r : ∀ h : Bytes, readHeader (32 * 2 ^ 20) (pragma ++ h ++ tail) = .ok (⟨none, 2⟩, h ++ tail) := by
    intro h; rw [List.append_assoc, readHeader_pragma _ _ (by decide)]
  obtain ⟨e0, he0⟩ := readV2Header_zeros tail
  have hz : (zeros 40).length = 40 := by simp [zeros]
  have m1 := headerEvs_apply hb tail hl {}
  have m2 := headerEvs_apply (zeros 40) tail hz {}
  unfold resumeCore
  simp only [r, hdrop11, hbad, he0, hdropb hb hl, hdropb (zeros 40) hz]
  simp only [hv2, Bool.false_eq_true, and_false, not_false_eq_true, and_self, or_true, not_true_eq_false,
    ↓reduceIte, ne_eq, show ({} : V2Header).dataOffset = 0 from rfl, false_and, List.nil_append, m1, m2]


theorem readUvarint_zero_byte (rest : Bytes) : readUvarint ((0 : UInt8) :: rest) = .ok (0, rest) := by
  simp [readUvarint, readUvarintAux]

/-- The section scan of `Resume` over `header ++ sections ++ (a zero byte …)`: it walks the sections
    and meets the zero length. -/
theorem resumeLoop_sections_then_zero (zeroEOF : Bool) (hdr : Bytes) (acked : List Block) (X : Bytes) (ix : InsIndex)
    (fuel : Nat) (hlog : LogOK' acked) :
    resumeLoop zeroEOF (hdr ++ sectionsBytes acked ++ ((0 : UInt8) :: X)) (fuel + 1 + acked.length) hdr.length ix
      = if zeroEOF then .ok (insertAll ix hdr.length acked, (hdr ++ sectionsBytes acked).length)
        else .error .zeroSection := by
  rw [resumeLoop_sections_then zeroEOF ((0 : UInt8) :: X) acked hdr ix (fuel + 1) hlog]
  unfold resumeLoop
  rw [List.drop_left' rfl, readUvarint_zero_byte]
  simp
theorem torn_final_header_ge32 (api : Api) (o : WOpts) (roots : Option (List Cid)) (n : Nat) (fi : Bool)
    (tail : Bytes) (j : Nat) (hv2 : o.v1 = false) (hn : 0 < n) (lok : LayoutOK o.dataPad o.indexPad n)
    (h32 : 32 ≤ j) (hj : j ≤ 40) :
    let H := finalHeader o.dataPad o.indexPad n true fi
    (∃ e, resumeCore api o roots (pragma ++ (H.bytes.take j ++ zeros (40 - j)) ++ tail) = ([], .error e)) ∨
    resumeCore api o roots (pragma ++ (H.bytes.take j ++ zeros (40 - j)) ++ tail)
      = resumeCore api o roots (pragma ++ H.bytes ++ tail) := by
  intro H
  have hwf : H.wf := finalHeader_wf o.dataPad o.indexPad n true fi hn lok
  have hbase : o.base = 51 + o.dataPad := by simp [WOpts.base, hv2]
  rw [torn_header_ge32 H j h32 hj]
  have hwf' : ({ H with indexOffset := H.indexOffset % 256 ^ (j - 32) } : V2Header).wf :=
    ⟨hwf.hi, hwf.lo, hwf.dOff, hwf.dSize, Nat.lt_of_le_of_lt (Nat.mod_le _ _) hwf.iOff⟩
  by_cases hlt : H.indexOffset % 256 ^ (j - 32) < H.dataOffset + H.dataSize
  · exact Or.inl (resumeCore_header_refused api o roots _ tail hv2 hwf' (Or.inr hlt))
  · have hoff : H.dataOffset = o.base := by simp [H, finalHeader, hbase]
    have hio : H.dataOffset + H.dataSize ≤ H.indexOffset := by simp [H, finalHeader]
    exact Or.inr (resumeCore_header_congr api o roots _ H tail hv2 hwf' hwf hoff hoff rfl (Nat.le_of_not_lt hlt) hio)

theorem torn_final_header_datasize (api : Api) (o : WOpts) (roots : Option (List Cid)) (n : Nat) (fi : Bool)
    (tail : Bytes) (j : Nat) (hv2 : o.v1 = false) (hn : 0 < n) (lok : LayoutOK o.dataPad o.indexPad n)
    (h24 : 24 ≤ j) (hj : j ≤ 32) (hpart : n % 256 ^ (j - 24) ≠ 0) :
    let H := finalHeader o.dataPad o.indexPad n true fi
    ∃ e, resumeCore api o roots (pragma ++ (H.bytes.take j ++ zeros (40 - j)) ++ tail) = ([], .error e) := by
  intro H
  have hwf : H.wf := finalHeader_wf o.dataPad o.indexPad n true fi hn lok
  rw [torn_header_24_32 H j h24 hj]
  have hsz : H.dataSize = n := rfl
  have hwf' : ({ H with dataSize := H.dataSize % 256 ^ (j - 24), indexOffset := 0 } : V2Header).wf :=
    ⟨hwf.hi, hwf.lo, hwf.dOff, ⟨Nat.pos_of_ne_zero hpart, Nat.lt_of_le_of_lt (Nat.mod_le _ _) hwf.dSize.2⟩, (by decide : (0:Nat) < 2 ^ 63)⟩
  refine resumeCore_header_refused api o roots _ tail hv2 hwf' (Or.inr ?_)
  have := hwf.dOff.1
  show 0 < H.dataOffset + n % 256 ^ (j - 24)
  omega
/-- `resumeCore_finalized_file` with ANY bytes after the payload (index, padding, nothing at all). -/
theorem resumeCore_finalized_any_tail (api : Api) (o : WOpts) (roots : Option (List Cid)) (log : List Block)
    (fi : Bool) (post : Bytes) (hv2 : o.v1 = false)
    (hwf : (CarHeader.mk roots 1).wf) (hmax : (encodeHeaderBody ⟨roots, 1⟩).length ≤ o.maxHeader)
    (hmax32 : (encodeHeaderBody ⟨roots, 1⟩).length ≤ 32 * 2 ^ 20)
    (lok : LayoutOK o.dataPad o.indexPad (payload roots log).length)
    (hlog : ∀ b ∈ log, b.cid.wf ∧ b.cid.digest.length ≤ maxDigestAlloc ∧ b.cid.byteLen + b.data.length < 2 ^ 63) :
    resumeCore api o roots ((pragma ++ ((finalHeader o.dataPad o.indexPad (payload roots log).length true fi).bytes ++
          (zeros o.dataPad ++ (payload roots log ++ post)))))
      = ([.truncate (51 + o.dataPad + (payload roots log).length)] ++ headerEvs {},
         .ok { api := api, file := o.filePrefix (zeros 40) ++ payload roots log, base := o.base,
               pos := (payload roots log).length, idx := insertAll [] (headerSize ⟨roots, 1⟩) log, roots := roots }) := by
  have h63 : (encodeHeaderBody ⟨roots, 1⟩).length < 2 ^ 63 := by
    have : (32 : Nat) * 2 ^ 20 < 2 ^ 63 := by decide
    omega
  have hp := payload_length_pos roots log
  have hfw := finalHeader_wf o.dataPad o.indexPad (payload roots log).length true fi hp lok
  have hplen := o.filePrefix_length (zeros 40) (by simp [zeros])
  have hbase : o.base = 51 + o.dataPad := by simp [WOpts.base, hv2]
  have hpre : o.filePrefix (zeros 40) = pragma ++ zeros 40 ++ zeros o.dataPad := by simp [WOpts.filePrefix, hv2]
  have hloop := resumeLoop_sections o.zeroEOF log (encodeHeader ⟨roots, 1⟩) []
      ((encodeHeader ⟨roots, 1⟩ ++ sectionsBytes log).length + 1)
      (by have := sectionsBytes_length_ge log; simp only [List.length_append]; omega) hlog
  -- shape of the file
  have hfile : (pragma ++ ((finalHeader o.dataPad o.indexPad (payload roots log).length true fi).bytes ++
          (zeros o.dataPad ++ (payload roots log ++ post))))
      = pragma ++ ((finalHeader o.dataPad o.indexPad (payload roots log).length true fi).bytes ++
          (zeros o.dataPad ++ (payload roots log ++ post))) := by
    simp [layoutV2]
  have hdrop11 : ((pragma ++ ((finalHeader o.dataPad o.indexPad (payload roots log).length true fi).bytes ++
          (zeros o.dataPad ++ (payload roots log ++ post))))).drop 11
      = (finalHeader o.dataPad o.indexPad (payload roots log).length true fi).bytes ++
          (zeros o.dataPad ++ (payload roots log ++ post)) := by
    rw [hfile]; exact List.drop_left' (by decide)
  have hprelen : (pragma ++ ((finalHeader o.dataPad o.indexPad (payload roots log).length true fi).bytes
      ++ zeros o.dataPad)).length = 51 + o.dataPad := by
    simp [V2Header.bytes_length, zeros_length, pragma, pragmaBody, keyVersion]; omega
  have hdropb : ((pragma ++ ((finalHeader o.dataPad o.indexPad (payload roots log).length true fi).bytes ++
          (zeros o.dataPad ++ (payload roots log ++ post))))).drop o.base
      = payload roots log ++ post := by
    rw [hfile, hbase]
    have e : pragma ++ ((finalHeader o.dataPad o.indexPad (payload roots log).length true fi).bytes ++
          (zeros o.dataPad ++ (payload roots log ++ post)))
        = (pragma ++ ((finalHeader o.dataPad o.indexPad (payload roots log).length true fi).bytes ++ zeros o.dataPad))
          ++ (payload roots log ++ post) := by simp
    rw [e, List.drop_left' hprelen]
  -- the two mutations
  have htrunc : Car.truncate ((pragma ++ ((finalHeader o.dataPad o.indexPad (payload roots log).length true fi).bytes ++
          (zeros o.dataPad ++ (payload roots log ++ post)))))
        (51 + o.dataPad + (payload roots log).length)
      = pragma ++ (finalHeader o.dataPad o.indexPad (payload roots log).length true fi).bytes
          ++ (zeros o.dataPad ++ payload roots log) := by
    have e : (pragma ++ ((finalHeader o.dataPad o.indexPad (payload roots log).length true fi).bytes ++
          (zeros o.dataPad ++ (payload roots log ++ post))))
        = (pragma ++ (finalHeader o.dataPad o.indexPad (payload roots log).length true fi).bytes
            ++ (zeros o.dataPad ++ payload roots log)) ++ post := by
      rw [hfile]; simp
    have hl : (pragma ++ (finalHeader o.dataPad o.indexPad (payload roots log).length true fi).bytes
            ++ (zeros o.dataPad ++ payload roots log)).length = 51 + o.dataPad + (payload roots log).length := by
      simp [V2Header.bytes_length, zeros_length, pragma, pragmaBody, keyVersion]; omega
    rw [e, ← hl, truncate_prefix]
  have hmut : applyWrites ((pragma ++ ((finalHeader o.dataPad o.indexPad (payload roots log).length true fi).bytes ++
          (zeros o.dataPad ++ (payload roots log ++ post)))))
        ([.truncate (51 + o.dataPad + (payload roots log).length)] ++ headerEvs {})
      = o.filePrefix (zeros 40) ++ payload roots log := by
    rw [applyWrites_append]
    have : applyWrites ((pragma ++ ((finalHeader o.dataPad o.indexPad (payload roots log).length true fi).bytes ++
          (zeros o.dataPad ++ (payload roots log ++ post)))))
        [.truncate (51 + o.dataPad + (payload roots log).length)]
        = pragma ++ (finalHeader o.dataPad o.indexPad (payload roots log).length true fi).bytes
          ++ (zeros o.dataPad ++ payload roots log) := by
      simp only [applyWrites, List.foldl_cons, List.foldl_nil, WriteEv.apply]; exact htrunc
    rw [this, headerEvs_apply _ _ (V2Header.bytes_length _), zeroHeader_bytes, hpre]; simp
  have hdrop2 : (o.filePrefix (zeros 40) ++ payload roots log).drop o.base = payload roots log :=
    List.drop_left' hplen
  have hoff : (finalHeader o.dataPad o.indexPad (payload roots log).length true fi).dataOffset = 51 + o.dataPad := by
    simp [finalHeader]
  have hsz : (finalHeader o.dataPad o.indexPad (payload roots log).length true fi).dataSize = (payload roots log).length := by
    simp [finalHeader]
  have hio : (finalHeader o.dataPad o.indexPad (payload roots log).length true fi).indexOffset
      = 51 + o.dataPad + (payload roots log).length + o.indexPad := by simp [finalHeader]
  unfold resumeCore
  simp only
  rw [hfile, readHeader_pragma _ _ (by decide)]
  rw [← hfile, hdrop11, readV2Header_bytes _ hfw]
  simp only [hv2, Bool.false_eq_true, and_false, not_false_eq_true, and_self, or_true, not_true_eq_false,
    ↓reduceIte, true_and, hoff, hsz, hio, hbase]
  have c1 : ¬ (51 + o.dataPad ≠ 0 ∧ 51 + o.dataPad ≠ 51 + o.dataPad) := by omega
  have c2 : ¬ (51 + o.dataPad ≠ 0 ∧ 51 + o.dataPad + (payload roots log).length + o.indexPad
      < 51 + o.dataPad + (payload roots log).length) := by omega
  have c3 : (51 + o.dataPad ≠ 0) := by omega
  simp only [c1, c2, c3, ↓reduceIte, ne_eq, not_false_eq_true]
  rw [← hbase, hdropb]
  simp only [payload, List.append_assoc]
  rw [readHeader_encode _ ⟨roots, 1⟩ _ hwf hmax h63]
  simp only [not_true_eq_false, CarHeader.rootList, rootsMatch_refl, Bool.not_true,
    Bool.false_eq_true, or_self, ↓reduceIte, headerSize]
  have hmut' := hmut
  simp only [payload, List.append_assoc, hbase] at hmut' hdrop2
  rw [hbase]
  rw [hmut', hdrop2]
  rw [hloop]
  have c4 : ¬ (51 + o.dataPad + (encodeHeader ⟨roots, 1⟩ ++ sectionsBytes log).length + o.indexPad
      < 51 + o.dataPad + (encodeHeader ⟨roots, 1⟩ ++ sectionsBytes log).length) := by omega
  simp only [and_false, ↓reduceIte, true_and, c4]

/-- the low `k` bytes of a little-endian field overwritten by zeros: the field of the value rounded down -/
theorem leN_low_zeroed (m : Nat) : ∀ (k n : Nat), k ≤ m →
    zeros k ++ (leN m n).drop k = leN m (n - n % 256 ^ k) := by
  induction m with
  | zero => intro k n hk; have : k = 0 := by omega
            subst this; simp [leN, zeros]
  | succ m ih =>
    intro k n hk
    cases k with
    | zero => simp [zeros, Nat.mod_one]
    | succ k =>
      have h1 : (n - n % 256 ^ (k + 1)) % 256 = 0 := by
        have : n - n % 256 ^ (k + 1) = 256 ^ (k + 1) * (n / 256 ^ (k + 1)) := by
          have := Nat.div_add_mod n (256 ^ (k + 1)); omega
        rw [this, Nat.pow_succ, Nat.mul_comm (256 ^ k) 256, Nat.mul_assoc]; exact Nat.mul_mod_right _ _
      have h2 : (n - n % 256 ^ (k + 1)) / 256 = n / 256 - (n / 256) % 256 ^ k := by
        have e1 : n % 256 ^ (k + 1) = n % 256 + 256 * (n / 256 % 256 ^ k) := by
          rw [Nat.pow_succ, Nat.mul_comm]; exact Nat.mod_mul
        have e2 := Nat.div_add_mod n 256
        have e3 : n / 256 % 256 ^ k ≤ n / 256 := Nat.mod_le _ _
        rw [e1]
        have : n - (n % 256 + 256 * (n / 256 % 256 ^ k)) = 256 * (n / 256 - n / 256 % 256 ^ k) := by
          rw [Nat.mul_sub]; omega
        rw [this, Nat.mul_div_cancel_left _ (by decide : 0 < 256)]
      simp only [leN, List.drop_succ_cons, h1, h2]
      rw [← ih k (n / 256) (by omega)]
      simp [zeros, List.replicate_succ]

theorem readV2Header_bytes_small_offset (h : V2Header) (hhi : h.charHi < 2 ^ 64) (hlo : h.charLo < 2 ^ 64)
    (hd : h.dataOffset < 51) (hs2 : h.dataSize < 2 ^ 64) (hio : h.indexOffset < 2 ^ 64) (rest : Bytes) :
    readV2Header (h.bytes ++ rest) = .error .badHeader := by
  unfold readV2Header
  have hlen : (h.bytes ++ rest).length = 40 + rest.length := by simp [V2Header.bytes_length]
  have c1 : ¬ ((h.bytes ++ rest).length < 16) := by omega
  have c2 : ¬ ((h.bytes ++ rest).length < 40) := by omega
  simp only [c1, c2, ↓reduceIte]
  have p64 : (2:Nat) ^ 63 < 2 ^ 64 := by decide
  have e : h.bytes ++ rest = le64 h.charHi ++ (le64 h.charLo ++ (le64 h.dataOffset ++ (le64 h.dataSize ++ (le64 h.indexOffset ++ rest)))) := by
    simp [V2Header.bytes]
  have t0 : (h.bytes ++ rest).take 8 = le64 h.charHi := by rw [e]; exact List.take_left' (le64_length _)
  have d8 : (h.bytes ++ rest).drop 8 = le64 h.charLo ++ (le64 h.dataOffset ++ (le64 h.dataSize ++ (le64 h.indexOffset ++ rest))) := by
    rw [e]; exact List.drop_left' (le64_length _)
  have d16 : (h.bytes ++ rest).drop 16 = le64 h.dataOffset ++ (le64 h.dataSize ++ (le64 h.indexOffset ++ rest)) := by
    rw [show 16 = 8 + 8 by rfl, ← List.drop_drop, d8]; exact List.drop_left' (le64_length _)
  have d24 : (h.bytes ++ rest).drop 24 = le64 h.dataSize ++ (le64 h.indexOffset ++ rest) := by
    rw [show 24 = 16 + 8 by rfl, ← List.drop_drop, d16]; exact List.drop_left' (le64_length _)
  have d32 : (h.bytes ++ rest).drop 32 = le64 h.indexOffset ++ rest := by
    rw [show 32 = 24 + 8 by rfl, ← List.drop_drop, d24]; exact List.drop_left' (le64_length _)
  have d40 : (h.bytes ++ rest).drop 40 = rest := by
    rw [show 40 = 32 + 8 by rfl, ← List.drop_drop, d32]; exact List.drop_left' (le64_length _)
  rw [t0, d8, d16, d24, d32, d40]
  rw [List.take_left' (le64_length _), List.take_left' (le64_length _), List.take_left' (le64_length _),
      List.take_left' (le64_length _)]
  have p64 : (51:Nat) < 2 ^ 64 := by decide
  rw [leVal_le64 _ hhi, leVal_le64 _ hlo, leVal_le64 _ (by omega), leVal_le64 _ hs2, leVal_le64 _ hio]
  have k1 : (int64Neg h.dataOffset = true ∨ h.dataOffset < pragmaSize + v2HeaderSize) := by
    right; simp [pragmaSize, v2HeaderSize]; omega
  simp only [k1, ↓reduceIte]

theorem le64_low_zeroed (k n : Nat) (hk : k ≤ 8) : zeros k ++ (le64 n).drop k = le64 (n - n % 256 ^ k) :=
  leN_low_zeroed 8 k n hk
theorem chunkFold_acc (parts : List Bytes) : ∀ (acc : List WriteEv) (off : Nat),
    (parts.foldl (fun (a : List WriteEv × Nat) p => (a.1 ++ [WriteEv.write a.2 p], a.2 + p.length)) (acc, off)).1
      = acc ++ (parts.foldl (fun (a : List WriteEv × Nat) p => (a.1 ++ [WriteEv.write a.2 p], a.2 + p.length)) ([], off)).1 := by
  induction parts with
  | nil => intro acc off; simp
  | cons p ps ih =>
    intro acc off
    simp only [List.foldl_cons, List.nil_append]
    rw [ih (acc ++ [WriteEv.write off p]), ih [WriteEv.write off p]]
    simp

theorem chunkEvs_cons (off : Nat) (p : Bytes) (ps : List Bytes) :
    chunkEvs off (p :: ps) = WriteEv.write off p :: chunkEvs (off + p.length) ps := by
  unfold chunkEvs
  simp only [List.foldl_cons, List.nil_append]
  rw [chunkFold_acc ps [WriteEv.write off p]]
  simp

theorem crashImage_cons_succ (F : Bytes) (w : WriteEv) (ws : List WriteEv) (k j : Nat) :
    crashImage F (w :: ws) (k + 1) j = crashImage (w.apply F) ws k j := by
  simp [crashImage, applyWrites, WriteEv.apply]

/-- Every crash image of a run of appending writes (one `Write` call per part, the first at the end of the
    file): the file, the parts that were written completely, and the first `j` bytes of the next one. -/
theorem crashImage_chunks : ∀ (parts : List Bytes) (F : Bytes) (k j : Nat),
    crashImage F (chunkEvs F.length parts) k j
      = F ++ (parts.take k).flatten ++ ((parts[k]?).getD []).take j := by
  intro parts
  induction parts with
  | nil => intro F k j; simp [chunkEvs, crashImage, applyWrites]
  | cons p ps ih =>
    intro F k j
    rw [chunkEvs_cons]
    cases k with
    | zero =>
      simp only [crashImage, List.take_zero, List.nil_append, List.getElem?_cons_zero, WriteEv.cut, applyWrites,
        List.flatten_nil, List.append_nil, Option.getD_some]
      by_cases hj : j = 0
      · simp [hj]
      · simp only [hj, ↓reduceIte, List.foldl_cons, List.foldl_nil, WriteEv.apply]
        by_cases hp : p.take j = []
        · simp [writeAt, hp]
        · rw [writeAt_end]
    | succ k =>
      rw [crashImage_cons_succ]
      simp only [WriteEv.apply]
      by_cases hp : p = []
      · subst hp
        simp only [writeAt_nil, List.length_nil, Nat.add_zero]
        rw [ih F k j]; simp
      · rw [writeAt_end]
        have := ih (F ++ p) k j
        simp only [List.length_append] at this
        rw [this]; simp

/-- … and such an image is the file followed by a PREFIX of the concatenated parts. -/
theorem chunks_prefix : ∀ (parts : List Bytes) (k j : Nat),
    ∃ m, m ≤ parts.flatten.length ∧ (parts.take k).flatten ++ ((parts[k]?).getD []).take j = parts.flatten.take m := by
  intro parts
  induction parts with
  | nil => intro k j; exact ⟨0, by simp, by simp⟩
  | cons p ps ih =>
    intro k j
    cases k with
    | zero =>
      refine ⟨min j p.length, by simp; omega, ?_⟩
      simp only [List.take_zero, List.flatten_nil, List.nil_append, List.getElem?_cons_zero, Option.getD_some,
        List.flatten_cons]
      rw [List.take_append_of_le_length (Nat.min_le_right _ _)]
      by_cases h : j ≤ p.length
      · rw [Nat.min_eq_left h]
      · rw [Nat.min_eq_right (by omega), List.take_of_length_le (by omega), List.take_of_length_le (Nat.le_refl _)]
    | succ k =>
      obtain ⟨m, hm, he⟩ := ih k j
      refine ⟨p.length + m, by rw [List.flatten_cons, List.length_append]; omega, ?_⟩
      have h1 : ((p :: ps).take (k + 1)).flatten ++ (((p :: ps)[k + 1]?).getD []).take j
          = p ++ ((ps.take k).flatten ++ ((ps[k]?).getD []).take j) := by
        simp [List.take_succ_cons]
      have h2 : (p :: ps).flatten.take (p.length + m) = p ++ ps.flatten.take m := by
        rw [List.flatten_cons, List.take_append, List.take_of_length_le (Nat.le_add_right _ _), Nat.add_sub_cancel_left]
      rw [h1, h2, he]
theorem writeAt_mid (a h rest d : Bytes) (hd : d.length ≤ h.length) :
    writeAt (a ++ h ++ rest) a.length d = a ++ (d ++ h.drop d.length) ++ rest := by
  by_cases hne : d = []
  · rw [hne]; simp [writeAt]
  · unfold writeAt
    have hl : ¬ ((a ++ h ++ rest).length < a.length) := by simp
    simp only [hne, ↓reduceIte, hl]
    have t1 : (a ++ h ++ rest).take a.length = a := by
      rw [List.append_assoc]; exact List.take_left' rfl
    have t2 : (a ++ h ++ rest).drop (a.length + d.length) = h.drop d.length ++ rest := by
      rw [List.append_assoc, ← List.drop_drop, List.drop_left' rfl, List.drop_append_of_le_length hd]
    rw [t1, t2]; simp

/-- Every crash image of the final header write (two writes: 16 bytes of characteristics at 11, 24 bytes of
    offsets at 27) over a zeroed header slot: the first `m` bytes of the header, the rest still zero. -/
theorem crashImage_header (H : V2Header) (rest : Bytes) (k j : Nat) :
    ∃ m, m ≤ 40 ∧ crashImage (pragma ++ zeros 40 ++ rest) (headerEvs H) k j
      = pragma ++ (H.bytes.take m ++ zeros (40 - m)) ++ rest := by
  have hp : pragma.length = 11 := by decide
  have c16l : (le64 H.charHi ++ le64 H.charLo).length = 16 := by simp [le64_length]
  have f24l : (le64 H.dataOffset ++ le64 H.dataSize ++ le64 H.indexOffset).length = 24 := by simp [le64_length]
  have hb : H.bytes = (le64 H.charHi ++ le64 H.charLo) ++ (le64 H.dataOffset ++ le64 H.dataSize ++ le64 H.indexOffset) := by
    simp [V2Header.bytes]
  have hev : headerEvs H = [.write 11 (le64 H.charHi ++ le64 H.charLo),
      .write 27 (le64 H.dataOffset ++ le64 H.dataSize ++ le64 H.indexOffset)] := by
    unfold headerEvs; rw [chunkEvs_cons, chunkEvs_cons]; simp [chunkEvs, c16l]
  rw [hev]
  cases k with
  | zero =>
    refine ⟨min j 16, by omega, ?_⟩
    simp only [crashImage, List.take_zero, List.nil_append, List.getElem?_cons_zero, WriteEv.cut]
    by_cases hj : j = 0
    · subst hj; simp [applyWrites, zeros]
    · simp only [hj, ↓reduceIte, applyWrites, List.foldl_cons, List.foldl_nil, WriteEv.apply]
      have hd : ((le64 H.charHi ++ le64 H.charLo).take j).length ≤ (zeros 40).length := by
        simp only [zeros, List.length_replicate, List.length_take, c16l]; omega
      have := writeAt_mid pragma (zeros 40) rest ((le64 H.charHi ++ le64 H.charLo).take j) hd
      rw [hp] at this
      rw [this]
      have e1 : H.bytes.take (min j 16) = (le64 H.charHi ++ le64 H.charLo).take j := by
        rw [hb, List.take_append_of_le_length (by rw [c16l]; exact Nat.min_le_right _ _)]
        by_cases h : j ≤ 16
        · rw [Nat.min_eq_left h]
        · rw [Nat.min_eq_right (by omega), List.take_of_length_le (by omega), List.take_of_length_le (by omega)]
      have e2 : (zeros 40).drop ((le64 H.charHi ++ le64 H.charLo).take j).length = zeros (40 - min j 16) := by
        simp only [zeros, List.drop_replicate, List.length_take, c16l]
      rw [e1, e2]
  | succ k =>
    have h1 : WriteEv.apply (pragma ++ zeros 40 ++ rest) (.write 11 (le64 H.charHi ++ le64 H.charLo))
        = (pragma ++ (le64 H.charHi ++ le64 H.charLo)) ++ zeros 24 ++ rest := by
      simp only [WriteEv.apply]
      have hd : (le64 H.charHi ++ le64 H.charLo).length ≤ (zeros 40).length := by
        simp only [zeros, List.length_replicate, c16l]; omega
      have := writeAt_mid pragma (zeros 40) rest (le64 H.charHi ++ le64 H.charLo) hd
      rw [hp] at this
      rw [this, c16l]; simp [zeros]
    rw [crashImage_cons_succ, h1]
    cases k with
    | zero =>
      refine ⟨16 + min j 24, by omega, ?_⟩
      simp only [crashImage, List.take_zero, List.nil_append, List.getElem?_cons_zero, WriteEv.cut]
      by_cases hj : j = 0
      · subst hj
        simp only [↓reduceIte, applyWrites, List.foldl_nil, Nat.zero_min, Nat.add_zero]
        rw [hb, List.take_left' c16l]; simp [zeros]
      · simp only [hj, ↓reduceIte, applyWrites, List.foldl_cons, List.foldl_nil, WriteEv.apply]
        have hd : ((le64 H.dataOffset ++ le64 H.dataSize ++ le64 H.indexOffset).take j).length ≤ (zeros 24).length := by
          simp only [zeros, List.length_replicate, List.length_take, f24l]; omega
        have hal : (pragma ++ (le64 H.charHi ++ le64 H.charLo)).length = 27 := by simp [hp, c16l]
        have := writeAt_mid (pragma ++ (le64 H.charHi ++ le64 H.charLo)) (zeros 24) rest
          ((le64 H.dataOffset ++ le64 H.dataSize ++ le64 H.indexOffset).take j) hd
        rw [hal] at this
        rw [this]
        have e1 : H.bytes.take (16 + min j 24)
            = (le64 H.charHi ++ le64 H.charLo) ++ (le64 H.dataOffset ++ le64 H.dataSize ++ le64 H.indexOffset).take j := by
          rw [hb, List.take_append, List.take_of_length_le (by rw [c16l]; omega), c16l, Nat.add_sub_cancel_left]
          congr 1
          by_cases h : j ≤ 24
          · rw [Nat.min_eq_left h]
          · rw [Nat.min_eq_right (by omega), List.take_of_length_le (by omega), List.take_of_length_le (by omega)]
        have e2 : (zeros 24).drop ((le64 H.dataOffset ++ le64 H.dataSize ++ le64 H.indexOffset).take j).length
            = zeros (40 - (16 + min j 24)) := by
          simp only [zeros, List.drop_replicate, List.length_take, f24l]; congr 1; omega
        rw [e1, e2]; simp
    | succ k =>
      refine ⟨40, by omega, ?_⟩
      rw [crashImage_cons_succ]
      have h2 : WriteEv.apply ((pragma ++ (le64 H.charHi ++ le64 H.charLo)) ++ zeros 24 ++ rest)
          (.write 27 (le64 H.dataOffset ++ le64 H.dataSize ++ le64 H.indexOffset))
          = pragma ++ H.bytes ++ rest := by
        simp only [WriteEv.apply]
        have hd : (le64 H.dataOffset ++ le64 H.dataSize ++ le64 H.indexOffset).length ≤ (zeros 24).length := by
          simp only [zeros, List.length_replicate, f24l]; omega
        have hal : (pragma ++ (le64 H.charHi ++ le64 H.charLo)).length = 27 := by simp [hp, c16l]
        have := writeAt_mid (pragma ++ (le64 H.charHi ++ le64 H.charLo)) (zeros 24) rest _ hd
        rw [hal] at this
        rw [this, f24l, hb]; simp [zeros]
      rw [h2]
      simp [crashImage, applyWrites, V2Header.bytes_length, zeros, List.take_of_length_le]
theorem writeAt_past_end (F d : Bytes) (ip : Nat) (hne : d ≠ []) :
    writeAt F (F.length + ip) d = F ++ zeros ip ++ d := by
  unfold writeAt
  simp only [hne, ↓reduceIte]
  by_cases h0 : ip = 0
  · subst h0
    have hl : ¬ (F.length < F.length + 0) := by omega
    simp only [hl, ↓reduceIte, Nat.add_zero, List.take_length, zeros, List.replicate_zero, List.append_nil]
    rw [List.drop_of_length_le (by simp)]; simp
  · have hl : F.length < F.length + ip := by omega
    simp only [hl, ↓reduceIte]
    have e : F.length + ip - F.length = ip := by omega
    rw [e]
    have hlen : (F ++ zeros ip).length = F.length + ip := by simp [zeros]
    rw [List.take_of_length_le (by omega), List.drop_of_length_le (by rw [hlen]; omega)]
    simp

/-- Crash images of a run of appending writes that starts `ip` bytes past the end of the file (the index
    after an index padding): nothing yet, or the file, the zero-filled hole and a prefix of the parts. -/
theorem crashImage_chunks_hole : ∀ (parts : List Bytes) (F : Bytes) (ip k j : Nat),
    crashImage F (chunkEvs (F.length + ip) parts) k j = F ∨
    ∃ m, crashImage F (chunkEvs (F.length + ip) parts) k j = F ++ zeros ip ++ parts.flatten.take m := by
  intro parts
  induction parts with
  | nil => intro F ip k j; left; simp [chunkEvs, crashImage, applyWrites]
  | cons p ps ih =>
    intro F ip k j
    rw [chunkEvs_cons]
    cases k with
    | zero =>
      simp only [crashImage, List.take_zero, List.nil_append, List.getElem?_cons_zero, WriteEv.cut]
      by_cases hj : j = 0
      · left; simp [hj, applyWrites]
      · simp only [hj, ↓reduceIte, applyWrites, List.foldl_cons, List.foldl_nil, WriteEv.apply]
        by_cases hp : p.take j = []
        · left; simp [writeAt, hp]
        · right
          refine ⟨min j p.length, ?_⟩
          rw [writeAt_past_end F _ ip hp, List.flatten_cons, List.take_append_of_le_length (Nat.min_le_right _ _)]
          congr 1
          by_cases h : j ≤ p.length
          · rw [Nat.min_eq_left h]
          · rw [Nat.min_eq_right (by omega), List.take_of_length_le (by omega), List.take_of_length_le (Nat.le_refl _)]
    | succ k =>
      rw [crashImage_cons_succ]
      simp only [WriteEv.apply]
      by_cases hp : p = []
      · subst hp
        simp only [writeAt_nil, List.length_nil, Nat.add_zero, List.flatten_cons, List.nil_append]
        exact ih F ip k j
      · right
        rw [writeAt_past_end F p ip hp]
        have hlen : (F ++ zeros ip ++ p).length = F.length + ip + p.length := by simp [zeros]; omega
        rw [← hlen, crashImage_chunks]
        obtain ⟨m, _, he⟩ := chunks_prefix ps k j
        refine ⟨p.length + m, ?_⟩
        rw [List.append_assoc (F ++ zeros ip ++ p), he, List.flatten_cons, List.take_append,
          List.take_of_length_le (Nat.le_add_right _ _), Nat.add_sub_cancel_left]
        simp
theorem readV2Header_bytes_zero_size (h : V2Header) (hhi : h.charHi < 2 ^ 64) (hlo : h.charLo < 2 ^ 64)
    (hd : h.dataOffset < 2 ^ 64) (hs : h.dataSize = 0) (hio : h.indexOffset < 2 ^ 64) (rest : Bytes) :
    ∃ e, readV2Header (h.bytes ++ rest) = .error e := by
  unfold readV2Header
  have hlen : (h.bytes ++ rest).length = 40 + rest.length := by simp [V2Header.bytes_length]
  have c1 : ¬ ((h.bytes ++ rest).length < 16) := by omega
  have c2 : ¬ ((h.bytes ++ rest).length < 40) := by omega
  simp only [c1, c2, ↓reduceIte]
  have p64 : (2:Nat) ^ 63 < 2 ^ 64 := by decide
  have e : h.bytes ++ rest = le64 h.charHi ++ (le64 h.charLo ++ (le64 h.dataOffset ++ (le64 h.dataSize ++ (le64 h.indexOffset ++ rest)))) := by
    simp [V2Header.bytes]
  have t0 : (h.bytes ++ rest).take 8 = le64 h.charHi := by rw [e]; exact List.take_left' (le64_length _)
  have d8 : (h.bytes ++ rest).drop 8 = le64 h.charLo ++ (le64 h.dataOffset ++ (le64 h.dataSize ++ (le64 h.indexOffset ++ rest))) := by
    rw [e]; exact List.drop_left' (le64_length _)
  have d16 : (h.bytes ++ rest).drop 16 = le64 h.dataOffset ++ (le64 h.dataSize ++ (le64 h.indexOffset ++ rest)) := by
    rw [show 16 = 8 + 8 by rfl, ← List.drop_drop, d8]; exact List.drop_left' (le64_length _)
  have d24 : (h.bytes ++ rest).drop 24 = le64 h.dataSize ++ (le64 h.indexOffset ++ rest) := by
    rw [show 24 = 16 + 8 by rfl, ← List.drop_drop, d16]; exact List.drop_left' (le64_length _)
  have d32 : (h.bytes ++ rest).drop 32 = le64 h.indexOffset ++ rest := by
    rw [show 32 = 24 + 8 by rfl, ← List.drop_drop, d24]; exact List.drop_left' (le64_length _)
  have d40 : (h.bytes ++ rest).drop 40 = rest := by
    rw [show 40 = 32 + 8 by rfl, ← List.drop_drop, d32]; exact List.drop_left' (le64_length _)
  rw [t0, d8, d16, d24, d32, d40]
  rw [List.take_left' (le64_length _), List.take_left' (le64_length _), List.take_left' (le64_length _),
      List.take_left' (le64_length _)]
  rw [leVal_le64 _ hhi, leVal_le64 _ hlo, leVal_le64 _ hd, leVal_le64 _ (by rw [hs]; decide), leVal_le64 _ hio]
  simp only [hs]
  split
  · exact ⟨_, rfl⟩
  · simp
end Car
