import CarModel.Proofs.V2
import CarModel.Proofs.CidReader
import CarModel.Proofs.IndexGen
namespace Car

/-- Invariant of a block reader positioned inside a valid payload: `done` sections consumed,
    `rem` still ahead; `br.offset` is the true source offset of the next length prefix. -/
structure BRInv (br : BR) (hdr : Nat) (done rem : List Block) : Prop where
  rest : br.rest = sectionsBytes rem
  offset : br.offset = br.v1offset + hdr + (sectionsBytes done).length
  size : br.seekable = true → br.srcLen = br.offset + (sectionsBytes rem).length

theorem sectionsBytes_append_length (a : List Block) (b : Block) :
    (sectionsBytes (a ++ [b])).length = (sectionsBytes a).length + sectionSize b := by
  simp [sectionsBytes, sectionBytes_length]

theorem br_next_step (H : HashFn) (o : ReadOpts) (br : BR) (hdr : Nat) (done rem : List Block) (b : Block)
    (inv : BRInv br hdr done (b :: rem)) (hwf : b.wf o.maxSection) (hv : checkBlock H o.trusted b = .ok ()) :
    ∃ br', br.next H o = .ok (b, br') ∧ BRInv br' hdr (done ++ [b]) rem ∧
      br'.v1offset = br.v1offset ∧ br'.seekable = br.seekable ∧ br'.srcLen = br.srcLen := by
  unfold BR.next
  rw [inv.rest, sectionsBytes_cons, nextBlock_section H o b _ hwf hv]
  refine ⟨_, rfl, ⟨rfl, ?_, ?_⟩, rfl, rfl, rfl⟩
  · simp only; rw [inv.offset, sectionsBytes_append_length]; simp only [sectionSize]; omega
  · intro hs
    have := inv.size hs
    simp only at this ⊢
    rw [this, sectionsBytes_cons, List.length_append, sectionBytes_length]
    simp only [sectionSize]; omega

theorem ldReadSize_section (zeroEOF : Bool) (max : Nat) (b : Block) (rest : Bytes)
    (hmax : b.cid.byteLen + b.data.length ≤ max) (h63 : b.cid.byteLen + b.data.length < 2 ^ 63) :
    ldReadSize zeroEOF max (sectionBytes b ++ rest)
      = .ok (b.cid.byteLen + b.data.length, b.cid.bytes ++ (b.data ++ rest)) := by
  have hpos := cid_byteLen_pos b.cid
  unfold ldReadSize
  have e : sectionBytes b ++ rest
      = uvarint (b.cid.byteLen + b.data.length) ++ (b.cid.bytes ++ (b.data ++ rest)) := by
    simp [sectionBytes]
  rw [e, readUvarint_uvarint _ h63]
  have c0 : ¬ (b.cid.byteLen + b.data.length = 0 ∧ zeroEOF = true) := by omega
  have c1 : ¬ (b.cid.byteLen + b.data.length > max) := by omega
  simp only [c0, c1, ↓reduceIte]

theorem br_skip_step (o : ReadOpts) (br : BR) (hdr : Nat) (done rem : List Block) (b : Block)
    (inv : BRInv br hdr done (b :: rem)) (hwf : b.wf o.maxSection) (hd : b.cid.digest.length ≤ maxDigestAlloc) :
    ∃ br', br.skipNext o = .ok (⟨b.cid, hdr + (sectionsBytes done).length,
                                  br.v1offset + hdr + (sectionsBytes done).length, b.data.length⟩, br') ∧
      BRInv br' hdr (done ++ [b]) rem ∧
      br'.v1offset = br.v1offset ∧ br'.seekable = br.seekable ∧ br'.srcLen = br.srcLen := by
  obtain ⟨hc, hmax, h63⟩ := hwf
  have hpos := cid_byteLen_pos b.cid
  unfold BR.skipNext
  rw [inv.rest, sectionsBytes_cons, ldReadSize_section o.zeroEOF o.maxSection b _ hmax h63]
  have c2 : ¬ (b.cid.byteLen + b.data.length = 0) := by omega
  simp only [c2, ↓reduceIte]
  have htake : (b.cid.bytes ++ (b.data ++ sectionsBytes rem)).take (b.cid.byteLen + b.data.length)
      = b.cid.bytes ++ b.data := by
    rw [← List.append_assoc]; exact List.take_left' (by simp [Cid.byteLen])
  rw [htake, cidFromReader_bytes b.cid hc hd]
  simp only
  have hdrop : (b.cid.bytes ++ (b.data ++ sectionsBytes rem)).drop b.cid.byteLen = b.data ++ sectionsBytes rem :=
    List.drop_left' rfl
  rw [hdrop]
  have hbs : b.cid.byteLen + b.data.length - b.cid.byteLen = b.data.length := by omega
  rw [hbs, List.drop_left' rfl]
  have hoff := inv.offset
  by_cases hs : br.seekable = true
  · have hsz := inv.size hs
    rw [sectionsBytes_cons, List.length_append, sectionBytes_length] at hsz
    have c3 : ¬ (br.offset + uvarintSize (b.cid.byteLen + b.data.length) + (b.cid.byteLen + b.data.length) > br.srcLen) := by
      rw [hsz]; simp only [sectionSize]; omega
    simp only [hs, ↓reduceIte, c3]
    have hsub : br.v1offset + hdr + (sectionsBytes done).length - br.v1offset = hdr + (sectionsBytes done).length := by omega
    rw [hoff] at hsz ⊢
    rw [hsub]
    refine ⟨_, rfl, ⟨rfl, ?_, ?_⟩, rfl, rfl, rfl⟩
    · simp only; rw [sectionsBytes_append_length]; simp only [sectionSize]; omega
    · intro _; simp only; rw [hsz]; simp only [sectionSize]; omega
  · have hs' : br.seekable = false := by simpa using hs
    have c3 : ¬ ((b.data ++ sectionsBytes rem).length < b.data.length) := by simp
    simp only [hs', Bool.false_eq_true, ↓reduceIte, c3]
    have hsub : br.v1offset + hdr + (sectionsBytes done).length - br.v1offset = hdr + (sectionsBytes done).length := by omega
    rw [hoff, hsub]
    refine ⟨_, rfl, ⟨rfl, ?_, ?_⟩, rfl, rfl, rfl⟩
    · simp only; rw [sectionsBytes_append_length]; simp only [sectionSize]; omega
    · intro h; simp at h

theorem br_end (H : HashFn) (o : ReadOpts) (br : BR) (hdr : Nat) (done : List Block) (inv : BRInv br hdr done []) :
    br.next H o = .error .eof ∧ br.skipNext o = .error .eof := by
  unfold BR.next BR.skipNext
  rw [inv.rest]
  simp [sectionsBytes, nextBlock_nil, ldReadSize, readUvarint, readUvarintAux, verr]

/-- The expected visit of block `b` at payload offset `off` under choice `skip`. -/
def expectedVisit (skip : Bool) (base off : Nat) (b : Block) : Visit :=
  if skip then .skipped ⟨b.cid, off, base + off, b.data.length⟩ else .read b

def expectedVisits (choice : Nat → Bool) (base : Nat) : (i off : Nat) → List Block → List Visit
  | _, _, [] => []
  | i, off, b :: bs => expectedVisit (choice i) base off b :: expectedVisits choice base (i + 1) (off + sectionSize b) bs

theorem runChoices_valid (H : HashFn) (o : ReadOpts) (choice : Nat → Bool) (hdr : Nat) :
    ∀ (rem done : List Block) (br : BR) (i fuel : Nat), BRInv br hdr done rem → rem.length < fuel →
    (∀ b ∈ rem, b.wf o.maxSection ∧ checkBlock H o.trusted b = .ok () ∧ b.cid.digest.length ≤ maxDigestAlloc) →
    BR.runChoices H o choice fuel i br
      = (expectedVisits choice br.v1offset i (hdr + (sectionsBytes done).length) rem, .eof) := by
  intro rem
  induction rem with
  | nil =>
    intro done br i fuel inv hf _
    cases fuel with
    | zero => omega
    | succ f =>
      obtain ⟨h1, h2⟩ := br_end H o br hdr done inv
      unfold BR.runChoices
      cases choice i <;> simp [h1, h2, expectedVisits]
  | cons b tl ih =>
    intro done br i fuel inv hf hok
    cases fuel with
    | zero => omega
    | succ f =>
      obtain ⟨hwf, hv, hd⟩ := hok b (by simp)
      unfold BR.runChoices
      cases hc : choice i with
      | true =>
        obtain ⟨br', hstep, inv', hv1, _, _⟩ := br_skip_step o br hdr done tl b inv hwf hd
        simp only [↓reduceIte, hstep]
        rw [ih (done ++ [b]) br' (i + 1) f inv' (by simpa using hf) (fun x hx => hok x (by simp [hx]))]
        simp only [expectedVisits, hc, expectedVisit, ↓reduceIte, hv1, sectionsBytes_append_length, Nat.add_assoc]
      | false =>
        obtain ⟨br', hstep, inv', hv1, _, _⟩ := br_next_step H o br hdr done tl b inv hwf hv
        simp only [Bool.false_eq_true, ↓reduceIte, hstep]
        rw [ih (done ++ [b]) br' (i + 1) f inv' (by simpa using hf) (fun x hx => hok x (by simp [hx]))]
        simp only [expectedVisits, hc, expectedVisit, Bool.false_eq_true, ↓reduceIte, hv1, sectionsBytes_append_length, Nat.add_assoc]

end Car
