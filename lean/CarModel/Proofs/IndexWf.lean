import CarModel.Proofs.IndexSearch
import CarModel.Proofs.IndexSer
/-
`Load` of either sorted codec produces a well-formed index (the premise of the serialisation
round trip), for record sets whose digests and total size stay within the format's limits.
-/
namespace Car

/-- removing duplicates from an ascending list leaves a strictly ascending list -/
theorem eraseDups_strict : ∀ (n : Nat) (l : List Nat), l.length ≤ n →
    l.Pairwise (fun a b => a ≤ b) → l.eraseDups.Pairwise (fun a b => a < b) := by
  intro n
  induction n with
  | zero =>
    intro l hl _
    have : l = [] := List.eq_nil_of_length_eq_zero (by omega)
    subst this; simp
  | succ k ih =>
    intro l hl hs
    cases l with
    | nil => simp
    | cons a t =>
      rw [List.eraseDups_cons]
      have hst : t.Pairwise (fun a b => a ≤ b) := (List.pairwise_cons.mp hs).2
      have hat : ∀ b ∈ t, a ≤ b := (List.pairwise_cons.mp hs).1
      have hflen : (t.filter fun b => !(b == a)).length ≤ k := by
        have := List.length_filter_le (fun b => !(b == a)) t
        simp only [List.length_cons] at hl; omega
      have hfs : (t.filter fun b => !(b == a)).Pairwise (fun a b => a ≤ b) := hst.filter _
      have hrec := ih _ hflen hfs
      rw [List.pairwise_cons]
      refine ⟨?_, hrec⟩
      intro b hb
      rw [List.mem_eraseDups, List.mem_filter] at hb
      have h1 := hat b hb.1
      have h2 : b ≠ a := by simpa using hb.2
      omega

theorem distinctSorted_strict (l : List Nat) : (distinctSorted l).Pairwise (fun a b => a < b) := by
  unfold distinctSorted
  apply eraseDups_strict _ _ (Nat.le_refl _)
  have := List.pairwise_mergeSort natLe_trans natLe_total l
  exact this.imp (fun h => by simpa using h)

end Car

namespace Car

theorem eraseDups_length_le : ∀ (n : Nat) (l : List Nat), l.length ≤ n → l.eraseDups.length ≤ l.length := by
  intro n
  induction n with
  | zero =>
    intro l hl
    have : l = [] := List.eq_nil_of_length_eq_zero (by omega)
    subst this; simp
  | succ k ih =>
    intro l hl
    cases l with
    | nil => simp
    | cons a t =>
      rw [List.eraseDups_cons]
      have hf := List.length_filter_le (fun b => !(b == a)) t
      have := ih (t.filter fun b => !(b == a)) (by simp only [List.length_cons] at hl; omega)
      simp only [List.length_cons]; omega

theorem distinctSorted_length_le (l : List Nat) : (distinctSorted l).length ≤ l.length := by
  unfold distinctSorted
  have := eraseDups_length_le _ (l.mergeSort fun a b => decide (a ≤ b)) (Nat.le_refl _)
  simpa using this

theorem compactOf_length (w : Nat) (l : Pairs) (hok : PairsOK w l) : (compactOf l).length = l.length * (w + 8) := by
  induction l with
  | nil => simp [compactOf]
  | cons p t ih =>
    have hp := hok p (by simp)
    have := ih (fun q hq => hok q (by simp [hq]))
    simp only [compactOf, List.flatMap_cons, List.length_append, compactEntry_length, hp.1] at this ⊢
    rw [this, List.length_cons, Nat.add_mul]; omega

/-- limits under which a record set fits the on-disk format -/
structure RecordsOK (rs : List Record) : Prop where
  width : ∀ r ∈ rs, r.cid.digest.length + 8 ≤ maxIndexWidth
  off : ∀ r ∈ rs, r.offset < 2 ^ 64
  code : ∀ r ∈ rs, r.cid.mhCode < 2 ^ 64
  count : rs.length < 2 ^ 31

theorem RecordsOK.filter {rs : List Record} (h : RecordsOK rs) (p : Record → Bool) : RecordsOK (rs.filter p) :=
  ⟨fun r hr => h.width r (List.mem_filter.mp hr).1, fun r hr => h.off r (List.mem_filter.mp hr).1,
   fun r hr => h.code r (List.mem_filter.mp hr).1,
   Nat.lt_of_le_of_lt (List.length_filter_le p rs) h.count⟩

/-- **`multiWidthIndex.Load` yields a well-formed index.** -/
theorem multiWidth_load_wf (rs : List Record) (hok : RecordsOK rs) : MultiWidth.wf (MultiWidth.load rs) := by
  unfold MultiWidth.load
  simp only [load_bucket]
  refine ⟨?_, ?_, ?_⟩
  · intro s hs
    obtain ⟨w, hw, rfl⟩ := List.mem_map.mp hs
    rw [mem_distinctSorted] at hw
    obtain ⟨r, hr, hrw⟩ := List.mem_map.mp hw
    have hpo := groupPairs_ok rs w hok.off
    have hcl := compactOf_length w (groupPairs rs w) hpo
    have hgl : (groupPairs rs w).length ≤ rs.length := by
      simp only [groupPairs, List.length_map, List.length_mergeSort]
      exact List.length_filter_le _ _
    refine ⟨by simp [bucketOf], ?_, ?_, ?_⟩
    · have := hok.width r hr
      simp only [bucketOf]; omega
    · simp only [bucketOf, hcl]
      have h1 : w + 8 ≤ maxIndexWidth := by have := hok.width r hr; omega
      have h2 := hok.count
      have : (groupPairs rs w).length * (w + 8) ≤ 2 ^ 31 * maxIndexWidth :=
        Nat.mul_le_mul (by omega) h1
      unfold maxIndexWidth at this
      omega
    · simp only [bucketOf, hcl]
      rw [Nat.mul_div_cancel _ (by omega)]
  · rw [List.pairwise_map]
    exact (distinctSorted_strict _).imp (fun h => by simp only [bucketOf]; omega)
  · simp only [List.length_map]
    have := distinctSorted_length_le (rs.map fun r => r.cid.digest.length)
    have := hok.count
    simp only [List.length_map] at *
    omega

/-- **`MultihashIndexSorted.Load` yields a well-formed index.** -/
theorem mhIndex_load_wf (rs : List Record) (hok : RecordsOK rs) : MhIndex.wf (MhIndex.load rs) := by
  unfold MhIndex.load
  refine ⟨?_, ?_, ?_⟩
  · intro e he
    obtain ⟨c, hc, rfl⟩ := List.mem_map.mp he
    rw [mem_distinctSorted] at hc
    obtain ⟨r, hr, hrc⟩ := List.mem_map.mp hc
    exact ⟨by rw [← hrc]; exact hok.code r hr, multiWidth_load_wf _ (hok.filter _)⟩
  · rw [List.pairwise_map]
    exact (distinctSorted_strict _).imp (fun h => h)
  · simp only [List.length_map]
    have := distinctSorted_length_le (rs.map fun r => r.cid.mhCode)
    have := hok.count
    simp only [List.length_map] at *
    omega

theorem index_load_wf (codec : Nat) (rs : List Record) (ix : Index) (h : Index.load codec rs = some ix)
    (hok : RecordsOK rs) : ix.wf := by
  unfold Index.load at h
  by_cases h1 : codec = codecSorted
  · simp only [h1, ↓reduceIte, Option.some.injEq] at h
    subst h
    exact multiWidth_load_wf rs hok
  · by_cases h2 : codec = codecMhSorted
    · subst h2
      have hne : ¬ (codecMhSorted = codecSorted) := by decide
      simp only [hne, ↓reduceIte, Option.some.injEq] at h
      subst h
      exact mhIndex_load_wf rs hok
    · simp [h1, h2] at h

end Car
