import CarModel.Cli
import CarModel.Proofs.IndexGen
import CarModel.Proofs.V2
import CarModel.Proofs.IndexWf
import CarModel.Proofs.Container
/-
The `car` sub-commands on valid inputs: what `car index` and `car concat` emit.
-/
namespace Car.Cli
open Car

/-- IndexCar's loop over well-formed sections records every one (identity CIDs included) at its
    offset and copies up to the end. -/
theorem indexWalk_sections (p : Bytes) :
    ∀ (rem : List Block) (pre : Bytes) (acc : List Record) (fuel : Nat),
    p = pre ++ sectionsBytes rem → rem.length < fuel →
    (∀ b ∈ rem, b.cid.wf ∧ b.cid.digest.length ≤ maxDigestAlloc ∧ b.cid.byteLen + b.data.length < 2 ^ 63) →
    indexWalk p fuel pre.length acc = .ok (acc ++ withOffsets pre.length rem, p.length) := by
  intro rem
  induction rem with
  | nil =>
    intro pre acc fuel hp hf _
    cases fuel with
    | zero => omega
    | succ f =>
      unfold indexWalk
      have : p.drop pre.length = [] := by rw [hp]; simp [sectionsBytes]
      rw [this]
      simp [readUvarint, readUvarintAux, withOffsets, hp, sectionsBytes]
  | cons b tl ih =>
    intro pre acc fuel hp hf hok
    cases fuel with
    | zero => omega
    | succ f =>
      obtain ⟨hwf, hdig, h63⟩ := hok b (by simp)
      have hpos := cid_byteLen_pos b.cid
      have hseclen := sectionBytes_length b
      unfold indexWalk
      have hdrop : p.drop pre.length
          = uvarint (b.cid.byteLen + b.data.length) ++ (b.cid.bytes ++ (b.data ++ sectionsBytes tl)) := by
        rw [hp, sectionsBytes_cons, List.drop_left' rfl]
        simp [sectionBytes]
      rw [hdrop, readUvarint_uvarint _ h63]
      simp only
      have c0 : ¬ (b.cid.byteLen + b.data.length = 0) := by omega
      simp only [c0, ↓reduceIte]
      rw [cidFromReader_bytes b.cid hwf hdig]
      simp only
      have c1 : ¬ (b.cid.byteLen + b.data.length < b.cid.byteLen) := by omega
      have c2 : ¬ ((b.data ++ sectionsBytes tl).length < b.cid.byteLen + b.data.length - b.cid.byteLen) := by
        simp only [List.length_append]; omega
      simp only [c1, c2, ↓reduceIte]
      have hpl : p.length = pre.length + sectionSize b + (sectionsBytes tl).length := by
        rw [hp, sectionsBytes_cons]; simp only [List.length_append, hseclen]; omega
      have hnext : p.length - (b.cid.bytes ++ (b.data ++ sectionsBytes tl)).length + (b.cid.byteLen + b.data.length)
          = (pre ++ sectionBytes b).length := by
        rw [hpl]; simp only [List.length_append, hseclen, sectionSize, Cid.byteLen]; omega
      rw [hnext]
      rw [ih (pre ++ sectionBytes b) _ f (by rw [hp, sectionsBytes_cons]; simp) (by simpa using hf)
            (fun x hx => hok x (by simp [hx]))]
      simp [withOffsets, hseclen]

/-- a block list every section of which IndexCar can walk -/
def Walkable (bs : List Block) : Prop :=
  ∀ b ∈ bs, b.cid.wf ∧ b.cid.digest.length ≤ maxDigestAlloc ∧ b.cid.byteLen + b.data.length < 2 ^ 63

/-- `car index --codec c` of a valid CARv1 = pragma, a header for the payload, the payload byte for
    byte, and the index of exactly its sections. -/
theorem indexCmd_v1 (maxHeader : Nat) (c : Nat) (roots : Option (List Cid)) (bs : List Block) (ix : Index)
    (hwf : (CarHeader.mk roots 1).wf) (hmax : (encodeHeaderBody ⟨roots, 1⟩).length ≤ maxHeader)
    (h63 : (encodeHeaderBody ⟨roots, 1⟩).length < 2 ^ 63) (hok : Walkable bs)
    (hix : Index.load c (withOffsets (headerSize ⟨roots, 1⟩) bs) = some ix) :
    indexCmd maxHeader 2 (some c) (payload roots bs)
      = .ok (pragma ++ (V2Header.new (payload roots bs).length).bytes ++ payload roots bs ++ ix.bytes) := by
  unfold indexCmd openPayload
  unfold payload
  rw [readHeader_encode maxHeader ⟨roots, 1⟩ _ hwf hmax h63]
  simp only [↓reduceIte, show ¬ ((2 : Nat) = 1) by decide]
  rw [readHeader_encode maxHeader ⟨roots, 1⟩ _ hwf hmax h63]
  simp only
  have hpos : (encodeHeader ⟨roots, 1⟩ ++ sectionsBytes bs).length - (sectionsBytes bs).length
      = (encodeHeader ⟨roots, 1⟩).length := by simp
  rw [hpos]
  have hw := indexWalk_sections (encodeHeader ⟨roots, 1⟩ ++ sectionsBytes bs) bs (encodeHeader ⟨roots, 1⟩) []
    ((encodeHeader ⟨roots, 1⟩ ++ sectionsBytes bs).length + 1) rfl
    (by have := sectionsBytes_length_ge bs; simp only [List.length_append]; omega) hok
  rw [hw]
  simp only [List.nil_append]
  have : withOffsets (encodeHeader ⟨roots, 1⟩).length bs = withOffsets (headerSize ⟨roots, 1⟩) bs := rfl
  rw [this, hix]
  simp only [List.take_length]
  rw [List.drop_left' rfl]
  simp

/-- what `concat` reads of one valid input: its header and its sections -/
theorem concat_part (maxHeader : Nat) (roots : Option (List Cid)) (bs : List Block)
    (hwf : (CarHeader.mk roots 1).wf) (hmax : (encodeHeaderBody ⟨roots, 1⟩).length ≤ maxHeader)
    (h63 : (encodeHeaderBody ⟨roots, 1⟩).length < 2 ^ 63) :
    openPayload maxHeader (payload roots bs) = .ok (1, payload roots bs, {}) ∧
    readHeader maxHeader (payload roots bs) = .ok (⟨roots, 1⟩, sectionsBytes bs) := by
  unfold openPayload payload
  rw [readHeader_encode maxHeader ⟨roots, 1⟩ _ hwf hmax h63]
  simp

/-- a valid CARv1 input of `concat`: roots (non-empty: the root-module reader insists) and blocks -/
structure ConcatIn (maxHeader : Nat) (roots : Option (List Cid)) : Prop where
  wf : (CarHeader.mk roots 1).wf
  max : (encodeHeaderBody ⟨roots, 1⟩).length ≤ maxHeader
  h63 : (encodeHeaderBody ⟨roots, 1⟩).length < 2 ^ 63
  nonempty : (roots.getD []).isEmpty = false

/-- `car concat` of valid CARv1 inputs = the first input's header followed by the sections of all
    inputs in order, i.e. the payload of the first roots over the concatenated block lists. -/
theorem concatParts_valid (maxHeader : Nat) :
    ∀ (l : List (Option (List Cid) × List Block)), (∀ x ∈ l, ConcatIn maxHeader x.1) →
      concatParts maxHeader (l.map fun x => payload x.1 x.2)
        = .ok (l.map fun x => (encodeHeader ⟨x.1, 1⟩, sectionsBytes x.2)) := by
  intro l
  induction l with
  | nil => intro _; rfl
  | cons x tl ih =>
    intro hx
    have hc := hx x (by simp)
    obtain ⟨e1, e2⟩ := concat_part maxHeader x.1 x.2 hc.wf hc.max hc.h63
    simp only [List.map_cons, concatParts, e1, e2, ne_eq, not_true_eq_false, ↓reduceIte, hc.nonempty,
      Bool.false_eq_true, ih (fun y hy => hx y (by simp [hy]))]

theorem concat_v1 (maxHeader : Nat) (r1 : Option (List Cid)) (b1 : List Block) (rest : List (Option (List Cid) × List Block))
    (h1 : ConcatIn maxHeader r1) (hrest : ∀ x ∈ rest, ConcatIn maxHeader x.1) :
    concatCmd maxHeader 1 (payload r1 b1 :: rest.map fun x => payload x.1 x.2)
      = .ok (payload r1 (b1 ++ rest.flatMap (·.2))) := by
  have hall := concatParts_valid maxHeader ((r1, b1) :: rest) (by
    intro x hx
    simp only [List.mem_cons] at hx
    rcases hx with rfl | hx
    · exact h1
    · exact hrest x hx)
  have hsec : ∀ (l : List (Option (List Cid) × List Block)),
      (l.map fun x => (encodeHeader ⟨x.1, 1⟩, sectionsBytes x.2)).flatMap (·.2) = sectionsBytes (l.flatMap (·.2)) := by
    intro l
    induction l with
    | nil => simp [sectionsBytes]
    | cons x tl ih => simp only [List.map_cons, List.flatMap_cons, ih]; simp [sectionsBytes]
  simp only [List.map_cons] at hall
  unfold concatCmd
  rw [hall]
  simp only [show ¬ ((1 : Nat) = 2) by decide, ↓reduceIte, hsec]
  simp [payload, sectionsBytes]

end Car.Cli

namespace Car.Cli
open Car

theorem mem_withOffsets (b : Block) : ∀ (bs : List Block) (h : Nat), b ∈ bs → ∃ off, (⟨b.cid, off⟩ : Record) ∈ withOffsets h bs := by
  intro bs
  induction bs with
  | nil => intro h hb; cases hb
  | cons x t ih =>
    intro h hb
    simp only [List.mem_cons] at hb
    rcases hb with rfl | hb
    · exact ⟨h, by simp [withOffsets]⟩
    · obtain ⟨off, ho⟩ := ih (h + sectionSize x) hb
      exact ⟨off, by simp [withOffsets, ho]⟩

/-- **`car verify` accepts what `car index` emits**: for every valid payload whose roots are among its
    blocks, the layout pragma ++ header ++ payload ++ index-of-its-sections passes every rule of
    `VerifyCar` — header consistency, full hash-verifying scan, roots present, and an index lookup
    for every non-identity block. -/
theorem verify_accepts_indexed (H : HashFn) (o : ReadOpts) (codec : Nat) (roots : List Cid) (bs : List Block) (ix : Index)
    (hne : roots.isEmpty = false) (hin : (roots.all fun r => bs.any fun b => b.cid == r) = true)
    (ok : PayloadOK H o (some roots) bs) (h10 : 10 ≤ o.maxHeader)
    (lok : LayoutOK 0 0 (payload (some roots) bs).length)
    (hix : Index.load codec (withOffsets (headerSize ⟨some roots, 1⟩) bs) = some ix)
    (hrec : RecordsOK (withOffsets (headerSize ⟨some roots, 1⟩) bs)) :
    verifyCar H o (layoutV2 0 0 (payload (some roots) bs) true false ix.bytes) = .ok () := by
  have hp := payload_length_pos (some roots) bs
  have hfw := finalHeader_wf 0 0 (payload (some roots) bs).length true false hp lok
  have hscan := scanBlockReader_v2 H o true 0 0 (some roots) bs true false ix.bytes ok h10 lok
  have e : layoutV2 0 0 (payload (some roots) bs) true false ix.bytes
      = pragma ++ ((finalHeader 0 0 (payload (some roots) bs).length true false).bytes ++ (payload (some roots) bs ++ ix.bytes)) := by
    simp [layoutV2, zeros]
  have hlen : (layoutV2 0 0 (payload (some roots) bs) true false ix.bytes).length
      = 51 + (payload (some roots) bs).length + ix.bytes.length := by
    rw [e]; simp [pragma, pragmaBody, keyVersion, V2Header.bytes_length]; omega
  have hdrop : (layoutV2 0 0 (payload (some roots) bs) true false ix.bytes).drop (51 + (payload (some roots) bs).length) = ix.bytes := by
    have hpre : (pragma ++ ((finalHeader 0 0 (payload (some roots) bs).length true false).bytes ++ payload (some roots) bs)).length
        = 51 + (payload (some roots) bs).length := by
      simp [pragma, pragmaBody, keyVersion, V2Header.bytes_length]; omega
    have e2 : layoutV2 0 0 (payload (some roots) bs) true false ix.bytes
        = (pragma ++ ((finalHeader 0 0 (payload (some roots) bs).length true false).bytes ++ payload (some roots) bs)) ++ ix.bytes := by
      rw [e]; simp
    rw [e2, List.drop_left' hpre]
  unfold verifyCar
  rw [hscan]
  rw [e, readHeader_pragma o.maxHeader _ h10]
  simp only [show ¬ ((2 : Nat) = 1) by decide, ↓reduceIte]
  rw [readV2Header_bytes _ hfw]
  simp only [Option.getD_some, hne, Bool.false_eq_true, ↓reduceIte]
  rw [← e]
  have hds : (finalHeader 0 0 (payload (some roots) bs).length true false).dataSize = (payload (some roots) bs).length := by
    simp [finalHeader]
  have hdo : (finalHeader 0 0 (payload (some roots) bs).length true false).dataOffset = 51 := by simp [finalHeader]
  have hio : (finalHeader 0 0 (payload (some roots) bs).length true false).indexOffset = 51 + (payload (some roots) bs).length := by
    simp [finalHeader]
  simp only [hds, hdo, hio]
  have c1 : ¬ ((payload (some roots) bs).length = 0) := by omega
  have c2 : ¬ (51 + (payload (some roots) bs).length = 0) := by omega
  simp only [c1, c2, decide_false, Bool.false_or, Bool.and_false, Nat.lt_irrefl, bne_iff_ne, ne_eq, not_false_eq_true,
    decide_true, Bool.true_and, Bool.or_false, Bool.false_eq_true, ↓reduceIte, hin, Bool.not_true]
  rw [hdrop]
  have hrt := index_roundtrip ix (index_load_wf codec _ ix hix hrec) []
  simp only [List.append_nil] at hrt
  rw [hrt]
  simp only
  have hall : (bs.all fun b => b.cid.isIdentity || !(ix.getAll b.cid).isEmpty) = true := by
    rw [List.all_eq_true]
    intro b hb
    obtain ⟨off, hoff⟩ := mem_withOffsets b bs (headerSize ⟨some roots, 1⟩) hb
    have := (index_getAll_load codec _ ix hix hrec.off b.cid off).mpr ⟨⟨b.cid, off⟩, hoff, fun _ => rfl, rfl, rfl⟩
    have hnn : (ix.getAll b.cid).isEmpty = false := by
      cases hg : ix.getAll b.cid with
      | nil => rw [hg] at this; cases this
      | cons _ _ => rfl
    simp [hnn]
  simp [hall]

/-- **`VerifyCar` accepts every indexed CARv2 layout** (any data / index padding, either flag): for every
    valid payload whose roots are among its blocks, pragma ++ header ++ padding ++ payload ++ padding ++
    index-of-its-sections passes every rule of `VerifyCar` — header consistency, full hash-verifying
    scan, roots present, and an index lookup for every non-identity block. -/
theorem verify_accepts_layout (H : HashFn) (o : ReadOpts) (dp ip : Nat) (fi : Bool) (codec : Nat) (roots : List Cid)
    (bs : List Block) (rs : List Record) (ix : Index)
    (hne : roots.isEmpty = false) (hin : (roots.all fun r => bs.any fun b => b.cid == r) = true)
    (ok : PayloadOK H o (some roots) bs) (h10 : 10 ≤ o.maxHeader)
    (lok : LayoutOK dp ip (payload (some roots) bs).length)
    (hix : Index.load codec rs = some ix) (hrec : RecordsOK rs)
    (hmem : ∀ b ∈ bs, ∃ off, (⟨b.cid, off⟩ : Record) ∈ rs) :
    verifyCar H o (layoutV2 dp ip (payload (some roots) bs) true fi ix.bytes) = .ok () := by
  have hp := payload_length_pos (some roots) bs
  have hscan := scanBlockReader_v2 H o true dp ip (some roots) bs true fi ix.bytes ok h10 lok
  generalize hn : (payload (some roots) bs).length = n at *
  have hfw := finalHeader_wf dp ip n true fi hp lok
  generalize hh : finalHeader dp ip n true fi = hdr at *
  have hdo : hdr.dataOffset = 51 + dp := by rw [← hh]; rfl
  have hds : hdr.dataSize = n := by rw [← hh]; rfl
  have hio : hdr.indexOffset = 51 + dp + n + ip := by rw [← hh]; rfl
  have e : layoutV2 dp ip (payload (some roots) bs) true fi ix.bytes
      = pragma ++ (hdr.bytes ++ (zeros dp ++ (payload (some roots) bs ++ (zeros ip ++ ix.bytes)))) := by
    simp [layoutV2, hn, hh]
  have hdrop : (layoutV2 dp ip (payload (some roots) bs) true fi ix.bytes).drop (51 + dp + n + ip) = ix.bytes := by
    have hpre : (pragma ++ (hdr.bytes ++ (zeros dp ++ (payload (some roots) bs ++ zeros ip)))).length = 51 + dp + n + ip := by
      simp [pragma, pragmaBody, keyVersion, V2Header.bytes_length, zeros_length, hn]; omega
    have e2 : layoutV2 dp ip (payload (some roots) bs) true fi ix.bytes
        = (pragma ++ (hdr.bytes ++ (zeros dp ++ (payload (some roots) bs ++ zeros ip)))) ++ ix.bytes := by
      rw [e]; simp
    rw [e2, List.drop_left' hpre]
  unfold verifyCar
  rw [hscan]
  rw [e, readHeader_pragma o.maxHeader _ h10]
  simp only [show ¬ ((2 : Nat) = 1) by decide, ↓reduceIte]
  rw [readV2Header_bytes _ hfw]
  simp only [Option.getD_some, hne, Bool.false_eq_true, ↓reduceIte]
  rw [← e]
  simp only [hds, hdo, hio]
  have c1 : ¬ (n = 0) := by omega
  have c2 : ¬ (51 + dp + n + ip = 0) := by omega
  have c3 : ¬ (51 + dp < 51) := by omega
  have c4 : ¬ (51 + dp + n + ip < 51 + n) := by omega
  simp only [c1, c2, c3, c4, decide_false, Bool.false_or, Bool.and_false, bne_iff_ne, ne_eq, not_false_eq_true,
    decide_true, Bool.true_and, Bool.or_false, Bool.false_eq_true, ↓reduceIte, hin, Bool.not_true]
  rw [hdrop]
  have hrt := index_roundtrip ix (index_load_wf codec _ ix hix hrec) []
  simp only [List.append_nil] at hrt
  rw [hrt]
  simp only
  have hall : (bs.all fun b => b.cid.isIdentity || !(ix.getAll b.cid).isEmpty) = true := by
    rw [List.all_eq_true]
    intro b hb
    obtain ⟨off, hoff⟩ := hmem b hb
    have := (index_getAll_load codec _ ix hix hrec.off b.cid off).mpr ⟨⟨b.cid, off⟩, hoff, fun _ => rfl, rfl, rfl⟩
    have hnn : (ix.getAll b.cid).isEmpty = false := by
      cases hg : ix.getAll b.cid with
      | nil => rw [hg] at this; cases this
      | cons _ _ => rfl
    simp [hnn]
  simp [hall]

end Car.Cli
