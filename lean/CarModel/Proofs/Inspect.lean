import CarModel.Inspect
import CarModel.Proofs.Decoders
import CarModel.Proofs.IndexGen
namespace Car

/-- what a successful `Next()` tells us about the bytes it consumed -/
theorem nextBlock_inv (H : HashFn) (o : ReadOpts) (w : Bytes) (b : Block) (rest' : Bytes)
    (h : nextBlock H o w = .ok (b, rest')) :
    ∃ l r1 n, readUvarint w = .ok (l, r1) ∧ ¬ (l = 0 ∧ o.zeroEOF = true) ∧ l ≤ o.maxSection ∧ l ≤ r1.length ∧
      cidFromBytes (r1.take l) = .ok (n, b.cid) ∧ b.data = (r1.take l).drop n ∧ rest' = r1.drop l ∧
      (o.trusted = false → sumOk H b.cid b.data = true ∧ verifies H b.cid b.data = true) := by
  unfold nextBlock readNode ldRead ldReadSize at h
  cases hv : readUvarint w with
  | error e => simp [hv] at h
  | ok p =>
    obtain ⟨l, r1⟩ := p
    simp only [hv] at h
    by_cases hz : l = 0 ∧ o.zeroEOF = true
    · simp [hz] at h
    · simp only [hz, ↓reduceIte] at h
      by_cases hm : l > o.maxSection
      · simp [hm] at h
      · simp only [hm, ↓reduceIte] at h
        by_cases hs : r1.length < l
        · simp [hs] at h
        · simp only [hs, ↓reduceIte] at h
          cases hc : cidFromBytes (r1.take l) with
          | error e => simp [hc] at h
          | ok q =>
            obtain ⟨n, c⟩ := q
            simp only [hc] at h
            cases hk : checkBlock H o.trusted ⟨c, (r1.take l).drop n⟩ with
            | error e => simp [hk] at h
            | ok u =>
              simp only [hk] at h
              injection h with h; injection h with hb hr
              subst hb hr
              refine ⟨l, r1, n, rfl, hz, by omega, by omega, hc, rfl, rfl, ?_⟩
              intro ht
              unfold checkBlock at hk
              simp only [ht, Bool.false_eq_true, ↓reduceIte] at hk
              by_cases hsum : sumOk H c ((r1.take l).drop n) = true
              · simp only [hsum, Bool.not_true, Bool.false_eq_true, ↓reduceIte] at hk
                by_cases hver : verifies H c ((r1.take l).drop n) = true
                · exact ⟨hsum, hver⟩
                · simp [hver] at hk
              · simp [hsum] at hk

/-- the only ways `Next()` reports a clean end -/
theorem nextBlock_eof_inv (H : HashFn) (o : ReadOpts) (w : Bytes) (h : nextBlock H o w = .error .eof) :
    readUvarint w = .error .eof ∨ (∃ r, readUvarint w = .ok (0, r) ∧ o.zeroEOF = true) := by
  unfold nextBlock readNode ldRead ldReadSize at h
  cases hv : readUvarint w with
  | error e => cases e <;> simp_all [verr]
  | ok p =>
    obtain ⟨l, r1⟩ := p
    simp only [hv] at h
    by_cases hz : l = 0 ∧ o.zeroEOF = true
    · right; exact ⟨r1, by rw [hz.1], hz.2⟩
    · exfalso
      simp only [hz, ↓reduceIte] at h
      by_cases hm : l > o.maxSection
      · simp [hm] at h
      · simp only [hm, ↓reduceIte] at h
        by_cases hs : r1.length < l
        · simp [hs] at h
        · simp only [hs, ↓reduceIte] at h
          cases hc : cidFromBytes (r1.take l) with
          | error e => simp [hc] at h
          | ok q =>
            simp only [hc] at h
            cases hk : checkBlock H o.trusted ⟨q.2, (r1.take l).drop q.1⟩ with
            | ok u => simp [hk] at h
            | error e =>
              simp only [hk] at h
              injection h with h
              subst h
              unfold checkBlock at hk
              split at hk
              · cases hk
              · split at hk
                · cases hk
                · split at hk <;> cases hk

/-- a parsed CID lies inside the buffer it was parsed from -/
theorem cidFromBytes_bounds (sec : Bytes) (n : Nat) (c : Cid) (h : cidFromBytes sec = .ok (n, c)) :
    n ≤ sec.length ∧ c.digest.length ≤ sec.length := by
  unfold cidFromBytes at h
  split at h
  · split at h
    · cases h
    · rename_i hl
      injection h with h; injection h with hn hc; subst hn hc
      simp only [List.length_take, List.length_drop]
      omega
  · split at h
    · cases h
    · rename_i vers r1 hv
      split at h
      · cases h
      · split at h
        · cases h
        · rename_i codec r2 hc
          split at h
          · cases h
          · rename_i n' code dig hmh
            injection h with h; injection h with hn hcid; subst hn hcid
            obtain ⟨p1, hp1⟩ := readUvarint_suffix sec vers r1 hv
            obtain ⟨p2, hp2⟩ := readUvarint_suffix r1 codec r2 hc
            unfold mhFromBytes at hmh
            split at hmh
            · cases hmh
            · split at hmh
              · cases hmh
              · rename_i code' r3 hcode
                split at hmh
                · cases hmh
                · rename_i len r4 hlen
                  split at hmh
                  · cases hmh
                  · split at hmh
                    · cases hmh
                    · injection hmh with hmh; injection hmh with hn' hrest; injection hrest with _ hdg
                      obtain ⟨p3, hp3⟩ := readUvarint_suffix r2 code' r3 hcode
                      obtain ⟨p4, hp4⟩ := readUvarint_suffix r3 len r4 hlen
                      subst hn' hdg
                      simp only [List.length_take]
                      rw [hp1, hp2, hp3, hp4]
                      simp only [List.length_append]
                      omega

def seenOf (b : Block) : Seen := ⟨b.cid, b.cid.byteLen, b.data.length⟩

/-- **C13 core, for every byte string**: whenever the verifying section scan of `w` succeeds
    (clean end), Inspect's own full-validation walk over the same bytes succeeds too and has seen
    exactly the scanned blocks — with each block's true data length, and the CID length the parser
    consumed. -/
theorem scan_implies_inspectLoop (H : HashFn) (hU : H.Uniform) (o : ReadOpts) (ht : o.trusted = false)
    (hcap : o.maxSection ≤ maxDigestAlloc) :
    ∀ (fuel : Nat) (w : Bytes) (bs : List Block) (acc : List Seen),
    scanAux H o fuel w = (bs, .eof) →
    ∃ lens : List Nat, lens.length = bs.length ∧
      inspectLoop H o true fuel w acc
        = .ok (acc ++ (bs.zip lens).map fun p => ⟨p.1.cid, p.2, p.1.data.length⟩) := by
  intro fuel
  induction fuel with
  | zero => intro w bs acc h; simp [scanAux] at h
  | succ f ih =>
    intro w bs acc h
    unfold scanAux at h
    cases hn : nextBlock H o w with
    | error e =>
      simp only [hn] at h
      injection h with hb he
      subst hb he
      refine ⟨[], rfl, ?_⟩
      unfold inspectLoop
      rcases nextBlock_eof_inv H o w hn with hv | ⟨r, hv, hz⟩
      · simp [hv]
      · simp [hv, hz]
    | ok p =>
      obtain ⟨b, rest'⟩ := p
      simp only [hn] at h
      injection h with hb he
      obtain ⟨l, r1, n, hv, hz, hmax, hlen, hc, hdata, hrest, hchk⟩ := nextBlock_inv H o w b rest' hn
      obtain ⟨hsum, hver⟩ := hchk ht
      obtain ⟨hnle, hdle⟩ := cidFromBytes_bounds _ n b.cid hc
      have htl : (r1.take l).length = l := by simp; omega
      have hsplit : r1 = r1.take l ++ r1.drop l := (List.take_append_drop l r1).symm
      have hagree := cidFromReader_of_cidFromBytes (r1.take l) (r1.drop l) n b.cid hc (by omega)
      rw [← hsplit] at hagree
      obtain ⟨lens, hll, hrec⟩ := ih rest' (scanAux H o f rest').1 (acc ++ [⟨b.cid, n, b.data.length⟩])
        (by rw [← he])
      refine ⟨n :: lens, by rw [← hb]; simp [hll], ?_⟩
      unfold inspectLoop
      rw [hv]
      simp only [hz, ↓reduceIte]
      have c1 : ¬ (l > o.maxSection) := by omega
      simp only [c1, ↓reduceIte, hagree]
      have c2 : ¬ (l < n) := by omega
      simp only [c2, ↓reduceIte]
      have hdl : ((r1.take l).drop n).length = l - n := by simp [htl]
      have htake : ((r1.take l).drop n ++ r1.drop l).take (l - n) = b.data := by
        rw [hdata]; exact List.take_left' hdl
      have hdrop : ((r1.take l).drop n ++ r1.drop l).drop (l - n) = rest' := by
        rw [hrest]; exact List.drop_left' hdl
      rw [htake, hdrop]
      have c3 : ¬ (b.data.length < l - n) := by rw [hdata, hdl]; omega
      have hpre : preOk H b.cid = true := by rw [preOk_eq_sumOk H hU b.cid b.data]; exact hsum
      simp only [c3, ↓reduceIte, hsum, hver, hpre, Bool.not_true, Bool.false_eq_true]
      have hbl : l - n = b.data.length := by rw [hdata, hdl]
      rw [hbl, hrec, ← hb]
      simp

end Car

namespace Car

/-- Inspect's walk over well-formed, honest sections sees exactly them, with exact lengths. -/
theorem inspectLoop_sections (H : HashFn) (hU : H.Uniform) (o : ReadOpts) (validate : Bool) :
    ∀ (bs : List Block) (acc : List Seen) (fuel : Nat), bs.length < fuel →
    (∀ b ∈ bs, b.wf o.maxSection ∧ b.cid.digest.length ≤ maxDigestAlloc ∧
      (validate = true → sumOk H b.cid b.data = true ∧ verifies H b.cid b.data = true)) →
    inspectLoop H o validate fuel (sectionsBytes bs) acc = .ok (acc ++ bs.map seenOf) := by
  intro bs
  induction bs with
  | nil =>
    intro acc fuel hf _
    cases fuel with
    | zero => omega
    | succ f => simp [inspectLoop, sectionsBytes, readUvarint, readUvarintAux]
  | cons b tl ih =>
    intro acc fuel hf hok
    cases fuel with
    | zero => omega
    | succ f =>
      obtain ⟨⟨hwf, hmax, h63⟩, hdig, hval⟩ := hok b (by simp)
      have hpos := cid_byteLen_pos b.cid
      unfold inspectLoop
      have e : sectionsBytes (b :: tl)
          = uvarint (b.cid.byteLen + b.data.length) ++ (b.cid.bytes ++ (b.data ++ sectionsBytes tl)) := by
        simp [sectionsBytes, sectionBytes]
      rw [e, readUvarint_uvarint _ h63]
      simp only
      have c0 : ¬ (b.cid.byteLen + b.data.length = 0 ∧ o.zeroEOF = true) := by omega
      have c1 : ¬ (b.cid.byteLen + b.data.length > o.maxSection) := by omega
      simp only [c0, c1, ↓reduceIte]
      rw [cidFromReader_bytes b.cid hwf hdig]
      simp only
      have c2 : ¬ (b.cid.byteLen + b.data.length < b.cid.byteLen) := by omega
      simp only [c2, ↓reduceIte, Nat.add_sub_cancel_left]
      rw [List.take_left' rfl, List.drop_left' rfl]
      have hrec := ih (acc ++ [seenOf b]) f (by simpa using hf) (fun x hx => hok x (by simp [hx]))
      cases validate with
      | false =>
        simp only [Bool.false_eq_true, ↓reduceIte]
        simp only [seenOf] at hrec
        rw [hrec]; simp [seenOf]
      | true =>
        obtain ⟨hs, hv⟩ := hval rfl
        have hpre : preOk H b.cid = true := by rw [preOk_eq_sumOk H hU b.cid b.data]; exact hs
        simp only [↓reduceIte, Nat.lt_irrefl, hs, hv, hpre, Bool.not_true, Bool.false_eq_true]
        simp only [seenOf] at hrec
        rw [hrec]; simp [seenOf]

end Car
