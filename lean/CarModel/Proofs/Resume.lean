import CarModel.Resume
import CarModel.Proofs.Finalize
namespace Car

/-- records of `rem` laid out from `off`, inserted one by one (what Resume's rescan builds) -/
def insertAll (ix : InsIndex) (off : Nat) : List Block → InsIndex
  | [] => ix
  | b :: bs => insertAll (ix.insert ⟨b.cid, off⟩) (off + sectionSize b) bs

theorem insertAll_perm (ix : InsIndex) (off : Nat) (bs : List Block) :
    List.Perm (insertAll ix off bs) (ix ++ withOffsets off bs) := by
  induction bs generalizing ix off with
  | nil => simp [insertAll, withOffsets]
  | cons b tl ih =>
    simp only [insertAll, withOffsets]
    refine (ih _ _).trans ?_
    have h1 := insIndex_insert_perm ix ⟨b.cid, off⟩
    refine (List.Perm.append_right _ h1).trans ?_
    simp only [List.cons_append]
    exact (List.perm_middle).symm

/-- Resume's section scan over a payload window that is exactly header + complete sections:
    every section is indexed at its offset and the writer lands at the end. -/
theorem resumeLoop_sections (zeroEOF : Bool) :
    ∀ (rem : List Block) (pre : Bytes) (ix : InsIndex) (fuel : Nat),
    rem.length < fuel →
    (∀ b ∈ rem, b.cid.wf ∧ b.cid.digest.length ≤ maxDigestAlloc ∧ b.cid.byteLen + b.data.length < 2 ^ 63) →
    resumeLoop zeroEOF (pre ++ sectionsBytes rem) fuel pre.length ix
      = .ok (insertAll ix pre.length rem, (pre ++ sectionsBytes rem).length) := by
  intro rem
  induction rem with
  | nil =>
    intro pre ix fuel hf _
    cases fuel with
    | zero => omega
    | succ f =>
      unfold resumeLoop
      simp [sectionsBytes, readUvarint, readUvarintAux, insertAll]
  | cons b tl ih =>
    intro pre ix fuel hf hok
    cases fuel with
    | zero => omega
    | succ f =>
      obtain ⟨hwf, hdig, h63⟩ := hok b (by simp)
      have hpos := cid_byteLen_pos b.cid
      unfold resumeLoop
      have hdrop : (pre ++ sectionsBytes (b :: tl)).drop pre.length
          = uvarint (b.cid.byteLen + b.data.length) ++ (b.cid.bytes ++ (b.data ++ sectionsBytes tl)) := by
        rw [List.drop_left' rfl, sectionsBytes_cons]; simp [sectionBytes]
      rw [hdrop, readUvarint_uvarint _ h63]
      simp only
      have c0 : ¬ (b.cid.byteLen + b.data.length = 0) := by omega
      simp only [c0, ↓reduceIte]
      rw [cidFromReader_bytes b.cid hwf hdig]
      simp only
      have hlen : (pre ++ sectionsBytes (b :: tl)).length
          = pre.length + sectionSize b + (sectionsBytes tl).length := by
        rw [sectionsBytes_cons]; simp only [List.length_append, sectionBytes_length]; omega
      have hafter : (pre ++ sectionsBytes (b :: tl)).length - (b.data ++ sectionsBytes tl).length
          = pre.length + uvarintSize (b.cid.byteLen + b.data.length) + b.cid.byteLen := by
        rw [hlen]; simp only [List.length_append, sectionSize]; omega
      rw [hafter]
      have hnext : ((pre.length + uvarintSize (b.cid.byteLen + b.data.length) + b.cid.byteLen : Nat) : Int)
          + (((b.cid.byteLen + b.data.length : Nat) : Int) - (b.cid.byteLen : Int))
          = ((pre.length + sectionSize b : Nat) : Int) := by
        simp only [sectionSize]; omega
      rw [hnext]
      have c1 : ¬ (((pre.length + sectionSize b : Nat) : Int) < 0) := by omega
      have c2 : ¬ (b.cid.byteLen + b.data.length > b.cid.byteLen ∧
          ((pre.length + sectionSize b : Nat) : Int).toNat > (pre ++ sectionsBytes (b :: tl)).length) := by
        rw [hlen]; simp only [Int.toNat_natCast]; omega
      simp only [c1, c2, ↓reduceIte, Int.toNat_natCast]
      have hpl : (pre ++ sectionBytes b).length = pre.length + sectionSize b := by simp [sectionBytes_length]
      have e : pre ++ sectionsBytes (b :: tl) = (pre ++ sectionBytes b) ++ sectionsBytes tl := by
        rw [sectionsBytes_cons]; simp
      rw [e, ← hpl]
      rw [ih (pre ++ sectionBytes b) _ f (by simpa using hf) (fun x hx => hok x (by simp [hx]))]
      simp [insertAll, hpl]
      intro _; rw [sectionBytes_length]; omega

theorem rootsMatch_refl (a : List Cid) : rootsMatch a a = true := by
  simp [rootsMatch]

end Car

namespace Car

theorem zeroHeader_bytes : ({} : V2Header).bytes = zeros 40 := by decide

theorem readV2Header_zeros (rest : Bytes) : ∃ e, readV2Header (zeros 40 ++ rest) = .error e := by
  refine ⟨.badHeader, ?_⟩
  unfold readV2Header
  have hl : ¬ ((zeros 40 ++ rest).length < 16) := by simp [zeros]
  have hl2 : ¬ ((zeros 40 ++ rest).length < 40) := by simp [zeros]
  simp only [hl, hl2, ↓reduceIte]
  have : leVal (((zeros 40 ++ rest).drop 16).take 8) = 0 := by
    have : ((zeros 40 ++ rest).drop 16).take 8 = zeros 8 := by
      have e : zeros 40 ++ rest = zeros 16 ++ (zeros 8 ++ (zeros 16 ++ rest)) := by
        simp [zeros, ← List.append_assoc, List.replicate_append_replicate]
      rw [e, List.drop_left' (by simp [zeros]), List.take_left' (by simp [zeros])]
    rw [this]; decide
  rw [this]
  simp [int64Neg, pragmaSize, v2HeaderSize]

/-- The exact result of `Resume` on an un-finalised file laid out as prefix + payload. -/
theorem resumeCore_open_file (api : Api) (o : WOpts) (roots : Option (List Cid)) (log : List Block)
    (hwf : (CarHeader.mk roots 1).wf) (hmax : (encodeHeaderBody ⟨roots, 1⟩).length ≤ o.maxHeader)
    (hmax32 : (encodeHeaderBody ⟨roots, 1⟩).length ≤ 32 * 2 ^ 20)
    (hlog : ∀ b ∈ log, b.cid.wf ∧ b.cid.digest.length ≤ maxDigestAlloc ∧ b.cid.byteLen + b.data.length < 2 ^ 63) :
    resumeCore api o roots (o.filePrefix (zeros 40) ++ payload roots log)
      = ((if o.v1 then [] else headerEvs {}),
         .ok { api := api, file := o.filePrefix (zeros 40) ++ payload roots log, base := o.base,
               pos := (payload roots log).length, idx := insertAll [] (headerSize ⟨roots, 1⟩) log, roots := roots }) := by
  have h63 : (encodeHeaderBody ⟨roots, 1⟩).length < 2 ^ 63 := by
    have : (32 : Nat) * 2 ^ 20 < 2 ^ 63 := by decide
    omega
  have hplen := o.filePrefix_length (zeros 40) (by simp [zeros])
  have hdropb : (o.filePrefix (zeros 40) ++ payload roots log).drop o.base = payload roots log :=
    List.drop_left' hplen
  have hloop := resumeLoop_sections o.zeroEOF log (encodeHeader ⟨roots, 1⟩) []
      ((encodeHeader ⟨roots, 1⟩ ++ sectionsBytes log).length + 1)
      (by have := sectionsBytes_length_ge log; simp only [List.length_append]; omega) hlog
  by_cases hv : o.v1 = true
  · have hpre : o.filePrefix (zeros 40) = [] := by simp [WOpts.filePrefix, hv]
    have hb0 : o.base = 0 := by simp [WOpts.base, hv]
    simp only [hpre, List.nil_append] at hdropb ⊢
    unfold resumeCore
    simp only [payload]
    rw [readHeader_encode _ ⟨roots, 1⟩ _ hwf hmax32 h63]
    simp only [hv, and_self, true_or, not_true_eq_false, ↓reduceIte, false_and]
    rw [hb0, List.drop_zero, readHeader_encode _ ⟨roots, 1⟩ _ hwf hmax h63]
    simp only [ne_eq, not_true_eq_false, CarHeader.rootList, rootsMatch_refl, Bool.not_true, Bool.false_eq_true,
      or_self, ↓reduceIte, show ({} : V2Header).dataOffset = 0 from rfl, List.append_nil, applyWrites,
      List.foldl_nil, List.drop_zero, headerSize]
    rw [hloop]
  · have hv' : o.v1 = false := by simpa using hv
    have hpre : o.filePrefix (zeros 40) = pragma ++ zeros 40 ++ zeros o.dataPad := by simp [WOpts.filePrefix, hv']
    have hfile : o.filePrefix (zeros 40) ++ payload roots log
        = pragma ++ (zeros 40 ++ (zeros o.dataPad ++ payload roots log)) := by rw [hpre]; simp
    have hdrop11 : (o.filePrefix (zeros 40) ++ payload roots log).drop 11
        = zeros 40 ++ (zeros o.dataPad ++ payload roots log) := by
      rw [hfile]; exact List.drop_left' (by decide)
    obtain ⟨e0, he0⟩ := readV2Header_zeros (zeros o.dataPad ++ payload roots log)
    have hwr : applyWrites (o.filePrefix (zeros 40) ++ (encodeHeader ⟨roots, 1⟩ ++ sectionsBytes log)) (headerEvs {})
        = o.filePrefix (zeros 40) ++ (encodeHeader ⟨roots, 1⟩ ++ sectionsBytes log) := by
      have e : o.filePrefix (zeros 40) ++ (encodeHeader ⟨roots, 1⟩ ++ sectionsBytes log)
          = pragma ++ zeros 40 ++ (zeros o.dataPad ++ (encodeHeader ⟨roots, 1⟩ ++ sectionsBytes log)) := by
        rw [hpre]; simp
      rw [e, headerEvs_apply (zeros 40) _ (by simp [zeros]), zeroHeader_bytes]
    have hdrop2 : (o.filePrefix (zeros 40) ++ (encodeHeader ⟨roots, 1⟩ ++ sectionsBytes log)).drop o.base
        = encodeHeader ⟨roots, 1⟩ ++ sectionsBytes log := List.drop_left' hplen
    unfold resumeCore
    simp only
    rw [hfile, readHeader_pragma _ _ (by decide)]
    rw [← hfile, hdrop11, he0]
    simp only [hv', Bool.false_eq_true, and_false, not_false_eq_true, and_self, or_true, not_true_eq_false,
      ↓reduceIte, show ({} : V2Header).dataOffset = 0 from rfl, ne_eq, true_and, false_and, List.nil_append]
    rw [hdropb]
    simp only [payload]
    rw [readHeader_encode _ ⟨roots, 1⟩ _ hwf hmax h63]
    simp only [not_true_eq_false, CarHeader.rootList, rootsMatch_refl, Bool.not_true,
      Bool.false_eq_true, or_self, ↓reduceIte, headerSize]
    rw [hwr, hdrop2, hloop]

/-- Reopening an un-finalised file (after Discard, or a session that just stopped): the resumed
    store satisfies the invariant for the same log — same bytes, writer at the end, index rebuilt. -/
theorem resume_open_file (api : Api) (o : WOpts) (roots : Option (List Cid)) (log : List Block)
    (hwf : (CarHeader.mk roots 1).wf) (hmax : (encodeHeaderBody ⟨roots, 1⟩).length ≤ o.maxHeader)
    (hmax32 : (encodeHeaderBody ⟨roots, 1⟩).length ≤ 32 * 2 ^ 20)
    (hlog : ∀ b ∈ log, b.cid.wf ∧ b.cid.digest.length ≤ maxDigestAlloc ∧ b.cid.byteLen + b.data.length < 2 ^ 63) :
    ∃ s, (resume api o roots (o.filePrefix (zeros 40) ++ payload roots log)).res = .ok s ∧
      Inv o roots s log ∧ s.closed = false ∧ s.finalized = false ∧ s.api = api ∧
      s.file = o.filePrefix (zeros 40) ++ payload roots log := by
  refine ⟨{ api := api, file := o.filePrefix (zeros 40) ++ payload roots log, base := o.base,
            pos := (payload roots log).length, idx := insertAll [] (headerSize ⟨roots, 1⟩) log, roots := roots },
    by simp only [resume, resumeCore_open_file api o roots log hwf hmax hmax32 hlog], ?_, rfl, rfl, rfl, rfl⟩
  refine ⟨rfl, ⟨zeros 40, [], by simp [zeros], by simp, fun _ _ => rfl⟩, rfl, ?_, rfl⟩
  have := insertAll_perm [] (headerSize ⟨roots, 1⟩) log
  simpa using this

end Car

namespace Car

theorem truncate_prefix (a b : Bytes) : truncate (a ++ b) a.length = a := by
  unfold truncate
  have : ¬ ((a ++ b).length < a.length) := by simp
  simp only [this, ↓reduceIte]
  exact List.take_left' rfl

/-- The exact result of `Resume` on a finalised CARv2 (index after the payload): the index is cut
    off, the header is un-finalised, and the store is rebuilt from the sections. -/
theorem resumeCore_finalized_file (api : Api) (o : WOpts) (roots : Option (List Cid)) (log : List Block)
    (fi : Bool) (index : Bytes) (hv2 : o.v1 = false)
    (hwf : (CarHeader.mk roots 1).wf) (hmax : (encodeHeaderBody ⟨roots, 1⟩).length ≤ o.maxHeader)
    (hmax32 : (encodeHeaderBody ⟨roots, 1⟩).length ≤ 32 * 2 ^ 20)
    (lok : LayoutOK o.dataPad o.indexPad (payload roots log).length)
    (hlog : ∀ b ∈ log, b.cid.wf ∧ b.cid.digest.length ≤ maxDigestAlloc ∧ b.cid.byteLen + b.data.length < 2 ^ 63) :
    resumeCore api o roots (layoutV2 o.dataPad o.indexPad (payload roots log) true fi index)
      = ([.truncate (51 + o.dataPad + (payload roots log).length)] ++ headerEvs {},
         .ok { api := api, file := o.filePrefix (zeros 40) ++ payload roots log, base := o.base,
               pos := (payload roots log).length, idx := insertAll [] (headerSize ⟨roots, 1⟩) log, roots := roots }) := by
  have h63 : (encodeHeaderBody ⟨roots, 1⟩).length < 2 ^ 63 := by
    have : (32 : Nat) * 2 ^ 20 < 2 ^ 63 := by decide
    omega
  have hp := payload_length_pos roots log
  have hfw := finalHeader_wf o.dataPad o.indexPad (payload roots log).length true fi hp lok
  have hplen := o.filePrefix_length (zeros 40) (by simp [zeros])
  have hbase : o.base = 51 + o.dataPad := by simp [WOpts.base, hv2]
  have hpre : o.filePrefix (zeros 40) = pragma ++ zeros 40 ++ zeros o.dataPad := by simp [WOpts.filePrefix, hv2]
  have hloop := resumeLoop_sections o.zeroEOF log (encodeHeader ⟨roots, 1⟩) []
      ((encodeHeader ⟨roots, 1⟩ ++ sectionsBytes log).length + 1)
      (by have := sectionsBytes_length_ge log; simp only [List.length_append]; omega) hlog
  -- shape of the file
  have hfile : layoutV2 o.dataPad o.indexPad (payload roots log) true fi index
      = pragma ++ ((finalHeader o.dataPad o.indexPad (payload roots log).length true fi).bytes ++
          (zeros o.dataPad ++ (payload roots log ++ (zeros o.indexPad ++ index)))) := by
    simp [layoutV2]
  have hdrop11 : (layoutV2 o.dataPad o.indexPad (payload roots log) true fi index).drop 11
      = (finalHeader o.dataPad o.indexPad (payload roots log).length true fi).bytes ++
          (zeros o.dataPad ++ (payload roots log ++ (zeros o.indexPad ++ index))) := by
    rw [hfile]; exact List.drop_left' (by decide)
  have hprelen : (pragma ++ ((finalHeader o.dataPad o.indexPad (payload roots log).length true fi).bytes
      ++ zeros o.dataPad)).length = 51 + o.dataPad := by
    simp [V2Header.bytes_length, zeros_length, pragma, pragmaBody, keyVersion]; omega
  have hdropb : (layoutV2 o.dataPad o.indexPad (payload roots log) true fi index).drop o.base
      = payload roots log ++ (zeros o.indexPad ++ index) := by
    rw [hfile, hbase]
    have e : pragma ++ ((finalHeader o.dataPad o.indexPad (payload roots log).length true fi).bytes ++
          (zeros o.dataPad ++ (payload roots log ++ (zeros o.indexPad ++ index))))
        = (pragma ++ ((finalHeader o.dataPad o.indexPad (payload roots log).length true fi).bytes ++ zeros o.dataPad))
          ++ (payload roots log ++ (zeros o.indexPad ++ index)) := by simp
    rw [e, List.drop_left' hprelen]
  -- the two mutations
  have htrunc : Car.truncate (layoutV2 o.dataPad o.indexPad (payload roots log) true fi index)
        (51 + o.dataPad + (payload roots log).length)
      = pragma ++ (finalHeader o.dataPad o.indexPad (payload roots log).length true fi).bytes
          ++ (zeros o.dataPad ++ payload roots log) := by
    have e : layoutV2 o.dataPad o.indexPad (payload roots log) true fi index
        = (pragma ++ (finalHeader o.dataPad o.indexPad (payload roots log).length true fi).bytes
            ++ (zeros o.dataPad ++ payload roots log)) ++ (zeros o.indexPad ++ index) := by
      rw [hfile]; simp
    have hl : (pragma ++ (finalHeader o.dataPad o.indexPad (payload roots log).length true fi).bytes
            ++ (zeros o.dataPad ++ payload roots log)).length = 51 + o.dataPad + (payload roots log).length := by
      simp [V2Header.bytes_length, zeros_length, pragma, pragmaBody, keyVersion]; omega
    rw [e, ← hl, truncate_prefix]
  have hmut : applyWrites (layoutV2 o.dataPad o.indexPad (payload roots log) true fi index)
        ([.truncate (51 + o.dataPad + (payload roots log).length)] ++ headerEvs {})
      = o.filePrefix (zeros 40) ++ payload roots log := by
    rw [applyWrites_append]
    have : applyWrites (layoutV2 o.dataPad o.indexPad (payload roots log) true fi index)
        [.truncate (51 + o.dataPad + (payload roots log).length)]
        = pragma ++ (finalHeader o.dataPad o.indexPad (payload roots log).length true fi).bytes
          ++ (zeros o.dataPad ++ payload roots log) := by
      simp only [applyWrites, List.foldl_cons, List.foldl_nil, WriteEv.apply]; exact htrunc
    rw [this, headerEvs_apply _ _ (V2Header.bytes_length _), zeroHeader_bytes, hpre]; simp
  have hdrop2 : (o.filePrefix (zeros 40) ++ payload roots log).drop o.base = payload roots log :=
    List.drop_left' hplen
  have hoff : (finalHeader o.dataPad o.indexPad (payload roots log).length true fi).dataOffset = 51 + o.dataPad := by
    simp [finalHeader]
  have hsz : (finalHeader o.dataPad o.indexPad (payload roots log).length true fi).dataSize = (payload roots log).length := by
    simp [finalHeader]
  have hio : (finalHeader o.dataPad o.indexPad (payload roots log).length true fi).indexOffset
      = 51 + o.dataPad + (payload roots log).length + o.indexPad := by simp [finalHeader]
  unfold resumeCore
  simp only
  rw [hfile, readHeader_pragma _ _ (by decide)]
  rw [← hfile, hdrop11, readV2Header_bytes _ hfw]
  simp only [hv2, Bool.false_eq_true, and_false, not_false_eq_true, and_self, or_true, not_true_eq_false,
    ↓reduceIte, true_and, hoff, hsz, hio, hbase]
  have c1 : ¬ (51 + o.dataPad ≠ 0 ∧ 51 + o.dataPad ≠ 51 + o.dataPad) := by omega
  have c2 : ¬ (51 + o.dataPad ≠ 0 ∧ 51 + o.dataPad + (payload roots log).length + o.indexPad
      < 51 + o.dataPad + (payload roots log).length) := by omega
  have c3 : (51 + o.dataPad ≠ 0) := by omega
  simp only [c1, c2, c3, ↓reduceIte, ne_eq, not_false_eq_true]
  rw [← hbase, hdropb]
  simp only [payload, List.append_assoc]
  rw [readHeader_encode _ ⟨roots, 1⟩ _ hwf hmax h63]
  simp only [not_true_eq_false, CarHeader.rootList, rootsMatch_refl, Bool.not_true,
    Bool.false_eq_true, or_self, ↓reduceIte, headerSize]
  have hmut' := hmut
  simp only [payload, List.append_assoc, hbase] at hmut' hdrop2
  rw [hbase]
  rw [hmut', hdrop2]
  rw [hloop]
  have c4 : ¬ (51 + o.dataPad + (encodeHeader ⟨roots, 1⟩ ++ sectionsBytes log).length + o.indexPad
      < 51 + o.dataPad + (encodeHeader ⟨roots, 1⟩ ++ sectionsBytes log).length) := by omega
  simp only [and_false, ↓reduceIte, true_and, c4]

end Car
