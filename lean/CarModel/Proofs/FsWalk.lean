import CarModel.FsModel
/-
Path-walk lemmas of the file-system model: what a successful walk says about the name space, and
when a walk is "straight" (follows no link, so its result is the path it was given).
-/
namespace Car.FS
open Car

theorem lookup_nil (fs : Fs) : lookup fs [] = some .dir := by simp [lookup]

theorem lookup_set (fs : Fs) (p q : P) (n : Node) (hp : p ≠ []) :
    lookup (set fs p n) q = if q = p then some n else lookup fs q := by
  unfold lookup set
  by_cases hq : q = []
  · subst hq
    have : ¬ ([] : P) = p := fun h => hp h.symm
    simp [this]
  · by_cases hqp : q = p
    · subst hqp; simp [hq]
    · have : ¬ p = q := fun h => hqp h.symm
      simp [hq, hqp, List.find?, this]

/-- no component is empty, `.` or `..` -/
def Clean (p : P) : Prop := ∀ s ∈ p, s ≠ [] ∧ s ≠ dot ∧ s ≠ dotdot

theorem Clean.nil : Clean [] := by intro s h; cases h

theorem Clean.append {p q : P} (hp : Clean p) (hq : Clean q) : Clean (p ++ q) := by
  intro s h
  rcases List.mem_append.mp h with h | h
  · exact hp s h
  · exact hq s h

theorem Clean.dropLast {p : P} (hp : Clean p) : Clean p.dropLast :=
  fun s h => hp s (List.dropLast_subset p h)

theorem Clean.of_append_left {p q : P} (h : Clean (p ++ q)) : Clean p :=
  fun s hs => h s (List.mem_append_left q hs)

theorem Clean.of_append_right {p q : P} (h : Clean (p ++ q)) : Clean q :=
  fun s hs => h s (List.mem_append_right p hs)

theorem Clean.ne_nil_of_mem {p : P} (hp : Clean p) {s : Seg} (hs : s ∈ p) (q : P) : q ++ [s] ≠ [] := by simp

/-- `p` and every prefix of it is a directory -/
def Dirs (fs : Fs) (p : P) : Prop := ∀ q, q <+: p → lookup fs q = some .dir

theorem Dirs.nil (fs : Fs) : Dirs fs [] := by
  intro q h
  have : q = [] := List.prefix_nil.mp h
  subst this; exact lookup_nil fs

theorem Dirs.dropLast {fs : Fs} {p : P} (h : Dirs fs p) : Dirs fs p.dropLast :=
  fun q hq => h q (hq.trans (List.dropLast_prefix p))

theorem Dirs.snoc {fs : Fs} {p : P} {s : Seg} (h : Dirs fs p) (hs : lookup fs (p ++ [s]) = some .dir) :
    Dirs fs (p ++ [s]) := by
  intro q hq
  rcases List.prefix_concat_iff.mp (by simpa using hq) with h1 | h1
  · subst h1; simpa using hs
  · exact h q h1

/-- What a successful walk guarantees. -/
def ResOK (fs : Fs) (follow : Bool) : Res → Prop
  | .found r => Clean r ∧ Dirs fs r.dropLast ∧ (∃ n, lookup fs r = some n ∧ (follow = true → ∀ t, n ≠ .link t))
  | .missingLast par name => Clean par ∧ Dirs fs par ∧ lookup fs (par ++ [name]) = none ∧
      name ≠ [] ∧ name ≠ dot ∧ name ≠ dotdot

theorem walk_ok (fs : Fs) (follow : Bool) (fuel : Nat) (cur : P) (rest : List Seg) (r : Res)
    (hc : Clean cur) (hd : Dirs fs cur) (h : walk fs follow fuel cur rest = .ok r) : ResOK fs follow r := by
  fun_induction walk fs follow fuel cur rest with
  | case1 fuel cur =>
    injection h with h; subst h
    exact ⟨hc, hd.dropLast, .dir, hd cur (List.prefix_refl _), fun _ t => by simp⟩
  | case2 fuel cur s rest hs ih => exact ih hc hd h
  | case3 fuel cur rest hs ih => exact ih hc.dropLast hd.dropLast h
  | case4 fuel cur s hs hdd hl =>
    injection h with h; subst h
    simp only [not_or] at hs
    exact ⟨hc, hd, hl, hs.1, hs.2, hdd⟩
  | case5 fuel cur s rest hs hdd hl hr => cases h
  | case6 fuel cur s rest hs hdd hl ih =>
    simp only [not_or] at hs
    have hc' : Clean (cur ++ [s]) := hc.append (by intro x hx; simp at hx; subst hx; exact ⟨hs.1, hs.2, hdd⟩)
    exact ih hc' (hd.snoc hl) h
  | case7 fuel cur s hs hdd d hl =>
    injection h with h; subst h
    simp only [not_or] at hs
    have hc' : Clean (cur ++ [s]) := hc.append (by intro x hx; simp at hx; subst hx; exact ⟨hs.1, hs.2, hdd⟩)
    exact ⟨hc', by simpa using hd, .file d, hl, fun _ t => by simp⟩
  | case8 fuel cur s rest hs hdd d hl hr => cases h
  | case9 fuel cur s rest hs hdd t hl hr =>
    injection h with h; subst h
    simp only [not_or] at hs
    have hc' : Clean (cur ++ [s]) := hc.append (by intro x hx; simp at hx; subst hx; exact ⟨hs.1, hs.2, hdd⟩)
    exact ⟨hc', by simpa using hd, .link t, hl, fun hf => by simp [hr.2] at hf⟩
  | case10 fuel cur s rest hs hdd hr hl => cases h
  | case11 cur s rest hs hdd t hl hr ht => cases h
  | case12 cur s rest hs hdd t hl hr ht fuel ih =>
    by_cases ha : isAbs t = true
    · simp only [ha, ↓reduceIte, ↓reduceDIte] at ih h
      exact ih Clean.nil (Dirs.nil fs) h
    · simp only [ha, ↓reduceIte, ↓reduceDIte] at ih h
      exact ih hc hd h

end Car.FS

namespace Car.FS
open Car

/-- Walking down through directories named by clean components follows no link. -/
theorem walk_straight (fs : Fs) (follow : Bool) (fuel : Nat) :
    ∀ (rest : List Seg) (cur : P) (tail : List Seg), Clean rest →
      (∀ k, 0 < k → k ≤ rest.length → lookup fs (cur ++ rest.take k) = some .dir) →
      walk fs follow fuel cur (rest ++ tail) = walk fs follow fuel (cur ++ rest) tail := by
  intro rest
  induction rest with
  | nil => intro cur tail _ _; simp
  | cons s rest ih =>
    intro cur tail hc hd
    have hs := hc s (by simp)
    have h1 : lookup fs (cur ++ [s]) = some .dir := by simpa using hd 1 (by omega) (by simp)
    rw [List.cons_append, walk]
    simp only [hs.1, hs.2.1, hs.2.2, or_self, ↓reduceIte, h1]
    have := ih (cur ++ [s]) tail (fun x hx => hc x (by simp [hx]))
      (fun k hk hk' => by simpa using hd (k + 1) (by omega) (by simpa using hk'))
    simpa using this

/-- kinds of existing objects are kept: a directory stays a directory, a link keeps its target,
    a file stays a file (its content may change) -/
structure Mono (fs fs' : Fs) : Prop where
  dir : ∀ p, lookup fs p = some .dir → lookup fs' p = some .dir
  link : ∀ p t, lookup fs p = some (.link t) → lookup fs' p = some (.link t)
  file : ∀ p d, lookup fs p = some (.file d) → ∃ d', lookup fs' p = some (.file d')

theorem Mono.refl (fs : Fs) : Mono fs fs := ⟨fun _ h => h, fun _ _ h => h, fun _ d h => ⟨d, h⟩⟩

theorem Mono.trans {a b c : Fs} (h1 : Mono a b) (h2 : Mono b c) : Mono a c :=
  ⟨fun p h => h2.dir p (h1.dir p h), fun p t h => h2.link p t (h1.link p t h),
   fun p d h => by obtain ⟨d', h'⟩ := h1.file p d h; exact h2.file p d' h'⟩

/-- A walk that found its object finds the same object after any kind-preserving change. -/
theorem walk_mono (fs fs' : Fs) (hm : Mono fs fs') (follow : Bool) (fuel : Nat) (cur : P) (rest : List Seg) (r : P)
    (h : walk fs follow fuel cur rest = .ok (.found r)) : walk fs' follow fuel cur rest = .ok (.found r) := by
  fun_induction walk fs follow fuel cur rest with
  | case1 fuel cur => rw [walk]; exact h
  | case2 fuel cur s rest hs ih => rw [walk]; simp only [hs, ↓reduceIte]; exact ih h
  | case3 fuel cur rest hs ih => rw [walk]; simp only [hs, ↓reduceIte]; exact ih h
  | case4 fuel cur s hs hdd hl => cases h
  | case5 fuel cur s rest hs hdd hl hr => cases h
  | case6 fuel cur s rest hs hdd hl ih =>
    rw [walk]; simp only [hs, hdd, ↓reduceIte, hm.dir _ hl]; exact ih h
  | case7 fuel cur s hs hdd d hl =>
    obtain ⟨d', hl'⟩ := hm.file _ d hl
    rw [walk]; simp only [hs, hdd, ↓reduceIte, hl']; exact h
  | case8 fuel cur s rest hs hdd d hl hr => cases h
  | case9 fuel cur s rest hs hdd t hl hr =>
    rw [walk]; simp only [hs, hdd, ↓reduceIte, hm.link _ t hl, hr, and_self]; exact h
  | case10 fuel cur s rest hs hdd hr hl => cases h
  | case11 cur s rest hs hdd t hl hr ht => cases h
  | case12 cur s rest hs hdd t hl hr ht fuel ih =>
    rw [walk]; simp only [hs, hdd, ↓reduceIte, hm.link _ t hl, hr, ht]
    by_cases ha : isAbs t = true
    · simp only [ha, ↓reduceIte, ↓reduceDIte] at ih h ⊢; exact ih h
    · simp only [ha, ↓reduceIte, ↓reduceDIte] at ih h ⊢; exact ih h

end Car.FS
