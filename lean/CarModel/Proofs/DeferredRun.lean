import CarModel.Deferred
/-
Whole call sequences on the deferred writer: the store it ends with is the directly constructed
writer run on the projection of the sequence (the Puts before the first Close, then Finalize).
-/
namespace Car

def Deferred.run (o : WOpts) (d : Deferred) (ops : List DOp) : Deferred :=
  ops.foldl (fun d op => (d.step o op).1) d

/-- what a call sequence amounts to for a store that exists already (`closed` = Close has been called) -/
def projOps (closed : Bool) : List DOp → List Op
  | [] => []
  | .put c d :: t => if closed then projOps closed t else .put c d :: projOps closed t
  | .close :: t => if closed then projOps true t else .finalize :: projOps true t
  | _ :: t => projOps closed t

/-- the same before the store exists: `none` = it is never created (no Put before the first Close) -/
def projFresh : List DOp → Option (List Op)
  | [] => none
  | .put c d :: t => some (.put c d :: projOps false t)
  | .close :: _ => none
  | _ :: t => projFresh t

theorem run_cons (o : WOpts) (d : Deferred) (op : DOp) (ops : List DOp) :
    d.run o (op :: ops) = (d.step o op).1.run o ops := rfl

theorem store_run_cons (o : WOpts) (s : Store) (op : Op) (ops : List Op) :
    (Store.run o s (op :: ops)).1 = (Store.run o (s.step o op).1 ops).1 := rfl

/-- once the store exists, the deferred writer is that store run on the projected calls -/
theorem deferred_run_some (o : WOpts) (ops : List DOp) : ∀ (d : Deferred) (s : Store), d.w = some s →
    (d.run o ops).w = some (Store.run o s (projOps d.closed ops)).1 := by
  induction ops with
  | nil => intro d s hw; simpa [Deferred.run, projOps, Store.run] using hw
  | cons op tl ih =>
    intro d s hw
    rw [run_cons]
    cases op with
    | onPut id once sp =>
      have := ih (d.step o (.onPut id once sp)).1 s (by simpa [Deferred.step] using hw)
      simpa [Deferred.step, projOps] using this
    | has c =>
      have hst : (d.step o (.has c)).1 = d := by
        simp only [Deferred.step]; split; rfl; simp [hw]
      rw [hst]; simpa [projOps] using ih d s hw
    | put c data =>
      by_cases hc : d.closed = true
      · have hst : (d.step o (.put c data)).1 = d := by simp [Deferred.step, hc]
        rw [hst]; simpa [projOps, hc] using ih d s hw
      · have hc' : d.closed = false := by simpa using hc
        have h1 : (d.step o (.put c data)).1.w = some (s.step o (.put c data)).1 := by
          simp [Deferred.step, hc', hw]
        have h2 : (d.step o (.put c data)).1.closed = false := by simp [Deferred.step, hc']
        have := ih _ _ h1
        rw [h2] at this
        simpa [projOps, hc', store_run_cons] using this
    | close =>
      by_cases hc : d.closed = true
      · have hst : (d.step o .close).1 = d := by simp [Deferred.step, hc]
        rw [hst]; simpa [projOps, hc] using ih d s hw
      · have hc' : d.closed = false := by simpa using hc
        have h1 : (d.step o .close).1.w = some (s.step o .finalize).1 := by simp [Deferred.step, hc', hw]
        have h2 : (d.step o .close).1.closed = true := by simp [Deferred.step, hc', hw]
        have := ih _ _ h1
        rw [h2] at this
        simpa [projOps, hc', store_run_cons] using this

/-- before the store exists -/
theorem deferred_run_fresh (o : WOpts) (ops : List DOp) : ∀ (d : Deferred), d.w = none → d.closed = false →
    (d.run o ops).w = (projFresh ops).map fun l => (Store.run o (Store.create .storage o d.roots).1 l).1 := by
  induction ops with
  | nil => intro d hw _; simpa [Deferred.run, projFresh] using hw
  | cons op tl ih =>
    intro d hw hc
    rw [run_cons]
    cases op with
    | onPut id once sp =>
      have := ih (d.step o (.onPut id once sp)).1 (by simpa [Deferred.step] using hw) (by simpa [Deferred.step] using hc)
      simpa [Deferred.step, projFresh] using this
    | has c =>
      have hst : (d.step o (.has c)).1 = d := by simp [Deferred.step, hc, hw]
      rw [hst]; simpa [projFresh] using ih d hw hc
    | put c data =>
      have h1 : (d.step o (.put c data)).1.w = some ((Store.create .storage o d.roots).1.step o (.put c data)).1 := by
        simp [Deferred.step, hc, hw]
      have h2 : (d.step o (.put c data)).1.closed = false := by simp [Deferred.step, hc]
      have := deferred_run_some o tl _ _ h1
      rw [h2] at this
      simpa [projFresh, store_run_cons] using this
    | close =>
      -- closed without a store: nothing is ever created
      have hst : (d.step o .close).1 = { d with closed := true } := by simp [Deferred.step, hc, hw]
      rw [hst]
      have : ∀ (ops : List DOp) (d : Deferred), d.w = none → d.closed = true → (d.run o ops).w = none := by
        intro ops
        induction ops with
        | nil => intro d hw _; simpa [Deferred.run] using hw
        | cons op tl ih2 =>
          intro d hw hc
          rw [run_cons]
          cases op with
          | onPut id once sp => exact ih2 _ (by simpa [Deferred.step] using hw) (by simpa [Deferred.step] using hc)
          | has c => have : (d.step o (.has c)).1 = d := by simp [Deferred.step, hc]
                     rw [this]; exact ih2 d hw hc
          | put c data => have : (d.step o (.put c data)).1 = d := by simp [Deferred.step, hc]
                          rw [this]; exact ih2 d hw hc
          | close => have : (d.step o .close).1 = d := by simp [Deferred.step, hc]
                     rw [this]; exact ih2 d hw hc
      simpa [projFresh] using this tl { d with closed := true } hw rfl

/-- The index loop with in-place removal over a list that callbacks may extend while it is walked IS the
    queue discipline of `specFire`, for every list, every fuel and any nesting of registrations. -/
theorem fireLoop_eq_specFire : ∀ (fuel : Nat) (kept rest : List PutCb) (fired : List Nat),
    fireLoop fuel kept.length (kept ++ rest) fired
      = (kept ++ (specFire fuel rest).1, fired ++ (specFire fuel rest).2) := by
  intro fuel
  induction fuel with
  | zero => intro kept rest fired; simp [fireLoop, specFire]
  | succ f ih =>
    intro kept rest fired
    cases rest with
    | nil => simp [fireLoop, specFire]
    | cons cb tl =>
      have hget : (kept ++ cb :: tl)[kept.length]? = some cb := by simp
      unfold fireLoop
      rw [hget]
      simp only
      cases hs : cb.spawn with
      | none =>
        by_cases ho : cb.once = true
        · have he : (kept ++ cb :: tl).eraseIdx kept.length = kept ++ tl := by
            rw [List.eraseIdx_append_of_length_le (by omega)]; simp
          simp only [ho, ↓reduceIte, he, ih kept tl, specFire, hs]
          simp
        · have ho' : cb.once = false := by simpa using ho
          have e : kept ++ cb :: tl = (kept ++ [cb]) ++ tl := by simp
          have hl : kept.length + 1 = (kept ++ [cb]).length := by simp
          simp only [ho', Bool.false_eq_true, ↓reduceIte, specFire, hs]
          rw [e, hl, ih (kept ++ [cb]) tl]
          simp
      | some sp =>
        obtain ⟨id2, once2⟩ := sp
        have hnw : ∃ nw : PutCb, nw = { id := id2, once := once2 } := ⟨_, rfl⟩
        obtain ⟨nw, hnwe⟩ := hnw
        by_cases ho : cb.once = true
        · have he : (kept ++ cb :: tl ++ [nw]).eraseIdx kept.length
              = kept ++ (tl ++ [nw]) := by
            rw [List.append_assoc, List.eraseIdx_append_of_length_le (by omega)]; simp
          simp only [ho, ↓reduceIte, ← hnwe, he, ih kept (tl ++ [nw]), specFire, hs]
          simp
        · have ho' : cb.once = false := by simpa using ho
          have e : kept ++ cb :: tl ++ [nw]
              = (kept ++ [cb]) ++ (tl ++ [nw]) := by simp
          have hl : kept.length + 1 = (kept ++ [cb]).length := by simp
          simp only [ho', Bool.false_eq_true, ↓reduceIte, specFire, hs, ← hnwe]
          rw [e, hl, ih (kept ++ [cb]) (tl ++ [nw])]
          simp
end Car
