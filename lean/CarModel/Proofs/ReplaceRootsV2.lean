import CarModel.Transform
import CarModel.Proofs.Transform
import CarModel.Proofs.V2
/-
ReplaceRootsInFile on a CARv2: the inner CARv1 header is found through DataOffset; a new header of
another encoded length is refused and the file stays as it was, one of the same length replaces exactly
the inner header bytes.
-/
namespace Car

/-- a laid-out CARv2 as prefix (pragma, header, data padding) ++ inner header ++ rest -/
theorem layoutV2_split (dp ip : Nat) (hd secs : Bytes) (hasIdx fi : Bool) (index : Bytes) :
    layoutV2 dp ip (hd ++ secs) hasIdx fi index
      = (pragma ++ (finalHeader dp ip (hd ++ secs).length hasIdx fi).bytes ++ zeros dp) ++
          (hd ++ (secs ++ (if hasIdx then zeros ip ++ index else []))) := by
  simp [layoutV2]

theorem layoutV2_prefix_length (dp ip n : Nat) (hasIdx fi : Bool) :
    (pragma ++ (finalHeader dp ip n hasIdx fi).bytes ++ zeros dp).length = 51 + dp := by
  simp [pragma, pragmaBody, keyVersion, V2Header.bytes_length, zeros_length]; omega

/-- what `ReplaceRootsInFile` reads of a laid-out CARv2 before it decides -/
theorem replaceRoots_v2_eval (maxHeader dp ip : Nat) (roots newRoots : Option (List Cid)) (secs : Bytes)
    (hasIdx fi : Bool) (index : Bytes)
    (hwf : (CarHeader.mk roots 1).wf) (hmax : (encodeHeaderBody ⟨roots, 1⟩).length ≤ maxHeader)
    (h63 : (encodeHeaderBody ⟨roots, 1⟩).length < 2 ^ 63) (h10 : 10 ≤ maxHeader)
    (lok : LayoutOK dp ip (encodeHeader ⟨roots, 1⟩ ++ secs).length) :
    replaceRoots maxHeader (layoutV2 dp ip (encodeHeader ⟨roots, 1⟩ ++ secs) hasIdx fi index) newRoots
      = if (encodeHeader ⟨roots, 1⟩).length ≠ (encodeHeader ⟨newRoots, 1⟩).length
        then (.error .other, layoutV2 dp ip (encodeHeader ⟨roots, 1⟩ ++ secs) hasIdx fi index)
        else (.ok (), writeAt (layoutV2 dp ip (encodeHeader ⟨roots, 1⟩ ++ secs) hasIdx fi index) (51 + dp)
                (encodeHeader ⟨newRoots, 1⟩)) := by
  have hp : 0 < (encodeHeader ⟨roots, 1⟩ ++ secs).length := by
    have := uvarintSize_pos (encodeHeaderBody ⟨roots, 1⟩).length
    simp only [encodeHeader, List.length_append, uvarint_length]; omega
  generalize hfile : layoutV2 dp ip (encodeHeader ⟨roots, 1⟩ ++ secs) hasIdx fi index = file
  have hsplit := layoutV2_split dp ip (encodeHeader ⟨roots, 1⟩) secs hasIdx fi index
  rw [hfile] at hsplit
  generalize htail : (if hasIdx then zeros ip ++ index else []) = tail at hsplit
  have hhw := finalHeader_wf dp ip _ hasIdx fi hp lok
  generalize hh : finalHeader dp ip (encodeHeader ⟨roots, 1⟩ ++ secs).length hasIdx fi = hdr at *
  have hdo : hdr.dataOffset = 51 + dp := by rw [← hh]; rfl
  have e1 : file = pragma ++ (hdr.bytes ++ (zeros dp ++ (encodeHeader ⟨roots, 1⟩ ++ (secs ++ tail)))) := by
    rw [hsplit]; simp
  have hdrop : file.drop (51 + dp) = encodeHeader ⟨roots, 1⟩ ++ (secs ++ tail) := by
    rw [hsplit]
    exact List.drop_left' (by rw [← hh]; exact layoutV2_prefix_length dp ip _ hasIdx fi)
  unfold replaceRoots
  rw [e1, readHeader_pragma maxHeader _ h10]
  simp only [show ¬ ((2 : Nat) = 1) by decide, ↓reduceIte]
  rw [readV2Header_bytes hdr hhw]
  simp only
  rw [← e1, hdo, hdrop, readHeader_encode maxHeader ⟨roots, 1⟩ (secs ++ tail) hwf hmax h63]
  simp only [List.length_append]
  have : (encodeHeader ⟨roots, 1⟩).length + (secs.length + tail.length) - (secs.length + tail.length)
      = (encodeHeader ⟨roots, 1⟩).length := by omega
  rw [this]

/-- **different encoded length: refused, the file is untouched** -/
theorem replaceRoots_reject_v2' (maxHeader dp ip : Nat) (roots newRoots : Option (List Cid)) (secs : Bytes)
    (hasIdx fi : Bool) (index : Bytes)
    (hwf : (CarHeader.mk roots 1).wf) (hmax : (encodeHeaderBody ⟨roots, 1⟩).length ≤ maxHeader)
    (h63 : (encodeHeaderBody ⟨roots, 1⟩).length < 2 ^ 63) (h10 : 10 ≤ maxHeader)
    (lok : LayoutOK dp ip (encodeHeader ⟨roots, 1⟩ ++ secs).length)
    (hne : (encodeHeader ⟨roots, 1⟩).length ≠ (encodeHeader ⟨newRoots, 1⟩).length) :
    replaceRoots maxHeader (layoutV2 dp ip (encodeHeader ⟨roots, 1⟩ ++ secs) hasIdx fi index) newRoots
      = (.error .other, layoutV2 dp ip (encodeHeader ⟨roots, 1⟩ ++ secs) hasIdx fi index) := by
  rw [replaceRoots_v2_eval maxHeader dp ip roots newRoots secs hasIdx fi index hwf hmax h63 h10 lok]
  simp [hne]

/-- **same encoded length: exactly the inner header changes** — the result is the layout of the payload
    with the new header: CARv2 header fields, paddings, sections and index are untouched. -/
theorem replaceRoots_same_len_v2' (maxHeader dp ip : Nat) (roots newRoots : Option (List Cid)) (secs : Bytes)
    (hasIdx fi : Bool) (index : Bytes)
    (hwf : (CarHeader.mk roots 1).wf) (hmax : (encodeHeaderBody ⟨roots, 1⟩).length ≤ maxHeader)
    (h63 : (encodeHeaderBody ⟨roots, 1⟩).length < 2 ^ 63) (h10 : 10 ≤ maxHeader)
    (lok : LayoutOK dp ip (encodeHeader ⟨roots, 1⟩ ++ secs).length)
    (heq : (encodeHeader ⟨roots, 1⟩).length = (encodeHeader ⟨newRoots, 1⟩).length) :
    replaceRoots maxHeader (layoutV2 dp ip (encodeHeader ⟨roots, 1⟩ ++ secs) hasIdx fi index) newRoots
      = (.ok (), layoutV2 dp ip (encodeHeader ⟨newRoots, 1⟩ ++ secs) hasIdx fi index) := by
  rw [replaceRoots_v2_eval maxHeader dp ip roots newRoots secs hasIdx fi index hwf hmax h63 h10 lok]
  simp only [ne_eq, heq, not_true_eq_false, ↓reduceIte]
  congr 1
  have hlen : (encodeHeader ⟨newRoots, 1⟩ ++ secs).length = (encodeHeader ⟨roots, 1⟩ ++ secs).length := by
    simp [heq]
  rw [layoutV2_split dp ip (encodeHeader ⟨roots, 1⟩) secs, layoutV2_split dp ip (encodeHeader ⟨newRoots, 1⟩) secs, hlen]
  generalize hpre : pragma ++ (finalHeader dp ip (encodeHeader ⟨roots, 1⟩ ++ secs).length hasIdx fi).bytes ++ zeros dp = pre
  have hpl : pre.length = 51 + dp := by rw [← hpre]; exact layoutV2_prefix_length dp ip _ hasIdx fi
  generalize (secs ++ (if hasIdx then zeros ip ++ index else [])) = rest
  rw [writeAt_within _ _ _ (by simp [hpl, heq])]
  rw [← hpl, List.take_left' rfl, ← heq]
  have : (pre ++ (encodeHeader ⟨roots, 1⟩ ++ rest)).drop (pre.length + (encodeHeader ⟨roots, 1⟩).length) = rest := by
    rw [← List.append_assoc]
    exact List.drop_left' (by simp)
  rw [this]
  simp

end Car
