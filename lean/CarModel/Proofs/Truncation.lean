import CarModel.Proofs.Section
namespace Car

/-- Reading a strict prefix of a varint encoding is an unexpected EOF (never a clean one,
    unless nothing at all was there at the first byte). -/
theorem readAux_uvarint_prefix (n : Nat) : ∀ (i acc m : Nat),
    n < 2 ^ (63 - 7 * i) → i ≤ 8 → m < (uvarint n).length → (i > 0 ∨ m > 0) →
    readUvarintAux i acc ((uvarint n).take m) = .error .unexpectedEOF := by
  induction n using Nat.strongRecOn with
  | _ n ih =>
    intro i acc m hn hi hm hpos
    unfold uvarint at hm ⊢
    split
    · rename_i h
      simp only [h, ↓reduceIte, List.length_singleton] at hm
      have : m = 0 := by omega
      subst this
      have : i ≠ 0 := by omega
      simp [readUvarintAux, this]
    · rename_i h
      simp only [h, ↓reduceIte, List.length_cons] at hm
      cases m with
      | zero =>
        have : i ≠ 0 := by omega
        simp [readUvarintAux, this]
      | succ m' =>
        have hlt : n % 128 + 128 < 256 := by omega
        have h1 : (UInt8.ofNat (n % 128 + 128)).toNat = n % 128 + 128 := toNat_ofNat_lt _ hlt
        simp only [List.take_succ_cons, readUvarintAux, h1]
        have hi8 : i < 8 := by
          by_cases h8 : i = 8
          · subst h8; simp at hn; omega
          · omega
        have c1 : ¬ ((i = 8 ∧ n % 128 + 128 ≥ 128) ∨ i ≥ 9) := by omega
        have c2 : ¬ (n % 128 + 128 < 128) := by omega
        simp only [c1, c2, ↓reduceIte]
        have hb : n / 128 < 2 ^ (63 - 7 * (i + 1)) := by
          have : 2 ^ (63 - 7 * i) = 2 ^ (63 - 7 * (i + 1)) * 128 := by
            have : 63 - 7 * i = (63 - 7 * (i + 1)) + 7 := by omega
            rw [this, Nat.pow_add]
          rw [this] at hn
          exact Nat.div_lt_of_lt_mul (by rw [Nat.mul_comm]; exact hn)
        exact ih (n / 128) (by omega) (i + 1) _ m' hb (by omega) (by omega) (by omega)

theorem readUvarint_uvarint_prefix (n m : Nat) (h : n < 2 ^ 63) (hm : m < (uvarint n).length) (hpos : 0 < m) :
    readUvarint ((uvarint n).take m) = .error .unexpectedEOF := by
  unfold readUvarint
  exact readAux_uvarint_prefix n 0 0 m (by simpa using h) (by omega) hm (by omega)

/-- A non-empty proper prefix of a framed body (`uvarint len ++ body`) cannot be read:
    the result is `unexpectedEOF`, never a clean end. -/
theorem ldRead_partial (zeroEOF : Bool) (max : Nat) (body : Bytes) (m : Nat)
    (hpos : 0 < body.length) (hmax : body.length ≤ max) (h63 : body.length < 2 ^ 63)
    (hm0 : 0 < m) (hm : m < (uvarint body.length ++ body).length) :
    ldRead zeroEOF max ((uvarint body.length ++ body).take m) = .error .unexpectedEOF := by
  unfold ldRead ldReadSize
  by_cases hv : m < (uvarint body.length).length
  · rw [List.take_append_of_le_length (by omega)]
    rw [readUvarint_uvarint_prefix _ _ h63 hv hm0]
    simp [verr]
  · have hge : (uvarint body.length).length ≤ m := by omega
    obtain ⟨k, rfl⟩ := Nat.exists_eq_add_of_le hge
    rw [List.take_append]
    have := readUvarint_uvarint body.length h63 (body.take k)
    simp only [Nat.add_sub_cancel_left] at *
    rw [List.take_of_length_le (by omega)]
    rw [this]
    have h0 : ¬ (body.length = 0 ∧ zeroEOF = true) := by omega
    have h1 : ¬ (body.length > max) := by omega
    have hk : k < body.length := by simp only [List.length_append] at hm; omega
    have h2 : (body.take k).length < body.length := by simp; omega
    simp only [h0, h1, h2, ↓reduceIte]

theorem nextBlock_partial (H : HashFn) (o : ReadOpts) (b : Block) (m : Nat)
    (hwf : b.wf o.maxSection) (hm0 : 0 < m) (hm : m < sectionSize b) :
    nextBlock H o ((sectionBytes b).take m) = .error .unexpectedEOF := by
  obtain ⟨_, hmax, h63⟩ := hwf
  have hlen : (b.cid.bytes ++ b.data).length = b.cid.byteLen + b.data.length := by simp [Cid.byteLen]
  have e : sectionBytes b = uvarint (b.cid.bytes ++ b.data).length ++ (b.cid.bytes ++ b.data) := by
    unfold sectionBytes; rw [hlen]; simp
  unfold nextBlock readNode
  rw [e, ldRead_partial o.zeroEOF o.maxSection (b.cid.bytes ++ b.data) m
        (by rw [hlen]; have := cid_byteLen_pos b.cid; omega) (by omega) (by omega) hm0
        (by rw [← e, sectionBytes_length]; exact hm)]

theorem scanAux_sections_then (H : HashFn) (o : ReadOpts) (pre : List Block) (tail : Bytes) (e : Err)
    (hwf : ∀ b ∈ pre, b.wf o.maxSection ∧ checkBlock H o.trusted b = .ok ())
    (htail : nextBlock H o tail = .error e) :
    ∀ fuel, pre.length < fuel → scanAux H o fuel (sectionsBytes pre ++ tail) = (pre, e) := by
  induction pre with
  | nil =>
    intro fuel hf
    cases fuel with
    | zero => omega
    | succ f => simp [scanAux, sectionsBytes, htail]
  | cons b tl ih =>
    intro fuel hf
    cases fuel with
    | zero => omega
    | succ f =>
      have hb := hwf b (by simp)
      have : sectionsBytes (b :: tl) ++ tail = sectionBytes b ++ (sectionsBytes tl ++ tail) := by
        simp [sectionsBytes]
      rw [this, scanAux, nextBlock_section H o b _ hb.1 hb.2]
      simp only
      rw [ih (fun x hx => hwf x (by simp [hx])) f (by simpa using hf)]

/-- Sections `pre` followed by anything on which `Next()` fails with `e`:
    the scan returns exactly `pre` and ends with `e`. -/
theorem scanSections_then (H : HashFn) (o : ReadOpts) (pre : List Block) (tail : Bytes) (e : Err)
    (hwf : ∀ b ∈ pre, b.wf o.maxSection ∧ checkBlock H o.trusted b = .ok ())
    (htail : nextBlock H o tail = .error e) :
    scanSections H o (sectionsBytes pre ++ tail) = (pre, e) := by
  unfold scanSections
  exact scanAux_sections_then H o pre tail e hwf htail _
    (by have := sectionsBytes_length_ge pre; simp only [List.length_append]; omega)

/-- Every cut point of a section list is either a section boundary or strictly inside one section. -/
theorem take_sections_decomp (bs : List Block) : ∀ k, k ≤ (sectionsBytes bs).length →
    (∃ j, j ≤ bs.length ∧ (sectionsBytes bs).take k = sectionsBytes (bs.take j)) ∨
    (∃ pre b post m, bs = pre ++ b :: post ∧ 0 < m ∧ m < sectionSize b ∧
        (sectionsBytes bs).take k = sectionsBytes pre ++ (sectionBytes b).take m) := by
  induction bs with
  | nil => intro k _; left; exact ⟨0, by simp, by simp [sectionsBytes]⟩
  | cons b tl ih =>
    intro k hk
    have hcons : sectionsBytes (b :: tl) = sectionBytes b ++ sectionsBytes tl := by simp [sectionsBytes]
    rw [hcons] at hk ⊢
    by_cases h0 : k = 0
    · left; exact ⟨0, by simp, by simp [h0, sectionsBytes]⟩
    by_cases hlt : k < (sectionBytes b).length
    · right
      refine ⟨[], b, tl, k, by simp, by omega, by rw [← sectionBytes_length]; exact hlt, ?_⟩
      rw [List.take_append_of_le_length (by omega)]; simp [sectionsBytes]
    · have hge : (sectionBytes b).length ≤ k := by omega
      obtain ⟨k', rfl⟩ := Nat.exists_eq_add_of_le hge
      rw [List.take_append]
      simp only [Nat.add_sub_cancel_left]
      rw [List.take_of_length_le (by omega)]
      have hk' : k' ≤ (sectionsBytes tl).length := by simp only [List.length_append] at hk; omega
      rcases ih k' hk' with ⟨j, hj, he⟩ | ⟨pre, c, post, m, hbs, hm0, hm, he⟩
      · left; refine ⟨j + 1, by simp; omega, ?_⟩
        rw [he]; simp [sectionsBytes]
      · right; refine ⟨b :: pre, c, post, m, by simp [hbs], hm0, hm, ?_⟩
        rw [he]; simp [sectionsBytes]

end Car
