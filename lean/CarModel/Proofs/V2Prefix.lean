import CarModel.Proofs.V2
import CarModel.Proofs.Truncation
/-
A CARv2 cut anywhere before the end of its inner CARv1 header — inside the pragma, the 40-byte header,
the data padding or the inner header — cannot be opened: `NewBlockReader` reports an error for every such
cut, seekable source or plain stream. (Cuts inside the sections are `carV2_truncated`.)
-/
namespace Car

theorem readHeader_nil (maxHeader : Nat) : readHeader maxHeader [] = .error .eof := by
  simp [readHeader, ldRead, ldReadSize, readUvarint, readUvarintAux, verr]

/-- a proper prefix of the pragma is not a header -/
theorem readHeader_pragma_partial (maxHeader : Nat) (m : Nat) (h10 : 10 ≤ maxHeader) (hm : m < 11) :
    ∃ e, readHeader maxHeader (pragma.take m) = .error e := by
  by_cases h0 : m = 0
  · subst h0; exact ⟨.eof, by simpa using readHeader_nil maxHeader⟩
  · refine ⟨.unexpectedEOF, ?_⟩
    have hl : pragmaBody.length = 10 := by decide
    have e : pragma = uvarint pragmaBody.length ++ pragmaBody := by
      rw [hl, uvarint_small 10 (by omega)]; rfl
    unfold readHeader
    rw [e, ldRead_partial false maxHeader pragmaBody m (by omega) (by omega) (by rw [hl]; decide) (by omega)
      (by rw [← e]; simpa [pragma, pragmaBody, keyVersion] using hm)]

theorem pragma_length : pragma.length = 11 := by decide

/-- **every cut before the end of the inner header is refused** -/
theorem newBlockReader_prefix_cut (o : ReadOpts) (seek : Bool) (hdr : V2Header) (dp : Nat) (roots : Option (List Cid))
    (tail : Bytes) (hh : hdr.wf) (hoff : hdr.dataOffset = 51 + dp)
    (hsz : (encodeHeader ⟨roots, 1⟩).length ≤ hdr.dataSize)
    (hmax : (encodeHeaderBody ⟨roots, 1⟩).length ≤ o.maxHeader)
    (h63 : (encodeHeaderBody ⟨roots, 1⟩).length < 2 ^ 63) (h10 : 10 ≤ o.maxHeader)
    (k : Nat) (hk : k < 51 + dp + (encodeHeader ⟨roots, 1⟩).length) :
    ∃ e, newBlockReader o seek ((pragma ++ (hdr.bytes ++ (zeros dp ++ (encodeHeader ⟨roots, 1⟩ ++ tail)))).take k)
      = .error e := by
  have hpl := pragma_length
  have hbl : hdr.bytes.length = 40 := V2Header.bytes_length hdr
  by_cases c1 : k < 11
  · -- inside the pragma
    obtain ⟨e, he⟩ := readHeader_pragma_partial o.maxHeader k h10 c1
    refine ⟨e, ?_⟩
    rw [List.take_append_of_le_length (by omega)]
    unfold newBlockReader; rw [he]
  · have e1 : (pragma ++ (hdr.bytes ++ (zeros dp ++ (encodeHeader ⟨roots, 1⟩ ++ tail)))).take k
        = pragma ++ (hdr.bytes ++ (zeros dp ++ (encodeHeader ⟨roots, 1⟩ ++ tail))).take (k - 11) := by
      rw [List.take_append, hpl, List.take_of_length_le (by omega)]
    rw [e1]
    unfold newBlockReader
    rw [readHeader_pragma o.maxHeader _ h10]
    simp only [show ¬ ((2 : Nat) = 1) by decide, ↓reduceIte]
    by_cases c2 : k < 51
    · -- inside the 40-byte header
      rw [List.take_append_of_le_length (by omega)]
      have hlen : (hdr.bytes.take (k - 11)).length = k - 11 := by simp [hbl]; omega
      unfold readV2Header
      rw [hlen]
      by_cases c16 : k - 11 < 16
      · simp only [c16, ↓reduceIte]; exact ⟨_, rfl⟩
      · have c40 : k - 11 < 40 := by omega
        simp only [c16, c40, ↓reduceIte]; exact ⟨_, rfl⟩
    · have e2 : (hdr.bytes ++ (zeros dp ++ (encodeHeader ⟨roots, 1⟩ ++ tail))).take (k - 11)
          = hdr.bytes ++ (zeros dp ++ (encodeHeader ⟨roots, 1⟩ ++ tail)).take (k - 51) := by
        rw [List.take_append, hbl, List.take_of_length_le (by omega)]
        have : k - 11 - 40 = k - 51 := by omega
        rw [this]
      rw [e2, readV2Header_bytes hdr hh]
      simp only
      have hskip : hdr.dataOffset - pragmaSize - v2HeaderSize = dp := by
        simp [hoff, pragmaSize, v2HeaderSize]; omega
      rw [hskip]
      by_cases c3 : k < 51 + dp
      · -- inside the data padding
        rw [List.take_append_of_le_length (by rw [zeros_length]; omega)]
        have hl : ((zeros dp).take (k - 51)).length = k - 51 := by simp [zeros_length]; omega
        by_cases hs : seek = true
        · have c : ¬ (¬ seek = true ∧ ((zeros dp).take (k - 51)).length < dp) := by simp [hs]
          simp only [c, ↓reduceIte]
          have : ((zeros dp).take (k - 51)).drop dp = [] := List.drop_of_length_le (by rw [hl]; omega)
          rw [this]
          simp only [List.take_nil, readHeader_nil]
          exact ⟨_, rfl⟩
        · have c : (¬ seek = true ∧ ((zeros dp).take (k - 51)).length < dp) := ⟨hs, by rw [hl]; omega⟩
          simp only [c, and_self, ↓reduceIte]
          exact ⟨_, rfl⟩
      · -- inside the inner CARv1 header
        have e3 : (zeros dp ++ (encodeHeader ⟨roots, 1⟩ ++ tail)).take (k - 51)
            = zeros dp ++ (encodeHeader ⟨roots, 1⟩).take (k - 51 - dp) := by
          rw [List.take_append, zeros_length, List.take_of_length_le (by rw [zeros_length]; omega)]
          rw [List.take_append_of_le_length (by omega)]
        rw [e3]
        have c : ¬ (¬ seek = true ∧ (zeros dp ++ (encodeHeader ⟨roots, 1⟩).take (k - 51 - dp)).length < dp) := by
          simp [zeros_length]
        simp only [c, ↓reduceIte]
        rw [List.drop_left' (zeros_length dp)]
        have hw : ((encodeHeader ⟨roots, 1⟩).take (k - 51 - dp)).take hdr.dataSize
            = (encodeHeader ⟨roots, 1⟩).take (k - 51 - dp) :=
          List.take_of_length_le (by simp; omega)
        rw [hw]
        obtain ⟨e, he⟩ := readHeader_partial o.maxHeader ⟨roots, 1⟩ (k - 51 - dp) hmax h63 (by omega)
        rw [he]
        exact ⟨e, rfl⟩

end Car
