import CarModel.Proofs.Inspect
import CarModel.Proofs.InspectConv
import CarModel.Proofs.V2
import CarModel.Proofs.Canonical
/-
Whole-file form of C13: `Inspect` of any byte string factors into (container) → (section walk) →
(index-codec probe), and with full validation it succeeds iff the container is accepted, the
hash-verifying scan of the section part of the payload window ends cleanly and the index codec (when
an index is announced) is readable — with the statistics computed from that scan.
-/
namespace Car

/-- What `NewReader` + the inner header read of `Inspect` accept: version, CARv2 header (zero for a
    CARv1), the roots and the section part of the payload window. -/
def container (o : ReadOpts) (file : Bytes) : Except Err (Nat × V2Header × List Cid × Bytes) :=
  match readHeader o.maxHeader file with
  | .error e => .error e
  | .ok (h0, _) =>
    if h0.version ≠ 1 ∧ h0.version ≠ 2 then .error .badVersion else
    let v2 : Except Err V2Header :=
      if h0.version = 2 then (readV2Header ((file.drop 11).take 40)).map (·.1) else .ok {}
    match v2 with
    | .error e => .error e
    | .ok hdr =>
      let window := if h0.version = 2 then (file.drop hdr.dataOffset).take hdr.dataSize else file
      match readHeader o.maxHeader window with
      | .error e => .error e
      | .ok (h1, secs) =>
        if h0.version = 2 ∧ h1.version ≠ 1 then .error .badVersion
        else .ok (h0.version, hdr, h1.rootList, secs)

/-- The index-codec probe: the varint at the index offset when the header announces an index. -/
def indexProbe (file : Bytes) (version : Nat) (hdr : V2Header) : Except Err Nat :=
  if version = 2 ∧ hdr.hasIndex then
    match readUvarint (file.drop hdr.indexOffset) with
    | .error e => .error (verr e)
    | .ok (codec, _) => .ok codec
  else .ok 0

/-- `Inspect` is exactly: container, then the section walk, then the probe. -/
theorem inspect_factors (H : HashFn) (o : ReadOpts) (validate : Bool) (file : Bytes) :
    inspect H o validate file =
      match container o file with
      | .error e => .error e
      | .ok (v, hdr, roots, secs) =>
        match inspectLoop H o validate (secs.length + 1) secs [] with
        | .error e => .error e
        | .ok seen =>
          match indexProbe file v hdr with
          | .error e => .error e
          | .ok codec => .ok (statsOf v hdr roots seen codec) := by
  unfold inspect container indexProbe
  cases readHeader o.maxHeader file with
  | error e => rfl
  | ok p =>
    obtain ⟨h0, rest⟩ := p
    simp only
    by_cases hv : h0.version ≠ 1 ∧ h0.version ≠ 2
    · simp only [if_pos hv]
    · simp only [if_neg hv]
      generalize (if h0.version = 2 then (readV2Header ((file.drop 11).take 40)).map (·.1) else (Except.ok {} : Except Err V2Header)) = v2
      cases v2 with
      | error e => rfl
      | ok hdr =>
        simp only
        cases readHeader o.maxHeader (if h0.version = 2 then (file.drop hdr.dataOffset).take hdr.dataSize else file) with
        | error e => rfl
        | ok q =>
          obtain ⟨h1, secs⟩ := q
          simp only
          by_cases hb : h0.version = 2 ∧ h1.version ≠ 1
          · simp only [if_pos hb]
          · simp only [if_neg hb]
            cases inspectLoop H o validate (secs.length + 1) secs [] with
            | error e => rfl
            | ok seen =>
              simp only
              by_cases hi : h0.version = 2 ∧ hdr.hasIndex
              · simp only [if_pos hi]
                cases readUvarint (file.drop hdr.indexOffset) with
                | error e => rfl
                | ok r => rfl
              · simp only [if_neg hi]

/-- Every entry Inspect records carries the CID's own byte length (the decoders accept only the
    canonical encoding). -/
theorem inspectLoop_lens (H : HashFn) (o : ReadOpts) (validate : Bool) :
    ∀ (fuel : Nat) (w : Bytes) (acc res : List Seen),
    inspectLoop H o validate fuel w acc = .ok res →
    (∀ s ∈ acc, s.cidLen = s.cid.byteLen) → ∀ s ∈ res, s.cidLen = s.cid.byteLen := by
  intro fuel
  induction fuel with
  | zero => intro w acc res h hacc; simp only [inspectLoop, Except.ok.injEq] at h; subst h; exact hacc
  | succ f ih =>
    intro w acc res h hacc
    unfold inspectLoop at h
    cases hr : readUvarint w with
    | error e =>
      rw [hr] at h
      cases e <;> simp only [Except.ok.injEq, reduceCtorEq] at h
      subst h; exact hacc
    | ok p =>
      obtain ⟨len, r1⟩ := p
      rw [hr] at h
      simp only at h
      split at h
      · simp only [Except.ok.injEq] at h; subst h; exact hacc
      · split at h
        · cases h
        · cases hc : cidFromReader r1 with
          | error e => rw [hc] at h; cases e <;> cases h
          | ok q =>
            obtain ⟨n, c, r2⟩ := q
            rw [hc] at h
            simp only at h
            have hn := (cidFromReader_canonical r1 n c r2 hc).2
            have hacc' : ∀ s ∈ acc ++ [(⟨c, n, len - n⟩ : Seen)], s.cidLen = s.cid.byteLen := by
              intro s hs
              simp only [List.mem_append, List.mem_cons, List.not_mem_nil, or_false] at hs
              rcases hs with hs | rfl
              · exact hacc s hs
              · exact hn
            split at h
            · cases h
            · split at h
              · split at h
                · cases h
                · split at h
                  · cases h
                  · split at h
                    · cases h
                    · split at h
                      · cases h
                      · exact ih _ _ _ h hacc'
              · exact ih _ _ _ h hacc'

theorem zip_map_seenOf : ∀ (bs : List Block) (lens : List Nat), lens.length = bs.length →
    (∀ s ∈ (bs.zip lens).map (fun p => (⟨p.1.cid, p.2, p.1.data.length⟩ : Seen)), s.cidLen = s.cid.byteLen) →
    (bs.zip lens).map (fun p => (⟨p.1.cid, p.2, p.1.data.length⟩ : Seen)) = bs.map seenOf := by
  intro bs
  induction bs with
  | nil => intro lens _ _; simp
  | cons b t ih =>
    intro lens hl hs
    cases lens with
    | nil => simp at hl
    | cons l lt =>
      simp only [List.zip_cons_cons, List.map_cons, List.mem_cons, forall_eq_or_imp] at hs ⊢
      obtain ⟨h1, h2⟩ := hs
      rw [ih lt (by simpa using hl) h2]
      simp [seenOf, h1]

/-- **C13, whole file, both directions.** For every byte string and every option setting with the
    section limit within go-cid's stream cap: full-validation inspection succeeds with statistics `st`
    **iff** the container is accepted, the hash-verifying scan of the payload window's sections ends
    cleanly with some block list `bs`, the index codec is readable when an index is announced, and
    `st` is the statistics computed from `bs` alone (each CID counted with its own byte length). -/
theorem inspect_full_iff (H : HashFn) (hU : H.Uniform) (o : ReadOpts) (ht : o.trusted = false)
    (hcap : o.maxSection ≤ maxDigestAlloc) (file : Bytes) (st : Stats) :
    inspect H o true file = .ok st ↔
      ∃ (v : Nat) (hdr : V2Header) (roots : List Cid) (secs : Bytes) (bs : List Block) (codec : Nat),
        container o file = .ok (v, hdr, roots, secs) ∧
        scanSections H o secs = (bs, .eof) ∧
        indexProbe file v hdr = .ok codec ∧
        st = statsOf v hdr roots (bs.map seenOf) codec := by
  rw [inspect_factors]
  constructor
  · intro h
    cases hc : container o file with
    | error e => rw [hc] at h; cases h
    | ok r =>
      obtain ⟨v, hdr, roots, secs⟩ := r
      rw [hc] at h
      simp only at h
      cases hl : inspectLoop H o true (secs.length + 1) secs [] with
      | error e => rw [hl] at h; cases h
      | ok seen =>
        rw [hl] at h
        simp only at h
        cases hp : indexProbe file v hdr with
        | error e => rw [hp] at h; cases h
        | ok codec =>
          rw [hp] at h
          simp only [Except.ok.injEq] at h
          obtain ⟨bs, lens, hlen, hs, hr⟩ := inspectLoop_implies_scan H hU o ht (secs.length + 1) secs [] seen (by omega) hl
          have hlens := inspectLoop_lens H o true (secs.length + 1) secs [] seen hl (by simp)
          simp only [List.nil_append] at hr
          rw [hr] at hlens
          refine ⟨v, hdr, roots, secs, bs, codec, rfl, hs, hp, ?_⟩
          rw [← h, hr, zip_map_seenOf bs lens hlen hlens]
  · rintro ⟨v, hdr, roots, secs, bs, codec, hc, hs, hp, rfl⟩
    rw [hc]
    simp only
    obtain ⟨lens, hlen, hl⟩ := scan_implies_inspectLoop H hU o ht hcap (secs.length + 1) secs bs [] hs
    have hlens := inspectLoop_lens H o true (secs.length + 1) secs [] _ hl (by simp)
    simp only [List.nil_append] at hl hlens
    rw [hl]
    simp only
    rw [hp, zip_map_seenOf bs lens hlen hlens]

end Car
