import CarModel.Proofs.Inspect
import CarModel.Proofs.InspectConv
import CarModel.Proofs.V2
import CarModel.Proofs.Canonical
/-
Whole-file form of C13: `Inspect` of any byte string factors into (container) → (section walk) →
(index-codec probe), and with full validation it succeeds iff the container is accepted, the
hash-verifying scan of the section part of the payload window ends cleanly and the index codec (when
an index is announced) is readable — with the statistics computed from that scan.
-/
namespace Car

/-- What `NewReader` + the inner header read of `Inspect` accept: version, CARv2 header (zero for a
    CARv1), the roots and the section part of the payload window. -/
def container (o : ReadOpts) (file : Bytes) : Except Err (Nat × V2Header × List Cid × Bytes) :=
  match readHeader o.maxHeader file with
  | .error e => .error e
  | .ok (h0, _) =>
    if h0.version ≠ 1 ∧ h0.version ≠ 2 then .error .badVersion else
    let v2 : Except Err V2Header :=
      if h0.version = 2 then (readV2Header ((file.drop 11).take 40)).map (·.1) else .ok {}
    match v2 with
    | .error e => .error e
    | .ok hdr =>
      let window := if h0.version = 2 then (file.drop hdr.dataOffset).take hdr.dataSize else file
      match readHeader o.maxHeader window with
      | .error e => .error e
      | .ok (h1, secs) =>
        if h0.version = 2 ∧ h1.version ≠ 1 then .error .badVersion
        else .ok (h0.version, hdr, h1.rootList, secs)

/-- The index-codec probe: the varint at the index offset when the header announces an index. -/
def indexProbe (file : Bytes) (version : Nat) (hdr : V2Header) : Except Err Nat :=
  if version = 2 ∧ hdr.hasIndex then
    match readUvarint (file.drop hdr.indexOffset) with
    | .error e => .error (verr e)
    | .ok (codec, _) => .ok codec
  else .ok 0

/-- `Inspect` is exactly: container, then the section walk, then the probe. -/
theorem inspect_factors (H : HashFn) (o : ReadOpts) (validate : Bool) (file : Bytes) :
    inspect H o validate file =
      match container o file with
      | .error e => .error e
      | .ok (v, hdr, roots, secs) =>
        match inspectLoop H o validate (secs.length + 1) secs [] with
        | .error e => .error e
        | .ok seen =>
          match indexProbe file v hdr with
          | .error e => .error e
          | .ok codec => .ok (statsOf v hdr roots seen codec) := by
  unfold inspect container indexProbe
  cases readHeader o.maxHeader file with
  | error e => rfl
  | ok p =>
    obtain ⟨h0, rest⟩ := p
    simp only
    by_cases hv : h0.version ≠ 1 ∧ h0.version ≠ 2
    · simp only [if_pos hv]
    · simp only [if_neg hv]
      generalize (if h0.version = 2 then (readV2Header ((file.drop 11).take 40)).map (·.1) else (Except.ok {} : Except Err V2Header)) = v2
      cases v2 with
      | error e => rfl
      | ok hdr =>
        simp only
        cases readHeader o.maxHeader (if h0.version = 2 then (file.drop hdr.dataOffset).take hdr.dataSize else file) with
        | error e => rfl
        | ok q =>
          obtain ⟨h1, secs⟩ := q
          simp only
          by_cases hb : h0.version = 2 ∧ h1.version ≠ 1
          · simp only [if_pos hb]
          · simp only [if_neg hb]
            cases inspectLoop H o validate (secs.length + 1) secs [] with
            | error e => rfl
            | ok seen =>
              simp only
              by_cases hi : h0.version = 2 ∧ hdr.hasIndex
              · simp only [if_pos hi]
                cases readUvarint (file.drop hdr.indexOffset) with
                | error e => rfl
                | ok r => rfl
              · simp only [if_neg hi]

/-- Every entry Inspect records carries the CID's own byte length (the decoders accept only the
    canonical encoding). -/
theorem inspectLoop_lens (H : HashFn) (o : ReadOpts) (validate : Bool) :
    ∀ (fuel : Nat) (w : Bytes) (acc res : List Seen),
    inspectLoop H o validate fuel w acc = .ok res →
    (∀ s ∈ acc, s.cidLen = s.cid.byteLen) → ∀ s ∈ res, s.cidLen = s.cid.byteLen := by
  intro fuel
  induction fuel with
  | zero => intro w acc res h hacc; simp only [inspectLoop, Except.ok.injEq] at h; subst h; exact hacc
  | succ f ih =>
    intro w acc res h hacc
    unfold inspectLoop at h
    cases hr : readUvarint w with
    | error e =>
      rw [hr] at h
      cases e <;> simp only [Except.ok.injEq, reduceCtorEq] at h
      subst h; exact hacc
    | ok p =>
      obtain ⟨len, r1⟩ := p
      rw [hr] at h
      simp only at h
      split at h
      · simp only [Except.ok.injEq] at h; subst h; exact hacc
      · split at h
        · cases h
        · cases hc : cidFromReader r1 with
          | error e => rw [hc] at h; cases e <;> cases h
          | ok q =>
            obtain ⟨n, c, r2⟩ := q
            rw [hc] at h
            simp only at h
            have hn := (cidFromReader_canonical r1 n c r2 hc).2
            have hacc' : ∀ s ∈ acc ++ [(⟨c, n, len - n⟩ : Seen)], s.cidLen = s.cid.byteLen := by
              intro s hs
              simp only [List.mem_append, List.mem_cons, List.not_mem_nil, or_false] at hs
              rcases hs with hs | rfl
              · exact hacc s hs
              · exact hn
            split at h
            · cases h
            · split at h
              · split at h
                · cases h
                · split at h
                  · cases h
                  · split at h
                    · cases h
                    · split at h
                      · cases h
                      · exact ih _ _ _ h hacc'
              · exact ih _ _ _ h hacc'

theorem zip_map_seenOf : ∀ (bs : List Block) (lens : List Nat), lens.length = bs.length →
    (∀ s ∈ (bs.zip lens).map (fun p => (⟨p.1.cid, p.2, p.1.data.length⟩ : Seen)), s.cidLen = s.cid.byteLen) →
    (bs.zip lens).map (fun p => (⟨p.1.cid, p.2, p.1.data.length⟩ : Seen)) = bs.map seenOf := by
  intro bs
  induction bs with
  | nil => intro lens _ _; simp
  | cons b t ih =>
    intro lens hl hs
    cases lens with
    | nil => simp at hl
    | cons l lt =>
      simp only [List.zip_cons_cons, List.map_cons, List.mem_cons, forall_eq_or_imp] at hs ⊢
      obtain ⟨h1, h2⟩ := hs
      rw [ih lt (by simpa using hl) h2]
      simp [seenOf, h1]

/-- **C13, whole file, both directions.** For every byte string and every option setting with the
    section limit within go-cid's stream cap: full-validation inspection succeeds with statistics `st`
    **iff** the container is accepted, the hash-verifying scan of the payload window's sections ends
    cleanly with some block list `bs`, the index codec is readable when an index is announced, and
    `st` is the statistics computed from `bs` alone (each CID counted with its own byte length). -/
theorem inspect_full_iff (H : HashFn) (hU : H.Uniform) (o : ReadOpts) (ht : o.trusted = false)
    (hcap : o.maxSection ≤ maxDigestAlloc) (file : Bytes) (st : Stats) :
    inspect H o true file = .ok st ↔
      ∃ (v : Nat) (hdr : V2Header) (roots : List Cid) (secs : Bytes) (bs : List Block) (codec : Nat),
        container o file = .ok (v, hdr, roots, secs) ∧
        scanSections H o secs = (bs, .eof) ∧
        indexProbe file v hdr = .ok codec ∧
        st = statsOf v hdr roots (bs.map seenOf) codec := by
  rw [inspect_factors]
  constructor
  · intro h
    cases hc : container o file with
    | error e => rw [hc] at h; cases h
    | ok r =>
      obtain ⟨v, hdr, roots, secs⟩ := r
      rw [hc] at h
      simp only at h
      cases hl : inspectLoop H o true (secs.length + 1) secs [] with
      | error e => rw [hl] at h; cases h
      | ok seen =>
        rw [hl] at h
        simp only at h
        cases hp : indexProbe file v hdr with
        | error e => rw [hp] at h; cases h
        | ok codec =>
          rw [hp] at h
          simp only [Except.ok.injEq] at h
          obtain ⟨bs, lens, hlen, hs, hr⟩ := inspectLoop_implies_scan H hU o ht (secs.length + 1) secs [] seen (by omega) hl
          have hlens := inspectLoop_lens H o true (secs.length + 1) secs [] seen hl (by simp)
          simp only [List.nil_append] at hr
          rw [hr] at hlens
          refine ⟨v, hdr, roots, secs, bs, codec, rfl, hs, hp, ?_⟩
          rw [← h, hr, zip_map_seenOf bs lens hlen hlens]
  · rintro ⟨v, hdr, roots, secs, bs, codec, hc, hs, hp, rfl⟩
    rw [hc]
    simp only
    obtain ⟨lens, hlen, hl⟩ := scan_implies_inspectLoop H hU o ht hcap (secs.length + 1) secs bs [] hs
    have hlens := inspectLoop_lens H o true (secs.length + 1) secs [] _ hl (by simp)
    simp only [List.nil_append] at hl hlens
    rw [hl]
    simp only
    rw [hp, zip_map_seenOf bs lens hlen hlens]

end Car

namespace Car

theorem pragma_length : pragma.length = 11 := by decide

/-- **Inspection accepts every laid-out CARv2** (any data/index padding, with or without an index,
    either fully-indexed flag) over a valid payload, and reports exactly the payload's statistics and
    the index codec. Used by C05 (finalized files), C19 (`car index` / `car concat` outputs). -/
theorem inspect_layoutV2 (H : HashFn) (hU : H.Uniform) (o : ReadOpts) (validate : Bool) (dp ip : Nat)
    (roots : Option (List Cid)) (bs : List Block) (hasIdx fi : Bool) (index : Bytes) (codec : Nat)
    (hwf : (CarHeader.mk roots 1).wf) (hmax : (encodeHeaderBody ⟨roots, 1⟩).length ≤ o.maxHeader)
    (h63 : (encodeHeaderBody ⟨roots, 1⟩).length < 2 ^ 63) (h10 : 10 ≤ o.maxHeader)
    (lok : LayoutOK dp ip (payload roots bs).length)
    (hok : ∀ b ∈ bs, b.wf o.maxSection ∧ b.cid.digest.length ≤ maxDigestAlloc ∧
      (validate = true → sumOk H b.cid b.data = true ∧ verifies H b.cid b.data = true))
    (hidx : hasIdx = true → ∃ rest, index = uvarint codec ++ rest ∧ codec < 2 ^ 63) :
    inspect H o validate (layoutV2 dp ip (payload roots bs) hasIdx fi index)
      = .ok (statsOf 2 (finalHeader dp ip (payload roots bs).length hasIdx fi) (roots.getD [])
              (bs.map seenOf) (if hasIdx then codec else 0)) := by
  have hp := payload_length_pos roots bs
  generalize hn : (payload roots bs).length = n at *
  have hfw := finalHeader_wf dp ip n hasIdx fi hp lok
  generalize hh : finalHeader dp ip n hasIdx fi = hdr at *
  have hdo : hdr.dataOffset = 51 + dp := by rw [← hh]; rfl
  have hds : hdr.dataSize = n := by rw [← hh]; rfl
  have hio : hdr.indexOffset = if hasIdx then 51 + dp + n + ip else 0 := by rw [← hh]; rfl
  let tail : Bytes := if hasIdx then zeros ip ++ index else []
  have e : layoutV2 dp ip (payload roots bs) hasIdx fi index
      = pragma ++ (hdr.bytes ++ (zeros dp ++ (payload roots bs ++ tail))) := by
    simp [layoutV2, hn, hh, tail]
  have e11 : (layoutV2 dp ip (payload roots bs) hasIdx fi index).drop 11 = hdr.bytes ++ (zeros dp ++ (payload roots bs ++ tail)) := by
    rw [e, List.drop_left' pragma_length]
  have e40 : ((layoutV2 dp ip (payload roots bs) hasIdx fi index).drop 11).take 40 = hdr.bytes := by
    rw [e11, List.take_left' (V2Header.bytes_length hdr)]
  have ewin : ((layoutV2 dp ip (payload roots bs) hasIdx fi index).drop (51 + dp)).take n = payload roots bs := by
    have : (pragma ++ (hdr.bytes ++ zeros dp)).length = 51 + dp := by
      simp [pragma_length, V2Header.bytes_length, zeros_length]; omega
    have e2 : layoutV2 dp ip (payload roots bs) hasIdx fi index
        = (pragma ++ (hdr.bytes ++ zeros dp)) ++ (payload roots bs ++ tail) := by rw [e]; simp
    rw [e2, List.drop_left' this, List.take_left' hn]
  unfold inspect
  have hrp : readHeader o.maxHeader (layoutV2 dp ip (payload roots bs) hasIdx fi index)
      = .ok (⟨none, 2⟩, hdr.bytes ++ (zeros dp ++ (payload roots bs ++ tail))) := by
    rw [e, readHeader_pragma o.maxHeader _ h10]
  rw [hrp]
  simp only [ne_eq, show ¬ ((2 : Nat) = 1) by decide, not_false_eq_true, not_true_eq_false, and_false,
    ↓reduceIte, true_and]
  rw [e40]
  have hrv := readV2Header_bytes hdr hfw []
  rw [List.append_nil] at hrv
  rw [hrv]
  simp only [Except.map, hdo, hds]
  rw [ewin]
  unfold payload
  rw [readHeader_encode o.maxHeader ⟨roots, 1⟩ _ hwf hmax h63]
  simp only [not_true_eq_false, ↓reduceIte]
  rw [inspectLoop_sections H hU o validate bs [] ((sectionsBytes bs).length + 1)
    (by have := sectionsBytes_length_ge bs; omega) hok]
  simp only [List.nil_append, CarHeader.rootList]
  cases hasIdx with
  | false =>
    have : hdr.hasIndex = false := by simp [V2Header.hasIndex, hio]
    simp [this]
  | true =>
    obtain ⟨rest, hi, hc⟩ := hidx rfl
    have hio' : hdr.indexOffset = 51 + dp + n + ip := by simp [hio]
    have : hdr.hasIndex = true := by simp [V2Header.hasIndex, hio']
    simp only [this, ↓reduceIte]
    have hdrop : (layoutV2 dp ip (encodeHeader ⟨roots, 1⟩ ++ sectionsBytes bs) true fi index).drop hdr.indexOffset = index := by
      have e3 : layoutV2 dp ip (encodeHeader ⟨roots, 1⟩ ++ sectionsBytes bs) true fi index
          = (pragma ++ (hdr.bytes ++ (zeros dp ++ (payload roots bs ++ zeros ip)))) ++ index := by
        have := e; unfold payload at this ⊢; rw [this]; simp [tail]
      have hl : (pragma ++ (hdr.bytes ++ (zeros dp ++ (payload roots bs ++ zeros ip)))).length = hdr.indexOffset := by
        rw [hio']; simp [pragma_length, V2Header.bytes_length, zeros_length, hn]; omega
      rw [e3, List.drop_left' hl]
    rw [hdrop, hi, readUvarint_uvarint codec hc rest]

/-- a serialized index starts with its codec varint -/
theorem index_bytes_codec (ix : Index) : ∃ rest, ix.bytes = uvarint ix.codec ++ rest ∧ ix.codec < 2 ^ 63 := by
  cases ix with
  | sorted m => exact ⟨_, rfl, by simp [Index.codec, codecSorted]⟩
  | mh m => exact ⟨_, rfl, by simp [Index.codec, codecMhSorted]⟩

/-- Inspection accepts every valid CARv1 and reports its statistics. -/
theorem inspect_layoutV1 (H : HashFn) (hU : H.Uniform) (o : ReadOpts) (validate : Bool) (roots : Option (List Cid)) (bs : List Block)
    (hwf : (CarHeader.mk roots 1).wf) (hmax : (encodeHeaderBody ⟨roots, 1⟩).length ≤ o.maxHeader)
    (h63 : (encodeHeaderBody ⟨roots, 1⟩).length < 2 ^ 63)
    (hok : ∀ b ∈ bs, b.wf o.maxSection ∧ b.cid.digest.length ≤ maxDigestAlloc ∧
      (validate = true → sumOk H b.cid b.data = true ∧ verifies H b.cid b.data = true)) :
    inspect H o validate (payload roots bs) = .ok (statsOf 1 {} (roots.getD []) (bs.map seenOf) 0) := by
  unfold inspect payload
  rw [readHeader_encode o.maxHeader ⟨roots, 1⟩ _ hwf hmax h63]
  simp only [ne_eq, not_true_eq_false, false_and, ↓reduceIte, show ¬ ((1 : Nat) = 2) by decide]
  rw [readHeader_encode o.maxHeader ⟨roots, 1⟩ _ hwf hmax h63]
  simp only [false_and, ↓reduceIte]
  have := inspectLoop_sections H hU o validate bs [] ((sectionsBytes bs).length + 1)
    (by have := sectionsBytes_length_ge bs; omega) hok
  rw [this]
  simp [CarHeader.rootList]

end Car
