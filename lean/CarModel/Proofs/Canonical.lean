import CarModel.Proofs.Varint
import CarModel.Proofs.InspectConv
/-
The decoders accept only the canonical encoding: what go-varint's minimal-only `ReadUvarint` reads
is `uvarint v`, and what `CidFromBytes` / `CidFromReader` accept is `c.bytes`. Consequence: the byte
length a CID occupied in a section is a function of the CID (`Cid.byteLen`).
-/
namespace Car

theorem ofNat_toNat (b : UInt8) : UInt8.ofNat b.toNat = b := by
  simp

theorem readUvarintAux_canonical : ∀ (bs : Bytes) (i acc v : Nat) (rest : Bytes),
    readUvarintAux i acc bs = .ok (v, rest) →
    ∃ w, v = acc + w * 2 ^ (7 * i) ∧ bs = uvarint w ++ rest ∧ (0 < i → 0 < w) := by
  intro bs
  induction bs with
  | nil => intro i acc v rest h; simp [readUvarintAux] at h
  | cons b tl ih =>
    intro i acc v rest h
    unfold readUvarintAux at h
    split at h
    · cases h
    · split at h
      · rename_i hlt
        split at h
        · cases h
        · rename_i hnm
          injection h with h; injection h with h1 h2
          subst h2
          refine ⟨b.toNat, h1.symm, ?_, ?_⟩
          · unfold uvarint
            simp [hlt]
          · intro hi; omega
      · rename_i hge
        obtain ⟨w', hv, hb, hp⟩ := ih _ _ _ _ h
        have hw' : 0 < w' := hp (by omega)
        have hb256 : b.toNat < 256 := b.toNat_lt
        refine ⟨(b.toNat - 128) + 128 * w', ?_, ?_, ?_⟩
        · rw [hv]
          have : 2 ^ (7 * (i + 1)) = 128 * 2 ^ (7 * i) := by
            have h7 : (2 : Nat) ^ 7 = 128 := by decide
            rw [show 7 * (i + 1) = 7 * i + 7 by omega, Nat.pow_add, h7, Nat.mul_comm]
          rw [this]
          generalize 2 ^ (7 * i) = p
          have e : w' * (128 * p) = 128 * w' * p := by rw [Nat.mul_comm 128 w', Nat.mul_assoc]
          rw [e, Nat.add_mul, Nat.add_assoc]
        · have hnlt : ¬ ((b.toNat - 128) + 128 * w' < 128) := by omega
          rw [uvarint]
          simp only [hnlt, ↓reduceIte, List.cons_append]
          have hm : ((b.toNat - 128) + 128 * w') % 128 = b.toNat - 128 := by omega
          have hd : ((b.toNat - 128) + 128 * w') / 128 = w' := by omega
          rw [hm, hd, ← hb]
          have : b.toNat - 128 + 128 = b.toNat := by omega
          rw [this, ofNat_toNat]
        · intro _; omega

/-- go-varint's reader accepts exactly the minimal encoding of the value it returns. -/
theorem readUvarint_canonical (bs : Bytes) (v : Nat) (rest : Bytes)
    (h : readUvarint bs = .ok (v, rest)) : bs = uvarint v ++ rest := by
  obtain ⟨w, hv, hb, _⟩ := readUvarintAux_canonical bs 0 0 v rest h
  simp at hv
  rw [hv]; exact hb

end Car

namespace Car

theorem take_pre_add (pre r : Bytes) (k : Nat) : (pre ++ r).take (pre.length + k) = pre ++ r.take k := by
  induction pre with
  | nil => simp
  | cons x t ih => simp only [List.cons_append, List.length_cons]; rw [show t.length + 1 + k = (t.length + k) + 1 by omega, List.take_succ_cons, ih]

/-- `readMultihashFromBuf` accepts exactly the canonical multihash bytes. -/
theorem mhFromBytes_canonical (bs : Bytes) (m code : Nat) (dig : Bytes)
    (h : mhFromBytes bs = .ok (m, code, dig)) :
    bs.take m = uvarint code ++ uvarint dig.length ++ dig ∧ m ≤ bs.length := by
  unfold mhFromBytes at h
  split at h
  · cases h
  · cases h1 : readUvarint bs with
    | error e => simp [h1] at h
    | ok p1 =>
      obtain ⟨c, r1⟩ := p1
      simp only [h1] at h
      cases h2 : readUvarint r1 with
      | error e => simp [h2] at h
      | ok p2 =>
        obtain ⟨len, r2⟩ := p2
        simp only [h2] at h
        split at h
        · cases h
        · split at h
          · cases h
          · rename_i hle
            injection h with h; injection h with hm h; injection h with hc hd
            subst hc
            have e1 := readUvarint_canonical bs c r1 h1
            have e2 := readUvarint_canonical r1 len r2 h2
            have hdl : dig.length = len := by rw [← hd]; simp; omega
            have ebs : bs = (uvarint c ++ uvarint len) ++ r2 := by rw [e1, e2]; simp
            have hml : m = (uvarint c ++ uvarint len).length + len := by
              rw [← hm]; rw [ebs]; simp; omega
            constructor
            · rw [hml, ebs, take_pre_add, hdl, hd]
            · rw [hml, ebs]; simp; omega

/-- `cid.CidFromBytes` accepts exactly the canonical CID bytes: the consumed prefix is `c.bytes`. -/
theorem cidFromBytes_canonical (bs : Bytes) (n : Nat) (c : Cid) (h : cidFromBytes bs = .ok (n, c)) :
    bs.take n = c.bytes ∧ n = c.byteLen := by
  have key : bs.take n = c.bytes ∧ n ≤ bs.length → bs.take n = c.bytes ∧ n = c.byteLen := by
    rintro ⟨h1, h2⟩
    refine ⟨h1, ?_⟩
    unfold Cid.byteLen; rw [← h1]; simp; omega
  apply key
  unfold cidFromBytes at h
  split at h
  · rename_i x tl
    split at h
    · cases h
    · rename_i hlen
      injection h with h; injection h with hn hc
      subst hn; subst hc
      simp only [Cid.bytes, ↓reduceIte, Cid.mhBytes]
      constructor
      · have hl : ((0x12 : UInt8) :: 0x20 :: x :: tl).length ≥ 34 := by omega
        simp only [List.length_cons] at hl
        have hd : (List.take 32 (List.drop 2 ((0x12 : UInt8) :: 0x20 :: x :: tl))).length = 32 := by
          simp; omega
        rw [hd]
        have u1 : uvarint 0x12 = [0x12] := by unfold uvarint; simp
        have u2 : uvarint 32 = [0x20] := by unfold uvarint; simp
        rw [u1, u2]
        simp
      · omega
  · cases h1 : readUvarint bs with
    | error e => simp [h1] at h
    | ok p1 =>
      obtain ⟨vers, r1⟩ := p1
      simp only [h1] at h
      split at h
      · cases h
      · rename_i hv
        have hv1 : vers = 1 := by omega
        subst hv1
        cases h2 : readUvarint r1 with
        | error e => simp [h2] at h
        | ok p2 =>
          obtain ⟨codec, r2⟩ := p2
          simp only [h2] at h
          cases h3 : mhFromBytes r2 with
          | error e => simp [h3] at h
          | ok p3 =>
            obtain ⟨m, code, dig⟩ := p3
            simp only [h3] at h
            injection h with h; injection h with hn hc
            subst hc
            obtain ⟨hm1, hm2⟩ := mhFromBytes_canonical r2 m code dig h3
            have e1 := readUvarint_canonical bs 1 r1 h1
            have e2 := readUvarint_canonical r1 codec r2 h2
            have ebs : bs = (uvarint 1 ++ uvarint codec) ++ r2 := by rw [e1, e2]; simp
            have hnl : n = (uvarint 1 ++ uvarint codec).length + m := by
              rw [← hn, ebs]; simp; omega
            constructor
            · rw [hnl, ebs, take_pre_add, hm1]
              simp [Cid.bytes, Cid.mhBytes]
            · rw [hnl, ebs]; simp; omega

/-- the same for the streaming decoder -/
theorem cidFromReader_canonical (s : Bytes) (n : Nat) (c : Cid) (rest : Bytes)
    (h : cidFromReader s = .ok (n, c, rest)) : s = c.bytes ++ rest ∧ n = c.byteLen := by
  have hl := cidFromReader_length s n c rest h
  obtain ⟨hb, hr⟩ := cidFromBytes_of_cidFromReader s n c rest s.length h (by omega) (by omega)
  rw [List.take_length] at hb
  obtain ⟨ht, hn⟩ := cidFromBytes_canonical s n c hb
  refine ⟨?_, hn⟩
  rw [← ht, hr, List.take_append_drop]

end Car
