import CarModel.ReadOnly
import CarModel.Proofs.IndexGen
import CarModel.Proofs.IndexSearch
import CarModel.Proofs.StoreInv
/-
What `OpenReadOnly` / `NewReadOnly` build over a CARv1 payload: helper lemmas about the records a
generated index holds (C07 `opened_v1_*`).
-/
namespace Car

theorem mem_keptRecords (o : IdxOpts) : ∀ (bs : List Block) (off : Nat) (r : Record), r ∈ keptRecords o off bs →
    ∃ l1 b l2, bs = l1 ++ b :: l2 ∧ r = ⟨b.cid, off + (sectionsBytes l1).length⟩ := by
  intro bs
  induction bs with
  | nil => intro off r h; simp [keptRecords] at h
  | cons b tl ih =>
    intro off r h
    simp only [keptRecords, List.mem_append] at h
    rcases h with h | h
    · split at h
      · simp only [List.mem_singleton] at h
        exact ⟨[], b, tl, rfl, by simp [h, sectionsBytes]⟩
      · simp at h
    · obtain ⟨l1, b', l2, hl, hr⟩ := ih _ _ h
      refine ⟨b :: l1, b', l2, by simp [hl], ?_⟩
      rw [hr, sectionsBytes_cons, List.length_append, sectionBytes_length]
      congr 1; omega

theorem keptRecords_complete (o : IdxOpts) : ∀ (l1 : List Block) (b : Block) (l2 : List Block) (off : Nat),
    (o.storeIdentity || !b.cid.isIdentity) = true →
    (⟨b.cid, off + (sectionsBytes l1).length⟩ : Record) ∈ keptRecords o off (l1 ++ b :: l2) := by
  intro l1
  induction l1 with
  | nil => intro b l2 off hk; simp [keptRecords, hk, sectionsBytes]
  | cons a tl ih =>
    intro b l2 off hk
    simp only [List.cons_append, keptRecords, List.mem_append]
    right
    have := ih b l2 (off + sectionSize a) hk
    rw [sectionsBytes_cons, List.length_append, sectionBytes_length]
    have e : off + (sectionSize a + (sectionsBytes tl).length) = off + sectionSize a + (sectionsBytes tl).length := by omega
    rw [e]; exact this


theorem insIndex_load_perm : ∀ (rs : List Record) (ix : InsIndex), List.Perm (InsIndex.load ix rs) (ix ++ rs) := by
  intro rs
  induction rs with
  | nil => intro ix; simp [InsIndex.load]
  | cons r tl ih =>
    intro ix
    simp only [InsIndex.load, List.foldl_cons]
    have h1 := ih (ix.insert r)
    simp only [InsIndex.load] at h1
    refine h1.trans ?_
    have h2 := insIndex_insert_perm ix r
    have : List.Perm (ix.insert r ++ tl) ((r :: ix) ++ tl) := List.Perm.append_right tl h2
    refine this.trans ?_
    simp only [List.cons_append]
    exact (List.perm_middle).symm

/-- the index options a read-only store derives from its own options -/
def roIdxOpts (o : WOpts) : IdxOpts :=
  { zeroEOF := o.zeroEOF, storeIdentity := o.storeIdentity, maxIndexCidSize := o.maxIndexCidSize, maxHeader := o.maxHeader }

end Car
