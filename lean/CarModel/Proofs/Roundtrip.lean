import CarModel.Proofs.Extract
/-
Extraction of a faithful trace into an empty output directory reproduces exactly the tree the
trace denotes (C18, extraction half).
-/
namespace Car.Extract
open Car Car.FS

/-- a directory-entry name as a real tree has them: one non-empty component, not `.` or `..` -/
def Simple (n : Bytes) : Prop := splitSegs n = [n] ∧ n ≠ [] ∧ n ≠ dot ∧ n ≠ dotdot

theorem joinRooted_simple (cur : P) (n : Bytes) (h : Simple n) : joinRooted cur n = cur ++ [n] := by
  unfold joinRooted
  rw [h.1]
  simp [pushSeg, h.2.1, h.2.2.1, h.2.2.2]

/-- the events a tree walk yields: directories, complete files, symlinks with a target, absent blocks -/
def GoodEv : Ev → Prop
  | .enter n => Simple n
  | .leave => True
  | .file n _ ok => Simple n ∧ ok = true
  | .sym n t => Simple n ∧ t ≠ []
  | .missing _ => False
  | .bad _ => False
  | .fail => False

/-- The tree a trace denotes: (path relative to the output directory, node), in trace order. -/
def denote : List P → List Ev → List (P × Node)
  | _, [] => []
  | st, .enter n :: es => (st.headD [] ++ [n], .dir) :: denote ((st.headD [] ++ [n]) :: st) es
  | st, .leave :: es => denote st.tail es
  | st, .file n d _ :: es => (st.headD [] ++ [n], .file d) :: denote st es
  | st, .sym n t :: es => (st.headD [] ++ [n], .link t) :: denote st es
  | st, .missing _ :: es => denote st es
  | _, .bad _ :: _ => []
  | _, .fail :: _ => []

theorem dirs_walk (fs : Fs) (base : P) (hd : Dirs fs base) (hc : Clean base) (follow : Bool) (fuel : Nat) :
    walk fs follow fuel [] base = .ok (.found base) := by
  have := walk_straight fs follow fuel base [] [] hc (fun k _ _ => by simpa using take_prefix_dirs hd k)
  simp only [List.append_nil, List.nil_append] at this
  rw [this, walk_nil]

theorem fresh_walk (fs : Fs) (base : P) (l : Seg) (hd : Dirs fs base) (hc : Clean base)
    (hl : l ≠ [] ∧ l ≠ dot ∧ l ≠ dotdot) (hn : lookup fs (base ++ [l]) = none) (follow : Bool) (fuel : Nat) :
    walk fs follow fuel [] (base ++ [l]) = .ok (.missingLast base l) := by
  have := walk_straight fs follow fuel base [] [l] hc (fun k _ _ => by simpa using take_prefix_dirs hd k)
  simp only [List.nil_append] at this
  rw [this, walk]
  simp [hl.1, hl.2.1, hl.2.2, hn]

theorem resolvePath_fresh (fs : Fs) (root cur : P) (l : Seg) (hd : Dirs fs (root ++ cur)) (hc : Clean (root ++ cur))
    (hl : l ≠ [] ∧ l ≠ dot ∧ l ≠ dotdot) (hn : lookup fs (root ++ cur ++ [l]) = none) :
    resolvePath fs root (cur ++ [l]) = .ok (root ++ cur ++ [l]) := by
  unfold resolvePath
  have e1 : root ++ (cur ++ [l]) = (root ++ cur) ++ [l] := by simp
  simp only [e1, List.dropLast_concat]
  have h1 : evalSymlinks fs (root ++ cur) = .ok (root ++ cur) := by
    unfold evalSymlinks; rw [dirs_walk fs _ hd hc]
  have h2 : lstat fs (root ++ cur ++ [l]) = .error .enoent := by
    unfold lstat; rw [fresh_walk fs _ l hd hc hl hn]
  have h2' : lstat fs (root ++ (cur ++ [l])) = .error .enoent := by rw [e1]; exact h2
  simp only [e1, List.dropLast_concat, h1, ne_eq, not_true_eq_false, ↓reduceIte]
  rw [← e1, h2']

theorem create_fresh (fs : Fs) (base : P) (l : Seg) (d : Bytes) (hd : Dirs fs base) (hc : Clean base)
    (hl : l ≠ [] ∧ l ≠ dot ∧ l ≠ dotdot) (hn : lookup fs (base ++ [l]) = none) :
    create fs (base ++ [l]) d = (set fs (base ++ [l]) (.file d), .ok ()) := by
  unfold create; rw [fresh_walk fs _ l hd hc hl hn]

theorem symlink_fresh (fs : Fs) (base : P) (l : Seg) (t : Bytes) (ht : t ≠ []) (hd : Dirs fs base) (hc : Clean base)
    (hl : l ≠ [] ∧ l ≠ dot ∧ l ≠ dotdot) (hn : lookup fs (base ++ [l]) = none) :
    symlink fs t (base ++ [l]) = (set fs (base ++ [l]) (.link t), .ok ()) := by
  unfold symlink; simp only [ht, ↓reduceIte]; rw [fresh_walk fs _ l hd hc hl hn]

theorem mkdirAll_fresh (fs : Fs) (base : P) (l : Seg) (hd : Dirs fs base) (hc : Clean base)
    (hl : l ≠ [] ∧ l ≠ dot ∧ l ≠ dotdot) (hn : lookup fs (base ++ [l]) = none) :
    mkdirAll fs (base ++ [l]) = (set fs (base ++ [l]) .dir, .ok ()) := by
  have hw := fresh_walk fs base l hd hc hl hn
  have hst : stat fs (base ++ [l]) = .error .enoent := by unfold stat; rw [hw]
  have hpst : stat fs base = .ok .dir :=
    stat_of_found fs _ _ (hd base (List.prefix_refl _)) (dirs_walk fs base hd hc true kernelLoops)
  have hmk : mkdirThen fs (base ++ [l]) = (set fs (base ++ [l]) .dir, .ok ()) := by
    unfold mkdirThen mkdir; rw [hw]
  unfold mkdirAll
  have hlen : (base ++ [l]).length = base.length + 1 := by simp
  rw [hlen]
  simp only [mkdirAllAux, hst, List.dropLast_concat]
  by_cases h2 : (base ++ [l]).length ≥ 2
  · simp only [h2, ↓reduceIte]
    have : mkdirAllAux fs base.length base = (fs, .ok ()) := by
      cases hk : base.length <;> simp [mkdirAllAux, hpst]
    rw [this]; simp only [hmk]
  · simp only [h2, ↓reduceIte, hmk]

/-- creating something at a path that did not exist keeps every directory chain intact -/
theorem Dirs.set_fresh {fs : Fs} {p j : P} {n : Node} (h : Dirs fs p) (hj : j ≠ []) (hn : lookup fs j = none) :
    Dirs (set fs j n) p := by
  intro q hq
  rw [lookup_set fs j q n hj]
  by_cases e : q = j
  · subst e; rw [h q hq] at hn; cases hn
  · simp [e, h q hq]

/-- state of the extraction: the output directory and every directory on the stack exist, with
    all of their ancestors -/
def Live (root : P) (st : St) : Prop :=
  (Dirs st.fs root ∧ Clean root) ∧ ∀ p ∈ st.stack, Dirs st.fs (root ++ p) ∧ Clean (root ++ p)

theorem Live.cur {root : P} {st : St} (h : Live root st) :
    Dirs st.fs (root ++ st.stack.headD []) ∧ Clean (root ++ st.stack.headD []) := by
  cases hs : st.stack with
  | nil => simpa using h.1
  | cons a b => simpa using h.2 a (by simp [hs])

theorem lookup_none_of_not_mem {α β : Type} [BEq α] [LawfulBEq α] (l : List (α × β)) (k : α)
    (h : k ∉ l.map (·.1)) : l.lookup k = none := by
  induction l with
  | nil => rfl
  | cons a t ih =>
    simp only [List.map_cons, List.mem_cons, not_or] at h
    rw [List.lookup_cons]
    have : (k == a.1) = false := by simpa using h.1
    simp [this, ih h.2]

/-- one fresh creation at `root ++ cur ++ [n]`, then the rest of the trace -/
theorem step_fresh (root : P) (st : St) (n : Seg) (node : Node) (es : List Ev) (stack' : List P)
    (rest : List (P × Node))
    (hnd : (((st.stack.headD [] ++ [n], node) :: rest).map (·.1)).Nodup)
    (hfresh : ∀ p ∈ ((st.stack.headD [] ++ [n], node) :: rest).map (·.1), lookup st.fs (root ++ p) = none)
    (hlive : Live root st)
    (hstack' : ∀ p ∈ stack', p ∈ st.stack ∨ p = st.stack.headD [] ++ [n] ∧ node = .dir)
    (hcn : n ≠ [] ∧ n ≠ dot ∧ n ≠ dotdot)
    (ih : ∀ st1 : St, Live root st1 → st1.fs = set st.fs (root ++ st.stack.headD [] ++ [n]) node → st1.stack = stack' →
      (rest.map (·.1)).Nodup → (∀ p ∈ rest.map (·.1), lookup st1.fs (root ++ p) = none) →
      (runEvs root st1 es).2 = .ok () ∧
      ∀ q, lookup (runEvs root st1 es).1.fs (root ++ q) =
        match rest.lookup q with
        | some m => some m
        | none => lookup st1.fs (root ++ q)) :
    let st1 : St := { fs := set st.fs (root ++ st.stack.headD [] ++ [n]) node, stack := stack' }
    (runEvs root st1 es).2 = .ok () ∧
    ∀ q, lookup (runEvs root st1 es).1.fs (root ++ q) =
      match ((st.stack.headD [] ++ [n], node) :: rest).lookup q with
      | some m => some m
      | none => lookup st.fs (root ++ q) := by
  intro st1
  obtain ⟨hcd, hcc⟩ := hlive.cur
  have hjne : root ++ st.stack.headD [] ++ [n] ≠ [] := by simp
  have hjn : lookup st.fs (root ++ st.stack.headD [] ++ [n]) = none := by
    have := hfresh (st.stack.headD [] ++ [n]) (by simp)
    simpa [List.append_assoc] using this
  simp only [List.map_cons, List.nodup_cons] at hnd
  have hlive1 : Live root st1 := by
    refine ⟨⟨Dirs.set_fresh hlive.1.1 hjne hjn, hlive.1.2⟩, ?_⟩
    intro p hp
    rcases hstack' p hp with h | ⟨h, hdir⟩
    · exact ⟨Dirs.set_fresh (hlive.2 p h).1 hjne hjn, (hlive.2 p h).2⟩
    · subst h hdir
      refine ⟨?_, ?_⟩
      · have : root ++ (st.stack.headD [] ++ [n]) = (root ++ st.stack.headD []) ++ [n] := by simp
        rw [this]
        exact Dirs.snoc (Dirs.set_fresh hcd hjne hjn) (by rw [lookup_set _ _ _ _ hjne]; simp)
      · have : root ++ (st.stack.headD [] ++ [n]) = (root ++ st.stack.headD []) ++ [n] := by simp
        rw [this]
        exact hcc.append (by intro x hx; simp at hx; subst hx; exact hcn)
  have hfresh1 : ∀ p ∈ rest.map (·.1), lookup st1.fs (root ++ p) = none := by
    intro p hp
    show lookup (set st.fs (root ++ st.stack.headD [] ++ [n]) node) (root ++ p) = none
    rw [lookup_set _ _ _ _ hjne]
    have hne : root ++ p ≠ root ++ st.stack.headD [] ++ [n] := by
      intro e
      rw [List.append_assoc] at e
      have := List.append_cancel_left e
      subst this
      exact hnd.1 hp
    simp only [hne, ↓reduceIte]
    exact hfresh p (by simp [hp])
  obtain ⟨r1, r2⟩ := ih st1 hlive1 rfl rfl hnd.2 hfresh1
  refine ⟨r1, fun q => ?_⟩
  rw [r2 q, List.lookup_cons]
  by_cases hq : q = st.stack.headD [] ++ [n]
  · subst hq
    have hnone : rest.lookup (st.stack.headD [] ++ [n]) = none := lookup_none_of_not_mem rest _ hnd.1
    simp only [hnone, beq_self_eq_true]
    show lookup (set st.fs (root ++ st.stack.headD [] ++ [n]) node) (root ++ (st.stack.headD [] ++ [n])) = some node
    rw [lookup_set _ _ _ _ hjne]; simp
  · have hb : (q == st.stack.headD [] ++ [n]) = false := by simpa using hq
    simp only [hb]
    cases hl : rest.lookup q with
    | some m => rfl
    | none =>
      show lookup (set st.fs (root ++ st.stack.headD [] ++ [n]) node) (root ++ q) = lookup st.fs (root ++ q)
      rw [lookup_set _ _ _ _ hjne]
      have : root ++ q ≠ root ++ st.stack.headD [] ++ [n] := by
        intro e; rw [List.append_assoc] at e; exact hq (List.append_cancel_left e)
      rw [if_neg this]

/-- **Extraction of a faithful trace reproduces the denoted tree.** -/
theorem runEvs_roundtrip (root : P) :
    ∀ (evs : List Ev) (st : St), (∀ e ∈ evs, GoodEv e) → Live root st →
      ((denote st.stack evs).map (·.1)).Nodup →
      (∀ p ∈ (denote st.stack evs).map (·.1), lookup st.fs (root ++ p) = none) →
      (runEvs root st evs).2 = .ok () ∧
      ∀ q, lookup (runEvs root st evs).1.fs (root ++ q) =
        match (denote st.stack evs).lookup q with
        | some n => some n
        | none => lookup st.fs (root ++ q) := by
  intro evs
  induction evs with
  | nil => intro st _ _ _ _; simp [runEvs, denote]
  | cons e es ih =>
    intro st hg hlive hnd hfresh
    have hge := hg e (by simp)
    have hg' : ∀ e' ∈ es, GoodEv e' := fun e' he' => hg e' (by simp [he'])
    obtain ⟨hcd, hcc⟩ := hlive.cur
    have hcur : st.cur = st.stack.headD [] := rfl
    cases e with
    | bad n => exact absurd hge (by simp [GoodEv])
    | fail => exact absurd hge (by simp [GoodEv])
    | missing n => exact absurd hge (by simp [GoodEv])
    | leave =>
      simp only [denote] at hnd hfresh ⊢
      have := ih { st with stack := st.stack.tail } hg'
        ⟨hlive.1, fun p hp => hlive.2 p (List.mem_of_mem_tail hp)⟩ hnd hfresh
      simpa [runEvs, stepEv] using this
    | file n d ok =>
      obtain ⟨hs, hok⟩ : Simple n ∧ ok = true := hge
      subst hok
      simp only [denote] at hnd hfresh ⊢
      have hjn : lookup st.fs (root ++ st.stack.headD [] ++ [n]) = none := by
        have := hfresh (st.stack.headD [] ++ [n]) (by simp)
        simpa [List.append_assoc] using this
      have hrp := resolvePath_fresh st.fs root (st.stack.headD []) n hcd hcc hs.2 hjn
      have hcr := create_fresh st.fs (root ++ st.stack.headD []) n d hcd hcc hs.2 hjn
      have key := step_fresh root st n (.file d) es st.stack (denote st.stack es) hnd hfresh hlive
        (fun p hp => .inl hp) hs.2
        (fun st1 hl1 hfs hstk hnd1 hfr1 => by
          have := ih st1 hg' hl1 (by rw [hstk]; exact hnd1) (by rw [hstk]; exact hfr1)
          rw [hstk] at this; exact this)
      simp only [runEvs, stepEv, hcur, joinRooted_simple _ n hs, hrp, hcr, ↓reduceIte]
      exact key
    | sym n t =>
      obtain ⟨hs, ht⟩ : Simple n ∧ t ≠ [] := hge
      simp only [denote] at hnd hfresh ⊢
      have hjn : lookup st.fs (root ++ st.stack.headD [] ++ [n]) = none := by
        have := hfresh (st.stack.headD [] ++ [n]) (by simp)
        simpa [List.append_assoc] using this
      have hrp := resolvePath_fresh st.fs root (st.stack.headD []) n hcd hcc hs.2 hjn
      have hcr := symlink_fresh st.fs (root ++ st.stack.headD []) n t ht hcd hcc hs.2 hjn
      have key := step_fresh root st n (.link t) es st.stack (denote st.stack es) hnd hfresh hlive
        (fun p hp => .inl hp) hs.2
        (fun st1 hl1 hfs hstk hnd1 hfr1 => by
          have := ih st1 hg' hl1 (by rw [hstk]; exact hnd1) (by rw [hstk]; exact hfr1)
          rw [hstk] at this; exact this)
      simp only [runEvs, stepEv, hcur, joinRooted_simple _ n hs, hrp, hcr]
      exact key
    | enter n =>
      have hs : Simple n := hge
      simp only [denote] at hnd hfresh ⊢
      have hjn : lookup st.fs (root ++ st.stack.headD [] ++ [n]) = none := by
        have := hfresh (st.stack.headD [] ++ [n]) (by simp)
        simpa [List.append_assoc] using this
      have hrp := resolvePath_fresh st.fs root (st.stack.headD []) n hcd hcc hs.2 hjn
      have hcr := mkdirAll_fresh st.fs (root ++ st.stack.headD []) n hcd hcc hs.2 hjn
      have key := step_fresh root st n .dir es ((st.stack.headD [] ++ [n]) :: st.stack)
        (denote ((st.stack.headD [] ++ [n]) :: st.stack) es) hnd hfresh hlive
        (fun p hp => by
          simp only [List.mem_cons] at hp
          rcases hp with hp | hp
          · exact .inr ⟨hp, rfl⟩
          · exact .inl hp) hs.2
        (fun st1 hl1 hfs hstk hnd1 hfr1 => by
          have := ih st1 hg' hl1 (by rw [hstk]; exact hnd1) (by rw [hstk]; exact hfr1)
          rw [hstk] at this; exact this)
      simp only [runEvs, stepEv, hcur, joinRooted_simple _ n hs, hrp, hcr]
      exact key

end Car.Extract

namespace Car.Extract
open Car Car.FS

/-- a resolved path whose last component is a directory: every prefix is a directory -/
theorem dirs_of_eval (fs : Fs) (p root : P) (h : evalSymlinks fs p = .ok root) (hd : lookup fs root = some .dir) :
    Dirs fs root ∧ Clean root := by
  unfold evalSymlinks at h
  cases hw : walk fs true goLoops [] p with
  | error e => simp [hw] at h
  | ok r =>
    cases r with
    | missingLast a b => simp [hw] at h
    | found q =>
      simp only [hw] at h
      injection h with h; subst h
      obtain ⟨hc, hdirs, _⟩ := walk_ok fs true goLoops [] p (.found q) Clean.nil (Dirs.nil fs) hw
      refine ⟨?_, hc⟩
      intro x hx
      by_cases e : x = q
      · subst e; exact hd
      · apply hdirs
        have hlen : x.length < q.length := by
          have := hx.length_le
          rcases Nat.lt_or_ge x.length q.length with h | h
          · exact h
          · exact absurd (hx.eq_of_length (by omega)) e
        rw [List.prefix_iff_eq_take] at hx ⊢
        rw [hx, List.length_take, List.dropLast_eq_take, List.take_take]
        congr 1
        omega

theorem denote_ne_nil : ∀ (evs : List Ev) (st : List P) (p : P), p ∈ (denote st evs).map (·.1) → p ≠ [] := by
  intro evs
  induction evs with
  | nil => intro st p hp; simp [denote] at hp
  | cons e es ih =>
    intro st p hp
    cases e <;> simp only [denote, List.map_cons, List.mem_cons, List.map_nil, List.not_mem_nil] at hp
    · rcases hp with hp | hp
      · subst hp; simp
      · exact ih _ p hp
    · exact ih _ p hp
    · rcases hp with hp | hp
      · subst hp; simp
      · exact ih _ p hp
    · rcases hp with hp | hp
      · subst hp; simp
      · exact ih _ p hp
    · exact ih _ p hp

/-- **Extraction half of the round trip.** Into an existing, empty output directory, the extraction
    of a single directory root whose trace is a faithful tree walk succeeds, and the output
    directory then holds exactly the denoted tree: every denoted path with its node, nothing else. -/
theorem extract_roundtrip (fs : Fs) (outDir root : P) (evs : List Ev)
    (hroot : evalSymlinks fs outDir = .ok root) (hd : lookup fs root = some .dir)
    (hempty : ∀ q, q ≠ [] → lookup fs (root ++ q) = none)
    (hg : ∀ e ∈ evs, GoodEv e) (hnd : ((denote [[]] evs).map (·.1)).Nodup) :
    (extractAll outDir fs [.dir evs]).2 = .ok () ∧
    ∀ q, q ≠ [] → lookup (extractAll outDir fs [.dir evs]).1 (root ++ q) = (denote [[]] evs).lookup q := by
  obtain ⟨hdirs, hclean⟩ := dirs_of_eval fs outDir root hroot hd
  -- extractDir("/"): resolvePath(root, "/") and MkdirAll(root) change nothing
  have hrp : resolvePath fs root [] = .ok root := by
    unfold resolvePath
    simp only [List.append_nil]
    have h1 : evalSymlinks fs root.dropLast = .ok root.dropLast := by
      unfold evalSymlinks; rw [dirs_walk fs _ hdirs.dropLast hclean.dropLast]
    have h2 : lstat fs root = .ok .dir := by
      unfold lstat; rw [dirs_walk fs _ hdirs hclean]; simp [hd]
    simp [h1, h2]
  have hmk : mkdirAll fs root = (fs, .ok ()) := by
    have hst : stat fs root = .ok .dir := stat_of_found fs _ _ hd (dirs_walk fs root hdirs hclean true kernelLoops)
    unfold mkdirAll
    cases hk : root.length <;> simp [mkdirAllAux, hst]
  have hpaths : ∀ (st : List P) (p : P), p ∈ (denote st evs).map (·.1) → p ≠ [] := fun st p hp => denote_ne_nil evs st p hp
  have key := runEvs_roundtrip root evs { fs := fs, stack := [[]] } hg
    ⟨⟨hdirs, hclean⟩, by intro p hp; simp at hp; subst hp; simpa using ⟨hdirs, hclean⟩⟩ hnd
    (fun p hp => hempty p (hpaths _ p hp))
  simp only [extractAll, extractRoot, hroot, hrp, hmk]
  cases hr : runEvs root { fs := fs, stack := [[]] } evs with
  | mk st res =>
    rw [hr] at key
    obtain ⟨k1, k2⟩ := key
    simp only at k1 k2 ⊢
    subst k1
    refine ⟨rfl, fun q hq => ?_⟩
    rw [k2 q]
    cases hl : (denote [[]] evs).lookup q with
    | some n => rfl
    | none => exact hempty q hq

end Car.Extract
