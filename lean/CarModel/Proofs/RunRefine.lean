import CarModel.Proofs.Session
/-
Whole histories of the open phase: any list of Put / PutMany / Has / Get / AllKeysChan / Roots calls on a
writable store, by induction over the list. Every answer is one the reference map allows in the state the
reference has reached at that call, and the two stay related — so the per-operation theorems of C04 hold
at every point of every history, not only after a single call.
-/
namespace Car

/-- the calls of the open phase (the typestate calls are C04.closed_rejects / C05 / C12; GetSize carries
    the recorded finding) -/
def Op.isData (api : Api) : Op → Bool
  | .put _ _ | .has _ | .get _ | .roots => true
  | .putMany _ | .allKeys => api == .blockstore
  | _ => false

/-- the blocks a call hands to the store -/
def Op.blocks : Op → List Block
  | .put c d => [⟨c, d⟩]
  | .putMany bs => bs
  | _ => []

/-- What the reference map allows as the answer to one call in state `st`. Put / PutMany / Has / Roots:
    exactly the reference's answer. Get: the IdStore digest, or the bytes of a stored block carrying the
    key, or not-found when none does. AllKeysChan: a permutation of the reference's keys. -/
def Allowed (o : WOpts) (st : Spec.State) : Op → Out → Prop
  | .get c, out =>
    if Spec.idRule o c then out = .data c.digest
    else (∃ b ∈ st.log, Spec.sameKey o b.cid c = true ∧ out = .data b.data) ∨
         (Spec.stored o st c = none ∧ out = .err .notFound)
  | .allKeys, out => ∃ l l', out = .cids l ∧ (Spec.step o st .allKeys).2 = .cids l' ∧ List.Perm l l'
  | op, out => out = (Spec.step o st op).2

/-- every answer of a run is allowed in the reference state reached at that call -/
def RunOk (o : WOpts) : Spec.State → List Op → List Out → Prop
  | _, [], [] => True
  | st, op :: ops, out :: outs => Allowed o st op out ∧ RunOk o (Spec.step o st op).1 ops outs
  | _, _, _ => False

theorem putMany_flags (o : WOpts) (bs : List Block) : ∀ (s : Store),
    (s.putMany o bs).1.finalized = s.finalized ∧ (s.putMany o bs).1.closed = s.closed := by
  induction bs with
  | nil => intro s; exact ⟨rfl, rfl⟩
  | cons b tl ih =>
    intro s
    have hfl := putOne_flags o s b.cid b.data
    unfold Store.putMany
    generalize s.putOne o b.cid b.data = rm at hfl
    obtain ⟨sm, outm, evs⟩ := rm
    cases outm <;> simp only <;> try exact hfl
    have := ih sm
    exact ⟨this.1.trans hfl.1, this.2.trans hfl.2⟩

theorem spec_putOne_log (o : WOpts) (st : Spec.State) (c : Cid) (d : Bytes) :
    ∀ b ∈ (Spec.putOne o st c d).1.log, b ∈ st.log ∨ b = ⟨c, d⟩ := by
  intro b hb
  unfold Spec.putOne at hb
  split at hb
  · exact .inl hb
  · split at hb
    · exact .inl hb
    · split at hb
      · exact .inl hb
      · simp only [List.mem_append, List.mem_singleton] at hb; exact hb

theorem spec_putMany_log (o : WOpts) (bs : List Block) : ∀ (st : Spec.State),
    ∀ b ∈ (Spec.putMany o st bs).1.log, b ∈ st.log ∨ b ∈ bs := by
  induction bs with
  | nil => intro st b hb; exact .inl hb
  | cons x tl ih =>
    intro st b hb
    unfold Spec.putMany at hb
    have h1 := spec_putOne_log o st x.cid x.data
    generalize Spec.putOne o st x.cid x.data = rs at hb h1
    obtain ⟨ss, outs⟩ := rs
    have hx : (⟨x.cid, x.data⟩ : Block) = x := rfl
    cases outs with
    | ok =>
      simp only at hb
      rcases ih ss b hb with h | h
      · rcases h1 b h with h | h
        · exact .inl h
        · exact .inr (by rw [h, hx]; exact List.mem_cons_self)
      · exact .inr (List.mem_cons_of_mem _ h)
    | _ =>
      simp only at hb
      rcases h1 b hb with h | h
      · exact .inl h
      · exact .inr (by rw [h, hx]; exact List.mem_cons_self)

theorem spec_putOne_flags (o : WOpts) (st : Spec.State) (c : Cid) (d : Bytes) :
    (Spec.putOne o st c d).1.closed = st.closed ∧ (Spec.putOne o st c d).1.finalized = st.finalized := by
  unfold Spec.putOne
  split
  · exact ⟨rfl, rfl⟩
  · split
    · exact ⟨rfl, rfl⟩
    · split <;> exact ⟨rfl, rfl⟩

end Car
