import CarModel.Extract
import CarModel.Proofs.FsOps
/-
Containment of `car extract`: every state the extractor reaches differs from the initial name
space only below the resolved output directory, and never changes the kind of anything that
was there.
-/
namespace Car.Extract
open Car Car.FS

/-- `fs'` extends `fs` below `root`: untouched outside `root`, kind-preserving everywhere. -/
structure Ext (root : P) (fs fs' : Fs) : Prop where
  outside : ∀ q, ¬ root <+: q → lookup fs' q = lookup fs q
  mono : Mono fs fs'

theorem Ext.refl (root : P) (fs : Fs) : Ext root fs fs := ⟨fun _ _ => rfl, Mono.refl fs⟩

theorem Ext.trans {root : P} {a b c : Fs} (h1 : Ext root a b) (h2 : Ext root b c) : Ext root a c :=
  ⟨fun q hq => (h2.outside q hq).trans (h1.outside q hq), h1.mono.trans h2.mono⟩

theorem Ext.of_upd {root j : P} {fs fs' : Fs} (h : Upd fs fs' j) (hr : root <+: j) : Ext root fs fs' :=
  ⟨fun q hq => h.local q (fun e => hq (e ▸ hr)), h.mono⟩

theorem pushSeg_clean (cur : P) (s : Seg) (h : Clean cur) : Clean (pushSeg cur s) := by
  unfold pushSeg
  by_cases h1 : s = [] ∨ s = dot
  · simp [h1, h]
  · simp only [h1, ↓reduceIte]
    by_cases h2 : s = dotdot
    · simp only [h2, ↓reduceIte]; exact h.dropLast
    · simp only [h2, ↓reduceIte]
      simp only [not_or] at h1
      exact h.append (by intro x hx; simp at hx; subst hx; exact ⟨h1.1, h1.2, h2⟩)

/-- `path.Join` of a rooted clean path with ANY name is a rooted clean path: no separator, `.`
    or `..` survives, whatever bytes the archive put in the name. -/
theorem joinRooted_clean (cur : P) (name : Bytes) (h : Clean cur) : Clean (joinRooted cur name) := by
  unfold joinRooted
  generalize splitSegs name = segs
  induction segs generalizing cur with
  | nil => simpa
  | cons s t ih => simp only [List.foldl_cons]; exact ih _ (pushSeg_clean cur s h)

theorem resolvePath_guarded (fs : Fs) (root p j : P) (hc : Clean (root ++ p))
    (h : resolvePath fs root p = .ok j) : j = root ++ p ∧ Guarded fs j := by
  unfold resolvePath at h
  simp only at h
  cases he : evalSymlinks fs (root ++ p).dropLast with
  | error e => simp [he] at h
  | ok final =>
    simp only [he] at h
    by_cases hf : final = (root ++ p).dropLast
    · subst hf
      simp only [ne_eq, not_true_eq_false, ↓reduceIte] at h
      cases hl : lstat fs (root ++ p) with
      | error e =>
        simp only [hl] at h
        injection h with h
        exact ⟨h.symm, by subst h; exact ⟨hc, he, fun t => by simp [hl]⟩⟩
      | ok n =>
        cases n with
        | link t => simp [hl] at h
        | dir =>
          simp only [hl] at h
          injection h with h
          exact ⟨h.symm, by subst h; exact ⟨hc, he, fun t => by simp [hl]⟩⟩
        | file d =>
          simp only [hl] at h
          injection h with h
          exact ⟨h.symm, by subst h; exact ⟨hc, he, fun t => by simp [hl]⟩⟩
    · simp [hf] at h

/-- every path on the stack of directories being extracted is clean -/
def StackOK (st : St) : Prop := ∀ p ∈ st.stack, Clean p

theorem St.cur_clean (st : St) (h : StackOK st) : Clean st.cur := by
  unfold St.cur
  cases hs : st.stack with
  | nil => simpa using Clean.nil
  | cons a t => simp only [List.headD_cons]; exact h a (by simp [hs])

/-- what a resolved destination gives: the three mutating calls stay below the root -/
theorem guarded_ext (fs : Fs) (root p j : P) (hr : Clean root) (hp : Clean p)
    (h : resolvePath fs root p = .ok j) :
    (∀ d, Ext root fs (create fs j d).1) ∧ (∀ t, Ext root fs (symlink fs t j).1) ∧ Ext root fs (mkdirAll fs j).1 := by
  obtain ⟨hj, g⟩ := resolvePath_guarded fs root p j (hr.append hp) h
  have hs := guarded_shape fs j g
  have hpre : root <+: j := by rw [hj]; exact List.prefix_append root p
  exact ⟨fun d => Ext.of_upd (create_upd fs d j hs) hpre, fun t => Ext.of_upd (symlink_upd fs t j hs) hpre,
    Ext.of_upd (mkdirAll_upd fs j hs) hpre⟩

theorem stepEv_ext (root : P) (hr : Clean root) (st : St) (hst : StackOK st) (e : Ev) :
    Ext root st.fs (stepEv root st e).1.fs ∧ StackOK (stepEv root st e).1 := by
  have hcur := St.cur_clean st hst
  cases e with
  | leave =>
    refine ⟨Ext.refl _ _, ?_⟩
    intro p hp
    exact hst p (List.mem_of_mem_tail hp)
  | fail => exact ⟨Ext.refl _ _, hst⟩
  | missing name =>
    simp only [stepEv]
    split <;> exact ⟨Ext.refl _ _, hst⟩
  | bad name =>
    simp only [stepEv]
    split <;> exact ⟨Ext.refl _ _, hst⟩
  | file name d ok =>
    simp only [stepEv]
    cases hrp : resolvePath st.fs root (joinRooted st.cur name) with
    | error e => exact ⟨Ext.refl _ _, hst⟩
    | ok dst =>
      have hx := (guarded_ext st.fs root _ dst hr (joinRooted_clean _ name hcur) hrp).1 d
      simp only
      cases hc : create st.fs dst d with
      | mk fs' r =>
        rw [hc] at hx
        cases r with
        | error e => exact ⟨hx, hst⟩
        | ok u => exact ⟨hx, hst⟩
  | sym name t =>
    simp only [stepEv]
    cases hrp : resolvePath st.fs root (joinRooted st.cur name) with
    | error e => exact ⟨Ext.refl _ _, hst⟩
    | ok dst =>
      have hx := (guarded_ext st.fs root _ dst hr (joinRooted_clean _ name hcur) hrp).2.1 t
      exact ⟨hx, hst⟩
  | enter name =>
    simp only [stepEv]
    cases hrp : resolvePath st.fs root (joinRooted st.cur name) with
    | error e => exact ⟨Ext.refl _ _, hst⟩
    | ok dst =>
      have hx := (guarded_ext st.fs root _ dst hr (joinRooted_clean _ name hcur) hrp).2.2
      simp only
      cases hm : mkdirAll st.fs dst with
      | mk fs' r =>
        rw [hm] at hx
        cases r with
        | error e => exact ⟨hx, hst⟩
        | ok u =>
          refine ⟨hx, ?_⟩
          intro p hp
          simp only [List.mem_cons] at hp
          rcases hp with hp | hp
          · subst hp; exact joinRooted_clean _ name hcur
          · exact hst p hp

theorem runEvs_ext (root : P) (hr : Clean root) (evs : List Ev) :
    ∀ (st : St), StackOK st → Ext root st.fs (runEvs root st evs).1.fs := by
  induction evs with
  | nil => intro st _; exact Ext.refl _ _
  | cons e es ih =>
    intro st hst
    obtain ⟨h1, h2⟩ := stepEv_ext root hr st hst e
    simp only [runEvs]
    cases hs : stepEv root st e with
    | mk st' r =>
      rw [hs] at h1 h2
      cases r with
      | error err => exact h1
      | ok u => exact h1.trans (ih st' h2)

theorem evalSymlinks_clean (fs : Fs) (p root : P) (h : evalSymlinks fs p = .ok root) : Clean root := by
  unfold evalSymlinks at h
  cases hw : walk fs true goLoops [] p with
  | error e => simp [hw] at h
  | ok r =>
    cases r with
    | missingLast a b => simp [hw] at h
    | found q =>
      simp only [hw] at h
      injection h with h; subst h
      exact (walk_ok fs true goLoops [] p (.found q) Clean.nil (Dirs.nil fs) hw).1

/-- a kind-preserving change does not move the resolved output directory -/
theorem evalSymlinks_mono (fs fs' : Fs) (hm : Mono fs fs') (p root : P) (h : evalSymlinks fs p = .ok root) :
    evalSymlinks fs' p = .ok root := by
  unfold evalSymlinks at h ⊢
  cases hw : walk fs true goLoops [] p with
  | error e => simp [hw] at h
  | ok r =>
    cases r with
    | missingLast a b => simp [hw] at h
    | found q =>
      simp only [hw] at h
      injection h with h; subst h
      rw [walk_mono fs fs' hm true goLoops [] p q hw]

theorem extractRoot_ext (fs : Fs) (outDir root : P) (r : Root) (h : evalSymlinks fs outDir = .ok root) :
    Ext root fs (extractRoot fs outDir r).1 := by
  have hr := evalSymlinks_clean fs outDir root h
  have key : ∀ r' : Root, (r' = r) → (∀ (x : Unit), r ≠ .raw) → (r ≠ .fail) → Ext root fs (extractRoot fs outDir r).1 := by
    intro r' _ hnr hnf
    cases r with
    | raw => exact absurd rfl (hnr ())
    | fail => exact absurd rfl hnf
    | dir evs =>
      simp only [extractRoot, h]
      cases hrp : resolvePath fs root [] with
      | error e => exact Ext.refl _ _
      | ok dirPath =>
        have hx := (guarded_ext fs root [] dirPath hr Clean.nil hrp).2.2
        simp only
        cases hm : mkdirAll fs dirPath with
        | mk fs1 res =>
          rw [hm] at hx
          cases res with
          | error e => exact hx
          | ok u =>
            simp only
            exact hx.trans (runEvs_ext root hr evs { fs := fs1, stack := [[]] }
              (by intro p hp; simp at hp; subst hp; exact Clean.nil))
    | file d ok =>
      simp only [extractRoot, h]
      cases hrp : resolvePath fs root [] with
      | error e => exact Ext.refl _ _
      | ok dirPath =>
        have hx := (guarded_ext fs root [] dirPath hr Clean.nil hrp).2.2
        simp only
        cases hm : mkdirAll fs dirPath with
        | mk fs1 res =>
          rw [hm] at hx
          cases res with
          | error e => exact hx
          | ok u =>
            simp only
            have hcu : Clean [[0x75, 0x6E, 0x6B, 0x6E, 0x6F, 0x77, 0x6E]] := by
              intro s hs; simp at hs; subst hs; decide
            cases hrp2 : resolvePath fs1 root [[0x75, 0x6E, 0x6B, 0x6E, 0x6F, 0x77, 0x6E]] with
            | error e => exact hx
            | ok dst =>
              have hy := (guarded_ext fs1 root _ dst hr hcu hrp2).1 d
              simp only
              cases hc : create fs1 dst d with
              | mk fs2 res2 =>
                rw [hc] at hy
                cases res2 with
                | error e => exact hx.trans hy
                | ok u => exact hx.trans hy
    | other =>
      simp only [extractRoot, h]
      cases hrp : resolvePath fs root [] with
      | error e => exact Ext.refl _ _
      | ok dirPath =>
        have hx := (guarded_ext fs root [] dirPath hr Clean.nil hrp).2.2
        simp only
        cases hm : mkdirAll fs dirPath with
        | mk fs1 res =>
          rw [hm] at hx
          cases res with
          | error e => exact hx
          | ok u => exact hx
  cases r with
  | raw => exact Ext.refl _ _
  | fail => exact Ext.refl _ _
  | dir evs => exact key _ rfl (fun _ => by simp) (by simp)
  | file d ok => exact key _ rfl (fun _ => by simp) (by simp)
  | other => exact key _ rfl (fun _ => by simp) (by simp)

theorem extractRoot_noroot (fs : Fs) (outDir : P) (r : Root) (h : ∀ root, evalSymlinks fs outDir ≠ .ok root) :
    (extractRoot fs outDir r).1 = fs := by
  cases he : evalSymlinks fs outDir with
  | ok root => exact absurd he (h root)
  | error e => cases r <;> simp [extractRoot, he]

theorem extractAll_ext (outDir root : P) (roots : List Root) :
    ∀ (fs : Fs), evalSymlinks fs outDir = .ok root → Ext root fs (extractAll outDir fs roots).1 := by
  induction roots with
  | nil => intro fs _; exact Ext.refl _ _
  | cons r rs ih =>
    intro fs h
    have h1 := extractRoot_ext fs outDir root r h
    simp only [extractAll]
    cases hx : extractRoot fs outDir r with
    | mk fs' res =>
      rw [hx] at h1
      cases res with
      | error e => exact h1
      | ok u => exact h1.trans (ih fs' (evalSymlinks_mono fs fs' h1.mono outDir root h))

theorem extractAll_noroot (outDir : P) (roots : List Root) :
    ∀ (fs : Fs), (∀ root, evalSymlinks fs outDir ≠ .ok root) → (extractAll outDir fs roots).1 = fs := by
  induction roots with
  | nil => intro fs _; rfl
  | cons r rs ih =>
    intro fs h
    have h1 := extractRoot_noroot fs outDir r h
    simp only [extractAll]
    cases hx : extractRoot fs outDir r with
    | mk fs' res =>
      rw [hx] at h1
      simp only at h1
      subst h1
      cases res with
      | error e => rfl
      | ok u => exact ih fs' h

end Car.Extract
