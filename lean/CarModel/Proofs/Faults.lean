import CarModel.Faults
import CarModel.Proofs.StoreRefine
import CarModel.Proofs.Resume
namespace Car

/-- a write at or beyond the end of `f` keeps `f` as a prefix of the file -/
theorem writeAt_keeps_prefix (f x d : Bytes) (off : Nat) (h : f.length ≤ off) :
    ∃ x', writeAt (f ++ x) off d = f ++ x' := by
  unfold writeAt
  by_cases hd : d = []
  · exact ⟨x, by simp [hd]⟩
  · simp only [hd, ↓reduceIte]
    by_cases hlt : (f ++ x).length < off
    · simp only [hlt, ↓reduceIte]
      refine ⟨(x ++ zeros (off - (f ++ x).length)).take (off - f.length) ++ d ++
        (f ++ x ++ zeros (off - (f ++ x).length)).drop (off + d.length), ?_⟩
      rw [List.append_assoc f x, List.take_append, List.take_of_length_le h]
      simp [List.append_assoc]
    · simp only [hlt, ↓reduceIte]
      refine ⟨x.take (off - f.length) ++ d ++ (f ++ x).drop (off + d.length), ?_⟩
      rw [List.take_append, List.take_of_length_le h]
      simp [List.append_assoc]

def WriteEv.atOrAfter (n : Nat) : WriteEv → Prop
  | .write off _ => n ≤ off
  | .truncate _ => False

theorem applyWrites_keeps_prefix (f : Bytes) : ∀ (evs : List WriteEv) (x : Bytes),
    (∀ ev ∈ evs, ev.atOrAfter f.length) → ∃ y, applyWrites (f ++ x) evs = f ++ y := by
  intro evs
  induction evs with
  | nil => intro x _; exact ⟨x, rfl⟩
  | cons ev tl ih =>
    intro x h
    have hev := h ev (by simp)
    cases ev with
    | truncate n => exact absurd hev (by simp [WriteEv.atOrAfter])
    | write off d =>
      obtain ⟨x', hx'⟩ := writeAt_keeps_prefix f x d off hev
      simp only [applyWrites, List.foldl_cons, WriteEv.apply]
      rw [hx']
      exact ih x' (fun e he => h e (by simp [he]))

theorem chunk_fold_offsets (parts : List Bytes) : ∀ (acc : List WriteEv) (n m : Nat), m ≤ n →
    (∀ ev ∈ acc, ev.atOrAfter m) →
    ∀ ev ∈ (parts.foldl (fun (a : List WriteEv × Nat) p => (a.1 ++ [WriteEv.write a.2 p], a.2 + p.length)) (acc, n)).1,
      ev.atOrAfter m := by
  induction parts with
  | nil => intro acc n m _ h; simpa using h
  | cons p ps ih =>
    intro acc n m hmn h
    simp only [List.foldl_cons]
    apply ih (acc ++ [WriteEv.write n p]) (n + p.length) m (by omega)
    intro ev hev
    simp only [List.mem_append, List.mem_singleton] at hev
    rcases hev with hev | rfl
    · exact h ev hev
    · exact hmn

theorem chunkEvs_offsets (n : Nat) (parts : List Bytes) : ∀ ev ∈ chunkEvs n parts, ev.atOrAfter n :=
  chunk_fold_offsets parts [] n n (Nat.le_refl n) (by simp)

theorem faultyPrefix_offsets (evs : List WriteEv) (flt : Fault) (n : Nat) (h : ∀ ev ∈ evs, ev.atOrAfter n) :
    ∀ ev ∈ faultyPrefix evs flt, ev.atOrAfter n := by
  intro ev hev
  simp only [faultyPrefix, List.mem_append] at hev
  rcases hev with hev | hev
  · exact h ev (List.mem_of_mem_take hev)
  · cases hg : evs[flt.call]? with
    | none => simp [hg] at hev
    | some w =>
      have hw : w ∈ evs := List.mem_of_getElem? hg
      cases w with
      | truncate k => simp [hg] at hev
      | write off d =>
        simp only [hg, List.mem_singleton] at hev
        subst hev
        exact h (WriteEv.write off d) hw

/-- every prefix (with the last write cut short) of chunk writes placed at the end of `f` yields `f ++ x` -/
theorem chunkEvs_prefix_extends (f : Bytes) (parts : List Bytes) (flt : Fault) :
    ∃ x, applyWrites f (faultyPrefix (chunkEvs f.length parts) flt) = f ++ x := by
  have := applyWrites_keeps_prefix f (faultyPrefix (chunkEvs f.length parts) flt) []
    (faultyPrefix_offsets _ flt f.length (chunkEvs_offsets f.length parts))
  simpa using this

/-- C16 core: a Put whose section write fails (any call, any short count) leaves the store's file,
    position and index exactly as they were, and reports an error. -/
theorem failed_put_unchanged (o : WOpts) (roots : Option (List Cid)) (s : Store) (log : List Block) (c : Cid) (d : Bytes)
    (inv : Inv o roots s log) (hopen : s.finalized = false ∧ s.closed = false) (flt : Fault)
    (hshould : shouldPut o s.idx c = .ok true) (hfire : flt.call < (ldWriteEvs (s.base + s.pos) [c.bytes, d]).length) :
    (s.putOneF o c d (some flt)).1.file = s.file ∧ (s.putOneF o c d (some flt)).1.pos = s.pos ∧
    (s.putOneF o c d (some flt)).1.idx = s.idx ∧ (s.putOneF o c d (some flt)).2.1 = .err .other := by
  obtain ⟨hb, ⟨h40, tail, h40l, hf, ht⟩, hpos, _, _⟩ := inv
  have htl := ht hopen.1 hopen.2
  subst htl
  simp only [List.append_nil] at hf
  have hlen : s.base + s.pos = s.file.length := by
    rw [hf, List.length_append, o.filePrefix_length h40 h40l, hpos, hb]
  unfold Store.putOneF
  simp only [hshould, hfire, ↓reduceIte, Store.applyEvs]
  refine ⟨?_, trivial, trivial, trivial⟩
  rw [applyWrites_append, hlen]
  unfold ldWriteEvs
  obtain ⟨x, hx⟩ := chunkEvs_prefix_extends s.file (uvarint ([c.bytes, d].map List.length).sum :: [c.bytes, d]) flt
  rw [hx]
  simp only [applyWrites, List.foldl_cons, List.foldl_nil, WriteEv.apply]
  exact truncate_prefix s.file x

/-- and without a fault (or when the armed call index lies beyond the section's writes) it is the ordinary Put -/
theorem unfired_put_is_put (o : WOpts) (s : Store) (c : Cid) (d : Bytes) (flt : Option Fault)
    (h : ∀ f, flt = some f → ¬ f.call < (ldWriteEvs (s.base + s.pos) [c.bytes, d]).length) :
    s.putOneF o c d flt = s.putOne o c d := by
  unfold Store.putOneF Store.putOne
  cases hs : shouldPut o s.idx c with
  | error e => rfl
  | ok b =>
    cases b with
    | false => rfl
    | true =>
      cases flt with
      | none => rfl
      | some f => simp [h f rfl]

end Car
