import CarModel.Proofs.StoreGet
import CarModel.Proofs.V2
namespace Car

/-- C05 header arithmetic: NewHeader(0) ⟶ WithDataPadding ⟶ WithIndexPadding ⟶ WithDataSize ⟶
    SetFullyIndexed is the intended header, provided the offsets fit in a uint64. -/
theorem finalHeader_arith (o : WOpts) (s : Store) (h64 : 51 + o.dataPad + o.indexPad + s.pos < 2 ^ 64) :
    s.finalHeader o = finalHeader o.dataPad o.indexPad s.pos true o.storeIdentity := by
  unfold Store.finalHeader V2Header.new V2Header.withDataPadding V2Header.withIndexPadding
    V2Header.withDataSize V2Header.setFullyIndexed V2Header.fullyIndexed finalHeader u64 pragmaSize v2HeaderSize
    fullyIndexedBit
  have e1 : (11 + 40 + 0) % 2 ^ 64 = 51 := by decide
  have e2 : (51 + o.dataPad) % 2 ^ 64 = 51 + o.dataPad := Nat.mod_eq_of_lt (by omega)
  have e3 : (51 + o.dataPad + o.indexPad) % 2 ^ 64 = 51 + o.dataPad + o.indexPad := Nat.mod_eq_of_lt (by omega)
  have e4 : (s.pos + (51 + o.dataPad + o.indexPad)) % 2 ^ 64 = 51 + o.dataPad + s.pos + o.indexPad := by
    rw [Nat.mod_eq_of_lt (by omega)]; omega
  have e5 : (11 + 40 + o.dataPad) % 2 ^ 64 = 51 + o.dataPad := by rw [Nat.mod_eq_of_lt (by omega)]
  simp only [e1, e2, e3, e4, e5]
  cases o.storeIdentity <;> simp

theorem singleWidthChunks_flatten (s : SingleWidth) : (singleWidthChunks s).flatten = s.marshal := by
  simp [singleWidthChunks, SingleWidth.marshal]

theorem multiWidthChunks_flatten (m : MultiWidth) : (multiWidthChunks m).flatten = MultiWidth.marshal m := by
  simp only [multiWidthChunks, MultiWidth.marshal, List.flatten_cons]
  congr 1
  induction m with
  | nil => rfl
  | cons s tl ih => simp [List.flatMap_cons, singleWidthChunks_flatten, ih]

theorem indexChunks_flatten (ix : Index) : (indexChunks ix).flatten = ix.bytes := by
  cases ix with
  | sorted m => simp [indexChunks, Index.bytes, multiWidthChunks_flatten]
  | mh m =>
    simp only [indexChunks, Index.bytes, MhIndex.marshal, List.flatten_cons]
    congr 2
    induction m with
    | nil => rfl
    | cons e tl ih => simp [List.flatMap_cons, multiWidthChunks_flatten, ih]

theorem indexChunks_head_ne_nil (ix : Index) : ∃ p ps, indexChunks ix = p :: ps ∧ p ≠ [] := by
  cases ix with
  | sorted m => exact ⟨_, _, rfl, uvarint_ne_nil _⟩
  | mh m => exact ⟨_, _, rfl, uvarint_ne_nil _⟩

theorem writeAt_inside (a old c d : Bytes) (hl : old.length = d.length) (hd : d ≠ []) :
    writeAt (a ++ old ++ c) a.length d = a ++ d ++ c := by
  unfold writeAt
  have : ¬ ((a ++ old ++ c).length < a.length) := by simp only [List.length_append]; omega
  simp only [hd, ↓reduceIte, this]
  have e : a ++ old ++ c = a ++ (old ++ c) := by simp
  rw [e, List.take_left' rfl, ← List.drop_drop, List.drop_left' rfl, ← hl, List.drop_left' rfl]

theorem headerEvs_eq (h : V2Header) :
    headerEvs h = [.write 11 (le64 h.charHi ++ le64 h.charLo),
                   .write 27 (le64 h.dataOffset ++ le64 h.dataSize ++ le64 h.indexOffset)] := by
  simp [headerEvs, chunkEvs, le64_length]

/-- Writing the final header into the 40-byte slot after the pragma. -/
theorem headerEvs_apply (h40 rest : Bytes) (hl : h40.length = 40) (h : V2Header) :
    applyWrites (pragma ++ h40 ++ rest) (headerEvs h) = pragma ++ h.bytes ++ rest := by
  have hp : pragma.length = 11 := by decide
  have h8 : ∀ n, (le64 n).length = 8 := le64_length
  rw [headerEvs_eq]
  simp only [applyWrites, List.foldl_cons, List.foldl_nil, WriteEv.apply]
  have l16 : (h40.take 16).length = 16 := by simp [hl]
  have l24 : (h40.drop 16).length = 24 := by simp [hl]
  have c1 : le64 h.charHi ++ le64 h.charLo ≠ [] := by
    intro hh; have := congrArg List.length hh; simp [h8] at this
  have c2 : le64 h.dataOffset ++ le64 h.dataSize ++ le64 h.indexOffset ≠ [] := by
    intro hh; have := congrArg List.length hh; simp [h8] at this
  have s1 : writeAt (pragma ++ h40 ++ rest) 11 (le64 h.charHi ++ le64 h.charLo)
      = pragma ++ (le64 h.charHi ++ le64 h.charLo) ++ (h40.drop 16 ++ rest) := by
    have e : pragma ++ h40 ++ rest = pragma ++ h40.take 16 ++ (h40.drop 16 ++ rest) := by
      simp only [List.append_assoc]
      rw [← List.append_assoc (List.take 16 h40), List.take_append_drop]
    rw [e, ← hp]
    exact writeAt_inside pragma (h40.take 16) _ _ (by simp [l16, h8]) c1
  rw [s1]
  have e2 : pragma ++ (le64 h.charHi ++ le64 h.charLo) ++ (h40.drop 16 ++ rest)
      = (pragma ++ (le64 h.charHi ++ le64 h.charLo)) ++ h40.drop 16 ++ rest := by simp
  have l27 : (pragma ++ (le64 h.charHi ++ le64 h.charLo)).length = 27 := by simp [hp, h8]
  rw [e2, ← l27, writeAt_inside _ (h40.drop 16) rest _ (by simp [l24, h8]) c2]
  simp [V2Header.bytes]

/-- C05 layout: the writes `store.Finalize` issues turn an open file into the intended CARv2 layout. -/
theorem finalize_file (o : WOpts) (roots : Option (List Cid)) (s : Store) (log : List Block) (ix : Index)
    (inv : Inv o roots s log) (hopen : s.finalized = false ∧ s.closed = false) (hv2 : o.v1 = false)
    (hix : s.idx.flatten o.codec = some ix)
    (h64 : 51 + o.dataPad + o.indexPad + s.pos < 2 ^ 64) :
    ∃ evs, s.finalizeEvs o = some evs ∧
      applyWrites s.file evs = layoutV2 o.dataPad o.indexPad (payload roots log) true o.storeIdentity ix.bytes := by
  obtain ⟨hb, ⟨h40, tail, h40l, hf, ht⟩, hpos, _, _⟩ := inv
  have htl := ht hopen.1 hopen.2
  subst htl
  refine ⟨indexEvs (s.finalHeader o).indexOffset ix ++ headerEvs (s.finalHeader o), by simp [Store.finalizeEvs, hix], ?_⟩
  rw [applyWrites_append, finalHeader_arith o s h64]
  have hpre : o.filePrefix h40 = pragma ++ h40 ++ zeros o.dataPad := by simp [WOpts.filePrefix, hv2]
  have hflen : s.file.length = 51 + o.dataPad + s.pos := by
    rw [hf, hpre, hpos]; simp [h40l, zeros, pragma, pragmaBody, keyVersion]; omega
  obtain ⟨p, ps, hch, hpne⟩ := indexChunks_head_ne_nil ix
  have hio : (finalHeader o.dataPad o.indexPad s.pos true o.storeIdentity).indexOffset
      = 51 + o.dataPad + s.pos + o.indexPad := by simp [finalHeader]
  unfold indexEvs
  rw [hio, hch, chunkEvs_at_hole s.file _ p ps (by omega) hpne, ← hch, indexChunks_flatten]
  have hz : 51 + o.dataPad + s.pos + o.indexPad - s.file.length = o.indexPad := by omega
  rw [hz, hf, hpre]
  have e : pragma ++ h40 ++ zeros o.dataPad ++ payload roots log ++ [] ++ zeros o.indexPad ++ ix.bytes
      = pragma ++ h40 ++ (zeros o.dataPad ++ payload roots log ++ zeros o.indexPad ++ ix.bytes) := by simp
  rw [e, headerEvs_apply h40 _ h40l]
  simp [layoutV2, hpos]

end Car
