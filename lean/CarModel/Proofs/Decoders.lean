import CarModel.Proofs.CidReader
namespace Car

/-- A successful varint read is unaffected by whatever follows the bytes it looked at. -/
theorem readUvarintAux_append : ∀ (bs : Bytes) (i acc v : Nat) (r x : Bytes),
    readUvarintAux i acc bs = .ok (v, r) → readUvarintAux i acc (bs ++ x) = .ok (v, r ++ x) := by
  intro bs
  induction bs with
  | nil => intro i acc v r x h; simp [readUvarintAux] at h
  | cons b tl ih =>
    intro i acc v r x h
    unfold readUvarintAux at h
    simp only [List.cons_append]
    unfold readUvarintAux
    split at h
    · cases h
    · rename_i hc
      simp only [hc, ↓reduceIte]
      split at h
      · rename_i hlt
        simp only [hlt, ↓reduceIte]
        split at h
        · cases h
        · rename_i hz
          simp only [hz, ↓reduceIte]
          injection h with h; injection h with h1 h2; subst h1 h2; rfl
      · rename_i hlt
        simp only [hlt, ↓reduceIte]
        exact ih _ _ _ _ x h

theorem readUvarint_append (bs : Bytes) (v : Nat) (r x : Bytes) (h : readUvarint bs = .ok (v, r)) :
    readUvarint (bs ++ x) = .ok (v, r ++ x) := readUvarintAux_append bs 0 0 v r x h

theorem readUvarint_suffix (bs : Bytes) (v : Nat) (r : Bytes) (h : readUvarint bs = .ok (v, r)) :
    ∃ pre, bs = pre ++ r := readUvarintAux_suffix bs 0 0 v r h

/-- **The two CID decoders agree**: whenever `CidFromBytes` accepts a buffer, `CidFromReader`
    accepts the stream that starts with it, returns the same CID and length, and leaves exactly the
    bytes after the CID (for digests within go-cid's 32 MiB stream cap). -/
theorem cidFromReader_of_cidFromBytes (sec x : Bytes) (n : Nat) (c : Cid)
    (h : cidFromBytes sec = .ok (n, c)) (hd : c.digest.length ≤ maxDigestAlloc) :
    cidFromReader (sec ++ x) = .ok (n, c, sec.drop n ++ x) := by
  unfold cidFromBytes at h
  split at h
  · -- CIDv0 fast path
    rename_i b2 tl
    split at h
    · cases h
    · rename_i hlen
      injection h with h; injection h with hn hc; subst hn hc
      unfold cidFromReader
      have r1 : readUvarint (0x12 :: 0x20 :: b2 :: tl ++ x) = .ok (0x12, 0x20 :: b2 :: tl ++ x) := by
        simp [readUvarint, readUvarintAux]
      rw [r1]
      simp only [↓reduceIte]
      have hl : ¬ ((0x20 :: b2 :: tl ++ x).length < 33) := by
        simp only [List.length_cons, List.length_append] at hlen ⊢; omega
      simp only [hl, ↓reduceIte]
      have hl2 : 32 ≤ (b2 :: tl).length := by simp only [List.length_cons] at hlen ⊢; omega
      have e1 : (0x20 : UInt8) :: b2 :: tl ++ x = 0x20 :: ((b2 :: tl) ++ x) := by simp
      rw [e1]
      simp only
      rw [List.take_append_of_le_length hl2, List.drop_append_of_le_length hl2]
      simp
  · -- CIDv1
    rename_i hnot
    split at h
    · cases h
    · rename_i vers r1 hv
      split at h
      · cases h
      · rename_i hvers
        have hvers1 : vers = 1 := by simpa using hvers
        subst hvers1
        split at h
        · cases h
        · rename_i codec r2 hc
          split at h
          · cases h
          · rename_i n' code dig hmh
            unfold mhFromBytes at hmh
            split at hmh
            · cases hmh
            · split at hmh
              · cases hmh
              · rename_i code' r3 hcode
                split at hmh
                · cases hmh
                · rename_i len r4 hlen
                  split at hmh
                  · cases hmh
                  · split at hmh
                    · cases hmh
                    · rename_i hbig hshort
                      injection hmh with hmh; injection hmh with hn' hrest; injection hrest with hcd hdg
                      subst hn' hcd hdg
                      injection h with h; injection h with hn hcid; subst hn hcid
                      simp only at hd
                      obtain ⟨p1, hp1⟩ := readUvarint_suffix sec 1 r1 hv
                      obtain ⟨p2, hp2⟩ := readUvarint_suffix r1 codec r2 hc
                      obtain ⟨p3, hp3⟩ := readUvarint_suffix r2 code' r3 hcode
                      obtain ⟨p4, hp4⟩ := readUvarint_suffix r3 len r4 hlen
                      unfold cidFromReader
                      rw [readUvarint_append sec 1 r1 x hv]
                      simp only [show ¬ ((1 : Nat) = 0x12) by decide, ↓reduceIte, ne_eq, not_true_eq_false]
                      rw [readUvarint_append r1 codec r2 x hc]
                      simp only
                      rw [readUvarint_append r2 code' r3 x hcode]
                      simp only
                      rw [readUvarint_append r3 len r4 x hlen]
                      simp only
                      have hlen_le : len ≤ r4.length := by omega
                      have hdl : (r4.take len).length = len := by simp; omega
                      have c1 : ¬ (len > maxDigestAlloc) := by rw [hdl] at hd; omega
                      have c2 : ¬ ((r4 ++ x).length < len) := by simp only [List.length_append]; omega
                      simp only [c1, c2, ↓reduceIte]
                      rw [List.take_append_of_le_length hlen_le, List.drop_append_of_le_length hlen_le]
                      have hsec : sec = (p1 ++ p2 ++ p3 ++ p4) ++ r4 := by
                        rw [hp1, hp2, hp3, hp4]; simp
                      have hcount : (sec ++ x).length - (r4 ++ x).length + len
                          = sec.length - r2.length + (r2.length - r4.length + len) := by
                        rw [hp1, hp2, hp3, hp4]; simp only [List.length_append]; omega
                      rw [hcount]
                      congr 2
                      congr 1
                      have hn : sec.length - r2.length + (r2.length - r4.length + len)
                          = (p1 ++ p2 ++ p3 ++ p4).length + len := by
                        rw [hp1, hp2, hp3, hp4]; simp only [List.length_append]; omega
                      rw [hn, hsec, ← List.drop_drop, List.drop_left' rfl]

end Car
