import CarModel.Spec
import CarModel.Transform
import CarModel.Proofs.Transform
import CarModel.Proofs.V2
/-
`car create` (cmd/car/create.go): the archive is written with a placeholder ("proxy") root and the
real root is patched in afterwards with `ReplaceRootsInFile`. When the two root lists encode to the
same number of bytes, the patched file is byte for byte the archive that a session opened with the
real root would have finalised.
-/
namespace Car
open Car.Spec

/-- replacing the roots of a laid-out CARv2 by roots of the same encoded length rewrites exactly the
    payload header -/
theorem replaceRoots_same_len_v2 (maxHeader : Nat) (dp ip : Nat) (roots newRoots : Option (List Cid)) (secs : Bytes)
    (hasIdx fi : Bool) (index : Bytes)
    (hwf : (CarHeader.mk roots 1).wf) (hmax : (encodeHeaderBody ⟨roots, 1⟩).length ≤ maxHeader)
    (h63 : (encodeHeaderBody ⟨roots, 1⟩).length < 2 ^ 63) (h10 : 10 ≤ maxHeader)
    (lok : LayoutOK dp ip (encodeHeader ⟨roots, 1⟩ ++ secs).length)
    (heq : (encodeHeader ⟨roots, 1⟩).length = (encodeHeader ⟨newRoots, 1⟩).length) :
    replaceRoots maxHeader (layoutV2 dp ip (encodeHeader ⟨roots, 1⟩ ++ secs) hasIdx fi index) newRoots
      = (.ok (), layoutV2 dp ip (encodeHeader ⟨newRoots, 1⟩ ++ secs) hasIdx fi index) := by
  generalize htail : (if hasIdx then zeros ip ++ index else ([] : Bytes)) = tail
  have hn : 0 < (encodeHeader ⟨roots, 1⟩ ++ secs).length := by
    have := uvarintSize_pos (encodeHeaderBody ⟨roots, 1⟩).length
    simp only [encodeHeader, List.length_append, uvarint_length]; omega
  have hfw := finalHeader_wf dp ip (encodeHeader ⟨roots, 1⟩ ++ secs).length hasIdx fi hn lok
  have hlen2 : (encodeHeader ⟨newRoots, 1⟩ ++ secs).length = (encodeHeader ⟨roots, 1⟩ ++ secs).length := by
    simp [heq]
  have e1 : layoutV2 dp ip (encodeHeader ⟨roots, 1⟩ ++ secs) hasIdx fi index
      = pragma ++ ((finalHeader dp ip (encodeHeader ⟨roots, 1⟩ ++ secs).length hasIdx fi).bytes ++
          (zeros dp ++ (encodeHeader ⟨roots, 1⟩ ++ (secs ++ tail)))) := by
    simp [layoutV2, htail]
  have e2 : layoutV2 dp ip (encodeHeader ⟨newRoots, 1⟩ ++ secs) hasIdx fi index
      = pragma ++ ((finalHeader dp ip (encodeHeader ⟨roots, 1⟩ ++ secs).length hasIdx fi).bytes ++
          (zeros dp ++ (encodeHeader ⟨newRoots, 1⟩ ++ (secs ++ tail)))) := by
    simp only [layoutV2, htail, hlen2]; simp
  have hoff : (finalHeader dp ip (encodeHeader ⟨roots, 1⟩ ++ secs).length hasIdx fi).dataOffset = 51 + dp := by simp [finalHeader]
  rw [e1, e2]
  generalize finalHeader dp ip (encodeHeader ⟨roots, 1⟩ ++ secs).length hasIdx fi = H at hfw hoff ⊢
  have hpre : (pragma ++ (H.bytes ++ zeros dp)).length = 51 + dp := by
    simp [pragma, pragmaBody, keyVersion, V2Header.bytes_length, zeros_length]; omega
  have hsplit : ∀ x : Bytes, pragma ++ (H.bytes ++ (zeros dp ++ x)) = (pragma ++ (H.bytes ++ zeros dp)) ++ x := by
    intro x; simp
  unfold replaceRoots
  rw [readHeader_pragma maxHeader _ h10]
  simp only [show ¬ ((2 : Nat) = 1) by decide, ↓reduceIte]
  rw [readV2Header_bytes _ hfw]
  simp only [hoff]
  rw [hsplit, List.drop_left' hpre, readHeader_encode maxHeader ⟨roots, 1⟩ _ hwf hmax h63]
  have hcur : (encodeHeader ⟨roots, 1⟩ ++ (secs ++ tail)).length - (secs ++ tail).length
      = (encodeHeader ⟨newRoots, 1⟩).length := by rw [← heq]; simp
  simp only [hcur, ne_eq, not_true_eq_false, ↓reduceIte]
  congr 1
  rw [writeAt_within _ _ (51 + dp) (by simp only [List.length_append] at hpre ⊢; omega)]
  rw [List.take_left' hpre]
  have hl2 : (51 + dp + (encodeHeader ⟨newRoots, 1⟩).length)
      = ((pragma ++ (H.bytes ++ zeros dp)) ++ encodeHeader ⟨roots, 1⟩).length := by
    rw [List.length_append, hpre, heq]
  rw [hl2]
  have hs2 : (pragma ++ (H.bytes ++ zeros dp)) ++ (encodeHeader ⟨roots, 1⟩ ++ (secs ++ tail))
      = ((pragma ++ (H.bytes ++ zeros dp)) ++ encodeHeader ⟨roots, 1⟩) ++ (secs ++ tail) := by simp
  rw [hs2, List.drop_left' rfl, hsplit]
  simp

theorem replaceRoots_same_len_v1' (maxHeader : Nat) (roots newRoots : Option (List Cid)) (body : Bytes)
    (hwf : (CarHeader.mk roots 1).wf) (hmax : (encodeHeaderBody ⟨roots, 1⟩).length ≤ maxHeader)
    (h63 : (encodeHeaderBody ⟨roots, 1⟩).length < 2 ^ 63)
    (heq : (encodeHeader ⟨roots, 1⟩).length = (encodeHeader ⟨newRoots, 1⟩).length) :
    replaceRoots maxHeader (encodeHeader ⟨roots, 1⟩ ++ body) newRoots
      = (.ok (), encodeHeader ⟨newRoots, 1⟩ ++ body) := by
  unfold replaceRoots
  rw [readHeader_encode maxHeader ⟨roots, 1⟩ body hwf hmax h63]
  simp only [↓reduceIte, List.length_append, Nat.add_sub_cancel, ne_eq, heq, not_true_eq_false]
  congr 1
  rw [writeAt_within _ _ 0 (by simp [heq])]
  simp only [List.take_zero, List.nil_append, Nat.zero_add]
  rw [← heq, List.drop_left' rfl]

/-- **The proxy-root trick is exact.** The file `car create` leaves behind — a session opened with a
    placeholder root, finalised, then `ReplaceRootsInFile` with the real root — is the file a session
    opened with the real root finalises, for every put history, in CARv1 and CARv2 mode, whenever
    the two root lists encode to the same length. -/
theorem proxy_root_exact (maxHeader : Nat) (o : WOpts) (proxy root : Option (List Cid)) (log : List Block) (f : Bytes)
    (hf : finalFile o proxy log = some f)
    (hwf : (CarHeader.mk proxy 1).wf) (hmax : (encodeHeaderBody ⟨proxy, 1⟩).length ≤ maxHeader)
    (h63 : (encodeHeaderBody ⟨proxy, 1⟩).length < 2 ^ 63) (h10 : 10 ≤ maxHeader)
    (lok : LayoutOK o.dataPad o.indexPad (payload proxy log).length)
    (heq : (encodeHeader ⟨proxy, 1⟩).length = (encodeHeader ⟨root, 1⟩).length) :
    ∃ f', replaceRoots maxHeader f root = (.ok (), f') ∧ finalFile o root log = some f' := by
  unfold finalFile at hf ⊢
  have hhs : headerSize ⟨root, 1⟩ = headerSize ⟨proxy, 1⟩ := by simp [headerSize, heq]
  by_cases hv : o.v1 = true
  · simp only [hv, ↓reduceIte, Option.some.injEq] at hf ⊢
    subst hf
    exact ⟨_, replaceRoots_same_len_v1' maxHeader proxy root (sectionsBytes log) hwf hmax h63 heq, rfl⟩
  · simp only [hv, Bool.false_eq_true, ↓reduceIte, hhs] at hf ⊢
    cases hix : Index.load o.codec (withOffsets (headerSize ⟨proxy, 1⟩) log) with
    | none => simp [hix] at hf
    | some ix =>
      simp only [hix, Option.some.injEq] at hf ⊢
      subst hf
      exact ⟨_, replaceRoots_same_len_v2 maxHeader o.dataPad o.indexPad proxy root (sectionsBytes log) true
        o.storeIdentity ix.bytes hwf hmax h63 h10 lok heq, rfl⟩

end Car
