import CarModel.Index
import CarModel.Proofs.Header
import CarModel.Proofs.V2
namespace Car

theorem le32_length (n : Nat) : (le32 n).length = 4 := leN_length 4 n
theorem leVal_le32 (n : Nat) (h : n < 2 ^ 32) : leVal (le32 n) = n := leVal_leN 4 n (by simpa using h)

structure SingleWidth.wf (s : SingleWidth) : Prop where
  wlo : 8 ≤ s.width
  whi : s.width ≤ maxIndexWidth
  ilen : s.index.length < 2 ^ 63
  len : s.len = s.index.length / s.width

theorem singleWidth_roundtrip (s : SingleWidth) (hwf : s.wf) (rest : Bytes) :
    SingleWidth.unmarshal (s.marshal ++ rest) = .ok (s, rest) := by
  obtain ⟨hlo, hhi, hil, hlen⟩ := hwf
  have hw32 : s.width < 2 ^ 32 := by unfold maxIndexWidth at hhi; omega
  have e : s.marshal ++ rest = le32 s.width ++ (le64 s.index.length ++ (s.index ++ rest)) := by
    simp [SingleWidth.marshal]
  unfold SingleWidth.unmarshal
  rw [e]
  have c1 : ¬ ((le32 s.width ++ (le64 s.index.length ++ (s.index ++ rest))).length < 4) := by
    simp [le32_length]
  simp only [c1, ↓reduceIte]
  rw [List.take_left' (le32_length _), List.drop_left' (le32_length _), leVal_le32 _ hw32]
  have c2 : ¬ ((le64 s.index.length ++ (s.index ++ rest)).length < 8) := by simp [le64_length]
  simp only [c2, ↓reduceIte]
  rw [List.take_left' (le64_length _), List.drop_left' (le64_length _), leVal_le64 _ (by omega)]
  have c3 : ¬ (s.width < 8) := by omega
  have c4 : ¬ (s.width > maxIndexWidth) := by omega
  have c5 : ¬ (s.index.length ≥ 2 ^ 63) := by omega
  have c6 : ¬ ((s.index ++ rest).length < s.index.length) := by simp
  simp only [c3, c4, c5, c6, ↓reduceIte]
  rw [List.take_left' rfl, List.drop_left' rfl, ← hlen]

theorem putSW_append (s : SingleWidth) : ∀ (acc : MultiWidth), (∀ t ∈ acc, t.width < s.width) → putSW s acc = acc ++ [s]
  | [], _ => rfl
  | t :: ts, h => by
    have ht := h t (by simp)
    unfold putSW
    have c1 : ¬ (t.width = s.width) := by omega
    have c2 : ¬ (s.width < t.width) := by omega
    simp only [c1, c2, ↓reduceIte, List.cons_append]
    rw [putSW_append s ts (fun x hx => h x (by simp [hx]))]

/-- buckets strictly ascending by width, each well-formed -/
def MultiWidth.wf (m : MultiWidth) : Prop :=
  (∀ s ∈ m, s.wf) ∧ m.Pairwise (fun a b => a.width < b.width) ∧ m.length < 2 ^ 31

theorem unmarshalBuckets_roundtrip : ∀ (bs acc : MultiWidth) (rest : Bytes),
    (∀ s ∈ bs, s.wf) → bs.Pairwise (fun a b => a.width < b.width) →
    (∀ t ∈ acc, ∀ s ∈ bs, t.width < s.width) →
    unmarshalBuckets bs.length (bs.flatMap SingleWidth.marshal ++ rest) acc = .ok (acc ++ bs, rest)
  | [], acc, rest, _, _, _ => by simp [unmarshalBuckets]
  | b :: tl, acc, rest, hwf, hp, hacc => by
    have e : (b :: tl).flatMap SingleWidth.marshal ++ rest = b.marshal ++ (tl.flatMap SingleWidth.marshal ++ rest) := by
      simp
    rw [List.length_cons, unmarshalBuckets, e, singleWidth_roundtrip b (hwf b (by simp))]
    simp only
    rw [putSW_append b acc (fun t ht => hacc t ht b (by simp))]
    have hp' := List.pairwise_cons.mp hp
    rw [unmarshalBuckets_roundtrip tl (acc ++ [b]) rest (fun s hs => hwf s (by simp [hs])) hp'.2
      (by
        intro t ht s hs
        simp only [List.mem_append, List.mem_singleton] at ht
        rcases ht with ht | rfl
        · exact hacc t ht s (by simp [hs])
        · exact hp'.1 s hs)]
    simp

theorem multiWidth_roundtrip (m : MultiWidth) (hwf : m.wf) (rest : Bytes) :
    MultiWidth.unmarshal (MultiWidth.marshal m ++ rest) = .ok (m, rest) := by
  obtain ⟨h1, h2, h3⟩ := hwf
  unfold MultiWidth.unmarshal MultiWidth.marshal
  have e : le32 m.length ++ m.flatMap SingleWidth.marshal ++ rest
      = le32 m.length ++ (m.flatMap SingleWidth.marshal ++ rest) := by simp
  rw [e]
  have c1 : ¬ ((le32 m.length ++ (m.flatMap SingleWidth.marshal ++ rest)).length < 4) := by simp [le32_length]
  simp only [c1, ↓reduceIte]
  rw [List.take_left' (le32_length _), List.drop_left' (le32_length _),
      leVal_le32 _ (by have : (2:Nat)^31 < 2^32 := by decide
                       omega)]
  have c2 : ¬ (m.length ≥ 2 ^ 31) := by omega
  simp only [c2, ↓reduceIte]
  have := unmarshalBuckets_roundtrip m [] rest h1 h2 (by simp)
  simpa using this

theorem putCode_append (e : Nat × MultiWidth) : ∀ (acc : MhIndex), (∀ t ∈ acc, t.1 < e.1) → putCode e acc = acc ++ [e]
  | [], _ => rfl
  | t :: ts, h => by
    have ht := h t (by simp)
    unfold putCode
    have c1 : ¬ (t.1 = e.1) := by omega
    have c2 : ¬ (e.1 < t.1) := by omega
    simp only [c1, c2, ↓reduceIte, List.cons_append]
    rw [putCode_append e ts (fun x hx => h x (by simp [hx]))]

def MhIndex.wf (m : MhIndex) : Prop :=
  (∀ e ∈ m, e.1 < 2 ^ 64 ∧ MultiWidth.wf e.2) ∧ m.Pairwise (fun a b => a.1 < b.1) ∧ m.length < 2 ^ 31

theorem unmarshalCodes_roundtrip : ∀ (es acc : MhIndex) (rest : Bytes),
    (∀ e ∈ es, e.1 < 2 ^ 64 ∧ MultiWidth.wf e.2) → es.Pairwise (fun a b => a.1 < b.1) →
    (∀ t ∈ acc, ∀ e ∈ es, t.1 < e.1) →
    unmarshalCodes es.length (es.flatMap (fun e => le64 e.1 ++ MultiWidth.marshal e.2) ++ rest) acc
      = .ok (acc ++ es, rest)
  | [], acc, rest, _, _, _ => by simp [unmarshalCodes]
  | e :: tl, acc, rest, hwf, hp, hacc => by
    have he := hwf e (by simp)
    have eq1 : (e :: tl).flatMap (fun e => le64 e.1 ++ MultiWidth.marshal e.2) ++ rest
        = le64 e.1 ++ (MultiWidth.marshal e.2 ++ (tl.flatMap (fun e => le64 e.1 ++ MultiWidth.marshal e.2) ++ rest)) := by
      simp
    rw [List.length_cons, unmarshalCodes, eq1]
    have c1 : ¬ ((le64 e.1 ++ (MultiWidth.marshal e.2 ++
        (tl.flatMap (fun e => le64 e.1 ++ MultiWidth.marshal e.2) ++ rest))).length < 8) := by simp [le64_length]
    simp only [c1, ↓reduceIte]
    rw [List.take_left' (le64_length _), List.drop_left' (le64_length _), leVal_le64 _ he.1,
        multiWidth_roundtrip e.2 he.2]
    simp only
    rw [putCode_append (e.1, e.2) acc (fun t ht => hacc t ht e (by simp))]
    have hp' := List.pairwise_cons.mp hp
    rw [unmarshalCodes_roundtrip tl (acc ++ [(e.1, e.2)]) rest (fun s hs => hwf s (by simp [hs])) hp'.2
      (by
        intro t ht s hs
        simp only [List.mem_append, List.mem_singleton] at ht
        rcases ht with ht | rfl
        · exact hacc t ht s (by simp [hs])
        · exact hp'.1 s hs)]
    simp

theorem mhIndex_roundtrip (m : MhIndex) (hwf : m.wf) (rest : Bytes) :
    MhIndex.unmarshal (MhIndex.marshal m ++ rest) = .ok (m, rest) := by
  obtain ⟨h1, h2, h3⟩ := hwf
  unfold MhIndex.unmarshal MhIndex.marshal
  have e : le32 m.length ++ m.flatMap (fun e => le64 e.1 ++ MultiWidth.marshal e.2) ++ rest
      = le32 m.length ++ (m.flatMap (fun e => le64 e.1 ++ MultiWidth.marshal e.2) ++ rest) := by simp
  rw [e]
  have c1 : ¬ ((le32 m.length ++ (m.flatMap (fun e => le64 e.1 ++ MultiWidth.marshal e.2) ++ rest)).length < 4) := by
    simp [le32_length]
  simp only [c1, ↓reduceIte]
  rw [List.take_left' (le32_length _), List.drop_left' (le32_length _),
      leVal_le32 _ (by have : (2:Nat)^31 < 2^32 := by decide
                       omega)]
  have c2 : ¬ (m.length ≥ 2 ^ 31) := by omega
  simp only [c2, ↓reduceIte]
  have := unmarshalCodes_roundtrip m [] rest h1 h2 (by simp)
  simpa using this

def Index.wf : Index → Prop
  | .sorted m => MultiWidth.wf m
  | .mh m => MhIndex.wf m

/-- C11: `ReadFrom ∘ WriteTo = id` on every well-formed index, whatever follows it in the stream. -/
theorem index_roundtrip (ix : Index) (hwf : ix.wf) (rest : Bytes) :
    Index.read (ix.bytes ++ rest) = .ok (ix, rest) := by
  cases ix with
  | sorted m =>
    unfold Index.read Index.bytes
    rw [List.append_assoc, readUvarint_uvarint codecSorted (by decide)]
    simp only [↓reduceIte]
    rw [multiWidth_roundtrip m hwf]
  | mh m =>
    unfold Index.read Index.bytes
    rw [List.append_assoc, readUvarint_uvarint codecMhSorted (by decide)]
    simp only [show ¬ (codecMhSorted = codecSorted) by decide, ↓reduceIte]
    rw [mhIndex_roundtrip m hwf]

end Car
