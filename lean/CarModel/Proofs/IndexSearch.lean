import CarModel.Index
import CarModel.Proofs.BytesOrder
import CarModel.Proofs.IndexLoad
import CarModel.Proofs.V2
/-
The lookup of the sorted indexes is correct: Go's `sort.Search` followed by the forward scan of
equal digests returns exactly the offsets of the loaded records that carry the digest
(`getAll_load`), for both codecs.
-/
namespace Car

/-! ### `sort.Search` -/

/-- Binary search exactly as the stdlib runs it returns the least index at which a monotone
    predicate holds (or `hi`). -/
theorem goSearch_spec (f : Nat → Bool) (n : Nat)
    (hmono : ∀ i j, i ≤ j → j < n → f i = true → f j = true) :
    ∀ (fuel lo hi : Nat), lo ≤ hi → hi ≤ n → hi - lo < fuel →
      (∀ i, i < lo → f i = false) → (∀ i, hi ≤ i → i < n → f i = true) →
      lo ≤ goSearch f fuel lo hi ∧ goSearch f fuel lo hi ≤ hi ∧
      (∀ i, i < goSearch f fuel lo hi → f i = false) ∧
      (∀ i, goSearch f fuel lo hi ≤ i → i < n → f i = true) := by
  intro fuel
  induction fuel with
  | zero => intro lo hi _ _ h; omega
  | succ k ih =>
    intro lo hi hle hn hf hlow hhigh
    unfold goSearch
    by_cases hlt : lo < hi
    · simp only [hlt, ↓reduceIte]
      have hmid : lo ≤ (lo + hi) / 2 ∧ (lo + hi) / 2 < hi := by omega
      by_cases hfm : f ((lo + hi) / 2) = true
      · simp only [hfm, Bool.not_true, Bool.false_eq_true, ↓reduceIte]
        have := ih lo ((lo + hi) / 2) (by omega) (by omega) (by omega) hlow
          (fun i hi' hin => hmono _ i hi' hin hfm)
        exact ⟨this.1, by omega, this.2.2.1, this.2.2.2⟩
      · have hfm' : f ((lo + hi) / 2) = false := by simpa using hfm
        simp only [hfm', Bool.not_false, ↓reduceIte]
        have := ih ((lo + hi) / 2 + 1) hi (by omega) hn (by omega)
          (fun i hi' => by
            by_cases e : i < lo
            · exact hlow i e
            · -- lo ≤ i ≤ mid: if f i were true, monotonicity would give f mid
              cases hfi : f i with
              | false => rfl
              | true =>
                have := hmono i ((lo + hi) / 2) (by omega) (by omega) hfi
                rw [hfm'] at this; cases this)
          hhigh
        exact ⟨by omega, this.2.1, this.2.2.1, this.2.2.2⟩
    · simp only [hlt, ↓reduceIte]
      have : lo = hi := by omega
      subst this
      exact ⟨Nat.le_refl _, Nat.le_refl _, hlow, hhigh⟩

/-! ### compact buckets -/

/-- the (digest, offset) pairs of a bucket, as a list -/
abbrev Pairs := List (Bytes × Nat)

def compactOf (l : Pairs) : Bytes := l.flatMap fun p => compactEntry p.1 p.2

def bucketOf (w : Nat) (l : Pairs) : SingleWidth := { width := w + 8, len := l.length, index := compactOf l }

/-- every digest has length `w`, every offset fits 64 bits -/
def PairsOK (w : Nat) (l : Pairs) : Prop := ∀ p ∈ l, p.1.length = w ∧ p.2 < 2 ^ 64

theorem compactEntry_length (d : Bytes) (o : Nat) : (compactEntry d o).length = d.length + 8 := by
  simp [compactEntry, le64_length]

theorem compactOf_drop (w : Nat) : ∀ (l : Pairs) (i : Nat), PairsOK w l →
    (compactOf l).drop (i * (w + 8)) = compactOf (l.drop i) := by
  intro l
  induction l with
  | nil => intro i _; simp [compactOf]
  | cons p t ih =>
    intro i hok
    cases i with
    | zero => simp
    | succ j =>
      have hp := hok p (by simp)
      have hlen : (compactEntry p.1 p.2).length = w + 8 := by rw [compactEntry_length, hp.1]
      have e : (j + 1) * (w + 8) = (compactEntry p.1 p.2).length + j * (w + 8) := by rw [hlen, Nat.add_mul]; omega
      simp only [compactOf, List.flatMap_cons, List.drop_succ_cons]
      rw [e, ← List.drop_drop, List.drop_left' rfl]
      exact ih j (fun q hq => hok q (by simp [hq]))

theorem digestAt_bucket (w : Nat) (l : Pairs) (hok : PairsOK w l) (i : Nat) (hi : i < l.length) :
    (bucketOf w l).digestAt i = (l[i]'hi).1 := by
  unfold SingleWidth.digestAt bucketOf
  simp only [Nat.add_sub_cancel]
  rw [compactOf_drop w l i hok]
  have hd : l.drop i = l[i] :: l.drop (i + 1) := (List.drop_eq_getElem_cons hi)
  rw [hd]
  have hp := hok (l[i]) (List.getElem_mem hi)
  simp only [compactOf, List.flatMap_cons, compactEntry, List.append_assoc]
  rw [List.take_left' hp.1]

theorem offsetAt_bucket (w : Nat) (l : Pairs) (hok : PairsOK w l) (i : Nat) (hi : i < l.length) :
    (bucketOf w l).offsetAt i = (l[i]'hi).2 := by
  unfold SingleWidth.offsetAt bucketOf
  simp only [Nat.add_sub_cancel]
  rw [← List.drop_drop, compactOf_drop w l i hok]
  have hd : l.drop i = l[i] :: l.drop (i + 1) := (List.drop_eq_getElem_cons hi)
  rw [hd]
  have hp := hok (l[i]) (List.getElem_mem hi)
  simp only [compactOf, List.flatMap_cons, compactEntry, List.append_assoc]
  rw [List.drop_left' hp.1, List.take_left' (le64_length _), leVal_le64 _ hp.2]

/-! ### the forward scan -/

theorem scanEqual_bucket (w : Nat) (l : Pairs) (hok : PairsOK w l) (d : Bytes) :
    ∀ (fuel i : Nat), l.length - i < fuel → i ≤ l.length →
      scanEqual (bucketOf w l) d fuel i = ((l.drop i).takeWhile fun p => p.1 == d).map (·.2) := by
  intro fuel
  induction fuel with
  | zero => intro i h; omega
  | succ k ih =>
    intro i hf hi
    unfold scanEqual
    by_cases hlt : i < l.length
    · have hl : i < (bucketOf w l).len := hlt
      simp only [hl, ↓reduceIte]
      rw [digestAt_bucket w l hok i hlt, offsetAt_bucket w l hok i hlt]
      have hd : l.drop i = l[i] :: l.drop (i + 1) := (List.drop_eq_getElem_cons hlt)
      rw [hd, List.takeWhile_cons]
      by_cases he : l[i].1 = d
      · simp [he, ih (i + 1) (by omega) (by omega)]
        exact if_pos he
      · simp [he]
        exact he
    · have hl : ¬ i < (bucketOf w l).len := hlt
      simp only [hl, ↓reduceIte]
      have : l.drop i = [] := List.drop_eq_nil_of_le (by omega)
      simp [this]

/-! ### sorted pairs: the equal run starts at the search result -/

def pairLe (a b : Bytes × Nat) : Bool := bytesLe a.1 b.1

/-- In a digest-sorted list, the entries equal to `d` are exactly the run that starts at the first
    index whose digest is ≥ `d`. -/
theorem filter_eq_takeWhile_drop (l : Pairs) (hs : l.Pairwise fun a b => pairLe a b = true) (d : Bytes) (i0 : Nat)
    (hlow : ∀ i (h : i < l.length), i < i0 → bytesLe d (l[i]'h).1 = false)
    (hhigh : ∀ i (h : i < l.length), i0 ≤ i → bytesLe d (l[i]'h).1 = true) (hi0 : i0 ≤ l.length) :
    l.filter (fun p => p.1 == d) = (l.drop i0).takeWhile fun p => p.1 == d := by
  induction l generalizing i0 with
  | nil => simp
  | cons p t ih =>
    have hst : t.Pairwise fun a b => pairLe a b = true := (List.pairwise_cons.mp hs).2
    cases i0 with
    | zero =>
      -- every digest is ≥ d; equal ones form a prefix
      simp only [List.drop_zero]
      have hp : bytesLe d p.1 = true := hhigh 0 (by simp) (Nat.le_refl _)
      rw [List.filter_cons, List.takeWhile_cons]
      by_cases he : (p.1 == d) = true
      · simp only [he, ↓reduceIte]
        congr 1
        have := ih hst 0 (fun i h hlt => by omega)
          (fun i h _ => by have := hhigh (i + 1) (by simpa using h) (by omega); simpa using this) (by omega)
        simpa using this
      · simp only [he, Bool.false_eq_true, ↓reduceIte]
        -- p.1 > d strictly, and everything after is ≥ p.1: nothing equals d
        apply List.filter_eq_nil_iff.mpr
        intro q hq hqd
        have hqd' : q.1 = d := by simpa using hqd
        have hpq : bytesLe p.1 q.1 = true := (List.pairwise_cons.mp hs).1 q hq
        rw [hqd'] at hpq
        have : p.1 = d := bytesLe_antisymm p.1 d hpq hp
        exact he (by simp [this])
    | succ j =>
      have hp : bytesLe d p.1 = false := hlow 0 (by simp) (by omega)
      have hne : (p.1 == d) = false := by
        cases h : (p.1 == d) with
        | false => rfl
        | true =>
          have : p.1 = d := by simpa using h
          rw [this] at hp
          have := bytesLe_total d d
          simp [hp] at this
      rw [List.filter_cons]
      simp only [hne, Bool.false_eq_true, ↓reduceIte, List.drop_succ_cons]
      exact ih hst j
        (fun i h hlt => by have := hlow (i + 1) (by simpa using h) (by omega); simpa using this)
        (fun i h hge => by have := hhigh (i + 1) (by simpa using h) (by omega); simpa using this)
        (by simpa using hi0)

/-- **A bucket's lookup is exact**: binary search + forward scan over a digest-sorted bucket returns
    the offsets of exactly the entries whose digest is `d`, in bucket order. -/
theorem getAll_bucket (w : Nat) (l : Pairs) (hok : PairsOK w l)
    (hs : l.Pairwise fun a b => pairLe a b = true) (d : Bytes) :
    (bucketOf w l).getAll d = (l.filter fun p => p.1 == d).map (·.2) := by
  unfold SingleWidth.getAll
  have hlen : (bucketOf w l).len = l.length := rfl
  rw [hlen]
  -- the search predicate on indices below the length is `d ≤ l[i].digest`, monotone by sortedness
  have hf : ∀ i (h : i < l.length), bytesLe d ((bucketOf w l).digestAt i) = bytesLe d (l[i]'h).1 := by
    intro i h; rw [digestAt_bucket w l hok i h]
  have hmono : ∀ i j, i ≤ j → j < l.length →
      (fun i => bytesLe d ((bucketOf w l).digestAt i)) i = true →
      (fun i => bytesLe d ((bucketOf w l).digestAt i)) j = true := by
    intro i j hij hj hfi
    have hi : i < l.length := by omega
    simp only at hfi ⊢
    rw [hf i hi] at hfi
    rw [hf j hj]
    by_cases e : i = j
    · subst e; exact hfi
    · have hlt : i < j := by omega
      have := List.pairwise_iff_getElem.mp hs i j hi hj hlt
      exact bytesLe_trans d (l[i]).1 (l[j]).1 hfi this
  obtain ⟨_, hr2, hr3, hr4⟩ := goSearch_spec _ l.length hmono (l.length + 1) 0 l.length (by omega) (by omega) (by omega)
    (fun i h => by omega) (fun i h1 h2 => by omega)
  generalize goSearch (fun i => bytesLe d ((bucketOf w l).digestAt i)) (l.length + 1) 0 l.length = i0 at hr2 hr3 hr4
  rw [scanEqual_bucket w l hok d (l.length + 1) i0 (by omega) hr2]
  rw [filter_eq_takeWhile_drop l hs d i0
    (fun i h hlt => by have := hr3 i hlt; rw [hf i h] at this; exact this)
    (fun i h hge => by have := hr4 i hge h; rw [hf i h] at this; exact this) hr2]

end Car

namespace Car

theorem mem_distinctSorted (l : List Nat) (a : Nat) : a ∈ distinctSorted l ↔ a ∈ l := by
  unfold distinctSorted
  rw [List.mem_eraseDups, List.mem_mergeSort]

/-- first bucket whose key matches, in a list of buckets built from keys -/
theorem find_map_key {α : Type} (f : Nat → α) (p : α → Bool) (k0 : Nat) (hp : ∀ w, p (f w) = (w == k0)) :
    ∀ (ws : List Nat), (ws.map f).find? p = if k0 ∈ ws then some (f k0) else none := by
  intro ws
  induction ws with
  | nil => simp
  | cons w t ih =>
    simp only [List.map_cons, List.find?_cons, hp]
    by_cases e : w = k0
    · subst e; simp
    · have : (w == k0) = false := by simpa using e
      simp only [this, ih, List.mem_cons]
      have : ¬ k0 = w := fun h => e h.symm
      simp [this]

/-- the pairs of one width group, digest-sorted -/
def groupPairs (rs : List Record) (w : Nat) : Pairs :=
  ((rs.filter fun r => r.cid.digest.length == w).mergeSort (fun a b => bytesLe a.cid.digest b.cid.digest)).map
    fun r => (r.cid.digest, r.offset)

theorem load_bucket (rs : List Record) (w : Nat) :
    ({ width := w + 8,
       len := ((rs.filter fun r => r.cid.digest.length == w).mergeSort (fun a b => bytesLe a.cid.digest b.cid.digest)).length,
       index := ((rs.filter fun r => r.cid.digest.length == w).mergeSort (fun a b => bytesLe a.cid.digest b.cid.digest)).flatMap
         fun r => compactEntry r.cid.digest r.offset } : SingleWidth) = bucketOf w (groupPairs rs w) := by
  simp [bucketOf, groupPairs, compactOf, List.flatMap_map]

theorem groupPairs_ok (rs : List Record) (w : Nat) (hoff : ∀ r ∈ rs, r.offset < 2 ^ 64) : PairsOK w (groupPairs rs w) := by
  intro p hp
  simp only [groupPairs, List.mem_map, List.mem_mergeSort, List.mem_filter] at hp
  obtain ⟨r, ⟨hr, hw⟩, rfl⟩ := hp
  exact ⟨by simpa using hw, hoff r hr⟩

theorem groupPairs_sorted (rs : List Record) (w : Nat) :
    (groupPairs rs w).Pairwise fun a b => pairLe a b = true := by
  unfold groupPairs
  rw [List.pairwise_map]
  exact List.pairwise_mergeSort (fun a b c => bytesLe_trans a.cid.digest b.cid.digest c.cid.digest)
    (fun a b => bytesLe_total a.cid.digest b.cid.digest) _

/-- **`multiWidthIndex.GetAll` after `Load` is exact**: an offset is returned for digest `d` iff some
    loaded record carries `d` at that offset. -/
theorem multiWidth_getAll_load (rs : List Record) (hoff : ∀ r ∈ rs, r.offset < 2 ^ 64) (d : Bytes) (o : Nat) :
    o ∈ MultiWidth.getAll (MultiWidth.load rs) d ↔ ∃ r ∈ rs, r.cid.digest = d ∧ r.offset = o := by
  unfold MultiWidth.getAll MultiWidth.load
  simp only [load_bucket]
  have hfind := find_map_key (fun w => bucketOf w (groupPairs rs w)) (fun s => s.width == d.length + 8) d.length
    (fun w => by simp [bucketOf]) (distinctSorted (rs.map fun r => r.cid.digest.length))
  rw [hfind]
  by_cases hmem : d.length ∈ distinctSorted (rs.map fun r => r.cid.digest.length)
  · simp only [hmem, ↓reduceIte]
    rw [getAll_bucket d.length (groupPairs rs d.length) (groupPairs_ok rs d.length hoff) (groupPairs_sorted rs d.length) d]
    simp only [List.mem_map, List.mem_filter, groupPairs, List.mem_mergeSort]
    constructor
    · rintro ⟨p, ⟨⟨r, ⟨hr, _⟩, rfl⟩, hd⟩, rfl⟩
      exact ⟨r, hr, by simpa using hd, rfl⟩
    · rintro ⟨r, hr, hd, ho⟩
      exact ⟨(r.cid.digest, r.offset), ⟨⟨r, ⟨hr, by simp [hd]⟩, rfl⟩, by simp [hd]⟩, ho⟩
  · simp only [hmem, ↓reduceIte, List.not_mem_nil, false_iff]
    rintro ⟨r, hr, hd, _⟩
    apply hmem
    rw [mem_distinctSorted]
    exact List.mem_map.mpr ⟨r, hr, by rw [hd]⟩

/-- **`MultihashIndexSorted.GetAll` after `Load` is exact**, keyed by (hash code, digest). -/
theorem mhIndex_getAll_load (rs : List Record) (hoff : ∀ r ∈ rs, r.offset < 2 ^ 64) (code : Nat) (d : Bytes) (o : Nat) :
    o ∈ MhIndex.getAll (MhIndex.load rs) code d ↔ ∃ r ∈ rs, r.cid.mhCode = code ∧ r.cid.digest = d ∧ r.offset = o := by
  unfold MhIndex.getAll MhIndex.load
  have hfind := find_map_key (fun c => (c, MultiWidth.load (rs.filter fun r => r.cid.mhCode == c))) (fun e => e.1 == code)
    code (fun _ => rfl) (distinctSorted (rs.map fun r => r.cid.mhCode))
  rw [hfind]
  by_cases hmem : code ∈ distinctSorted (rs.map fun r => r.cid.mhCode)
  · simp only [hmem, ↓reduceIte]
    rw [multiWidth_getAll_load _ (fun r hr => hoff r (List.mem_filter.mp hr).1) d o]
    constructor
    · rintro ⟨r, hr, hd, ho⟩
      obtain ⟨h1, h2⟩ := List.mem_filter.mp hr
      exact ⟨r, h1, by simpa using h2, hd, ho⟩
    · rintro ⟨r, hr, hc, hd, ho⟩
      exact ⟨r, List.mem_filter.mpr ⟨hr, by simp [hc]⟩, hd, ho⟩
  · simp only [hmem, ↓reduceIte, List.not_mem_nil, false_iff]
    rintro ⟨r, hr, hc, _, _⟩
    apply hmem
    rw [mem_distinctSorted]
    exact List.mem_map.mpr ⟨r, hr, hc⟩

/-- **Lookup in a loaded index of either codec is exact.** -/
theorem index_getAll_load (codec : Nat) (rs : List Record) (ix : Index) (h : Index.load codec rs = some ix)
    (hoff : ∀ r ∈ rs, r.offset < 2 ^ 64) (c : Cid) (o : Nat) :
    o ∈ ix.getAll c ↔
      ∃ r ∈ rs, (codec = codecMhSorted → r.cid.mhCode = c.mhCode) ∧ r.cid.digest = c.digest ∧ r.offset = o := by
  unfold Index.load at h
  by_cases h1 : codec = codecSorted
  · simp only [h1, ↓reduceIte, Option.some.injEq] at h
    subst h
    have : ¬ (codecSorted = codecMhSorted) := by decide
    simp only [Index.getAll, h1, this, false_implies, true_and]
    exact multiWidth_getAll_load rs hoff c.digest o
  · by_cases h2 : codec = codecMhSorted
    · simp only [h1, h2, ↓reduceIte, Option.some.injEq] at h
      have hne : ¬ (codecMhSorted = codecSorted) := by decide
      simp only [hne, ↓reduceIte, Option.some.injEq] at h
      subst h
      simp only [Index.getAll, h2, true_implies]
      exact mhIndex_getAll_load rs hoff c.mhCode c.digest o
    · simp [h1, h2] at h

end Car
