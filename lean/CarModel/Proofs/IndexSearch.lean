import CarModel.Index
import CarModel.Proofs.BytesOrder
import CarModel.Proofs.IndexLoad
import CarModel.Proofs.V2
/-
The lookup of the sorted indexes is correct: Go's `sort.Search` followed by the forward scan of
equal digests returns exactly the offsets of the loaded records that carry the digest
(`getAll_load`), for both codecs.
-/
namespace Car

/-! ### `sort.Search` -/

/-- Binary search exactly as the stdlib runs it returns the least index at which a monotone
    predicate holds (or `hi`). -/
theorem goSearch_spec (f : Nat → Bool) (n : Nat)
    (hmono : ∀ i j, i ≤ j → j < n → f i = true → f j = true) :
    ∀ (fuel lo hi : Nat), lo ≤ hi → hi ≤ n → hi - lo < fuel →
      (∀ i, i < lo → f i = false) → (∀ i, hi ≤ i → i < n → f i = true) →
      lo ≤ goSearch f fuel lo hi ∧ goSearch f fuel lo hi ≤ hi ∧
      (∀ i, i < goSearch f fuel lo hi → f i = false) ∧
      (∀ i, goSearch f fuel lo hi ≤ i → i < n → f i = true) := by
  intro fuel
  induction fuel with
  | zero => intro lo hi _ _ h; omega
  | succ k ih =>
    intro lo hi hle hn hf hlow hhigh
    unfold goSearch
    by_cases hlt : lo < hi
    · simp only [hlt, ↓reduceIte]
      have hmid : lo ≤ (lo + hi) / 2 ∧ (lo + hi) / 2 < hi := by omega
      by_cases hfm : f ((lo + hi) / 2) = true
      · simp only [hfm, Bool.not_true, Bool.false_eq_true, ↓reduceIte]
        have := ih lo ((lo + hi) / 2) (by omega) (by omega) (by omega) hlow
          (fun i hi' hin => hmono _ i hi' hin hfm)
        exact ⟨this.1, by omega, this.2.2.1, this.2.2.2⟩
      · have hfm' : f ((lo + hi) / 2) = false := by simpa using hfm
        simp only [hfm', Bool.not_false, ↓reduceIte]
        have := ih ((lo + hi) / 2 + 1) hi (by omega) hn (by omega)
          (fun i hi' => by
            by_cases e : i < lo
            · exact hlow i e
            · -- lo ≤ i ≤ mid: if f i were true, monotonicity would give f mid
              cases hfi : f i with
              | false => rfl
              | true =>
                have := hmono i ((lo + hi) / 2) (by omega) (by omega) hfi
                rw [hfm'] at this; cases this)
          hhigh
        exact ⟨by omega, this.2.1, this.2.2.1, this.2.2.2⟩
    · simp only [hlt, ↓reduceIte]
      have : lo = hi := by omega
      subst this
      exact ⟨Nat.le_refl _, Nat.le_refl _, hlow, hhigh⟩

/-! ### compact buckets -/

/-- the (digest, offset) pairs of a bucket, as a list -/
abbrev Pairs := List (Bytes × Nat)

def compactOf (l : Pairs) : Bytes := l.flatMap fun p => compactEntry p.1 p.2

def bucketOf (w : Nat) (l : Pairs) : SingleWidth := { width := w + 8, len := l.length, index := compactOf l }

/-- every digest has length `w`, every offset fits 64 bits -/
def PairsOK (w : Nat) (l : Pairs) : Prop := ∀ p ∈ l, p.1.length = w ∧ p.2 < 2 ^ 64

theorem compactEntry_length (d : Bytes) (o : Nat) : (compactEntry d o).length = d.length + 8 := by
  simp [compactEntry, le64_length]

theorem compactOf_drop (w : Nat) : ∀ (l : Pairs) (i : Nat), PairsOK w l →
    (compactOf l).drop (i * (w + 8)) = compactOf (l.drop i) := by
  intro l
  induction l with
  | nil => intro i _; simp [compactOf]
  | cons p t ih =>
    intro i hok
    cases i with
    | zero => simp
    | succ j =>
      have hp := hok p (by simp)
      have hlen : (compactEntry p.1 p.2).length = w + 8 := by rw [compactEntry_length, hp.1]
      have e : (j + 1) * (w + 8) = (compactEntry p.1 p.2).length + j * (w + 8) := by rw [hlen, Nat.add_mul]; omega
      simp only [compactOf, List.flatMap_cons, List.drop_succ_cons]
      rw [e, ← List.drop_drop, List.drop_left' rfl]
      exact ih j (fun q hq => hok q (by simp [hq]))

theorem digestAt_bucket (w : Nat) (l : Pairs) (hok : PairsOK w l) (i : Nat) (hi : i < l.length) :
    (bucketOf w l).digestAt i = (l[i]'hi).1 := by
  unfold SingleWidth.digestAt bucketOf
  simp only [Nat.add_sub_cancel]
  rw [compactOf_drop w l i hok]
  have hd : l.drop i = l[i] :: l.drop (i + 1) := (List.drop_eq_getElem_cons hi)
  rw [hd]
  have hp := hok (l[i]) (List.getElem_mem hi)
  simp only [compactOf, List.flatMap_cons, compactEntry, List.append_assoc]
  rw [List.take_left' hp.1]

theorem offsetAt_bucket (w : Nat) (l : Pairs) (hok : PairsOK w l) (i : Nat) (hi : i < l.length) :
    (bucketOf w l).offsetAt i = (l[i]'hi).2 := by
  unfold SingleWidth.offsetAt bucketOf
  simp only [Nat.add_sub_cancel]
  rw [← List.drop_drop, compactOf_drop w l i hok]
  have hd : l.drop i = l[i] :: l.drop (i + 1) := (List.drop_eq_getElem_cons hi)
  rw [hd]
  have hp := hok (l[i]) (List.getElem_mem hi)
  simp only [compactOf, List.flatMap_cons, compactEntry, List.append_assoc]
  rw [List.drop_left' hp.1, List.take_left' (le64_length _), leVal_le64 _ hp.2]

/-! ### the forward scan -/

theorem scanEqual_bucket (w : Nat) (l : Pairs) (hok : PairsOK w l) (d : Bytes) :
    ∀ (fuel i : Nat), l.length - i < fuel → i ≤ l.length →
      scanEqual (bucketOf w l) d fuel i = ((l.drop i).takeWhile fun p => p.1 == d).map (·.2) := by
  intro fuel
  induction fuel with
  | zero => intro i h; omega
  | succ k ih =>
    intro i hf hi
    unfold scanEqual
    by_cases hlt : i < l.length
    · have hl : i < (bucketOf w l).len := hlt
      simp only [hl, ↓reduceIte]
      rw [digestAt_bucket w l hok i hlt, offsetAt_bucket w l hok i hlt]
      have hd : l.drop i = l[i] :: l.drop (i + 1) := (List.drop_eq_getElem_cons hlt)
      rw [hd, List.takeWhile_cons]
      by_cases he : (l[i].1 == d) = true
      · simp only [he, ↓reduceIte, List.map_cons]
        rw [ih (i + 1) (by omega) (by omega)]
      · simp [he]
    · have hl : ¬ i < (bucketOf w l).len := hlt
      simp only [hl, ↓reduceIte]
      have : l.drop i = [] := List.drop_eq_nil_of_le (by omega)
      simp [this]

/-! ### sorted pairs: the equal run starts at the search result -/

def pairLe (a b : Bytes × Nat) : Bool := bytesLe a.1 b.1

/-- In a digest-sorted list, the entries equal to `d` are exactly the run that starts at the first
    index whose digest is ≥ `d`. -/
theorem filter_eq_takeWhile_drop (l : Pairs) (hs : l.Pairwise fun a b => pairLe a b = true) (d : Bytes) (i0 : Nat)
    (hlow : ∀ i (h : i < l.length), i < i0 → bytesLe d (l[i]'h).1 = false)
    (hhigh : ∀ i (h : i < l.length), i0 ≤ i → bytesLe d (l[i]'h).1 = true) (hi0 : i0 ≤ l.length) :
    l.filter (fun p => p.1 == d) = (l.drop i0).takeWhile fun p => p.1 == d := by
  induction l generalizing i0 with
  | nil => simp
  | cons p t ih =>
    have hst : t.Pairwise fun a b => pairLe a b = true := (List.pairwise_cons.mp hs).2
    cases i0 with
    | zero =>
      -- every digest is ≥ d; equal ones form a prefix
      simp only [List.drop_zero]
      have hp : bytesLe d p.1 = true := hhigh 0 (by simp) (Nat.le_refl _)
      rw [List.filter_cons, List.takeWhile_cons]
      by_cases he : (p.1 == d) = true
      · simp only [he, ↓reduceIte]
        congr 1
        have := ih hst 0 (fun i h hlt => by omega)
          (fun i h _ => by have := hhigh (i + 1) (by simpa using h) (by omega); simpa using this) (by omega)
        simpa using this
      · simp only [he, Bool.false_eq_true, ↓reduceIte]
        -- p.1 > d strictly, and everything after is ≥ p.1: nothing equals d
        apply List.filter_eq_nil_iff.mpr
        intro q hq hqd
        have hqd' : q.1 = d := by simpa using hqd
        have hpq : bytesLe p.1 q.1 = true := (List.pairwise_cons.mp hs).1 q hq
        rw [hqd'] at hpq
        have : p.1 = d := bytesLe_antisymm p.1 d hpq hp
        exact he (by simp [this])
    | succ j =>
      have hp : bytesLe d p.1 = false := hlow 0 (by simp) (by omega)
      have hne : (p.1 == d) = false := by
        cases h : (p.1 == d) with
        | false => rfl
        | true =>
          have : p.1 = d := by simpa using h
          rw [this] at hp
          have := bytesLe_total d d
          simp [hp] at this
      rw [List.filter_cons]
      simp only [hne, Bool.false_eq_true, ↓reduceIte, List.drop_succ_cons]
      exact ih hst j
        (fun i h hlt => by have := hlow (i + 1) (by simpa using h) (by omega); simpa using this)
        (fun i h hge => by have := hhigh (i + 1) (by simpa using h) (by omega); simpa using this)
        (by simpa using hi0)

/-- **A bucket's lookup is exact**: binary search + forward scan over a digest-sorted bucket returns
    the offsets of exactly the entries whose digest is `d`, in bucket order. -/
theorem getAll_bucket (w : Nat) (l : Pairs) (hok : PairsOK w l)
    (hs : l.Pairwise fun a b => pairLe a b = true) (d : Bytes) :
    (bucketOf w l).getAll d = (l.filter fun p => p.1 == d).map (·.2) := by
  unfold SingleWidth.getAll
  have hlen : (bucketOf w l).len = l.length := rfl
  rw [hlen]
  -- the search predicate on indices below the length is `d ≤ l[i].digest`, monotone by sortedness
  have hf : ∀ i (h : i < l.length), (fun i => bytesLe d ((bucketOf w l).digestAt i)) i = bytesLe d (l[i]'h).1 := by
    intro i h; simp only; rw [digestAt_bucket w l hok i h]
  have hmono : ∀ i j, i ≤ j → j < l.length →
      (fun i => bytesLe d ((bucketOf w l).digestAt i)) i = true →
      (fun i => bytesLe d ((bucketOf w l).digestAt i)) j = true := by
    intro i j hij hj hfi
    have hi : i < l.length := by omega
    rw [hf i hi] at hfi
    rw [hf j hj]
    by_cases e : i = j
    · subst e; exact hfi
    · have hlt : i < j := by omega
      have := List.pairwise_iff_getElem.mp hs i j hi hj hlt
      exact bytesLe_trans d (l[i]).1 (l[j]).1 hfi this
  obtain ⟨_, hr2, hr3, hr4⟩ := goSearch_spec _ l.length hmono (l.length + 1) 0 l.length (by omega) (by omega) (by omega)
    (fun i h => by omega) (fun i h1 h2 => by omega)
  generalize goSearch (fun i => bytesLe d ((bucketOf w l).digestAt i)) (l.length + 1) 0 l.length = i0 at hr2 hr3 hr4
  rw [scanEqual_bucket w l hok d (l.length + 1) i0 (by omega) hr2]
  rw [filter_eq_takeWhile_drop l hs d i0
    (fun i h hlt => by have := hr3 i hlt; rw [hf i h] at this; exact this)
    (fun i h hge => by have := hr4 i hge h; rw [hf i h] at this; exact this) hr2]

end Car
