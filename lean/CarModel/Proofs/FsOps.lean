import CarModel.Proofs.FsWalk
/-
The five file-system calls on a path whose parent is its own `EvalSymlinks` image and which is
not itself a symlink: each of them changes at most that one path, and never the kind of
anything that exists.
-/
namespace Car.FS
open Car

/-- `fs'` is `fs`, or `fs` with path `j` created, or with the regular file at `j` rewritten. -/
def Upd (fs fs' : Fs) (j : P) : Prop :=
  fs' = fs ∨ ∃ n, fs' = set fs j n ∧ j ≠ [] ∧
    (lookup fs j = none ∨ ∃ d d', lookup fs j = some (.file d) ∧ n = .file d')

theorem Upd.local {fs fs' : Fs} {j : P} (h : Upd fs fs' j) (q : P) (hq : q ≠ j) : lookup fs' q = lookup fs q := by
  rcases h with h | ⟨n, h, hj, _⟩
  · rw [h]
  · rw [h, lookup_set fs j q n hj]; simp [hq]

theorem Upd.mono {fs fs' : Fs} {j : P} (h : Upd fs fs' j) : Mono fs fs' := by
  rcases h with h | ⟨n, h, hj, hk⟩
  · rw [h]; exact Mono.refl fs
  · subst h
    refine ⟨fun p hp => ?_, fun p t hp => ?_, fun p d hp => ?_⟩
    · rw [lookup_set fs j p n hj]
      by_cases e : p = j
      · subst e; rcases hk with hk | ⟨d, d', hk, _⟩ <;> simp [hk] at hp
      · simp [e, hp]
    · rw [lookup_set fs j p n hj]
      by_cases e : p = j
      · subst e; rcases hk with hk | ⟨d, d', hk, _⟩ <;> simp [hk] at hp
      · simp [e, hp]
    · rw [lookup_set fs j p n hj]
      by_cases e : p = j
      · subst e
        rcases hk with hk | ⟨d0, d', hk, hn⟩
        · simp [hk] at hp
        · exact ⟨d', by simp [hn]⟩
      · exact ⟨d, by simp [e, hp]⟩

/-- The facts `resolvePath` establishes about the path it returns. -/
structure Guarded (fs : Fs) (j : P) : Prop where
  clean : Clean j
  parent : evalSymlinks fs j.dropLast = .ok j.dropLast
  nolink : ∀ t, lstat fs j ≠ .ok (.link t)

/-- the walk of a guarded path, for every `follow` and every fuel -/
inductive Shape (fs : Fs) (j : P) : Prop where
  | root (h : j = [])
  | blocked (h : ∀ follow fuel, ∃ e, walk fs follow fuel [] j = .error e)
      (hb : ∃ d, lookup fs j.dropLast = some (.file d)) (hne : j ≠ [])
      (hpar : ∀ follow fuel, walk fs follow fuel [] j.dropLast = .ok (.found j.dropLast))
  | missing (base : P) (l : Seg) (hj : j = base ++ [l]) (hn : lookup fs j = none)
      (hbd : lookup fs base = some .dir)
      (hpar : ∀ follow fuel, walk fs follow fuel [] base = .ok (.found base))
      (h : ∀ follow fuel, walk fs follow fuel [] j = .ok (.missingLast base l))
  | present (n : Node) (hne : j ≠ []) (hn : lookup fs j = some n) (hnl : ∀ t, n ≠ .link t)
      (hpar : ∀ follow fuel, walk fs follow fuel [] j.dropLast = .ok (.found j.dropLast))
      (hbd : lookup fs j.dropLast = some .dir)
      (h : ∀ follow fuel, walk fs follow fuel [] j = .ok (.found j))

theorem walk_nil (fs : Fs) (follow : Bool) (fuel : Nat) (cur : P) : walk fs follow fuel cur [] = .ok (.found cur) := by
  rw [walk]

theorem take_prefix_dirs {fs : Fs} {p : P} (hd : Dirs fs p) (k : Nat) : lookup fs (p.take k) = some .dir :=
  hd _ (List.take_prefix k p)

theorem guarded_shape (fs : Fs) (j : P) (g : Guarded fs j) : Shape fs j := by
  by_cases hj : j = []
  · exact .root hj
  · -- j = base ++ [l]
    obtain ⟨base, l, rfl⟩ : ∃ base l, j = base ++ [l] := ⟨j.dropLast, j.getLast hj, (List.dropLast_concat_getLast hj).symm⟩
    have hcl := g.clean l (by simp)
    have hcb : Clean base := g.clean.of_append_left
    have hp := g.parent
    simp only [List.dropLast_concat] at hp
    -- what the successful EvalSymlinks of the parent says
    unfold evalSymlinks at hp
    cases hw : walk fs true goLoops [] base with
    | error e => simp [hw] at hp
    | ok r =>
      cases r with
      | missingLast a b => simp [hw] at hp
      | found q =>
        simp only [hw] at hp
        injection hp with hp
        subst hp
        obtain ⟨_, hdirs, n, hn, hnl⟩ := walk_ok fs true goLoops [] q (.found q) Clean.nil (Dirs.nil fs) hw
        have hnl := hnl rfl
        -- the proper prefixes of q are directories: the walk to q.dropLast is straight
        cases n with
        | link t => exact absurd rfl (hnl t)
        | dir =>
          have hdq : Dirs fs q := by
            intro x hx
            by_cases e : x = q
            · subst e; exact hn
            · apply hdirs
              rcases List.prefix_iff_eq_take.mp hx with hx'
              have hlen : x.length < q.length := by
                have := hx.length_le
                rcases Nat.lt_or_ge x.length q.length with h | h
                · exact h
                · exact absurd (hx.eq_of_length (by omega)) e
              rw [List.prefix_iff_eq_take]
              rw [hx', List.length_take, List.dropLast_eq_take]
              rw [List.take_take]
              congr 1
              have : min x.length q.length = x.length := by omega
              omega
          have hstr : ∀ follow fuel tail, walk fs follow fuel [] (q ++ tail) = walk fs follow fuel q tail := by
            intro follow fuel tail
            have := walk_straight fs follow fuel q [] tail hcb (fun k _ _ => by simpa using take_prefix_dirs hdq k)
            simpa using this
          have hparw : ∀ follow fuel, walk fs follow fuel [] q = .ok (.found q) := by
            intro follow fuel
            have := hstr follow fuel []
            simp only [List.append_nil] at this
            rw [this, walk_nil]
          cases hl : lookup fs (q ++ [l]) with
          | none =>
            refine .missing q l rfl hl hn hparw (fun follow fuel => ?_)
            rw [hstr, walk]
            simp [hcl.1, hcl.2.1, hcl.2.2, hl]
          | some m =>
            have hm : ∀ t, m ≠ .link t := by
              intro t ht
              subst ht
              apply g.nolink t
              unfold lstat
              rw [hstr, walk]
              simp [hcl.1, hcl.2.1, hcl.2.2, hl]
            refine .present m (by simp) hl hm (by simpa using hparw) (by simpa using hn) (fun follow fuel => ?_)
            rw [hstr, walk]
            cases m with
            | link t => exact absurd rfl (hm t)
            | dir => simp [hcl.1, hcl.2.1, hcl.2.2, hl, walk_nil]
            | file d => simp [hcl.1, hcl.2.1, hcl.2.2, hl]
        | file d =>
          -- the parent is a regular file: every walk through it is ENOTDIR
          have hq : q ≠ [] := by intro e; subst e; simp [lookup_nil] at hn
          obtain ⟨b0, bl, rfl⟩ : ∃ b0 bl, q = b0 ++ [bl] := ⟨q.dropLast, q.getLast hq, (List.dropLast_concat_getLast hq).symm⟩
          have hd0 : Dirs fs b0 := by simpa using hdirs
          have hcbl := hcb bl (by simp)
          have hstr : ∀ follow fuel tail, walk fs follow fuel [] (b0 ++ tail) = walk fs follow fuel b0 tail := by
            intro follow fuel tail
            have := walk_straight fs follow fuel b0 [] tail hcb.of_append_left (fun k _ _ => by simpa using take_prefix_dirs hd0 k)
            simpa using this
          refine .blocked (fun follow fuel => ⟨.enotdir, ?_⟩) ⟨d, by simpa using hn⟩ (by simp) (fun follow fuel => ?_)
          · rw [List.append_assoc, hstr, List.singleton_append, walk]
            simp [hcbl.1, hcbl.2.1, hcbl.2.2, hn]
          · simp only [List.dropLast_concat]
            rw [hstr, walk]
            simp [hcbl.1, hcbl.2.1, hcbl.2.2, hn]

end Car.FS

namespace Car.FS
open Car

theorem snoc_ne_nil (base : P) (l : Seg) : base ++ [l] ≠ [] := by simp

theorem mkdir_upd (fs : Fs) (j : P) (s : Shape fs j) : Upd fs (mkdir fs j).1 j := by
  unfold mkdir
  cases s with
  | root h => subst h; simp [walk_nil, Upd]
  | blocked h _ _ _ => obtain ⟨e, he⟩ := h false kernelLoops; simp [he, Upd]
  | missing base l hj hn _ _ h =>
    rw [h]; subst hj
    exact .inr ⟨.dir, rfl, snoc_ne_nil base l, .inl hn⟩
  | present n _ _ _ _ _ h => rw [h]; simp [Upd]

theorem symlink_upd (fs : Fs) (t : Bytes) (j : P) (s : Shape fs j) : Upd fs (symlink fs t j).1 j := by
  unfold symlink
  by_cases ht : t = []
  · simp [ht, Upd]
  · simp only [ht, ↓reduceIte]
    cases s with
    | root h => subst h; simp [walk_nil, Upd]
    | blocked h _ _ _ => obtain ⟨e, he⟩ := h false kernelLoops; simp [he, Upd]
    | missing base l hj hn _ _ h =>
      rw [h]; subst hj
      exact .inr ⟨.link t, rfl, snoc_ne_nil base l, .inl hn⟩
    | present n _ _ _ _ _ h => rw [h]; simp [Upd]

theorem create_upd (fs : Fs) (d : Bytes) (j : P) (s : Shape fs j) : Upd fs (create fs j d).1 j := by
  unfold create
  cases s with
  | root h => subst h; simp [walk_nil, Upd, lookup_nil]
  | blocked h _ _ _ => obtain ⟨e, he⟩ := h true kernelLoops; simp [he, Upd]
  | missing base l hj hn _ _ h =>
    rw [h]; subst hj
    exact .inr ⟨.file d, rfl, snoc_ne_nil base l, .inl hn⟩
  | present n hne hn hnl _ _ h =>
    rw [h]; simp only [hn]
    cases n with
    | link t => exact absurd rfl (hnl t)
    | dir => simp [Upd]
    | file d0 => exact .inr ⟨.file d, rfl, hne, .inr ⟨d0, d, hn, rfl⟩⟩

theorem stat_of_found (fs : Fs) (p : P) (n : Node) (hn : lookup fs p = some n)
    (h : walk fs true kernelLoops [] p = .ok (.found p)) : stat fs p = .ok n := by
  unfold stat; rw [h]; simp [hn]

theorem mkdirThen_fst (fs : Fs) (p : P) : (mkdirThen fs p).1 = (mkdir fs p).1 := by
  unfold mkdirThen
  cases h : mkdir fs p with
  | mk fs2 r =>
    cases r with
    | ok u => rfl
    | error e => simp only; split <;> rfl

/-- `MkdirAll` on a guarded path makes at most that one directory. -/
theorem mkdirAll_upd (fs : Fs) (j : P) (s : Shape fs j) : Upd fs (mkdirAll fs j).1 j := by
  unfold mkdirAll
  cases s with
  | root h =>
    subst h
    simp [mkdirAllAux, stat, walk_nil, lookup_nil, Upd]
  | blocked h hb hne hpar =>
    obtain ⟨d, hb⟩ := hb
    have hst : ∃ e, stat fs j = .error e := by
      obtain ⟨e, he⟩ := h true kernelLoops
      exact ⟨e, by unfold stat; rw [he]⟩
    obtain ⟨e, hst⟩ := hst
    have hpst : stat fs j.dropLast = .ok (.file d) := stat_of_found fs _ _ hb (hpar true kernelLoops)
    have hmk : (mkdirThen fs j).1 = fs := by
      rw [mkdirThen_fst]
      obtain ⟨e', he'⟩ := h false kernelLoops
      unfold mkdir; rw [he']
    have hlen : j.length = (j.length - 1) + 1 := by
      have := List.length_pos_iff.mpr hne; omega
    rw [hlen]
    simp only [mkdirAllAux, hst]
    by_cases h2 : j.length ≥ 2
    · simp only [h2, ↓reduceIte]
      have : mkdirAllAux fs (j.length - 1) j.dropLast = (fs, .error .enotdir) := by
        cases hk : j.length - 1 <;> simp [mkdirAllAux, hpst]
      rw [this]; simp [Upd]
    · simp only [h2, ↓reduceIte, hmk]; exact .inl rfl
  | missing base l hj hn hbd hpar h =>
    subst hj
    have hst : stat fs (base ++ [l]) = .error .enoent := by unfold stat; rw [h]
    have hpst : stat fs base = .ok .dir := stat_of_found fs _ _ hbd (hpar true kernelLoops)
    have hmk : (mkdirThen fs (base ++ [l])).1 = set fs (base ++ [l]) .dir := by
      rw [mkdirThen_fst]; unfold mkdir; rw [h]
    have hlen : (base ++ [l]).length = base.length + 1 := by simp
    rw [hlen]
    simp only [mkdirAllAux, hst, List.dropLast_concat]
    have hres : Upd fs (set fs (base ++ [l]) .dir) (base ++ [l]) := .inr ⟨.dir, rfl, snoc_ne_nil base l, .inl hn⟩
    by_cases h2 : (base ++ [l]).length ≥ 2
    · simp only [h2, ↓reduceIte]
      have : mkdirAllAux fs base.length base = (fs, .ok ()) := by
        cases hk : base.length <;> simp [mkdirAllAux, hpst]
      rw [this]; simp only [hmk]; exact hres
    · simp only [h2, ↓reduceIte, hmk]; exact hres
  | present n hne hn hnl hpar hbd h =>
    have hst : stat fs j = .ok n := stat_of_found fs _ _ hn (h true kernelLoops)
    cases n with
    | link t => exact absurd rfl (hnl t)
    | dir => cases hk : j.length <;> simp [mkdirAllAux, hst, Upd]
    | file d => cases hk : j.length <;> simp [mkdirAllAux, hst, Upd]

end Car.FS
