import CarModel.Proofs.Cid
namespace Car

/-- `CidFromReader` reads back `Cid.Bytes()` from a stream, leaving exactly what follows
    (digests up to go-cid's 32 MiB stream cap). -/
theorem cidFromReader_bytes (c : Cid) (hwf : c.wf) (hd : c.digest.length ≤ maxDigestAlloc) (rest : Bytes) :
    cidFromReader (c.bytes ++ rest) = .ok (c.byteLen, c, rest) := by
  rcases hwf with ⟨hv, hcodec, hcode, hlen⟩ | ⟨hv, hcodec, hcode, hlen⟩
  · obtain ⟨v, cd, mc, dig⟩ := c
    simp only at hv hcodec hcode hlen
    subst hv hcodec hcode
    have hb : Cid.bytes ⟨0, 0x70, 0x12, dig⟩ = 0x12 :: 0x20 :: dig := by
      simp [Cid.bytes, Cid.mhBytes, hlen, uvarint_small]
    simp only [Cid.byteLen, hb, List.cons_append]
    unfold cidFromReader
    have r1 : readUvarint (0x12 :: 0x20 :: (dig ++ rest)) = .ok (0x12, 0x20 :: (dig ++ rest)) := by
      have := readUvarint_uvarint 0x12 (by decide) (0x20 :: (dig ++ rest))
      simpa [uvarint_small] using this
    rw [r1]
    simp only [↓reduceIte]
    have : ¬ ((0x20 :: (dig ++ rest)).length < 33) := by
      simp only [List.length_cons, List.length_append]; omega
    simp only [this, ↓reduceIte]
    rw [List.take_left' hlen, List.drop_left' hlen]
    simp [hlen]
  · obtain ⟨v, cd, mc, dig⟩ := c
    simp only at hv hcodec hcode hlen hd
    subst hv
    have hb : Cid.bytes ⟨1, cd, mc, dig⟩ = 1 :: (uvarint cd ++ (uvarint mc ++ (uvarint dig.length ++ dig))) := by
      simp [Cid.bytes, Cid.mhBytes, uvarint_small]
    simp only [Cid.byteLen, hb, List.cons_append]
    unfold cidFromReader
    have r1 : readUvarint (1 :: (uvarint cd ++ (uvarint mc ++ (uvarint dig.length ++ dig)) ++ rest))
        = .ok (1, uvarint cd ++ (uvarint mc ++ (uvarint dig.length ++ dig)) ++ rest) := by
      have := readUvarint_uvarint 1 (by decide) (uvarint cd ++ (uvarint mc ++ (uvarint dig.length ++ dig)) ++ rest)
      simpa [uvarint_small] using this
    rw [r1]
    simp only [show ¬ ((1 : Nat) = 0x12) by decide, ↓reduceIte, ne_eq, not_true_eq_false]
    have e2 : uvarint cd ++ (uvarint mc ++ (uvarint dig.length ++ dig)) ++ rest
        = uvarint cd ++ (uvarint mc ++ (uvarint dig.length ++ (dig ++ rest))) := by simp
    rw [e2, readUvarint_uvarint cd hcodec]
    simp only
    rw [readUvarint_uvarint mc hcode]
    simp only
    rw [readUvarint_uvarint dig.length (by have : (2:Nat)^31 < 2^63 := by decide
                                           omega)]
    simp only
    have c1 : ¬ (dig.length > maxDigestAlloc) := by omega
    have c2 : ¬ ((dig ++ rest).length < dig.length) := by simp
    simp only [c1, c2, ↓reduceIte]
    rw [List.take_left' rfl, List.drop_left' rfl]
    congr 2
    simp only [List.length_cons, List.length_append]
    omega

end Car
