import CarModel.Transform
import CarModel.Proofs.IndexGen
namespace Car

theorem writeAt_within (file d : Bytes) (off : Nat) (h : off + d.length ≤ file.length) :
    writeAt file off d = file.take off ++ d ++ file.drop (off + d.length) := by
  unfold writeAt
  by_cases hd : d = []
  · subst hd; simp
  · have : ¬ (file.length < off) := by omega
    simp [hd, this]

theorem take_min_length {α : Type} (l : List α) (c : Nat) : l.take (min c l.length) = l.take c := by
  by_cases h : c ≤ l.length
  · rw [Nat.min_eq_left h]
  · rw [Nat.min_eq_right (by omega), List.take_of_length_le (Nat.le_refl _), List.take_of_length_le (by omega)]

/-- In-place chunked copy, any chunking: after copying, the first `copied` bytes of the file are the
    source stream's first `copied` bytes, the unread part of the source is untouched, the length is
    unchanged. (The read cursor is `srcOff` ahead of the write cursor and every chunk is read in full
    before it is written, so a write never clobbers bytes still to be read.) -/
theorem copyInPlace_inv (orig : Bytes) (srcOff : Nat) : ∀ (chunks : List Nat) (file : Bytes) (done : Nat),
    file.length = orig.length →
    file.take done = (orig.drop srcOff).take done →
    file.drop (srcOff + done) = orig.drop (srcOff + done) →
    done ≤ (orig.drop srcOff).length →
    ∃ total, (copyInPlace file srcOff chunks done).take total = (orig.drop srcOff).take total ∧
      done ≤ total ∧ total ≤ (orig.drop srcOff).length ∧
      (copyInPlace file srcOff chunks done).length = orig.length ∧
      total = min (orig.drop srcOff).length (done + chunks.sum) := by
  intro chunks
  induction chunks with
  | nil => intro file done hl ht _ hd; exact ⟨done, ht, Nat.le_refl _, hd, hl, by rw [List.sum_nil, Nat.add_zero, Nat.min_eq_right hd]⟩
  | cons c cs ih =>
    intro file done hl ht hdrop hd
    simp only [copyInPlace]
    generalize hbuf : (file.drop (srcOff + done)).take c = buf
    have hbuf' : buf = ((orig.drop srcOff).drop done).take c := by
      rw [← hbuf, hdrop, List.drop_drop]
    have hblen : buf.length = min c ((orig.drop srcOff).length - done) := by
      rw [hbuf']; simp; omega
    have hsl : (orig.drop srcOff).length = orig.length - srcOff := by simp
    have hfit : done + buf.length ≤ file.length := by rw [hl, hblen]; omega
    have hw := writeAt_within file buf done hfit
    have hlen' : (writeAt file done buf).length = orig.length := by
      rw [hw]; simp only [List.length_append, List.length_take, List.length_drop]; omega
    have htake' : (writeAt file done buf).take (done + buf.length) = (orig.drop srcOff).take (done + buf.length) := by
      rw [hw, List.append_assoc, List.take_append]
      have h1 : (file.take done).length = done := by simp; omega
      rw [h1, List.take_of_length_le (by omega), Nat.add_sub_cancel_left, List.take_append,
          List.take_of_length_le (Nat.le_refl _)]
      simp only [Nat.sub_self, List.take_zero, List.append_nil]
      rw [ht, hbuf', List.take_add, List.length_take, take_min_length]
    have hdrop' : (writeAt file done buf).drop (srcOff + (done + buf.length)) = orig.drop (srcOff + (done + buf.length)) := by
      rw [hw]
      have h1 : (file.take done ++ buf).length = done + buf.length := by simp; omega
      rw [show srcOff + (done + buf.length) = (done + buf.length) + srcOff by omega, ← List.drop_drop,
          List.drop_left' h1, List.drop_drop]
      have := congrArg (List.drop buf.length) hdrop
      simp only [List.drop_drop] at this
      rw [show done + buf.length + srcOff = srcOff + done + buf.length by omega]
      exact this
    obtain ⟨total, h1, h2, h3, h4, h5⟩ := ih (writeAt file done buf) (done + buf.length) hlen' htake' hdrop'
      (by rw [hblen]; omega)
    refine ⟨total, h1, by omega, h3, h4, ?_⟩
    rw [h5, hblen]; simp only [List.sum_cons]; omega

end Car
