import CarModel.Reader
import CarModel.Layout
import CarModel.Proofs.Header
import CarModel.Proofs.Truncation
import CarModel.Proofs.Sound
namespace Car

theorem encodeHeaderBody_length_pos (h : CarHeader) : 0 < (encodeHeaderBody h).length := by
  simp [encodeHeaderBody]

/-- `ReadHeader` inverts `WriteHeader` (for headers within the limit). -/
theorem readHeader_encode (maxHeader : Nat) (h : CarHeader) (rest : Bytes) (hwf : h.wf)
    (hmax : (encodeHeaderBody h).length ≤ maxHeader) (h63 : (encodeHeaderBody h).length < 2 ^ 63) :
    readHeader maxHeader (encodeHeader h ++ rest) = .ok (h, rest) := by
  unfold readHeader encodeHeader
  simp only
  rw [ldRead_framed false maxHeader (encodeHeaderBody h) rest (encodeHeaderBody_length_pos h) hmax h63]
  simp only
  rw [decodeHeaderBody_encode h hwf]

/-- A proper prefix of a framed header cannot be opened. -/
theorem readHeader_partial (maxHeader : Nat) (h : CarHeader) (m : Nat)
    (hmax : (encodeHeaderBody h).length ≤ maxHeader) (h63 : (encodeHeaderBody h).length < 2 ^ 63)
    (hm : m < (encodeHeader h).length) :
    ∃ e, readHeader maxHeader ((encodeHeader h).take m) = .error e := by
  by_cases h0 : m = 0
  · subst h0
    exact ⟨.eof, by simp [readHeader, ldRead, ldReadSize, readUvarint, readUvarintAux, verr]⟩
  · refine ⟨.unexpectedEOF, ?_⟩
    unfold readHeader encodeHeader
    simp only
    rw [ldRead_partial false maxHeader (encodeHeaderBody h) m (encodeHeaderBody_length_pos h) hmax h63
          (by omega) (by simpa [encodeHeader] using hm)]

/-- Payload well-formedness for a reader with options `o`. -/
structure PayloadOK (H : HashFn) (o : ReadOpts) (roots : Option (List Cid)) (bs : List Block) : Prop where
  hdr : (CarHeader.mk roots 1).wf
  hdrMax : (encodeHeaderBody ⟨roots, 1⟩).length ≤ o.maxHeader
  hdr63 : (encodeHeaderBody ⟨roots, 1⟩).length < 2 ^ 63
  blocks : ∀ b ∈ bs, b.wf o.maxSection ∧ checkBlock H o.trusted b = .ok ()

/-- C01 (reader side, internal CARv1 reader): a payload reads back as its roots and blocks, in order. -/
theorem scanV1_payload (H : HashFn) (o : ReadOpts) (req : Bool) (roots : Option (List Cid)) (bs : List Block)
    (ok : PayloadOK H o roots bs) (hreq : req = true → roots.getD [] ≠ []) :
    scanV1 H o req (payload roots bs) = .ok ⟨roots.getD [], bs, .eof⟩ := by
  unfold scanV1 payload
  rw [readHeader_encode o.maxHeader ⟨roots, 1⟩ _ ok.hdr ok.hdrMax ok.hdr63]
  simp only [ne_eq, not_true_eq_false, ↓reduceIte, CarHeader.rootList]
  have : ¬ (req = true ∧ roots.getD [] = []) := fun ⟨a, b⟩ => hreq a b
  simp only [this, ↓reduceIte]
  rw [scanSections_sections H o bs ok.blocks]

theorem newBlockReader_v1 (o : ReadOpts) (seek : Bool) (roots : Option (List Cid)) (rest : Bytes)
    (hwf : (CarHeader.mk roots 1).wf) (hmax : (encodeHeaderBody ⟨roots, 1⟩).length ≤ o.maxHeader)
    (h63 : (encodeHeaderBody ⟨roots, 1⟩).length < 2 ^ 63) :
    newBlockReader o seek (encodeHeader ⟨roots, 1⟩ ++ rest) =
      .ok { version := 1, roots := roots.getD [], rest := rest,
            srcLen := (encodeHeader ⟨roots, 1⟩ ++ rest).length,
            offset := headerSize ⟨roots, 1⟩, v1offset := 0, readerSize := none, seekable := seek,
            consumed := (encodeHeader ⟨roots, 1⟩).length } := by
  unfold newBlockReader
  rw [readHeader_encode o.maxHeader ⟨roots, 1⟩ rest hwf hmax h63]
  simp [CarHeader.rootList]

/-- C01 (reader side, v2 BlockReader over a CARv1). -/
theorem scanBlockReader_v1 (H : HashFn) (o : ReadOpts) (seek : Bool) (roots : Option (List Cid)) (bs : List Block)
    (ok : PayloadOK H o roots bs) :
    scanBlockReader H o seek (payload roots bs) = .ok ⟨roots.getD [], bs, .eof⟩ := by
  unfold scanBlockReader payload
  rw [newBlockReader_v1 o seek roots _ ok.hdr ok.hdrMax ok.hdr63]
  simp only [BR.drain]
  rw [scanSections_sections H o bs ok.blocks]

end Car
