import CarModel.Proofs.StoreInv
namespace Car

theorem withOffsets_any (h : Nat) (log : List Block) (p : Cid → Bool) :
    (withOffsets h log).any (fun r => p r.cid) = log.any (fun b => p b.cid) := by
  induction log generalizing h with
  | nil => simp [withOffsets]
  | cons b bs ih => simp [withOffsets, ih]

theorem withOffsets_map_cid (h : Nat) (log : List Block) :
    (withOffsets h log).map (·.cid) = log.map (·.cid) := by
  induction log generalizing h with
  | nil => simp [withOffsets]
  | cons b bs ih => simp [withOffsets, ih]

theorem perm_any {α : Type} {l₁ l₂ : List α} (h : List.Perm l₁ l₂) (p : α → Bool) : l₁.any p = l₂.any p := by
  induction h with
  | nil => rfl
  | cons x _ ih => simp [ih]
  | swap x y l => simp only [List.any_cons]; cases p x <;> cases p y <;> simp
  | trans _ _ ih1 ih2 => exact ih1.trans ih2

theorem idx_any (o : WOpts) (roots : Option (List Cid)) (s : Store) (log : List Block) (inv : Inv o roots s log)
    (p : Cid → Bool) : s.idx.any (fun r => p r.cid) = log.any (fun b => p b.cid) := by
  rw [perm_any inv.idx, withOffsets_any]

theorem stored_isSome (o : WOpts) (st : Spec.State) (c : Cid) :
    (Spec.stored o st c).isSome = st.log.any (fun b => Spec.sameKey o b.cid c) := by
  unfold Spec.stored
  induction st.log with
  | nil => simp
  | cons b bs ih =>
    simp only [List.find?_cons, List.any_cons]
    cases h : Spec.sameKey o b.cid c <;> simp [ih]

/-- the index-level tests are the key test of the specification -/
theorem idx_has_key (o : WOpts) (roots : Option (List Cid)) (s : Store) (st : Spec.State)
    (inv : Inv o roots s st.log) (c : Cid) :
    (if o.wholeCids then s.idx.hasExactCid c else s.idx.hasMultihash c) = (Spec.stored o st c).isSome := by
  rw [stored_isSome]
  by_cases hw : o.wholeCids = true
  · simp only [hw, ↓reduceIte, InsIndex.hasExactCid, Spec.sameKey]
    exact idx_any o roots s st.log inv (fun x => x == c)
  · simp only [hw, Bool.false_eq_true, ↓reduceIte, InsIndex.hasMultihash, Spec.sameKey]
    have := idx_any o roots s st.log inv (fun x => x.digest == c.digest && x.mhCode == c.mhCode)
    rw [this]
    congr 1; funext b; exact Bool.and_comm _ _

theorem storeHas_spec (o : WOpts) (roots : Option (List Cid)) (s : Store) (st : Spec.State)
    (inv : Inv o roots s st.log) (c : Cid) :
    storeHas o s.idx c = (Spec.idRule o c || (Spec.stored o st c).isSome) := by
  unfold storeHas Spec.idRule
  by_cases hid : (!o.storeIdentity && c.isIdentity) = true
  · simp [hid]
  · simp only [hid, Bool.false_eq_true, ↓reduceIte, Bool.false_or]
    have := idx_has_key o roots s st inv c
    by_cases hw : o.wholeCids = true <;> simp_all

/-- How the two states are related: invariant + equal typestate. -/
structure Rel (o : WOpts) (roots : Option (List Cid)) (s : Store) (st : Spec.State) : Prop where
  inv : Inv o roots s st.log
  closed : s.closed = st.closed
  finalized : s.finalized = st.finalized
  api : s.api = st.api
  sroots : st.roots = roots.getD []

/-- One block of a Put: same answer, related states. -/
theorem putOne_refines (o : WOpts) (roots : Option (List Cid)) (s : Store) (st : Spec.State)
    (rel : Rel o roots s st) (hopen : s.finalized = false ∧ s.closed = false) (c : Cid) (d : Bytes) :
    (s.putOne o c d).2.1 = (Spec.putOne o st c d).2 ∧
    Rel o roots (s.putOne o c d).1 (Spec.putOne o st c d).1 := by
  unfold Store.putOne shouldPut Spec.putOne Spec.idRule
  have hkey := idx_has_key o roots s st rel.inv c
  by_cases hid : (!o.storeIdentity && c.isIdentity) = true
  · simp only [hid, ↓reduceIte]; exact ⟨trivial, rel⟩
  · simp only [hid, Bool.false_eq_true, ↓reduceIte]
    by_cases hbig : c.byteLen > o.maxIndexCidSize
    · simp only [hbig, ↓reduceIte]; exact ⟨trivial, rel⟩
    · simp only [hbig, ↓reduceIte]
      by_cases hdup : o.allowDup = true
      · simp only [hdup, Bool.not_true, Bool.false_eq_true, ↓reduceIte, Bool.false_and]
        refine ⟨trivial, ⟨?_, rel.closed, rel.finalized, rel.api, rel.sroots⟩⟩
        exact put_write_inv o roots s st.log c d rel.inv hopen
      · have hdup' : o.allowDup = false := by simpa using hdup
        simp only [hdup', Bool.not_false, ↓reduceIte, Bool.true_and]
        by_cases hst : (Spec.stored o st c).isSome = true
        · have : (if o.wholeCids = true then Except.ok (!s.idx.hasExactCid c) else Except.ok (!s.idx.hasMultihash c))
              = (Except.ok false : Except Err Bool) := by
            by_cases hw : o.wholeCids = true <;> simp_all
          rw [this]; simp only [hst, ↓reduceIte]; exact ⟨trivial, rel⟩
        · have hst' : (Spec.stored o st c).isSome = false := by simpa using hst
          have : (if o.wholeCids = true then Except.ok (!s.idx.hasExactCid c) else Except.ok (!s.idx.hasMultihash c))
              = (Except.ok true : Except Err Bool) := by
            by_cases hw : o.wholeCids = true <;> simp_all
          rw [this]; simp only [hst', Bool.false_eq_true, ↓reduceIte]
          refine ⟨trivial, ⟨?_, rel.closed, rel.finalized, rel.api, rel.sroots⟩⟩
          exact put_write_inv o roots s st.log c d rel.inv hopen

theorem putOne_flags (o : WOpts) (s : Store) (c : Cid) (d : Bytes) :
    (s.putOne o c d).1.finalized = s.finalized ∧ (s.putOne o c d).1.closed = s.closed := by
  unfold Store.putOne
  split
  · simp
  · simp
  · simp [Store.applyEvs]

theorem putMany_refines (o : WOpts) (roots : Option (List Cid)) (bs : List Block) :
    ∀ (s : Store) (st : Spec.State), Rel o roots s st → s.finalized = false ∧ s.closed = false →
    (s.putMany o bs).2.1 = (Spec.putMany o st bs).2 ∧ Rel o roots (s.putMany o bs).1 (Spec.putMany o st bs).1 := by
  induction bs with
  | nil => intro s st rel _; exact ⟨rfl, rel⟩
  | cons b tl ih =>
    intro s st rel hopen
    have h1 := putOne_refines o roots s st rel hopen b.cid b.data
    have hfl := putOne_flags o s b.cid b.data
    unfold Store.putMany Spec.putMany
    generalize hm : s.putOne o b.cid b.data = rm at h1 hfl
    generalize hs : Spec.putOne o st b.cid b.data = rs at h1
    obtain ⟨sm, outm, evs⟩ := rm
    obtain ⟨ss, outs⟩ := rs
    simp only at h1 hfl
    obtain ⟨hout, hrel⟩ := h1
    subst hout
    cases outm with
    | ok =>
      simp only
      exact ih sm ss hrel ⟨by rw [hfl.1]; exact hopen.1, by rw [hfl.2]; exact hopen.2⟩
    | err e => exact ⟨rfl, hrel⟩
    | bool b => exact ⟨rfl, hrel⟩
    | data d => exact ⟨rfl, hrel⟩
    | size n => exact ⟨rfl, hrel⟩
    | cids l => exact ⟨rfl, hrel⟩

end Car
