import CarModel.Header
import CarModel.Proofs.Cid
namespace Car

theorem leN_length (k n : Nat) : (leN k n).length = k := by
  induction k generalizing n with
  | zero => simp [leN]
  | succ k ih => simp [leN, ih]

theorem leVal_leN (k n : Nat) (h : n < 256 ^ k) : leVal (leN k n) = n := by
  induction k generalizing n with
  | zero => simp at h; simp [leN, leVal, h]
  | succ k ih =>
    simp only [leN, leVal]
    rw [toNat_ofNat_lt _ (by omega)]
    rw [ih (n / 256) (by rw [Nat.pow_succ] at h; exact Nat.div_lt_of_lt_mul (by rw [Nat.mul_comm]; exact h))]
    omega

theorem stripPrefix_append (p x : Bytes) : stripPrefix p (p ++ x) = some x := by
  simp [stripPrefix, List.take_left', List.drop_left']

/-- Reading back a minimal cbor head, for the three major types the header uses. -/
theorem readCborHead_cborHead (mt n : Nat) (rest : Bytes) (hmt : mt = 0x00 ∨ mt = 0x40 ∨ mt = 0x80)
    (hn : n < 2 ^ 64) : readCborHead mt (cborHead mt n ++ rest) = some (n, rest) := by
  have hmt' : mt ≤ 128 := by omega
  unfold cborHead
  split
  · rename_i h
    simp only [List.cons_append, List.nil_append, readCborHead]
    rw [toNat_ofNat_lt _ (by omega)]
    have : ¬ (mt + n < mt ∨ mt + n ≥ mt + 28) := by omega
    simp only [this, ↓reduceIte, Nat.add_sub_cancel_left, h]
  · split
    · rename_i h1 h2
      simp only [List.cons_append, List.nil_append, readCborHead]
      rw [toNat_ofNat_lt _ (by omega)]
      have : ¬ (mt + 24 < mt ∨ mt + 24 ≥ mt + 28) := by omega
      simp only [this, ↓reduceIte, Nat.add_sub_cancel_left]
      have hl : ¬ ((UInt8.ofNat n :: rest).length < 2 ^ (24 - 24)) := by simp
      simp only [Nat.lt_irrefl, ↓reduceIte, hl]
      have hv : leVal ((UInt8.ofNat n :: rest).take (2 ^ (24 - 24))).reverse = n := by
        simp [leVal, toNat_ofNat_lt n (by simpa using h2)]
      rw [hv]
      simp
      omega
    · split
      · rename_i h1 h2 h3
        simp only [List.cons_append, readCborHead]
        rw [toNat_ofNat_lt _ (by omega)]
        have : ¬ (mt + 25 < mt ∨ mt + 25 ≥ mt + 28) := by omega
        simp only [this, ↓reduceIte, Nat.add_sub_cancel_left]
        have hl : ¬ (((leN 2 n).reverse ++ rest).length < 2 ^ (25 - 24)) := by simp [leN_length]
        have c : ¬ (25 < 24) := by omega
        simp only [c, ↓reduceIte, hl]
        have ht : ((leN 2 n).reverse ++ rest).take (2 ^ (25 - 24)) = (leN 2 n).reverse :=
          List.take_left' (by simp [leN_length])
        have hd : ((leN 2 n).reverse ++ rest).drop (2 ^ (25 - 24)) = rest :=
          List.drop_left' (by simp [leN_length])
        rw [ht, hd, List.reverse_reverse, leVal_leN 2 n (by simpa using h3)]
        simp
        omega
      · split
        · rename_i h1 h2 h3 h4
          simp only [List.cons_append, readCborHead]
          rw [toNat_ofNat_lt _ (by omega)]
          have : ¬ (mt + 26 < mt ∨ mt + 26 ≥ mt + 28) := by omega
          simp only [this, ↓reduceIte, Nat.add_sub_cancel_left]
          have hl : ¬ (((leN 4 n).reverse ++ rest).length < 2 ^ (26 - 24)) := by simp [leN_length]
          have c : ¬ (26 < 24) := by omega
          simp only [c, ↓reduceIte, hl]
          have ht : ((leN 4 n).reverse ++ rest).take (2 ^ (26 - 24)) = (leN 4 n).reverse :=
            List.take_left' (by simp [leN_length])
          have hd : ((leN 4 n).reverse ++ rest).drop (2 ^ (26 - 24)) = rest :=
            List.drop_left' (by simp [leN_length])
          rw [ht, hd, List.reverse_reverse, leVal_leN 4 n (by simpa using h4)]
          simp
          omega
        · rename_i h1 h2 h3 h4
          simp only [List.cons_append, readCborHead]
          rw [toNat_ofNat_lt _ (by omega)]
          have : ¬ (mt + 27 < mt ∨ mt + 27 ≥ mt + 28) := by omega
          simp only [this, ↓reduceIte, Nat.add_sub_cancel_left]
          have hl : ¬ (((leN 8 n).reverse ++ rest).length < 2 ^ (27 - 24)) := by simp [leN_length]
          have c : ¬ (27 < 24) := by omega
          simp only [c, ↓reduceIte, hl]
          have ht : ((leN 8 n).reverse ++ rest).take (2 ^ (27 - 24)) = (leN 8 n).reverse :=
            List.take_left' (by simp [leN_length])
          have hd : ((leN 8 n).reverse ++ rest).drop (2 ^ (27 - 24)) = rest :=
            List.drop_left' (by simp [leN_length])
          rw [ht, hd, List.reverse_reverse, leVal_leN 8 n (by simpa using hn)]
          simp
          omega

end Car

namespace Car

theorem uvarintSize_le (k n : Nat) (hk : 0 < k) (h : n < 2 ^ (7 * k)) : uvarintSize n ≤ k := by
  induction k generalizing n with
  | zero => omega
  | succ k ih =>
    unfold uvarintSize
    split
    · omega
    · rename_i h128
      by_cases hk0 : k = 0
      · subst hk0; simp at h; omega
      · have : n / 128 < 2 ^ (7 * k) := by
          have e : 2 ^ (7 * (k + 1)) = 2 ^ (7 * k) * 128 := by
            rw [show 7 * (k + 1) = 7 * k + 7 by omega, Nat.pow_add]
          rw [e] at h
          exact Nat.div_lt_of_lt_mul (by rw [Nat.mul_comm]; exact h)
        have := ih (n / 128) (by omega) this
        omega

theorem cid_byteLen_bound (c : Cid) (hwf : c.wf) : c.byteLen < 2 ^ 32 := by
  have p63 : ∀ n, n < 2 ^ 63 → uvarintSize n ≤ 9 := fun n h => uvarintSize_le 9 n (by omega) (by simpa using h)
  rcases hwf with ⟨hv, _, hcode, hlen⟩ | ⟨hv, hcodec, hcode, hlen⟩
  · unfold Cid.byteLen Cid.bytes Cid.mhBytes
    simp only [hv, ↓reduceIte, List.length_append, uvarint_length]
    have := p63 c.mhCode (by omega); have := p63 c.digest.length (by omega); omega
  · unfold Cid.byteLen Cid.bytes Cid.mhBytes
    have hv' : ¬ (c.version = 0) := by omega
    simp only [hv', ↓reduceIte, List.length_append, uvarint_length]
    have := p63 c.mhCode hcode; have := p63 c.codec hcodec
    have := p63 c.digest.length (by have : (2:Nat)^31 < 2^63 := by decide
                                    omega)
    have := p63 1 (by decide)
    have : (2:Nat)^31 + 40 < 2^32 := by decide
    omega

theorem decodeCids_flatMap (rs : List Cid) (hwf : ∀ c ∈ rs, c.wf) (rest : Bytes) :
    decodeCids rs.length (rs.flatMap cborCid ++ rest) = some (rs, rest) := by
  induction rs with
  | nil => simp [decodeCids]
  | cons c tl ih =>
    have hc := hwf c (by simp)
    have e : (c :: tl).flatMap cborCid ++ rest
        = [0xd8, 0x2a] ++ (cborHead 0x40 (c.byteLen + 1) ++ ((0x00 :: c.bytes) ++ (tl.flatMap cborCid ++ rest))) := by
      simp [cborCid]
    rw [List.length_cons, decodeCids, e, stripPrefix_append]
    simp only
    have hb := cid_byteLen_bound c hc
    rw [readCborHead_cborHead 0x40 (c.byteLen + 1) _ (by omega)
          (by have : (2:Nat)^32 + 1 < 2^64 := by decide
              omega)]
    simp only
    have hl : (0x00 :: c.bytes).length = c.byteLen + 1 := by simp [Cid.byteLen]
    have c1 : ¬ (c.byteLen + 1 = 0 ∨ ((0x00 :: c.bytes) ++ (tl.flatMap cborCid ++ rest)).length < c.byteLen + 1) := by
      simp only [List.length_append, hl]; omega
    simp only [c1, ↓reduceIte]
    rw [List.take_left' hl, List.drop_left' hl]
    simp only
    rw [cidCast_bytes c hc]
    simp only
    rw [ih (fun x hx => hwf x (by simp [hx]))]

/-- Header well-formedness: what a writer can be given. -/
def CarHeader.wf (h : CarHeader) : Prop :=
  (∀ c ∈ h.rootList, c.wf) ∧ h.rootList.length < 2 ^ 64 ∧ h.version < 2 ^ 64

theorem cborHead_array_not_null (n : Nat) (rest : Bytes) :
    ∀ r, cborHead 0x80 n ++ rest ≠ 0xf6 :: r := by
  intro r h
  unfold cborHead at h
  split at h
  · rename_i hn
    simp only [List.cons_append, List.nil_append, List.cons.injEq] at h
    have := congrArg UInt8.toNat h.1
    rw [toNat_ofNat_lt _ (by omega)] at this
    simp at this; omega
  · split at h
    · simp at h
    · split at h
      · simp at h
      · split at h <;> simp at h

theorem decodeVersionField_encode (v : Nat) (hv : v < 2 ^ 64) :
    decodeVersionField (keyVersion ++ cborHead 0x00 v) = some (v, [], 1) := by
  unfold decodeVersionField
  rw [stripPrefix_append]
  simp only
  rw [← List.append_nil (cborHead 0x00 v), readCborHead_cborHead 0 v [] (by omega) hv]

theorem decodeRootsField_encode (roots : Option (List Cid)) (rest : Bytes)
    (hr : ∀ c ∈ roots.getD [], c.wf) (hlen : (roots.getD []).length < 2 ^ 64) :
    decodeRootsField (keyRoots ++ cborRoots roots ++ rest) = some (roots, rest, 1) := by
  unfold decodeRootsField
  rw [List.append_assoc, stripPrefix_append]
  cases roots with
  | none => simp [cborRoots]
  | some rs =>
    simp only [cborRoots, Option.getD_some] at hr hlen ⊢
    split
    · rename_i heq
      exfalso
      simp only [List.append_assoc] at heq
      exact cborHead_array_not_null rs.length _ _ heq
    · simp only [List.append_assoc]
      rw [readCborHead_cborHead 0x80 rs.length _ (by omega) hlen]
      simp only
      rw [decodeCids_flatMap rs hr]

/-- Decoding inverts encoding on every well-formed header (nil and empty root lists are kept apart). -/
theorem decodeHeaderBody_encode (h : CarHeader) (hwf : h.wf) :
    decodeHeaderBody (encodeHeaderBody h) = .ok h := by
  obtain ⟨hr, hlen, hver⟩ := hwf
  obtain ⟨roots, version⟩ := h
  unfold encodeHeaderBody decodeHeaderBody
  simp only [List.cons_append, List.nil_append]
  have : ¬ ((0xa2 : UInt8).toNat < 0xa0 ∨ (0xa2 : UInt8).toNat > 0xa2) := by decide
  simp only [this, ↓reduceIte]
  have e : keyRoots ++ cborRoots roots ++ keyVersion ++ cborHead 0 version
      = keyRoots ++ cborRoots roots ++ (keyVersion ++ cborHead 0 version) := by simp
  rw [e, decodeRootsField_encode roots _ hr hlen]
  simp only
  rw [decodeVersionField_encode version hver]
  simp

end Car
