import CarModel.Proofs.BlockReader
import CarModel.Proofs.Truncation
import CarModel.Proofs.InspectConv
/-
Any mix of `Next` and `SkipNext` over a payload that is cut anywhere: the iteration visits exactly the
complete sections (with exact metadata for the skipped ones) and then — unless the cut falls on a
section boundary — fails with an error that is not a clean end. Generalises C02's `scan_truncated`
(pure `Next`) and C14's `runChoices_valid` (uncut payloads).
-/
namespace Car

/-- `BRInv` with arbitrary bytes `tail` after the remaining complete sections. -/
structure BRInvT (br : BR) (hdr : Nat) (done rem : List Block) (tail : Bytes) : Prop where
  rest : br.rest = sectionsBytes rem ++ tail
  offset : br.offset = br.v1offset + hdr + (sectionsBytes done).length
  size : br.seekable = true → br.srcLen = br.offset + (sectionsBytes rem).length + tail.length

theorem br_next_stepT (H : HashFn) (o : ReadOpts) (br : BR) (hdr : Nat) (done rem : List Block) (b : Block) (tail : Bytes)
    (inv : BRInvT br hdr done (b :: rem) tail) (hwf : b.wf o.maxSection) (hv : checkBlock H o.trusted b = .ok ()) :
    ∃ br', br.next H o = .ok (b, br') ∧ BRInvT br' hdr (done ++ [b]) rem tail ∧
      br'.v1offset = br.v1offset ∧ br'.seekable = br.seekable ∧ br'.srcLen = br.srcLen := by
  unfold BR.next
  rw [inv.rest, sectionsBytes_cons, List.append_assoc, nextBlock_section H o b _ hwf hv]
  refine ⟨_, rfl, ⟨rfl, ?_, ?_⟩, rfl, rfl, rfl⟩
  · simp only; rw [inv.offset, sectionsBytes_append_length]; simp only [sectionSize]; omega
  · intro hs
    have := inv.size hs
    simp only at this ⊢
    rw [this, sectionsBytes_cons, List.length_append, sectionBytes_length]
    simp only [sectionSize]; omega

theorem br_skip_stepT (o : ReadOpts) (br : BR) (hdr : Nat) (done rem : List Block) (b : Block) (tail : Bytes)
    (inv : BRInvT br hdr done (b :: rem) tail) (hwf : b.wf o.maxSection) (hd : b.cid.digest.length ≤ maxDigestAlloc) :
    ∃ br', br.skipNext o = .ok (⟨b.cid, hdr + (sectionsBytes done).length,
                                  br.v1offset + hdr + (sectionsBytes done).length, b.data.length⟩, br') ∧
      BRInvT br' hdr (done ++ [b]) rem tail ∧
      br'.v1offset = br.v1offset ∧ br'.seekable = br.seekable ∧ br'.srcLen = br.srcLen := by
  obtain ⟨hc, hmax, h63⟩ := hwf
  have hpos := cid_byteLen_pos b.cid
  unfold BR.skipNext
  rw [inv.rest, sectionsBytes_cons, List.append_assoc, ldReadSize_section o.zeroEOF o.maxSection b _ hmax h63]
  have c2 : ¬ (b.cid.byteLen + b.data.length = 0) := by omega
  simp only [c2, ↓reduceIte]
  have htake : (b.cid.bytes ++ (b.data ++ (sectionsBytes rem ++ tail))).take (b.cid.byteLen + b.data.length)
      = b.cid.bytes ++ b.data := by
    rw [← List.append_assoc]; exact List.take_left' (by simp [Cid.byteLen])
  rw [htake, cidFromReader_bytes b.cid hc hd]
  simp only
  have hdrop : (b.cid.bytes ++ (b.data ++ (sectionsBytes rem ++ tail))).drop b.cid.byteLen = b.data ++ (sectionsBytes rem ++ tail) :=
    List.drop_left' rfl
  rw [hdrop]
  have hbs : b.cid.byteLen + b.data.length - b.cid.byteLen = b.data.length := by omega
  rw [hbs, List.drop_left' rfl]
  have hoff := inv.offset
  by_cases hs : br.seekable = true
  · have hsz := inv.size hs
    rw [sectionsBytes_cons, List.length_append, sectionBytes_length] at hsz
    have c3 : ¬ (br.offset + uvarintSize (b.cid.byteLen + b.data.length) + (b.cid.byteLen + b.data.length) > br.srcLen) := by
      rw [hsz]; simp only [sectionSize]; omega
    simp only [hs, ↓reduceIte, c3]
    have hsub : br.v1offset + hdr + (sectionsBytes done).length - br.v1offset = hdr + (sectionsBytes done).length := by omega
    rw [hoff] at hsz ⊢
    rw [hsub]
    refine ⟨_, rfl, ⟨rfl, ?_, ?_⟩, rfl, rfl, rfl⟩
    · simp only; rw [sectionsBytes_append_length]; simp only [sectionSize]; omega
    · intro _; simp only; rw [hsz]; simp only [sectionSize]; omega
  · have hs' : br.seekable = false := by simpa using hs
    have c3 : ¬ ((b.data ++ (sectionsBytes rem ++ tail)).length < b.data.length) := by simp
    simp only [hs', Bool.false_eq_true, ↓reduceIte, c3]
    have hsub : br.v1offset + hdr + (sectionsBytes done).length - br.v1offset = hdr + (sectionsBytes done).length := by omega
    rw [hoff, hsub]
    refine ⟨_, rfl, ⟨rfl, ?_, ?_⟩, rfl, rfl, rfl⟩
    · simp only; rw [sectionsBytes_append_length]; simp only [sectionSize]; omega
    · intro h; simp at h

/-- `SkipNext` on a non-empty proper prefix of a section never succeeds and never reports a clean
    end: cut inside the length prefix, right after it, inside the CID or inside the data alike. -/
theorem skipNext_partial (o : ReadOpts) (br : BR) (b : Block) (m : Nat)
    (hwf : b.wf o.maxSection) (hm0 : 0 < m) (hm : m < sectionSize b)
    (hrest : br.rest = (sectionBytes b).take m)
    (hsize : br.seekable = true → br.srcLen = br.offset + m) :
    ∃ e, br.skipNext o = .error e ∧ e ≠ .eof := by
  obtain ⟨_, hmax, h63⟩ := hwf
  have hpos := cid_byteLen_pos b.cid
  generalize hl : b.cid.byteLen + b.data.length = l at *
  have hbody : (b.cid.bytes ++ b.data).length = l := by simp [Cid.byteLen] at hl ⊢; omega
  have e : sectionBytes b = uvarint l ++ (b.cid.bytes ++ b.data) := by
    unfold sectionBytes; rw [hl]; simp
  have hss : sectionSize b = uvarintSize l + l := by simp only [sectionSize, hl]
  unfold BR.skipNext ldReadSize
  rw [hrest, e]
  by_cases hv : m < (uvarint l).length
  · rw [List.take_append_of_le_length (by omega), readUvarint_uvarint_prefix _ _ h63 hv hm0]
    exact ⟨_, rfl, by simp [verr]⟩
  · have hge : (uvarint l).length ≤ m := by omega
    obtain ⟨k, rfl⟩ := Nat.exists_eq_add_of_le hge
    rw [List.take_append]
    simp only [Nat.add_sub_cancel_left]
    rw [List.take_of_length_le (Nat.le_add_right _ _), readUvarint_uvarint l h63]
    have hk : k < l := by rw [hss, ← uvarint_length] at hm; omega
    have h0 : ¬ (l = 0 ∧ o.zeroEOF = true) := by omega
    have h1 : ¬ (l > o.maxSection) := by omega
    have h2 : ¬ (l = 0) := by omega
    simp only [h2, false_and, h1, ↓reduceIte]
    generalize hr : (b.cid.bytes ++ b.data).take k = r
    have hrl : r.length = k := by rw [← hr, List.length_take, hbody]; omega
    have htk : r.take l = r := List.take_of_length_le (by omega)
    rw [htk]
    cases hc : cidFromReader r with
    | error ce => cases ce <;> exact ⟨_, rfl, by simp⟩
    | ok q =>
      obtain ⟨n, c, rest'⟩ := q
      simp only
      have hlen := cidFromReader_length r n c rest' hc
      by_cases hs : br.seekable = true
      · have := hsize hs
        have c3 : br.offset + uvarintSize l + l > br.srcLen := by
          rw [this, ← uvarint_length]; omega
        simp only [hs, ↓reduceIte, c3]
        exact ⟨_, rfl, by simp⟩
      · have hs' : br.seekable = false := by simpa using hs
        have c3 : (r.drop n).length < l - n := by simp; omega
        simp only [hs', Bool.false_eq_true, ↓reduceIte, c3]
        exact ⟨_, rfl, by simp⟩

/-- **Any mix of `Next` and `SkipNext` over complete sections followed by a cut section**: exactly the
    complete sections are visited (exact metadata for the skipped ones), then the iteration fails with
    an error that is not a clean end. -/
theorem runChoices_truncated (H : HashFn) (o : ReadOpts) (choice : Nat → Bool) (hdr : Nat) (b : Block) (m : Nat)
    (hwfb : b.wf o.maxSection) (hm0 : 0 < m) (hm : m < sectionSize b) :
    ∀ (rem done : List Block) (br : BR) (i fuel : Nat), BRInvT br hdr done rem ((sectionBytes b).take m) → rem.length < fuel →
    (∀ x ∈ rem, x.wf o.maxSection ∧ checkBlock H o.trusted x = .ok () ∧ x.cid.digest.length ≤ maxDigestAlloc) →
    ∃ e, e ≠ .eof ∧ BR.runChoices H o choice fuel i br
      = (expectedVisits choice br.v1offset i (hdr + (sectionsBytes done).length) rem, e) := by
  intro rem
  induction rem with
  | nil =>
    intro done br i fuel inv hf _
    cases fuel with
    | zero => omega
    | succ f =>
      have hrest : br.rest = (sectionBytes b).take m := by rw [inv.rest]; simp [sectionsBytes]
      have hsz : br.seekable = true → br.srcLen = br.offset + m := by
        intro hs
        have := inv.size hs
        simp only [sectionsBytes, List.flatMap_nil, List.length_nil, Nat.add_zero, List.length_take, sectionBytes_length] at this
        rw [this]; omega
      unfold BR.runChoices
      cases hc : choice i with
      | true =>
        obtain ⟨e, he, hne⟩ := skipNext_partial o br b m hwfb hm0 hm hrest hsz
        exact ⟨e, hne, by simp [he, expectedVisits]⟩
      | false =>
        have hn : br.next H o = .error .unexpectedEOF := by
          unfold BR.next; rw [hrest, nextBlock_partial H o b m hwfb hm0 hm]
        exact ⟨.unexpectedEOF, by simp, by simp [hn, expectedVisits]⟩
  | cons x tl ih =>
    intro done br i fuel inv hf hok
    cases fuel with
    | zero => omega
    | succ f =>
      obtain ⟨hwf, hv, hd⟩ := hok x (by simp)
      unfold BR.runChoices
      cases hc : choice i with
      | true =>
        obtain ⟨br', hstep, inv', hv1, _, _⟩ := br_skip_stepT o br hdr done tl x _ inv hwf hd
        obtain ⟨e, hne, hrun⟩ := ih (done ++ [x]) br' (i + 1) f inv' (by simpa using hf) (fun y hy => hok y (by simp [hy]))
        refine ⟨e, hne, ?_⟩
        simp only [↓reduceIte, hstep, hrun]
        simp only [expectedVisits, hc, expectedVisit, ↓reduceIte, hv1, sectionsBytes_append_length, Nat.add_assoc]
      | false =>
        obtain ⟨br', hstep, inv', hv1, _, _⟩ := br_next_stepT H o br hdr done tl x _ inv hwf hv
        obtain ⟨e, hne, hrun⟩ := ih (done ++ [x]) br' (i + 1) f inv' (by simpa using hf) (fun y hy => hok y (by simp [hy]))
        refine ⟨e, hne, ?_⟩
        simp only [Bool.false_eq_true, ↓reduceIte, hstep, hrun]
        simp only [expectedVisits, hc, expectedVisit, Bool.false_eq_true, ↓reduceIte, hv1, sectionsBytes_append_length, Nat.add_assoc]

end Car
