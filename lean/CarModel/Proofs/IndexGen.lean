import CarModel.IndexGen
import CarModel.Proofs.CidReader
import CarModel.Proofs.V2
namespace Car

/-- What `LoadIndex` needs of a block: well-formed CID within go-cid's stream cap, a section length
    that fits a varint, and (if it will be indexed) a CID no longer than `MaxIndexCidSize`. -/
def Block.idxOk (o : IdxOpts) (b : Block) : Prop :=
  b.cid.wf ∧ b.cid.digest.length ≤ maxDigestAlloc ∧ b.cid.byteLen + b.data.length < 2 ^ 63 ∧
  ((o.storeIdentity || !b.cid.isIdentity) = true → b.cid.byteLen ≤ o.maxIndexCidSize)

theorem sectionsBytes_cons (b : Block) (tl : List Block) :
    sectionsBytes (b :: tl) = sectionBytes b ++ sectionsBytes tl := by simp [sectionsBytes]

theorem loadLoop_sections (kind : SrcKind) (o : IdxOpts) (src tail : Bytes) (dOff dSize : Nat) :
    ∀ (rem : List Block) (pre : Bytes) (acc : List Record) (fuel : Nat),
    src = pre ++ sectionsBytes rem ++ tail → rem.length < fuel →
    (∀ b ∈ rem, b.idxOk o) →
    dOff ≤ pre.length →
    pre.length + (sectionsBytes rem).length < 2 ^ 63 →   -- positions fit an int64 (any real file)
    ((dSize = 0 ∧ tail = []) ∨
     (dSize ≠ 0 ∧ pre.length + (sectionsBytes rem).length - dOff = dSize)) →
    loadLoop kind o src dOff dSize fuel pre.length acc = .ok (acc ++ keptRecords o (pre.length - dOff) rem) := by
  intro rem
  induction rem with
  | nil =>
    intro pre acc fuel hsrc hf _ hle _ hend
    cases fuel with
    | zero => omega
    | succ f =>
      unfold loadLoop
      rcases hend with ⟨h0, ht⟩ | ⟨h0, he⟩
      · have c : ¬ (dSize ≠ 0 ∧ pre.length - dOff ≥ dSize) := by omega
        simp only [c, ↓reduceIte]
        have : src.drop pre.length = [] := by rw [hsrc, ht]; simp [sectionsBytes]
        rw [this]
        simp [readUvarint, readUvarintAux, keptRecords]
      · have c : (dSize ≠ 0 ∧ pre.length - dOff ≥ dSize) := by
          simp only [sectionsBytes, List.flatMap_nil, List.length_nil, Nat.add_zero] at he; omega
        simp [c, keptRecords]
  | cons b tl ih =>
    intro pre acc fuel hsrc hf hok hle hsz hend
    cases fuel with
    | zero => omega
    | succ f =>
      obtain ⟨hwf, hdig, h63, hmax⟩ := hok b (by simp)
      have hpos := cid_byteLen_pos b.cid
      have hseclen := sectionBytes_length b
      unfold loadLoop
      have c : ¬ (dSize ≠ 0 ∧ pre.length - dOff ≥ dSize) := by
        rcases hend with ⟨h0, _⟩ | ⟨h0, he⟩
        · omega
        · rw [sectionsBytes_cons, List.length_append, hseclen] at he
          have := uvarintSize_pos (b.cid.byteLen + b.data.length)
          simp only [sectionSize] at he
          omega
      simp only [c, ↓reduceIte]
      have hdrop : src.drop pre.length
          = uvarint (b.cid.byteLen + b.data.length) ++ (b.cid.bytes ++ (b.data ++ (sectionsBytes tl ++ tail))) := by
        rw [hsrc, sectionsBytes_cons]
        simp only [List.append_assoc]
        rw [List.drop_left' rfl]
        simp [sectionBytes]
      rw [hdrop, readUvarint_uvarint _ h63]
      simp only
      have c0 : ¬ (b.cid.byteLen + b.data.length = 0) := by omega
      simp only [c0, ↓reduceIte]
      rw [cidFromReader_bytes b.cid hwf hdig]
      simp only
      have hsl : src.length = pre.length + sectionSize b + ((sectionsBytes tl).length + tail.length) := by
        rw [hsrc, sectionsBytes_cons]; simp only [List.length_append, hseclen]; omega
      have hafter : src.length - (b.data ++ (sectionsBytes tl ++ tail)).length
          = pre.length + uvarintSize (b.cid.byteLen + b.data.length) + b.cid.byteLen := by
        rw [hsl]; simp only [List.length_append, sectionSize]; omega
      rw [hafter]
      have hseek : seekRel kind src.length (pre.length + uvarintSize (b.cid.byteLen + b.data.length) + b.cid.byteLen)
          (((b.cid.byteLen + b.data.length : Nat) : Int) - (b.cid.byteLen : Int))
          = .ok (pre.length + sectionSize b) := by
        unfold seekRel
        cases kind with
        | seekable =>
          simp only
          have hsz' : pre.length + sectionSize b < 2 ^ 63 := by
            rw [sectionsBytes_cons, List.length_append, hseclen] at hsz; omega
          have : ¬ ((((pre.length + uvarintSize (b.cid.byteLen + b.data.length) + b.cid.byteLen : Nat) : Int)
              + (((b.cid.byteLen + b.data.length : Nat) : Int) - (b.cid.byteLen : Int))) < 0 ∨
              (((pre.length + uvarintSize (b.cid.byteLen + b.data.length) + b.cid.byteLen : Nat) : Int)
              + (((b.cid.byteLen + b.data.length : Nat) : Int) - (b.cid.byteLen : Int))) ≥ 2 ^ 63) := by
            simp only [sectionSize] at hsz'; omega
          simp only [this, ↓reduceIte]
          congr 1
          simp only [sectionSize]; omega
        | plain =>
          simp only
          have h1 : ¬ ((((b.cid.byteLen + b.data.length : Nat) : Int) - (b.cid.byteLen : Int)) < 0) := by omega
          have h2 : ((((b.cid.byteLen + b.data.length : Nat) : Int) - (b.cid.byteLen : Int))).toNat = b.data.length := by omega
          simp only [h1, ↓reduceIte, h2]
          have h3 : ¬ (pre.length + uvarintSize (b.cid.byteLen + b.data.length) + b.cid.byteLen + b.data.length > src.length) := by
            rw [hsl]; simp only [sectionSize]; omega
          simp only [h3, ↓reduceIte]
          congr 1
          simp only [sectionSize]; omega
      by_cases hk : (o.storeIdentity || !b.cid.isIdentity) = true
      · have hm := hmax hk
        have c1 : ¬ ((o.storeIdentity || !b.cid.isIdentity) = true ∧ b.cid.byteLen > o.maxIndexCidSize) := by omega
        simp only [c1, ↓reduceIte, hk, hseek]
        have hpl : (pre ++ sectionBytes b).length = pre.length + sectionSize b := by
          simp [hseclen]
        rw [← hpl]
        rw [ih (pre ++ sectionBytes b) _ f (by rw [hsrc, sectionsBytes_cons]; simp) (by simpa using hf)
              (fun x hx => hok x (by simp [hx])) (by rw [hpl]; omega)
              (by rw [hpl]; rw [sectionsBytes_cons, List.length_append, hseclen] at hsz; omega)
              (by
                rcases hend with ⟨h0, ht⟩ | ⟨h0, he⟩
                · exact Or.inl ⟨h0, ht⟩
                · refine Or.inr ⟨h0, ?_⟩
                  rw [sectionsBytes_cons, List.length_append, hseclen] at he
                  rw [hpl]; omega)]
        have c1' : ¬ (b.cid.byteLen > o.maxIndexCidSize) := by omega
        have e3 : pre.length + sectionSize b - dOff = pre.length - dOff + sectionSize b := by omega
        simp [keptRecords, hk, hpl, c1', e3]
      · have c1 : ¬ ((o.storeIdentity || !b.cid.isIdentity) = true ∧ b.cid.byteLen > o.maxIndexCidSize) := by
          intro ⟨a, _⟩; exact hk a
        simp only [c1, ↓reduceIte, hk, hseek]
        have hpl : (pre ++ sectionBytes b).length = pre.length + sectionSize b := by
          simp [hseclen]
        rw [← hpl]
        rw [ih (pre ++ sectionBytes b) _ f (by rw [hsrc, sectionsBytes_cons]; simp) (by simpa using hf)
              (fun x hx => hok x (by simp [hx])) (by rw [hpl]; omega)
              (by rw [hpl]; rw [sectionsBytes_cons, List.length_append, hseclen] at hsz; omega)
              (by
                rcases hend with ⟨h0, ht⟩ | ⟨h0, he⟩
                · exact Or.inl ⟨h0, ht⟩
                · refine Or.inr ⟨h0, ?_⟩
                  rw [sectionsBytes_cons, List.length_append, hseclen] at he
                  rw [hpl]; omega)]
        have e3 : pre.length + sectionSize b - dOff = pre.length - dOff + sectionSize b := by omega
        simp [keptRecords, hk, hpl, e3]

end Car

namespace Car

/-- LoadIndex over a CARv1 payload (either reader kind): exactly the reference records. -/
theorem loadIndexRecords_v1 (kind : SrcKind) (o : IdxOpts) (roots : Option (List Cid)) (bs : List Block)
    (hwf : (CarHeader.mk roots 1).wf) (hmax : (encodeHeaderBody ⟨roots, 1⟩).length ≤ o.maxHeader)
    (h63 : (encodeHeaderBody ⟨roots, 1⟩).length < 2 ^ 63) (hok : ∀ b ∈ bs, b.idxOk o)
    (hsz : (payload roots bs).length < 2 ^ 63) :
    loadIndexRecords kind o (payload roots bs) = .ok (keptRecords o (headerSize ⟨roots, 1⟩) bs) := by
  unfold loadIndexRecords payload
  rw [readHeader_encode o.maxHeader ⟨roots, 1⟩ _ hwf hmax h63]
  simp only [↓reduceIte]
  have hpos : (encodeHeader ⟨roots, 1⟩ ++ sectionsBytes bs).length - (sectionsBytes bs).length
      = (encodeHeader ⟨roots, 1⟩).length := by simp
  rw [hpos]
  have := loadLoop_sections kind o (encodeHeader ⟨roots, 1⟩ ++ sectionsBytes bs) [] 0 0 bs
    (encodeHeader ⟨roots, 1⟩) [] ((encodeHeader ⟨roots, 1⟩ ++ sectionsBytes bs).length + 1)
    (by simp) (by have := sectionsBytes_length_ge bs; simp only [List.length_append]; omega) hok
    (by omega) (by simpa [payload] using hsz) (Or.inl ⟨rfl, rfl⟩)
  rw [this]
  simp [headerSize]

/-- LoadIndex over a laid-out CARv2 (any data/index padding, with or without an index after it). -/
theorem loadIndexRecords_v2 (kind : SrcKind) (o : IdxOpts) (dp ip : Nat) (roots : Option (List Cid)) (bs : List Block)
    (hasIdx fi : Bool) (index : Bytes)
    (hwf : (CarHeader.mk roots 1).wf) (hmax : (encodeHeaderBody ⟨roots, 1⟩).length ≤ o.maxHeader)
    (h63 : (encodeHeaderBody ⟨roots, 1⟩).length < 2 ^ 63) (h10 : 10 ≤ o.maxHeader)
    (lok : LayoutOK dp ip (payload roots bs).length) (hok : ∀ b ∈ bs, b.idxOk o) :
    loadIndexRecords kind o (layoutV2 dp ip (payload roots bs) hasIdx fi index)
      = .ok (keptRecords o (headerSize ⟨roots, 1⟩) bs) := by
  generalize htail : (if hasIdx then zeros ip ++ index else ([] : Bytes)) = tail
  have hp := payload_length_pos roots bs
  have hfw := finalHeader_wf dp ip (payload roots bs).length hasIdx fi hp lok
  have e : layoutV2 dp ip (payload roots bs) hasIdx fi index
      = pragma ++ ((finalHeader dp ip (payload roots bs).length hasIdx fi).bytes ++
          (zeros dp ++ (payload roots bs ++ tail))) := by
    simp [layoutV2, htail]
  have hpre : (pragma ++ ((finalHeader dp ip (payload roots bs).length hasIdx fi).bytes ++ zeros dp)).length = 51 + dp := by
    simp [pragma, pragmaBody, keyVersion, V2Header.bytes_length, zeros_length]; omega
  unfold loadIndexRecords
  rw [e, readHeader_pragma o.maxHeader _ h10]
  simp only [show ¬ ((2 : Nat) = 1) by decide, ↓reduceIte]
  rw [readV2Header_bytes _ hfw]
  simp only
  have hoff : (finalHeader dp ip (payload roots bs).length hasIdx fi).dataOffset = 51 + dp := by simp [finalHeader]
  have hsz : (finalHeader dp ip (payload roots bs).length hasIdx fi).dataSize = (payload roots bs).length := by simp [finalHeader]
  rw [hoff, hsz]
  have hsrc : pragma ++ ((finalHeader dp ip (payload roots bs).length hasIdx fi).bytes ++ (zeros dp ++ (payload roots bs ++ tail)))
      = (pragma ++ ((finalHeader dp ip (payload roots bs).length hasIdx fi).bytes ++ zeros dp)) ++ (payload roots bs ++ tail) := by simp
  have hlen : (pragma ++ ((finalHeader dp ip (payload roots bs).length hasIdx fi).bytes ++ (zeros dp ++ (payload roots bs ++ tail)))).length
      = 51 + dp + ((payload roots bs).length + tail.length) := by
    rw [hsrc, List.length_append, hpre]; simp
  have c : ¬ (kind = .plain ∧ 51 + dp > (pragma ++ ((finalHeader dp ip (payload roots bs).length hasIdx fi).bytes ++ (zeros dp ++ (payload roots bs ++ tail)))).length) := by
    rw [hlen]; omega
  simp only [c, ↓reduceIte]
  have hdrop : (pragma ++ ((finalHeader dp ip (payload roots bs).length hasIdx fi).bytes ++ (zeros dp ++ (payload roots bs ++ tail)))).drop (51 + dp)
      = encodeHeader ⟨roots, 1⟩ ++ (sectionsBytes bs ++ tail) := by
    rw [hsrc, List.drop_left' hpre]; simp [payload]
  rw [hdrop, readHeader_encode o.maxHeader ⟨roots, 1⟩ _ hwf hmax h63]
  simp only [ne_eq, not_true_eq_false, ↓reduceIte]
  have hpos : (pragma ++ ((finalHeader dp ip (payload roots bs).length hasIdx fi).bytes ++ (zeros dp ++ (payload roots bs ++ tail)))).length
      - (sectionsBytes bs ++ tail).length = 51 + dp + (encodeHeader ⟨roots, 1⟩).length := by
    rw [hlen]; simp only [payload, List.length_append]; omega
  rw [hpos]
  have hplen : ((pragma ++ ((finalHeader dp ip (payload roots bs).length hasIdx fi).bytes ++ zeros dp)) ++ encodeHeader ⟨roots, 1⟩).length
      = 51 + dp + (encodeHeader ⟨roots, 1⟩).length := by rw [List.length_append, hpre]
  have := loadLoop_sections kind o
    (pragma ++ ((finalHeader dp ip (payload roots bs).length hasIdx fi).bytes ++ (zeros dp ++ (payload roots bs ++ tail))))
    tail (51 + dp) (payload roots bs).length bs
    ((pragma ++ ((finalHeader dp ip (payload roots bs).length hasIdx fi).bytes ++ zeros dp)) ++ encodeHeader ⟨roots, 1⟩) []
    ((pragma ++ ((finalHeader dp ip (payload roots bs).length hasIdx fi).bytes ++ (zeros dp ++ (payload roots bs ++ tail)))).length + 1)
    (by simp [payload]) (by rw [hlen]; have := sectionsBytes_length_ge bs; simp only [payload, List.length_append]; omega) hok
    (by rw [hplen]; omega)
    (by rw [hplen]; have := lok.iOff; simp only [payload, List.length_append] at this ⊢; omega)
    (Or.inr ⟨by omega, by rw [hplen]; simp only [payload, List.length_append]; omega⟩)
  rw [hplen] at this
  rw [this]
  simp [headerSize]

/-- The section at a recorded offset decodes to the recorded block (C03: "the section at each
    reported offset decodes to a CID with that key"). -/
theorem section_at_offset (zeroEOF : Bool) (max : Nat) (hdr : Bytes) :
    ∀ (bs : List Block) (pre : List Block) (b : Block) (post : List Block) (tail : Bytes),
    bs = pre ++ b :: post → b.wf max →
    readNode zeroEOF max ((hdr ++ sectionsBytes bs ++ tail).drop (hdr.length + (sectionsBytes pre).length))
      = .ok (b, sectionsBytes post ++ tail) := by
  intro bs pre b post tail hbs hwf
  have : hdr ++ sectionsBytes bs ++ tail = (hdr ++ sectionsBytes pre) ++ (sectionBytes b ++ (sectionsBytes post ++ tail)) := by
    rw [hbs]; simp [sectionsBytes]
  rw [this, List.drop_left' (by simp)]
  exact readNode_section zeroEOF max b _ hwf

end Car
