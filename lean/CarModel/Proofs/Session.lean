import CarModel.Proofs.StoreRefine
import CarModel.Proofs.Finalize
/-
Whole writing sessions: any list of Puts from a fresh store stays related to the reference log, and
Finalize then leaves the layout of exactly that log. This is what `car filter`, `car get-dag --version 2`
and `car create` are (a fresh read-write blockstore, one Put per selected / loaded block, Finalize).
-/
namespace Car

/-- a sequence of single Puts on the model of the code (results ignored, as a caller that carries on) -/
def Store.puts (o : WOpts) (s : Store) (bs : List Block) : Store :=
  bs.foldl (fun s b => (s.putOne o b.cid b.data).1) s

/-- the same on the specification -/
def Spec.puts (o : WOpts) (st : Spec.State) (bs : List Block) : Spec.State :=
  bs.foldl (fun st b => (Spec.putOne o st b.cid b.data).1) st

theorem puts_refines (o : WOpts) (roots : Option (List Cid)) (bs : List Block) :
    ∀ (s : Store) (st : Spec.State), Rel o roots s st → s.finalized = false ∧ s.closed = false →
    Rel o roots (s.puts o bs) (Spec.puts o st bs) ∧
      (s.puts o bs).finalized = false ∧ (s.puts o bs).closed = false := by
  induction bs with
  | nil => intro s st rel hopen; exact ⟨rel, hopen⟩
  | cons b tl ih =>
    intro s st rel hopen
    have h1 := (putOne_refines o roots s st rel hopen b.cid b.data).2
    have hfl := putOne_flags o s b.cid b.data
    simp only [Store.puts, Spec.puts, List.foldl_cons]
    exact ih _ _ h1 ⟨by rw [hfl.1]; exact hopen.1, by rw [hfl.2]; exact hopen.2⟩

theorem spec_putOne_api (o : WOpts) (st : Spec.State) (c : Cid) (d : Bytes) :
    (Spec.putOne o st c d).1.api = st.api := by
  unfold Spec.putOne
  split
  · rfl
  · split
    · rfl
    · split <;> rfl

theorem spec_puts_api (o : WOpts) (bs : List Block) : ∀ (st : Spec.State), (Spec.puts o st bs).api = st.api := by
  induction bs with
  | nil => intro st; rfl
  | cons b tl ih =>
    intro st
    simp only [Spec.puts, List.foldl_cons]
    have := ih (Spec.putOne o st b.cid b.data).1
    simp only [Spec.puts] at this
    rw [this, spec_putOne_api]

/-- on an open blockstore the public `Put` is `putOne` -/
theorem step_put_open (o : WOpts) (s : Store) (hapi : s.api = .blockstore)
    (hopen : s.finalized = false ∧ s.closed = false) (c : Cid) (d : Bytes) :
    s.step o (.put c d) = s.putOne o c d := by
  simp [Store.step, hapi, Store.stepBlockstore, hopen.1, hopen.2]

/-- **A whole session**: a fresh read-write blockstore (CARv2 mode, any options), any list of Puts,
    Finalize: the call returns ok, and the file is pragma ++ header ++ padding ++ the CARv1 payload of
    the given roots and of exactly the blocks the reference log keeps of the list (the de-duplication,
    identity and over-long-CID rules of C04), in order ++ padding ++ the flattened index. -/
theorem session_file (o : WOpts) (roots : Option (List Cid)) (bs : List Block) (ix : Index)
    (hv2 : o.v1 = false)
    (hix : ((Store.create .blockstore o roots).1.puts o bs).idx.flatten o.codec = some ix)
    (h64 : 51 + o.dataPad + o.indexPad + ((Store.create .blockstore o roots).1.puts o bs).pos < 2 ^ 64) :
    (((Store.create .blockstore o roots).1.puts o bs).step o .finalize).2.1 = .ok ∧
    (((Store.create .blockstore o roots).1.puts o bs).step o .finalize).1.file
      = layoutV2 o.dataPad o.indexPad
          (payload roots (Spec.puts o { api := .blockstore, roots := roots.getD [] } bs).log)
          true o.storeIdentity ix.bytes := by
  have rel0 : Rel o roots (Store.create .blockstore o roots).1 { api := .blockstore, roots := roots.getD [] } :=
    ⟨create_inv .blockstore o roots, rfl, rfl, rfl, rfl⟩
  have hopen0 : (Store.create .blockstore o roots).1.finalized = false ∧ (Store.create .blockstore o roots).1.closed = false := by
    simp [Store.create]
  obtain ⟨rel, hopen⟩ := puts_refines o roots bs _ _ rel0 hopen0
  have hapi : ((Store.create .blockstore o roots).1.puts o bs).api = .blockstore := by
    rw [rel.api, spec_puts_api]
  generalize (Store.create .blockstore o roots).1.puts o bs = s at *
  generalize Spec.puts o { api := .blockstore, roots := roots.getD [] } bs = st at *
  obtain ⟨evs, he, hf⟩ := finalize_file o roots s st.log ix rel.inv hopen hv2 hix h64
  constructor
  · simp [Store.step, hapi, Store.stepBlockstore, Store.finalizeRO, Store.closeInner, hv2, hopen.1, hopen.2, he,
      Store.applyEvs]
  · simp [Store.step, hapi, Store.stepBlockstore, Store.finalizeRO, Store.closeInner, hv2, hopen.1, hopen.2, he,
      Store.applyEvs, hf]

end Car
