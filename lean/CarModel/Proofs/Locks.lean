import CarModel.Locks
namespace Car.Locks

structure CInv (c : Config) : Prop where
  wl : ∀ (i : Nat) (t : Thread), c.threads[i]? = some t → wellLockedFrom t.mode t.rest = true
  wmode : ∀ (i : Nat) (t : Thread), c.threads[i]? = some t → (t.mode = .w ↔ c.lock.writer = some i)
  rmode : ∀ (i : Nat) (t : Thread), c.threads[i]? = some t → (t.mode = .r ↔ i ∈ c.lock.readers)
  excl : c.lock.writer.isSome = true → c.lock.readers = []
  nodup : c.lock.readers.Nodup

theorem get_set {α : Type} (l : List α) (i j : Nat) (a t : α) (h : (l.set i a)[j]? = some t) :
    (j = i ∧ t = a) ∨ (j ≠ i ∧ l[j]? = some t) := by
  by_cases hij : i = j
  · subst hij
    rw [List.getElem?_set_self'] at h
    cases hl : l[i]? with
    | none => simp [hl] at h
    | some x => simp [hl] at h; exact Or.inl ⟨rfl, h.symm⟩
  · rw [List.getElem?_set_ne hij] at h
    exact Or.inr ⟨fun e => hij e.symm, h⟩

-- what the head event says about the mode, by well-lockedness
theorem mode_of_lock (m : Mode) (es : List Ev) (h : wellLockedFrom m (.lock :: es) = true) :
    m = .none ∧ wellLockedFrom .w es = true := by cases m <;> simp_all [wellLockedFrom]
theorem mode_of_rlock (m : Mode) (es : List Ev) (h : wellLockedFrom m (.rlock :: es) = true) :
    m = .none ∧ wellLockedFrom .r es = true := by cases m <;> simp_all [wellLockedFrom]
theorem mode_of_unlock (m : Mode) (es : List Ev) (h : wellLockedFrom m (.unlock :: es) = true) :
    m = .w ∧ wellLockedFrom .none es = true := by cases m <;> simp_all [wellLockedFrom]
theorem mode_of_runlock (m : Mode) (es : List Ev) (h : wellLockedFrom m (.runlock :: es) = true) :
    m = .r ∧ wellLockedFrom .none es = true := by cases m <;> simp_all [wellLockedFrom]
theorem mode_of_write (m : Mode) (f : Nat) (es : List Ev) (h : wellLockedFrom m (.write f :: es) = true) :
    m = .w ∧ wellLockedFrom .w es = true := by cases m <;> simp_all [wellLockedFrom]
theorem mode_of_read (m : Mode) (f : Nat) (es : List Ev) (h : wellLockedFrom m (.read f :: es) = true) :
    (m = .r ∨ m = .w) ∧ wellLockedFrom m es = true := by cases m <;> simp_all [wellLockedFrom]

theorem step_inv (c c' : Config) (inv : CInv c) (st : Step c c') : CInv c' := by
  cases st with
  | lock i t es hi hr hw hrd =>
    have hwl := inv.wl i t hi
    rw [hr] at hwl
    obtain ⟨hm, hwl'⟩ := mode_of_lock _ _ hwl
    refine ⟨?_, ?_, ?_, by intro _; rfl, by simp⟩
    · intro j tj hj
      rcases get_set _ _ _ _ _ hj with ⟨_, rfl⟩ | ⟨_, hj'⟩
      · exact hwl'
      · exact inv.wl j tj hj'
    · intro j tj hj
      rcases get_set _ _ _ _ _ hj with ⟨rfl, rfl⟩ | ⟨hne, hj'⟩
      · simp
      · have := (inv.wmode j tj hj')
        simp only [hw] at this
        constructor
        · intro h; exact absurd (this.mp h) (by simp)
        · intro h; simp only [Option.some.injEq] at h; exact absurd h.symm hne
    · intro j tj hj
      rcases get_set _ _ _ _ _ hj with ⟨rfl, rfl⟩ | ⟨_, hj'⟩
      · simp
      · have := inv.rmode j tj hj'
        simp only [hrd] at this
        simp only [List.not_mem_nil, iff_false]
        intro h; exact absurd (this.mp h) (by simp)
  | rlock i t es hi hr hw =>
    have hwl := inv.wl i t hi
    rw [hr] at hwl
    obtain ⟨hm, hwl'⟩ := mode_of_rlock _ _ hwl
    have hni : i ∉ c.lock.readers := by
      intro h; have := (inv.rmode i t hi).mpr h; rw [hm] at this; cases this
    refine ⟨?_, ?_, ?_, by simp [hw], by simp [inv.nodup, hni]⟩
    · intro j tj hj
      rcases get_set _ _ _ _ _ hj with ⟨_, rfl⟩ | ⟨_, hj'⟩
      · exact hwl'
      · exact inv.wl j tj hj'
    · intro j tj hj
      rcases get_set _ _ _ _ _ hj with ⟨rfl, rfl⟩ | ⟨_, hj'⟩
      · simp [hw]
      · exact inv.wmode j tj hj'
    · intro j tj hj
      rcases get_set _ _ _ _ _ hj with ⟨rfl, rfl⟩ | ⟨hne, hj'⟩
      · simp
      · have := inv.rmode j tj hj'
        simp only [List.mem_cons]
        constructor
        · intro h; exact Or.inr (this.mp h)
        · intro h; rcases h with h | h
          · exact absurd h hne
          · exact this.mpr h
  | unlock i t es hi hr hw =>
    have hwl := inv.wl i t hi
    rw [hr] at hwl
    obtain ⟨hm, hwl'⟩ := mode_of_unlock _ _ hwl
    have hrd : c.lock.readers = [] := inv.excl (by simp [hw])
    refine ⟨?_, ?_, ?_, by simp, inv.nodup⟩
    · intro j tj hj
      rcases get_set _ _ _ _ _ hj with ⟨_, rfl⟩ | ⟨_, hj'⟩
      · exact hwl'
      · exact inv.wl j tj hj'
    · intro j tj hj
      rcases get_set _ _ _ _ _ hj with ⟨rfl, rfl⟩ | ⟨hne, hj'⟩
      · simp
      · have := inv.wmode j tj hj'
        simp only [hw, Option.some.injEq] at this
        constructor
        · intro h; exact absurd (this.mp h).symm hne
        · intro h; simp at h
    · intro j tj hj
      rcases get_set _ _ _ _ _ hj with ⟨rfl, rfl⟩ | ⟨_, hj'⟩
      · simp [hrd]
      · exact inv.rmode j tj hj'
  | runlock i t es hi hr hin =>
    have hwl := inv.wl i t hi
    rw [hr] at hwl
    obtain ⟨hm, hwl'⟩ := mode_of_runlock _ _ hwl
    have hnw : c.lock.writer = none := by
      cases hw : c.lock.writer with
      | none => rfl
      | some k => have := inv.excl (by simp [hw]); rw [this] at hin; cases hin
    refine ⟨?_, ?_, ?_, ?_, inv.nodup.erase i⟩
    · intro j tj hj
      rcases get_set _ _ _ _ _ hj with ⟨_, rfl⟩ | ⟨_, hj'⟩
      · exact hwl'
      · exact inv.wl j tj hj'
    · intro j tj hj
      rcases get_set _ _ _ _ _ hj with ⟨rfl, rfl⟩ | ⟨_, hj'⟩
      · simp [hnw]
      · exact inv.wmode j tj hj'
    · intro j tj hj
      rcases get_set _ _ _ _ _ hj with ⟨rfl, rfl⟩ | ⟨hne, hj'⟩
      · constructor
        · intro h; cases h
        · intro h; exact absurd rfl ((List.Nodup.mem_erase_iff inv.nodup).mp h).1
      · have := inv.rmode j tj hj'
        rw [this, List.Nodup.mem_erase_iff inv.nodup]
        constructor
        · intro h; exact ⟨hne, h⟩
        · intro h; exact h.2
    · intro h; simp [hnw] at h
  | access i t e es hi hr hacc =>
    have hwl := inv.wl i t hi
    rw [hr] at hwl
    have hwl' : wellLockedFrom t.mode es = true := by
      obtain ⟨f, hf | hf⟩ := hacc
      · subst hf; exact (mode_of_read _ _ _ hwl).2
      · subst hf; have := mode_of_write _ _ _ hwl; rw [this.1]; exact this.2
    refine ⟨?_, ?_, ?_, inv.excl, inv.nodup⟩
    · intro j tj hj
      rcases get_set _ _ _ _ _ hj with ⟨_, rfl⟩ | ⟨_, hj'⟩
      · exact hwl'
      · exact inv.wl j tj hj'
    · intro j tj hj
      rcases get_set _ _ _ _ _ hj with ⟨rfl, rfl⟩ | ⟨_, hj'⟩
      · exact inv.wmode j t hi
      · exact inv.wmode j tj hj'
    · intro j tj hj
      rcases get_set _ _ _ _ _ hj with ⟨rfl, rfl⟩ | ⟨_, hj'⟩
      · exact inv.rmode j t hi
      · exact inv.rmode j tj hj'

theorem reachable_inv (c0 c : Config) (h0 : CInv c0) (hr : Reachable c0 c) : CInv c := by
  induction hr with
  | refl => exact h0
  | step c c' _ st ih => exact step_inv c c' ih st

/-- no race in any configuration satisfying the invariant -/
theorem inv_no_race (c : Config) (inv : CInv c) : ¬ Race c := by
  intro ⟨i, j, ti, tj, f, ei, ej, esi, esj, hij, hi, hj, hri, hrj, hconf⟩
  have hwi := inv.wl i ti hi
  have hwj := inv.wl j tj hj
  rw [hri] at hwi
  rw [hrj] at hwj
  -- whoever writes holds the exclusive lock; the other holds some lock: impossible
  have key : ∀ (a b : Nat) (ta tb : Thread), a ≠ b → c.threads[a]? = some ta → c.threads[b]? = some tb →
      ta.mode = .w → (tb.mode = .r ∨ tb.mode = .w) → False := by
    intro a b ta tb hab ha hb hma hmb
    have hwa := (inv.wmode a ta ha).mp hma
    rcases hmb with hmb | hmb
    · have := (inv.rmode b tb hb).mp hmb
      rw [inv.excl (by simp [hwa])] at this; cases this
    · have := (inv.wmode b tb hb).mp hmb
      rw [hwa] at this; simp only [Option.some.injEq] at this; exact hab this
  rcases hconf with ⟨hei, hej⟩ | ⟨hej, hei⟩
  · subst hei
    have hmi := (mode_of_write _ _ _ hwi).1
    rcases hej with hej | hej
    · subst hej; exact key i j ti tj hij hi hj hmi (Or.inr (mode_of_write _ _ _ hwj).1)
    · subst hej; exact key i j ti tj hij hi hj hmi (mode_of_read _ _ _ hwj).1
  · subst hej hei
    exact key j i tj ti (fun e => hij e.symm) hj hi (mode_of_write _ _ _ hwj).1 (mode_of_read _ _ _ hwi).1

/-- the initial configuration of threads about to run well-locked methods -/
def initial (methods : List (List Ev)) : Config :=
  { lock := {}, threads := methods.map fun es => ⟨.none, es⟩ }

theorem initial_inv (methods : List (List Ev)) (h : ∀ es ∈ methods, wellLocked es = true) : CInv (initial methods) := by
  refine ⟨?_, ?_, ?_, by simp [initial], by simp [initial]⟩
  · intro i t hi
    simp only [initial, List.getElem?_map] at hi
    cases hm : methods[i]? with
    | none => simp [hm] at hi
    | some es =>
      simp only [hm, Option.map_some, Option.some.injEq] at hi
      subst hi
      exact h es (List.mem_of_getElem? hm)
  · intro i t hi
    simp only [initial, List.getElem?_map] at hi
    cases hm : methods[i]? with
    | none => simp [hm] at hi
    | some es => simp only [hm, Option.map_some, Option.some.injEq] at hi; subst hi; simp [initial]
  · intro i t hi
    simp only [initial, List.getElem?_map] at hi
    cases hm : methods[i]? with
    | none => simp [hm] at hi
    | some es => simp only [hm, Option.map_some, Option.some.injEq] at hi; subst hi; simp [initial]

end Car.Locks

namespace Car.Locks

/-- holders of the lock are live threads -/
structure HInv (c : Config) : Prop where
  wvalid : ∀ i, c.lock.writer = some i → ∃ t, c.threads[i]? = some t
  rvalid : ∀ i, i ∈ c.lock.readers → ∃ t, c.threads[i]? = some t

theorem set_get_some {α : Type} (l : List α) (i j : Nat) (a t : α) (h : l[j]? = some t) : ∃ t', (l.set i a)[j]? = some t' := by
  by_cases hij : i = j
  · subst hij
    have : i < l.length := by
      cases Nat.lt_or_ge i l.length with
      | inl h' => exact h'
      | inr h' => rw [List.getElem?_eq_none h'] at h; cases h
    exact ⟨a, by rw [List.getElem?_set_self this]⟩
  · exact ⟨t, by rw [List.getElem?_set_ne hij]; exact h⟩

theorem step_hinv (c c' : Config) (h : HInv c) (st : Step c c') : HInv c' := by
  cases st with
  | lock i t es hi hr hw hrd =>
    refine ⟨?_, by intro j hj; simp at hj⟩
    intro j hj
    simp only [Option.some.injEq] at hj
    subst hj
    exact set_get_some _ _ _ _ _ hi
  | rlock i t es hi hr hw =>
    refine ⟨?_, ?_⟩
    · intro j hj; obtain ⟨tj, htj⟩ := h.wvalid j hj; exact set_get_some _ _ _ _ _ htj
    · intro j hj
      simp only [List.mem_cons] at hj
      rcases hj with rfl | hj
      · exact set_get_some _ _ _ _ _ hi
      · obtain ⟨tj, htj⟩ := h.rvalid j hj; exact set_get_some _ _ _ _ _ htj
  | unlock i t es hi hr hw =>
    refine ⟨by intro j hj; simp at hj, ?_⟩
    intro j hj; obtain ⟨tj, htj⟩ := h.rvalid j hj; exact set_get_some _ _ _ _ _ htj
  | runlock i t es hi hr hin =>
    refine ⟨?_, ?_⟩
    · intro j hj; obtain ⟨tj, htj⟩ := h.wvalid j hj; exact set_get_some _ _ _ _ _ htj
    · intro j hj; obtain ⟨tj, htj⟩ := h.rvalid j (List.mem_of_mem_erase hj); exact set_get_some _ _ _ _ _ htj
  | access i t e es hi hr hacc =>
    refine ⟨?_, ?_⟩
    · intro j hj; obtain ⟨tj, htj⟩ := h.wvalid j hj; exact set_get_some _ _ _ _ _ htj
    · intro j hj; obtain ⟨tj, htj⟩ := h.rvalid j hj; exact set_get_some _ _ _ _ _ htj

/-- **Deadlock freedom**: as long as some thread has not finished, some thread can take a step
    (one lock, nothing blocks while holding it). -/
theorem progress (c : Config) (inv : CInv c) (hinv : HInv c)
    (hlive : ∃ (i : Nat) (t : Thread), c.threads[i]? = some t ∧ t.rest ≠ []) : ∃ c', Step c c' := by
  -- a thread that holds the lock can always move
  by_cases hheld : ∃ (i : Nat) (t : Thread), c.threads[i]? = some t ∧ t.mode ≠ Mode.none
  · obtain ⟨i, t, hi, hm⟩ := hheld
    have hwl := inv.wl i t hi
    cases hmode : t.mode with
    | none => exact absurd hmode hm
    | w =>
      rw [hmode] at hwl
      cases hrest : t.rest with
      | nil => rw [hrest] at hwl; simp [wellLockedFrom] at hwl
      | cons e es =>
        rw [hrest] at hwl
        cases e with
        | unlock => exact ⟨_, Step.unlock c i t es hi hrest ((inv.wmode i t hi).mp hmode)⟩
        | read f => exact ⟨_, Step.access c i t (.read f) es hi hrest ⟨f, Or.inl rfl⟩⟩
        | write f => exact ⟨_, Step.access c i t (.write f) es hi hrest ⟨f, Or.inr rfl⟩⟩
        | lock => simp [wellLockedFrom] at hwl
        | rlock => simp [wellLockedFrom] at hwl
        | runlock => simp [wellLockedFrom] at hwl
    | r =>
      rw [hmode] at hwl
      cases hrest : t.rest with
      | nil => rw [hrest] at hwl; simp [wellLockedFrom] at hwl
      | cons e es =>
        rw [hrest] at hwl
        cases e with
        | runlock => exact ⟨_, Step.runlock c i t es hi hrest ((inv.rmode i t hi).mp hmode)⟩
        | read f => exact ⟨_, Step.access c i t (.read f) es hi hrest ⟨f, Or.inl rfl⟩⟩
        | write f => simp [wellLockedFrom] at hwl
        | lock => simp [wellLockedFrom] at hwl
        | rlock => simp [wellLockedFrom] at hwl
        | unlock => simp [wellLockedFrom] at hwl
  · -- nobody holds the lock: it is free, and the live thread is about to acquire it
    have hfree : ∀ (i : Nat) (t : Thread), c.threads[i]? = some t → t.mode = Mode.none := by
      intro i t hi
      cases hmm : t.mode with
      | none => rfl
      | r => exact absurd ⟨i, t, hi, by simp [hmm]⟩ hheld
      | w => exact absurd ⟨i, t, hi, by simp [hmm]⟩ hheld
    have hw : c.lock.writer = none := by
      cases hwr : c.lock.writer with
      | none => rfl
      | some k =>
        obtain ⟨tk, htk⟩ := hinv.wvalid k hwr
        have := (inv.wmode k tk htk).mpr hwr
        rw [hfree k tk htk] at this; cases this
    have hrd : c.lock.readers = [] := by
      cases hr : c.lock.readers with
      | nil => rfl
      | cons k ks =>
        obtain ⟨tk, htk⟩ := hinv.rvalid k (by rw [hr]; simp)
        have := (inv.rmode k tk htk).mpr (by rw [hr]; simp)
        rw [hfree k tk htk] at this; cases this
    obtain ⟨i, t, hi, hne⟩ := hlive
    have hwl := inv.wl i t hi
    rw [hfree i t hi] at hwl
    cases hrest : t.rest with
    | nil => exact absurd hrest hne
    | cons e es =>
      rw [hrest] at hwl
      cases e with
      | lock => exact ⟨_, Step.lock c i t es hi hrest hw hrd⟩
      | rlock => exact ⟨_, Step.rlock c i t es hi hrest hw⟩
      | unlock => simp [wellLockedFrom] at hwl
      | runlock => simp [wellLockedFrom] at hwl
      | read f => simp [wellLockedFrom] at hwl
      | write f => simp [wellLockedFrom] at hwl

theorem initial_hinv (methods : List (List Ev)) : HInv (initial methods) :=
  ⟨by intro i h; simp [initial] at h, by intro i h; simp [initial] at h⟩

theorem reachable_hinv (c0 c : Config) (h0 : HInv c0) (hr : Reachable c0 c) : HInv c := by
  induction hr with
  | refl => exact h0
  | step c c' _ st ih => exact step_hinv c c' ih st

theorem after_release (es : List Ev) (h1 : wellLockedFrom .none es = true) (h2 : singleSectionFrom true es = true) :
    es = [] := by
  cases es with
  | nil => rfl
  | cons e tl => cases e <;> simp_all [wellLockedFrom, singleSectionFrom]

theorem section_w : ∀ (es : List Ev), wellLockedFrom .w es = true → singleSectionFrom false es = true →
    ∃ body, es = body ++ [.unlock] ∧ body.all Ev.isAccess = true := by
  intro es
  induction es with
  | nil => intro h; simp [wellLockedFrom] at h
  | cons e tl ih =>
    intro h1 h2
    cases e with
    | unlock =>
      simp only [wellLockedFrom, singleSectionFrom] at h1 h2
      exact ⟨[], by rw [after_release tl h1 h2]; rfl, rfl⟩
    | read f =>
      simp only [wellLockedFrom, singleSectionFrom] at h1 h2
      obtain ⟨b, hb, ha⟩ := ih h1 h2
      exact ⟨.read f :: b, by rw [hb]; rfl, by simp [Ev.isAccess, ha]⟩
    | write f =>
      simp only [wellLockedFrom, singleSectionFrom] at h1 h2
      obtain ⟨b, hb, ha⟩ := ih h1 h2
      exact ⟨.write f :: b, by rw [hb]; rfl, by simp [Ev.isAccess, ha]⟩
    | lock => simp [wellLockedFrom] at h1
    | rlock => simp [wellLockedFrom] at h1
    | runlock => simp [wellLockedFrom] at h1

theorem section_r : ∀ (es : List Ev), wellLockedFrom .r es = true → singleSectionFrom false es = true →
    ∃ body, es = body ++ [.runlock] ∧ body.all Ev.isRead = true := by
  intro es
  induction es with
  | nil => intro h; simp [wellLockedFrom] at h
  | cons e tl ih =>
    intro h1 h2
    cases e with
    | runlock =>
      simp only [wellLockedFrom, singleSectionFrom] at h1 h2
      exact ⟨[], by rw [after_release tl h1 h2]; rfl, rfl⟩
    | read f =>
      simp only [wellLockedFrom, singleSectionFrom] at h1 h2
      obtain ⟨b, hb, ha⟩ := ih h1 h2
      exact ⟨.read f :: b, by rw [hb]; rfl, by simp [Ev.isRead, ha]⟩
    | write f => simp [wellLockedFrom] at h1
    | lock => simp [wellLockedFrom] at h1
    | rlock => simp [wellLockedFrom] at h1
    | unlock => simp [wellLockedFrom] at h1

/-- A well-locked single-section method path is empty, or one exclusive block of accesses, or one
    shared block of reads — nothing before, between or after. -/
theorem single_section_shape (es : List Ev) (h1 : wellLocked es = true) (h2 : singleSection es = true) :
    es = [] ∨ (∃ body, es = .lock :: body ++ [.unlock] ∧ body.all Ev.isAccess = true) ∨
    (∃ body, es = .rlock :: body ++ [.runlock] ∧ body.all Ev.isRead = true) := by
  cases es with
  | nil => exact .inl rfl
  | cons e tl =>
    right
    cases e with
    | lock =>
      simp only [wellLocked, wellLockedFrom, singleSection, singleSectionFrom, Bool.not_false, Bool.true_and] at h1 h2
      obtain ⟨b, hb, ha⟩ := section_w tl h1 h2
      exact .inl ⟨b, by rw [hb]; rfl, ha⟩
    | rlock =>
      simp only [wellLocked, wellLockedFrom, singleSection, singleSectionFrom, Bool.not_false, Bool.true_and] at h1 h2
      obtain ⟨b, hb, ha⟩ := section_r tl h1 h2
      exact .inr ⟨b, by rw [hb]; rfl, ha⟩
    | unlock => simp [wellLocked, wellLockedFrom] at h1
    | runlock => simp [wellLocked, wellLockedFrom] at h1
    | read f => simp [wellLocked, wellLockedFrom] at h1
    | write f => simp [wellLocked, wellLockedFrom] at h1
end Car.Locks
