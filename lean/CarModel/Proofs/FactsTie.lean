import CarModel.Gen.Facts
import CarModel.V2
/-
The regenerated tie (DESIGN 3.1): the numbers and tables the model is written with are the ones
`/repo`'s sources state *now*. `Gen/Facts.lean` is rewritten from the working tree on every check
run; an edit to go-car that changes one of them makes the matching theorem below fail to compile,
which breaks every property module that imports this file.
-/
namespace Car.FactsTie
open Car

theorem pragmaSize_tie : Facts.pragmaSize = some pragmaSize := rfl
theorem headerSize_tie : Facts.headerSize = some v2HeaderSize := rfl
theorem characteristicsSize_tie : Facts.characteristicsSize = some charSize := rfl
theorem fullyIndexedBit_tie : Facts.fullyIndexedCharPos = some fullyIndexedBit := rfl
theorem pragma_tie : Facts.pragma = pragma := by decide
theorem pragma_length_tie : Facts.pragma.length = pragmaSize := by decide
theorem maxHeader_tie : Facts.defaultMaxAllowedHeaderSize = some ({} : ReadOpts).maxHeader := rfl
theorem maxSection_tie : Facts.defaultMaxAllowedSectionSize = some ({} : ReadOpts).maxSection := rfl
theorem maxDigest_tie : Facts.indexMaxWidth = some maxDigestAlloc := rfl
/-- The framing helpers encode the section length into a fixed buffer of at least 8 bytes (or into
    none at all), wherever in the file that buffer is made: lengths below 2^56 fit
    (`binary.PutUvarint` panics beyond), comfortably above every configured section limit. -/
def bufOK : Option Nat → Bool
  | none => true          -- no fixed buffer: nothing to overflow
  | some n => 8 ≤ n

theorem ldWriteBuf_tie : bufOK Facts.ldWriteBufSize = true ∧ bufOK Facts.rootLdWriteBufSize = true := ⟨by decide, by decide⟩

end Car.FactsTie
