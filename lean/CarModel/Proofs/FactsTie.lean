import CarModel.Gen.Facts
import CarModel.V2
/-
The regenerated tie (DESIGN 3.1): the numbers and tables the model is written with are the ones
`/repo`'s sources state *now*. `Gen/Facts.lean` is rewritten from the working tree on every check
run; an edit to go-car that changes one of them makes the matching theorem below fail to compile,
which breaks every property module that imports this file.
-/
namespace Car.FactsTie
open Car

theorem pragmaSize_tie : Facts.pragmaSize = some pragmaSize := rfl
theorem headerSize_tie : Facts.headerSize = some v2HeaderSize := rfl
theorem characteristicsSize_tie : Facts.characteristicsSize = some charSize := rfl
theorem fullyIndexedBit_tie : Facts.fullyIndexedCharPos = some fullyIndexedBit := rfl
theorem pragma_tie : Facts.pragma = pragma := by decide
theorem pragma_length_tie : Facts.pragma.length = pragmaSize := by decide
theorem maxHeader_tie : Facts.defaultMaxAllowedHeaderSize = some ({} : ReadOpts).maxHeader := rfl
theorem maxSection_tie : Facts.defaultMaxAllowedSectionSize = some ({} : ReadOpts).maxSection := rfl
theorem maxDigest_tie : Facts.indexMaxWidth = some maxDigestAlloc := rfl
/-- The framing helpers encode the section length into a fixed buffer of at least 8 bytes (or into
    none at all), wherever in the file that buffer is made: lengths below 2^56 fit
    (`binary.PutUvarint` panics beyond), comfortably above every configured section limit. -/
def bufOK : Option Nat → Bool
  | none => true          -- no fixed buffer: nothing to overflow
  | some n => 8 ≤ n

theorem ldWriteBuf_tie : bufOK Facts.ldWriteBufSize = true ∧ bufOK Facts.rootLdWriteBufSize = true := ⟨by decide, by decide⟩

end Car.FactsTie

/-! The CARv2 header arithmetic of `v2/car.go`, translated statement by statement from the working tree
    (`Facts.Tr`, extract/translate.go): the hand-written model computes the same functions. -/
namespace Car
open Car.Facts

/-- the model's header seen as the translated structure (the characteristics are not touched by the arithmetic) -/
def V2Header.toTr (h : V2Header) : Tr.Hdr := { dataOffset := h.dataOffset, dataSize := h.dataSize, indexOffset := h.indexOffset }

theorem tr_newHeader (n : Nat) : Tr.newHeader n = (V2Header.new n).toTr := by
  simp [Tr.newHeader, V2Header.new, V2Header.toTr, Tr.w, u64, pragmaSize, v2HeaderSize] <;> omega

theorem tr_withIndexPadding (h : V2Header) (p : Nat) : Tr.withIndexPadding h.toTr p = (h.withIndexPadding p).toTr := by
  simp [Tr.withIndexPadding, V2Header.withIndexPadding, V2Header.toTr, Tr.w, u64] <;> omega

theorem tr_withDataPadding (h : V2Header) (p : Nat) : Tr.withDataPadding h.toTr p = (h.withDataPadding p).toTr := by
  simp [Tr.withDataPadding, V2Header.withDataPadding, V2Header.toTr, Tr.w, u64, pragmaSize, v2HeaderSize] <;> omega

theorem tr_withDataSize (h : V2Header) (n : Nat) : Tr.withDataSize h.toTr n = (h.withDataSize n).toTr := by
  simp [Tr.withDataSize, V2Header.withDataSize, V2Header.toTr, Tr.w, u64] <;> omega

theorem tr_hasIndex (h : V2Header) : Tr.hasIndex h.toTr = h.hasIndex := by
  simp [Tr.hasIndex, V2Header.hasIndex, V2Header.toTr]

/-- every function of the fragment was found and lies inside the translated fragment -/
theorem tr_complete : Tr.translated_newHeader = true ∧ Tr.translated_withIndexPadding = true ∧
    Tr.translated_withDataPadding = true ∧ Tr.translated_withDataSize = true ∧ Tr.translated_hasIndex = true := by decide

end Car
