import CarModel.Proofs.CidReader
import CarModel.Proofs.Truncation
namespace Car

/-- Reading a varint from a cut of `uvarint n ++ rest`: an error if the cut falls inside the
    varint, otherwise the value and the (cut) remainder. -/
theorem readUvarint_cut (n : Nat) (h : n < 2 ^ 63) (rest : Bytes) (m : Nat) :
    (m < (uvarint n).length ∧ ∃ e, readUvarint ((uvarint n ++ rest).take m) = .error e) ∨
    ((uvarint n).length ≤ m ∧
      readUvarint ((uvarint n ++ rest).take m) = .ok (n, rest.take (m - (uvarint n).length))) := by
  by_cases hm : m < (uvarint n).length
  · left
    refine ⟨hm, ?_⟩
    rw [List.take_append_of_le_length (by omega)]
    by_cases h0 : m = 0
    · subst h0; exact ⟨.eof, by simp [readUvarint, readUvarintAux]⟩
    · exact ⟨.unexpectedEOF, readUvarint_uvarint_prefix n m h hm (by omega)⟩
  · right
    refine ⟨by omega, ?_⟩
    rw [List.take_append, List.take_of_length_le (by omega)]
    exact readUvarint_uvarint n h _

/-- `CidFromReader` on a proper prefix of a CID's bytes fails (clean `eof` only for the empty prefix). -/
theorem cidFromReader_prefix (c : Cid) (hwf : c.wf) (m : Nat) (hm : m < c.byteLen) :
    ∃ e, cidFromReader (c.bytes.take m) = .error e := by
  rcases hwf with ⟨hv, hcodec, hcode, hlen⟩ | ⟨hv, hcodec, hcode, hlen⟩
  · -- CIDv0: 0x12 0x20 ++ 32 bytes
    obtain ⟨v, cd, mc, dig⟩ := c
    simp only at hv hcodec hcode hlen
    subst hv hcodec hcode
    have hb : Cid.bytes ⟨0, 0x70, 0x12, dig⟩ = 0x12 :: 0x20 :: dig := by
      simp [Cid.bytes, Cid.mhBytes, hlen, uvarint_small]
    have hbl : Cid.byteLen ⟨0, 0x70, 0x12, dig⟩ = 34 := by simp [Cid.byteLen, hb, hlen]
    rw [hbl] at hm
    rw [hb]
    cases m with
    | zero => exact ⟨.eof, by simp [cidFromReader, readUvarint, readUvarintAux]⟩
    | succ m' =>
      refine ⟨.invalid, ?_⟩
      unfold cidFromReader
      have r1 : readUvarint ((0x12 :: 0x20 :: dig).take (m' + 1)) = .ok (0x12, (0x20 :: dig).take m') := by
        simp only [List.take_succ_cons]
        have := readUvarint_uvarint 0x12 (by decide) ((0x20 :: dig).take m')
        simpa [uvarint_small] using this
      rw [r1]
      simp only [↓reduceIte]
      have : ((0x20 :: dig).take m').length < 33 := by
        simp only [List.length_take, List.length_cons, hlen]; omega
      rw [if_pos this]
  · -- CIDv1: 1 ++ codec ++ code ++ len ++ digest
    obtain ⟨v, cd, mc, dig⟩ := c
    simp only at hv hcodec hcode hlen
    subst hv
    have hdl : dig.length < 2 ^ 63 := by
      have : (2:Nat)^31 < 2^63 := by decide
      omega
    have hb : Cid.bytes ⟨1, cd, mc, dig⟩ = uvarint 1 ++ (uvarint cd ++ (uvarint mc ++ (uvarint dig.length ++ dig))) := by
      simp [Cid.bytes, Cid.mhBytes]
    have hbl : Cid.byteLen ⟨1, cd, mc, dig⟩
        = (uvarint 1).length + ((uvarint cd).length + ((uvarint mc).length + ((uvarint dig.length).length + dig.length))) := by
      simp [Cid.byteLen, hb]
    rw [hbl] at hm
    rw [hb]
    unfold cidFromReader
    rcases readUvarint_cut 1 (by decide) _ m with ⟨_, e, he⟩ | ⟨h1, he⟩
    · rw [he]; cases e <;> exact ⟨_, rfl⟩
    · rw [he]
      simp only [show ¬ ((1 : Nat) = 0x12) by decide, ↓reduceIte, ne_eq, not_true_eq_false]
      rcases readUvarint_cut cd hcodec _ (m - (uvarint 1).length) with ⟨_, e, he2⟩ | ⟨h2, he2⟩
      · rw [he2]; exact ⟨_, rfl⟩
      · rw [he2]
        simp only
        rcases readUvarint_cut mc hcode _ (m - (uvarint 1).length - (uvarint cd).length) with ⟨_, e, he3⟩ | ⟨h3, he3⟩
        · rw [he3]; exact ⟨_, rfl⟩
        · rw [he3]
          simp only
          rcases readUvarint_cut dig.length hdl dig
              (m - (uvarint 1).length - (uvarint cd).length - (uvarint mc).length) with ⟨_, e, he4⟩ | ⟨h4, he4⟩
          · rw [he4]; exact ⟨_, rfl⟩
          · rw [he4]
            simp only
            by_cases hbig : dig.length > maxDigestAlloc
            · simp only [hbig, ↓reduceIte]; exact ⟨_, rfl⟩
            · simp only [hbig, ↓reduceIte]
              have : (dig.take (m - (uvarint 1).length - (uvarint cd).length - (uvarint mc).length
                  - (uvarint dig.length).length)).length < dig.length := by
                simp only [List.length_take]; omega
              simp only [this, ↓reduceIte]
              exact ⟨_, rfl⟩

end Car
