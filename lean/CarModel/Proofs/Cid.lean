import CarModel.Cid
import CarModel.Proofs.Varint
namespace Car

theorem uvarint_small (n : Nat) (h : n < 128) : uvarint n = [UInt8.ofNat n] := by
  unfold uvarint; simp [h]

theorem mhFromBytes_mhBytes (code : Nat) (dig rest : Bytes)
    (hc : code < 2 ^ 63) (hl : dig.length < 2 ^ 31) :
    mhFromBytes (uvarint code ++ uvarint dig.length ++ dig ++ rest)
      = .ok ((uvarint code).length + (uvarint dig.length).length + dig.length, code, dig) := by
  unfold mhFromBytes
  have hlen : ¬ ((uvarint code ++ uvarint dig.length ++ dig ++ rest).length < 2) := by
    have h1 := uvarint_length code; have h2 := uvarint_length dig.length
    have p1 := uvarintSize_pos code; have p2 := uvarintSize_pos dig.length
    simp only [List.length_append]; omega
  simp only [hlen, ↓reduceIte]
  have e1 : uvarint code ++ uvarint dig.length ++ dig ++ rest
      = uvarint code ++ (uvarint dig.length ++ (dig ++ rest)) := by simp
  rw [e1, readUvarint_uvarint code hc]
  simp only
  rw [readUvarint_uvarint dig.length (by have : (2:Nat)^31 < 2^63 := by decide
                                         omega)]
  simp only
  have h2 : ¬ (dig.length > 2 ^ 31 - 1) := by omega
  have h3 : ¬ (dig.length > (dig ++ rest).length) := by simp
  simp only [h2, h3, ↓reduceIte]
  have : (dig ++ rest).take dig.length = dig := List.take_left' rfl
  rw [this]
  congr 2
  simp only [List.length_append]; omega

/-- `CidFromBytes` inverts `Cid.Bytes()` for every well-formed CID, whatever follows. -/
theorem cidFromBytes_bytes (c : Cid) (hwf : c.wf) (rest : Bytes) :
    cidFromBytes (c.bytes ++ rest) = .ok (c.byteLen, c) := by
  rcases hwf with ⟨hv, hcodec, hcode, hlen⟩ | ⟨hv, hcodec, hcode, hlen⟩
  · -- CIDv0
    obtain ⟨v, cd, mc, dig⟩ := c
    simp only at hv hcodec hcode hlen
    subst hv hcodec hcode
    have hb : Cid.bytes ⟨0, 0x70, 0x12, dig⟩ = 0x12 :: 0x20 :: dig := by
      simp [Cid.bytes, Cid.mhBytes, hlen, uvarint_small]
    have : dig ≠ [] := by intro h; simp [h] at hlen
    obtain ⟨d0, dtl, rfl⟩ := List.exists_cons_of_ne_nil this
    simp only [Cid.byteLen, hb]
    simp only [List.cons_append, cidFromBytes]
    have hl34 : ¬ ((18 :: 32 :: d0 :: (dtl ++ rest)).length < 34) := by
      simp only [List.length_cons, List.length_append] at hlen ⊢; omega
    simp only [hl34, ↓reduceIte]
    have : ((18 : UInt8) :: 32 :: d0 :: (dtl ++ rest)).drop 2 = (d0 :: dtl) ++ rest := by simp
    rw [this, List.take_left' hlen]
    simp [hlen]
  · -- CIDv1
    obtain ⟨v, cd, mc, dig⟩ := c
    simp only at hv hcodec hcode hlen
    subst hv
    have hb : Cid.bytes ⟨1, cd, mc, dig⟩ = 1 :: (uvarint cd ++ (uvarint mc ++ uvarint dig.length ++ dig)) := by
      simp [Cid.bytes, Cid.mhBytes, uvarint_small]
    simp only [Cid.byteLen, hb, List.cons_append]
    unfold cidFromBytes
    split
    · rename_i heq; simp at heq
    · have r1 : readUvarint (1 :: (uvarint cd ++ (uvarint mc ++ uvarint dig.length ++ dig) ++ rest))
          = .ok (1, uvarint cd ++ (uvarint mc ++ uvarint dig.length ++ dig) ++ rest) := by
        have := readUvarint_uvarint 1 (by decide) (uvarint cd ++ (uvarint mc ++ uvarint dig.length ++ dig) ++ rest)
        simpa [uvarint_small] using this
      rw [r1]
      simp only [ne_eq, not_true_eq_false, ↓reduceIte]
      have e2 : uvarint cd ++ (uvarint mc ++ uvarint dig.length ++ dig) ++ rest
          = uvarint cd ++ (uvarint mc ++ uvarint dig.length ++ dig ++ rest) := by simp
      rw [e2, readUvarint_uvarint cd hcodec]
      simp only
      rw [mhFromBytes_mhBytes mc dig rest hcode hlen]
      simp only [List.length_cons, List.length_append]
      congr 2
      omega

theorem cidCast_bytes (c : Cid) (hwf : c.wf) : cidCast c.bytes = some c := by
  have := cidFromBytes_bytes c hwf []
  simp only [List.append_nil] at this
  simp [cidCast, this, Cid.byteLen]

end Car
