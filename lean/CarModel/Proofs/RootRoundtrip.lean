import CarModel.RootReader
import CarModel.Proofs.Container
import CarModel.Proofs.CidReader
/-
The root module's reader (`car.NewCarReader` + `Next`, `LoadCar`): stdlib varint decoder, fixed 32 MiB
limit, CID parsed with `CidFromReader` over the section bytes. A payload laid out by any writer reads back
through it as its roots and exactly its blocks, clean EOF.
-/
namespace Car

/-- the stdlib decoder inverts the LEB128 encoder (below 2^63 no encoding reaches the tenth byte) -/
theorem readStdAux_uvarint (n : Nat) : ∀ (i acc : Nat) (rest : Bytes),
    n < 2 ^ (63 - 7 * i) → i ≤ 8 →
    readUvarintStdAux i acc (uvarint n ++ rest) = .ok (acc + n * 2 ^ (7 * i), rest) := by
  induction n using Nat.strongRecOn with
  | _ n ih =>
    intro i acc rest hn hi
    unfold uvarint
    split
    · rename_i h
      have h1 : (UInt8.ofNat n).toNat = n := toNat_ofNat_lt n (by omega)
      simp only [List.cons_append, List.nil_append, readUvarintStdAux, h1]
      have : ¬ (i ≥ 10 ∨ (i = 9 ∧ n > 1)) := by omega
      simp only [this, ↓reduceIte, h]
    · rename_i h
      have hlt : n % 128 + 128 < 256 := by omega
      have h1 : (UInt8.ofNat (n % 128 + 128)).toNat = n % 128 + 128 := toNat_ofNat_lt _ hlt
      simp only [List.cons_append, readUvarintStdAux, h1]
      have hi8 : i < 8 := by
        by_cases h8 : i = 8
        · subst h8; simp at hn; omega
        · omega
      have c1 : ¬ (i ≥ 10 ∨ (i = 9 ∧ n % 128 + 128 > 1)) := by omega
      have c2 : ¬ (n % 128 + 128 < 128) := by omega
      simp only [c1, c2, ↓reduceIte]
      have hdiv : n / 128 < n := by omega
      have hb : n / 128 < 2 ^ (63 - 7 * (i + 1)) := by
        have : 2 ^ (63 - 7 * i) = 2 ^ (63 - 7 * (i + 1)) * 128 := by
          have : 63 - 7 * i = (63 - 7 * (i + 1)) + 7 := by omega
          rw [this, Nat.pow_add]
        rw [this] at hn
        exact Nat.div_lt_of_lt_mul (by rw [Nat.mul_comm]; exact hn)
      rw [ih (n / 128) hdiv (i + 1) _ rest hb (by omega)]
      have hp : 2 ^ (7 * (i + 1)) = 128 * 2 ^ (7 * i) := by
        rw [show 7 * (i + 1) = 7 + 7 * i by omega, Nat.pow_add]
      rw [hp]
      generalize 2 ^ (7 * i) = p
      have e : n % 128 + 128 - 128 = n % 128 := by omega
      have hs : n = 128 * (n / 128) + n % 128 := (Nat.div_add_mod n 128).symm
      have key : acc + (n % 128 + 128 - 128) * p + n / 128 * (128 * p) = acc + n * p := by
        rw [e]
        generalize n / 128 = q at hs
        generalize n % 128 = r at hs
        subst hs
        grind
      rw [key]

theorem readUvarintStd_uvarint (n : Nat) (h : n < 2 ^ 63) (rest : Bytes) :
    readUvarintStd (uvarint n ++ rest) = .ok (n, rest) := by
  have := readStdAux_uvarint n 0 0 rest (by simpa using h) (by omega)
  simpa [readUvarintStd] using this

/-- root `util.LdRead` on a framed body -/
theorem rootLdRead_framed (body rest : Bytes) (hmax : body.length ≤ rootMaxSection) :
    rootLdRead (uvarint body.length ++ body ++ rest) = .ok (body, rest) := by
  have h63 : body.length < 2 ^ 63 := by unfold rootMaxSection at hmax; omega
  have hne : uvarint body.length ++ body ++ rest ≠ [] := by
    have := uvarint_ne_nil body.length
    intro h; simp at h; exact this h.1
  unfold rootLdRead
  split
  · rename_i h; exact absurd h hne
  · rw [List.append_assoc, readUvarintStd_uvarint _ h63]
    have h1 : ¬ (body.length > rootMaxSection) := by omega
    have h2 : ¬ ((body ++ rest).length < body.length) := by simp
    simp only [h1, h2, ↓reduceIte]
    rw [List.take_left' rfl, List.drop_left' rfl]

/-- what the root reader needs of a block: a well-formed CID whose digest go-cid will allocate, a section
    within the fixed 32 MiB limit -/
def Block.rootOk (b : Block) : Prop :=
  b.cid.wf ∧ b.cid.digest.length ≤ maxDigestAlloc ∧ b.cid.byteLen + b.data.length ≤ rootMaxSection

theorem rootReadNode_section (b : Block) (rest : Bytes) (hb : b.rootOk) :
    rootReadNode (sectionBytes b ++ rest) = .ok (b, rest) := by
  obtain ⟨hc, hd, hmax⟩ := hb
  unfold rootReadNode sectionBytes
  have hlen : (b.cid.bytes ++ b.data).length = b.cid.byteLen + b.data.length := by simp [Cid.byteLen]
  have e : uvarint (b.cid.byteLen + b.data.length) ++ b.cid.bytes ++ b.data ++ rest
      = uvarint (b.cid.bytes ++ b.data).length ++ (b.cid.bytes ++ b.data) ++ rest := by
    rw [hlen]; simp
  rw [e, rootLdRead_framed (b.cid.bytes ++ b.data) rest (by rw [hlen]; exact hmax)]
  simp only
  rw [cidFromReader_bytes b.cid hc hd]
  simp only
  have : (b.cid.bytes ++ b.data).drop b.cid.byteLen = b.data := List.drop_left' rfl
  rw [this]

theorem rootNext_section (H : HashFn) (b : Block) (rest : Bytes) (hb : b.rootOk)
    (hv : checkBlock H false b = .ok ()) : rootNext H (sectionBytes b ++ rest) = .ok (b, rest) := by
  unfold rootNext
  rw [rootReadNode_section b rest hb]
  simp [hv]

theorem rootNext_nil (H : HashFn) : rootNext H [] = .error .eof := by
  simp [rootNext, rootReadNode, rootLdRead]

theorem rootScanAux_sections (H : HashFn) (bs : List Block)
    (hok : ∀ b ∈ bs, b.rootOk ∧ checkBlock H false b = .ok ()) :
    ∀ fuel, bs.length < fuel → rootScanAux H fuel (sectionsBytes bs) = (bs, .eof) := by
  induction bs with
  | nil =>
    intro fuel hf
    cases fuel with
    | zero => omega
    | succ f => simp [rootScanAux, sectionsBytes, rootNext_nil]
  | cons b tl ih =>
    intro fuel hf
    cases fuel with
    | zero => omega
    | succ f =>
      have hb := hok b (by simp)
      have : sectionsBytes (b :: tl) = sectionBytes b ++ sectionsBytes tl := by simp [sectionsBytes]
      rw [this, rootScanAux, rootNext_section H b _ hb.1 hb.2]
      simp only
      rw [ih (fun x hx => hok x (by simp [hx])) f (by simpa using hf)]

/-- **The root module's reader on any payload**: roots and exactly the blocks, in order, clean EOF. -/
theorem scanRoot_payload (H : HashFn) (req : Bool) (roots : Option (List Cid)) (bs : List Block)
    (hwf : (CarHeader.mk roots 1).wf) (hmax : (encodeHeaderBody ⟨roots, 1⟩).length ≤ rootMaxSection)
    (hreq : req = true → roots.getD [] ≠ [])
    (hok : ∀ b ∈ bs, b.rootOk ∧ checkBlock H false b = .ok ()) :
    scanRoot H req (payload roots bs) = .ok ⟨roots.getD [], bs, .eof⟩ := by
  unfold scanRoot payload encodeHeader
  simp only
  rw [rootLdRead_framed _ _ hmax]
  simp only
  rw [decodeHeaderBody_encode ⟨roots, 1⟩ hwf]
  have : ¬ (req = true ∧ roots.getD [] = []) := fun ⟨a, b⟩ => hreq a b
  simp only [ne_eq, not_true_eq_false, ↓reduceIte, CarHeader.rootList, this]
  rw [rootScanAux_sections H bs hok _ (by have := sectionsBytes_length_ge bs; omega)]

end Car
