import CarModel.Store
import CarModel.Proofs.Section
namespace Car

theorem writeAt_nil (f : Bytes) (off : Nat) : writeAt f off [] = f := by simp [writeAt]

theorem writeAt_end (f d : Bytes) : writeAt f f.length d = f ++ d := by
  by_cases h : d = []
  · simp [writeAt, h]
  · simp [writeAt, h]

theorem applyWrites_append (f : Bytes) (a b : List WriteEv) :
    applyWrites f (a ++ b) = applyWrites (applyWrites f a) b := by
  simp [applyWrites, List.foldl_append]

/-- Writing parts back to back starting at the end of the file appends their concatenation. -/
theorem foldl_parts_append (parts : List Bytes) : ∀ (f : Bytes) (acc : List WriteEv) (g : Bytes),
    applyWrites g acc = f →
    applyWrites g (parts.foldl (fun (a : List WriteEv × Nat) p => (a.1 ++ [WriteEv.write a.2 p], a.2 + p.length))
      (acc, f.length)).1 = f ++ parts.flatten := by
  induction parts with
  | nil => intro f acc g h; simp [h]
  | cons p ps ih =>
    intro f acc g h
    simp only [List.foldl_cons, List.flatten_cons]
    have := ih (f ++ p) (acc ++ [WriteEv.write f.length p]) g
      (by rw [applyWrites_append, h]; simp [applyWrites, WriteEv.apply, writeAt_end])
    simp only [List.length_append] at this
    rw [this]; simp

/-- consecutive chunks written at the end of the file append their concatenation -/
theorem chunkEvs_at_end (f : Bytes) (parts : List Bytes) :
    applyWrites f (chunkEvs f.length parts) = f ++ parts.flatten := by
  unfold chunkEvs
  exact foldl_parts_append parts f [] f (by simp [applyWrites])

/-- `LdWrite` at the end of the file appends `uvarint(total) ++ parts`. -/
theorem ldWrite_at_end (f : Bytes) (parts : List Bytes) :
    applyWrites f (ldWriteEvs f.length parts)
      = f ++ uvarint (parts.map List.length).sum ++ parts.flatten := by
  unfold ldWriteEvs
  rw [chunkEvs_at_end]; simp

theorem section_append (f : Bytes) (c : Cid) (d : Bytes) :
    applyWrites f (ldWriteEvs f.length [c.bytes, d]) = f ++ sectionBytes ⟨c, d⟩ := by
  rw [ldWrite_at_end]
  simp [sectionBytes, Cid.byteLen]

end Car
