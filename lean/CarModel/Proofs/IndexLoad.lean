import CarModel.InsIndex
import CarModel.Proofs.BytesOrder
namespace Car

theorem natLe_trans : ∀ (a b c : Nat), decide (a ≤ b) = true → decide (b ≤ c) = true → decide (a ≤ c) = true := by
  intro a b c h1 h2; simp at *; omega

theorem natLe_total : ∀ (a b : Nat), (decide (a ≤ b) || decide (b ≤ a)) = true := by
  intro a b; simp; omega

/-- the sorted key set of a map does not depend on insertion order -/
theorem distinctSorted_perm (l l' : List Nat) (h : List.Perm l l') : distinctSorted l = distinctSorted l' := by
  unfold distinctSorted
  congr 1
  apply List.Perm.eq_of_pairwise (le := fun a b => decide (a ≤ b) = true)
  · intro a b _ _ h1 h2; simp at h1 h2; omega
  · exact List.pairwise_mergeSort natLe_trans natLe_total l
  · exact List.pairwise_mergeSort natLe_trans natLe_total l'
  · exact (List.mergeSort_perm l _).trans (h.trans (List.mergeSort_perm l' _).symm)

def recLe (a b : Record) : Bool := bytesLe a.cid.digest b.cid.digest

theorem recLe_trans : ∀ (a b c : Record), recLe a b = true → recLe b c = true → recLe a c = true :=
  fun a b c => bytesLe_trans _ _ _

theorem recLe_total : ∀ (a b : Record), (recLe a b || recLe b a) = true :=
  fun a b => bytesLe_total _ _

/-- sorting a group by digest does not depend on the input order when digests are pairwise distinct -/
theorem sort_group_perm (g g' : List Record) (h : List.Perm g g')
    (hnd : ∀ a ∈ g, ∀ b ∈ g, a.cid.digest = b.cid.digest → a = b) :
    g.mergeSort recLe = g'.mergeSort recLe := by
  apply List.Perm.eq_of_pairwise (le := fun a b => recLe a b = true)
  · intro a b ha hb h1 h2
    have ha' : a ∈ g := (List.mergeSort_perm g _).mem_iff.mp ha
    have hb' : b ∈ g := h.mem_iff.mpr ((List.mergeSort_perm g' _).mem_iff.mp hb)
    exact hnd a ha' b hb' (bytesLe_antisymm _ _ h1 h2)
  · exact List.pairwise_mergeSort recLe_trans recLe_total g
  · exact List.pairwise_mergeSort recLe_trans recLe_total g'
  · exact (List.mergeSort_perm g _).trans (h.trans (List.mergeSort_perm g' _).symm)

/-- No two records share a digest (the property's side condition for byte-identity). -/
def DistinctDigests (rs : List Record) : Prop :=
  ∀ a ∈ rs, ∀ b ∈ rs, a.cid.digest = b.cid.digest → a = b

theorem DistinctDigests.filter {rs : List Record} (h : DistinctDigests rs) (p : Record → Bool) :
    DistinctDigests (rs.filter p) :=
  fun a ha b hb => h a (List.mem_filter.mp ha).1 b (List.mem_filter.mp hb).1

/-- C11: the car-index-sorted form depends only on the record multiset (distinct digests). -/
theorem multiWidth_load_perm (rs rs' : List Record) (h : List.Perm rs rs') (hd : DistinctDigests rs) :
    MultiWidth.load rs = MultiWidth.load rs' := by
  unfold MultiWidth.load
  simp only
  rw [distinctSorted_perm _ _ (h.map fun r => r.cid.digest.length)]
  apply List.map_congr_left
  intro w _
  have hg := sort_group_perm _ _ (h.filter fun r => r.cid.digest.length == w) (hd.filter _)
  unfold recLe at hg
  simp only [hg]

/-- C11: … and so does the car-multihash-index-sorted form. -/
theorem mhIndex_load_perm (rs rs' : List Record) (h : List.Perm rs rs') (hd : DistinctDigests rs) :
    MhIndex.load rs = MhIndex.load rs' := by
  unfold MhIndex.load
  simp only
  rw [distinctSorted_perm _ _ (h.map fun r => r.cid.mhCode)]
  apply List.map_congr_left
  intro c _
  rw [multiWidth_load_perm _ _ (h.filter fun r => r.cid.mhCode == c) (hd.filter _)]

theorem index_load_perm (codec : Nat) (rs rs' : List Record) (h : List.Perm rs rs') (hd : DistinctDigests rs) :
    Index.load codec rs = Index.load codec rs' := by
  unfold Index.load
  rw [multiWidth_load_perm rs rs' h hd, mhIndex_load_perm rs rs' h hd]

end Car
