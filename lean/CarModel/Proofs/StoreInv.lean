import CarModel.Spec
import CarModel.Proofs.Writes
import CarModel.Proofs.Header
namespace Car

theorem writeAt_hole (f d : Bytes) (off : Nat) (h : f.length ≤ off) (hd : d ≠ []) :
    writeAt f off d = f ++ zeros (off - f.length) ++ d := by
  unfold writeAt
  simp only [hd, ↓reduceIte]
  by_cases hlt : f.length < off
  · simp only [hlt, ↓reduceIte]
    have hl : (f ++ zeros (off - f.length)).length = off := by simp [zeros]; omega
    rw [List.take_of_length_le (by omega), List.drop_of_length_le (by omega)]; simp
  · have : off = f.length := by omega
    subst this
    simp [zeros]

/-- consecutive chunks written past the end of the file: the hole is zero-filled (first chunk non-empty) -/
theorem chunkEvs_at_hole (f : Bytes) (off : Nat) (p : Bytes) (ps : List Bytes) (h : f.length ≤ off) (hp : p ≠ []) :
    applyWrites f (chunkEvs off (p :: ps)) = f ++ zeros (off - f.length) ++ (p :: ps).flatten := by
  unfold chunkEvs
  simp only [List.foldl_cons, List.nil_append, List.flatten_cons]
  have hl : (f ++ zeros (off - f.length) ++ p).length = off + p.length := by simp [zeros]; omega
  have := foldl_parts_append ps (f ++ zeros (off - f.length) ++ p) [WriteEv.write off p] f
    (by simp [applyWrites, WriteEv.apply, writeAt_hole f _ off h hp])
  rw [hl] at this
  rw [this]; simp

theorem ldWrite_at_hole (f : Bytes) (off : Nat) (parts : List Bytes) (h : f.length ≤ off) :
    applyWrites f (ldWriteEvs off parts)
      = f ++ zeros (off - f.length) ++ uvarint (parts.map List.length).sum ++ parts.flatten := by
  unfold ldWriteEvs
  rw [chunkEvs_at_hole f off _ parts h (uvarint_ne_nil _)]; simp

theorem withOffsets_append (h : Nat) (l : List Block) (b : Block) :
    withOffsets h (l ++ [b]) = withOffsets h l ++ [⟨b.cid, h + (sectionsBytes l).length⟩] := by
  induction l generalizing h with
  | nil => simp [withOffsets, sectionsBytes]
  | cons x xs ih =>
    simp only [List.cons_append, withOffsets, ih, sectionsBytes_cons_length]
    simp [sectionsBytes, sectionBytes_length]; omega
where
  sectionsBytes_cons_length : True := trivial

theorem insIndex_insert_perm (ix : InsIndex) (r : Record) : List.Perm (ix.insert r) (r :: ix) := by
  induction ix with
  | nil => simp [InsIndex.insert]
  | cons y ys ih =>
    unfold InsIndex.insert
    split
    · exact (List.Perm.cons y ih).trans (List.Perm.swap r y ys)
    · exact List.Perm.refl _

/-- what precedes the payload: nothing in CARv1 mode; pragma, a 40-byte header slot, data padding otherwise -/
def WOpts.filePrefix (o : WOpts) (h40 : Bytes) : Bytes :=
  if o.v1 then [] else pragma ++ h40 ++ zeros o.dataPad

theorem WOpts.filePrefix_length (o : WOpts) (h40 : Bytes) (h : h40.length = 40) :
    (o.filePrefix h40).length = o.base := by
  unfold WOpts.filePrefix WOpts.base
  split
  · rfl
  · simp [h, zeros, pragma, pragmaBody, keyVersion]; omega

/-- The representation invariant of an open writable store: the file is some `base`-byte prefix
    followed by exactly the payload of the log; the writer stands at its end; the insertion index
    holds exactly the log's (cid, offset) records. -/
structure Inv (o : WOpts) (roots : Option (List Cid)) (s : Store) (log : List Block) : Prop where
  base : s.base = o.base
  file : ∃ h40 tail, h40.length = 40 ∧ s.file = o.filePrefix h40 ++ payload roots log ++ tail ∧
    (s.finalized = false → s.closed = false → tail = [])
  pos : s.pos = (payload roots log).length
  idx : List.Perm s.idx (withOffsets (headerSize ⟨roots, 1⟩) log)
  roots : s.roots = roots

theorem create_inv (api : Api) (o : WOpts) (roots : Option (List Cid)) :
    Inv o roots (Store.create api o roots).1 [] := by
  unfold Store.create
  simp only
  refine ⟨rfl, ?_, by simp [payload, sectionsBytes], by simp [withOffsets], rfl⟩
  have hsum : ([encodeHeaderBody ⟨roots, 1⟩].map List.length).sum = (encodeHeaderBody ⟨roots, 1⟩).length := by simp
  by_cases hv : o.v1 = true
  · refine ⟨zeros 40, [], by simp [zeros], ?_, fun _ _ => rfl⟩
    simp only [hv, ↓reduceIte, List.nil_append, List.append_nil, WOpts.filePrefix]
    have := ldWrite_at_hole [] o.base [encodeHeaderBody ⟨roots, 1⟩] (by simp)
    rw [this, hsum]
    simp [WOpts.base, hv, zeros, payload, sectionsBytes, encodeHeader]
  · refine ⟨zeros 40, [], by simp [zeros], ?_, fun _ _ => rfl⟩
    simp only [hv, Bool.false_eq_true, ↓reduceIte, applyWrites_append, List.append_nil, WOpts.filePrefix]
    have hp : applyWrites [] [WriteEv.write 0 pragma] = pragma := by
      simp [applyWrites, WriteEv.apply, writeAt, zeros, pragma]
    rw [hp]
    have hpl : pragma.length = 11 := by decide
    have := ldWrite_at_hole pragma o.base [encodeHeaderBody ⟨roots, 1⟩]
      (by rw [hpl]; simp [WOpts.base, hv]; omega)
    rw [this, hsum, hpl]
    have hz : zeros (o.base - 11) = zeros 40 ++ zeros o.dataPad := by
      simp only [WOpts.base, hv, Bool.false_eq_true, ↓reduceIte, zeros, List.replicate_append_replicate]
      congr 1; omega
    rw [hz]
    simp [payload, sectionsBytes, encodeHeader]

theorem payload_append_length (roots : Option (List Cid)) (log : List Block) (b : Block) :
    (payload roots (log ++ [b])).length = (payload roots log).length + sectionSize b := by
  simp [payload, sectionsBytes, sectionBytes_length]; omega

theorem payload_append (roots : Option (List Cid)) (log : List Block) (b : Block) :
    payload roots (log ++ [b]) = payload roots log ++ sectionBytes b := by
  simp [payload, sectionsBytes]

/-- A block that is actually written extends the log by itself and keeps the invariant. -/
theorem put_write_inv (o : WOpts) (roots : Option (List Cid)) (s : Store) (log : List Block) (c : Cid) (d : Bytes)
    (inv : Inv o roots s log) (hopen : s.finalized = false ∧ s.closed = false) :
    Inv o roots
      { s.applyEvs (ldWriteEvs (s.base + s.pos) [c.bytes, d]) with
        pos := s.pos + sectionSize ⟨c, d⟩, idx := s.idx.insert ⟨c, s.pos⟩ } (log ++ [⟨c, d⟩]) := by
  obtain ⟨hb, ⟨h40, tail, h40l, hf, ht⟩, hpos, hidx, hr⟩ := inv
  have htl := ht hopen.1 hopen.2
  subst htl
  simp only [List.append_nil] at hf
  have hpl := o.filePrefix_length h40 h40l
  refine ⟨hb, ⟨h40, [], h40l, ?_, fun _ _ => rfl⟩, ?_, ?_, hr⟩
  · simp only [List.append_nil]
    have hlen : s.base + s.pos = s.file.length := by rw [hf, List.length_append, hpl, hpos, hb]
    simp only [Store.applyEvs]
    rw [hlen, section_append, hf, payload_append]; simp
  · simp only; rw [hpos, payload_append_length]
  · simp only
    rw [withOffsets_append]
    have hoff : s.pos = headerSize ⟨roots, 1⟩ + (sectionsBytes log).length := by
      rw [hpos]; simp [payload, headerSize]
    rw [← hoff]
    exact (insIndex_insert_perm s.idx ⟨c, s.pos⟩).trans
      ((List.Perm.cons _ hidx).trans (List.perm_append_singleton _ _).symm)

end Car
