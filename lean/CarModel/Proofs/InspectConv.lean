import CarModel.Proofs.Inspect
/-
The converse of `scan_implies_inspectLoop`: whenever Inspect's full-validation walk over a byte
string succeeds, the hash-verifying section scan of the same bytes ends cleanly with exactly the
blocks Inspect saw. Together: inspection succeeds iff the verifying scan succeeds, with equal content.
-/
namespace Car

/-- A successful varint read looked at a prefix that reads to the same value on its own. -/
theorem readUvarintAux_exact : ∀ (bs : Bytes) (i acc v : Nat) (rest : Bytes),
    readUvarintAux i acc bs = .ok (v, rest) →
    ∃ pre, bs = pre ++ rest ∧ readUvarintAux i acc pre = .ok (v, []) := by
  intro bs
  induction bs with
  | nil => intro i acc v rest h; simp [readUvarintAux] at h
  | cons b tl ih =>
    intro i acc v rest h
    unfold readUvarintAux at h
    split at h
    · cases h
    · rename_i hc
      split at h
      · rename_i hlt
        split at h
        · cases h
        · rename_i hz
          injection h with h; injection h with h1 h2; subst h1 h2
          refine ⟨[b], rfl, ?_⟩
          unfold readUvarintAux
          simp only [hc, ↓reduceIte, hlt, hz]
      · rename_i hlt
        obtain ⟨pre, hp, hr⟩ := ih _ _ _ _ h
        refine ⟨b :: pre, by rw [hp]; rfl, ?_⟩
        unfold readUvarintAux
        simp only [hc, ↓reduceIte, hlt]
        exact hr

/-- reading from any extension of the prefix a varint read looked at -/
theorem readUvarint_take (bs : Bytes) (v : Nat) (r : Bytes) (h : readUvarint bs = .ok (v, r)) (m : Nat)
    (hm : bs.length - r.length ≤ m) :
    readUvarint (bs.take m) = .ok (v, r.take (m - (bs.length - r.length))) := by
  obtain ⟨pre, hp, hr⟩ := readUvarintAux_exact bs 0 0 v r h
  have hlen : bs.length - r.length = pre.length := by rw [hp]; simp
  rw [hlen] at hm ⊢
  have : bs.take m = pre ++ r.take (m - pre.length) := by
    rw [hp, List.take_append]
    rw [List.take_of_length_le hm]
  rw [this]
  have := readUvarint_append pre v [] (r.take (m - pre.length)) hr
  simpa using this

/-- a varint that continues past its first byte is worth at least 2^(7i) more than accumulated -/
theorem readUvarintAux_lower : ∀ (bs : Bytes) (i acc v : Nat) (rest : Bytes),
    readUvarintAux i acc bs = .ok (v, rest) → 0 < i → acc + 2 ^ (7 * i) ≤ v := by
  intro bs
  induction bs with
  | nil => intro i acc v rest h; simp [readUvarintAux] at h
  | cons b tl ih =>
    intro i acc v rest h hi
    unfold readUvarintAux at h
    split at h
    · cases h
    · split at h
      · split at h
        · cases h
        · rename_i hz
          injection h with h; injection h with h1 _
          subst h1
          have hb : 1 ≤ b.toNat := by
            rcases Nat.eq_zero_or_pos b.toNat with h0 | h0
            · exact absurd ⟨h0, hi⟩ hz
            · exact h0
          have := Nat.mul_le_mul_right (2 ^ (7 * i)) hb
          omega
      · have := ih _ _ _ _ h (by omega)
        have hp : 2 ^ (7 * i) ≤ 2 ^ (7 * (i + 1)) := Nat.pow_le_pow_right (by omega) (by omega)
        have : acc ≤ acc + (b.toNat - 128) * 2 ^ (7 * i) := Nat.le_add_right _ _
        omega

/-- a buffer that starts with 0x01 is parsed by the CIDv1 branch of `CidFromBytes` -/
theorem cidFromBytes_v1 (bs tl : Bytes) (h : bs = 0x01 :: tl) :
    cidFromBytes bs =
      match readUvarint bs with
      | .error _ => .error .invalid
      | .ok (vers, r1) =>
        if vers ≠ 1 then .error .invalid else
        match readUvarint r1 with
        | .error _ => .error .invalid
        | .ok (codec, r2) =>
          match mhFromBytes r2 with
          | .error e => .error e
          | .ok (n, code, dig) =>
            .ok (bs.length - r2.length + n, { version := 1, codec := codec, mhCode := code, digest := dig }) := by
  subst h
  rfl

/-- **The two CID decoders agree, the other way**: whenever `CidFromReader` accepts a stream and the
    CID lies within the first `len` bytes, `CidFromBytes` accepts those `len` bytes with the same
    CID and length, and the reader stopped right after the CID. -/
theorem cidFromBytes_of_cidFromReader (s : Bytes) (n : Nat) (c : Cid) (rest : Bytes) (len : Nat)
    (h : cidFromReader s = .ok (n, c, rest)) (hn : n ≤ len) (hl : len ≤ s.length) :
    cidFromBytes (s.take len) = .ok (n, c) ∧ rest = s.drop n := by
  unfold cidFromReader at h
  cases hv : readUvarint s with
  | error e => cases e <;> simp [hv] at h
  | ok p =>
    obtain ⟨vers, r1⟩ := p
    simp only [hv] at h
    obtain ⟨pre1, hp1, hr1⟩ := readUvarintAux_exact s 0 0 vers r1 hv
    by_cases h12 : vers = 0x12
    · -- CIDv0
      subst h12
      simp only [↓reduceIte] at h
      by_cases h33 : r1.length < 33
      · simp [h33] at h
      · simp only [h33, ↓reduceIte] at h
        cases r1 with
        | nil => simp at h33
        | cons b d =>
          by_cases hb : b = 0x20
          · subst hb
            simp only at h
            injection h with h; injection h with hn' h2; injection h2 with hc hrest
            subst hn' hc hrest
            -- the varint 0x12 is the single byte 0x12
            have hpre : pre1 = [0x12] := by
              cases pre1 with
              | nil => simp [readUvarintAux] at hr1
              | cons x xs =>
                unfold readUvarintAux at hr1
                simp only [Nat.zero_ne_one, false_and, ge_iff_le, Nat.not_succ_le_zero, or_self, ↓reduceIte,
                  gt_iff_lt, Nat.lt_irrefl, and_false, Nat.mul_zero, Nat.pow_zero, Nat.mul_one, Nat.zero_add] at hr1
                by_cases hx : x.toNat < 128
                · simp only [hx, ↓reduceIte] at hr1
                  injection hr1 with hr1; injection hr1 with a1 a2
                  subst a2
                  have : x = 0x12 := by
                    apply UInt8.toNat_inj.mp; simpa using a1
                  subst this; rfl
                · simp only [hx, ↓reduceIte] at hr1
                  -- a continuation byte contributes ≥ 1 more byte; the value would be ≥ 128·… or non-minimal
                  exfalso
                  have := readUvarintAux_lower xs 1 (x.toNat - 128) 0x12 [] hr1 (by omega)
                  omega
            subst hpre
            have hs : s = 0x12 :: 0x20 :: d := by rw [hp1]; rfl
            subst hs
            simp only [List.length_cons] at h33 hl
            have hd32 : 32 ≤ d.length := by omega
            cases d with
            | nil => simp at hd32
            | cons d0 dt =>
              have hdt : 31 ≤ dt.length := by simp only [List.length_cons] at hd32; omega
              have htake : (0x12 :: 0x20 :: d0 :: dt).take len = 0x12 :: 0x20 :: d0 :: dt.take (len - 3) := by
                have : len = (len - 3) + 3 := by omega
                rw [this]; simp
              rw [htake]
              unfold cidFromBytes
              simp only
              have hlen' : ¬ ((0x12 :: 0x20 :: d0 :: dt.take (len - 3)).length < 34) := by
                simp only [List.length_cons, List.length_take]; omega
              simp only [hlen', ↓reduceIte]
              refine ⟨?_, by simp⟩
              congr 2
              simp only [List.drop_succ_cons, List.drop_zero]
              have : (d0 :: dt.take (len - 3)).take 32 = (d0 :: dt).take 32 := by
                simp only [List.take_succ_cons, List.take_take]
                congr 1
                have : min 31 (len - 3) = 31 := by omega
                rw [this]
              simpa using this
          · simp [hb] at h
    · simp only [h12, ↓reduceIte] at h
      by_cases h1 : vers = 1
      · subst h1
        simp only [ne_eq, not_true_eq_false, ↓reduceIte] at h
        cases hc : readUvarint r1 with
        | error e => simp [hc] at h
        | ok p2 =>
          obtain ⟨codec, r2⟩ := p2
          simp only [hc] at h
          cases hk : readUvarint r2 with
          | error e => simp [hk] at h
          | ok p3 =>
            obtain ⟨code, r3⟩ := p3
            simp only [hk] at h
            cases hm : readUvarint r3 with
            | error e => simp [hm] at h
            | ok p4 =>
              obtain ⟨mhl, r4⟩ := p4
              simp only [hm] at h
              by_cases hcap : mhl > maxDigestAlloc
              · simp [hcap] at h
              · simp only [hcap, ↓reduceIte] at h
                by_cases hshort : r4.length < mhl
                · simp [hshort] at h
                · simp only [hshort, ↓reduceIte] at h
                  injection h with h; injection h with hn' h2; injection h2 with hcid hrest
                  subst hn' hcid hrest
                  -- consumption bookkeeping
                  have c1 := readUvarint_consumes s 1 r1 hv
                  have c2 := readUvarint_consumes r1 codec r2 hc
                  have c3 := readUvarint_consumes r2 code r3 hk
                  have c4 := readUvarint_consumes r3 mhl r4 hm
                  obtain ⟨q1, e1⟩ := readUvarint_suffix s 1 r1 hv
                  obtain ⟨q2, e2⟩ := readUvarint_suffix r1 codec r2 hc
                  obtain ⟨q3, e3⟩ := readUvarint_suffix r2 code r3 hk
                  obtain ⟨q4, e4⟩ := readUvarint_suffix r3 mhl r4 hm
                  have l1 : s.length = q1.length + r1.length := by rw [e1]; simp
                  have l2 : r1.length = q2.length + r2.length := by rw [e2]; simp
                  have l3 : r2.length = q3.length + r3.length := by rw [e3]; simp
                  have l4 : r3.length = q4.length + r4.length := by rw [e4]; simp
                  -- the four reads on the truncated buffer
                  have t1 := readUvarint_take s 1 r1 hv len (by omega)
                  have t2 := readUvarint_take r1 codec r2 hc (len - (s.length - r1.length)) (by omega)
                  have t3 := readUvarint_take r2 code r3 hk (len - (s.length - r1.length) - (r1.length - r2.length)) (by omega)
                  have t4 := readUvarint_take r3 mhl r4 hm
                    (len - (s.length - r1.length) - (r1.length - r2.length) - (r2.length - r3.length)) (by omega)
                  -- the first byte is 0x01, so the CIDv0 pattern does not match
                  have hfirst : ∃ tl, s.take len = 0x01 :: tl := by
                    cases hs : s with
                    | nil => rw [hs] at hv; simp [readUvarint, readUvarintAux] at hv
                    | cons x xs =>
                      rw [hs] at hv
                      unfold readUvarint readUvarintAux at hv
                      simp only [Nat.zero_ne_one, false_and, ge_iff_le, Nat.not_succ_le_zero, or_self, ↓reduceIte,
                        gt_iff_lt, Nat.lt_irrefl, and_false, Nat.mul_zero, Nat.pow_zero, Nat.mul_one, Nat.zero_add] at hv
                      by_cases hx : x.toNat < 128
                      · simp only [hx, ↓reduceIte] at hv
                        injection hv with hv; injection hv with a1 _
                        have : x = 0x01 := by apply UInt8.toNat_inj.mp; simpa using a1
                        subst this
                        cases len with
                        | zero => omega
                        | succ k => exact ⟨xs.take k, by simp⟩
                      · simp only [hx, ↓reduceIte] at hv
                        exfalso
                        have := readUvarintAux_lower xs 1 (x.toNat - 128) 1 r1 hv (by omega)
                        omega
                  obtain ⟨tl, htl⟩ := hfirst
                  rw [cidFromBytes_v1 (s.take len) tl htl, t1]
                  simp only [ne_eq, not_true_eq_false, ↓reduceIte, t2]
                  unfold mhFromBytes
                  have hlen2 : ¬ ((r2.take (len - (s.length - r1.length) - (r1.length - r2.length))).length < 2) := by
                    simp only [List.length_take]; omega
                  simp only [hlen2, ↓reduceIte, t3, t4]
                  have hcap2 : ¬ (mhl > 2 ^ 31 - 1) := by unfold maxDigestAlloc at hcap; omega
                  have hfit : ¬ (mhl > (r4.take (len - (s.length - r1.length) - (r1.length - r2.length) - (r2.length - r3.length) - (r3.length - r4.length))).length) := by
                    simp only [List.length_take]; omega
                  simp only [hcap2, hfit, ↓reduceIte]
                  refine ⟨?_, ?_⟩
                  · congr 2
                    · simp only [List.length_take]; omega
                    · congr 1
                      rw [List.take_take]
                      congr 1
                      omega
                  · -- rest = s.drop n
                    have hs : s = (q1 ++ q2 ++ q3 ++ q4) ++ r4 := by rw [e1, e2, e3, e4]; simp
                    have hnn : s.length - r4.length + mhl = (q1 ++ q2 ++ q3 ++ q4).length + mhl := by
                      simp only [List.length_append]; omega
                    rw [hnn, ← List.drop_drop]
                    conv => rhs; rw [hs]
                    rw [List.drop_left' rfl]
      · simp [h1] at h

end Car

namespace Car

/-- the stream reader consumed exactly the bytes it reports -/
theorem cidFromReader_length (s : Bytes) (n : Nat) (c : Cid) (rest : Bytes)
    (h : cidFromReader s = .ok (n, c, rest)) : s.length = n + rest.length := by
  unfold cidFromReader at h
  cases hv : readUvarint s with
  | error e => cases e <;> simp [hv] at h
  | ok p =>
    obtain ⟨vers, r1⟩ := p
    simp only [hv] at h
    have c1 := readUvarint_consumes s vers r1 hv
    by_cases h12 : vers = 0x12
    · subst h12
      simp only [↓reduceIte] at h
      by_cases h33 : r1.length < 33
      · simp [h33] at h
      · simp only [h33, ↓reduceIte] at h
        cases r1 with
        | nil => simp at h33
        | cons b d =>
          by_cases hb : b = 0x20
          · subst hb
            simp only at h
            injection h with h; injection h with hn' h2; injection h2 with _ hrest
            subst hn' hrest
            -- 0x12 is a one-byte varint: s = 0x12 :: 0x20 :: d
            obtain ⟨pre1, hp1, hr1⟩ := readUvarintAux_exact s 0 0 0x12 (0x20 :: d) hv
            have hpre : pre1.length = 1 := by
              cases pre1 with
              | nil => simp [readUvarintAux] at hr1
              | cons x xs =>
                unfold readUvarintAux at hr1
                simp only [Nat.zero_ne_one, false_and, ge_iff_le, Nat.not_succ_le_zero, or_self, ↓reduceIte,
                  gt_iff_lt, Nat.lt_irrefl, and_false, Nat.mul_zero, Nat.pow_zero, Nat.mul_one, Nat.zero_add] at hr1
                by_cases hx : x.toNat < 128
                · simp only [hx, ↓reduceIte] at hr1
                  injection hr1 with hr1; injection hr1 with _ a2
                  subst a2; rfl
                · simp only [hx, ↓reduceIte] at hr1
                  exfalso
                  have := readUvarintAux_lower xs 1 (x.toNat - 128) 0x12 [] hr1 (by omega)
                  omega
            rw [hp1]
            simp only [List.length_append, List.length_cons, List.length_drop, hpre] at h33 ⊢
            omega
          · simp [hb] at h
    · simp only [h12, ↓reduceIte] at h
      by_cases h1 : vers = 1
      · subst h1
        simp only [ne_eq, not_true_eq_false, ↓reduceIte] at h
        cases hc : readUvarint r1 with
        | error e => simp [hc] at h
        | ok p2 =>
          obtain ⟨codec, r2⟩ := p2
          simp only [hc] at h
          cases hk : readUvarint r2 with
          | error e => simp [hk] at h
          | ok p3 =>
            obtain ⟨code, r3⟩ := p3
            simp only [hk] at h
            cases hm : readUvarint r3 with
            | error e => simp [hm] at h
            | ok p4 =>
              obtain ⟨mhl, r4⟩ := p4
              simp only [hm] at h
              by_cases hcap : mhl > maxDigestAlloc
              · simp [hcap] at h
              · simp only [hcap, ↓reduceIte] at h
                by_cases hshort : r4.length < mhl
                · simp [hshort] at h
                · simp only [hshort, ↓reduceIte] at h
                  injection h with h; injection h with hn' h2; injection h2 with _ hrest
                  subst hn' hrest
                  have c2 := readUvarint_consumes r1 codec r2 hc
                  have c3 := readUvarint_consumes r2 code r3 hk
                  have c4 := readUvarint_consumes r3 mhl r4 hm
                  simp only [List.length_drop]
                  omega
      · simp [h1] at h

/-- **Inspect ⇒ scan.** For every byte string: if Inspect's full-validation walk succeeds, the
    hash-verifying section scan of the same bytes ends cleanly and returns exactly the blocks
    Inspect saw, with the CID lengths and data lengths Inspect recorded. -/
theorem inspectLoop_implies_scan (H : HashFn) (hU : H.Uniform) (o : ReadOpts) (ht : o.trusted = false) :
    ∀ (fuel : Nat) (w : Bytes) (acc res : List Seen), w.length < fuel →
    inspectLoop H o true fuel w acc = .ok res →
    ∃ (bs : List Block) (lens : List Nat), lens.length = bs.length ∧
      scanAux H o fuel w = (bs, .eof) ∧
      res = acc ++ (bs.zip lens).map fun p => ⟨p.1.cid, p.2, p.1.data.length⟩ := by
  intro fuel
  induction fuel with
  | zero => intro w acc res hf; omega
  | succ f ih =>
    intro w acc res hf h
    unfold inspectLoop at h
    unfold scanAux nextBlock readNode ldRead ldReadSize
    cases hv : readUvarint w with
    | error e =>
      simp only [hv] at h ⊢
      cases e with
      | eof =>
        simp only at h
        injection h with h; subst h
        exact ⟨[], [], rfl, by simp [verr], by simp⟩
      | unexpectedEOF => simp at h
      | overflow => simp at h
      | notMinimal => simp at h
    | ok p =>
      obtain ⟨len, r1⟩ := p
      simp only [hv] at h ⊢
      by_cases hz : len = 0 ∧ o.zeroEOF = true
      · simp only [hz, and_self, ↓reduceIte] at h ⊢
        injection h with h; subst h
        exact ⟨[], [], rfl, by simp, by simp⟩
      · simp only [hz, ↓reduceIte] at h ⊢
        by_cases hm : len > o.maxSection
        · simp [hm] at h
        · simp only [hm, ↓reduceIte] at h ⊢
          cases hc : cidFromReader r1 with
          | error e => cases e <;> simp [hc] at h
          | ok q =>
            obtain ⟨n, c, r2⟩ := q
            simp only [hc] at h
            by_cases hln : len < n
            · simp [hln] at h
            · simp only [hln, ↓reduceIte] at h
              by_cases hpre : preOk H c = true
              · simp only [hpre, Bool.not_true, Bool.false_eq_true, ↓reduceIte] at h
                simp only [List.length_take] at h
                by_cases hshort : min (len - n) r2.length < len - n
                · simp [hshort] at h
                · simp only [hshort, ↓reduceIte] at h
                  by_cases hsum : sumOk H c (r2.take (len - n)) = true
                  · simp only [hsum, Bool.not_true, Bool.false_eq_true, ↓reduceIte] at h
                    by_cases hver : verifies H c (r2.take (len - n)) = true
                    · simp only [hver, Bool.not_true, Bool.false_eq_true, ↓reduceIte] at h
                      -- the reader consumed exactly n bytes; the section lies within r1
                      have hr2len : len - n ≤ r2.length := by omega
                      have hcons := readUvarint_consumes w len r1 hv
                      -- r2 = r1.drop n, so r1 is at least len long
                      have hr1 : len ≤ r1.length ∨ True := Or.inr trivial
                      -- length of r1 from the decoder: r1.length = n + r2.length
                      have hdec_len : r1.length = n + r2.length := cidFromReader_length r1 n c r2 hc
                      have hlen1 : len ≤ r1.length := by omega
                      obtain ⟨hcb, hrest⟩ := cidFromBytes_of_cidFromReader r1 n c r2 len hc (by omega) hlen1
                      have hs : ¬ (r1.length < len) := by omega
                      simp only [hs, ↓reduceIte, hcb]
                      have hdata : (r1.take len).drop n = r2.take (len - n) := by
                        rw [hrest, List.drop_take]
                      have hchk : checkBlock H o.trusted ⟨c, (r1.take len).drop n⟩ = .ok () := by
                        unfold checkBlock
                        simp only [ht, Bool.false_eq_true, ↓reduceIte, hdata, hsum, Bool.not_true, hver]
                      simp only [hchk]
                      have hdrop : r1.drop len = r2.drop (len - n) := by
                        rw [hrest, List.drop_drop]; congr 1; omega
                      have hrlen : (r1.drop len).length < f := by
                        simp only [List.length_drop]; omega
                      rw [← hdrop] at h
                      obtain ⟨bs, lens, hl, hscan, hres⟩ := ih (r1.drop len) _ res hrlen h
                      refine ⟨⟨c, (r1.take len).drop n⟩ :: bs, n :: lens, by simp [hl], by rw [hscan], ?_⟩
                      rw [hres]
                      have : ((r1.take len).drop n).length = len - n := by
                        rw [hdata, List.length_take]; omega
                      simp [this]
                    · simp [hver] at h
                  · simp [hsum] at h
              · simp [hpre] at h

end Car
