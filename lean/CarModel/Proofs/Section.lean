import CarModel.Section
import CarModel.Proofs.Cid
namespace Car

/-- Well-formed block for reader options `o`: CID well-formed, section within the limit and < 2^63. -/
def Block.wf (maxSection : Nat) (b : Block) : Prop :=
  b.cid.wf ∧ b.cid.byteLen + b.data.length ≤ maxSection ∧ b.cid.byteLen + b.data.length < 2 ^ 63

theorem cid_byteLen_pos (c : Cid) : 0 < c.byteLen := by
  unfold Cid.byteLen Cid.bytes Cid.mhBytes
  have := uvarintSize_pos c.mhCode
  split <;> simp only [List.length_append, uvarint_length] <;> omega

theorem sectionBytes_length (b : Block) : (sectionBytes b).length = sectionSize b := by
  simp [sectionBytes, sectionSize, uvarint_length, Cid.byteLen]

theorem ldRead_framed (zeroEOF : Bool) (max : Nat) (body rest : Bytes)
    (hpos : 0 < body.length) (hmax : body.length ≤ max) (h63 : body.length < 2 ^ 63) :
    ldRead zeroEOF max (uvarint body.length ++ body ++ rest) = .ok (body, rest) := by
  unfold ldRead ldReadSize
  rw [List.append_assoc, readUvarint_uvarint _ h63]
  have h0 : ¬ (body.length = 0 ∧ zeroEOF = true) := by omega
  have h1 : ¬ (body.length > max) := by omega
  have h2 : ¬ ((body ++ rest).length < body.length) := by simp
  simp only [h0, h1, h2, ↓reduceIte]
  rw [List.take_left' rfl, List.drop_left' rfl]

theorem readNode_section (zeroEOF : Bool) (max : Nat) (b : Block) (rest : Bytes)
    (hwf : b.wf max) : readNode zeroEOF max (sectionBytes b ++ rest) = .ok (b, rest) := by
  obtain ⟨hc, hmax, h63⟩ := hwf
  unfold readNode sectionBytes
  have hlen : (b.cid.bytes ++ b.data).length = b.cid.byteLen + b.data.length := by simp [Cid.byteLen]
  have e : uvarint (b.cid.byteLen + b.data.length) ++ b.cid.bytes ++ b.data ++ rest
      = uvarint (b.cid.bytes ++ b.data).length ++ (b.cid.bytes ++ b.data) ++ rest := by
    rw [hlen]; simp
  rw [e, ldRead_framed zeroEOF max (b.cid.bytes ++ b.data) rest
        (by rw [hlen]; have := cid_byteLen_pos b.cid; omega) (by omega) (by omega)]
  simp only
  rw [cidFromBytes_bytes b.cid hc]
  simp only
  have : (b.cid.bytes ++ b.data).drop b.cid.byteLen = b.data := List.drop_left' rfl
  rw [this]

theorem nextBlock_section (H : HashFn) (o : ReadOpts) (b : Block) (rest : Bytes)
    (hwf : b.wf o.maxSection) (hv : checkBlock H o.trusted b = .ok ()) :
    nextBlock H o (sectionBytes b ++ rest) = .ok (b, rest) := by
  unfold nextBlock
  rw [readNode_section _ _ b rest hwf]
  simp [hv]

theorem nextBlock_nil (H : HashFn) (o : ReadOpts) : nextBlock H o [] = .error .eof := by
  simp [nextBlock, readNode, ldRead, ldReadSize, readUvarint, readUvarintAux, verr]

theorem scanAux_sections (H : HashFn) (o : ReadOpts) (bs : List Block)
    (hwf : ∀ b ∈ bs, b.wf o.maxSection ∧ checkBlock H o.trusted b = .ok ()) :
    ∀ fuel, bs.length < fuel → scanAux H o fuel (sectionsBytes bs) = (bs, .eof) := by
  induction bs with
  | nil =>
    intro fuel hf
    cases fuel with
    | zero => omega
    | succ f => simp [scanAux, sectionsBytes, nextBlock_nil]
  | cons b tl ih =>
    intro fuel hf
    cases fuel with
    | zero => omega
    | succ f =>
      have hb := hwf b (by simp)
      have : sectionsBytes (b :: tl) = sectionBytes b ++ sectionsBytes tl := by simp [sectionsBytes]
      rw [this, scanAux, nextBlock_section H o b _ hb.1 hb.2]
      simp only
      rw [ih (fun x hx => hwf x (by simp [hx])) f (by simpa using hf)]

theorem sectionsBytes_length_ge (bs : List Block) : bs.length ≤ (sectionsBytes bs).length := by
  induction bs with
  | nil => simp [sectionsBytes]
  | cons b tl ih =>
    have : sectionsBytes (b :: tl) = sectionBytes b ++ sectionsBytes tl := by simp [sectionsBytes]
    rw [this, List.length_append, sectionBytes_length]
    have := uvarintSize_pos (b.cid.byteLen + b.data.length)
    simp only [List.length_cons, sectionSize]
    omega

/-- Scanning the concatenation of well-formed, honest sections returns exactly them, then a clean end. -/
theorem scanSections_sections (H : HashFn) (o : ReadOpts) (bs : List Block)
    (hwf : ∀ b ∈ bs, b.wf o.maxSection ∧ checkBlock H o.trusted b = .ok ()) :
    scanSections H o (sectionsBytes bs) = (bs, .eof) := by
  unfold scanSections
  exact scanAux_sections H o bs hwf _ (by have := sectionsBytes_length_ge bs; omega)

end Car
