import CarModel.Bytes
namespace Car

theorem bytesLt_irrefl : ∀ a : Bytes, bytesLt a a = false
  | [] => rfl
  | x :: xs => by simp [bytesLt, bytesLt_irrefl xs]

theorem bytesLt_trichotomy : ∀ a b : Bytes, bytesLt a b = true ∨ a = b ∨ bytesLt b a = true
  | [], [] => Or.inr (Or.inl rfl)
  | [], _ :: _ => Or.inl rfl
  | _ :: _, [] => Or.inr (Or.inr rfl)
  | x :: xs, y :: ys => by
    by_cases h1 : x.toNat < y.toNat
    · left; simp [bytesLt, h1]
    · by_cases h2 : y.toNat < x.toNat
      · right; right; simp [bytesLt, h2]
      · have hxy : x = y := UInt8.toNat_inj.mp (by omega)
        subst hxy
        rcases bytesLt_trichotomy xs ys with h | h | h
        · left; simp [bytesLt, h]
        · right; left; rw [h]
        · right; right; simp [bytesLt, h]

theorem bytesLt_asymm : ∀ a b : Bytes, bytesLt a b = true → bytesLt b a = false
  | [], [], h => by simp [bytesLt] at h
  | [], _ :: _, _ => rfl
  | _ :: _, [], h => by simp [bytesLt] at h
  | x :: xs, y :: ys, h => by
    unfold bytesLt at h ⊢
    by_cases h1 : x.toNat < y.toNat
    · have : ¬ y.toNat < x.toNat := by omega
      simp [this, h1]
    · by_cases h2 : y.toNat < x.toNat
      · simp [h1, h2] at h
      · simp only [h1, h2, ↓reduceIte] at h ⊢
        exact bytesLt_asymm xs ys h

theorem bytesLt_trans : ∀ a b c : Bytes, bytesLt a b = true → bytesLt b c = true → bytesLt a c = true
  | [], [], _, h, _ => by simp [bytesLt] at h
  | [], _ :: _, [], _, h => by simp [bytesLt] at h
  | [], _ :: _, _ :: _, _, _ => rfl
  | _ :: _, [], _, h, _ => by simp [bytesLt] at h
  | _ :: _, _ :: _, [], _, h => by simp [bytesLt] at h
  | x :: xs, y :: ys, z :: zs, h1, h2 => by
    unfold bytesLt at h1 h2 ⊢
    by_cases hxy : x.toNat < y.toNat
    · by_cases hyz : y.toNat < z.toNat
      · have : x.toNat < z.toNat := by omega
        simp [this]
      · by_cases hzy : z.toNat < y.toNat
        · simp [hyz, hzy] at h2
        · have : x.toNat < z.toNat := by omega
          simp [this]
    · by_cases hyx : y.toNat < x.toNat
      · simp [hxy, hyx] at h1
      · simp only [hxy, hyx, ↓reduceIte] at h1
        have exy : x.toNat = y.toNat := by omega
        by_cases hyz : y.toNat < z.toNat
        · have : x.toNat < z.toNat := by omega
          simp [this]
        · by_cases hzy : z.toNat < y.toNat
          · simp [hyz, hzy] at h2
          · simp only [hyz, hzy, ↓reduceIte] at h2
            have h3 : ¬ x.toNat < z.toNat := by omega
            have h4 : ¬ z.toNat < x.toNat := by omega
            simp only [h3, h4, ↓reduceIte]
            exact bytesLt_trans xs ys zs h1 h2

theorem bytesLe_total (a b : Bytes) : (bytesLe a b || bytesLe b a) = true := by
  unfold bytesLe
  rcases bytesLt_trichotomy a b with h | h | h
  · simp [bytesLt_asymm a b h]
  · subst h; simp [bytesLt_irrefl]
  · simp [bytesLt_asymm b a h]

theorem bytesLe_trans (a b c : Bytes) (h1 : bytesLe a b = true) (h2 : bytesLe b c = true) : bytesLe a c = true := by
  unfold bytesLe at *
  simp only [Bool.not_eq_true'] at *
  -- ¬ b < a, ¬ c < b ⊢ ¬ c < a
  cases hca : bytesLt c a with
  | false => rfl
  | true =>
    rcases bytesLt_trichotomy a b with h | h | h
    · have := bytesLt_trans c a b hca h; rw [h2] at this; cases this
    · subst h; rw [h2] at hca; cases hca
    · rw [h1] at h; cases h

theorem bytesLe_antisymm (a b : Bytes) (h1 : bytesLe a b = true) (h2 : bytesLe b a = true) : a = b := by
  unfold bytesLe at *
  simp only [Bool.not_eq_true'] at *
  rcases bytesLt_trichotomy a b with h | h | h
  · rw [h2] at h; cases h
  · exact h
  · rw [h1] at h; cases h

end Car
