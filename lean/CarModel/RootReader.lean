import CarModel.Section
/-
The root module (`github.com/ipld/go-car`, CARv1 only): `util.LdRead/ReadNode`, `car.ReadHeader`,
`CarReader.Next`, `LoadCar`. Differences from the v2 module that matter: stdlib varint decoder
(non-minimal accepted, 10 bytes), fixed 32 MiB limit, the CID is parsed with `CidFromReader` over
the section bytes, and a zero-length section surfaces as a clean `io.EOF` (CidFromReader on an
empty buffer returns raw io.EOF).
-/
namespace Car

def rootMaxSection : Nat := 32 * 2 ^ 20

/-- root `util.LdRead` (with the repaired EOF mapping, fixed C02/D1). -/
def rootLdRead (bs : Bytes) : Except Err (Bytes × Bytes) :=
  match bs with
  | [] => .error .eof
  | _ =>
    match readUvarintStd bs with
    | .error .eof => .error .unexpectedEOF
    | .error e => .error (verr e)
    | .ok (l, rest) =>
      if l > rootMaxSection then .error .tooLarge
      else if rest.length < l then .error .unexpectedEOF
      else .ok (rest.take l, rest.drop l)

/-- root `util.ReadNode`. -/
def rootReadNode (bs : Bytes) : Except Err (Block × Bytes) :=
  match rootLdRead bs with
  | .error e => .error e
  | .ok (sec, rest) =>
    match cidFromReader sec with
    | .error .eof => .error .eof
    | .error .invalid => .error .badCid
    | .ok (n, c, _) => .ok (⟨c, sec.drop n⟩, rest)

def rootNext (H : HashFn) (bs : Bytes) : Except Err (Block × Bytes) :=
  match rootReadNode bs with
  | .error e => .error e
  | .ok (b, rest) =>
    match checkBlock H false b with
    | .error e => .error e
    | .ok () => .ok (b, rest)

def rootScanAux (H : HashFn) : Nat → Bytes → List Block × Err
  | 0, _ => ([], .other)
  | fuel + 1, bs =>
    match rootNext H bs with
    | .error e => ([], e)
    | .ok (b, rest) => let r := rootScanAux H fuel rest; (b :: r.1, r.2)

/-- `car.NewCarReaderWithOptions` + `Next` loop (also what `LoadCar` feeds its store). -/
def scanRoot (H : HashFn) (errorOnEmptyRoots : Bool) (bs : Bytes) : Except Err ScanResult :=
  match rootLdRead bs with
  | .error e => .error e
  | .ok (hb, rest) =>
    match decodeHeaderBody hb with
    | .error .invalid => .error .badHeader
    | .error .nonCanonical => .error .nonCanonical
    | .ok h =>
      if h.version ≠ 1 then .error .badVersion
      else if errorOnEmptyRoots ∧ h.rootList = [] then .error .noRoots
      else let r := rootScanAux H (rest.length + 1) rest; .ok ⟨h.rootList, r.1, r.2⟩

end Car
