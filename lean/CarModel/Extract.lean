import CarModel.FsModel
/-
`car extract` (cmd/car/lib/extract.go) over the file-system model.

The UnixFS engine (go-unixfsnode: block loading, Reify, HAMT iteration, file reassembly) is a
parameter: what it yields while `extractDir` recurses is a flat trace of events, in the order the
code meets them. Every theorem quantifies over ALL traces — any names, any targets, any order,
any nesting, whether or not a real DAG could produce them.
-/
namespace Car.Extract
open Car Car.FS

/-- `path.Join(outputPath, name)` on a rooted path, in component space: `.`/empty dropped, `..`
    pops (and stops at the root). -/
def pushSeg (cur : P) (s : Seg) : P :=
  if s = [] ∨ s = dot then cur else if s = dotdot then cur.dropLast else cur ++ [s]

def joinRooted (cur : P) (name : Bytes) : P := (splitSegs name).foldl pushSeg cur

/-- `resolvePath(root, pth)`: `joined = root/pth`; the parent of `joined` must be its own
    `EvalSymlinks` image, and `joined` itself must not be a symlink (repair of D14). -/
def resolvePath (fs : Fs) (root : P) (p : P) : Except Errno P :=
  let joined := root ++ p
  let base := joined.dropLast
  match evalSymlinks fs base with
  | .error e => .error e
  | .ok final =>
    if final ≠ base then .error .redirect else
    match lstat fs joined with
    | .ok (.link _) => .error .redirect
    | _ => .ok joined

/-- What the engine hands to `extractDir`, flattened in visiting order. -/
inductive Ev where
  | enter (name : Bytes)                      -- entry is a (plain or sharded) directory: recurse
  | leave                                     -- that directory's iteration is over
  | file (name : Bytes) (d : Bytes) (ok : Bool)  -- entry is a file; `d` = bytes copied before the copy ended, `ok` = it ended well
  | sym (name : Bytes) (t : Bytes)            -- entry is a symlink with target `t`
  | missing (name : Bytes)                    -- entry's block is not in the archive: skipped
  | bad (name : Bytes)                        -- entry cannot be decoded / unknown type: abort
  | fail                                      -- the iterator itself failed: abort
  deriving Repr

structure St where
  fs : Fs
  stack : List P          -- `outputPath` of the directories being extracted, innermost first

def St.cur (st : St) : P := st.stack.headD []

/-- One event. Every entry starts with `resolvePath(outputRoot, path.Join(outputPath, name))`. -/
def stepEv (root : P) (st : St) : Ev → St × Except Errno Unit
  | .leave => ({ st with stack := st.stack.tail }, .ok ())
  | .fail => (st, .error .engine)
  | .missing name =>
    match resolvePath st.fs root (joinRooted st.cur name) with
    | .error e => (st, .error e)
    | .ok _ => (st, .ok ())
  | .bad name =>
    match resolvePath st.fs root (joinRooted st.cur name) with
    | .error e => (st, .error e)
    | .ok _ => (st, .error .engine)
  | .file name d ok =>
    match resolvePath st.fs root (joinRooted st.cur name) with
    | .error e => (st, .error e)
    | .ok dst =>
      match create st.fs dst d with
      | (fs', .error e) => ({ st with fs := fs' }, .error e)
      | (fs', .ok ()) => ({ st with fs := fs' }, if ok then .ok () else .error .engine)
  | .sym name t =>
    match resolvePath st.fs root (joinRooted st.cur name) with
    | .error e => (st, .error e)
    | .ok dst =>
      match symlink st.fs t dst with
      | (fs', r) => ({ st with fs := fs' }, r)
  | .enter name =>
    let p := joinRooted st.cur name
    match resolvePath st.fs root p with
    | .error e => (st, .error e)
    | .ok _ =>
      -- extractDir(outputPath = p): resolvePath again, MkdirAll
      match resolvePath st.fs root p with
      | .error e => (st, .error e)
      | .ok dirPath =>
        match mkdirAll st.fs dirPath with
        | (fs', .error e) => ({ st with fs := fs' }, .error e)
        | (fs', .ok ()) => ({ fs := fs', stack := p :: st.stack }, .ok ())

def runEvs (root : P) : St → List Ev → St × Except Errno Unit
  | st, [] => (st, .ok ())
  | st, e :: es =>
    match stepEv root st e with
    | (st', .error err) => (st', .error err)
    | (st', .ok ()) => runEvs root st' es

/-- What a root of the archive turns out to be. -/
inductive Root where
  | raw                                   -- raw codec: skipped before anything is touched
  | fail                                  -- root block missing / not dag-pb / Reify fails
  | dir (evs : List Ev)                   -- a directory
  | file (d : Bytes) (ok : Bool)          -- a file: written to `<out>/unknown`
  | other                                 -- some other UnixFS type: directory made, nothing written
  deriving Repr

/-- `ExtractToDir` for one root. -/
def extractRoot (fs : Fs) (outDir : P) : Root → Fs × Except Errno Unit
  | .raw => (fs, .ok ())
  | .fail => (fs, .error .engine)
  | r =>
    match evalSymlinks fs outDir with
    | .error e => (fs, .error e)
    | .ok root =>
      -- extractDir(outputPath = "/")
      match resolvePath fs root [] with
      | .error e => (fs, .error e)
      | .ok dirPath =>
        match mkdirAll fs dirPath with
        | (fs1, .error e) => (fs1, .error e)
        | (fs1, .ok ()) =>
          match r with
          | .dir evs =>
            let (st, res) := runEvs root { fs := fs1, stack := [[]] } evs
            (st.fs, res)
          | .file d ok =>
            match resolvePath fs1 root [[0x75, 0x6E, 0x6B, 0x6E, 0x6F, 0x77, 0x6E]] with   -- "unknown"
            | .error e => (fs1, .error e)
            | .ok dst =>
              match create fs1 dst d with
              | (fs2, .error e) => (fs2, .error e)
              | (fs2, .ok ()) => (fs2, if ok then .ok () else .error .engine)
          | _ => (fs1, .ok ())

/-- The loop over the roots: the first error ends the command. -/
def extractAll (outDir : P) : Fs → List Root → Fs × Except Errno Unit
  | fs, [] => (fs, .ok ())
  | fs, r :: rs =>
    match extractRoot fs outDir r with
    | (fs', .error e) => (fs', .error e)
    | (fs', .ok ()) => extractAll outDir fs' rs

end Car.Extract
