import CarModel.Index
/-
`index.InsertionIndex`: an LLRB tree keyed by digest that admits duplicates. GoLLRB's
`InsertNoReplace` places an equal key to the right, and rotations preserve in-order sequence, so
in-order iteration is the insertion-stable order by digest. The model is that ordered list
(GoLLRB itself is trusted; validated by the correspondence run).
-/
namespace Car

abbrev InsIndex := List Record

/-- `InsertNoReplace`: after every record whose digest is ≤ the new one. -/
def InsIndex.insert (ix : InsIndex) (r : Record) : InsIndex :=
  match ix with
  | [] => [r]
  | y :: ys => if bytesLe y.cid.digest r.cid.digest then y :: InsIndex.insert ys r else r :: y :: ys

def InsIndex.load (ix : InsIndex) (rs : List Record) : InsIndex := rs.foldl InsIndex.insert ix

/-- `GetAll`: offsets of all records with this digest, in iteration order. -/
def InsIndex.getAll (ix : InsIndex) (c : Cid) : List Nat :=
  (ix.filter fun r => r.cid.digest == c.digest).map (·.offset)

/-- `Get`: is there a record with this **digest** (hash code ignored)? -/
def InsIndex.hasDigest (ix : InsIndex) (c : Cid) : Bool := ix.any fun r => r.cid.digest == c.digest

/-- `HasExactCID`. -/
def InsIndex.hasExactCid (ix : InsIndex) (c : Cid) : Bool := ix.any fun r => r.cid == c

/-- `HasMultihash`: same digest and same multihash bytes (code, length, digest). -/
def InsIndex.hasMultihash (ix : InsIndex) (c : Cid) : Bool :=
  ix.any fun r => r.cid.digest == c.digest && r.cid.mhCode == c.mhCode

/-- `Flatten(codec)`: records in iteration order, loaded into a fresh on-disk index. -/
def InsIndex.flatten (ix : InsIndex) (codec : Nat) : Option Index := Index.load codec ix

/-- `ForEachCid`. -/
def InsIndex.cids (ix : InsIndex) : List Cid := ix.map (·.cid)

end Car
