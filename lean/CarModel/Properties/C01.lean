import CarModel.Proofs.Finalize
import CarModel.Proofs.IndexGen
import CarModel.RootReader
import CarModel.Proofs.RootRoundtrip
/-
C01 — Round-trip: every writer's output reads back identically via every reader.
Writers are the `Store` machine (blockstore.ReadWrite, storage.StorageCar incl. the stream and
deferred front ends, which funnel into the same code) in CARv1 or CARv2 mode; readers are the
v2 BlockReader (seekable / plain), the internal CARv1 reader and the payload reader.
-/
namespace Car.C01
open Car

/-- Primitive round-trips the rest is built from. -/
theorem uvarint_roundtrip (n : Nat) (h : n < 2 ^ 63) (rest : Bytes) :
    readUvarint (uvarint n ++ rest) = .ok (n, rest) ∧ (uvarint n).length = uvarintSize n :=
  ⟨readUvarint_uvarint n h rest, uvarint_length n⟩

theorem cid_roundtrip (c : Cid) (hwf : c.wf) (rest : Bytes) :
    cidFromBytes (c.bytes ++ rest) = .ok (c.byteLen, c) ∧
    (c.digest.length ≤ maxDigestAlloc → cidFromReader (c.bytes ++ rest) = .ok (c.byteLen, c, rest)) :=
  ⟨cidFromBytes_bytes c hwf rest, fun hd => cidFromReader_bytes c hwf hd rest⟩

/-- Header: decode ∘ encode = id for every well-formed header; nil and empty root lists both read
    back as "no roots"; `HeaderSize`/`LdSize` is the encoded length. -/
theorem header_roundtrip (h : CarHeader) (hwf : h.wf) :
    decodeHeaderBody (encodeHeaderBody h) = .ok h ∧ headerSize h = (encodeHeader h).length :=
  ⟨decodeHeaderBody_encode h hwf, rfl⟩

theorem section_framing (b : Block) : (sectionBytes b).length = sectionSize b := sectionBytes_length b

/-- **All writers emit a byte-identical CARv1 payload for the same logical content**: under the
    representation invariant the payload window of the file is `payload roots log`, a function of
    the roots and the stored blocks only — not of the API, the container version, the paddings or
    the index codec. -/
theorem writers_same_payload (o o' : WOpts) (roots : Option (List Cid)) (s s' : Store) (log : List Block)
    (inv : Inv o roots s log) (inv' : Inv o' roots s' log) :
    ∃ t t', s.payloadBytes = payload roots log ++ t ∧ s'.payloadBytes = payload roots log ++ t' := by
  obtain ⟨hb, ⟨h40, tail, h40l, hf, _⟩, _, _, _⟩ := inv
  obtain ⟨hb', ⟨h40', tail', h40l', hf', _⟩, _, _, _⟩ := inv'
  refine ⟨tail, tail', ?_, ?_⟩
  · unfold Store.payloadBytes
    rw [hf, hb, List.append_assoc, List.drop_left' (o.filePrefix_length h40 h40l)]
  · unfold Store.payloadBytes
    rw [hf', hb', List.append_assoc, List.drop_left' (o'.filePrefix_length h40' h40l')]

/-- CARv1 mode, any put history: the finished file read by the internal CARv1 reader and by the
    v2 block reader (seekable or plain) gives back the roots and exactly the stored blocks in order. -/
theorem roundtrip_v1 (H : HashFn) (ro : ReadOpts) (o : WOpts) (roots : Option (List Cid)) (s : Store) (log : List Block)
    (inv : Inv o roots s log) (hopen : s.finalized = false ∧ s.closed = false) (hv1 : o.v1 = true)
    (ok : PayloadOK H ro roots log) (seek : Bool) :
    scanBlockReader H ro seek s.file = .ok ⟨roots.getD [], log, .eof⟩ ∧
    (roots.getD [] ≠ [] → scanV1 H ro true s.file = .ok ⟨roots.getD [], log, .eof⟩) := by
  obtain ⟨_, ⟨h40, tail, _, hf, ht⟩, _, _, _⟩ := inv
  have := ht hopen.1 hopen.2
  subst this
  have hfile : s.file = payload roots log := by rw [hf]; simp [WOpts.filePrefix, hv1]
  rw [hfile]
  exact ⟨scanBlockReader_v1 H ro seek roots log ok, fun hr => scanV1_payload H ro true roots log ok (fun _ => hr)⟩

/-- CARv2 mode, any put history, any paddings, either index codec: Finalize's output read by the
    v2 block reader gives back the roots and exactly the stored blocks in order. -/
theorem roundtrip_v2 (H : HashFn) (ro : ReadOpts) (o : WOpts) (roots : Option (List Cid)) (s : Store) (log : List Block)
    (ix : Index) (inv : Inv o roots s log) (hopen : s.finalized = false ∧ s.closed = false) (hv2 : o.v1 = false)
    (hix : s.idx.flatten o.codec = some ix) (h64 : 51 + o.dataPad + o.indexPad + s.pos < 2 ^ 64)
    (ok : PayloadOK H ro roots log) (h10 : 10 ≤ ro.maxHeader)
    (lok : LayoutOK o.dataPad o.indexPad (payload roots log).length) (seek : Bool) :
    ∃ evs, s.finalizeEvs o = some evs ∧
      scanBlockReader H ro seek (applyWrites s.file evs) = .ok ⟨roots.getD [], log, .eof⟩ := by
  obtain ⟨evs, he, hf⟩ := finalize_file o roots s log ix inv hopen hv2 hix h64
  exact ⟨evs, he, by rw [hf]; exact scanBlockReader_v2 H ro seek o.dataPad o.indexPad roots log true o.storeIdentity ix.bytes ok h10 lok⟩

/-- The root module's reader (`car.NewCarReader` + `Next`, what `LoadCar` feeds its store; stdlib varint
    decoder, fixed 32 MiB limit, `CidFromReader`): CARv1 mode, any put history — the finished file reads
    back as the roots and exactly the stored blocks in order, clean EOF. -/
theorem roundtrip_root_reader (H : HashFn) (o : WOpts) (roots : Option (List Cid)) (s : Store) (log : List Block)
    (inv : Inv o roots s log) (hopen : s.finalized = false ∧ s.closed = false) (hv1 : o.v1 = true)
    (hwf : (CarHeader.mk roots 1).wf) (hmax : (encodeHeaderBody ⟨roots, 1⟩).length ≤ rootMaxSection)
    (hok : ∀ b ∈ log, b.rootOk ∧ checkBlock H false b = .ok ()) :
    scanRoot H false s.file = .ok ⟨roots.getD [], log, .eof⟩ := by
  obtain ⟨_, ⟨h40, tail, _, hf, ht⟩, _, _, _⟩ := inv
  have := ht hopen.1 hopen.2
  subst this
  have hfile : s.file = payload roots log := by rw [hf]; simp [WOpts.filePrefix, hv1]
  rw [hfile]
  exact scanRoot_payload H false roots log hwf hmax (by intro h; cases h) hok

/-- The same payload through index generation: `LoadIndex` sees exactly the stored sections. -/
theorem roundtrip_index (kind : SrcKind) (io : IdxOpts) (o : WOpts) (roots : Option (List Cid)) (log : List Block)
    (index : Bytes) (hwf : (CarHeader.mk roots 1).wf) (hmax : (encodeHeaderBody ⟨roots, 1⟩).length ≤ io.maxHeader)
    (h63 : (encodeHeaderBody ⟨roots, 1⟩).length < 2 ^ 63) (h10 : 10 ≤ io.maxHeader)
    (lok : LayoutOK o.dataPad o.indexPad (payload roots log).length) (hok : ∀ b ∈ log, b.idxOk io) :
    loadIndexRecords kind io (layoutV2 o.dataPad o.indexPad (payload roots log) true o.storeIdentity index)
      = .ok (keptRecords io (headerSize ⟨roots, 1⟩) log) :=
  loadIndexRecords_v2 kind io o.dataPad o.indexPad roots log true o.storeIdentity index hwf hmax h63 h10 lok hok

/-- Non-vacuity of `roundtrip_root_reader`: a concrete sha2-256 block meets the root reader's premises. -/
example : (⟨⟨1, 0x55, 0x12, List.replicate 32 1⟩, [1, 2]⟩ : Block).rootOk := by
  refine ⟨Or.inr ⟨rfl, by decide, by decide, by decide⟩, by decide, ?_⟩
  simp [Cid.byteLen, Cid.bytes, Cid.mhBytes, uvarint_small, rootMaxSection]

/-- Non-vacuity: a concrete header is well-formed. -/
example : (CarHeader.mk (some [⟨1, 0x55, 0, [1]⟩]) 1).wf := by
  refine ⟨?_, by simp [CarHeader.rootList], by decide⟩
  intro c hc
  simp [CarHeader.rootList] at hc
  subst hc
  exact Or.inr ⟨rfl, by decide, by decide, by decide⟩

end Car.C01
