import CarModel.ReadOnly
import CarModel.Proofs.StoreGet
import CarModel.Proofs.ReadOnlyOpen
import CarModel.Proofs.IndexWf
import CarModel.Proofs.IndexSer
/-
C07 — Read-only random access agrees with a sequential scan of the same archive.
-/
namespace Car.C07
open Car

/-- An index is *sound and complete* for the blocks `log` laid out after an `h`-byte header: every
    offset it returns is the start of a section, and for every section carrying the key its offset
    is among those returned for the key. (C03 establishes this for generated indexes; embedded
    indexes written by the library's writers satisfy it by C05/C11.) -/
structure IndexOK (o : WOpts) (getAll : Cid → List Nat) (h : Nat) (log : List Block) : Prop where
  sound : ∀ key, ∀ off ∈ getAll key, ∃ l1 b l2, log = l1 ++ b :: l2 ∧ off = h + (sectionsBytes l1).length
  complete : ∀ l1 b l2 key, log = l1 ++ b :: l2 → Spec.sameKey o b.cid key = true →
    h + (sectionsBytes l1).length ∈ getAll key

/-- (1) Random access = scan, for any sound-and-complete index (embedded, generated or supplied, of
    any codec): `FindCid` finds a section carrying the key — reporting that section's exact bytes
    and size — iff the front-to-back scan contains one; otherwise not-found. Never an error, never
    the bytes of a block that does not carry the key (the CID at every candidate offset is
    confirmed, so a digest-only index cannot mislead it). -/
theorem findCid_eq_scan (o : WOpts) (roots : Option (List Cid)) (log : List Block) (tail : Bytes)
    (getAll : Cid → List Nat) (hidx : IndexOK o getAll (headerSize ⟨roots, 1⟩) log)
    (hlog : ∀ b ∈ log, b.getOk o) (key : Cid) (readBytes : Bool) :
    (∃ b d n dataOff, findCidAux o (payload roots log ++ tail) key readBytes (getAll key) = .ok (some (d, n, dataOff)) ∧
        b ∈ log ∧ Spec.sameKey o b.cid key = true ∧ n = b.data.length ∧ (readBytes = true → d = b.data) ∧
        (readBytes = false → ((payload roots log ++ tail).drop dataOff).take n = b.data)) ∨
    (findCidAux o (payload roots log ++ tail) key readBytes (getAll key) = .ok none ∧
        ∀ b ∈ log, Spec.sameKey o b.cid key = false) := by
  rcases findCidAux_log o roots log tail key readBytes hlog (getAll key) (hidx.sound key) with h | ⟨hf, hnone⟩
  · exact Or.inl h
  · right
    refine ⟨hf, ?_⟩
    intro b hb
    obtain ⟨l1, l2, hl⟩ := List.append_of_mem hb
    cases hk : Spec.sameKey o b.cid key with
    | false => rfl
    | true =>
      have hin := hidx.complete l1 b l2 key hl hk
      have := hnone _ hin l1 b l2 hl rfl
      rw [hk] at this; exact this

/-- (2) The API results on a read-only store over a valid payload: Has is true iff some section
    carries the key (or the IdStore rule applies); Get returns the bytes of such a section. -/
theorem ro_has_get (o : WOpts) (roots : Option (List Cid)) (log : List Block) (r : ReadOnly)
    (hp : r.payload = payload roots log) (hapi : r.api = .blockstore)
    (hidx : IndexOK o r.idx.getAll (headerSize ⟨roots, 1⟩) log) (hlog : ∀ b ∈ log, b.getOk o)
    (c : Cid) (hid : identityShortcut o c = false) :
    (r.step o (.has c) = .bool (log.any fun b => Spec.sameKey o b.cid c)) ∧
    ((∃ b ∈ log, Spec.sameKey o b.cid c = true ∧ r.step o (.get c) = .data b.data) ∨
     ((∀ b ∈ log, Spec.sameKey o b.cid c = false) ∧ r.step o (.get c) = .err .notFound)) := by
  have hpl : r.payload = payload roots log ++ [] := by simp [hp]
  constructor
  · rcases findCid_eq_scan o roots log [] r.idx.getAll hidx hlog c false with ⟨b, d, n, off, hf, hm, hs, _⟩ | ⟨hf, hnone⟩
    · simp only [List.append_nil] at hf
      simp only [ReadOnly.step, hid, Bool.false_eq_true, ↓reduceIte, ReadOnly.findCid, hp, hf]
      congr 1
      exact (List.any_eq_true.mpr ⟨b, hm, hs⟩).symm
    · simp only [List.append_nil] at hf
      simp only [ReadOnly.step, hid, Bool.false_eq_true, ↓reduceIte, ReadOnly.findCid, hp, hf]
      congr 1
      symm
      rw [List.any_eq_false]
      intro b hb; simp [hnone b hb]
  · rcases findCid_eq_scan o roots log [] r.idx.getAll hidx hlog c true with ⟨b, d, n, off, hf, hm, hs, _, h1, _⟩ | ⟨hf, hnone⟩
    · left
      refine ⟨b, hm, hs, ?_⟩
      simp only [List.append_nil] at hf
      simp [ReadOnly.step, hid, hapi, ReadOnly.findCid, hp, hf, h1 rfl]
    · right
      simp only [List.append_nil] at hf
      exact ⟨hnone, by simp [ReadOnly.step, hid, hapi, ReadOnly.findCid, hp, hf]⟩

/-- (3) The two APIs agree: on the same store contents the storage CAR's Get (section window read)
    and the blockstore's Get (ReadNode) return the same bytes. -/
theorem blockstore_eq_storage (o : WOpts) (roots : Option (List Cid)) (log : List Block) (rb rs : ReadOnly)
    (hpb : rb.payload = payload roots log) (hps : rs.payload = payload roots log)
    (hab : rb.api = .blockstore) (has : rs.api = .storage) (hsame : rb.idx.getAll = rs.idx.getAll)
    (hidx : IndexOK o rb.idx.getAll (headerSize ⟨roots, 1⟩) log) (hlog : ∀ b ∈ log, b.getOk o)
    (hcons : ∀ a ∈ log, ∀ b ∈ log, Spec.sameKey o a.cid b.cid = true → a.data = b.data)
    (c : Cid) (hid : identityShortcut o c = false) :
    (∃ d, rb.step o (.get c) = .data d ∧ rs.step o (.get c) = .data d) ∨
    (rb.step o (.get c) = .err .notFound ∧ rs.step o (.get c) = .err .notFound) := by
  have hplb : rb.payload = payload roots log ++ [] := by simp [hpb]
  have hpls : rs.payload = payload roots log ++ [] := by simp [hps]
  have hidxs : IndexOK o rs.idx.getAll (headerSize ⟨roots, 1⟩) log := by rw [← hsame]; exact hidx
  rcases findCid_eq_scan o roots log [] rb.idx.getAll hidx hlog c true with ⟨b, d, n, off, hf, hm, hs, _, h1, _⟩ | ⟨hf, hnone⟩
  · rcases findCid_eq_scan o roots log [] rs.idx.getAll hidxs hlog c false with ⟨b', d', n', off', hf', hm', hs', hn', _, h2'⟩ | ⟨hf', hnone'⟩
    · left
      simp only [List.append_nil] at hf hf'
      have hd2 := h2' rfl
      simp only [List.append_nil] at hd2
      refine ⟨b.data, by simp [ReadOnly.step, hid, hab, ReadOnly.findCid, hpb, hf, h1 rfl], ?_⟩
      have hbb : b'.data = b.data := by
        apply hcons b' hm' b hm
        -- same key as `c` on both sides
        unfold Spec.sameKey at hs hs' ⊢
        split
        · rename_i hw; simp only [hw, ↓reduceIte, beq_iff_eq] at hs hs'; simp [hs, hs']
        · rename_i hw; simp only [hw, Bool.false_eq_true, ↓reduceIte, Bool.and_eq_true, beq_iff_eq] at hs hs'
          simp [hs.1, hs.2, hs'.1, hs'.2]
      simp [ReadOnly.step, hid, has, ReadOnly.findCid, hps, hf', hd2, hbb]
    · exfalso
      have := hnone' b hm
      rw [hs] at this; cases this
  · right
    rcases findCid_eq_scan o roots log [] rs.idx.getAll hidxs hlog c false with ⟨b', _, _, _, _, hm', hs', _⟩ | ⟨hf', _⟩
    · exfalso
      have := hnone b' hm'
      rw [hs'] at this; cases this
    · simp only [List.append_nil] at hf hf'
      exact ⟨by simp [ReadOnly.step, hid, hab, ReadOnly.findCid, hpb, hf],
             by simp [ReadOnly.step, hid, has, ReadOnly.findCid, hps, hf']⟩

/-- What `OpenReadOnly` builds over a CARv1: the payload itself and an index that is sound and
    complete for it. -/
theorem opened_v1_indexOK (o : WOpts) (roots : Option (List Cid)) (log : List Block) (r : ReadOnly)
    (hopen : openReadOnly .blockstore o .auto (payload roots log) = .ok r)
    (hwf : (CarHeader.mk roots 1).wf) (hmax : (encodeHeaderBody ⟨roots, 1⟩).length ≤ o.maxHeader)
    (h63 : (encodeHeaderBody ⟨roots, 1⟩).length < 2 ^ 63) (hok : ∀ b ∈ log, b.idxOk (roIdxOpts o))
    (hsz : (payload roots log).length < 2 ^ 63)
    (hkept : ∀ b ∈ log, (o.storeIdentity || !b.cid.isIdentity) = true) :
    r.payload = payload roots log ∧ r.api = .blockstore ∧ r.roots = (roots.getD []) ∧
    IndexOK o r.idx.getAll (headerSize ⟨roots, 1⟩) log := by
  have hoffs : ∀ rc ∈ keptRecords (roIdxOpts o) (headerSize ⟨roots, 1⟩) log, rc.offset < 2 ^ 64 := by
    intro rc hrc
    obtain ⟨l1, b, l2, hl, hr⟩ := mem_keptRecords _ _ _ _ hrc
    have : (payload roots log).length = headerSize ⟨roots, 1⟩ + (sectionsBytes log).length := by
      simp [payload, headerSize]
    have h2 : (sectionsBytes l1).length ≤ (sectionsBytes log).length := by
      rw [hl]; simp [sectionsBytes]
    have p : (2:Nat) ^ 63 < 2 ^ 64 := by decide
    rw [hr]; simp only; omega
  unfold openReadOnly at hopen
  simp only [payload] at hopen
  rw [readHeader_encode o.maxHeader ⟨roots, 1⟩ _ hwf hmax h63] at hopen
  simp only [↓reduceIte] at hopen
  have hload := loadIndexRecords_v1 .seekable (roIdxOpts o) roots log hwf hmax h63 hok hsz
  simp only [payload, roIdxOpts] at hload
  rw [hload] at hopen
  simp only at hopen
  cases hl : Index.load o.codec (keptRecords (roIdxOpts o) (headerSize ⟨roots, 1⟩) log) with
  | none => simp only [roIdxOpts] at hl; simp [hl, Except.map] at hopen
  | some ix =>
    simp only [roIdxOpts] at hl
    simp only [hl, Except.map, Except.ok.injEq] at hopen
    subst hopen
    refine ⟨by simp [payload], rfl, rfl, ?_, ?_⟩
    · intro key off hoff
      have := (index_getAll_load o.codec _ ix hl hoffs key off).mp hoff
      obtain ⟨rc, hrc, _, _, ho⟩ := this
      obtain ⟨l1, b, l2, hl1, hr⟩ := mem_keptRecords _ _ _ _ hrc
      exact ⟨l1, b, l2, hl1, by rw [← ho, hr]⟩
    · intro l1 b l2 key hlog hk
      refine (index_getAll_load o.codec _ ix hl hoffs key _).mpr ⟨⟨b.cid, headerSize ⟨roots, 1⟩ + (sectionsBytes l1).length⟩, ?_, ?_, ?_, rfl⟩
      · rw [hlog]; exact keptRecords_complete _ l1 b l2 _ (hkept b (by rw [hlog]; simp))
      · intro _
        unfold Spec.sameKey at hk
        split at hk
        · have := eq_of_beq hk; rw [this]
        · simp only [Bool.and_eq_true, beq_iff_eq] at hk; exact hk.1
      · unfold Spec.sameKey at hk
        split at hk
        · have := eq_of_beq hk; rw [this]
        · simp only [Bool.and_eq_true, beq_iff_eq] at hk; exact hk.2

/-- (4b) The same for `storage.OpenReadable` over a CARv1 (in-memory insertion index built from the records). -/
theorem opened_v1_storage_indexOK (o : WOpts) (roots : Option (List Cid)) (log : List Block) (r : ReadOnly)
    (hopen : openReadOnly .storage o .auto (payload roots log) = .ok r)
    (hwf : (CarHeader.mk roots 1).wf) (hmax : (encodeHeaderBody ⟨roots, 1⟩).length ≤ o.maxHeader)
    (h63 : (encodeHeaderBody ⟨roots, 1⟩).length < 2 ^ 63) (hok : ∀ b ∈ log, b.idxOk (roIdxOpts o))
    (hsz : (payload roots log).length < 2 ^ 63)
    (hkept : ∀ b ∈ log, (o.storeIdentity || !b.cid.isIdentity) = true) :
    r.payload = payload roots log ∧ r.api = .storage ∧ r.roots = (roots.getD []) ∧
    IndexOK o r.idx.getAll (headerSize ⟨roots, 1⟩) log := by
  unfold openReadOnly at hopen
  simp only [payload] at hopen
  rw [readHeader_encode o.maxHeader ⟨roots, 1⟩ _ hwf hmax h63] at hopen
  simp only [↓reduceIte] at hopen
  have hload := loadIndexRecords_v1 .seekable (roIdxOpts o) roots log hwf hmax h63 hok hsz
  simp only [payload, roIdxOpts] at hload
  rw [hload] at hopen
  simp only [Except.map, Except.ok.injEq] at hopen
  subst hopen
  have hmem : ∀ rc, rc ∈ InsIndex.load [] (keptRecords (roIdxOpts o) (headerSize ⟨roots, 1⟩) log) ↔
      rc ∈ keptRecords (roIdxOpts o) (headerSize ⟨roots, 1⟩) log := by
    intro rc
    have := (insIndex_load_perm (keptRecords (roIdxOpts o) (headerSize ⟨roots, 1⟩) log) []).mem_iff (a := rc)
    simpa using this
  refine ⟨by simp [payload], rfl, rfl, ?_, ?_⟩
  · intro key off hoff
    simp only [AnyIndex.getAll, InsIndex.getAll, List.mem_map, List.mem_filter] at hoff
    obtain ⟨rc, ⟨hrc, _⟩, ho⟩ := hoff
    obtain ⟨l1, b, l2, hl1, hr⟩ := mem_keptRecords _ _ _ _ ((hmem rc).mp hrc)
    exact ⟨l1, b, l2, hl1, by rw [← ho, hr]⟩
  · intro l1 b l2 key hlog hk
    simp only [AnyIndex.getAll, InsIndex.getAll, List.mem_map, List.mem_filter]
    refine ⟨⟨b.cid, headerSize ⟨roots, 1⟩ + (sectionsBytes l1).length⟩, ⟨(hmem _).mpr ?_, ?_⟩, rfl⟩
    · rw [hlog]; exact keptRecords_complete _ l1 b l2 _ (hkept b (by rw [hlog]; simp))
    · unfold Spec.sameKey at hk
      split at hk
      · have := eq_of_beq hk; rw [this]; simp
      · simp only [Bool.and_eq_true, beq_iff_eq] at hk; simp [hk.2]
/-- (4c) A finalised CARv2 with its EMBEDDED index, either API: if the index bytes are the serialisation of
    `Load` of exactly the records of the stored sections (what Finalize writes: C05), the read-only store reads
    the index back (C11 round trip), and it is sound and complete for the payload. -/
theorem opened_v2_embedded_indexOK (api : Api) (o : WOpts) (dp ip : Nat) (roots : Option (List Cid)) (log : List Block)
    (fi : Bool) (codec : Nat) (rs : List Record) (ix : Index) (r : ReadOnly)
    (hix : Index.load codec rs = some ix) (hrec : RecordsOK rs)
    (hrs : ∀ rc, rc ∈ rs ↔ rc ∈ keptRecords (roIdxOpts { o with storeIdentity := true }) (headerSize ⟨roots, 1⟩) log)
    (hopen : openReadOnly api o .auto (layoutV2 dp ip (payload roots log) true fi ix.bytes) = .ok r)
    (hwf : (CarHeader.mk roots 1).wf) (hmax : (encodeHeaderBody ⟨roots, 1⟩).length ≤ o.maxHeader)
    (h63 : (encodeHeaderBody ⟨roots, 1⟩).length < 2 ^ 63) (h10 : 10 ≤ o.maxHeader)
    (lok : LayoutOK dp ip (payload roots log).length) :
    r.payload = payload roots log ∧ r.api = api ∧ r.roots = (roots.getD []) ∧
    IndexOK o r.idx.getAll (headerSize ⟨roots, 1⟩) log := by
  have hp := payload_length_pos roots log
  have hfw := finalHeader_wf dp ip (payload roots log).length true fi hp lok
  have hfile : layoutV2 dp ip (payload roots log) true fi ix.bytes
      = pragma ++ ((finalHeader dp ip (payload roots log).length true fi).bytes ++
          (zeros dp ++ (payload roots log ++ (zeros ip ++ ix.bytes)))) := by simp [layoutV2]
  have hdrop11 : (layoutV2 dp ip (payload roots log) true fi ix.bytes).drop 11
      = (finalHeader dp ip (payload roots log).length true fi).bytes ++
          (zeros dp ++ (payload roots log ++ (zeros ip ++ ix.bytes))) := by
    rw [hfile]; exact List.drop_left' (by decide)
  have htake40 : ((layoutV2 dp ip (payload roots log) true fi ix.bytes).drop 11).take 40
      = (finalHeader dp ip (payload roots log).length true fi).bytes ++ [] := by
    rw [hdrop11, List.take_left' (V2Header.bytes_length _)]; simp
  have hl1 : (pragma ++ ((finalHeader dp ip (payload roots log).length true fi).bytes ++ zeros dp)).length = 51 + dp := by
    simp [V2Header.bytes_length, zeros_length, pragma, pragmaBody, keyVersion]; omega
  have hdropd : (layoutV2 dp ip (payload roots log) true fi ix.bytes).drop (51 + dp)
      = payload roots log ++ (zeros ip ++ ix.bytes) := by
    rw [hfile]
    have e : pragma ++ ((finalHeader dp ip (payload roots log).length true fi).bytes ++
          (zeros dp ++ (payload roots log ++ (zeros ip ++ ix.bytes))))
        = (pragma ++ ((finalHeader dp ip (payload roots log).length true fi).bytes ++ zeros dp))
          ++ (payload roots log ++ (zeros ip ++ ix.bytes)) := by simp
    rw [e, List.drop_left' hl1]
  have hl2 : (pragma ++ ((finalHeader dp ip (payload roots log).length true fi).bytes ++
      (zeros dp ++ (payload roots log ++ zeros ip)))).length = 51 + dp + (payload roots log).length + ip := by
    simp [V2Header.bytes_length, zeros_length, pragma, pragmaBody, keyVersion]; omega
  have hdropi : (layoutV2 dp ip (payload roots log) true fi ix.bytes).drop (51 + dp + (payload roots log).length + ip)
      = ix.bytes ++ [] := by
    rw [hfile]
    have e : pragma ++ ((finalHeader dp ip (payload roots log).length true fi).bytes ++
          (zeros dp ++ (payload roots log ++ (zeros ip ++ ix.bytes))))
        = (pragma ++ ((finalHeader dp ip (payload roots log).length true fi).bytes ++
            (zeros dp ++ (payload roots log ++ zeros ip)))) ++ ix.bytes := by simp
    rw [e, List.drop_left' hl2]; simp
  have hread := index_roundtrip ix (index_load_wf codec rs ix hix hrec) []
  have r1 : readHeader o.maxHeader (layoutV2 dp ip (payload roots log) true fi ix.bytes)
      = .ok (⟨none, 2⟩, (finalHeader dp ip (payload roots log).length true fi).bytes ++
          (zeros dp ++ (payload roots log ++ (zeros ip ++ ix.bytes)))) := by
    rw [hfile]; exact readHeader_pragma o.maxHeader _ h10
  unfold openReadOnly at hopen
  rw [r1] at hopen
  simp only [show ¬ ((2 : Nat) = 1) by decide, ↓reduceIte] at hopen
  have hrv : readV2Header ((finalHeader dp ip (payload roots log).length true fi).bytes ++ [])
      = .ok (finalHeader dp ip (payload roots log).length true fi, []) := readV2Header_bytes _ hfw []
  rw [htake40] at hopen
  simp only [hrv] at hopen
  have hoff : (finalHeader dp ip (payload roots log).length true fi).dataOffset = 51 + dp := by simp [finalHeader]
  have hsz : (finalHeader dp ip (payload roots log).length true fi).dataSize = (payload roots log).length := by simp [finalHeader]
  have hio : (finalHeader dp ip (payload roots log).length true fi).indexOffset
      = 51 + dp + (payload roots log).length + ip := by simp [finalHeader]
  have hhas : (finalHeader dp ip (payload roots log).length true fi).hasIndex = true := by
    simp [V2Header.hasIndex, hio]
  simp only [hoff, hsz, hio, hhas, ↓reduceIte] at hopen
  rw [hdropd, List.take_left' rfl] at hopen
  have hrh : readHeader o.maxHeader (payload roots log) = .ok (⟨roots, 1⟩, sectionsBytes log) := by
    simp only [payload]; exact readHeader_encode o.maxHeader ⟨roots, 1⟩ _ hwf hmax h63
  rw [hrh] at hopen
  simp only at hopen
  rw [hdropi, hread] at hopen
  simp only [Except.map, Except.ok.injEq] at hopen
  subst hopen
  have hoffs : ∀ rc ∈ rs, rc.offset < 2 ^ 64 := hrec.off
  refine ⟨by simp [payload], rfl, rfl, ?_, ?_⟩
  · intro key off hoff
    obtain ⟨rc, hrc, _, _, ho⟩ := (index_getAll_load codec rs ix hix hoffs key off).mp hoff
    obtain ⟨l1, b, l2, hl1, hr⟩ := mem_keptRecords _ _ _ _ ((hrs rc).mp hrc)
    exact ⟨l1, b, l2, hl1, by rw [← ho, hr]⟩
  · intro l1 b l2 key hlog hk
    refine (index_getAll_load codec rs ix hix hoffs key _).mpr
      ⟨⟨b.cid, headerSize ⟨roots, 1⟩ + (sectionsBytes l1).length⟩, ?_, ?_, ?_, rfl⟩
    · rw [hrs, hlog]; exact keptRecords_complete _ l1 b l2 _ (by simp [roIdxOpts])
    · intro _
      unfold Spec.sameKey at hk
      split at hk
      · have := eq_of_beq hk; rw [this]
      · simp only [Bool.and_eq_true, beq_iff_eq] at hk; exact hk.1
    · unfold Spec.sameKey at hk
      split at hk
      · have := eq_of_beq hk; rw [this]
      · simp only [Bool.and_eq_true, beq_iff_eq] at hk; exact hk.2
/-- (4d) An index-less CARv2 (any paddings) through the blockstore: the index is generated over the payload
    window, and it is sound and complete for it. -/
theorem opened_v2_indexless_indexOK (o : WOpts) (dp ip : Nat) (roots : Option (List Cid)) (log : List Block)
    (fi : Bool) (r : ReadOnly)
    (hopen : openReadOnly .blockstore o .auto (layoutV2 dp ip (payload roots log) false fi []) = .ok r)
    (hwf : (CarHeader.mk roots 1).wf) (hmax : (encodeHeaderBody ⟨roots, 1⟩).length ≤ o.maxHeader)
    (h63 : (encodeHeaderBody ⟨roots, 1⟩).length < 2 ^ 63) (h10 : 10 ≤ o.maxHeader)
    (lok : LayoutOK dp ip (payload roots log).length) (hok : ∀ b ∈ log, b.idxOk (roIdxOpts o))
    (hsz : (payload roots log).length < 2 ^ 63)
    (hkept : ∀ b ∈ log, (o.storeIdentity || !b.cid.isIdentity) = true) :
    r.payload = payload roots log ∧ r.api = .blockstore ∧ r.roots = (roots.getD []) ∧
    IndexOK o r.idx.getAll (headerSize ⟨roots, 1⟩) log := by
  have hp := payload_length_pos roots log
  have hfw := finalHeader_wf dp ip (payload roots log).length false fi hp lok
  have hfile : layoutV2 dp ip (payload roots log) false fi []
      = pragma ++ ((finalHeader dp ip (payload roots log).length false fi).bytes ++
          (zeros dp ++ (payload roots log ++ []))) := by simp [layoutV2]
  have hdrop11 : (layoutV2 dp ip (payload roots log) false fi []).drop 11
      = (finalHeader dp ip (payload roots log).length false fi).bytes ++ (zeros dp ++ (payload roots log ++ [])) := by
    rw [hfile]; exact List.drop_left' (by decide)
  have htake40 : ((layoutV2 dp ip (payload roots log) false fi []).drop 11).take 40
      = (finalHeader dp ip (payload roots log).length false fi).bytes ++ [] := by
    rw [hdrop11, List.take_left' (V2Header.bytes_length _)]; simp
  have hl1 : (pragma ++ ((finalHeader dp ip (payload roots log).length false fi).bytes ++ zeros dp)).length = 51 + dp := by
    simp [V2Header.bytes_length, zeros_length, pragma, pragmaBody, keyVersion]; omega
  have hdropd : (layoutV2 dp ip (payload roots log) false fi []).drop (51 + dp) = payload roots log ++ [] := by
    rw [hfile]
    have e : pragma ++ ((finalHeader dp ip (payload roots log).length false fi).bytes ++ (zeros dp ++ (payload roots log ++ [])))
        = (pragma ++ ((finalHeader dp ip (payload roots log).length false fi).bytes ++ zeros dp)) ++ (payload roots log ++ []) := by simp
    rw [e, List.drop_left' hl1]
  have r1 : readHeader o.maxHeader (layoutV2 dp ip (payload roots log) false fi [])
      = .ok (⟨none, 2⟩, (finalHeader dp ip (payload roots log).length false fi).bytes ++ (zeros dp ++ (payload roots log ++ []))) := by
    rw [hfile]; exact readHeader_pragma o.maxHeader _ h10
  have hrv : readV2Header ((finalHeader dp ip (payload roots log).length false fi).bytes ++ [])
      = .ok (finalHeader dp ip (payload roots log).length false fi, []) := readV2Header_bytes _ hfw []
  have hoff : (finalHeader dp ip (payload roots log).length false fi).dataOffset = 51 + dp := by simp [finalHeader]
  have hsz' : (finalHeader dp ip (payload roots log).length false fi).dataSize = (payload roots log).length := by simp [finalHeader]
  have hhas : (finalHeader dp ip (payload roots log).length false fi).hasIndex = false := by
    simp [V2Header.hasIndex, finalHeader]
  have hrh : readHeader o.maxHeader (payload roots log) = .ok (⟨roots, 1⟩, sectionsBytes log) := by
    simp only [payload]; exact readHeader_encode o.maxHeader ⟨roots, 1⟩ _ hwf hmax h63
  have hload := loadIndexRecords_v1 .seekable (roIdxOpts o) roots log hwf hmax h63 hok hsz
  simp only [roIdxOpts] at hload
  have hoffs : ∀ rc ∈ keptRecords (roIdxOpts o) (headerSize ⟨roots, 1⟩) log, rc.offset < 2 ^ 64 := by
    intro rc hrc
    obtain ⟨l1, b, l2, hl, hr⟩ := mem_keptRecords _ _ _ _ hrc
    have : (payload roots log).length = headerSize ⟨roots, 1⟩ + (sectionsBytes log).length := by
      simp [payload, headerSize]
    have h2 : (sectionsBytes l1).length ≤ (sectionsBytes log).length := by
      rw [hl]; simp [sectionsBytes]
    have p : (2:Nat) ^ 63 < 2 ^ 64 := by decide
    rw [hr]; simp only; omega
  unfold openReadOnly at hopen
  rw [r1] at hopen
  simp only [show ¬ ((2 : Nat) = 1) by decide, ↓reduceIte] at hopen
  rw [htake40] at hopen
  simp only [hrv] at hopen
  simp only [hoff, hsz', hhas, Bool.false_eq_true, ↓reduceIte] at hopen
  rw [hdropd, List.append_nil, List.take_of_length_le (Nat.le_refl _)] at hopen
  rw [hrh] at hopen
  simp only [hload] at hopen
  cases hl : Index.load o.codec (keptRecords (roIdxOpts o) (headerSize ⟨roots, 1⟩) log) with
  | none => simp only [roIdxOpts] at hl; simp [hl, Except.map] at hopen
  | some ix =>
    simp only [roIdxOpts] at hl
    simp only [hl, Except.map, Except.ok.injEq] at hopen
    subst hopen
    refine ⟨rfl, rfl, rfl, ?_, ?_⟩
    · intro key off hoff'
      obtain ⟨rc, hrc, _, _, ho⟩ := (index_getAll_load o.codec _ ix hl hoffs key off).mp hoff'
      obtain ⟨l1, b, l2, hl1, hr⟩ := mem_keptRecords _ _ _ _ hrc
      exact ⟨l1, b, l2, hl1, by rw [← ho, hr]⟩
    · intro l1 b l2 key hlog hk
      refine (index_getAll_load o.codec _ ix hl hoffs key _).mpr
        ⟨⟨b.cid, headerSize ⟨roots, 1⟩ + (sectionsBytes l1).length⟩, ?_, ?_, ?_, rfl⟩
      · rw [hlog]; exact keptRecords_complete _ l1 b l2 _ (hkept b (by rw [hlog]; simp))
      · intro _
        unfold Spec.sameKey at hk
        split at hk
        · have := eq_of_beq hk; rw [this]
        · simp only [Bool.and_eq_true, beq_iff_eq] at hk; exact hk.1
      · unfold Spec.sameKey at hk
        split at hk
        · have := eq_of_beq hk; rw [this]
        · simp only [Bool.and_eq_true, beq_iff_eq] at hk; exact hk.2
/-- (5) End to end, no index hypothesis: open any CARv1 the writers can emit (every block indexed:
    identity CIDs only under StoreIdentityCIDs) with `blockstore.OpenReadOnly` and either sorted
    codec; then Has says true exactly for the keys some section carries and Get returns the bytes of
    such a section, not-found otherwise — random access over the GENERATED index equals the scan. -/
theorem opened_v1_has_get (o : WOpts) (roots : Option (List Cid)) (log : List Block) (r : ReadOnly)
    (hopen : openReadOnly .blockstore o .auto (payload roots log) = .ok r)
    (hwf : (CarHeader.mk roots 1).wf) (hmax : (encodeHeaderBody ⟨roots, 1⟩).length ≤ o.maxHeader)
    (h63 : (encodeHeaderBody ⟨roots, 1⟩).length < 2 ^ 63) (hok : ∀ b ∈ log, b.idxOk (roIdxOpts o))
    (hsz : (payload roots log).length < 2 ^ 63)
    (hkept : ∀ b ∈ log, (o.storeIdentity || !b.cid.isIdentity) = true)
    (hlog : ∀ b ∈ log, b.getOk o) (c : Cid) (hid : identityShortcut o c = false) :
    (r.step o (.has c) = .bool (log.any fun b => Spec.sameKey o b.cid c)) ∧
    ((∃ b ∈ log, Spec.sameKey o b.cid c = true ∧ r.step o (.get c) = .data b.data) ∨
     ((∀ b ∈ log, Spec.sameKey o b.cid c = false) ∧ r.step o (.get c) = .err .notFound)) := by
  obtain ⟨hp, hapi, _, hidx⟩ := opened_v1_indexOK o roots log r hopen hwf hmax h63 hok hsz hkept
  exact ro_has_get o roots log r hp hapi hidx hlog c hid

/-- (5') The same end-to-end statement for a finalised CARv2 read through its EMBEDDED index by the
    blockstore: Has is true exactly for the keys some section carries, Get returns the bytes of such a
    section, not-found otherwise. -/
theorem opened_v2_has_get (o : WOpts) (dp ip : Nat) (roots : Option (List Cid)) (log : List Block)
    (fi : Bool) (codec : Nat) (rs : List Record) (ix : Index) (r : ReadOnly)
    (hix : Index.load codec rs = some ix) (hrec : RecordsOK rs)
    (hrs : ∀ rc, rc ∈ rs ↔ rc ∈ keptRecords (roIdxOpts { o with storeIdentity := true }) (headerSize ⟨roots, 1⟩) log)
    (hopen : openReadOnly .blockstore o .auto (layoutV2 dp ip (payload roots log) true fi ix.bytes) = .ok r)
    (hwf : (CarHeader.mk roots 1).wf) (hmax : (encodeHeaderBody ⟨roots, 1⟩).length ≤ o.maxHeader)
    (h63 : (encodeHeaderBody ⟨roots, 1⟩).length < 2 ^ 63) (h10 : 10 ≤ o.maxHeader)
    (lok : LayoutOK dp ip (payload roots log).length)
    (hlog : ∀ b ∈ log, b.getOk o) (c : Cid) (hid : identityShortcut o c = false) :
    (r.step o (.has c) = .bool (log.any fun b => Spec.sameKey o b.cid c)) ∧
    ((∃ b ∈ log, Spec.sameKey o b.cid c = true ∧ r.step o (.get c) = .data b.data) ∨
     ((∀ b ∈ log, Spec.sameKey o b.cid c = false) ∧ r.step o (.get c) = .err .notFound)) := by
  obtain ⟨hp, hapi, _, hidx⟩ := opened_v2_embedded_indexOK .blockstore o dp ip roots log fi codec rs ix r hix hrec hrs hopen
    hwf hmax h63 h10 lok
  exact ro_has_get o roots log r hp hapi hidx hlog c hid
/-- Non-vacuity: the empty payload has a (trivially) sound and complete index. -/
example (o : WOpts) : IndexOK o (fun _ => []) 17 [] :=
  ⟨by simp, by intro l1 b l2 _ h; simp at h⟩

end Car.C07
