import CarModel.Proofs.Finalize
import CarModel.Proofs.FactsTie
import CarModel.Proofs.RunRefine
/-
C04 — Writable stores behave as an append-only content-addressed map.
`Rel o roots s st` relates the model of the code (`Store`: file bytes + insertion index + writer
position) to the specification state (`Spec.State`: just the log of stored blocks + typestate).
Every theorem is for all option settings `o`, all root lists, all reachable states.
-/
namespace Car.C04
open Car

/-- A new store is related to the empty log. -/
theorem create_rel (api : Api) (o : WOpts) (roots : Option (List Cid)) :
    Rel o roots (Store.create api o roots).1 { api := api, roots := roots.getD [] } :=
  ⟨create_inv api o roots, rfl, rfl, rfl, rfl⟩

/-- Put of one block: the store gives the specification's answer and stays related to it
    (so: a block is skipped only when its key is already stored or the IdStore rule says so,
    an over-long CID is rejected, otherwise the block is appended). -/
theorem put_refines (o : WOpts) (roots : Option (List Cid)) (s : Store) (st : Spec.State)
    (rel : Rel o roots s st) (hopen : s.finalized = false ∧ s.closed = false) (c : Cid) (d : Bytes) :
    (s.putOne o c d).2.1 = (Spec.putOne o st c d).2 ∧
    Rel o roots (s.putOne o c d).1 (Spec.putOne o st c d).1 :=
  putOne_refines o roots s st rel hopen c d

/-- PutMany, any batch. -/
theorem putMany_refines (o : WOpts) (roots : Option (List Cid)) (bs : List Block) (s : Store) (st : Spec.State)
    (rel : Rel o roots s st) (hopen : s.finalized = false ∧ s.closed = false) :
    (s.putMany o bs).2.1 = (Spec.putMany o st bs).2 ∧ Rel o roots (s.putMany o bs).1 (Spec.putMany o st bs).1 :=
  Car.putMany_refines o roots bs s st rel hopen

/-- An over-long CID is rejected and the store (file, index, position) does not change. -/
theorem oversize_rejected_unchanged (o : WOpts) (s : Store) (c : Cid) (d : Bytes)
    (hid : (!o.storeIdentity && c.isIdentity) = false) (hbig : c.byteLen > o.maxIndexCidSize) :
    s.putOne o c d = (s, .err .cidTooLarge, []) := by
  simp [Store.putOne, shouldPut, hid, hbig]

/-- Has (both APIs, writable mode): present iff the IdStore rule applies or some stored block carries the key. -/
theorem has_refines (o : WOpts) (roots : Option (List Cid)) (s : Store) (st : Spec.State)
    (rel : Rel o roots s st) (c : Cid) :
    (s.step o (.has c)).2.1 = (Spec.step o st (.has c)).2 := by
  have h := storeHas_spec o roots s st rel.inv c
  unfold Store.step Store.stepBlockstore Store.stepStorage Spec.step
  rw [rel.closed]
  cases s.api <;> (by_cases hc : st.closed = true <;> simp [hc, h])

/-- Key listing: a permutation of the stored blocks' keys (the code iterates its index, not the log). -/
theorem allKeys_refines (o : WOpts) (roots : Option (List Cid)) (s : Store) (st : Spec.State)
    (rel : Rel o roots s st) (hopen : s.closed = false) (hapi : s.api = .blockstore) :
    ∃ l l', (s.step o .allKeys).2.1 = .cids l ∧ (Spec.step o st .allKeys).2 = .cids l' ∧ List.Perm l l' := by
  have hc : st.closed = false := by rw [← rel.closed]; exact hopen
  refine ⟨_, _, by simp [Store.step, hapi, Store.stepBlockstore, hopen]; rfl, by simp [Spec.step, hc]; rfl, ?_⟩
  have := (rel.inv.idx.map (·.cid))
  rw [withOffsets_map_cid] at this
  simp only [InsIndex.cids]
  have h2 := this.map (fun c => if o.wholeCids then c else c.toRawV1)
  simp only [List.map_map] at h2 ⊢
  exact h2

/-- The store's payload window under the invariant. -/
theorem payloadBytes_eq (o : WOpts) (roots : Option (List Cid)) (s : Store) (log : List Block) (inv : Inv o roots s log) :
    ∃ tail, s.payloadBytes = payload roots log ++ tail := by
  obtain ⟨hb, ⟨h40, tail, h40l, hf, _⟩, _, _, _⟩ := inv
  refine ⟨tail, ?_⟩
  unfold Store.payloadBytes
  rw [hf, hb, List.append_assoc, List.drop_left' (o.filePrefix_length h40 h40l)]

/-- FindCid against the log: either it finds a stored block carrying the key (and reports that
    block's bytes / size), or no stored block carries the key. Never an error, never foreign bytes. -/
theorem findCid_log (o : WOpts) (roots : Option (List Cid)) (s : Store) (st : Spec.State)
    (rel : Rel o roots s st) (hlog : ∀ b ∈ st.log, b.getOk o) (key : Cid) (readBytes : Bool) :
    (∃ b d n dataOff, s.findCid o key readBytes = .ok (some (d, n, dataOff)) ∧ b ∈ st.log ∧
        Spec.sameKey o b.cid key = true ∧ n = b.data.length ∧ (readBytes = true → d = b.data) ∧
        (readBytes = false → (s.payloadBytes.drop dataOff).take n = b.data)) ∨
    (s.findCid o key readBytes = .ok none ∧ Spec.stored o st key = none) := by
  obtain ⟨tail, hpb⟩ := payloadBytes_eq o roots s st.log rel.inv
  have hoffs : ∀ off ∈ s.idx.getAll key,
      ∃ l1 b l2, st.log = l1 ++ b :: l2 ∧ off = headerSize ⟨roots, 1⟩ + (sectionsBytes l1).length := by
    intro off hoff
    simp only [InsIndex.getAll, List.mem_map, List.mem_filter] at hoff
    obtain ⟨r, ⟨hr, _⟩, hro⟩ := hoff
    obtain ⟨l1, b, l2, hl, hrr⟩ := withOffsets_mem _ _ r (rel.inv.idx.mem_iff.mp hr)
    exact ⟨l1, b, l2, hl, by rw [← hro, hrr]⟩
  unfold Store.findCid
  rw [hpb]
  rcases findCidAux_log o roots st.log tail key readBytes hlog (s.idx.getAll key) hoffs with
    ⟨b, d, n, dOff, hf, hm, hs, hn, h1, h2⟩ | ⟨hf, hnone⟩
  · exact Or.inl ⟨b, d, n, dOff, hf, hm, hs, hn, h1, h2⟩
  · right
    refine ⟨hf, ?_⟩
    -- no stored block carries the key: otherwise its record would be among the candidates
    unfold Spec.stored
    rw [List.find?_eq_none]
    intro b hb hk
    obtain ⟨l1, l2, hl⟩ := List.append_of_mem hb
    have hrec : (⟨b.cid, headerSize ⟨roots, 1⟩ + (sectionsBytes l1).length⟩ : Record) ∈ s.idx := by
      rw [rel.inv.idx.mem_iff, hl]; exact mem_withOffsets _ l1 b l2
    have hdig : b.cid.digest = key.digest := by
      unfold Spec.sameKey at hk
      split at hk
      · have := of_decide_eq_true (by simpa using hk); rw [this]
      · simp only [Bool.and_eq_true, beq_iff_eq] at hk; exact hk.2
    have hin : headerSize ⟨roots, 1⟩ + (sectionsBytes l1).length ∈ s.idx.getAll key := by
      simp only [InsIndex.getAll, List.mem_map, List.mem_filter]
      exact ⟨_, ⟨hrec, by simp [hdig]⟩, rfl⟩
    have := hnone _ hin l1 b l2 hl rfl
    rw [this] at hk; exact absurd hk (by simp)

/-- Get on the read-write blockstore: a successful Put makes the block retrievable with the exact
    bytes of a stored block carrying the key; an absent key is not-found. -/
theorem blockstore_get (o : WOpts) (roots : Option (List Cid)) (s : Store) (st : Spec.State)
    (rel : Rel o roots s st) (hapi : s.api = .blockstore) (hopen : s.closed = false)
    (hlog : ∀ b ∈ st.log, b.getOk o) (c : Cid) (hid : Spec.idRule o c = false) :
    (∃ b ∈ st.log, Spec.sameKey o b.cid c = true ∧ (s.step o (.get c)).2.1 = .data b.data) ∨
    (Spec.stored o st c = none ∧ (s.step o (.get c)).2.1 = .err .notFound) := by
  have hid' : identityShortcut o c = false := hid
  rcases findCid_log o roots s st rel hlog c true with ⟨b, d, n, dOff, hf, hm, hs, _, h1, _⟩ | ⟨hf, hnone⟩
  · left
    refine ⟨b, hm, hs, ?_⟩
    simp [Store.step, hapi, Store.stepBlockstore, hid', hopen, hf, h1 rfl]
  · right
    exact ⟨hnone, by simp [Store.step, hapi, Store.stepBlockstore, hid', hopen, hf]⟩

/-- GetSize outside the recorded finding (every key except an identity CID under StoreIdentityCIDs):
    the identity rule answers with the digest length, otherwise the size of a stored block carrying the
    key, or not-found when none does. -/
theorem getSize_refines (o : WOpts) (roots : Option (List Cid)) (s : Store) (st : Spec.State)
    (rel : Rel o roots s st) (hapi : s.api = .blockstore) (hopen : s.closed = false)
    (hlog : ∀ b ∈ st.log, b.getOk o) (c : Cid) (hout : ¬ (c.isIdentity = true ∧ o.storeIdentity = true)) :
    (Spec.idRule o c = true → (s.step o (.getSize c)).2.1 = .size c.digest.length) ∧
    (Spec.idRule o c = false →
      (∃ b ∈ st.log, Spec.sameKey o b.cid c = true ∧ (s.step o (.getSize c)).2.1 = .size b.data.length) ∨
      (Spec.stored o st c = none ∧ (s.step o (.getSize c)).2.1 = .err .notFound)) := by
  constructor
  · intro hid
    have hi : c.isIdentity = true := by
      simp only [Spec.idRule, Bool.and_eq_true, Bool.not_eq_true'] at hid; exact hid.2
    simp [Store.step, hapi, Store.stepBlockstore, hi]
  · intro hid
    have hi : c.isIdentity = false := by
      cases h : c.isIdentity with
      | false => rfl
      | true =>
        have : o.storeIdentity = false := by
          cases h2 : o.storeIdentity with
          | false => rfl
          | true => exact absurd ⟨h, h2⟩ hout
        simp [Spec.idRule, h, this] at hid
    rcases findCid_log o roots s st rel hlog c false with ⟨b, d, n, dOff, hf, hm, hs, hn, _, _⟩ | ⟨hf, hnone⟩
    · left
      refine ⟨b, hm, hs, ?_⟩
      simp [Store.step, hapi, Store.stepBlockstore, hi, hopen, hf, hn]
    · right
      exact ⟨hnone, by simp [Store.step, hapi, Store.stepBlockstore, hi, hopen, hf]⟩
/-- Get / GetStream on the readable-writable storage CAR (reads the section window directly). -/
theorem storage_get (o : WOpts) (roots : Option (List Cid)) (s : Store) (st : Spec.State)
    (rel : Rel o roots s st) (hapi : s.api = .storage) (hopen : s.closed = false)
    (hlog : ∀ b ∈ st.log, b.getOk o) (c : Cid) (hid : Spec.idRule o c = false) :
    (∃ b ∈ st.log, Spec.sameKey o b.cid c = true ∧ (s.step o (.get c)).2.1 = .data b.data) ∨
    (Spec.stored o st c = none ∧ (s.step o (.get c)).2.1 = .err .notFound) := by
  have hid' : identityShortcut o c = false := hid
  rcases findCid_log o roots s st rel hlog c false with ⟨b, d, n, dOff, hf, hm, hs, _, _, h2⟩ | ⟨hf, hnone⟩
  · left
    refine ⟨b, hm, hs, ?_⟩
    simp [Store.step, hapi, Store.stepStorage, hid', hopen, hf, h2 rfl]
  · right
    exact ⟨hnone, by simp [Store.step, hapi, Store.stepStorage, hid', hopen, hf]⟩

/-- Identity CIDs follow the IdStore rule on both APIs: with StoreIdentityCIDs off, Get returns the
    digest itself whatever the state (even closed). -/
theorem identity_get (o : WOpts) (s : Store) (c : Cid) (hid : Spec.idRule o c = true) :
    (s.step o (.get c)).2.1 = .data c.digest := by
  have hid' : identityShortcut o c = true := hid
  unfold Store.step
  cases s.api <;> simp [Store.stepBlockstore, Store.stepStorage, hid']

/-- After Discard / Close / Finalize (closed): every write and every non-identity lookup returns an
    error, and the file never changes again. -/
theorem closed_rejects (o : WOpts) (s : Store) (hc : s.closed = true) (op : Op) :
    (s.step o op).1.file = s.file ∧ (s.step o op).2.2 = [] ∧
    (match op with
     | .put _ _ | .has _ => (s.step o op).2.1 = .err .closed
     | .putMany _ | .allKeys => s.api = .blockstore → (s.step o op).2.1 = .err .closed
     | .get c => Spec.idRule o c = false → (s.step o op).2.1 = .err .closed
     | _ => True) := by
  unfold Store.step
  cases hapi : s.api <;> cases op <;>
    simp [Store.stepBlockstore, Store.stepStorage, hc, Store.finalizeRO, Store.closeInner, identityShortcut,
      Spec.idRule] <;> (try split) <;> (try simp_all) <;> (try split) <;> (try simp_all)

/-- After FinalizeReadOnly on the blockstore: writes are refused and the file is unchanged. -/
theorem finalized_rejects_put (o : WOpts) (s : Store) (hapi : s.api = .blockstore) (hf : s.finalized = true)
    (c : Cid) (d : Bytes) :
    (s.step o (.put c d)).1 = s ∧ (∃ e, (s.step o (.put c d)).2.1 = .err e) := by
  unfold Store.step
  simp only [hapi, Store.stepBlockstore, hf]
  by_cases hc : s.closed = true <;> simp [hc]

/-- Non-vacuity: a freshly created store and one put of a concrete block satisfy the hypotheses. -/
example : let o : WOpts := {}
    let s := (Store.create .blockstore o none).1
    s.finalized = false ∧ s.closed = false ∧ (s.putOne o ⟨1, 0x55, 0, [1, 2]⟩ [1, 2]).2.1 = .ok := by
  simp [Store.create, Store.putOne, shouldPut, Cid.isIdentity]

/-- One call of the open phase: allowed answer, related and still open afterwards, and the reference log
    grows only by blocks of the call. -/
theorem data_step (o : WOpts) (roots : Option (List Cid)) (s : Store) (st : Spec.State)
    (rel : Rel o roots s st) (hopen : s.finalized = false ∧ s.closed = false)
    (hlog : ∀ b ∈ st.log, b.getOk o) (op : Op) (hop : op.isData s.api = true) :
    Allowed o st op (s.step o op).2.1 ∧
    Rel o roots (s.step o op).1 (Spec.step o st op).1 ∧
    ((s.step o op).1.finalized = false ∧ (s.step o op).1.closed = false) ∧
    (s.step o op).1.api = s.api ∧
    (∀ b ∈ (Spec.step o st op).1.log, b ∈ st.log ∨ b ∈ op.blocks) := by
  have hc : st.closed = false := by rw [← rel.closed]; exact hopen.2
  have hf : st.finalized = false := by rw [← rel.finalized]; exact hopen.1
  have hg : Spec.writeGuard st = none := by simp [Spec.writeGuard, hc, hf]
  cases op with
  | put c d =>
    have hstep : s.step o (.put c d) = s.putOne o c d := by
      unfold Store.step
      cases hapi : s.api <;> simp [Store.stepBlockstore, Store.stepStorage, hopen.1, hopen.2]
    have hsp : Spec.step o st (.put c d) = Spec.putOne o st c d := by simp [Spec.step, hg]
    have h := putOne_refines o roots s st rel hopen c d
    have hfl := putOne_flags o s c d
    rw [hstep, hsp]
    refine ⟨?_, h.2, ⟨hfl.1.trans hopen.1, hfl.2.trans hopen.2⟩, ?_, ?_⟩
    · show (s.putOne o c d).2.1 = (Spec.step o st (.put c d)).2
      rw [hsp]; exact h.1
    · rw [h.2.api, spec_putOne_api, rel.api]
    · intro b hb
      rcases spec_putOne_log o st c d b hb with h | h
      · exact .inl h
      · exact .inr (by simp [Op.blocks, h])
  | putMany bs =>
    have hapi : s.api = .blockstore := by
      cases ha : s.api
      · rfl
      · rw [ha] at hop; simp [Op.isData] at hop
    have hstep : s.step o (.putMany bs) = s.putMany o bs := by
      simp [Store.step, hapi, Store.stepBlockstore, hopen.1, hopen.2]
    have hsp : Spec.step o st (.putMany bs) = Spec.putMany o st bs := by simp [Spec.step, hg]
    have h := putMany_refines o roots bs s st rel hopen
    have hfl := putMany_flags o bs s
    have hapi' : (s.putMany o bs).1.api = s.api := by
      have : ∀ (bs : List Block) (st : Spec.State), (Spec.putMany o st bs).1.api = st.api := by
        intro bs
        induction bs with
        | nil => intro st; rfl
        | cons x tl ih =>
          intro st
          unfold Spec.putMany
          have h1 := spec_putOne_api o st x.cid x.data
          generalize Spec.putOne o st x.cid x.data = rs at h1
          obtain ⟨ss, outs⟩ := rs
          cases outs <;> simp only <;> try exact h1
          exact (ih ss).trans h1
      rw [h.2.api, this, rel.api]
    rw [hstep, hsp]
    refine ⟨?_, h.2, ⟨hfl.1.trans hopen.1, hfl.2.trans hopen.2⟩, hapi', ?_⟩
    · show (s.putMany o bs).2.1 = (Spec.step o st (.putMany bs)).2
      rw [hsp]; exact h.1
    · exact spec_putMany_log o bs st
  | has c =>
    have h := has_refines o roots s st rel c
    have hs1 : (s.step o (.has c)).1 = s := by
      unfold Store.step
      cases hapi : s.api <;> simp [Store.stepBlockstore, Store.stepStorage, hopen.2]
    have hs2 : (Spec.step o st (.has c)).1 = st := by simp [Spec.step, hc]
    rw [hs1, hs2]
    exact ⟨h, rel, hopen, rfl, fun b hb => .inl hb⟩
  | get c =>
    have hs1 : (s.step o (.get c)).1 = s := by
      unfold Store.step
      cases hapi : s.api <;> simp only [Store.stepBlockstore, Store.stepStorage] <;>
        (split; rfl; split; rfl; split <;> rfl)
    have hs2 : (Spec.step o st (.get c)).1 = st := by
      simp only [Spec.step]
      split; rfl; split; rfl; split <;> rfl
    rw [hs1, hs2]
    refine ⟨?_, rel, hopen, rfl, fun b hb => .inl hb⟩
    unfold Allowed
    by_cases hid : Spec.idRule o c = true
    · simp only [hid, ↓reduceIte]; exact identity_get o s c hid
    · have hid' : Spec.idRule o c = false := by simpa using hid
      simp only [hid', Bool.false_eq_true, ↓reduceIte]
      cases hapi : s.api
      · exact blockstore_get o roots s st rel hapi hopen.2 hlog c hid'
      · exact storage_get o roots s st rel hapi hopen.2 hlog c hid'
  | allKeys =>
    have hapi : s.api = .blockstore := by
      cases ha : s.api
      · rfl
      · rw [ha] at hop; simp [Op.isData] at hop
    have hs1 : (s.step o .allKeys).1 = s := by simp [Store.step, hapi, Store.stepBlockstore, hopen.2]
    have hs2 : (Spec.step o st .allKeys).1 = st := by simp [Spec.step, hc]
    rw [hs1, hs2]
    exact ⟨allKeys_refines o roots s st rel hopen.2 hapi, rel, hopen, rfl, fun b hb => .inl hb⟩
  | roots =>
    have hs1 : (s.step o .roots).1 = s := by
      unfold Store.step
      cases hapi : s.api <;> simp [Store.stepBlockstore, Store.stepStorage, hopen.2]
    have hs2 : (Spec.step o st .roots).1 = st := by simp [Spec.step, hc]
    rw [hs1, hs2]
    refine ⟨?_, rel, hopen, rfl, fun b hb => .inl hb⟩
    show (s.step o .roots).2.1 = (Spec.step o st .roots).2
    have hr : s.roots.getD [] = st.roots := by rw [rel.inv.roots, rel.sroots]
    unfold Store.step
    cases hapi : s.api <;> simp [Store.stepBlockstore, Store.stepStorage, Spec.step, hopen.2, hc, hr]
  | getSize c => simp [Op.isData] at hop
  | finalize => simp [Op.isData] at hop
  | finalizeRO => simp [Op.isData] at hop
  | close => simp [Op.isData] at hop
  | discard => simp [Op.isData] at hop

/-- **Any history of the open phase**, by induction over the list of calls. -/
theorem open_run_refines (o : WOpts) (roots : Option (List Cid)) (ops : List Op) :
    ∀ (s : Store) (st : Spec.State), Rel o roots s st → s.finalized = false ∧ s.closed = false →
    (∀ b ∈ st.log, b.getOk o) → (∀ op ∈ ops, op.isData s.api = true ∧ ∀ b ∈ op.blocks, b.getOk o) →
    RunOk o st ops (Store.run o s ops).2 ∧
    Rel o roots (Store.run o s ops).1 (Spec.run o st ops).1 ∧
    ((Store.run o s ops).1.finalized = false ∧ (Store.run o s ops).1.closed = false) ∧
    (Store.run o s ops).1.api = s.api := by
  induction ops with
  | nil => intro s st rel hopen _ _; exact ⟨trivial, rel, hopen, rfl⟩
  | cons op tl ih =>
    intro s st rel hopen hlog hops
    obtain ⟨hop, hbl⟩ := hops op List.mem_cons_self
    obtain ⟨hal, hrel, hopen', hapi, hgrow⟩ := data_step o roots s st rel hopen hlog op hop
    have hlog' : ∀ b ∈ (Spec.step o st op).1.log, b.getOk o := by
      intro b hb
      rcases hgrow b hb with h | h
      · exact hlog b h
      · exact hbl b h
    have htl : ∀ op' ∈ tl, op'.isData (s.step o op).1.api = true ∧ ∀ b ∈ op'.blocks, b.getOk o := by
      intro op' h; rw [hapi]; exact hops op' (List.mem_cons_of_mem _ h)
    obtain ⟨h1, h2, h3, h4⟩ := ih _ _ hrel hopen' hlog' htl
    simp only [Store.run, Spec.run]
    exact ⟨⟨hal, h1⟩, h2, h3, h4.trans hapi⟩


/-- **A whole history, then Finalize** (read-write blockstore, CARv2 mode): after any history of open-phase
    calls on a fresh store, every answer was one the reference map allows, and Finalize returns ok and leaves
    exactly the layout of the reference's log (C05), whatever the interleaving of reads and writes was. -/
theorem history_then_finalize (o : WOpts) (roots : Option (List Cid)) (ops : List Op) (ix : Index)
    (hv2 : o.v1 = false)
    (hops : ∀ op ∈ ops, op.isData .blockstore = true ∧ ∀ b ∈ op.blocks, b.getOk o)
    (hix : (Store.run o (Store.create .blockstore o roots).1 ops).1.idx.flatten o.codec = some ix)
    (h64 : 51 + o.dataPad + o.indexPad + (Store.run o (Store.create .blockstore o roots).1 ops).1.pos < 2 ^ 64) :
    let st0 : Spec.State := { api := .blockstore, roots := roots.getD [] }
    let s := (Store.run o (Store.create .blockstore o roots).1 ops).1
    RunOk o st0 ops (Store.run o (Store.create .blockstore o roots).1 ops).2 ∧
    (s.step o .finalize).2.1 = .ok ∧
    (s.step o .finalize).1.file
      = layoutV2 o.dataPad o.indexPad (payload roots (Spec.run o st0 ops).1.log) true o.storeIdentity ix.bytes := by
  intro st0 s
  have rel0 : Rel o roots (Store.create .blockstore o roots).1 st0 := create_rel .blockstore o roots
  have hopen0 : (Store.create .blockstore o roots).1.finalized = false ∧
      (Store.create .blockstore o roots).1.closed = false := by simp [Store.create]
  have hapi0 : (Store.create .blockstore o roots).1.api = .blockstore := by simp [Store.create]
  obtain ⟨hrun, rel, hopen, hapi1⟩ := open_run_refines o roots ops _ st0 rel0 hopen0 (by intro b hb; cases hb)
    (by rw [hapi0]; exact hops)
  have hapi : s.api = .blockstore := hapi1.trans hapi0
  have rel' : Rel o roots s (Spec.run o st0 ops).1 := rel
  have hopen' : s.finalized = false ∧ s.closed = false := hopen
  have hix' : s.idx.flatten o.codec = some ix := hix
  have h64' : 51 + o.dataPad + o.indexPad + s.pos < 2 ^ 64 := h64
  refine ⟨hrun, ?_⟩
  clear_value s
  obtain ⟨evs, he, hf⟩ := finalize_file o roots s (Spec.run o st0 ops).1.log ix rel'.inv hopen' hv2 hix' h64'
  constructor
  · simp [Store.step, hapi, Store.stepBlockstore, Store.finalizeRO, Store.closeInner, hv2, hopen'.1, hopen'.2, he,
      Store.applyEvs]
  · simp [Store.step, hapi, Store.stepBlockstore, Store.finalizeRO, Store.closeInner, hv2, hopen'.1, hopen'.2, he,
      Store.applyEvs, hf]

/-- Non-vacuity of the history theorems: a concrete mixed history meets the premises, and its answers are
    evaluated (a put, a repeated put, a Has, a Get of the stored block, a Get of an absent one). -/
example : let o : WOpts := {}
    let c1 : Cid := ⟨1, 0x55, 0x12, List.replicate 32 1⟩
    let c2 : Cid := ⟨1, 0x55, 0x12, List.replicate 32 2⟩
    let ops : List Op := [.put c1 [1, 2], .put c1 [1, 2], .has c1, .get c1, .get c2, .roots]
    (∀ op ∈ ops, op.isData .blockstore = true) ∧
    (Spec.run o { api := .blockstore, roots := [] } ops).2
      = [.ok, .ok, .bool true, .data [1, 2], .err .notFound, .cids []] ∧
    (Spec.run o { api := .blockstore, roots := [] } ops).1.log = [⟨c1, [1, 2]⟩] := by
  simp [Op.isData, Spec.run, Spec.step, Spec.writeGuard, Spec.putOne, Spec.idRule, Spec.stored, Spec.sameKey,
    Cid.isIdentity, Cid.byteLen, Cid.bytes, Cid.mhBytes, uvarint_small]

end Car.C04
