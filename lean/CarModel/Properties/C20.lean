import CarModel.Deferred
import CarModel.Proofs.StoreInv
import CarModel.Proofs.DeferredRun
/-
C20 — Deferred writer is lazy, then byte-identical to a direct writer.
-/
namespace Car.C20
open Car

/-- registration and Has never initialise the writer -/
def lazyOp : DOp → Bool
  | .onPut _ _ _ => true
  | .has _ => true
  | _ => false

/-- (1) Lazy: any sequence of OnPut registrations and Has calls leaves the writer uncreated — no
    byte written, no file created — and every Has answers false. -/
theorem deferred_lazy (o : WOpts) (ops : List DOp) (hops : ∀ op ∈ ops, lazyOp op = true) :
    ∀ (d : Deferred), d.w = none → d.closed = false →
    (ops.foldl (fun d op => (d.step o op).1) d).w = none ∧
    (ops.foldl (fun d op => (d.step o op).1) d).output = none ∧
    ∀ c, ((ops.foldl (fun d op => (d.step o op).1) d).step o (.has c)).2.res = .bool false := by
  induction ops with
  | nil => intro d hw hc; simp [Deferred.output, Deferred.step, hw, hc]
  | cons op tl ih =>
    intro d hw hc
    have hop := hops op (by simp)
    simp only [List.foldl_cons]
    apply ih (fun x hx => hops x (by simp [hx]))
    · cases op <;> simp_all [Deferred.step, lazyOp]
    · cases op <;> simp_all [Deferred.step, lazyOp]

/-- (2) From the first Put on, the deferred writer *is* a directly constructed writer with the same
    roots and options: the first Put creates `Store.create` and forwards to it, every later Put and
    Close (Finalize) is forwarded to the same store — so its output is the direct writer's output. -/
theorem first_put_is_direct (o : WOpts) (d : Deferred) (hw : d.w = none) (hc : d.closed = false) (c : Cid) (data : Bytes) :
    let direct := (Store.create .storage o d.roots).1
    (d.step o (.put c data)).1.w = some (direct.step o (.put c data)).1 ∧
    (d.step o (.put c data)).2.res = (direct.step o (.put c data)).2.1 := by
  simp [Deferred.step, hw, hc]

theorem later_put_is_direct (o : WOpts) (d : Deferred) (s : Store) (hw : d.w = some s) (hc : d.closed = false)
    (c : Cid) (data : Bytes) :
    (d.step o (.put c data)).1.w = some (s.step o (.put c data)).1 ∧
    (d.step o (.put c data)).2.res = (s.step o (.put c data)).2.1 := by
  simp [Deferred.step, hw, hc]

theorem close_is_finalize (o : WOpts) (d : Deferred) (s : Store) (hw : d.w = some s) (hc : d.closed = false) :
    (d.step o .close).1.w = some (s.step o .finalize).1 ∧ (d.step o .close).2.res = (s.step o .finalize).2.1 ∧
    (d.step o .close).1.closed = true := by
  simp [Deferred.step, hw, hc]

/-- the index-based removal loop, from position `i` with the first `i` callbacks already kept, over callbacks
    that register nothing themselves -/
theorem fireLoop_spec : ∀ (fuel : Nat) (kept rest : List PutCb) (fired : List Nat),
    rest.length < fuel → (∀ cb ∈ rest, cb.spawn = none) →
    fireLoop fuel kept.length (kept ++ rest) fired
      = (kept ++ rest.filter (fun cb => !cb.once), fired ++ rest.map (·.id)) := by
  intro fuel
  induction fuel with
  | zero => intro kept rest fired h; omega
  | succ f ih =>
    intro kept rest fired h hsp
    unfold fireLoop
    cases rest with
    | nil => simp
    | cons cb tl =>
      have hget : (kept ++ cb :: tl)[kept.length]? = some cb := by simp
      have hcb : cb.spawn = none := hsp cb (by simp)
      have htl : ∀ c ∈ tl, c.spawn = none := fun c hc => hsp c (by simp [hc])
      rw [hget]
      simp only [hcb]
      by_cases ho : cb.once = true
      · simp only [ho, ↓reduceIte]
        have : (kept ++ cb :: tl).eraseIdx kept.length = kept ++ tl := by
          rw [List.eraseIdx_append_of_length_le (by omega)]; simp
        rw [this, ih kept tl _ (by simpa using h) htl]
        simp [ho]
      · have ho' : cb.once = false := by simpa using ho
        simp only [ho', Bool.false_eq_true, ↓reduceIte]
        have e : kept ++ cb :: tl = (kept ++ [cb]) ++ tl := by simp
        have hl : kept.length + 1 = (kept ++ [cb]).length := by simp
        rw [e, hl, ih (kept ++ [cb]) tl _ (by simpa using h) htl]
        simp [ho']

/-- (3) Callbacks: one Put fires every registered callback exactly once, in registration order,
    and afterwards exactly the once-only ones are gone (so each of those fires exactly once overall). -/
theorem callbacks_fire_in_order (o : WOpts) (d : Deferred) (hc : d.closed = false) (c : Cid) (data : Bytes)
    (hsp : ∀ cb ∈ d.cbs, cb.spawn = none) :
    (d.step o (.put c data)).2.fired = d.cbs.map (·.id) ∧
    (d.step o (.put c data)).1.cbs = d.cbs.filter (fun cb => !cb.once) := by
  have := fireLoop_spec (2 * d.cbs.length + 2) [] d.cbs [] (by omega) hsp
  simp only [List.length_nil, List.nil_append] at this
  simp [Deferred.step, hc, this]

/-- (3b) **Callbacks are a queue, whatever they do.** Also when callbacks register further callbacks while
    they run (`OnPut` from inside a callback — a "first byte" hook installing a counter): one Put takes the
    registered callbacks in order, fires each once, lets whatever it registers join the END of the same walk
    (so it fires later in the SAME Put), and keeps all but the once-only ones — the reference `specFire`.
    The Go loop (index-based, removing in place, re-reading the list) is proved equal to it for every list. -/
theorem callbacks_are_a_queue (o : WOpts) (d : Deferred) (hc : d.closed = false) (c : Cid) (data : Bytes) :
    (d.step o (.put c data)).2.fired = (specFire (2 * d.cbs.length + 2) d.cbs).2 ∧
    (d.step o (.put c data)).1.cbs = (specFire (2 * d.cbs.length + 2) d.cbs).1 := by
  have := fireLoop_eq_specFire (2 * d.cbs.length + 2) [] d.cbs []
  simp only [List.length_nil, List.nil_append] at this
  simp [Deferred.step, hc, this]

/-- non-vacuity / reading aid: a once-only callback that registers a persistent one -/
example : specFire 6 [{ id := 1, once := true, spawn := some (9, false) }, { id := 2, once := false }]
    = ([{ id := 2, once := false }, { id := 9, once := false }], [1, 2, 9]) := by decide

/-- (4) After Close every call reports the store as closed. -/
theorem closed_after_close (o : WOpts) (d : Deferred) (hc : d.closed = true) (c : Cid) (data : Bytes) :
    (d.step o (.has c)).2.res = .err .closed ∧ (d.step o (.put c data)).2.res = .err .closed ∧
    (d.step o .close).2.res = .err .closed ∧ (d.step o (.put c data)).2.fired = [] := by
  simp [Deferred.step, hc]

/-- (5) **Any call sequence at once.** A fresh deferred writer, any sequence of OnPut / Has / Put / Close
    calls: the bytes that have reached its target are exactly those of a directly constructed writer
    (same roots, same options) run on the projection of the sequence — the Puts up to the first Close,
    then Finalize — and nothing exists at all when no Put came before the first Close. By induction over
    the sequence. -/
theorem deferred_is_direct_on_projection (o : WOpts) (roots : Option (List Cid)) (ops : List DOp) :
    (({ roots := roots } : Deferred).run o ops).output
      = (projFresh ops).map fun l => (Store.run o (Store.create .storage o roots).1 l).1.file := by
  have := deferred_run_fresh o ops { roots := roots } rfl rfl
  simp only [Deferred.output, this, Option.map_map]
  rfl

/-- the projection on a concrete sequence: registrations and Has vanish, Puts after Close are dropped -/
example : projFresh [.onPut 1 true none, .has ⟨1, 0x55, 0, []⟩, .put ⟨1, 0x55, 0, [1]⟩ [1], .close, .put ⟨1, 0x55, 0, [2]⟩ [2], .close]
    = some [.put ⟨1, 0x55, 0, [1]⟩ [1], .finalize] := by
  simp [projFresh, projOps]
example : projFresh [.onPut 1 true none, .close, .put ⟨1, 0x55, 0, [2]⟩ [2]] = none := by simp [projFresh]

/-- Non-vacuity: registrations + Has on a fresh writer satisfy `deferred_lazy`'s premise. -/
example : ∀ op ∈ [DOp.onPut 1 true none, DOp.has ⟨1, 0x55, 0, []⟩, DOp.onPut 2 false none], lazyOp op = true := by decide

end Car.C20
