import CarModel.Proofs.Resume
import CarModel.Proofs.FactsTie
import CarModel.Properties.C04
/-
C12 — Resumption is transparent and refuses mismatched files without touching them.
-/
namespace Car.C12
open Car

/-- What every un-finalised session leaves on disk: pragma, zero header, padding, payload so far. -/
def OpenShape (o : WOpts) (roots : Option (List Cid)) (s : Store) (log : List Block) : Prop :=
  s.file = o.filePrefix (zeros 40) ++ payload roots log

theorem create_shape (api : Api) (o : WOpts) (roots : Option (List Cid)) :
    OpenShape o roots (Store.create api o roots).1 [] := by
  -- `create_inv` builds exactly this file; redo its computation with the witness exposed
  unfold OpenShape Store.create
  simp only
  have hsum : ([encodeHeaderBody ⟨roots, 1⟩].map List.length).sum = (encodeHeaderBody ⟨roots, 1⟩).length := by simp
  by_cases hv : o.v1 = true
  · simp only [hv, ↓reduceIte, List.nil_append, WOpts.filePrefix]
    have := ldWrite_at_hole [] o.base [encodeHeaderBody ⟨roots, 1⟩] (by simp)
    rw [this, hsum]
    simp [WOpts.base, hv, zeros, payload, sectionsBytes, encodeHeader]
  · simp only [hv, Bool.false_eq_true, ↓reduceIte, applyWrites_append, WOpts.filePrefix]
    have hp : applyWrites [] [WriteEv.write 0 pragma] = pragma := by
      simp [applyWrites, WriteEv.apply, writeAt, pragma]
    rw [hp]
    have hpl : pragma.length = 11 := by decide
    have := ldWrite_at_hole pragma o.base [encodeHeaderBody ⟨roots, 1⟩]
      (by rw [hpl]; simp [WOpts.base, hv]; omega)
    rw [this, hsum, hpl]
    have hz : zeros (o.base - 11) = zeros 40 ++ zeros o.dataPad := by
      simp only [WOpts.base, hv, Bool.false_eq_true, ↓reduceIte, zeros, List.replicate_append_replicate]
      congr 1; omega
    rw [hz]
    simp [payload, sectionsBytes, encodeHeader]

theorem put_shape (o : WOpts) (roots : Option (List Cid)) (s : Store) (log : List Block) (c : Cid) (d : Bytes)
    (inv : Inv o roots s log) (sh : OpenShape o roots s log) :
    OpenShape o roots
      { s.applyEvs (ldWriteEvs (s.base + s.pos) [c.bytes, d]) with
        pos := s.pos + sectionSize ⟨c, d⟩, idx := s.idx.insert ⟨c, s.pos⟩ } (log ++ [⟨c, d⟩]) := by
  unfold OpenShape at sh ⊢
  have hlen : s.base + s.pos = s.file.length := by
    rw [sh, List.length_append, o.filePrefix_length (zeros 40) (by simp [zeros]), inv.pos, inv.base]
  simp only [Store.applyEvs]
  rw [hlen, section_append, sh, payload_append]; simp

/-- Hypotheses on the stored blocks under which the rescan recognises every section. -/
def LogOK (log : List Block) : Prop :=
  ∀ b ∈ log, b.cid.wf ∧ b.cid.digest.length ≤ maxDigestAlloc ∧ b.cid.byteLen + b.data.length < 2 ^ 63

/-- Interrupt by Discard (or by simply dropping the handle), reopen with the same roots and
    options: the resumed store holds the same file, the same log, the writer at the same position
    and an index with the same records. Every later operation therefore answers as the
    uninterrupted session does (C04 refinement), and Finalize writes the same bytes (C05). -/
theorem discard_reopen (api : Api) (o : WOpts) (roots : Option (List Cid)) (s : Store) (log : List Block)
    (inv : Inv o roots s log) (sh : OpenShape o roots s log)
    (hwf : (CarHeader.mk roots 1).wf) (hmax : (encodeHeaderBody ⟨roots, 1⟩).length ≤ o.maxHeader)
    (hmax32 : (encodeHeaderBody ⟨roots, 1⟩).length ≤ 32 * 2 ^ 20) (hlog : LogOK log) :
    ∃ s', (resume api o roots s.file).res = .ok s' ∧ Inv o roots s' log ∧ OpenShape o roots s' log ∧
      s'.file = s.file ∧ s'.pos = s.pos ∧ List.Perm s'.idx s.idx ∧ s'.closed = false ∧ s'.finalized = false := by
  obtain ⟨s', hres, inv', hc, hf, _, hfile⟩ := resume_open_file api o roots log hwf hmax hmax32 hlog
  rw [sh]
  exact ⟨s', hres, inv', hfile, hfile, by rw [inv'.pos, inv.pos], inv'.idx.trans inv.idx.symm, hc, hf⟩

/-- **Interrupted = uninterrupted, for every later history.** A session at reference state `st` is
    interrupted by Discard (or a dropped handle) and reopened with the same roots and options. Then any
    later history of open-phase calls gets, on the resumed store, answers the reference map allows from
    the SAME reference state `st` — exactly what `C04.open_run_refines` gives the uninterrupted store on
    the same history — and both end related to the same reference state, so a closing Finalize writes the
    same layout (C04.history_then_finalize, C05). -/
theorem resumed_history (api : Api) (o : WOpts) (roots : Option (List Cid)) (s : Store) (st : Spec.State)
    (rel : Rel o roots s st) (sh : OpenShape o roots s st.log) (hopen : s.finalized = false ∧ s.closed = false)
    (hapi : s.api = api)
    (hwf : (CarHeader.mk roots 1).wf) (hmax : (encodeHeaderBody ⟨roots, 1⟩).length ≤ o.maxHeader)
    (hmax32 : (encodeHeaderBody ⟨roots, 1⟩).length ≤ 32 * 2 ^ 20) (hlog : LogOK st.log)
    (hget : ∀ b ∈ st.log, b.getOk o) (ops : List Op)
    (hops : ∀ op ∈ ops, op.isData api = true ∧ ∀ b ∈ op.blocks, b.getOk o) :
    ∃ s', (resume api o roots s.file).res = .ok s' ∧
      RunOk o st ops (Store.run o s' ops).2 ∧ RunOk o st ops (Store.run o s ops).2 ∧
      Rel o roots (Store.run o s' ops).1 (Spec.run o st ops).1 ∧
      Rel o roots (Store.run o s ops).1 (Spec.run o st ops).1 := by
  obtain ⟨s', hres, inv', hc, hf, hapi', hfile⟩ := resume_open_file api o roots st.log hwf hmax hmax32 hlog
  have rel' : Rel o roots s' st :=
    ⟨inv', by rw [hc, ← rel.closed, hopen.2], by rw [hf, ← rel.finalized, hopen.1],
      by rw [hapi', ← hapi, rel.api], rel.sroots⟩
  obtain ⟨r1, r2, _, _⟩ := C04.open_run_refines o roots ops s' st rel' ⟨hf, hc⟩ hget (by rw [hapi']; exact hops)
  obtain ⟨q1, q2, _, _⟩ := C04.open_run_refines o roots ops s st rel hopen hget (by rw [hapi]; exact hops)
  exact ⟨s', by rw [sh]; exact hres, r1, q1, r2, q2⟩

/-- Interrupt by Finalize, reopen: the index is cut off, the header un-finalised, and the store is
    back in the state of the un-finalised session with the same log. -/
theorem finalize_reopen (api : Api) (o : WOpts) (roots : Option (List Cid)) (s : Store) (log : List Block) (ix : Index)
    (inv : Inv o roots s log) (hopen : s.finalized = false ∧ s.closed = false) (hv2 : o.v1 = false)
    (hix : s.idx.flatten o.codec = some ix) (h64 : 51 + o.dataPad + o.indexPad + s.pos < 2 ^ 64)
    (hwf : (CarHeader.mk roots 1).wf) (hmax : (encodeHeaderBody ⟨roots, 1⟩).length ≤ o.maxHeader)
    (hmax32 : (encodeHeaderBody ⟨roots, 1⟩).length ≤ 32 * 2 ^ 20)
    (lok : LayoutOK o.dataPad o.indexPad (payload roots log).length) (hlog : LogOK log) :
    ∃ evs s', s.finalizeEvs o = some evs ∧ (resume api o roots (applyWrites s.file evs)).res = .ok s' ∧
      Inv o roots s' log ∧ OpenShape o roots s' log ∧ s'.pos = s.pos ∧ List.Perm s'.idx s.idx ∧
      s'.closed = false ∧ s'.finalized = false := by
  obtain ⟨evs, he, hf⟩ := finalize_file o roots s log ix inv hopen hv2 hix h64
  have hcore := resumeCore_finalized_file api o roots log o.storeIdentity ix.bytes hv2 hwf hmax hmax32 lok hlog
  refine ⟨evs, { api := api, file := o.filePrefix (zeros 40) ++ payload roots log, base := o.base,
                 pos := (payload roots log).length, idx := insertAll [] (headerSize ⟨roots, 1⟩) log, roots := roots },
    he, by rw [hf]; simp only [resume, hcore], ?_, rfl, by simp [inv.pos], ?_, rfl, rfl⟩
  · refine ⟨rfl, ⟨zeros 40, [], by simp [zeros], by simp, fun _ _ => rfl⟩, rfl, ?_, rfl⟩
    simpa using insertAll_perm [] (headerSize ⟨roots, 1⟩) log
  · have := insertAll_perm [] (headerSize ⟨roots, 1⟩) log
    simp only [List.nil_append] at this
    exact this.trans inv.idx.symm

/-- **Resumption composes.** Interrupt by Finalize and reopen, then (after any number of Has / Get calls, or
    none) interrupt again by Discard and reopen: the second resumption is accepted too and yields the store
    of the same log — same file bytes as the first resumed session left (index cut off, header un-finalised,
    no padding left behind), writer at the same position, the same index records. By `finalize_reopen` and
    `discard_reopen`: the store a resumption returns satisfies the premises of the next one. -/
theorem second_resumption (api : Api) (o : WOpts) (roots : Option (List Cid)) (s : Store) (log : List Block) (ix : Index)
    (inv : Inv o roots s log) (hopen : s.finalized = false ∧ s.closed = false) (hv2 : o.v1 = false)
    (hix : s.idx.flatten o.codec = some ix) (h64 : 51 + o.dataPad + o.indexPad + s.pos < 2 ^ 64)
    (hwf : (CarHeader.mk roots 1).wf) (hmax : (encodeHeaderBody ⟨roots, 1⟩).length ≤ o.maxHeader)
    (hmax32 : (encodeHeaderBody ⟨roots, 1⟩).length ≤ 32 * 2 ^ 20)
    (lok : LayoutOK o.dataPad o.indexPad (payload roots log).length) (hlog : LogOK log) :
    ∃ evs s1 s2, s.finalizeEvs o = some evs ∧
      (resume api o roots (applyWrites s.file evs)).res = .ok s1 ∧
      (resume api o roots s1.file).res = .ok s2 ∧
      Inv o roots s2 log ∧ s2.file = s1.file ∧ s2.pos = s.pos ∧ List.Perm s2.idx s.idx ∧
      s2.closed = false ∧ s2.finalized = false := by
  obtain ⟨evs, s1, he, hr1, inv1, sh1, hp1, hperm1, hc1, hf1⟩ :=
    finalize_reopen api o roots s log ix inv hopen hv2 hix h64 hwf hmax hmax32 lok hlog
  obtain ⟨s2, hr2, inv2, _, hfile2, hp2, hperm2, hc2, hf2⟩ :=
    discard_reopen api o roots s1 log inv1 sh1 hwf hmax hmax32 hlog
  exact ⟨evs, s1, s2, he, hr1, hr2, inv2, hfile2, hp2.trans hp1, hperm2.trans hperm1, hc2, hf2⟩
/-- Refusals issue no write: the file bytes after a refused reopen are the bytes before it. -/
theorem refused_without_writes (api : Api) (o : WOpts) (roots : Option (List Cid)) (file : Bytes)
    (h : (resumeCore api o roots file).1 = []) : (resume api o roots file).file = file := by
  simp [resume, h, applyWrites]

/-- Wrong CAR version (a CARv1 file opened as CARv2 or vice versa): refused, nothing written. -/
theorem reject_wrong_version (api : Api) (o : WOpts) (roots : Option (List Cid)) (file : Bytes)
    (h : CarHeader) (rest : Bytes) (hh : readHeader (32 * 2 ^ 20) file = .ok (h, rest))
    (hbad : ¬ ((h.version = 1 ∧ o.v1 = true) ∨ (h.version = 2 ∧ ¬ o.v1 = true))) :
    resumeCore api o roots file = ([], .error .badVersion) := by
  unfold resumeCore
  rw [hh]
  simp only [hbad, not_false_eq_true, ↓reduceIte]

/-- Different data padding than the finalised file carries: refused, nothing written. -/
theorem reject_wrong_padding (api : Api) (o : WOpts) (roots : Option (List Cid)) (file : Bytes)
    (h : CarHeader) (rest : Bytes) (hif : V2Header) (rest2 : Bytes)
    (hh : readHeader (32 * 2 ^ 20) file = .ok (h, rest)) (hv : h.version = 2 ∧ o.v1 = false)
    (h2 : readV2Header (file.drop 11) = .ok (hif, rest2)) (hne : hif.dataOffset ≠ o.base) (h0 : hif.dataOffset ≠ 0) :
    resumeCore api o roots file = ([], .error .other) := by
  unfold resumeCore
  rw [hh]
  simp [hv.1, hv.2, h2, h0, hne]

/-- Different roots than the file's data header lists (as a multiset): refused, nothing written. -/
theorem reject_wrong_roots (api : Api) (o : WOpts) (roots : Option (List Cid)) (file : Bytes)
    (h : CarHeader) (rest : Bytes) (h1 : CarHeader) (rest1 : Bytes)
    (hh : readHeader (32 * 2 ^ 20) file = .ok (h, rest))
    (hv : (h.version = 1 ∧ o.v1 = true) ∨ (h.version = 2 ∧ ¬ o.v1 = true))
    (hpl : readHeader o.maxHeader (file.drop o.base) = .ok (h1, rest1))
    (hbad : h1.version ≠ 1 ∨ rootsMatch h1.rootList (roots.getD []) = false) :
    (resumeCore api o roots file).1 = [] ∧ ∃ e, (resumeCore api o roots file).2 = .error e := by
  have hb : (h1.version ≠ 1 ∨ (!rootsMatch h1.rootList (roots.getD [])) = true) := by
    rcases hbad with hb | hb
    · exact Or.inl hb
    · exact Or.inr (by simp [hb])
  unfold resumeCore
  rw [hh]
  simp only [hv, not_true_eq_false, ↓reduceIte]
  generalize (if o.v1 = true then ({} : V2Header) else
      match readV2Header (file.drop 11) with
      | .ok (h, _) => h
      | .error _ => {}) = hif
  by_cases c1 : (¬ o.v1 = true ∧ hif.dataOffset ≠ 0 ∧ hif.dataOffset ≠ o.base)
  · rw [if_pos c1]; exact ⟨rfl, _, rfl⟩
  · rw [if_neg c1]
    by_cases c2 : (¬ o.v1 = true ∧ hif.dataOffset ≠ 0 ∧ hif.indexOffset < hif.dataOffset + hif.dataSize)
    · rw [if_pos c2]; exact ⟨rfl, _, rfl⟩
    · rw [if_neg c2, hpl]
      simp only
      rw [if_pos hb]
      exact ⟨rfl, _, rfl⟩

/-- Root matching ignores order … -/
theorem rootsMatch_of_perm (a b : List Cid) (h : List.Perm a b) : rootsMatch a b = true := by
  simp only [rootsMatch, Bool.and_eq_true, beq_iff_eq, List.all_eq_true]
  exact ⟨h.length_eq, fun r _ => h.count_eq r⟩

/-- … but not multiplicity: a repeated root does not stand in for a different one. -/
theorem rootsMatch_multiset (a b : List Cid) (h : rootsMatch a b = true) :
    a.length = b.length ∧ ∀ r ∈ a, a.count r = b.count r := by
  simp only [rootsMatch, Bool.and_eq_true, beq_iff_eq, List.all_eq_true] at h
  exact h

example : rootsMatch [⟨1, 0x55, 0, [1]⟩, ⟨1, 0x55, 0, [1]⟩] [⟨1, 0x55, 0, [1]⟩, ⟨1, 0x55, 0, [2]⟩] = false := by
  decide

/-- Non-vacuity of `discard_reopen`: a freshly created store has the open shape. -/
example : OpenShape {} none (Store.create .blockstore {} none).1 [] := create_shape _ _ _

end Car.C12
