import CarModel.Proofs.Roundtrip
import CarModel.Proofs.Create
import CarModel.Proofs.FactsTie
/-
C18 — `car create` followed by `car extract` reproduces the file tree.

Two halves, joined by the UnixFS engine (go-unixfsnode: `BuildUnixFSRecursive` on the way in,
`Reify` + iteration on the way out), which is a parameter:
  * archive half — whatever blocks the engine puts, the file `car create` leaves behind (session with
    a placeholder root, Finalize, ReplaceRootsInFile) is exactly the well-formed archive of those
    blocks under the real root (C04/C05 say what that archive is and that every block is in it);
  * extraction half — for every faithful walk of a tree (the engine's trace), extraction into an
    empty directory succeeds and leaves exactly that tree.
That the engine's trace of the DAG it built from a tree denotes that tree is the engine's own round
trip; it is checked on every run against real trees, not proved.
-/
namespace Car.C18
open Car Car.FS Car.Extract

/-- Guard facts from the source: CreateCar opens the store with the proxy root, writes, finalizes,
    then replaces the roots. -/
theorem create_facts :
    Facts.createOrder = ["GetHasher", "Encode", "NewCidV1", "OpenReadWrite", "writeFiles", "Finalize", "ReplaceRootsInFile"] := by
  decide

/-- (1) The proxy-root trick is exact, for every put history and both container versions. -/
theorem created_archive (maxHeader : Nat) (o : WOpts) (proxy root : Cid) (log : List Block) (f : Bytes)
    (hf : Spec.finalFile o (some [proxy]) log = some f)
    (hwf : (CarHeader.mk (some [proxy]) 1).wf) (hmax : (encodeHeaderBody ⟨some [proxy], 1⟩).length ≤ maxHeader)
    (h63 : (encodeHeaderBody ⟨some [proxy], 1⟩).length < 2 ^ 63) (h10 : 10 ≤ maxHeader)
    (lok : LayoutOK o.dataPad o.indexPad (payload (some [proxy]) log).length)
    (heq : (encodeHeader ⟨some [proxy], 1⟩).length = (encodeHeader ⟨some [root], 1⟩).length) :
    ∃ f', replaceRoots maxHeader f (some [root]) = (.ok (), f') ∧ Spec.finalFile o (some [root]) log = some f' :=
  proxy_root_exact maxHeader o (some [proxy]) (some [root]) log f hf hwf hmax h63 h10 lok heq

/-- (1b) and when the lengths differ the tool's last step fails and leaves the file as it was
    (so a wrong-length placeholder can never silently corrupt the archive); CARv1 case. -/
theorem wrong_length_proxy_rejected (maxHeader : Nat) (proxy root : Cid) (body : Bytes)
    (hwf : (CarHeader.mk (some [proxy]) 1).wf) (hmax : (encodeHeaderBody ⟨some [proxy], 1⟩).length ≤ maxHeader)
    (h63 : (encodeHeaderBody ⟨some [proxy], 1⟩).length < 2 ^ 63)
    (hne : (encodeHeader ⟨some [proxy], 1⟩).length ≠ (encodeHeader ⟨some [root], 1⟩).length) :
    replaceRoots maxHeader (encodeHeader ⟨some [proxy], 1⟩ ++ body) (some [root])
      = (.error .other, encodeHeader ⟨some [proxy], 1⟩ ++ body) := by
  unfold replaceRoots
  rw [readHeader_encode maxHeader ⟨some [proxy], 1⟩ body hwf hmax h63]
  simp [hne]

/-- (2) Extraction of a faithful walk reproduces the tree: into an existing empty output directory,
    for every trace of directories, complete files and symlinks with simple, per-directory-unique
    names (any nesting, any order — sorted or HAMT order), extraction succeeds and the output
    directory holds exactly the denoted paths with exactly the denoted nodes (names, contents,
    link targets), and nothing else. -/
theorem extract_reproduces_tree (fs : Fs) (outDir root : P) (evs : List Ev)
    (hroot : evalSymlinks fs outDir = .ok root) (hd : lookup fs root = some .dir)
    (hempty : ∀ q, q ≠ [] → lookup fs (root ++ q) = none)
    (hg : ∀ e ∈ evs, GoodEv e) (hnd : ((denote [[]] evs).map (·.1)).Nodup) :
    (extractAll outDir fs [.dir evs]).2 = .ok () ∧
    ∀ q, q ≠ [] → lookup (extractAll outDir fs [.dir evs]).1 (root ++ q) = (denote [[]] evs).lookup q :=
  extract_roundtrip fs outDir root evs hroot hd hempty hg hnd

/-- Non-vacuity: a two-level trace with a file, a nested directory and a symlink is a good trace
    with distinct denoted paths. -/
example : (∀ e ∈ ([.file [0x61] [1] true, .enter [0x64], .sym [0x6c] [0x61], .leave] : List Ev), GoodEv e) ∧
    ((denote [[]] [.file [0x61] [1] true, .enter [0x64], .sym [0x6c] [0x61], .leave]).map (·.1)).Nodup := by
  constructor
  · intro e he
    simp only [List.mem_cons, List.not_mem_nil, or_false] at he
    rcases he with rfl | rfl | rfl | rfl <;>
      simp [GoodEv, Simple, splitSegs, splitAux, slash, dot, dotdot]
  · simp [denote]

end Car.C18
