import CarModel.Proofs.MixedTrunc
import CarModel.Proofs.BlockReader
/-
C14 — Block reader positions are exact under any mix of reading and skipping.
`choice : Nat → Bool` is an arbitrary (infinite) choice string: `choice i = true` ⇒ the i-th call is
SkipNext, else Next. Sources: seekable (`seek = true`) or plain.
-/
namespace Car.C14
open Car

/-- Every choice string visits the same CID sequence. -/
theorem visits_cids (choice : Nat → Bool) (base : Nat) : ∀ (bs : List Block) (i off : Nat),
    (expectedVisits choice base i off bs).map Visit.cid = bs.map (·.cid) := by
  intro bs
  induction bs with
  | nil => intro i off; rfl
  | cons b tl ih =>
    intro i off
    simp only [expectedVisits, List.map_cons, ih]
    cases choice i <;> simp [expectedVisit, Visit.cid]

/-- The hypotheses on blocks: well-formed, honest (or TrustedCAR), digest within go-cid's stream cap. -/
def BlocksOK (H : HashFn) (o : ReadOpts) (bs : List Block) : Prop :=
  ∀ b ∈ bs, b.wf o.maxSection ∧ checkBlock H o.trusted b = .ok () ∧ b.cid.digest.length ≤ maxDigestAlloc

/-- CARv1, seekable or plain source, any choice string: the iteration yields, for block i, either
    the block itself (Next) or metadata with Offset = SourceOffset = the offset of its length prefix
    and Size = its data length (SkipNext); it ends with a clean EOF after the last block. -/
theorem v1_any_choices (H : HashFn) (o : ReadOpts) (seek : Bool) (choice : Nat → Bool)
    (roots : Option (List Cid)) (bs : List Block)
    (hwf : (CarHeader.mk roots 1).wf) (hmax : (encodeHeaderBody ⟨roots, 1⟩).length ≤ o.maxHeader)
    (h63 : (encodeHeaderBody ⟨roots, 1⟩).length < 2 ^ 63) (hok : BlocksOK H o bs) :
    ∃ br, newBlockReader o seek (payload roots bs) = .ok br ∧ br.roots = roots.getD [] ∧
      BR.runChoices H o choice (bs.length + 1) 0 br
        = (expectedVisits choice 0 0 (headerSize ⟨roots, 1⟩) bs, .eof) := by
  unfold payload
  refine ⟨_, newBlockReader_v1 o seek roots _ hwf hmax h63, rfl, ?_⟩
  have inv : BRInv { version := 1, roots := roots.getD [], rest := sectionsBytes bs,
                     srcLen := (encodeHeader ⟨roots, 1⟩ ++ sectionsBytes bs).length,
                     offset := headerSize ⟨roots, 1⟩, v1offset := 0, readerSize := none, seekable := seek,
                     consumed := (encodeHeader ⟨roots, 1⟩).length } (headerSize ⟨roots, 1⟩) [] bs :=
    ⟨rfl, by simp [sectionsBytes], by intro _; simp [headerSize]⟩
  have := runChoices_valid H o choice (headerSize ⟨roots, 1⟩) bs [] _ 0 (bs.length + 1) inv (by omega) hok
  simpa [sectionsBytes] using this

/-- CARv2 with any data padding, with or without index: Offset is relative to the payload (what an
    index records), SourceOffset = 51 + padding + Offset, and the iteration ends with a clean EOF at
    the end of the payload window — the index bytes that follow are never taken for sections. -/
theorem v2_any_choices (H : HashFn) (o : ReadOpts) (seek : Bool) (choice : Nat → Bool) (dp ip : Nat)
    (roots : Option (List Cid)) (bs : List Block) (hasIdx fi : Bool) (index : Bytes)
    (hwf : (CarHeader.mk roots 1).wf) (hmax : (encodeHeaderBody ⟨roots, 1⟩).length ≤ o.maxHeader)
    (h63 : (encodeHeaderBody ⟨roots, 1⟩).length < 2 ^ 63) (h10 : 10 ≤ o.maxHeader)
    (lok : LayoutOK dp ip (payload roots bs).length) (hok : BlocksOK H o bs) :
    ∃ br, newBlockReader o seek (layoutV2 dp ip (payload roots bs) hasIdx fi index) = .ok br ∧
      br.roots = roots.getD [] ∧
      BR.runChoices H o choice (bs.length + 1) 0 br
        = (expectedVisits choice (51 + dp) 0 (headerSize ⟨roots, 1⟩) bs, .eof) := by
  obtain ⟨br, hbr, _, hroots, hrest, hoff, hv1, hseek⟩ :=
    newBlockReader_v2 o seek dp ip roots (sectionsBytes bs) hasIdx fi index hwf hmax h63 h10 lok
  refine ⟨br, hbr, hroots, ?_⟩
  have inv : BRInv br (headerSize ⟨roots, 1⟩) [] bs :=
    ⟨hrest, by rw [hoff, hv1]; simp [sectionsBytes], by intro h; rw [hseek] at h; cases h⟩
  have := runChoices_valid H o choice (headerSize ⟨roots, 1⟩) bs [] br 0 (bs.length + 1) inv (by omega) hok
  rw [hv1] at this
  simpa [sectionsBytes] using this

/-- **A CARv1 cut inside a section, any mix of Next and SkipNext, seekable or plain source**: the
    iteration visits exactly the complete sections before the cut — blocks for Next, exact metadata
    for SkipNext — and then fails with an error that is not a clean end (C02's truncation clause for
    the skipping reader; C14's exactness on the part of the archive that is there). `pre` are the
    complete sections, `b` the section the cut falls in, `m` how many of its bytes survive. -/
theorem v1_cut_any_choices (H : HashFn) (o : ReadOpts) (seek : Bool) (choice : Nat → Bool)
    (roots : Option (List Cid)) (pre : List Block) (b : Block) (m : Nat)
    (hwf : (CarHeader.mk roots 1).wf) (hmax : (encodeHeaderBody ⟨roots, 1⟩).length ≤ o.maxHeader)
    (h63 : (encodeHeaderBody ⟨roots, 1⟩).length < 2 ^ 63) (hok : BlocksOK H o pre)
    (hb : b.wf o.maxSection) (hm0 : 0 < m) (hm : m < sectionSize b) :
    ∃ br e, newBlockReader o seek (encodeHeader ⟨roots, 1⟩ ++ (sectionsBytes pre ++ (sectionBytes b).take m)) = .ok br ∧
      e ≠ .eof ∧
      BR.runChoices H o choice (pre.length + 1) 0 br
        = (expectedVisits choice 0 0 (headerSize ⟨roots, 1⟩) pre, e) := by
  have inv : BRInvT { version := 1, roots := roots.getD [], rest := (sectionsBytes pre ++ (sectionBytes b).take m),
                      srcLen := (encodeHeader ⟨roots, 1⟩ ++ (sectionsBytes pre ++ (sectionBytes b).take m)).length,
                      offset := headerSize ⟨roots, 1⟩, v1offset := 0, readerSize := none, seekable := seek,
                      consumed := (encodeHeader ⟨roots, 1⟩).length } (headerSize ⟨roots, 1⟩) [] pre ((sectionBytes b).take m) :=
    ⟨rfl, by simp [sectionsBytes], by intro _; simp [headerSize]; omega⟩
  obtain ⟨e, hne, hrun⟩ := runChoices_truncated H o choice (headerSize ⟨roots, 1⟩) b m hb hm0 hm pre [] _ 0 (pre.length + 1) inv (by omega) hok
  refine ⟨_, e, newBlockReader_v1 o seek roots _ hwf hmax h63, hne, ?_⟩
  simpa [sectionsBytes] using hrun

/-- (2e) … and through a CARv2 container (any data padding; the header still announces the full payload
    of size `n`): the file is cut inside section `b` of its payload window; any mix of Next and SkipNext
    visits exactly the complete sections `pre`, with Offset relative to the payload and SourceOffset
    = 51 + padding + Offset for the skipped ones, then fails with an error that is not a clean end. -/
theorem v2_cut_any_choices (H : HashFn) (o : ReadOpts) (seek : Bool) (choice : Nat → Bool) (dp ip n : Nat) (hasIdx fi : Bool)
    (roots : Option (List Cid)) (pre : List Block) (b : Block) (m : Nat)
    (hwf : (CarHeader.mk roots 1).wf) (hmax : (encodeHeaderBody ⟨roots, 1⟩).length ≤ o.maxHeader)
    (h63 : (encodeHeaderBody ⟨roots, 1⟩).length < 2 ^ 63) (h10 : 10 ≤ o.maxHeader)
    (lok : LayoutOK dp ip n)
    (hn : (encodeHeader ⟨roots, 1⟩ ++ (sectionsBytes pre ++ (sectionBytes b).take m)).length ≤ n)
    (hok : ∀ x ∈ pre, x.wf o.maxSection ∧ checkBlock H o.trusted x = .ok () ∧ x.cid.digest.length ≤ maxDigestAlloc)
    (hb : b.wf o.maxSection) (hm0 : 0 < m) (hm : m < sectionSize b) :
    ∃ br e, newBlockReader o seek
        (pragma ++ ((finalHeader dp ip n hasIdx fi).bytes ++
          (zeros dp ++ (encodeHeader ⟨roots, 1⟩ ++ (sectionsBytes pre ++ (sectionBytes b).take m))))) = .ok br ∧
      e ≠ .eof ∧
      BR.runChoices H o choice (pre.length + 1) 0 br
        = (expectedVisits choice (51 + dp) 0 (headerSize ⟨roots, 1⟩) pre, e) := by
  have hpos : 0 < n := by
    have := uvarintSize_pos (encodeHeaderBody ⟨roots, 1⟩).length
    simp only [encodeHeader, List.length_append, uvarint_length] at hn; omega
  have hwin : (encodeHeader ⟨roots, 1⟩ ++ (sectionsBytes pre ++ (sectionBytes b).take m)).take
      (finalHeader dp ip n hasIdx fi).dataSize
      = encodeHeader ⟨roots, 1⟩ ++ (sectionsBytes pre ++ (sectionBytes b).take m) := by
    apply List.take_of_length_le
    simpa [finalHeader] using hn
  obtain ⟨br, hbr, _, hroots, hrest, hoff, hv1, hseek⟩ :=
    newBlockReader_container o seek (finalHeader dp ip n hasIdx fi) dp _ roots
      (sectionsBytes pre ++ (sectionBytes b).take m)
      (finalHeader_wf dp ip n hasIdx fi hpos lok) (by simp [finalHeader]) hwin hwf hmax h63 h10
  have inv : BRInvT br (headerSize ⟨roots, 1⟩) [] pre ((sectionBytes b).take m) :=
    ⟨hrest, by rw [hoff, hv1]; simp [sectionsBytes], by intro h; rw [hseek] at h; cases h⟩
  obtain ⟨e, hne, hrun⟩ := runChoices_truncated H o choice (headerSize ⟨roots, 1⟩) b m hb hm0 hm pre [] br 0 (pre.length + 1) inv (by omega) hok
  refine ⟨br, e, hbr, hne, ?_⟩
  rw [hv1] at hrun
  simpa [sectionsBytes] using hrun

/-- **Next and SkipNext apply the same section limit**: whenever the length prefix ahead announces more
    than `MaxAllowedSectionSize`, both calls are refused with the too-large error, whatever the source
    kind and whatever follows — so an over-limit section ends every history at the same place. -/
theorem same_limit_for_next_and_skip (H : HashFn) (o : ReadOpts) (br : BR)
    (h : ldReadSize o.zeroEOF o.maxSection br.rest = .error .tooLarge) :
    br.next H o = .error .tooLarge ∧ br.skipNext o = .error .tooLarge := by
  constructor
  · unfold BR.next nextBlock readNode ldRead
    rw [h]
  · unfold BR.skipNext
    rw [h]

/-- The Offset a skipped block reports is the offset an index records for it (C03's `withOffsets`). -/
theorem skip_offset_is_index_offset (choice : Nat → Bool) (base : Nat) :
    ∀ (bs : List Block) (i off : Nat) (m : BlockMeta),
    Visit.skipped m ∈ expectedVisits choice base i off bs →
    (⟨m.cid, m.offset⟩ : Record) ∈ withOffsets off bs ∧ m.sourceOffset = base + m.offset := by
  intro bs
  induction bs with
  | nil => intro i off m h; simp [expectedVisits] at h
  | cons b tl ih =>
    intro i off m h
    simp only [expectedVisits, List.mem_cons] at h
    rcases h with h | h
    · unfold expectedVisit at h
      split at h
      · injection h with h; subst h; simp [withOffsets]
      · cases h
    · obtain ⟨h1, h2⟩ := ih (i + 1) (off + sectionSize b) m h
      exact ⟨by simp [withOffsets, h1], h2⟩

/-- Non-vacuity: two concrete identity blocks satisfy `BlocksOK` for any `H`. -/
example : BlocksOK (fun _ _ => none) {} [⟨⟨1, 0x55, 0, [9]⟩, [9]⟩, ⟨⟨1, 0x71, 0, []⟩, []⟩] := by
  intro b hb
  simp only [List.mem_cons, List.not_mem_nil, or_false] at hb
  rcases hb with rfl | rfl <;>
    simp [Block.wf, Cid.wf, Cid.byteLen, Cid.bytes, Cid.mhBytes, uvarint_small, checkBlock, sumOk, verifies,
      maxDigestAlloc]

end Car.C14
