import CarModel.Proofs.Inspect
import CarModel.Proofs.IndexSer
import CarModel.Proofs.FactsTie
/-
C09 — Parsers are total and resource-bounded on arbitrary input.
Every model parser is a total Lean function (structural recursion or explicit fuel), which is the
"never fails to terminate" half for the model itself; the theorems below show the fuel is never the
reason a loop stops (so the real loops terminate by input exhaustion), and bound what is buffered.
-/
namespace Car.C09
open Car

/-- a successful `Next()` consumes at least one byte -/
theorem nextBlock_consumes (H : HashFn) (o : ReadOpts) (w : Bytes) (b : Block) (rest : Bytes)
    (h : nextBlock H o w = .ok (b, rest)) : rest.length < w.length := by
  obtain ⟨l, r1, n, hv, _, _, _, _, _, hrest, _⟩ := nextBlock_inv H o w b rest h
  have := readUvarint_consumes w l r1 hv
  rw [hrest]; simp only [List.length_drop]; omega

/-- `Next()` never fails with the class used for fuel exhaustion -/
theorem nextBlock_err_ne_other (H : HashFn) (o : ReadOpts) (w : Bytes) (e : Err) (h : nextBlock H o w = .error e) :
    e ≠ .other := by
  unfold nextBlock readNode ldRead ldReadSize at h
  cases hv : readUvarint w with
  | error ve =>
    simp only [hv] at h
    injection h with h; subst h
    cases ve <;> simp [verr]
  | ok p =>
    obtain ⟨l, r1⟩ := p
    simp only [hv] at h
    by_cases hz : l = 0 ∧ o.zeroEOF = true
    · simp only [hz, and_self, ↓reduceIte] at h; injection h with h; subst h; simp
    · simp only [hz, ↓reduceIte] at h
      by_cases hm : l > o.maxSection
      · simp only [hm, ↓reduceIte] at h; injection h with h; subst h; simp
      · simp only [hm, ↓reduceIte] at h
        by_cases hs : r1.length < l
        · simp only [hs, ↓reduceIte] at h; injection h with h; subst h; simp
        · simp only [hs, ↓reduceIte] at h
          cases hc : cidFromBytes (r1.take l) with
          | error ce => simp only [hc] at h; injection h with h; subst h; simp
          | ok q =>
            simp only [hc] at h
            cases hk : checkBlock H o.trusted ⟨q.2, (r1.take l).drop q.1⟩ with
            | ok u => simp [hk] at h
            | error ke =>
              simp only [hk] at h
              injection h with h; subst h
              unfold checkBlock at hk
              split at hk
              · cases hk
              · split at hk
                · injection hk with hk; subst hk; simp
                · split at hk
                  · cases hk
                  · injection hk with hk; subst hk; simp

/-- (1) **Termination of the block scan on every byte string**: with fuel = input length + 1 the scan
    never stops for lack of fuel — every iteration consumes at least one byte. -/
theorem scan_terminates (H : HashFn) (o : ReadOpts) : ∀ (fuel : Nat) (w : Bytes), w.length < fuel →
    (scanAux H o fuel w).2 ≠ .other := by
  intro fuel
  induction fuel with
  | zero => intro w h; omega
  | succ f ih =>
    intro w h
    unfold scanAux
    cases hn : nextBlock H o w with
    | error e => simp only; exact nextBlock_err_ne_other H o w e hn
    | ok p =>
      obtain ⟨b, rest⟩ := p
      simp only
      exact ih rest (by have := nextBlock_consumes H o w b rest hn; omega)

/-- (2) Limits are exact: a header or section of exactly the configured maximum is read … -/
theorem limit_accepts_max (zeroEOF : Bool) (body rest : Bytes) (hpos : 0 < body.length) (h63 : body.length < 2 ^ 63) :
    ldRead zeroEOF body.length (uvarint body.length ++ body ++ rest) = .ok (body, rest) :=
  ldRead_framed zeroEOF body.length body rest hpos (Nat.le_refl _) h63

/-- … and one byte more is refused with the too-large error, whatever the bytes that follow —
    i.e. before anything is buffered for it (`ldReadSize` fails; `ldRead` never reaches its `take`). -/
theorem limit_rejects_over (zeroEOF : Bool) (max l : Nat) (rest : Bytes) (hl : max < l) (h63 : l < 2 ^ 63) :
    ldReadSize zeroEOF max (uvarint l ++ rest) = .error .tooLarge ∧
    ldRead zeroEOF max (uvarint l ++ rest) = .error .tooLarge := by
  have hsz : ldReadSize zeroEOF max (uvarint l ++ rest) = .error .tooLarge := by
    unfold ldReadSize
    rw [readUvarint_uvarint l h63]
    have c0 : ¬ (l = 0 ∧ zeroEOF = true) := by omega
    have c1 : l > max := hl
    simp only [c0, c1, ↓reduceIte]
  exact ⟨hsz, by unfold ldRead; rw [hsz]⟩

/-- (2') The same at the level of `ReadHeader`, the first thing every entry point does: a CARv1 header
    whose encoded body is EXACTLY `MaxAllowedHeaderSize` bytes is accepted (the length prefix does not
    count against the limit) … -/
theorem header_accepted_at_limit (h : CarHeader) (hwf : h.wf) (h63 : (encodeHeaderBody h).length < 2 ^ 63)
    (rest : Bytes) :
    readHeader (encodeHeaderBody h).length (encodeHeader h ++ rest) = .ok (h, rest) :=
  readHeader_encode _ h rest hwf (Nat.le_refl _) h63

/-- … and one byte more is refused with the header-too-large error, whatever follows. -/
theorem header_refused_over_limit (maxHeader : Nat) (h : CarHeader) (rest : Bytes)
    (hl : maxHeader < (encodeHeaderBody h).length) (h63 : (encodeHeaderBody h).length < 2 ^ 63) :
    readHeader maxHeader (encodeHeader h ++ rest) = .error .headerTooLarge := by
  unfold readHeader encodeHeader
  simp only [List.append_assoc]
  rw [(limit_rejects_over false maxHeader _ (encodeHeaderBody h ++ rest) hl h63).2]

/-- (3) Nothing larger than the limit is ever buffered, on any input: a section (or header) that
    `LdRead` returns is at most `max` bytes long and was entirely present in the input. -/
theorem buffered_within_limit (zeroEOF : Bool) (max : Nat) (w sec rest : Bytes)
    (h : ldRead zeroEOF max w = .ok (sec, rest)) : sec.length ≤ max ∧ sec.length + rest.length < w.length := by
  unfold ldRead ldReadSize at h
  cases hv : readUvarint w with
  | error e => simp [hv] at h
  | ok p =>
    obtain ⟨l, r1⟩ := p
    simp only [hv] at h
    have hcons := readUvarint_consumes w l r1 hv
    by_cases hz : l = 0 ∧ zeroEOF = true
    · simp [hz] at h
    · simp only [hz, ↓reduceIte] at h
      by_cases hm : l > max
      · simp [hm] at h
      · simp only [hm, ↓reduceIte] at h
        by_cases hs : r1.length < l
        · simp [hs] at h
        · simp only [hs, ↓reduceIte] at h
          injection h with h; injection h with h1 h2; subst h1 h2
          simp only [List.length_take, List.length_drop]
          omega

/-- (4) Index decoding allocates in proportion to the input (repaired D8): a decoded bucket's bytes
    were all present in the input; widths and lengths are range-checked. -/
theorem index_bucket_bounded (w : Bytes) (s : SingleWidth) (rest : Bytes) (h : SingleWidth.unmarshal w = .ok (s, rest)) :
    s.index.length + rest.length + 12 = w.length ∧ 8 ≤ s.width ∧ s.width ≤ maxIndexWidth := by
  unfold SingleWidth.unmarshal at h
  split at h
  · cases h
  · rename_i h4
    simp only at h
    split at h
    · cases h
    · rename_i h8
      split at h
      · cases h
      · split at h
        · cases h
        · split at h
          · cases h
          · split at h
            · cases h
            · rename_i hw1 hw2 hd hshort
              injection h with h; injection h with h1 h2; subst h1 h2
              simp only [List.length_take, List.length_drop] at *
              omega

/-- (5) The CARv2 header range checks: whatever 40 bytes are read, an accepted header has a data
    offset of at least 51, a positive data size, and all three fields below 2^63 (no int64 wrap). -/
theorem v2header_ranges (w : Bytes) (h : V2Header) (rest : Bytes) (hr : readV2Header w = .ok (h, rest)) :
    51 ≤ h.dataOffset ∧ h.dataOffset < 2 ^ 63 ∧ 0 < h.dataSize ∧ h.dataSize < 2 ^ 63 ∧ h.indexOffset < 2 ^ 63 ∧
    rest.length + 40 = w.length := by
  unfold readV2Header at hr
  split at hr
  · cases hr
  · split at hr
    · cases hr
    · simp only at hr
      split at hr
      · cases hr
      · split at hr
        · cases hr
        · split at hr
          · cases hr
          · rename_i h16 h40 c1 c2 c3
            injection hr with hr; injection hr with h1 h2; subst h1 h2
            simp only [int64Neg, pragmaSize, v2HeaderSize, decide_eq_true_eq, not_or, Nat.not_le, Nat.not_lt,
              List.length_drop] at *
            omega

/-- (6) Inspect's walk terminates on every byte string for the same reason. -/
theorem inspect_step_consumes (w : Bytes) (l : Nat) (r1 : Bytes) (h : readUvarint w = .ok (l, r1)) :
    r1.length < w.length := readUvarint_consumes w l r1 h

/-- Non-vacuity: a 3-byte body at limit 3 is accepted, a 4-byte one refused. -/
example : ldRead false 3 (uvarint 3 ++ [1, 2, 3] ++ [9]) = .ok ([1, 2, 3], [9]) ∧
    ldRead false 3 (uvarint 4 ++ [1, 2, 3, 4]) = .error .tooLarge :=
  ⟨limit_accepts_max false [1, 2, 3] [9] (by decide) (by decide), (limit_rejects_over false 3 4 [1, 2, 3, 4] (by decide) (by decide)).2⟩

end Car.C09
