import CarModel.Proofs.Locks
import CarModel.Gen.Facts
/-
C08 — Concurrent use of writable stores is race-free and (at the level of the lock discipline)
linearizable. The lock table is regenerated from the Go sources on every run.
-/
namespace Car.C08
open Car.Locks

/-- (1) Every path of every public method of ReadOnly, ReadWrite, StorageCar and DeferredCarWriter —
    as extracted from the current sources — is well-locked: guarded reads under some lock, guarded
    writes under the exclusive lock, including what goroutines spawned by the method do after it
    returned; lock and unlock balanced on every path including early returns. The table is finite and
    complete, so `decide` is a proof, not a sample. -/
theorem wellLocked_table : Car.Facts.lockTable.all (fun m => wellLocked m.2) = true := by decide

/-- (2) Race freedom, for any number of threads and any interleaving: if every thread runs a
    well-locked method, no reachable configuration has two threads about to touch the same guarded
    field with at least one of them writing. -/
theorem raceFree (methods : List (List Ev)) (hwl : ∀ es ∈ methods, wellLocked es = true)
    (c : Config) (hr : Reachable (initial methods) c) : ¬ Race c :=
  inv_no_race c (reachable_inv _ c (initial_inv methods hwl) hr)

/-- (3) Deadlock freedom: in every reachable configuration, as long as some thread has not
    finished its method, some thread can take a step. -/
theorem deadlockFree (methods : List (List Ev)) (hwl : ∀ es ∈ methods, wellLocked es = true)
    (c : Config) (hr : Reachable (initial methods) c)
    (hlive : ∃ (i : Nat) (t : Thread), c.threads[i]? = some t ∧ t.rest ≠ []) : ∃ c', Step c c' :=
  progress c (reachable_inv _ c (initial_inv methods hwl) hr) (reachable_hinv _ c (initial_hinv methods) hr) hlive

/-- (4) Mutual exclusion of critical sections — the basis of linearizability with the linearization
    point at lock acquisition: whenever a thread holds the exclusive lock, no other thread holds the
    lock in any mode. So every method body that mutates runs as if alone, and its effect on the
    abstract state is the sequential `Store.step` (C04 refines it to the reference map). -/
theorem exclusive_sections (methods : List (List Ev)) (hwl : ∀ es ∈ methods, wellLocked es = true)
    (c : Config) (hr : Reachable (initial methods) c) (i j : Nat) (ti tj : Thread) (hij : i ≠ j)
    (hi : c.threads[i]? = some ti) (hj : c.threads[j]? = some tj) (hw : ti.mode = .w) : tj.mode = .none := by
  have inv := reachable_inv _ c (initial_inv methods hwl) hr
  have hwi := (inv.wmode i ti hi).mp hw
  cases hm : tj.mode with
  | none => rfl
  | r =>
    have := (inv.rmode j tj hj).mp hm
    rw [inv.excl (by simp [hwi])] at this; cases this
  | w =>
    have := (inv.wmode j tj hj).mp hm
    rw [hwi] at this; simp only [Option.some.injEq] at this; exact absurd this hij

/-- (5) Isolation of exclusive sections: while a thread holds the exclusive lock, no OTHER thread is
    about to read or write ANY guarded field (not only the same one). -/
theorem exclusive_isolation (methods : List (List Ev)) (hwl : ∀ es ∈ methods, wellLocked es = true)
    (c : Config) (hr : Reachable (initial methods) c) (i j : Nat) (ti tj : Thread) (hij : i ≠ j)
    (hi : c.threads[i]? = some ti) (hj : c.threads[j]? = some tj) (hw : ti.mode = .w)
    (e : Ev) (es : List Ev) (hnext : tj.rest = e :: es) : ∀ f, e ≠ .read f ∧ e ≠ .write f := by
  have inv := reachable_inv _ c (initial_inv methods hwl) hr
  have hnone := exclusive_sections methods hwl c hr i j ti tj hij hi hj hw
  have hwlj := inv.wl j tj hj
  rw [hnext, hnone] at hwlj
  intro f
  constructor
  · rintro rfl; have := (mode_of_read _ _ _ hwlj).1; simp at this
  · rintro rfl; have := (mode_of_write _ _ _ hwlj).1; simp at this

/-- (6) Stability of shared sections: while some thread holds the lock shared, NO thread (itself
    included) is about to write any guarded field. -/
theorem shared_isolation (methods : List (List Ev)) (hwl : ∀ es ∈ methods, wellLocked es = true)
    (c : Config) (hr : Reachable (initial methods) c) (i j : Nat) (ti tj : Thread)
    (hi : c.threads[i]? = some ti) (hj : c.threads[j]? = some tj) (hrd : ti.mode = .r)
    (f : Nat) (es : List Ev) : tj.rest ≠ .write f :: es := by
  have inv := reachable_inv _ c (initial_inv methods hwl) hr
  intro hnext
  have hwlj := inv.wl j tj hj
  rw [hnext] at hwlj
  have hwj := (mode_of_write _ _ _ hwlj).1
  have hwr := (inv.wmode j tj hj).mp hwj
  have hri := (inv.rmode i ti hi).mp hrd
  rw [inv.excl (by simp [hwr])] at hri
  cases hri
/-- (7) No check-then-act windows, regenerated from the source on every run: every execution path of every
    public method is ONE critical section — it never re-acquires the lock after releasing it — so a
    decision taken under the lock (is the key present? is the store finalized?) is acted upon under the
    same acquisition. -/
theorem atomic_table : Car.Facts.lockTable.all (fun m => singleSection m.2) = true := by decide

/-- (8) What (1) and (7) say together about the shape of a method path: it is empty, or one exclusive
    block `lock; accesses…; unlock`, or one shared block `rlock; reads…; runlock` — nothing before,
    between or after. With (4)–(6) each non-empty path therefore runs as if alone (exclusive) or
    against a frozen state (shared): the linearization point is its single lock acquisition. -/
theorem method_is_one_block (es : List Ev) (h1 : wellLocked es = true) (h2 : singleSection es = true) :
    es = [] ∨ (∃ body, es = .lock :: body ++ [.unlock] ∧ body.all Ev.isAccess = true) ∨
    (∃ body, es = .rlock :: body ++ [.runlock] ∧ body.all Ev.isRead = true) :=
  single_section_shape es h1 h2

/-- (7) has teeth: a path that decides under the read lock and acts under the write lock (the check-then-act
    shape of seeded changes C08-k / C08-l) is well-locked but NOT a single section. -/
example : wellLocked [.rlock, .read 0, .read 1, .runlock, .lock, .read 0, .write 1, .unlock] = true ∧
    singleSection [.rlock, .read 0, .read 1, .runlock, .lock, .read 0, .write 1, .unlock] = false := by decide

/-- Non-vacuity: the extracted methods themselves satisfy the premise of (2)–(4). -/
example : ∀ es ∈ Car.Facts.lockTable.map (·.2), wellLocked es = true := by
  intro es hes
  have h := wellLocked_table
  rw [List.all_eq_true] at h
  obtain ⟨m, hm, rfl⟩ := List.mem_map.mp hes
  exact h m hm

end Car.C08
