import CarModel.Proofs.Transform
import CarModel.Proofs.FactsTie
import CarModel.Proofs.ReplaceRootsV2
/-
C10 — Container transforms preserve the payload byte-for-byte.
`x` ranges over all byte strings (extraction does not look inside the payload) or, for wrapping, over
everything `LoadIndex` accepts.
-/
namespace Car.C10
open Car

/-- shape of a CARv2 file around an arbitrary payload `x` -/
theorem layout_split (dp ip : Nat) (x : Bytes) (hasIdx fi : Bool) (index : Bytes) :
    layoutV2 dp ip x hasIdx fi index
      = pragma ++ ((finalHeader dp ip x.length hasIdx fi).bytes ++
          (zeros dp ++ (x ++ (if hasIdx then zeros ip ++ index else [])))) := by
  simp [layoutV2]

theorem layout_window (dp ip : Nat) (x : Bytes) (hasIdx fi : Bool) (index : Bytes) :
    ((layoutV2 dp ip x hasIdx fi index).drop (51 + dp)).take x.length = x := by
  have hpre : (pragma ++ ((finalHeader dp ip x.length hasIdx fi).bytes ++ zeros dp)).length = 51 + dp := by
    simp [pragma, pragmaBody, keyVersion, V2Header.bytes_length, zeros_length]; omega
  have e : layoutV2 dp ip x hasIdx fi index
      = (pragma ++ ((finalHeader dp ip x.length hasIdx fi).bytes ++ zeros dp)) ++
          (x ++ (if hasIdx then zeros ip ++ index else [])) := by
    simp [layoutV2]
  rw [e, List.drop_left' hpre, List.take_left' rfl]

/-- (1) Extracting the payload of any CARv2 — any data padding, any index padding, with or without
    an index — to a new file or over an existing file of any size yields exactly the payload bytes. -/
theorem extract_any (maxHeader : Nat) (dp ip : Nat) (x : Bytes) (hasIdx fi : Bool) (index : Bytes)
    (dst : Option Bytes) (chunk : Nat) (h10 : 10 ≤ maxHeader) (hx : 0 < x.length) (lok : LayoutOK dp ip x.length) :
    extractV1 maxHeader (layoutV2 dp ip x hasIdx fi index) dst false chunk = .ok x := by
  have hfw := finalHeader_wf dp ip x.length hasIdx fi hx lok
  unfold extractV1
  rw [layout_split, readHeader_pragma maxHeader _ h10]
  simp only [show ¬ ((2 : Nat) = 1) by decide, ↓reduceIte, ne_eq, not_true_eq_false]
  rw [readV2Header_bytes _ hfw]
  simp only
  have hoff : (finalHeader dp ip x.length hasIdx fi).dataOffset = 51 + dp := by simp [finalHeader]
  have hsz : (finalHeader dp ip x.length hasIdx fi).dataSize = x.length := by simp [finalHeader]
  rw [hoff, hsz, ← layout_split, layout_window]
  simp only [Nat.lt_irrefl, ↓reduceIte, Bool.false_eq_true]
  cases dst <;> rfl

/-- (2) … and **in place** (source and destination are the same file), for every chunk size of the
    copy loop: the file ends up being exactly the payload. -/
theorem extract_in_place (maxHeader : Nat) (dp ip : Nat) (x : Bytes) (hasIdx fi : Bool) (index : Bytes)
    (chunk : Nat) (h10 : 10 ≤ maxHeader) (hx : 0 < x.length) (lok : LayoutOK dp ip x.length) :
    extractV1 maxHeader (layoutV2 dp ip x hasIdx fi index) none true chunk = .ok x := by
  have hfw := finalHeader_wf dp ip x.length hasIdx fi hx lok
  unfold extractV1
  rw [layout_split, readHeader_pragma maxHeader _ h10]
  simp only [show ¬ ((2 : Nat) = 1) by decide, ↓reduceIte, ne_eq, not_true_eq_false]
  rw [readV2Header_bytes _ hfw]
  simp only
  have hoff : (finalHeader dp ip x.length hasIdx fi).dataOffset = 51 + dp := by simp [finalHeader]
  have hsz : (finalHeader dp ip x.length hasIdx fi).dataSize = x.length := by simp [finalHeader]
  rw [hoff, hsz, ← layout_split, layout_window]
  simp only [Nat.lt_irrefl, ↓reduceIte]
  -- the copy loop
  generalize hL : layoutV2 dp ip x hasIdx fi index = L
  have hwin : (L.drop (51 + dp)).take x.length = x := by rw [← hL]; exact layout_window dp ip x hasIdx fi index
  have hlen : x.length ≤ (L.drop (51 + dp)).length := by
    have := congrArg List.length hwin
    simp only [List.length_take] at this; omega
  obtain ⟨total, ht, _, _, _, htot⟩ := copyInPlace_inv L (51 + dp)
    (List.replicate (x.length / (chunk + 1) + 1) (chunk + 1)) L 0 rfl (by simp) (by simp) (by omega)
  have hrep : ∀ (k c : Nat), (List.replicate k c).sum = k * c := by
    intro k c; induction k with
    | zero => simp
    | succ k ih => simp [List.replicate_succ, ih, Nat.add_mul]; omega
  have hsum : x.length ≤ (List.replicate (x.length / (chunk + 1) + 1) (chunk + 1)).sum := by
    rw [hrep]
    have := Nat.lt_div_mul_add (a := x.length) (b := chunk + 1) (by omega)
    rw [Nat.add_mul]; omega
  have hge : x.length ≤ total := by rw [htot]; simp only [Nat.zero_add]; omega
  have := congrArg (List.take x.length) ht
  simp only [List.take_take, Nat.min_eq_left hge] at this
  rw [this, hwin]

/-- (3) Wrapping produces pragma, a header for the source size, the unmodified source bytes, an index. -/
theorem wrap_layout (o : IdxOpts) (codec : Nat) (x : Bytes) (out : Bytes) (h : wrapV1 o codec x = .ok out)
    (h64 : 51 + x.length < 2 ^ 64) :
    ∃ ix, generateIndex .seekable o codec x = .ok ix ∧ out = layoutV2 0 0 x true false ix.bytes := by
  unfold wrapV1 at h
  split at h
  · cases h
  · rename_i ix hix
    injection h with h
    refine ⟨ix, hix, ?_⟩
    rw [← h]
    have hh : V2Header.new x.length = finalHeader 0 0 x.length true false := by
      simp [V2Header.new, finalHeader, u64, pragmaSize, v2HeaderSize, Nat.mod_eq_of_lt h64]
    simp [layoutV2, hh, zeros]

/-- (4) extract(wrap(x)) = x, for every source the wrapper accepts. -/
theorem extract_wrap (o : IdxOpts) (codec : Nat) (x out : Bytes) (h : wrapV1 o codec x = .ok out)
    (maxHeader chunk : Nat) (dst : Option Bytes) (h10 : 10 ≤ maxHeader) (hx : 0 < x.length) (h63 : 51 + x.length < 2 ^ 63) :
    extractV1 maxHeader out dst false chunk = .ok x := by
  obtain ⟨ix, _, hout⟩ := wrap_layout o codec x out h (by have : (2:Nat)^63 < 2^64 := by decide
                                                          omega)
  rw [hout]
  exact extract_any maxHeader 0 0 x true false ix.bytes dst chunk h10 hx ⟨by omega, by omega, by omega⟩

/-- (5) The index `WrapV1` attaches to a valid payload is the index of exactly its sections (C03). -/
theorem wrap_index_records (o : IdxOpts) (roots : Option (List Cid)) (bs : List Block)
    (hwf : (CarHeader.mk roots 1).wf) (hmax : (encodeHeaderBody ⟨roots, 1⟩).length ≤ o.maxHeader)
    (h63 : (encodeHeaderBody ⟨roots, 1⟩).length < 2 ^ 63) (hok : ∀ b ∈ bs, b.idxOk o) (codec : Nat)
    (hsz : (payload roots bs).length < 2 ^ 63) :
    generateIndex .seekable o codec (payload roots bs)
      = (match Index.load codec (keptRecords o (headerSize ⟨roots, 1⟩) bs) with
         | some ix => .ok ix | none => .error .other) := by
  unfold generateIndex
  rw [loadIndexRecords_v1 .seekable o roots bs hwf hmax h63 hok hsz]
  rfl

/-- (6) Replacing roots with a header of a **different** encoded length fails and leaves the file
    untouched (CARv1). -/
theorem replaceRoots_reject_v1 (maxHeader : Nat) (roots newRoots : Option (List Cid)) (body : Bytes)
    (hwf : (CarHeader.mk roots 1).wf) (hmax : (encodeHeaderBody ⟨roots, 1⟩).length ≤ maxHeader)
    (h63 : (encodeHeaderBody ⟨roots, 1⟩).length < 2 ^ 63)
    (hne : (encodeHeader ⟨roots, 1⟩).length ≠ (encodeHeader ⟨newRoots, 1⟩).length) :
    replaceRoots maxHeader (encodeHeader ⟨roots, 1⟩ ++ body) newRoots
      = (.error .other, encodeHeader ⟨roots, 1⟩ ++ body) := by
  unfold replaceRoots
  rw [readHeader_encode maxHeader ⟨roots, 1⟩ body hwf hmax h63]
  simp only [↓reduceIte, List.length_append, Nat.add_sub_cancel, ne_eq, hne, not_false_eq_true]

/-- (7) … and with a header of the **same** length it changes exactly the header bytes. -/
theorem replaceRoots_same_len_v1 (maxHeader : Nat) (roots newRoots : Option (List Cid)) (body : Bytes)
    (hwf : (CarHeader.mk roots 1).wf) (hmax : (encodeHeaderBody ⟨roots, 1⟩).length ≤ maxHeader)
    (h63 : (encodeHeaderBody ⟨roots, 1⟩).length < 2 ^ 63)
    (heq : (encodeHeader ⟨roots, 1⟩).length = (encodeHeader ⟨newRoots, 1⟩).length) :
    replaceRoots maxHeader (encodeHeader ⟨roots, 1⟩ ++ body) newRoots
      = (.ok (), encodeHeader ⟨newRoots, 1⟩ ++ body) := by
  unfold replaceRoots
  rw [readHeader_encode maxHeader ⟨roots, 1⟩ body hwf hmax h63]
  simp only [↓reduceIte, List.length_append, Nat.add_sub_cancel, ne_eq, heq, not_true_eq_false]
  congr 1
  rw [writeAt_within _ _ 0 (by simp [heq])]
  simp only [List.take_zero, List.nil_append, Nat.zero_add]
  rw [← heq, List.drop_left' rfl]

/-- (6') The same on a CARv2 file (any paddings, with or without index): the inner CARv1 header is found
    through DataOffset; a new header of another encoded length is refused and the file is untouched. -/
theorem replaceRoots_reject_v2 (maxHeader dp ip : Nat) (roots newRoots : Option (List Cid)) (secs : Bytes)
    (hasIdx fi : Bool) (index : Bytes)
    (hwf : (CarHeader.mk roots 1).wf) (hmax : (encodeHeaderBody ⟨roots, 1⟩).length ≤ maxHeader)
    (h63 : (encodeHeaderBody ⟨roots, 1⟩).length < 2 ^ 63) (h10 : 10 ≤ maxHeader)
    (lok : LayoutOK dp ip (encodeHeader ⟨roots, 1⟩ ++ secs).length)
    (hne : (encodeHeader ⟨roots, 1⟩).length ≠ (encodeHeader ⟨newRoots, 1⟩).length) :
    replaceRoots maxHeader (layoutV2 dp ip (encodeHeader ⟨roots, 1⟩ ++ secs) hasIdx fi index) newRoots
      = (.error .other, layoutV2 dp ip (encodeHeader ⟨roots, 1⟩ ++ secs) hasIdx fi index) :=
  replaceRoots_reject_v2' maxHeader dp ip roots newRoots secs hasIdx fi index hwf hmax h63 h10 lok hne

/-- (7') … and one of the same length changes exactly the inner header: the result is the layout of the
    payload under the new header — CARv2 header fields, paddings, sections and index untouched. -/
theorem replaceRoots_same_len_v2 (maxHeader dp ip : Nat) (roots newRoots : Option (List Cid)) (secs : Bytes)
    (hasIdx fi : Bool) (index : Bytes)
    (hwf : (CarHeader.mk roots 1).wf) (hmax : (encodeHeaderBody ⟨roots, 1⟩).length ≤ maxHeader)
    (h63 : (encodeHeaderBody ⟨roots, 1⟩).length < 2 ^ 63) (h10 : 10 ≤ maxHeader)
    (lok : LayoutOK dp ip (encodeHeader ⟨roots, 1⟩ ++ secs).length)
    (heq : (encodeHeader ⟨roots, 1⟩).length = (encodeHeader ⟨newRoots, 1⟩).length) :
    replaceRoots maxHeader (layoutV2 dp ip (encodeHeader ⟨roots, 1⟩ ++ secs) hasIdx fi index) newRoots
      = (.ok (), layoutV2 dp ip (encodeHeader ⟨newRoots, 1⟩ ++ secs) hasIdx fi index) :=
  replaceRoots_same_len_v2' maxHeader dp ip roots newRoots secs hasIdx fi index hwf hmax h63 h10 lok heq

/-- Non-vacuity: the layout side condition holds for a small payload. -/
example : LayoutOK 7 3 100 := ⟨by decide, by decide, by decide⟩

end Car.C10
