import CarModel.Proofs.MixedTrunc
import CarModel.Proofs.V2
import CarModel.Proofs.V2Prefix
/-
C02 — Untrusted reads never yield corrupted or silently truncated content.
Property theorems only; helper lemmas live in CarModel/Proofs.
`H` (the hash functions) is a parameter: every theorem holds for all `H`.
-/
namespace Car.C02
open Car

/-- (1) Soundness, for **every byte string** and every option setting without TrustedCAR:
    each block the section scan returns hashes to its CID. -/
theorem scan_sound (H : HashFn) (o : ReadOpts) (ht : o.trusted = false) (input : Bytes) :
    ∀ b ∈ (scanSections H o input).1, verifies H b.cid b.data = true :=
  scanAux_sound H o ht _ input

/-- (1a) The v2 block reader (seekable or plain source, CARv1 or CARv2 input) on any byte string. -/
theorem blockReader_sound (H : HashFn) (o : ReadOpts) (seek : Bool) (ht : o.trusted = false) (input : Bytes)
    (r : ScanResult) (h : scanBlockReader H o seek input = .ok r) :
    ∀ b ∈ r.blocks, verifies H b.cid b.data = true := by
  unfold scanBlockReader at h
  split at h
  · cases h
  · rename_i br _
    injection h with h; subst h
    exact scanAux_sound H o ht _ br.rest

/-- (1b) The internal CARv1 reader / loader on any byte string. -/
theorem carV1Reader_sound (H : HashFn) (o : ReadOpts) (req : Bool) (ht : o.trusted = false) (input : Bytes)
    (r : ScanResult) (h : scanV1 H o req input = .ok r) :
    ∀ b ∈ r.blocks, verifies H b.cid b.data = true := by
  unfold scanV1 at h
  split at h
  · cases h
  · rename_i hd rest _
    split at h
    · cases h
    · split at h
      · cases h
      · injection h with h; subst h
        exact scanAux_sound H o ht _ rest

/-- (2) Truncation inside the block sections, every offset `k`: either `k` is a section boundary and
    the scan returns exactly the complete sections with a clean end, or it is not, and the scan
    returns exactly the complete sections and then `unexpectedEOF` (never a clean end). -/
theorem scan_truncated (H : HashFn) (o : ReadOpts) (bs : List Block)
    (hwf : ∀ b ∈ bs, b.wf o.maxSection ∧ checkBlock H o.trusted b = .ok ())
    (k : Nat) (hk : k ≤ (sectionsBytes bs).length) :
    (∃ j, j ≤ bs.length ∧ (sectionsBytes bs).take k = sectionsBytes (bs.take j) ∧
        scanSections H o ((sectionsBytes bs).take k) = (bs.take j, .eof)) ∨
    (∃ pre b post m, bs = pre ++ b :: post ∧ 0 < m ∧ m < sectionSize b ∧
        (sectionsBytes bs).take k = sectionsBytes pre ++ (sectionBytes b).take m ∧
        scanSections H o ((sectionsBytes bs).take k) = (pre, .unexpectedEOF)) := by
  rcases take_sections_decomp bs k hk with ⟨j, hj, he⟩ | ⟨pre, b, post, m, hbs, hm0, hm, he⟩
  · left
    refine ⟨j, hj, he, ?_⟩
    rw [he]
    exact scanSections_sections H o _ (fun x hx => hwf x (List.mem_of_mem_take hx))
  · right
    refine ⟨pre, b, post, m, hbs, hm0, hm, he, ?_⟩
    rw [he]
    have hb : b.wf o.maxSection := (hwf b (by rw [hbs]; simp)).1
    exact scanSections_then H o pre _ _ (fun x hx => hwf x (by rw [hbs]; simp [hx]))
      (nextBlock_partial H o b m hb hm0 hm)

/-- (2a) The same through the CARv1 container: any cut at or after the header end. -/
theorem carV1_truncated (H : HashFn) (o : ReadOpts) (req : Bool) (roots : Option (List Cid)) (bs : List Block)
    (ok : PayloadOK H o roots bs) (hreq : req = true → roots.getD [] ≠ [])
    (k : Nat) (hk : k ≤ (sectionsBytes bs).length) :
    ∃ pre e, scanV1 H o req ((payload roots bs).take ((encodeHeader ⟨roots, 1⟩).length + k))
        = .ok ⟨roots.getD [], pre, e⟩ ∧
      ((e = .eof ∧ ∃ j, pre = bs.take j ∧ (sectionsBytes bs).take k = sectionsBytes pre) ∨
       (e = .unexpectedEOF ∧ ∃ b post, bs = pre ++ b :: post)) := by
  have e1 : (payload roots bs).take ((encodeHeader ⟨roots, 1⟩).length + k)
      = encodeHeader ⟨roots, 1⟩ ++ (sectionsBytes bs).take k := by
    unfold payload; rw [List.take_append]; simp [List.take_of_length_le]
  have hopen : ∀ secs, scanV1 H o req (encodeHeader ⟨roots, 1⟩ ++ secs)
      = .ok ⟨roots.getD [], (scanSections H o secs).1, (scanSections H o secs).2⟩ := by
    intro secs
    unfold scanV1
    rw [readHeader_encode o.maxHeader ⟨roots, 1⟩ _ ok.hdr ok.hdrMax ok.hdr63]
    simp only [ne_eq, not_true_eq_false, ↓reduceIte, CarHeader.rootList]
    have : ¬ (req = true ∧ roots.getD [] = []) := fun ⟨a, b⟩ => hreq a b
    simp only [this, ↓reduceIte]
  rw [e1, hopen]
  rcases scan_truncated H o bs ok.blocks k hk with ⟨j, _, he, hs⟩ | ⟨pre, b, post, m, hbs, _, _, _, hs⟩
  · exact ⟨bs.take j, .eof, by rw [hs], Or.inl ⟨rfl, j, rfl, he⟩⟩
  · exact ⟨pre, .unexpectedEOF, by rw [hs], Or.inr ⟨rfl, b, post, hbs⟩⟩

/-- (2b) Truncation inside the CARv1 header: the archive cannot be opened. -/
theorem carV1_header_truncated (H : HashFn) (o : ReadOpts) (req : Bool) (roots : Option (List Cid)) (bs : List Block)
    (ok : PayloadOK H o roots bs) (k : Nat) (hk : k < (encodeHeader ⟨roots, 1⟩).length) :
    ∃ e, scanV1 H o req ((payload roots bs).take k) = .error e := by
  have e1 : (payload roots bs).take k = (encodeHeader ⟨roots, 1⟩).take k := by
    unfold payload; rw [List.take_append_of_le_length (by omega)]
  obtain ⟨e, he⟩ := readHeader_partial o.maxHeader ⟨roots, 1⟩ k ok.hdrMax ok.hdr63 hk
  exact ⟨e, by unfold scanV1; rw [e1, he]⟩

/-- (2c) The same through a CARv2 container (any data padding): a file cut `k` bytes into its
    sections still announces the full payload size, and the block reader reports exactly the
    complete sections, then a clean end iff the cut is a section boundary. -/
theorem carV2_truncated (H : HashFn) (o : ReadOpts) (seek : Bool) (dp ip : Nat) (hasIdx fi : Bool)
    (roots : Option (List Cid)) (bs : List Block)
    (ok : PayloadOK H o roots bs) (h10 : 10 ≤ o.maxHeader) (lok : LayoutOK dp ip (payload roots bs).length)
    (k : Nat) (hk : k ≤ (sectionsBytes bs).length) :
    ∃ pre e, scanBlockReader H o seek
        (pragma ++ ((finalHeader dp ip (payload roots bs).length hasIdx fi).bytes ++
          (zeros dp ++ (encodeHeader ⟨roots, 1⟩ ++ (sectionsBytes bs).take k))))
        = .ok ⟨roots.getD [], pre, e⟩ ∧
      ((e = .eof ∧ ∃ j, pre = bs.take j ∧ (sectionsBytes bs).take k = sectionsBytes pre) ∨
       (e = .unexpectedEOF ∧ ∃ b post, bs = pre ++ b :: post)) := by
  have hwin : (encodeHeader ⟨roots, 1⟩ ++ (sectionsBytes bs).take k).take
      (finalHeader dp ip (payload roots bs).length hasIdx fi).dataSize
      = encodeHeader ⟨roots, 1⟩ ++ (sectionsBytes bs).take k := by
    apply List.take_of_length_le
    simp only [finalHeader, payload, List.length_append, List.length_take]; omega
  obtain ⟨br, hbr, _, hroots, hrest, _⟩ :=
    newBlockReader_container o seek (finalHeader dp ip (payload roots bs).length hasIdx fi) dp _ roots
      ((sectionsBytes bs).take k)
      (finalHeader_wf dp ip _ hasIdx fi (payload_length_pos roots bs) lok) (by simp [finalHeader]) hwin
      ok.hdr ok.hdrMax ok.hdr63 h10
  unfold scanBlockReader
  rw [hbr]
  simp only [BR.drain, hrest, hroots]
  rcases scan_truncated H o bs ok.blocks k hk with ⟨j, _, he, hs⟩ | ⟨pre, b, post, m, hbs, _, _, _, hs⟩
  · exact ⟨bs.take j, .eof, by rw [hs], Or.inl ⟨rfl, j, rfl, he⟩⟩
  · exact ⟨pre, .unexpectedEOF, by rw [hs], Or.inr ⟨rfl, b, post, hbs⟩⟩


/-- (2d) … and a cut anywhere BEFORE the sections — inside the pragma, the 40-byte CARv2 header, the data
    padding or the inner CARv1 header — is refused at opening, for a seekable source and a plain stream
    alike: no prefix of a CARv2 that ends before its inner header does is mistaken for an archive. -/
theorem carV2_container_truncated (o : ReadOpts) (seek : Bool) (dp ip : Nat) (hasIdx fi : Bool)
    (roots : Option (List Cid)) (secs index : Bytes)
    (hmax : (encodeHeaderBody ⟨roots, 1⟩).length ≤ o.maxHeader)
    (h63 : (encodeHeaderBody ⟨roots, 1⟩).length < 2 ^ 63) (h10 : 10 ≤ o.maxHeader)
    (lok : LayoutOK dp ip (encodeHeader ⟨roots, 1⟩ ++ secs).length)
    (k : Nat) (hk : k < 51 + dp + (encodeHeader ⟨roots, 1⟩).length) :
    ∃ e, newBlockReader o seek ((layoutV2 dp ip (encodeHeader ⟨roots, 1⟩ ++ secs) hasIdx fi index).take k)
      = .error e := by
  have hp : 0 < (encodeHeader ⟨roots, 1⟩ ++ secs).length := by
    have := uvarintSize_pos (encodeHeaderBody ⟨roots, 1⟩).length
    simp only [encodeHeader, List.length_append, uvarint_length]; omega
  have e : layoutV2 dp ip (encodeHeader ⟨roots, 1⟩ ++ secs) hasIdx fi index
      = pragma ++ ((finalHeader dp ip (encodeHeader ⟨roots, 1⟩ ++ secs).length hasIdx fi).bytes ++
          (zeros dp ++ (encodeHeader ⟨roots, 1⟩ ++ (secs ++ (if hasIdx then zeros ip ++ index else []))))) := by
    simp [layoutV2]
  rw [e]
  exact newBlockReader_prefix_cut o seek _ dp roots _ (finalHeader_wf dp ip _ hasIdx fi hp lok)
    (by simp [finalHeader]) (by simp [finalHeader]) hmax h63 h10 k hk

/-- (2c) **Skipping is scanning too: a CARv1 cut inside a section, any mix of Next and SkipNext, seekable or
    plain source**: the
    iteration visits exactly the complete sections before the cut — blocks for Next, exact metadata
    for SkipNext — and then fails with an error that is not a clean end (C02's truncation clause for
    the skipping reader; C14's exactness on the part of the archive that is there). `pre` are the
    complete sections, `b` the section the cut falls in, `m` how many of its bytes survive. -/
theorem skipping_reader_truncated (H : HashFn) (o : ReadOpts) (seek : Bool) (choice : Nat → Bool)
    (roots : Option (List Cid)) (pre : List Block) (b : Block) (m : Nat)
    (hwf : (CarHeader.mk roots 1).wf) (hmax : (encodeHeaderBody ⟨roots, 1⟩).length ≤ o.maxHeader)
    (h63 : (encodeHeaderBody ⟨roots, 1⟩).length < 2 ^ 63) (hok : ∀ x ∈ pre, x.wf o.maxSection ∧ checkBlock H o.trusted x = .ok () ∧ x.cid.digest.length ≤ maxDigestAlloc)
    (hb : b.wf o.maxSection) (hm0 : 0 < m) (hm : m < sectionSize b) :
    ∃ br e, newBlockReader o seek (encodeHeader ⟨roots, 1⟩ ++ (sectionsBytes pre ++ (sectionBytes b).take m)) = .ok br ∧
      e ≠ .eof ∧
      BR.runChoices H o choice (pre.length + 1) 0 br
        = (expectedVisits choice 0 0 (headerSize ⟨roots, 1⟩) pre, e) := by
  have inv : BRInvT { version := 1, roots := roots.getD [], rest := (sectionsBytes pre ++ (sectionBytes b).take m),
                      srcLen := (encodeHeader ⟨roots, 1⟩ ++ (sectionsBytes pre ++ (sectionBytes b).take m)).length,
                      offset := headerSize ⟨roots, 1⟩, v1offset := 0, readerSize := none, seekable := seek,
                      consumed := (encodeHeader ⟨roots, 1⟩).length } (headerSize ⟨roots, 1⟩) [] pre ((sectionBytes b).take m) :=
    ⟨rfl, by simp [sectionsBytes], by intro _; simp [headerSize]; omega⟩
  obtain ⟨e, hne, hrun⟩ := runChoices_truncated H o choice (headerSize ⟨roots, 1⟩) b m hb hm0 hm pre [] _ 0 (pre.length + 1) inv (by omega) hok
  refine ⟨_, e, newBlockReader_v1 o seek roots _ hwf hmax h63, hne, ?_⟩
  simpa [sectionsBytes] using hrun

/-- (2e) … and through a CARv2 container (any data padding; the header still announces the full payload
    of size `n`): the file is cut inside section `b` of its payload window; any mix of Next and SkipNext
    visits exactly the complete sections `pre`, with Offset relative to the payload and SourceOffset
    = 51 + padding + Offset for the skipped ones, then fails with an error that is not a clean end. -/
theorem skipping_reader_truncated_v2 (H : HashFn) (o : ReadOpts) (seek : Bool) (choice : Nat → Bool) (dp ip n : Nat) (hasIdx fi : Bool)
    (roots : Option (List Cid)) (pre : List Block) (b : Block) (m : Nat)
    (hwf : (CarHeader.mk roots 1).wf) (hmax : (encodeHeaderBody ⟨roots, 1⟩).length ≤ o.maxHeader)
    (h63 : (encodeHeaderBody ⟨roots, 1⟩).length < 2 ^ 63) (h10 : 10 ≤ o.maxHeader)
    (lok : LayoutOK dp ip n)
    (hn : (encodeHeader ⟨roots, 1⟩ ++ (sectionsBytes pre ++ (sectionBytes b).take m)).length ≤ n)
    (hok : ∀ x ∈ pre, x.wf o.maxSection ∧ checkBlock H o.trusted x = .ok () ∧ x.cid.digest.length ≤ maxDigestAlloc)
    (hb : b.wf o.maxSection) (hm0 : 0 < m) (hm : m < sectionSize b) :
    ∃ br e, newBlockReader o seek
        (pragma ++ ((finalHeader dp ip n hasIdx fi).bytes ++
          (zeros dp ++ (encodeHeader ⟨roots, 1⟩ ++ (sectionsBytes pre ++ (sectionBytes b).take m))))) = .ok br ∧
      e ≠ .eof ∧
      BR.runChoices H o choice (pre.length + 1) 0 br
        = (expectedVisits choice (51 + dp) 0 (headerSize ⟨roots, 1⟩) pre, e) := by
  have hpos : 0 < n := by
    have := uvarintSize_pos (encodeHeaderBody ⟨roots, 1⟩).length
    simp only [encodeHeader, List.length_append, uvarint_length] at hn; omega
  have hwin : (encodeHeader ⟨roots, 1⟩ ++ (sectionsBytes pre ++ (sectionBytes b).take m)).take
      (finalHeader dp ip n hasIdx fi).dataSize
      = encodeHeader ⟨roots, 1⟩ ++ (sectionsBytes pre ++ (sectionBytes b).take m) := by
    apply List.take_of_length_le
    simpa [finalHeader] using hn
  obtain ⟨br, hbr, _, hroots, hrest, hoff, hv1, hseek⟩ :=
    newBlockReader_container o seek (finalHeader dp ip n hasIdx fi) dp _ roots
      (sectionsBytes pre ++ (sectionBytes b).take m)
      (finalHeader_wf dp ip n hasIdx fi hpos lok) (by simp [finalHeader]) hwin hwf hmax h63 h10
  have inv : BRInvT br (headerSize ⟨roots, 1⟩) [] pre ((sectionBytes b).take m) :=
    ⟨hrest, by rw [hoff, hv1]; simp [sectionsBytes], by intro h; rw [hseek] at h; cases h⟩
  obtain ⟨e, hne, hrun⟩ := runChoices_truncated H o choice (headerSize ⟨roots, 1⟩) b m hb hm0 hm pre [] br 0 (pre.length + 1) inv (by omega) hok
  refine ⟨br, e, hbr, hne, ?_⟩
  rw [hv1] at hrun
  simpa [sectionsBytes] using hrun

/-- (3) Corruption of a block's bytes or digest: if section `i` is replaced by a section whose CID
    is still well-formed but whose data no longer hashes to it (any change of data or digest bytes
    under the explicit hypothesis `verifies = false`, i.e. no hash collision), the scan returns
    exactly the blocks before it and then `hashMismatch` — never a clean end, never the bad block. -/
theorem scan_corrupt (H : HashFn) (o : ReadOpts) (ht : o.trusted = false) (pre : List Block) (bad : Block) (tail : Bytes)
    (hpre : ∀ b ∈ pre, b.wf o.maxSection ∧ checkBlock H o.trusted b = .ok ())
    (hwf : bad.wf o.maxSection) (hsum : sumOk H bad.cid bad.data = true)
    (hbad : verifies H bad.cid bad.data = false) :
    scanSections H o (sectionsBytes pre ++ (sectionBytes bad ++ tail)) = (pre, .hashMismatch) := by
  apply scanSections_then H o pre _ _ hpre
  unfold nextBlock
  rw [readNode_section _ _ bad tail hwf]
  simp [checkBlock, ht, hsum, hbad]

/-- (3a) A digest change that leaves the CID's shape alone is such a corruption for identity CIDs
    outright (no hypothesis on `H`): the digest no longer equals the data. -/
theorem identity_corrupt_detected (H : HashFn) (c : Cid) (d : Bytes) (hid : c.mhCode = 0) (hne : c.digest ≠ d) :
    verifies H c d = false := by
  simp [verifies, hid, hne]

/-- Non-vacuity: a concrete two-block payload meets the hypotheses of `scan_truncated`
    (identity-hashed blocks, so no assumption on `H` is needed). -/
example : ∀ b ∈ ([⟨⟨1, 0x55, 0, [1, 2, 3]⟩, [1, 2, 3]⟩, ⟨⟨1, 0x71, 0, []⟩, []⟩] : List Block),
    b.wf (8 * 2 ^ 20) ∧ checkBlock (fun _ _ => none) false b = .ok () := by
  intro b hb
  simp only [List.mem_cons, List.not_mem_nil, or_false] at hb
  rcases hb with rfl | rfl <;>
    simp [Block.wf, Cid.wf, Cid.byteLen, Cid.bytes, Cid.mhBytes, uvarint_small, checkBlock, sumOk, verifies]

end Car.C02
