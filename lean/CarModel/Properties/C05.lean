import CarModel.Proofs.Finalize
import CarModel.Proofs.FactsTie
import CarModel.Proofs.InspectFull
import CarModel.Proofs.Cli
import CarModel.Proofs.Session
/-
C05 — Finalized output is a well-formed, self-describing CAR that matches what was put.
-/
namespace Car.C05
open Car

/-- Guard fact, regenerated from the source: `InsertionIndex.Flatten` hands ALL records to the target
    index in one `Load`, outside any loop (`Load` replaces a bucket, it does not merge: the model's
    `finalizeEvs` loads the whole record list at once). -/
theorem flatten_shape : Facts.flattenShape = ["New", "AscendGreaterOrEqual", "Load"] := by decide

/-- Header arithmetic with the specification's literal numbers: data offset = 51 + data padding,
    data size = exact payload length, index offset = end of payload + index padding,
    fully-indexed bit (bit 7 of the first characteristics byte) iff identity CIDs are stored. -/
theorem header_arith (o : WOpts) (s : Store) (h64 : 51 + o.dataPad + o.indexPad + s.pos < 2 ^ 64) :
    (s.finalHeader o).dataOffset = 51 + o.dataPad ∧
    (s.finalHeader o).dataSize = s.pos ∧
    (s.finalHeader o).indexOffset = 51 + o.dataPad + s.pos + o.indexPad ∧
    (s.finalHeader o).charHi = (if o.storeIdentity then 128 else 0) ∧ (s.finalHeader o).charLo = 0 ∧
    (s.finalHeader o).fullyIndexed = o.storeIdentity := by
  rw [finalHeader_arith o s h64]
  cases h : o.storeIdentity <;> simp [finalHeader, V2Header.fullyIndexed, fullyIndexedBit]

/-- The same arithmetic on the **source itself**: `NewHeader`, `WithDataPadding`, `WithIndexPadding`,
    `WithDataSize` and `HasIndex` as translated statement by statement from `/repo`'s `v2/car.go` on this run
    (`Facts.Tr`, uint64 wrap-around explicit), composed the way the writers compose them, give the numbers
    of the specification — and they are the functions the model's `finalHeader` is made of. -/
theorem header_arith_of_the_source (o : WOpts) (s : Store) (h64 : 51 + o.dataPad + o.indexPad + s.pos < 2 ^ 64) :
    let h := Facts.Tr.withDataSize (Facts.Tr.withIndexPadding (Facts.Tr.withDataPadding (Facts.Tr.newHeader 0) o.dataPad) o.indexPad) s.pos
    h.dataOffset = 51 + o.dataPad ∧ h.dataSize = s.pos ∧ h.indexOffset = 51 + o.dataPad + s.pos + o.indexPad ∧
    Facts.Tr.hasIndex h = true ∧ h = (s.finalHeader o).toTr := by
  intro h
  have hfin : h = (s.finalHeader o).toTr := by
    simp only [h, Store.finalHeader, tr_newHeader, tr_withDataPadding, tr_withIndexPadding, tr_withDataSize]
    unfold V2Header.setFullyIndexed V2Header.toTr
    split <;> split <;> rfl
  have ha := header_arith o s h64
  refine ⟨?_, ?_, ?_, ?_, hfin⟩
  · rw [hfin]; exact ha.1
  · rw [hfin]; exact ha.2.1
  · rw [hfin]; exact ha.2.2.1
  · rw [hfin, tr_hasIndex]; simp only [V2Header.hasIndex, ha.2.2.1]; simp

/-- The header bytes start at offset 11 = |pragma| and the first byte after the pragma carries the flag. -/
theorem pragma_and_flag_position : pragma.length = 11 ∧ pragma = [0x0a, 0xa1, 0x67, 0x76, 0x65, 0x72, 0x73, 0x69, 0x6f, 0x6e, 0x02] ∧
    ∀ (h : V2Header), h.charHi < 256 → (h.bytes.take 1) = [UInt8.ofNat h.charHi] := by
  refine ⟨by decide, by decide, ?_⟩
  intro h hh
  simp [V2Header.bytes, le64, leN, Nat.mod_eq_of_lt hh]

/-- Finalize of any session state reachable through the invariant (any put history, any option
    setting) leaves exactly: pragma, the header above, data padding, the CARv1 header with the given
    roots, the stored sections in put order, index padding, the flattened index. -/
theorem finalize_layout (o : WOpts) (roots : Option (List Cid)) (s : Store) (log : List Block) (ix : Index)
    (inv : Inv o roots s log) (hopen : s.finalized = false ∧ s.closed = false) (hv2 : o.v1 = false)
    (hix : s.idx.flatten o.codec = some ix) (h64 : 51 + o.dataPad + o.indexPad + s.pos < 2 ^ 64) :
    ∃ evs, s.finalizeEvs o = some evs ∧
      applyWrites s.file evs = layoutV2 o.dataPad o.indexPad (payload roots log) true o.storeIdentity ix.bytes :=
  finalize_file o roots s log ix inv hopen hv2 hix h64

/-- **Any put history, from the first byte**: a fresh read-write blockstore in CARv2 mode under any
    options, any list of blocks put one after the other (whatever each Put answers), then Finalize:
    Finalize returns ok and the file is exactly pragma ++ header ++ data padding ++ the CARv1 payload of
    the given roots and of the blocks the reference log keeps of the list — the C04 rules: a key
    already stored is skipped, identity CIDs follow the IdStore option, an over-long CID is refused —
    in put order ++ index padding ++ the flattened index. No invariant is assumed: it is established
    from `create` by induction over the puts (`puts_refines`). -/
theorem session_file_is_layout_of_log (o : WOpts) (roots : Option (List Cid)) (bs : List Block) (ix : Index)
    (hv2 : o.v1 = false)
    (hix : ((Store.create .blockstore o roots).1.puts o bs).idx.flatten o.codec = some ix)
    (h64 : 51 + o.dataPad + o.indexPad + ((Store.create .blockstore o roots).1.puts o bs).pos < 2 ^ 64) :
    (((Store.create .blockstore o roots).1.puts o bs).step o .finalize).2.1 = .ok ∧
    (((Store.create .blockstore o roots).1.puts o bs).step o .finalize).1.file
      = layoutV2 o.dataPad o.indexPad
          (payload roots (Spec.puts o { api := .blockstore, roots := roots.getD [] } bs).log)
          true o.storeIdentity ix.bytes :=
  session_file o roots bs ix hv2 hix h64

/-- what the reference log keeps, on a small case: a repeated key is kept once, an identity block is
    dropped under the default options (sanity of the right-hand side above) -/
example : (Spec.puts {} { api := .blockstore, roots := [] }
    [⟨⟨1, 0x55, 0x12, [1]⟩, [7]⟩, ⟨⟨1, 0x71, 0x12, [1]⟩, [7]⟩, ⟨⟨1, 0x55, 0, [9]⟩, [9]⟩, ⟨⟨1, 0x55, 0x12, [2]⟩, [8]⟩]).log
      = [⟨⟨1, 0x55, 0x12, [1]⟩, [7]⟩, ⟨⟨1, 0x55, 0x12, [2]⟩, [8]⟩] := by
  simp [Spec.puts, Spec.putOne, Spec.idRule, Spec.stored, Spec.sameKey, Cid.isIdentity, Cid.byteLen, Cid.bytes, Cid.mhBytes,
    uvarint_small]

/-- The same at the API level: `Finalize()` on the blockstore returns ok and the file is that layout. -/
theorem blockstore_finalize (o : WOpts) (roots : Option (List Cid)) (s : Store) (log : List Block) (ix : Index)
    (inv : Inv o roots s log) (hapi : s.api = .blockstore) (hopen : s.finalized = false ∧ s.closed = false)
    (hv2 : o.v1 = false) (hix : s.idx.flatten o.codec = some ix)
    (h64 : 51 + o.dataPad + o.indexPad + s.pos < 2 ^ 64) :
    (s.step o .finalize).2.1 = .ok ∧
    (s.step o .finalize).1.file = layoutV2 o.dataPad o.indexPad (payload roots log) true o.storeIdentity ix.bytes ∧
    (s.step o .finalize).1.closed = true := by
  obtain ⟨evs, he, hf⟩ := finalize_file o roots s log ix inv hopen hv2 hix h64
  simp [Store.step, hapi, Store.stepBlockstore, Store.finalizeRO, Store.closeInner, hv2, hopen.1, hopen.2, he,
    Store.applyEvs, hf]

/-- … and on the storage CAR. -/
theorem storage_finalize (o : WOpts) (roots : Option (List Cid)) (s : Store) (log : List Block) (ix : Index)
    (inv : Inv o roots s log) (hapi : s.api = .storage) (hopen : s.finalized = false ∧ s.closed = false)
    (hv2 : o.v1 = false) (hix : s.idx.flatten o.codec = some ix)
    (h64 : 51 + o.dataPad + o.indexPad + s.pos < 2 ^ 64) :
    (s.step o .finalize).2.1 = .ok ∧
    (s.step o .finalize).1.file = layoutV2 o.dataPad o.indexPad (payload roots log) true o.storeIdentity ix.bytes ∧
    (s.step o .finalize).1.closed = true := by
  obtain ⟨evs, he, hf⟩ := finalize_file o roots s log ix inv hopen hv2 hix h64
  simp [Store.step, hapi, Store.stepStorage, hv2, hopen.2, he, Store.applyEvs, hf]

/-- In CARv1 mode the file is exactly the payload, at every moment of the session and after Finalize
    (which writes nothing). -/
theorem v1_file_is_payload (o : WOpts) (roots : Option (List Cid)) (s : Store) (log : List Block)
    (inv : Inv o roots s log) (hopen : s.finalized = false ∧ s.closed = false) (hv1 : o.v1 = true) :
    s.file = payload roots log ∧ (s.step o .finalize).1.file = s.file ∧ (s.step o .finalize).2.2 = [] := by
  obtain ⟨_, ⟨h40, tail, _, hf, ht⟩, _, _, _⟩ := inv
  have := ht hopen.1 hopen.2
  subst this
  refine ⟨by rw [hf]; simp [WOpts.filePrefix, hv1], ?_, ?_⟩ <;>
  · unfold Store.step
    cases s.api <;> simp [Store.stepBlockstore, Store.stepStorage, Store.finalizeRO, Store.closeInner, hv1]
    all_goals (try split) <;> simp

/-- The finalized file is self-describing: the library's own block reader, given only the file,
    returns the given roots and exactly the stored blocks in put order, then a clean end. -/
theorem finalized_reads_back (H : HashFn) (ro : ReadOpts) (seek : Bool) (o : WOpts) (roots : Option (List Cid))
    (log : List Block) (index : Bytes) (ok : PayloadOK H ro roots log) (h10 : 10 ≤ ro.maxHeader)
    (lok : LayoutOK o.dataPad o.indexPad (payload roots log).length) :
    scanBlockReader H ro seek (layoutV2 o.dataPad o.indexPad (payload roots log) true o.storeIdentity index)
      = .ok ⟨roots.getD [], log, .eof⟩ :=
  scanBlockReader_v2 H ro seek o.dataPad o.indexPad roots log true o.storeIdentity index ok h10 lok

/-- **The library's own inspection accepts the finalized file** (CARv2 mode): for every put history,
    padding setting, index codec and identity setting, `Inspect` — with or without full validation —
    of the layout `finalize_layout` leaves succeeds, and reports exactly the stored blocks' statistics,
    the header of `header_arith` and the index codec that was written. -/
theorem finalized_inspection_accepts (H : HashFn) (hU : H.Uniform) (ro : ReadOpts) (validate : Bool) (o : WOpts)
    (roots : Option (List Cid)) (log : List Block) (ix : Index)
    (hwf : (CarHeader.mk roots 1).wf) (hmax : (encodeHeaderBody ⟨roots, 1⟩).length ≤ ro.maxHeader)
    (h63 : (encodeHeaderBody ⟨roots, 1⟩).length < 2 ^ 63) (h10 : 10 ≤ ro.maxHeader)
    (lok : LayoutOK o.dataPad o.indexPad (payload roots log).length)
    (hok : ∀ b ∈ log, b.wf ro.maxSection ∧ b.cid.digest.length ≤ maxDigestAlloc ∧
      (validate = true → sumOk H b.cid b.data = true ∧ verifies H b.cid b.data = true)) :
    inspect H ro validate (layoutV2 o.dataPad o.indexPad (payload roots log) true o.storeIdentity ix.bytes)
      = .ok (statsOf 2 (finalHeader o.dataPad o.indexPad (payload roots log).length true o.storeIdentity)
              (roots.getD []) (log.map seenOf) ix.codec) := by
  have := inspect_layoutV2 H hU ro validate o.dataPad o.indexPad roots log true o.storeIdentity ix.bytes ix.codec
    hwf hmax h63 h10 lok hok (fun _ => index_bytes_codec ix)
  simpa using this

/-- **… as does its verifier whenever every root is among the stored blocks**: for every session state
    reachable through the invariant (any put history, paddings, codec, identity setting), `VerifyCar`
    accepts the layout `finalize_layout` leaves — header rules, the full hash-verifying scan, roots
    present, and an index lookup for every block, answered by the flattened session index (a
    permutation of the payload's records by the store invariant; lookups after `Load` are exact). -/
theorem finalized_verifier_accepts (H : HashFn) (ro : ReadOpts) (o : WOpts) (roots : List Cid) (s : Store)
    (log : List Block) (ix : Index) (inv : Inv o (some roots) s log)
    (hix : s.idx.flatten o.codec = some ix) (hrec : RecordsOK s.idx)
    (hne : roots.isEmpty = false) (hin : (roots.all fun r => log.any fun b => b.cid == r) = true)
    (ok : PayloadOK H ro (some roots) log) (h10 : 10 ≤ ro.maxHeader)
    (lok : LayoutOK o.dataPad o.indexPad (payload (some roots) log).length) :
    Cli.verifyCar H ro (layoutV2 o.dataPad o.indexPad (payload (some roots) log) true o.storeIdentity ix.bytes) = .ok () := by
  refine Cli.verify_accepts_layout H ro o.dataPad o.indexPad o.storeIdentity o.codec roots log s.idx ix hne hin ok h10 lok
    hix hrec ?_
  intro b hb
  obtain ⟨off, hoff⟩ := Cli.mem_withOffsets b log (headerSize ⟨some roots, 1⟩) hb
  exact ⟨off, (inv.idx.mem_iff).mpr hoff⟩

/-- … and in CARv1 mode, where the file is the payload (`v1_file_is_payload`). -/
theorem v1_inspection_accepts (H : HashFn) (hU : H.Uniform) (ro : ReadOpts) (validate : Bool)
    (roots : Option (List Cid)) (log : List Block)
    (hwf : (CarHeader.mk roots 1).wf) (hmax : (encodeHeaderBody ⟨roots, 1⟩).length ≤ ro.maxHeader)
    (h63 : (encodeHeaderBody ⟨roots, 1⟩).length < 2 ^ 63)
    (hok : ∀ b ∈ log, b.wf ro.maxSection ∧ b.cid.digest.length ≤ maxDigestAlloc ∧
      (validate = true → sumOk H b.cid b.data = true ∧ verifies H b.cid b.data = true)) :
    inspect H ro validate (payload roots log) = .ok (statsOf 1 {} (roots.getD []) (log.map seenOf) 0) := by
  have := inspect_layoutV1 H hU ro validate roots log hwf hmax h63 hok
  exact this

/-- Non-vacuity of `header_arith`/`finalize_layout` premises on a fresh store with paddings. -/
example : let o : WOpts := { dataPad := 7, indexPad := 3 }
    let s := (Store.create .storage o (some [])).1
    51 + o.dataPad + o.indexPad + s.pos < 2 ^ 64 ∧ s.finalized = false ∧ s.closed = false := by
  simp [Store.create, encodeHeader, encodeHeaderBody, cborRoots, cborHead, keyRoots, keyVersion, uvarint_small]

end Car.C05
