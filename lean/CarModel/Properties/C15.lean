import CarModel.Traversal
import CarModel.Proofs.V2
import CarModel.Proofs.IndexGen
import CarModel.Proofs.RootRoundtrip
/-
C15 — Traversal writers emit exactly the visited blocks, once, with correct sizes.
`loads` is the (arbitrary) sequence of block loads the traversal engine performs.
-/
namespace Car.C15
open Car

theorem mem_dedupFirst (c : Cid) : ∀ l : List Cid, c ∈ dedupFirst l ↔ c ∈ l
  | [] => by simp [dedupFirst]
  | x :: xs => by
    simp only [dedupFirst, List.mem_cons, List.mem_filter, mem_dedupFirst c xs, bne_iff_ne, ne_eq]
    constructor
    · rintro (h | ⟨h, _⟩)
      · exact Or.inl h
      · exact Or.inr h
    · intro h
      by_cases hc : c = x
      · exact Or.inl hc
      · rcases h with h | h
        · exact absurd h hc
        · exact Or.inr ⟨h, hc⟩

theorem nodup_dedupFirst : ∀ l : List Cid, (dedupFirst l).Nodup
  | [] => by simp [dedupFirst]
  | x :: xs => by
    simp only [dedupFirst, List.nodup_cons, List.mem_filter, bne_self_eq_false, Bool.false_eq_true, and_false,
      not_false_eq_true, true_and]
    exact (nodup_dedupFirst xs).filter _

/-- (1) The output holds exactly the blocks the traversal loaded — every loaded CID, nothing else —
    each exactly once. -/
theorem emitted_exactly_loaded (get : Cid → Bytes) (loads : List Cid) :
    (∀ c, c ∈ (emitted get loads).map (·.cid) ↔ c ∈ loads) ∧ ((emitted get loads).map (·.cid)).Nodup := by
  have hm : (emitted get loads).map (·.cid) = dedupFirst loads := by
    simp [emitted, List.map_map, Function.comp_def]
  rw [hm]
  exact ⟨fun c => mem_dedupFirst c loads, nodup_dedupFirst loads⟩

/-- (1a) … in first-visit order: the first load is emitted first, and removing repetitions of a CID
    never reorders the others. -/
theorem first_visit_order (c : Cid) (rest : List Cid) :
    dedupFirst (c :: rest) = c :: (dedupFirst rest).filter (· != c) := rfl

/-- (2) The size announced beforehand (counting pass + header) equals the bytes the teeing pass
    writes, for every load sequence — repetitions included. -/
theorem count_eq_written (roots : List Cid) (get : Cid → Bytes) (loads : List Cid) :
    countedSize roots get loads = (teeOutput roots get loads).length := by
  unfold countedSize teeOutput payload headerSize
  simp only [List.length_append]
  congr 1
  generalize emitted get loads = bs
  induction bs with
  | nil => rfl
  | cons b tl ih =>
    rw [sectionsBytes_cons, List.length_append, sectionBytes_length, List.map_cons, List.sum_cons, ih]

/-- (2a) Why the repair was needed: counting every load over-announces as soon as a block is loaded
    twice (unless its section is empty, which it never is). -/
theorem nodedup_count_overshoots (roots : List Cid) (get : Cid → Bytes) (c : Cid) :
    countedSizeNoDedup roots get [c, c] = countedSize roots get [c, c] + sectionSize ⟨c, get c⟩ := by
  simp [countedSizeNoDedup, countedSize, emitted, dedupFirst]; omega

/-- (3) Dump and Write produce identical bytes: Prepare records the emitted CIDs, Dump fetches and
    writes them in that order. -/
theorem dump_eq_write (roots : List Cid) (get : Cid → Bytes) (loads : List Cid) :
    dumpOutput roots get (dedupFirst loads) = teeOutput roots get loads := by
  simp [dumpOutput, teeOutput, emitted]

/-- (4) Every block callback reports the true offset and size of that section: offsets start after
    the header and advance by exactly the section sizes (they are the offsets an index records). -/
theorem callback_offsets (roots : List Cid) (get : Cid → Bytes) (loads : List Cid) :
    (callbacks roots get loads).map (fun p => (p.1, p.2.1))
      = (withOffsets (headerSize ⟨some roots, 1⟩) (emitted get loads)).map (fun r => (r.cid, r.offset)) ∧
    (callbacks roots get loads).map (·.2.2) = (emitted get loads).map sectionSize := by
  unfold callbacks
  have hlen : ∀ (h : Nat) (bs : List Block), (withOffsets h bs).length = bs.length := by
    intro h bs; induction bs generalizing h with
    | nil => rfl
    | cons b tl ih => simp [withOffsets, ih]
  constructor
  · simp only [List.map_map]
    have : ((fun p : Cid × Nat × Nat => (p.1, p.2.1)) ∘ fun p : Record × Nat => (p.1.cid, p.1.offset, p.2))
        = (fun r : Record => (r.cid, r.offset)) ∘ (fun p : Record × Nat => p.1) := rfl
    rw [this, ← List.map_map, List.map_fst_zip (by simp [hlen])]
  · simp only [List.map_map]
    have : ((fun p : Cid × Nat × Nat => p.2.2) ∘ fun p : Record × Nat => (p.1.cid, p.1.offset, p.2))
        = fun p : Record × Nat => p.2 := rfl
    rw [this]
    exact List.map_snd_zip (by simp [hlen])

/-- (5) The CARv2 the selective writer emits reads back as exactly the emitted blocks (header data
    size = written payload size, by (2)). -/
theorem selectiveV2_reads_back (H : HashFn) (ro : ReadOpts) (seek : Bool) (dp ip : Nat) (roots : List Cid)
    (get : Cid → Bytes) (loads : List Cid) (withIndex : Bool) (index : Bytes)
    (ok : PayloadOK H ro (some roots) (emitted get loads)) (h10 : 10 ≤ ro.maxHeader)
    (lok : LayoutOK dp ip (teeOutput roots get loads).length) :
    scanBlockReader H ro seek (selectiveV2 dp ip roots get loads withIndex index)
      = .ok ⟨roots, emitted get loads, .eof⟩ :=
  scanBlockReader_v2 H ro seek dp ip (some roots) (emitted get loads) withIndex false index ok h10 lok

/-- (5a) The CARv1 the traversal writers emit (`TraverseV1`, the root module's `SelectiveCar.Write` /
    `Dump`, `WriteCar`) reads back, through the v2 block reader and through the root module's own reader,
    as the given roots and exactly the emitted blocks: every loaded block once, in first-visit order. -/
theorem selectiveV1_reads_back (H : HashFn) (ro : ReadOpts) (seek : Bool) (roots : List Cid)
    (get : Cid → Bytes) (loads : List Cid)
    (ok : PayloadOK H ro (some roots) (emitted get loads))
    (hmax : (encodeHeaderBody ⟨some roots, 1⟩).length ≤ rootMaxSection)
    (hok : ∀ b ∈ emitted get loads, b.rootOk ∧ checkBlock H false b = .ok ()) :
    scanBlockReader H ro seek (teeOutput roots get loads) = .ok ⟨roots, emitted get loads, .eof⟩ ∧
    scanRoot H false (teeOutput roots get loads) = .ok ⟨roots, emitted get loads, .eof⟩ :=
  ⟨scanBlockReader_v1 H ro seek (some roots) (emitted get loads) ok,
   scanRoot_payload H false (some roots) (emitted get loads) ok.hdr hmax (by intro h; cases h) hok⟩

/-- Non-vacuity / sanity: a diamond-shaped load sequence a,b,d,c,d emits a,b,d,c. -/
example : dedupFirst [⟨1, 0, 0, [1]⟩, ⟨1, 0, 0, [2]⟩, ⟨1, 0, 0, [4]⟩, ⟨1, 0, 0, [3]⟩, ⟨1, 0, 0, [4]⟩]
    = [⟨1, 0, 0, [1]⟩, ⟨1, 0, 0, [2]⟩, ⟨1, 0, 0, [4]⟩, ⟨1, 0, 0, [3]⟩] := by decide

end Car.C15
