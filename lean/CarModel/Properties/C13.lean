import CarModel.Proofs.Inspect
import CarModel.Proofs.V2
import CarModel.Proofs.InspectConv
import CarModel.Proofs.InspectFull
import CarModel.Properties.C02
/-
C13 — Inspection reports exactly what a full scan finds.
-/
namespace Car.C13
open Car

/-- (1) For **every byte string** `w` (the section part of any payload window) and every option
    setting with `MaxAllowedSectionSize ≤ 32 MiB` (go-cid's stream cap, which makes the two CID
    decoders accept the same CIDs): if the hash-verifying section scan succeeds with a clean end,
    Inspect's own full-validation walk succeeds as well and has seen exactly the scanned blocks with
    their true data lengths. `H.Uniform`: whether a hash function is registered and how long its
    output is does not depend on the data (true of every go-multihash function; Inspect asks the
    first question before it reads a block, the scan after). -/
theorem scan_implies_inspect (H : HashFn) (hU : H.Uniform) (o : ReadOpts) (ht : o.trusted = false)
    (hcap : o.maxSection ≤ maxDigestAlloc) (w : Bytes) (bs : List Block)
    (h : scanSections H o w = (bs, .eof)) :
    ∃ lens : List Nat, lens.length = bs.length ∧
      inspectLoop H o true (w.length + 1) w []
        = .ok ((bs.zip lens).map fun p => ⟨p.1.cid, p.2, p.1.data.length⟩) := by
  have := scan_implies_inspectLoop H hU o ht hcap (w.length + 1) w bs [] h
  simpa using this

/-- (1') **The converse**, for every byte string: if Inspect's full-validation walk over `w`
    succeeds, the hash-verifying section scan of `w` ends cleanly and returns exactly the blocks
    Inspect saw (same CIDs, same CID lengths, same data lengths). With (1): inspection of the
    section part succeeds iff the verifying scan succeeds, and they see the same content. -/
theorem inspect_implies_scan (H : HashFn) (hU : H.Uniform) (o : ReadOpts) (ht : o.trusted = false)
    (w : Bytes) (res : List Seen) (h : inspectLoop H o true (w.length + 1) w [] = .ok res) :
    ∃ (bs : List Block) (lens : List Nat), lens.length = bs.length ∧
      scanSections H o w = (bs, .eof) ∧
      res = (bs.zip lens).map fun p => ⟨p.1.cid, p.2, p.1.data.length⟩ := by
  obtain ⟨bs, lens, hl, hs, hr⟩ := inspectLoop_implies_scan H hU o ht (w.length + 1) w [] res (by omega) h
  exact ⟨bs, lens, hl, hs, by simpa using hr⟩

/-- (1'') the decoders agree the other way round, too -/
theorem decoders_agree_conv (s : Bytes) (n : Nat) (c : Cid) (rest : Bytes) (len : Nat)
    (h : cidFromReader s = .ok (n, c, rest)) (hn : n ≤ len) (hl : len ≤ s.length) :
    cidFromBytes (s.take len) = .ok (n, c) ∧ rest = s.drop n :=
  cidFromBytes_of_cidFromReader s n c rest len h hn hl

/-- (1a) The two CID decoders used by the scan (`CidFromBytes`) and by Inspect (`CidFromReader`)
    agree on every accepted buffer. -/
theorem decoders_agree (sec x : Bytes) (n : Nat) (c : Cid)
    (h : cidFromBytes sec = .ok (n, c)) (hd : c.digest.length ≤ maxDigestAlloc) :
    cidFromReader (sec ++ x) = .ok (n, c, sec.drop n ++ x) :=
  cidFromReader_of_cidFromBytes sec x n c h hd

/-- what Inspect must report for a block list -/
def expectedStats (version : Nat) (hdr : V2Header) (roots : List Cid) (bs : List Block) (indexCodec : Nat) : Stats :=
  statsOf version hdr roots (bs.map seenOf) indexCodec

/-- (2) On every valid CARv1 (any roots, any honest well-formed blocks) full-validation inspection
    succeeds and every statistic is the one computed from the block list: version, roots,
    roots-present, block count, min/avg/max CID and block lengths, per-codec and per-hash counts. -/
theorem inspect_valid_v1 (H : HashFn) (hU : H.Uniform) (o : ReadOpts) (validate : Bool) (roots : Option (List Cid)) (bs : List Block)
    (hwf : (CarHeader.mk roots 1).wf) (hmax : (encodeHeaderBody ⟨roots, 1⟩).length ≤ o.maxHeader)
    (h63 : (encodeHeaderBody ⟨roots, 1⟩).length < 2 ^ 63)
    (hok : ∀ b ∈ bs, b.wf o.maxSection ∧ b.cid.digest.length ≤ maxDigestAlloc ∧
      (validate = true → sumOk H b.cid b.data = true ∧ verifies H b.cid b.data = true)) :
    inspect H o validate (payload roots bs) = .ok (expectedStats 1 {} (roots.getD []) bs 0) :=
  inspect_layoutV1 H hU o validate roots bs hwf hmax h63 hok

/-- (2') The same on every laid-out CARv2 — any data and index padding, with or without an index,
    either characteristics flag: inspection succeeds and reports version 2, the header as written, the
    payload's statistics and the codec the index starts with. -/
theorem inspect_valid_v2 (H : HashFn) (hU : H.Uniform) (o : ReadOpts) (validate : Bool) (dp ip : Nat)
    (roots : Option (List Cid)) (bs : List Block) (hasIdx fi : Bool) (index : Bytes) (codec : Nat)
    (hwf : (CarHeader.mk roots 1).wf) (hmax : (encodeHeaderBody ⟨roots, 1⟩).length ≤ o.maxHeader)
    (h63 : (encodeHeaderBody ⟨roots, 1⟩).length < 2 ^ 63) (h10 : 10 ≤ o.maxHeader)
    (lok : LayoutOK dp ip (payload roots bs).length)
    (hok : ∀ b ∈ bs, b.wf o.maxSection ∧ b.cid.digest.length ≤ maxDigestAlloc ∧
      (validate = true → sumOk H b.cid b.data = true ∧ verifies H b.cid b.data = true))
    (hidx : hasIdx = true → ∃ rest, index = uvarint codec ++ rest ∧ codec < 2 ^ 63) :
    inspect H o validate (layoutV2 dp ip (payload roots bs) hasIdx fi index)
      = .ok (expectedStats 2 (finalHeader dp ip (payload roots bs).length hasIdx fi) (roots.getD []) bs
              (if hasIdx then codec else 0)) :=
  inspect_layoutV2 H hU o validate dp ip roots bs hasIdx fi index codec hwf hmax h63 h10 lok hok hidx

/-- (3) **Whole file, both directions, every byte string**: full-validation inspection succeeds with
    statistics `st` iff the container is accepted (`container`: pragma / CARv2 header / inner CARv1
    header as `NewReader` and Inspect read them), the hash-verifying scan of the payload window's
    sections ends cleanly with some block list, the index codec is readable when the header claims an
    index, and `st` is the statistics computed from that block list. -/
theorem inspect_iff_scan (H : HashFn) (hU : H.Uniform) (o : ReadOpts) (ht : o.trusted = false)
    (hcap : o.maxSection ≤ maxDigestAlloc) (file : Bytes) (st : Stats) :
    inspect H o true file = .ok st ↔
      ∃ (v : Nat) (hdr : V2Header) (roots : List Cid) (secs : Bytes) (bs : List Block) (codec : Nat),
        container o file = .ok (v, hdr, roots, secs) ∧
        scanSections H o secs = (bs, .eof) ∧
        indexProbe file v hdr = .ok codec ∧
        st = expectedStats v hdr roots bs codec :=
  inspect_full_iff H hU o ht hcap file st

/-- (3') A corollary the verifying scan and the inspection share: **a CARv1 cut inside a section is never
    inspected as valid.** For every valid payload and every cut that is not a section boundary,
    `Inspect(true)` returns an error — by `inspect_iff_scan`, because the scan of the cut sections ends in
    unexpected-EOF (C02 `scan_truncated`), not cleanly. -/
theorem inspect_rejects_cut_v1 (H : HashFn) (hU : H.Uniform) (o : ReadOpts) (ht : o.trusted = false)
    (hcap : o.maxSection ≤ maxDigestAlloc) (roots : Option (List Cid)) (bs : List Block)
    (ok : PayloadOK H o roots bs) (k : Nat) (hk : k ≤ (sectionsBytes bs).length)
    (hcut : ∀ j, (sectionsBytes bs).take k ≠ sectionsBytes (bs.take j)) (st : Stats) :
    inspect H o true (encodeHeader ⟨roots, 1⟩ ++ (sectionsBytes bs).take k) ≠ .ok st := by
  intro hi
  obtain ⟨v, hdr, rs, secs, bs', codec, hc, hs, _, _⟩ :=
    (inspect_iff_scan H hU o ht hcap _ st).mp hi
  have hcont : container o (encodeHeader ⟨roots, 1⟩ ++ (sectionsBytes bs).take k)
      = .ok (1, {}, roots.getD [], (sectionsBytes bs).take k) := by
    unfold container
    rw [readHeader_encode o.maxHeader ⟨roots, 1⟩ _ ok.hdr ok.hdrMax ok.hdr63]
    simp [CarHeader.rootList, readHeader_encode o.maxHeader ⟨roots, 1⟩ _ ok.hdr ok.hdrMax ok.hdr63]
  rw [hcont] at hc
  have hsecs : secs = (sectionsBytes bs).take k := by
    have := Except.ok.inj hc
    simp only [Prod.mk.injEq] at this
    exact this.2.2.2.symm
  rw [hsecs] at hs
  rcases C02.scan_truncated H o bs ok.blocks k hk with ⟨j, _, he, _⟩ | ⟨pre, b, post, m, _, _, _, _, hs'⟩
  · exact hcut j he
  · rw [hs'] at hs
    simp only [Prod.mk.injEq] at hs
    exact absurd hs.2 (by decide)

/-- Non-vacuity of the cut premise: one byte into a one-block payload is not a section boundary. -/
example : ∀ j, (sectionsBytes [⟨⟨1, 0x55, 0, [1, 2]⟩, [1, 2]⟩]).take 1
    ≠ sectionsBytes (([⟨⟨1, 0x55, 0, [1, 2]⟩, [1, 2]⟩] : List Block).take j) := by
  intro j
  cases j with
  | zero => simp [sectionsBytes, sectionBytes, Cid.byteLen, Cid.bytes, Cid.mhBytes, uvarint_small]
  | succ n => simp [sectionsBytes, sectionBytes, Cid.byteLen, Cid.bytes, Cid.mhBytes, uvarint_small]

/-- (3a) a CID's byte length in a section is a function of the CID: the decoders accept only the
    canonical encoding (so "CID length" statistics are determined by the scanned block list). -/
theorem cid_length_canonical (s : Bytes) (n : Nat) (c : Cid) (rest : Bytes)
    (h : cidFromReader s = .ok (n, c, rest)) : s = c.bytes ++ rest ∧ n = c.byteLen :=
  cidFromReader_canonical s n c rest h

/-- Non-vacuity of `Uniform`: a family with one fixed-length function is uniform. -/
example : HashFn.Uniform (fun code d => if code = 0x12 then some (List.replicate 32 (UInt8.ofNat d.length)) else none) := by
  intro code d; by_cases h : code = 0x12 <;> simp [h]

/-- the statistics are order-insensitive where they should be, and exact on small cases (sanity) -/
example : (expectedStats 1 {} [] [⟨⟨1, 0x55, 0, [1]⟩, [1]⟩, ⟨⟨1, 0x71, 0, []⟩, []⟩] 0).blockCount = 2 ∧
    (expectedStats 1 {} [] [⟨⟨1, 0x55, 0, [1]⟩, [1]⟩, ⟨⟨1, 0x71, 0, []⟩, []⟩] 0).maxBlock = 1 ∧
    (expectedStats 1 {} [] [⟨⟨1, 0x55, 0, [1]⟩, [1]⟩, ⟨⟨1, 0x71, 0, []⟩, []⟩] 0).minBlock = 0 ∧
    (expectedStats 1 {} [] [⟨⟨1, 0x55, 0, [1]⟩, [1]⟩, ⟨⟨1, 0x71, 0, []⟩, []⟩] 0).codecCounts = [(0x55, 1), (0x71, 1)] := by
  decide

end Car.C13
