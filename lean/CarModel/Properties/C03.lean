import CarModel.Proofs.ReadOrGen
import CarModel.Proofs.IndexGen
import CarModel.Proofs.FactsTie
import CarModel.Proofs.IndexSearch
/-
C03 — Index soundness and completeness for every payload, codec and reader kind.
Property theorems only.
-/
namespace Car.C03
open Car

/-- (1) `LoadIndex` over a CARv1 payload records, for **every** block list, exactly every section's
    CID with the payload-relative offset of its length prefix — identity CIDs exactly when
    `StoreIdentityCIDs` is on — whether the source is seekable or a plain stream. -/
theorem loadIndex_records_v1 (kind : SrcKind) (o : IdxOpts) (roots : Option (List Cid)) (bs : List Block)
    (hwf : (CarHeader.mk roots 1).wf) (hmax : (encodeHeaderBody ⟨roots, 1⟩).length ≤ o.maxHeader)
    (h63 : (encodeHeaderBody ⟨roots, 1⟩).length < 2 ^ 63) (hok : ∀ b ∈ bs, b.idxOk o)
    (hsz : (payload roots bs).length < 2 ^ 63) :   -- positions fit an int64, as in any real file
    loadIndexRecords kind o (payload roots bs) = .ok (keptRecords o (headerSize ⟨roots, 1⟩) bs) :=
  loadIndexRecords_v1 kind o roots bs hwf hmax h63 hok hsz

/-- (1') The same over a CARv2 with any data padding, index padding, and with or without an index
    after the payload: offsets are relative to the payload, and the scan stops at `DataSize`. -/
theorem loadIndex_records_v2 (kind : SrcKind) (o : IdxOpts) (dp ip : Nat) (roots : Option (List Cid)) (bs : List Block)
    (hasIdx fi : Bool) (index : Bytes)
    (hwf : (CarHeader.mk roots 1).wf) (hmax : (encodeHeaderBody ⟨roots, 1⟩).length ≤ o.maxHeader)
    (h63 : (encodeHeaderBody ⟨roots, 1⟩).length < 2 ^ 63) (h10 : 10 ≤ o.maxHeader)
    (lok : LayoutOK dp ip (payload roots bs).length) (hok : ∀ b ∈ bs, b.idxOk o) :
    loadIndexRecords kind o (layoutV2 dp ip (payload roots bs) hasIdx fi index)
      = .ok (keptRecords o (headerSize ⟨roots, 1⟩) bs) :=
  loadIndexRecords_v2 kind o dp ip roots bs hasIdx fi index hwf hmax h63 h10 lok hok

/-- (2) "The result is the same whether the source is seekable or a plain stream", and the same
    for the CARv1 payload and for the CARv2 that wraps it. -/
theorem loadIndex_kind_independent (o : IdxOpts) (dp ip : Nat) (roots : Option (List Cid)) (bs : List Block)
    (hasIdx fi : Bool) (index : Bytes)
    (hwf : (CarHeader.mk roots 1).wf) (hmax : (encodeHeaderBody ⟨roots, 1⟩).length ≤ o.maxHeader)
    (h63 : (encodeHeaderBody ⟨roots, 1⟩).length < 2 ^ 63) (h10 : 10 ≤ o.maxHeader)
    (lok : LayoutOK dp ip (payload roots bs).length) (hok : ∀ b ∈ bs, b.idxOk o) :
    loadIndexRecords .seekable o (payload roots bs) = loadIndexRecords .plain o (payload roots bs) ∧
    loadIndexRecords .seekable o (layoutV2 dp ip (payload roots bs) hasIdx fi index)
      = loadIndexRecords .plain o (payload roots bs) := by
  have hsz : (payload roots bs).length < 2 ^ 63 := lok.dSize
  rw [loadIndexRecords_v1 .seekable o roots bs hwf hmax h63 hok hsz,
      loadIndexRecords_v1 .plain o roots bs hwf hmax h63 hok hsz,
      loadIndexRecords_v2 .seekable o dp ip roots bs hasIdx fi index hwf hmax h63 h10 lok hok]
  exact ⟨rfl, rfl⟩

/-- (3) Every recorded offset is the start of a section that decodes to the recorded block. -/
theorem offset_decodes (zeroEOF : Bool) (max : Nat) (roots : Option (List Cid))
    (pre : List Block) (b : Block) (post : List Block) (hwf : b.wf max) :
    readNode zeroEOF max ((payload roots (pre ++ b :: post)).drop
        ((encodeHeader ⟨roots, 1⟩).length + (sectionsBytes pre).length))
      = .ok (b, sectionsBytes post) := by
  have := section_at_offset zeroEOF max (encodeHeader ⟨roots, 1⟩) (pre ++ b :: post) pre b post [] rfl hwf
  simpa [payload] using this

/-- (4) An over-long CID (longer than `MaxIndexCidSize`) that would be indexed makes the load fail:
    the first such block, after a prefix of acceptable ones. -/
theorem loadLoop_cid_too_large (kind : SrcKind) (o : IdxOpts) (b : Block) (rest : Bytes)
    (hwf : b.cid.wf) (hdig : b.cid.digest.length ≤ maxDigestAlloc) (h63 : b.cid.byteLen + b.data.length < 2 ^ 63)
    (hkeep : (o.storeIdentity || !b.cid.isIdentity) = true) (hbig : b.cid.byteLen > o.maxIndexCidSize) (fuel : Nat) :
    loadLoop kind o (sectionBytes b ++ rest) 0 0 (fuel + 1) 0 [] = .error .cidTooLarge := by
  unfold loadLoop
  have hpos := cid_byteLen_pos b.cid
  simp only [ne_eq, not_true_eq_false, false_and, ↓reduceIte, List.drop_zero]
  have e : sectionBytes b ++ rest = uvarint (b.cid.byteLen + b.data.length) ++ (b.cid.bytes ++ (b.data ++ rest)) := by
    simp [sectionBytes]
  rw [e, readUvarint_uvarint _ h63]
  simp only
  have c0 : ¬ (b.cid.byteLen + b.data.length = 0) := by omega
  simp only [c0, ↓reduceIte]
  rw [cidFromReader_bytes b.cid hwf hdig]
  simp [hkeep, hbig]

/-- Non-vacuity: a concrete block meets `idxOk` under default options. -/
example : (⟨⟨1, 0x55, 0x12, List.replicate 32 7⟩, [1, 2, 3]⟩ : Block).idxOk {} := by
  refine ⟨Or.inr ⟨rfl, by decide, by decide, by decide⟩, by decide, ?_, ?_⟩ <;>
    simp [Cid.byteLen, Cid.bytes, Cid.mhBytes, uvarint_small]

/-- (4) **Lookups in a generated index are sound and complete.** For every valid CARv1 payload and
    either sorted codec: `GetAll(c)` on the index `GenerateIndex` builds yields an offset iff a kept
    section with `c`'s key (digest / code+digest) starts there — composition of (1) with the
    exactness of binary search + scan after `Load` (`index_getAll_load`). -/
theorem generated_index_lookup_exact (kind : SrcKind) (o : IdxOpts) (codec : Nat) (roots : Option (List Cid)) (bs : List Block)
    (hwf : (CarHeader.mk roots 1).wf) (hmax : (encodeHeaderBody ⟨roots, 1⟩).length ≤ o.maxHeader)
    (h63 : (encodeHeaderBody ⟨roots, 1⟩).length < 2 ^ 63) (hok : ∀ b ∈ bs, b.idxOk o)
    (hsz : (payload roots bs).length < 2 ^ 63)
    (hoff : ∀ r ∈ keptRecords o (headerSize ⟨roots, 1⟩) bs, r.offset < 2 ^ 64)
    (ix : Index) (hix : generateIndex kind o codec (payload roots bs) = .ok ix) (c : Cid) (off : Nat) :
    off ∈ ix.getAll c ↔
      ∃ r ∈ keptRecords o (headerSize ⟨roots, 1⟩) bs,
        (codec = codecMhSorted → r.cid.mhCode = c.mhCode) ∧ r.cid.digest = c.digest ∧ r.offset = off := by
  unfold generateIndex at hix
  rw [loadIndexRecords_v1 kind o roots bs hwf hmax h63 hok hsz] at hix
  simp only at hix
  cases hl : Index.load codec (keptRecords o (headerSize ⟨roots, 1⟩) bs) with
  | none => simp [hl] at hix
  | some ix' =>
    simp only [hl] at hix
    injection hix with hix
    subst hix
    exact index_getAll_load codec _ ix' hl hoff c off


/-- (4') The same for a whole CARv2 handed to `GenerateIndex` (any paddings, with or without an embedded
    index, either reader kind): lookups in the generated index are exact for the sections of its payload,
    offsets relative to the payload. -/
theorem generated_index_lookup_exact_v2 (kind : SrcKind) (o : IdxOpts) (codec : Nat) (dp ip : Nat)
    (roots : Option (List Cid)) (bs : List Block) (hasIdx fi : Bool) (index : Bytes)
    (hwf : (CarHeader.mk roots 1).wf) (hmax : (encodeHeaderBody ⟨roots, 1⟩).length ≤ o.maxHeader)
    (h63 : (encodeHeaderBody ⟨roots, 1⟩).length < 2 ^ 63) (h10 : 10 ≤ o.maxHeader)
    (lok : LayoutOK dp ip (payload roots bs).length) (hok : ∀ b ∈ bs, b.idxOk o)
    (hoff : ∀ r ∈ keptRecords o (headerSize ⟨roots, 1⟩) bs, r.offset < 2 ^ 64)
    (ix : Index) (hix : generateIndex kind o codec (layoutV2 dp ip (payload roots bs) hasIdx fi index) = .ok ix)
    (c : Cid) (off : Nat) :
    off ∈ ix.getAll c ↔
      ∃ r ∈ keptRecords o (headerSize ⟨roots, 1⟩) bs,
        (codec = codecMhSorted → r.cid.mhCode = c.mhCode) ∧ r.cid.digest = c.digest ∧ r.offset = off := by
  unfold generateIndex at hix
  rw [loadIndexRecords_v2 kind o dp ip roots bs hasIdx fi index hwf hmax h63 h10 lok hok] at hix
  simp only at hix
  cases hl : Index.load codec (keptRecords o (headerSize ⟨roots, 1⟩) bs) with
  | none => simp [hl] at hix
  | some ix' =>
    simp only [hl] at hix
    injection hix with hix
    subst hix
    exact index_getAll_load codec _ ix' hl hoff c off
/-- (6) **`ReadOrGenerateIndex`** on every valid input: a CARv1 and an index-less CARv2 (any paddings) are
    indexed exactly as `GenerateIndex` indexes them — so (1)–(5) apply to the result, offsets relative
    to the payload — and a CARv2 that carries a well-formed index gets that index back unchanged,
    whatever codec or identity option the caller passes. -/
theorem readOrGenerate_cases (o : IdxOpts) (codec : Nat) (dp ip : Nat) (roots : Option (List Cid)) (bs : List Block)
    (fi : Bool) (ix : Index) (hix : ix.wf)
    (hwf : (CarHeader.mk roots 1).wf) (hmax : (encodeHeaderBody ⟨roots, 1⟩).length ≤ o.maxHeader)
    (h63 : (encodeHeaderBody ⟨roots, 1⟩).length < 2 ^ 63) (h10 : 10 ≤ o.maxHeader)
    (lok : LayoutOK dp ip (payload roots bs).length) :
    readOrGenerateIndex o codec (payload roots bs) = generateIndex .seekable o codec (payload roots bs) ∧
    readOrGenerateIndex o codec (layoutV2 dp ip (payload roots bs) false fi [])
      = generateIndex .seekable o codec (layoutV2 dp ip (payload roots bs) false fi []) ∧
    readOrGenerateIndex o codec (layoutV2 dp ip (payload roots bs) true fi ix.bytes) = .ok ix :=
  ⟨readOrGenerate_v1 o codec roots bs hwf hmax h63,
   readOrGenerate_indexless o codec dp ip roots bs fi h10 lok,
   readOrGenerate_embedded o codec dp ip roots bs fi ix hix h10 lok⟩

end Car.C03
