import CarModel.Proofs.IndexSer
import CarModel.Proofs.IndexLoad
import CarModel.Proofs.StoreInv
import CarModel.Proofs.IndexSearch
import CarModel.Proofs.IndexWf
import CarModel.Proofs.FactsTie
/-
C11 — Index serialization is canonical and lossless.
-/
namespace Car.C11
open Car

/-- Guard fact, regenerated from the source: `Flatten` = one `Load` of all records, outside any loop. -/
theorem flatten_shape : Facts.flattenShape = ["New", "AscendGreaterOrEqual", "Load"] := by decide

/-- (1) Lossless: reading back what was written yields the same index (hence every lookup and
    iteration answers identically), whatever follows it in the stream. -/
theorem unmarshal_marshal (ix : Index) (hwf : ix.wf) (rest : Bytes) :
    Index.read (ix.bytes ++ rest) = .ok (ix, rest) :=
  index_roundtrip ix hwf rest

theorem multiWidth_marshalN (m : MultiWidth) : (MultiWidth.marshal m).length = MultiWidth.marshalN m := by
  unfold MultiWidth.marshal MultiWidth.marshalN
  simp only [List.length_append, le32_length]
  congr 1
  induction m with
  | nil => rfl
  | cons s tl ih =>
    simp only [List.flatMap_cons, List.length_append, List.map_cons, List.sum_cons, ih]
    simp [SingleWidth.marshal, SingleWidth.marshalN, le32_length, le64_length]; omega

/-- (2) The byte count the writer reports equals the bytes written. -/
theorem marshal_count (ix : Index) : ix.bytes.length = ix.writeToN := by
  cases ix with
  | sorted m => simp [Index.bytes, Index.writeToN, multiWidth_marshalN]
  | mh m =>
    simp only [Index.bytes, Index.writeToN, List.length_append, MhIndex.marshal, MhIndex.marshalN, le32_length]
    congr 2
    induction m with
    | nil => rfl
    | cons e tl ih =>
      simp only [List.flatMap_cons, List.length_append, List.map_cons, List.sum_cons, ih, le64_length,
        multiWidth_marshalN]

/-- (3) Canonical: the serialized form depends only on the multiset of records, not on the order
    they were loaded in, whenever no two records share a digest (the order of entries sharing one
    digest is left open by the format and is not claimed). Both codecs. -/
theorem load_perm (codec : Nat) (rs rs' : List Record) (h : List.Perm rs rs') (hd : DistinctDigests rs) :
    Index.load codec rs = Index.load codec rs' ∧
    (Index.load codec rs).map Index.bytes = (Index.load codec rs').map Index.bytes := by
  have := index_load_perm codec rs rs' h hd
  exact ⟨this, by rw [this]⟩

/-- (3a) Order inside the form: the bucket keys (hash codes, widths) are taken from a sorted list … -/
theorem keys_sorted (ks : List Nat) :
    (ks.mergeSort (fun a b => decide (a ≤ b))).Pairwise (fun a b => decide (a ≤ b) = true) :=
  List.pairwise_mergeSort natLe_trans natLe_total _

/-- (3b) … and the entries of every bucket ascend by digest. -/
theorem entries_ascend (g : List Record) :
    (g.mergeSort recLe).Pairwise (fun a b => bytesLe a.cid.digest b.cid.digest = true) :=
  List.pairwise_mergeSort recLe_trans recLe_total g

/-- (4) Flattening a writing session's insertion index and regenerating an index from the finished
    payload are byte-identical whenever no two sections share a digest: the insertion index holds a
    permutation of the payload's records (store invariant), and `Flatten` is `Load` of them. -/
theorem flatten_eq_regen (o : WOpts) (roots : Option (List Cid)) (s : Store) (log : List Block)
    (inv : Inv o roots s log) (hd : DistinctDigests s.idx) :
    s.idx.flatten o.codec = Index.load o.codec (withOffsets (headerSize ⟨roots, 1⟩) log) := by
  unfold InsIndex.flatten
  exact index_load_perm o.codec s.idx _ inv.idx hd

/-- Non-vacuity: a concrete one-bucket index is well-formed, so (1) applies to it. -/
example : (Index.sorted [⟨9, 1, [1, 0, 0, 0, 0, 0, 0, 0, 0]⟩]).wf := by
  refine ⟨?_, by simp, by simp⟩
  intro s hs
  simp only [List.mem_singleton] at hs
  subst hs
  exact ⟨by decide, by decide, by decide, by decide⟩

/-- (6) **Lookup after `Load` is exact**, for both codecs: `GetAll` (Go's `sort.Search` as the stdlib
    runs it, then the forward scan over equal digests) returns an offset for a key iff some loaded
    record carries that key at that offset — every loaded record is found, nothing else is.
    Key = digest for `car-index-sorted`, (hash code, digest) for `car-multihash-index-sorted`. -/
theorem lookup_after_load_exact (codec : Nat) (rs : List Record) (ix : Index) (h : Index.load codec rs = some ix)
    (hoff : ∀ r ∈ rs, r.offset < 2 ^ 64) (c : Cid) (o : Nat) :
    o ∈ ix.getAll c ↔
      ∃ r ∈ rs, (codec = codecMhSorted → r.cid.mhCode = c.mhCode) ∧ r.cid.digest = c.digest ∧ r.offset = o :=
  index_getAll_load codec rs ix h hoff c o

/-- (6') … and the same after a round trip through `Marshal` / `Unmarshal` (by `unmarshal_marshal`
    the index read back IS the loaded one). -/
theorem lookup_after_roundtrip_exact (codec : Nat) (rs : List Record) (ix : Index) (h : Index.load codec rs = some ix)
    (hwf : ix.wf) (hoff : ∀ r ∈ rs, r.offset < 2 ^ 64) (rest : Bytes) (c : Cid) (o : Nat) :
    ∃ ix', Index.read (ix.bytes ++ rest) = .ok (ix', rest) ∧
      (o ∈ ix'.getAll c ↔
        ∃ r ∈ rs, (codec = codecMhSorted → r.cid.mhCode = c.mhCode) ∧ r.cid.digest = c.digest ∧ r.offset = o) :=
  ⟨ix, index_roundtrip ix hwf rest, index_getAll_load codec rs ix h hoff c o⟩

/-- (7) **`Load` produces a well-formed index**, so the round trip needs no premise about the index:
    for every record set within the format's limits (digest + 8 ≤ 32 MiB, offsets and hash codes
    below 2^64, fewer than 2^31 records) and either codec, reading back what `WriteTo` wrote for the
    loaded index returns that index and leaves the following bytes alone. -/
theorem load_roundtrip (codec : Nat) (rs : List Record) (ix : Index) (h : Index.load codec rs = some ix)
    (hok : RecordsOK rs) (rest : Bytes) :
    ix.wf ∧ Index.read (ix.bytes ++ rest) = .ok (ix, rest) :=
  ⟨index_load_wf codec rs ix h hok, index_roundtrip ix (index_load_wf codec rs ix h hok) rest⟩

/-- Non-vacuity of `RecordsOK`. -/
example : RecordsOK [⟨⟨1, 0x55, 0x12, [2, 2]⟩, 5⟩, ⟨⟨1, 0x55, 0x12, [1, 9]⟩, 8⟩] :=
  ⟨by intro r hr; simp at hr; rcases hr with rfl | rfl <;> decide,
   by intro r hr; simp at hr; rcases hr with rfl | rfl <;> decide,
   by intro r hr; simp at hr; rcases hr with rfl | rfl <;> decide, by decide⟩

/-- Non-vacuity: a two-record load and a lookup that finds the second record. -/
example : (8 : Nat) ∈ MultiWidth.getAll (MultiWidth.load [⟨⟨1, 0x55, 0x12, [2, 2]⟩, 5⟩, ⟨⟨1, 0x55, 0x12, [1, 9]⟩, 8⟩]) [1, 9] :=
  (multiWidth_getAll_load _ (by intro r hr; simp at hr; rcases hr with rfl | rfl <;> decide) [1, 9] 8).mpr
    ⟨⟨⟨1, 0x55, 0x12, [1, 9]⟩, 8⟩, by simp, rfl, rfl⟩

end Car.C11
