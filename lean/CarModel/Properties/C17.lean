import CarModel.Proofs.Extract
import CarModel.Proofs.FactsTie
/-
C17 — Extraction never writes outside the chosen output directory.

The file system is the model of `CarModel/FsModel.lean` (directories, regular files, symbolic links,
kernel path resolution with link following, `mkdir`/`open(O_CREAT|O_TRUNC)`/`symlink`/`stat`/`lstat`,
Go's `EvalSymlinks` and `MkdirAll`). The UnixFS engine is a parameter: the theorems hold for EVERY
trace of entries it could hand to the extractor (any names, any link targets, any order, any nesting,
missing blocks, several roots) and for EVERY initial name space (pre-populated output directories,
symlinks already lying in them, an output directory reached through symlinks).
-/
namespace Car.C17
open Car Car.FS Car.Extract

/-- Guard facts, regenerated from the source on every run: `resolvePath` checks the parent with
    `EvalSymlinks` and the entry itself with `Lstat`; `ExtractToDir` routes the file-root name through
    `resolvePath`; `extractDir` resolves before every `MkdirAll` / file / symlink; the only file-system
    calls in the extractor are the ones the model has. -/
theorem extract_facts :
    Facts.resolvePathOrder = ["Rel", "Join", "Dir", "EvalSymlinks", "Clean", "Lstat"] ∧
    Facts.extractToDirOrder = ["EvalSymlinks", "Stat", "Mkdir", "extractDir", "resolvePath", "extractFile"] ∧
    Facts.extractDirOrder = ["resolvePath", "MkdirAll", "resolvePath", "extractFile", "extractDir", "extractFile", "Symlink"] ∧
    -- a file is made by exactly one `os.Create` (no OpenFile / WriteFile), however the copying is arranged
    Facts.extractFileOrder.filter (fun c => c != "Copy") = ["Create"] ∧
    -- every `os.*` identifier the extractor mentions is one the file-system model covers
    Facts.extractOsCalls.all (fun c => c ∈ ["os.Create", "os.File", "os.IsNotExist", "os.Lstat", "os.Mkdir", "os.MkdirAll",
      "os.ModeSymlink", "os.Open", "os.Stat", "os.Stdout", "os.Symlink"]) = true := by decide

/-- (1) **Containment.** Whatever the archive holds and whatever is already on disk: a path that does
    not lie at or below the resolved output directory reads exactly as before — not created, not
    modified, not deleted. -/
theorem extract_contained (fs : Fs) (outDir : P) (roots : List Root) (q : P)
    (hq : ∀ root, evalSymlinks fs outDir = .ok root → ¬ root <+: q) :
    lookup (extractAll outDir fs roots).1 q = lookup fs q := by
  cases he : evalSymlinks fs outDir with
  | ok root => exact (extractAll_ext outDir root roots fs he).outside q (hq root he)
  | error e =>
    rw [extractAll_noroot outDir roots fs (fun root h => by rw [he] at h; cases h)]

/-- (1b) When the output directory cannot be resolved (missing, dangling link, loop) nothing changes. -/
theorem extract_unresolvable (fs : Fs) (outDir : P) (roots : List Root)
    (h : ∀ root, evalSymlinks fs outDir ≠ .ok root) : (extractAll outDir fs roots).1 = fs :=
  extractAll_noroot outDir roots fs h

/-- (2) Inside the output directory, too, nothing that existed is deleted or changes kind: a directory
    stays a directory, a symlink keeps its target, a regular file stays a regular file. -/
theorem extract_keeps_kinds (fs : Fs) (outDir : P) (roots : List Root) :
    Mono fs (extractAll outDir fs roots).1 := by
  cases he : evalSymlinks fs outDir with
  | ok root => exact (extractAll_ext outDir root roots fs he).mono
  | error e =>
    rw [extractAll_noroot outDir roots fs (fun root h => by rw [he] at h; cases h)]
    exact Mono.refl fs

/-- (3) Names cannot escape lexically: `path.Join` of a rooted path with ANY byte string (separators,
    `.`, `..`, empty, absolute) is again a rooted path without `.`/`..`/empty components, so the
    joined destination is always spelled `root/…`. -/
theorem names_cannot_escape (cur : P) (name : Bytes) (h : Clean cur) (root : P) :
    Clean (joinRooted cur name) ∧ root <+: root ++ joinRooted cur name :=
  ⟨joinRooted_clean cur name h, List.prefix_append _ _⟩

/-- (4) What a destination accepted by `resolvePath` satisfies: it is `root/…`, its parent directory
    is its own `EvalSymlinks` image (no link on the way), and it is not itself a symlink. -/
theorem resolve_guard (fs : Fs) (root p j : P) (hc : Clean (root ++ p)) (h : resolvePath fs root p = .ok j) :
    j = root ++ p ∧ evalSymlinks fs j.dropLast = .ok j.dropLast ∧ ∀ t, lstat fs j ≠ .ok (.link t) := by
  obtain ⟨h1, g⟩ := resolvePath_guarded fs root p j hc h
  exact ⟨h1, g.parent, g.nolink⟩

/-- (5) Each mutating call on an accepted destination changes at most that one path. -/
theorem guarded_calls_local (fs : Fs) (root p j : P) (hr : Clean root) (hp : Clean p)
    (h : resolvePath fs root p = .ok j) (q : P) (hq : q ≠ j) :
    (∀ d, lookup (create fs j d).1 q = lookup fs q) ∧ (∀ t, lookup (symlink fs t j).1 q = lookup fs q) ∧
    lookup (mkdirAll fs j).1 q = lookup fs q := by
  obtain ⟨_, g⟩ := resolvePath_guarded fs root p j (hr.append hp) h
  have hs := guarded_shape fs j g
  exact ⟨fun d => (create_upd fs d j hs).local q hq, fun t => (symlink_upd fs t j hs).local q hq,
    (mkdirAll_upd fs j hs).local q hq⟩

/-! Non-vacuity, on a concrete name space: `/o` is the output directory, `/o/e` a symlink to `/v`,
    `/v` a file outside. -/
def exO : Seg := [0x6f]
def exFs : Fs := [([exO, [0x65]], .link [0x2f, 0x76]), ([exO], .dir), ([[0x76]], .file [7])]

/-- the model's `open(O_CREAT|O_TRUNC)` really follows links: unguarded, it overwrites `/v` -/
example : lookup (create exFs [exO, [0x65]] [9]).1 [[0x76]] = some (.file [9]) := by
  simp [create, walk, exFs, exO, lookup, dot, dotdot, kernelLoops, splitSegs, splitAux, slash, isAbs, FS.set]

/-- an ordinary entry is extracted: `/o/a` appears with its content -/
example : (extractAll [exO] exFs [.dir [.file [0x61] [1] true]]).2 = .ok () ∧
    lookup (extractAll [exO] exFs [.dir [.file [0x61] [1] true]]).1 [exO, [0x61]] = some (.file [1]) := by
  simp [extractAll, extractRoot, evalSymlinks, runEvs, stepEv, resolvePath, lstat, stat, mkdirAll, mkdirAllAux,
    create, walk, exFs, exO, lookup, dot, dotdot, goLoops, kernelLoops, joinRooted, splitSegs, splitAux, pushSeg,
    St.cur, slash, FS.set]

/-- the archive names the pre-existing symlink `e` (D14): refused, `/v` keeps its content -/
example : (extractAll [exO] exFs [.dir [.file [0x65] [9] true]]).2 = .error .redirect ∧
    lookup (extractAll [exO] exFs [.dir [.file [0x65] [9] true]]).1 [[0x76]] = some (.file [7]) := by
  simp [extractAll, extractRoot, evalSymlinks, runEvs, stepEv, resolvePath, lstat, stat, mkdirAll, mkdirAllAux,
    walk, exFs, exO, lookup, dot, dotdot, goLoops, kernelLoops, joinRooted, splitSegs, splitAux, pushSeg,
    St.cur, slash]

/-- the archive itself plants the link and then a file of the same name: the link is made (inside),
    the file is refused, `/v` keeps its content -/
example : (extractAll [exO] exFs [.dir [.sym [0x62] [0x2f, 0x76], .file [0x62] [9] true]]).2 = .error .redirect ∧
    lookup (extractAll [exO] exFs [.dir [.sym [0x62] [0x2f, 0x76], .file [0x62] [9] true]]).1 [[0x76]] = some (.file [7]) ∧
    lookup (extractAll [exO] exFs [.dir [.sym [0x62] [0x2f, 0x76], .file [0x62] [9] true]]).1 [exO, [0x62]] = some (.link [0x2f, 0x76]) := by
  simp [extractAll, extractRoot, evalSymlinks, runEvs, stepEv, resolvePath, lstat, stat, mkdirAll, mkdirAllAux,
    symlink, walk, exFs, exO, lookup, dot, dotdot, goLoops, kernelLoops, joinRooted, splitSegs, splitAux, pushSeg,
    St.cur, slash, FS.set]

end Car.C17
