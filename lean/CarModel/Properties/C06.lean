import CarModel.Proofs.Crash
import CarModel.Proofs.TornHeader
import CarModel.Proofs.FactsTie
/-
C06 — Crash at any point of a writing session never resumes into corrupt state.
Proved here: every crash point of the **open and put phases** of a session (any options, any
history, CARv1 and CARv2), i.e. every image of the form
    prefix ++ payload(roots, acked) ++ (cut of the next section)
and the guard facts about write order. **Finalize phase**: theorems (5)-(8) cover every byte offset of the
final header write and the index write under an index padding; what is left without a safety theorem is
exactly the window of the recorded known finding — the header's DataSize field has not reached the disk
(`crash_before_datasize_on_disk` shows such an image is treated like the un-finalised file) AND the bytes
after the payload (index padding = 0) happen to parse as sections (DESIGN 11.3, D5).
-/
namespace Car.C06
open Car

/-- Guard facts, regenerated from the source on every run: Finalize writes the index before the
    header; Put writes the section before it indexes it; Resume validates before it mutates. -/
theorem write_order_facts :
    Facts.finalizeOrder = ["Flatten", "WriteTo", "WriteTo"] ∧
    Facts.putManyOrder = ["ShouldPut", "Position", "LdWrite", "InsertNoReplace"] ∧
    Facts.storagePutOrder = ["ShouldPut", "Position", "LdWrite", "InsertNoReplace"] ∧
    Facts.resumeOrder.take 5 = ["ReadFrom", "ReadHeader", "Matches", "Truncate", "WriteTo"] := by decide

/-- (1) Crash on a section boundary of the put phase (after any number of complete puts, including
    none): reopening succeeds, the store holds exactly the blocks whose sections are complete — every
    block whose Put had returned, and only blocks that were put — with the writer at the end, so
    that continuing and finalizing gives a well-formed archive of them (C04/C05 theorems apply to the
    returned state through `Inv`). -/
theorem crash_on_boundary (api : Api) (o : WOpts) (roots : Option (List Cid)) (acked : List Block)
    (hwf : (CarHeader.mk roots 1).wf) (hmax : (encodeHeaderBody ⟨roots, 1⟩).length ≤ o.maxHeader)
    (hmax32 : (encodeHeaderBody ⟨roots, 1⟩).length ≤ 32 * 2 ^ 20) (hlog : LogOK' acked) :
    ∃ s, (resume api o roots (o.filePrefix (zeros 40) ++ payload roots acked)).res = .ok s ∧
      Inv o roots s acked ∧ s.closed = false ∧ s.finalized = false := by
  obtain ⟨s, h1, h2, h3, h4, _, _⟩ := resume_open_file api o roots acked hwf hmax hmax32 hlog
  exact ⟨s, h1, h2, h3, h4⟩

/-- (2) Crash strictly inside the section of the block being put (in its length prefix, its CID or
    its data — every byte offset `m`): reopening **fails**, and the failed attempt leaves the whole
    payload window byte-for-byte as it was, so every acknowledged block is still intact on disk. -/
theorem crash_inside_section (api : Api) (o : WOpts) (roots : Option (List Cid)) (acked : List Block) (b : Block)
    (m : Nat) (hwf : (CarHeader.mk roots 1).wf) (hmax : (encodeHeaderBody ⟨roots, 1⟩).length ≤ o.maxHeader)
    (hmax32 : (encodeHeaderBody ⟨roots, 1⟩).length ≤ 32 * 2 ^ 20) (hlog : LogOK' acked)
    (hb : b.cid.wf ∧ b.cid.digest.length ≤ maxDigestAlloc ∧ b.cid.byteLen + b.data.length < 2 ^ 63)
    (hm0 : 0 < m) (hm : m < sectionSize b) :
    let image := o.filePrefix (zeros 40) ++ (payload roots acked ++ (sectionBytes b).take m)
    (∃ e, (resume api o roots image).res = .error e) ∧
    (resume api o roots image).file.drop o.base = payload roots acked ++ (sectionBytes b).take m := by
  intro image
  have himg : image = o.filePrefix (zeros 40) ++
      (encodeHeader ⟨roots, 1⟩ ++ (sectionsBytes acked ++ (sectionBytes b).take m)) := by
    simp [image, payload]
  have hcore := resumeCore_unfinalized api o roots (sectionsBytes acked ++ (sectionBytes b).take m) hwf hmax hmax32
  -- the scan: walk the acknowledged sections, then hit the cut one
  have hwalk := resumeLoop_sections_then o.zeroEOF ((sectionBytes b).take m) acked (encodeHeader ⟨roots, 1⟩) []
    ((sectionBytes b).take m).length.succ hlog
  obtain ⟨e, hpart⟩ := resumeLoop_partial o.zeroEOF (encodeHeader ⟨roots, 1⟩ ++ sectionsBytes acked) b m
    (insertAll [] (encodeHeader ⟨roots, 1⟩).length acked) ((sectionBytes b).take m).length hb.1 hb.2.1 hb.2.2 hm0 hm
  have hfuel : (encodeHeader ⟨roots, 1⟩ ++ (sectionsBytes acked ++ (sectionBytes b).take m)).length + 1
      = (((sectionBytes b).take m).length.succ + acked.length) +
          ((encodeHeader ⟨roots, 1⟩).length + ((sectionsBytes acked).length - acked.length)) := by
    have := sectionsBytes_length_ge acked
    simp only [List.length_append, Nat.succ_eq_add_one]; omega
  -- more fuel than needed never changes an erroring scan: restate with the exact fuel
  have hscan : ∃ e', resumeLoop o.zeroEOF (encodeHeader ⟨roots, 1⟩ ++ (sectionsBytes acked ++ (sectionBytes b).take m))
      ((encodeHeader ⟨roots, 1⟩ ++ (sectionsBytes acked ++ (sectionBytes b).take m)).length + 1)
      (encodeHeader ⟨roots, 1⟩).length [] = .error e' := by
    have hw2 := resumeLoop_sections_then o.zeroEOF ((sectionBytes b).take m) acked (encodeHeader ⟨roots, 1⟩) []
      ((encodeHeader ⟨roots, 1⟩).length + ((sectionsBytes acked).length - acked.length) + ((sectionBytes b).take m).length + 1) hlog
    obtain ⟨e2, hp2⟩ := resumeLoop_partial o.zeroEOF (encodeHeader ⟨roots, 1⟩ ++ sectionsBytes acked) b m
      (insertAll [] (encodeHeader ⟨roots, 1⟩).length acked)
      ((encodeHeader ⟨roots, 1⟩).length + ((sectionsBytes acked).length - acked.length) + ((sectionBytes b).take m).length)
      hb.1 hb.2.1 hb.2.2 hm0 hm
    refine ⟨e2, ?_⟩
    have hf2 : (encodeHeader ⟨roots, 1⟩ ++ (sectionsBytes acked ++ (sectionBytes b).take m)).length + 1
        = ((encodeHeader ⟨roots, 1⟩).length + ((sectionsBytes acked).length - acked.length)
            + ((sectionBytes b).take m).length + 1) + acked.length := by
      have := sectionsBytes_length_ge acked
      simp only [List.length_append]; omega
    rw [hf2]
    simp only [← List.append_assoc] at hw2 hp2 ⊢
    rw [hw2]
    exact hp2
  obtain ⟨e', hscan⟩ := hscan
  refine ⟨⟨e', ?_⟩, ?_⟩
  · simp only [resume, himg, hcore, hscan]
  · simp only [resume, himg, hcore]
    have := payload_window_untouched o (encodeHeader ⟨roots, 1⟩ ++ (sectionsBytes acked ++ (sectionBytes b).take m))
    rw [this]; simp [payload]

/-- (3) Crash before the container/payload header is complete (open phase): the version probe or the
    header read fails and **nothing** is written. -/
theorem crash_during_open (api : Api) (o : WOpts) (roots : Option (List Cid)) (image : Bytes) (e : Err)
    (h : readHeader (32 * 2 ^ 20) image = .error e) :
    resumeCore api o roots image = ([], .error e) := by
  unfold resumeCore; rw [h]

/-- (4) A failed reopen of an un-finalised image never destroys an acknowledged block: each one's
    section is still where it was written. -/
theorem acked_intact_after_refusal (api : Api) (o : WOpts) (roots : Option (List Cid))
    (pre : List Block) (a : Block) (post : List Block) (b : Block) (m : Nat)
    (hwf : (CarHeader.mk roots 1).wf) (hmax : (encodeHeaderBody ⟨roots, 1⟩).length ≤ o.maxHeader)
    (hmax32 : (encodeHeaderBody ⟨roots, 1⟩).length ≤ 32 * 2 ^ 20) (hlog : LogOK' (pre ++ a :: post))
    (hb : b.cid.wf ∧ b.cid.digest.length ≤ maxDigestAlloc ∧ b.cid.byteLen + b.data.length < 2 ^ 63)
    (hm0 : 0 < m) (hm : m < sectionSize b) :
    intactAt (resume api o roots (o.filePrefix (zeros 40) ++
        (payload roots (pre ++ a :: post) ++ (sectionBytes b).take m))).file
      o.base ((encodeHeader ⟨roots, 1⟩).length + (sectionsBytes pre).length) a = true := by
  obtain ⟨_, hwin⟩ := crash_inside_section api o roots (pre ++ a :: post) b m hwf hmax hmax32 hlog hb hm0 hm
  unfold intactAt
  rw [← List.drop_drop, hwin]
  have : payload roots (pre ++ a :: post) ++ (sectionBytes b).take m
      = (encodeHeader ⟨roots, 1⟩ ++ sectionsBytes pre) ++ (sectionBytes a ++ (sectionsBytes post ++ (sectionBytes b).take m)) := by
    simp [payload, sectionsBytes]
  rw [this, List.drop_left' (by simp), ← sectionBytes_length, List.take_left' rfl]
  simp


/-- (5) Crash while the index is being written (header slot still zero) in a session with an **index
    padding**: whatever part `X` of the index reached the disk, the scan of `Resume` walks the
    acknowledged sections and then meets the zero padding. Without `ZeroLengthSectionAsEOF` it refuses
    and leaves the payload window byte-for-byte; with it, it resumes with exactly the acknowledged
    blocks indexed and the writer at the end of the payload. -/
theorem crash_in_index_write_padded (api : Api) (o : WOpts) (roots : Option (List Cid)) (acked : List Block) (X : Bytes)
    (hpad : 0 < o.indexPad)
    (hwf : (CarHeader.mk roots 1).wf) (hmax : (encodeHeaderBody ⟨roots, 1⟩).length ≤ o.maxHeader)
    (hmax32 : (encodeHeaderBody ⟨roots, 1⟩).length ≤ 32 * 2 ^ 20) (hlog : LogOK' acked) :
    let image := o.filePrefix (zeros 40) ++ (payload roots acked ++ (zeros o.indexPad ++ X))
    (o.zeroEOF = false → (∃ e, (resume api o roots image).res = .error e) ∧
        (resume api o roots image).file.drop o.base = payload roots acked ++ (zeros o.indexPad ++ X)) ∧
    (o.zeroEOF = true → ∃ s, (resume api o roots image).res = .ok s ∧ s.pos = (payload roots acked).length ∧
        s.idx = insertAll [] (encodeHeader ⟨roots, 1⟩).length acked ∧ s.roots = roots ∧
        s.file.drop o.base = payload roots acked ++ (zeros o.indexPad ++ X)) := by
  intro image
  obtain ⟨k, hk⟩ : ∃ k, o.indexPad = k + 1 := ⟨o.indexPad - 1, by omega⟩
  have hz : zeros o.indexPad ++ X = (0 : UInt8) :: (zeros k ++ X) := by
    rw [hk]; simp [zeros, List.replicate_succ]
  have himg : image = o.filePrefix (zeros 40) ++
      (encodeHeader ⟨roots, 1⟩ ++ (sectionsBytes acked ++ (zeros o.indexPad ++ X))) := by
    simp [image, payload]
  have hcore := resumeCore_unfinalized api o roots (sectionsBytes acked ++ (zeros o.indexPad ++ X)) hwf hmax hmax32
  have hwin := payload_window_untouched o (encodeHeader ⟨roots, 1⟩ ++ (sectionsBytes acked ++ (zeros o.indexPad ++ X)))
  have hfuel : (encodeHeader ⟨roots, 1⟩ ++ (sectionsBytes acked ++ (zeros o.indexPad ++ X))).length + 1
      = ((encodeHeader ⟨roots, 1⟩).length + ((sectionsBytes acked).length - acked.length) + (zeros o.indexPad ++ X).length)
          + 1 + acked.length := by
    have := sectionsBytes_length_ge acked
    simp only [List.length_append]; omega
  have hscan := resumeLoop_sections_then_zero o.zeroEOF (encodeHeader ⟨roots, 1⟩) acked (zeros k ++ X) []
    ((encodeHeader ⟨roots, 1⟩).length + ((sectionsBytes acked).length - acked.length) + (zeros o.indexPad ++ X).length) hlog
  rw [← hz, List.append_assoc, ← hfuel] at hscan
  refine ⟨fun hzf => ?_, fun hzt => ?_⟩
  · rw [hzf] at hscan
    refine ⟨⟨.zeroSection, ?_⟩, ?_⟩
    · simp only [resume, himg, hcore, hzf, hscan]; rfl
    · simp only [resume, himg, hcore]; rw [hwin]; simp [payload]
  · rw [hzt] at hscan
    simp only [↓reduceIte] at hscan
    refine ⟨{ api := api, file := o.filePrefix (zeros 40) ++
                (encodeHeader ⟨roots, 1⟩ ++ (sectionsBytes acked ++ (zeros o.indexPad ++ X))), base := o.base,
              pos := (encodeHeader ⟨roots, 1⟩ ++ sectionsBytes acked).length,
              idx := insertAll [] (encodeHeader ⟨roots, 1⟩).length acked, roots := roots }, ?_, ?_, ?_, ?_, ?_⟩
    · simp only [resume, himg, hcore, hzt, hscan]
    · simp [payload]
    · rfl
    · rfl
    · have := o.filePrefix_length (zeros 40) (by simp [zeros])
      show List.drop o.base (o.filePrefix (zeros 40) ++ _) = _
      rw [List.drop_left' this]; simp [payload]

/-- (6) Crash inside the final **header write**, once the DataSize field is complete (`32 ≤ j ≤ 40`
    bytes of the 40 reached the zeroed slot; `j = 40` is the completed Finalize): `Resume` either refuses
    without issuing any write, or does exactly what it does on the finalised file — cut the index off,
    un-finalise the header, and return the store of exactly the acknowledged blocks (invariant `Inv`,
    so the C04/C05 theorems apply to the continued session). The index bytes may be anything. -/
theorem crash_in_final_header_write (api : Api) (o : WOpts) (roots : Option (List Cid)) (log : List Block)
    (fi : Bool) (index : Bytes) (j : Nat) (hv2 : o.v1 = false)
    (hwf : (CarHeader.mk roots 1).wf) (hmax : (encodeHeaderBody ⟨roots, 1⟩).length ≤ o.maxHeader)
    (hmax32 : (encodeHeaderBody ⟨roots, 1⟩).length ≤ 32 * 2 ^ 20)
    (lok : LayoutOK o.dataPad o.indexPad (payload roots log).length) (hlog : LogOK' log)
    (h32 : 32 ≤ j) (hj : j ≤ 40) :
    let H := finalHeader o.dataPad o.indexPad (payload roots log).length true fi
    let image := pragma ++ (H.bytes.take j ++ zeros (40 - j)) ++
        (zeros o.dataPad ++ (payload roots log ++ (zeros o.indexPad ++ index)))
    ((∃ e, (resume api o roots image).res = .error e) ∧ (resume api o roots image).file = image) ∨
    (∃ s, (resume api o roots image).res = .ok s ∧ Inv o roots s log ∧ s.closed = false ∧ s.finalized = false ∧
        s.file = o.filePrefix (zeros 40) ++ payload roots log) := by
  intro H image
  have hp := payload_length_pos roots log
  have hfin : pragma ++ H.bytes ++ (zeros o.dataPad ++ (payload roots log ++ (zeros o.indexPad ++ index)))
      = layoutV2 o.dataPad o.indexPad (payload roots log) true fi index := by simp [layoutV2, H]
  rcases torn_final_header_ge32 api o roots (payload roots log).length fi
      (zeros o.dataPad ++ (payload roots log ++ (zeros o.indexPad ++ index))) j hv2 hp lok h32 hj with ⟨e, he⟩ | heq
  · left
    exact ⟨⟨e, by simp only [resume, image, H, he]⟩, by simp only [resume, image, H, he, applyWrites, List.foldl_nil]⟩
  · right
    have hcore := resumeCore_finalized_file api o roots log fi index hv2 hwf hmax hmax32 lok hlog
    rw [← hfin] at hcore
    have hres : resumeCore api o roots image = _ := heq.trans hcore
    have hmut : applyWrites image ([.truncate (51 + o.dataPad + (payload roots log).length)] ++ headerEvs {})
        = o.filePrefix (zeros 40) ++ payload roots log := by
      have hpre : o.filePrefix (zeros 40) = pragma ++ zeros 40 ++ zeros o.dataPad := by simp [WOpts.filePrefix, hv2]
      simp only [image]
      rw [torn_header_ge32 H j h32 hj, resume_mutations_erase_header _ _ _ (by omega), hpre]
      have : 51 + o.dataPad + (payload roots log).length - 51 = (zeros o.dataPad ++ payload roots log).length := by
        simp [zeros_length]; omega
      rw [this, ← List.append_assoc (zeros o.dataPad), truncate_prefix]; simp
    refine ⟨{ api := api, file := o.filePrefix (zeros 40) ++ payload roots log, base := o.base,
              pos := (payload roots log).length, idx := insertAll [] (headerSize ⟨roots, 1⟩) log, roots := roots },
      by simp only [resume, hres], ?_, rfl, rfl, rfl⟩
    refine ⟨rfl, ⟨zeros 40, [], by simp [zeros], by simp, fun _ _ => rfl⟩, rfl, ?_, rfl⟩
    have := insertAll_perm [] (headerSize ⟨roots, 1⟩) log
    simpa using this

/-- (7) Crash inside the DataSize field of the final header write (`24 ≤ j ≤ 32`) with a non-zero part of
    it on disk: the index offset is still zero, so the header is refused (the repaired D6 check) and
    **nothing** is written — every acknowledged block stays where it was. -/
theorem crash_in_final_header_datasize (api : Api) (o : WOpts) (roots : Option (List Cid)) (n : Nat) (fi : Bool)
    (tail : Bytes) (j : Nat) (hv2 : o.v1 = false) (hn : 0 < n) (lok : LayoutOK o.dataPad o.indexPad n)
    (h24 : 24 ≤ j) (hj : j ≤ 32) (hpart : n % 256 ^ (j - 24) ≠ 0) :
    let image := pragma ++ ((finalHeader o.dataPad o.indexPad n true fi).bytes.take j ++ zeros (40 - j)) ++ tail
    (∃ e, (resume api o roots image).res = .error e) ∧ (resume api o roots image).file = image := by
  intro image
  obtain ⟨e, he⟩ := torn_final_header_datasize api o roots n fi tail j hv2 hn lok h24 hj hpart
  exact ⟨⟨e, by simp only [resume, image, he]⟩, by simp only [resume, image, he, applyWrites, List.foldl_nil]⟩

/-- (8) The window of the recorded finding, delimited: as long as the DataSize field has not reached
    the disk (`j ≤ 24` bytes of the header write, whatever the characteristics and DataOffset bytes are),
    `Resume` cannot tell the image from an un-finalised file — it behaves exactly as on the all-zero
    header slot, i.e. it scans whatever follows the payload. -/
theorem crash_before_datasize_on_disk (api : Api) (o : WOpts) (roots : Option (List Cid)) (h : V2Header)
    (tail : Bytes) (j : Nat) (hv2 : o.v1 = false) (hj : j ≤ 24) :
    resumeCore api o roots (pragma ++ (h.bytes.take j ++ zeros (40 - j)) ++ tail)
      = resumeCore api o roots (pragma ++ zeros 40 ++ tail) := by
  obtain ⟨pre, hl, hpre⟩ := torn_header_le24 h j hj
  obtain ⟨e, he⟩ := readV2Header_datasize_zero pre tail hl
  rw [hpre]
  exact resumeCore_unreadable_header api o roots (pre ++ zeros 16) tail hv2 (by simp [hl, zeros]) e
    (by rw [List.append_assoc]; exact he)

/-- (9) **Crash inside a resumption.** `Resume` writes too: it cuts the index off, then zeroes the header in
    two writes. If it is interrupted after the truncation — with the characteristics in ANY state (first write
    not started, torn, or done) and the three offset fields still intact — the next resumption succeeds and
    yields the store of exactly the acknowledged blocks. -/
theorem crash_inside_resume_offsets_intact (api : Api) (o : WOpts) (roots : Option (List Cid)) (log : List Block)
    (fi : Bool) (a b : Nat) (ha : a < 2 ^ 64) (hb : b < 2 ^ 64) (hv2 : o.v1 = false)
    (hwf : (CarHeader.mk roots 1).wf) (hmax : (encodeHeaderBody ⟨roots, 1⟩).length ≤ o.maxHeader)
    (hmax32 : (encodeHeaderBody ⟨roots, 1⟩).length ≤ 32 * 2 ^ 20)
    (lok : LayoutOK o.dataPad o.indexPad (payload roots log).length) (hlog : LogOK' log) :
    let H := finalHeader o.dataPad o.indexPad (payload roots log).length true fi
    let image := pragma ++ ({ H with charHi := a, charLo := b } : V2Header).bytes ++ (zeros o.dataPad ++ (payload roots log ++ []))
    ∃ s, (resume api o roots image).res = .ok s ∧ Inv o roots s log ∧ s.closed = false ∧ s.finalized = false ∧
      s.file = o.filePrefix (zeros 40) ++ payload roots log := by
  intro H image
  have hp := payload_length_pos roots log
  have hHwf : H.wf := finalHeader_wf o.dataPad o.indexPad (payload roots log).length true fi hp lok
  have hH'wf : ({ H with charHi := a, charLo := b } : V2Header).wf := ⟨ha, hb, hHwf.dOff, hHwf.dSize, hHwf.iOff⟩
  have hbase : o.base = 51 + o.dataPad := by simp [WOpts.base, hv2]
  have hoff : H.dataOffset = o.base := by simp [H, finalHeader, hbase]
  have hio : H.dataOffset + H.dataSize ≤ H.indexOffset := by simp [H, finalHeader]
  have hcongr := resumeCore_header_congr api o roots ({ H with charHi := a, charLo := b } : V2Header) H
    (zeros o.dataPad ++ (payload roots log ++ [])) hv2 hH'wf hHwf hoff hoff rfl hio hio
  have hcore := resumeCore_finalized_any_tail api o roots log fi [] hv2 hwf hmax hmax32 lok hlog
  have hshape : pragma ++ H.bytes ++ (zeros o.dataPad ++ (payload roots log ++ []))
      = pragma ++ (H.bytes ++ (zeros o.dataPad ++ (payload roots log ++ []))) := by simp
  rw [hshape] at hcongr
  have hres : resumeCore api o roots image = _ := hcongr.trans hcore
  refine ⟨{ api := api, file := o.filePrefix (zeros 40) ++ payload roots log, base := o.base,
            pos := (payload roots log).length, idx := insertAll [] (headerSize ⟨roots, 1⟩) log, roots := roots },
    by simp only [resume, hres], ?_, rfl, rfl, rfl⟩
  refine ⟨rfl, ⟨zeros 40, [], by simp [zeros], by simp, fun _ _ => rfl⟩, rfl, ?_, rfl⟩
  have := insertAll_perm [] (headerSize ⟨roots, 1⟩) log
  simpa using this

/-- (9b) … and once the header slot no longer reads as a header (DataOffset zeroed, or any other unreadable
    state of the 40 bytes) over the truncated file, the next resumption treats it as the un-finalised file it
    now is: it succeeds with exactly the acknowledged blocks. -/
theorem crash_inside_resume_header_unreadable (api : Api) (o : WOpts) (roots : Option (List Cid)) (log : List Block)
    (hb : Bytes) (hl : hb.length = 40) (e : Err) (hv2 : o.v1 = false)
    (hbad : readV2Header (hb ++ (zeros o.dataPad ++ payload roots log)) = .error e)
    (hwf : (CarHeader.mk roots 1).wf) (hmax : (encodeHeaderBody ⟨roots, 1⟩).length ≤ o.maxHeader)
    (hmax32 : (encodeHeaderBody ⟨roots, 1⟩).length ≤ 32 * 2 ^ 20) (hlog : LogOK' log) :
    ∃ s, (resumeCore api o roots (pragma ++ hb ++ (zeros o.dataPad ++ payload roots log))).2 = .ok s ∧
      Inv o roots s log ∧ s.closed = false ∧ s.finalized = false := by
  have h1 := resumeCore_unreadable_header api o roots hb (zeros o.dataPad ++ payload roots log) hv2 hl e hbad
  have hpre : o.filePrefix (zeros 40) = pragma ++ zeros 40 ++ zeros o.dataPad := by simp [WOpts.filePrefix, hv2]
  have hsame : pragma ++ zeros 40 ++ (zeros o.dataPad ++ payload roots log) = o.filePrefix (zeros 40) ++ payload roots log := by
    rw [hpre]; simp
  obtain ⟨s, hres, inv, hc, hf, _, _⟩ := resume_open_file api o roots log hwf hmax hmax32 hlog
  refine ⟨s, ?_, inv, hc, hf⟩
  rw [h1, hsame]
  simpa [resume] using hres
/-- (9c) … and in between: the second header write of a resumption torn inside the DataOffset field (`k ≤ 8`
    of its bytes zeroed, the characteristics already zero). The field then reads as DataOffset rounded down
    to a multiple of `256^k`: unchanged (→ (9)), zero (→ (9b)), or a value that is neither zero nor the
    session's offset, which `Resume` refuses without writing. In every case: refused with the file untouched,
    or resumed with exactly the acknowledged blocks. -/
theorem crash_inside_resume_dataoffset_torn (api : Api) (o : WOpts) (roots : Option (List Cid)) (log : List Block)
    (fi : Bool) (k : Nat) (hk : k ≤ 8) (hv2 : o.v1 = false)
    (hwf : (CarHeader.mk roots 1).wf) (hmax : (encodeHeaderBody ⟨roots, 1⟩).length ≤ o.maxHeader)
    (hmax32 : (encodeHeaderBody ⟨roots, 1⟩).length ≤ 32 * 2 ^ 20)
    (lok : LayoutOK o.dataPad o.indexPad (payload roots log).length) (hlog : LogOK' log) :
    let H := finalHeader o.dataPad o.indexPad (payload roots log).length true fi
    let image := pragma ++ (zeros 16 ++ (zeros k ++ (le64 H.dataOffset).drop k) ++ le64 H.dataSize ++ le64 H.indexOffset)
        ++ (zeros o.dataPad ++ (payload roots log ++ []))
    ((∃ e, (resume api o roots image).res = .error e) ∧ (resume api o roots image).file = image) ∨
    (∃ s, (resume api o roots image).res = .ok s ∧ Inv o roots s log ∧ s.closed = false ∧ s.finalized = false) := by
  intro H image
  have hp := payload_length_pos roots log
  have hHwf : H.wf := finalHeader_wf o.dataPad o.indexPad (payload roots log).length true fi hp lok
  have hbase : o.base = 51 + o.dataPad := by simp [WOpts.base, hv2]
  have hoff : H.dataOffset = 51 + o.dataPad := by simp [H, finalHeader]
  -- the slot as a header value
  have hbytes : zeros 16 ++ (zeros k ++ (le64 H.dataOffset).drop k) ++ le64 H.dataSize ++ le64 H.indexOffset
      = ({ H with charHi := 0, charLo := 0, dataOffset := H.dataOffset - H.dataOffset % 256 ^ k } : V2Header).bytes := by
    have z16 : zeros 16 = le64 0 ++ le64 0 := by rw [le64_zero]; simp [zeros]
    simp only [V2Header.bytes, z16, le64_low_zeroed k _ hk]
  have himg : image = pragma ++ ({ H with charHi := 0, charLo := 0, dataOffset := H.dataOffset - H.dataOffset % 256 ^ k } : V2Header).bytes
      ++ (zeros o.dataPad ++ (payload roots log ++ [])) := by simp only [image, hbytes]
  have hle : H.dataOffset - H.dataOffset % 256 ^ k ≤ H.dataOffset := Nat.sub_le _ _
  by_cases hsame : H.dataOffset % 256 ^ k = 0
  · -- the field is unchanged: (9) with zero characteristics
    right
    have h9 := crash_inside_resume_offsets_intact api o roots log fi 0 0 (by decide) (by decide) hv2 hwf hmax hmax32 lok hlog
    simp only at h9
    obtain ⟨s, hr, inv, hc, hf, _⟩ := h9
    refine ⟨s, ?_, inv, hc, hf⟩
    rw [himg]
    simpa [hsame, H] using hr
  · by_cases hzero : H.dataOffset - H.dataOffset % 256 ^ k = 0
    · -- reads as zero: not a header any more
      right
      have hbad := readV2Header_bytes_small_offset
        ({ H with charHi := 0, charLo := 0, dataOffset := H.dataOffset - H.dataOffset % 256 ^ k } : V2Header)
        (show (0:Nat) < 2 ^ 64 by decide) (show (0:Nat) < 2 ^ 64 by decide) (by simp only [hzero]; decide)
        (Nat.lt_trans hHwf.dSize.2 (by decide)) (Nat.lt_trans hHwf.iOff (by decide))
        (zeros o.dataPad ++ payload roots log)
      obtain ⟨s, hr, inv, hc, hf⟩ := crash_inside_resume_header_unreadable api o roots log _ (V2Header.bytes_length _)
        .badHeader hv2 hbad hwf hmax hmax32 hlog
      refine ⟨s, ?_, inv, hc, hf⟩
      rw [himg]
      simpa [resume] using hr
    · -- neither zero nor the session's offset: refused, nothing written
      left
      have hk0 : k ≠ 0 := by intro h0; subst h0; simp [Nat.mod_one] at hsame
      have hge : 256 ≤ H.dataOffset - H.dataOffset % 256 ^ k := by
        have hdvd : 256 ^ k ∣ H.dataOffset - H.dataOffset % 256 ^ k := Nat.dvd_sub_mod _
        obtain ⟨q, hq⟩ := hdvd
        have hq0 : q ≠ 0 := by intro h; rw [h] at hq; simp at hq; exact hzero hq
        have h256 : 256 ≤ 256 ^ k := by
          calc 256 = 256 ^ 1 := by simp
            _ ≤ 256 ^ k := Nat.pow_le_pow_right (by decide) (by omega)
        calc 256 ≤ 256 ^ k := h256
          _ ≤ 256 ^ k * q := Nat.le_mul_of_pos_right _ (by omega)
          _ = _ := hq.symm
      have hwf' : ({ H with charHi := 0, charLo := 0, dataOffset := H.dataOffset - H.dataOffset % 256 ^ k } : V2Header).wf :=
        ⟨(show (0:Nat) < 2 ^ 64 by decide), (show (0:Nat) < 2 ^ 64 by decide), ⟨by simp only; omega, Nat.lt_of_le_of_lt hle hHwf.dOff.2⟩, hHwf.dSize, hHwf.iOff⟩
      have hne : H.dataOffset - H.dataOffset % 256 ^ k ≠ o.base := by
        rw [hbase, ← hoff]; omega
      obtain ⟨e, he⟩ := resumeCore_header_refused api o roots _ (zeros o.dataPad ++ (payload roots log ++ [])) hv2 hwf' (Or.inl hne)
      rw [himg]
      exact ⟨⟨e, by simp only [resume, he]⟩, by simp only [resume, he, applyWrites, List.foldl_nil]⟩
/-- (10) **The crash images the theorems speak about are the ones a Put produces.** `Put` issues three
    appending writes (length prefix, CID, data: `ldWriteEvs`). Cut after `k` complete writes and `j` bytes of
    the next, for EVERY `k` and `j`, the file is the file before the Put followed by the first `m` bytes of the
    section, for some `m ≤` the section size — `m = 0` or the whole section is the boundary case (1), anything
    in between the torn case (2). No other image exists. -/
theorem crash_images_of_a_put (F : Bytes) (b : Block) (k j : Nat) :
    ∃ m, m ≤ sectionSize b ∧
      crashImage F (ldWriteEvs F.length [b.cid.bytes, b.data]) k j = F ++ (sectionBytes b).take m := by
  have hflat : (uvarint ([b.cid.bytes, b.data].map List.length).sum :: [b.cid.bytes, b.data]).flatten = sectionBytes b := by
    simp [sectionBytes, Cid.byteLen]
  obtain ⟨m, hm, he⟩ := chunks_prefix (uvarint ([b.cid.bytes, b.data].map List.length).sum :: [b.cid.bytes, b.data]) k j
  rw [hflat] at hm he
  refine ⟨m, by rw [← sectionBytes_length]; exact hm, ?_⟩
  unfold ldWriteEvs
  rw [crashImage_chunks, List.append_assoc, he]
/-- (11) … and the same for the final **header write** (two writes: 16 bytes at offset 11, 24 bytes at 27) over
    the still-zero slot: for EVERY cut the slot holds the first `m ≤ 40` bytes of the header and zeros after
    them — exactly the images (6), (7) and (8) quantify over (`m ≥ 32`, `24 ≤ m ≤ 32`, `m ≤ 24`). -/
theorem crash_images_of_the_header_write (H : V2Header) (rest : Bytes) (k j : Nat) :
    ∃ m, m ≤ 40 ∧ crashImage (pragma ++ zeros 40 ++ rest) (headerEvs H) k j
      = pragma ++ (H.bytes.take m ++ zeros (40 - m)) ++ rest :=
  crashImage_header H rest k j

/-- (12) … and for the **index write** in between (`index.WriteTo` at IndexOffset = end of payload + index
    padding, one `Write` per chunk): for EVERY cut the file is untouched (the boundary case (1)), or it is
    the file, the zero-filled padding and a prefix `X` of the index bytes — the images (5) quantifies over
    (and, with no index padding, the window of the recorded finding). -/
theorem crash_images_of_the_index_write (F : Bytes) (ip : Nat) (ix : Index) (k j : Nat) :
    crashImage F (indexEvs (F.length + ip) ix) k j = F ∨
    ∃ m, crashImage F (indexEvs (F.length + ip) ix) k j = F ++ zeros ip ++ (indexChunks ix).flatten.take m :=
  crashImage_chunks_hole (indexChunks ix) F ip k j

/-- (13) **A Put is crash-safe at every byte** — (1), (2) and (10) together. An un-finalised file holding the
    acknowledged blocks, a Put of `b` cut after ANY `k` writes and `j` bytes: reopening either fails and
    leaves the payload window byte-for-byte (every acknowledged block intact), or succeeds with the store of
    exactly the acknowledged blocks, or — only when the whole section had reached the disk — with those
    blocks and `b`. -/
theorem put_is_crash_safe (api : Api) (o : WOpts) (roots : Option (List Cid)) (acked : List Block) (b : Block) (k j : Nat)
    (hwf : (CarHeader.mk roots 1).wf) (hmax : (encodeHeaderBody ⟨roots, 1⟩).length ≤ o.maxHeader)
    (hmax32 : (encodeHeaderBody ⟨roots, 1⟩).length ≤ 32 * 2 ^ 20) (hlog : LogOK' acked)
    (hb : b.cid.wf ∧ b.cid.digest.length ≤ maxDigestAlloc ∧ b.cid.byteLen + b.data.length < 2 ^ 63) :
    let F := o.filePrefix (zeros 40) ++ payload roots acked
    let image := crashImage F (ldWriteEvs F.length [b.cid.bytes, b.data]) k j
    ((∃ e, (resume api o roots image).res = .error e) ∧ (resume api o roots image).file.drop o.base = image.drop o.base) ∨
    (∃ s, (resume api o roots image).res = .ok s ∧ s.closed = false ∧ s.finalized = false ∧
      (Inv o roots s acked ∨ Inv o roots s (acked ++ [b]))) := by
  intro F image
  obtain ⟨m, hm, himg⟩ := crash_images_of_a_put F b k j
  have hplen := o.filePrefix_length (zeros 40) (by simp [zeros])
  by_cases h0 : m = 0
  · right
    obtain ⟨s, hr, inv, hc, hf⟩ := crash_on_boundary api o roots acked hwf hmax hmax32 hlog
    refine ⟨s, ?_, hc, hf, Or.inl inv⟩
    show (resume api o roots image).res = _
    rw [show image = F from by rw [show image = _ from himg, h0]; simp]
    exact hr
  · by_cases hfull : m = sectionSize b
    · right
      have hlog' : LogOK' (acked ++ [b]) := by
        intro x hx
        rcases List.mem_append.mp hx with h | h
        · exact hlog x h
        · simp at h; subst h; exact hb
      obtain ⟨s, hr, inv, hc, hf⟩ := crash_on_boundary api o roots (acked ++ [b]) hwf hmax hmax32 hlog'
      refine ⟨s, ?_, hc, hf, Or.inr inv⟩
      have : image = o.filePrefix (zeros 40) ++ payload roots (acked ++ [b]) := by
        rw [show image = _ from himg, hfull, ← sectionBytes_length, List.take_of_length_le (Nat.le_refl _)]
        simp [F, payload, sectionsBytes]
      rw [this]; exact hr
    · left
      have hcut := crash_inside_section api o roots acked b m hwf hmax hmax32 hlog hb (by omega) (by omega)
      simp only at hcut
      have : image = o.filePrefix (zeros 40) ++ (payload roots acked ++ (sectionBytes b).take m) := by
        rw [show image = _ from himg]; simp [F]
      rw [this]
      refine ⟨hcut.1, ?_⟩
      rw [hcut.2, List.drop_left' hplen]
/-- (14) **The final header write at every byte.** The index is complete on disk (any bytes), the header slot
    still zero, and the header write (two `Write` calls) is cut after ANY `k` writes and `j` bytes. Then the
    next reopening
    * is refused without a single write (file untouched), or
    * succeeds with the store of exactly the acknowledged blocks (invariant `Inv`), or
    * behaves exactly as on the image in which the header write had not started
      (`resumeCore image = resumeCore (zero-header image)`) — and that happens only while the DataSize field
      has not reached the disk in a non-zero form: the window of the recorded finding, nothing wider. -/
theorem final_header_write_at_every_byte (api : Api) (o : WOpts) (roots : Option (List Cid)) (log : List Block)
    (fi : Bool) (index : Bytes) (k j : Nat) (hv2 : o.v1 = false)
    (hwf : (CarHeader.mk roots 1).wf) (hmax : (encodeHeaderBody ⟨roots, 1⟩).length ≤ o.maxHeader)
    (hmax32 : (encodeHeaderBody ⟨roots, 1⟩).length ≤ 32 * 2 ^ 20)
    (lok : LayoutOK o.dataPad o.indexPad (payload roots log).length) (hlog : LogOK' log) :
    let H := finalHeader o.dataPad o.indexPad (payload roots log).length true fi
    let rest := zeros o.dataPad ++ (payload roots log ++ (zeros o.indexPad ++ index))
    let image := crashImage (pragma ++ zeros 40 ++ rest) (headerEvs H) k j
    ((∃ e, (resume api o roots image).res = .error e) ∧ (resume api o roots image).file = image) ∨
    (∃ s, (resume api o roots image).res = .ok s ∧ Inv o roots s log ∧ s.closed = false ∧ s.finalized = false) ∨
    resumeCore api o roots image = resumeCore api o roots (pragma ++ zeros 40 ++ rest) := by
  intro H rest image
  have hp := payload_length_pos roots log
  have hHwf : H.wf := finalHeader_wf o.dataPad o.indexPad (payload roots log).length true fi hp lok
  obtain ⟨m, hm, himg⟩ := crash_images_of_the_header_write H rest k j
  have himg' : image = pragma ++ (H.bytes.take m ++ zeros (40 - m)) ++ rest := himg
  by_cases h32 : 32 ≤ m
  · -- DataSize complete
    rcases crash_in_final_header_write api o roots log fi index m hv2 hwf hmax hmax32 lok hlog h32 hm with h | ⟨s, hr, inv, hc, hf, _⟩
    · left; rw [himg']; exact h
    · right; left; rw [himg']; exact ⟨s, hr, inv, hc, hf⟩
  · by_cases h24 : 24 ≤ m
    · by_cases hpart : (payload roots log).length % 256 ^ (m - 24) ≠ 0
      · left
        have := crash_in_final_header_datasize api o roots (payload roots log).length fi rest m hv2 hp lok h24 (by omega) hpart
        rw [himg']; exact this
      · -- the part of DataSize on disk is zero: not a header yet
        right; right
        have hz : (payload roots log).length % 256 ^ (m - 24) = 0 := by simpa using hpart
        have hb := torn_header_24_32 H m h24 (by omega)
        obtain ⟨e, he⟩ := readV2Header_bytes_zero_size
          ({ H with dataSize := H.dataSize % 256 ^ (m - 24), indexOffset := 0 } : V2Header)
          hHwf.hi hHwf.lo (Nat.lt_trans hHwf.dOff.2 (by decide))
          (by show H.dataSize % 256 ^ (m - 24) = 0; exact hz) (show (0:Nat) < 2 ^ 64 by decide) rest
        rw [himg', hb]
        exact resumeCore_unreadable_header api o roots _ rest hv2 (V2Header.bytes_length _) e he
    · right; right
      rw [himg']
      exact crash_before_datasize_on_disk api o roots H rest m hv2 (by omega)
/-- (15) **The index write at every byte, under an index padding** (and without ZeroLengthSectionAsEOF): cut
    after ANY `k` writes and `j` bytes, reopening succeeds with exactly the acknowledged blocks (nothing of the
    index had reached the disk) or is refused with the payload window byte-for-byte intact. With an index
    padding the recorded finding cannot occur. -/
theorem index_write_at_every_byte_padded (api : Api) (o : WOpts) (roots : Option (List Cid)) (acked : List Block)
    (ix : Index) (k j : Nat) (hpad : 0 < o.indexPad) (hz : o.zeroEOF = false)
    (hwf : (CarHeader.mk roots 1).wf) (hmax : (encodeHeaderBody ⟨roots, 1⟩).length ≤ o.maxHeader)
    (hmax32 : (encodeHeaderBody ⟨roots, 1⟩).length ≤ 32 * 2 ^ 20) (hlog : LogOK' acked) :
    let F := o.filePrefix (zeros 40) ++ payload roots acked
    let image := crashImage F (indexEvs (F.length + o.indexPad) ix) k j
    (∃ s, (resume api o roots image).res = .ok s ∧ Inv o roots s acked ∧ s.closed = false ∧ s.finalized = false) ∨
    ((∃ e, (resume api o roots image).res = .error e) ∧ (resume api o roots image).file.drop o.base = image.drop o.base) := by
  intro F image
  have hplen := o.filePrefix_length (zeros 40) (by simp [zeros])
  rcases crash_images_of_the_index_write F o.indexPad ix k j with h | ⟨m, h⟩
  · left
    rw [show image = F from h]
    exact crash_on_boundary api o roots acked hwf hmax hmax32 hlog
  · right
    have h5 := (crash_in_index_write_padded api o roots acked ((indexChunks ix).flatten.take m) hpad hwf hmax hmax32 hlog).1 hz
    have himg : image = o.filePrefix (zeros 40) ++ (payload roots acked ++ (zeros o.indexPad ++ (indexChunks ix).flatten.take m)) := by
      rw [show image = _ from h]; simp [F]
    rw [himg]
    refine ⟨h5.1, ?_⟩
    rw [h5.2, List.drop_left' hplen]
/-- Non-vacuity of (6)/(7): a concrete session, header cut at 37 and at 25 bytes. -/
example : LayoutOK 0 0 60 ∧ (32 ≤ 37 ∧ 37 ≤ 40) ∧ (24 ≤ 25 ∧ 25 ≤ 32 ∧ 60 % 256 ^ (25 - 24) ≠ 0) := by
  refine ⟨⟨by decide, by decide, by decide⟩, by decide, by decide⟩

/-- Non-vacuity: the premises of `crash_inside_section` hold for a concrete block and cut. -/
example : let b : Block := ⟨⟨1, 0x55, 0, [1, 2]⟩, [1, 2]⟩
    (b.cid.wf ∧ b.cid.digest.length ≤ maxDigestAlloc ∧ b.cid.byteLen + b.data.length < 2 ^ 63) ∧ 3 < sectionSize b := by
  simp [Cid.wf, maxDigestAlloc, Cid.byteLen, Cid.bytes, Cid.mhBytes, uvarint_small, sectionSize, uvarintSize]

end Car.C06
