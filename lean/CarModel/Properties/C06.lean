import CarModel.Proofs.Crash
import CarModel.Proofs.FactsTie
/-
C06 — Crash at any point of a writing session never resumes into corrupt state.
Proved here: every crash point of the **open and put phases** of a session (any options, any
history, CARv1 and CARv2), i.e. every image of the form
    prefix ++ payload(roots, acked) ++ (cut of the next section)
and the guard facts about write order. Crash points of the **finalize phase** between the index
write and a valid header are a recorded known finding (see `crash_safe_partial` note, DESIGN 6).
-/
namespace Car.C06
open Car

/-- Guard facts, regenerated from the source on every run: Finalize writes the index before the
    header; Put writes the section before it indexes it; Resume validates before it mutates. -/
theorem write_order_facts :
    Facts.finalizeOrder = ["Flatten", "WriteTo", "WriteTo"] ∧
    Facts.putManyOrder = ["ShouldPut", "Position", "LdWrite", "InsertNoReplace"] ∧
    Facts.storagePutOrder = ["ShouldPut", "Position", "LdWrite", "InsertNoReplace"] ∧
    Facts.resumeOrder.take 5 = ["ReadFrom", "ReadHeader", "Matches", "Truncate", "WriteTo"] := by decide

/-- (1) Crash on a section boundary of the put phase (after any number of complete puts, including
    none): reopening succeeds, the store holds exactly the blocks whose sections are complete — every
    block whose Put had returned, and only blocks that were put — with the writer at the end, so
    that continuing and finalizing gives a well-formed archive of them (C04/C05 theorems apply to the
    returned state through `Inv`). -/
theorem crash_on_boundary (api : Api) (o : WOpts) (roots : Option (List Cid)) (acked : List Block)
    (hwf : (CarHeader.mk roots 1).wf) (hmax : (encodeHeaderBody ⟨roots, 1⟩).length ≤ o.maxHeader)
    (hmax32 : (encodeHeaderBody ⟨roots, 1⟩).length ≤ 32 * 2 ^ 20) (hlog : LogOK' acked) :
    ∃ s, (resume api o roots (o.filePrefix (zeros 40) ++ payload roots acked)).res = .ok s ∧
      Inv o roots s acked ∧ s.closed = false ∧ s.finalized = false := by
  obtain ⟨s, h1, h2, h3, h4, _, _⟩ := resume_open_file api o roots acked hwf hmax hmax32 hlog
  exact ⟨s, h1, h2, h3, h4⟩

/-- (2) Crash strictly inside the section of the block being put (in its length prefix, its CID or
    its data — every byte offset `m`): reopening **fails**, and the failed attempt leaves the whole
    payload window byte-for-byte as it was, so every acknowledged block is still intact on disk. -/
theorem crash_inside_section (api : Api) (o : WOpts) (roots : Option (List Cid)) (acked : List Block) (b : Block)
    (m : Nat) (hwf : (CarHeader.mk roots 1).wf) (hmax : (encodeHeaderBody ⟨roots, 1⟩).length ≤ o.maxHeader)
    (hmax32 : (encodeHeaderBody ⟨roots, 1⟩).length ≤ 32 * 2 ^ 20) (hlog : LogOK' acked)
    (hb : b.cid.wf ∧ b.cid.digest.length ≤ maxDigestAlloc ∧ b.cid.byteLen + b.data.length < 2 ^ 63)
    (hm0 : 0 < m) (hm : m < sectionSize b) :
    let image := o.filePrefix (zeros 40) ++ (payload roots acked ++ (sectionBytes b).take m)
    (∃ e, (resume api o roots image).res = .error e) ∧
    (resume api o roots image).file.drop o.base = payload roots acked ++ (sectionBytes b).take m := by
  intro image
  have himg : image = o.filePrefix (zeros 40) ++
      (encodeHeader ⟨roots, 1⟩ ++ (sectionsBytes acked ++ (sectionBytes b).take m)) := by
    simp [image, payload]
  have hcore := resumeCore_unfinalized api o roots (sectionsBytes acked ++ (sectionBytes b).take m) hwf hmax hmax32
  -- the scan: walk the acknowledged sections, then hit the cut one
  have hwalk := resumeLoop_sections_then o.zeroEOF ((sectionBytes b).take m) acked (encodeHeader ⟨roots, 1⟩) []
    ((sectionBytes b).take m).length.succ hlog
  obtain ⟨e, hpart⟩ := resumeLoop_partial o.zeroEOF (encodeHeader ⟨roots, 1⟩ ++ sectionsBytes acked) b m
    (insertAll [] (encodeHeader ⟨roots, 1⟩).length acked) ((sectionBytes b).take m).length hb.1 hb.2.1 hb.2.2 hm0 hm
  have hfuel : (encodeHeader ⟨roots, 1⟩ ++ (sectionsBytes acked ++ (sectionBytes b).take m)).length + 1
      = (((sectionBytes b).take m).length.succ + acked.length) +
          ((encodeHeader ⟨roots, 1⟩).length + ((sectionsBytes acked).length - acked.length)) := by
    have := sectionsBytes_length_ge acked
    simp only [List.length_append, Nat.succ_eq_add_one]; omega
  -- more fuel than needed never changes an erroring scan: restate with the exact fuel
  have hscan : ∃ e', resumeLoop o.zeroEOF (encodeHeader ⟨roots, 1⟩ ++ (sectionsBytes acked ++ (sectionBytes b).take m))
      ((encodeHeader ⟨roots, 1⟩ ++ (sectionsBytes acked ++ (sectionBytes b).take m)).length + 1)
      (encodeHeader ⟨roots, 1⟩).length [] = .error e' := by
    have hw2 := resumeLoop_sections_then o.zeroEOF ((sectionBytes b).take m) acked (encodeHeader ⟨roots, 1⟩) []
      ((encodeHeader ⟨roots, 1⟩).length + ((sectionsBytes acked).length - acked.length) + ((sectionBytes b).take m).length + 1) hlog
    obtain ⟨e2, hp2⟩ := resumeLoop_partial o.zeroEOF (encodeHeader ⟨roots, 1⟩ ++ sectionsBytes acked) b m
      (insertAll [] (encodeHeader ⟨roots, 1⟩).length acked)
      ((encodeHeader ⟨roots, 1⟩).length + ((sectionsBytes acked).length - acked.length) + ((sectionBytes b).take m).length)
      hb.1 hb.2.1 hb.2.2 hm0 hm
    refine ⟨e2, ?_⟩
    have hf2 : (encodeHeader ⟨roots, 1⟩ ++ (sectionsBytes acked ++ (sectionBytes b).take m)).length + 1
        = ((encodeHeader ⟨roots, 1⟩).length + ((sectionsBytes acked).length - acked.length)
            + ((sectionBytes b).take m).length + 1) + acked.length := by
      have := sectionsBytes_length_ge acked
      simp only [List.length_append]; omega
    rw [hf2]
    simp only [← List.append_assoc] at hw2 hp2 ⊢
    rw [hw2]
    exact hp2
  obtain ⟨e', hscan⟩ := hscan
  refine ⟨⟨e', ?_⟩, ?_⟩
  · simp only [resume, himg, hcore, hscan]
  · simp only [resume, himg, hcore]
    have := payload_window_untouched o (encodeHeader ⟨roots, 1⟩ ++ (sectionsBytes acked ++ (sectionBytes b).take m))
    rw [this]; simp [payload]

/-- (3) Crash before the container/payload header is complete (open phase): the version probe or the
    header read fails and **nothing** is written. -/
theorem crash_during_open (api : Api) (o : WOpts) (roots : Option (List Cid)) (image : Bytes) (e : Err)
    (h : readHeader (32 * 2 ^ 20) image = .error e) :
    resumeCore api o roots image = ([], .error e) := by
  unfold resumeCore; rw [h]

/-- (4) A failed reopen of an un-finalised image never destroys an acknowledged block: each one's
    section is still where it was written. -/
theorem acked_intact_after_refusal (api : Api) (o : WOpts) (roots : Option (List Cid))
    (pre : List Block) (a : Block) (post : List Block) (b : Block) (m : Nat)
    (hwf : (CarHeader.mk roots 1).wf) (hmax : (encodeHeaderBody ⟨roots, 1⟩).length ≤ o.maxHeader)
    (hmax32 : (encodeHeaderBody ⟨roots, 1⟩).length ≤ 32 * 2 ^ 20) (hlog : LogOK' (pre ++ a :: post))
    (hb : b.cid.wf ∧ b.cid.digest.length ≤ maxDigestAlloc ∧ b.cid.byteLen + b.data.length < 2 ^ 63)
    (hm0 : 0 < m) (hm : m < sectionSize b) :
    intactAt (resume api o roots (o.filePrefix (zeros 40) ++
        (payload roots (pre ++ a :: post) ++ (sectionBytes b).take m))).file
      o.base ((encodeHeader ⟨roots, 1⟩).length + (sectionsBytes pre).length) a = true := by
  obtain ⟨_, hwin⟩ := crash_inside_section api o roots (pre ++ a :: post) b m hwf hmax hmax32 hlog hb hm0 hm
  unfold intactAt
  rw [← List.drop_drop, hwin]
  have : payload roots (pre ++ a :: post) ++ (sectionBytes b).take m
      = (encodeHeader ⟨roots, 1⟩ ++ sectionsBytes pre) ++ (sectionBytes a ++ (sectionsBytes post ++ (sectionBytes b).take m)) := by
    simp [payload, sectionsBytes]
  rw [this, List.drop_left' (by simp), ← sectionBytes_length, List.take_left' rfl]
  simp

/-- Non-vacuity: the premises of `crash_inside_section` hold for a concrete block and cut. -/
example : let b : Block := ⟨⟨1, 0x55, 0, [1, 2]⟩, [1, 2]⟩
    (b.cid.wf ∧ b.cid.digest.length ≤ maxDigestAlloc ∧ b.cid.byteLen + b.data.length < 2 ^ 63) ∧ 3 < sectionSize b := by
  simp [Cid.wf, maxDigestAlloc, Cid.byteLen, Cid.bytes, Cid.mhBytes, uvarint_small, sectionSize, uvarintSize]

end Car.C06
