import CarModel.Proofs.Faults
import CarModel.Proofs.Finalize
/-
C16 — A failed write does not poison the store or the archive.
A fault `⟨k, n⟩` makes the k-th write call of the operation return an error after n of its bytes
reached the file (every k, every n: an error after nothing, a short write, or an error after a
complete write).
-/
namespace Car.C16
open Car

/-- (1) A Put whose write fails returns an error and leaves file, writer position and index exactly
    as they were: the failed block is not stored, not indexed, and no debris remains. -/
theorem failed_put_unchanged (o : WOpts) (roots : Option (List Cid)) (s : Store) (log : List Block) (c : Cid) (d : Bytes)
    (inv : Inv o roots s log) (hopen : s.finalized = false ∧ s.closed = false) (flt : Fault)
    (hshould : shouldPut o s.idx c = .ok true) (hfire : flt.call < (ldWriteEvs (s.base + s.pos) [c.bytes, d]).length) :
    (s.putOneF o c d (some flt)).1.file = s.file ∧ (s.putOneF o c d (some flt)).1.pos = s.pos ∧
    (s.putOneF o c d (some flt)).1.idx = s.idx ∧ (s.putOneF o c d (some flt)).2.1 = .err .other :=
  Car.failed_put_unchanged o roots s log c d inv hopen flt hshould hfire

/-- (2) One Put under any fault, against the specification: either the fault fired — error, and the
    store is still related to the *same* specification state (nothing stored) — or it did not, and
    the Put behaves exactly as the fault-free Put (C04.put_refines). -/
theorem put_under_fault (o : WOpts) (roots : Option (List Cid)) (s : Store) (st : Spec.State)
    (rel : Rel o roots s st) (hopen : s.finalized = false ∧ s.closed = false) (c : Cid) (d : Bytes) (flt : Option Fault) :
    ((s.putOneF o c d flt).2.1 = .err .other ∧ Rel o roots (s.putOneF o c d flt).1 st) ∨
    ((s.putOneF o c d flt).2.1 = (Spec.putOne o st c d).2 ∧
      Rel o roots (s.putOneF o c d flt).1 (Spec.putOne o st c d).1) := by
  by_cases hf : ∃ f, flt = some f ∧ f.call < (ldWriteEvs (s.base + s.pos) [c.bytes, d]).length ∧
      shouldPut o s.idx c = .ok true
  · obtain ⟨f, rfl, hfire, hshould⟩ := hf
    left
    obtain ⟨h1, h2, h3, h4⟩ := Car.failed_put_unchanged o roots s st.log c d rel.inv hopen f hshould hfire
    refine ⟨h4, ?_⟩
    have hstate : (s.putOneF o c d (some f)).1 = s := by
      have : (s.putOneF o c d (some f)).1 = { s with file := (s.putOneF o c d (some f)).1.file } := by
        unfold Store.putOneF; simp [hshould, hfire, Store.applyEvs]
      rw [this, h1]
    rw [hstate]; exact rel
  · right
    have hput : s.putOneF o c d flt = s.putOne o c d := by
      unfold Store.putOneF Store.putOne
      cases hs : shouldPut o s.idx c with
      | error e => rfl
      | ok b =>
        cases b with
        | false => rfl
        | true =>
          cases flt with
          | none => rfl
          | some f =>
            have : ¬ f.call < (ldWriteEvs (s.base + s.pos) [c.bytes, d]).length := by
              intro h; exact hf ⟨f, rfl, h, hs⟩
            simp [this]
    rw [hput]
    exact putOne_refines o roots s st rel hopen c d

/-- A history of Puts, each with its own optional fault. -/
def runPutsF (o : WOpts) : List (Block × Option Fault) → Store → Store
  | [], s => s
  | (b, f) :: rest, s => runPutsF o rest (s.putOneF o b.cid b.data f).1

theorem putOneF_flags (o : WOpts) (s : Store) (c : Cid) (d : Bytes) (flt : Option Fault) :
    (s.putOneF o c d flt).1.finalized = s.finalized ∧ (s.putOneF o c d flt).1.closed = s.closed := by
  unfold Store.putOneF
  split
  · simp
  · simp
  · cases flt with
    | none => simp [Store.applyEvs]
    | some f => simp only; split <;> simp [Store.applyEvs]

/-- (3) Any history of Puts with any transient failures: the store ends up related to a
    specification state whose log consists only of blocks from the history (the ones whose Put
    succeeded, per (2)); so by C05.finalize_layout a successful Finalize writes a well-formed archive
    of exactly those blocks. -/
theorem faulty_history_rel (o : WOpts) (roots : Option (List Cid)) :
    ∀ (h : List (Block × Option Fault)) (s : Store) (st : Spec.State),
    Rel o roots s st → s.finalized = false ∧ s.closed = false →
    ∃ st', Rel o roots (runPutsF o h s) st' ∧
      (runPutsF o h s).finalized = false ∧ (runPutsF o h s).closed = false ∧
      (∀ b ∈ st'.log, b ∈ st.log ∨ ∃ e ∈ h, e.1 = b) := by
  intro h
  induction h with
  | nil => intro s st rel hopen; exact ⟨st, rel, hopen.1, hopen.2, fun b hb => Or.inl hb⟩
  | cons e tl ih =>
    intro s st rel hopen
    obtain ⟨b, f⟩ := e
    have hfl := putOneF_flags o s b.cid b.data f
    have hopen' : (s.putOneF o b.cid b.data f).1.finalized = false ∧ (s.putOneF o b.cid b.data f).1.closed = false :=
      ⟨by rw [hfl.1]; exact hopen.1, by rw [hfl.2]; exact hopen.2⟩
    rcases put_under_fault o roots s st rel hopen b.cid b.data f with ⟨_, hrel⟩ | ⟨_, hrel⟩
    · obtain ⟨st', h1, h2, h3, h4⟩ := ih _ st hrel hopen'
      refine ⟨st', h1, h2, h3, fun x hx => ?_⟩
      rcases h4 x hx with hl | ⟨e, he, hex⟩
      · exact Or.inl hl
      · exact Or.inr ⟨e, by simp [he], hex⟩
    · obtain ⟨st', h1, h2, h3, h4⟩ := ih _ _ hrel hopen'
      refine ⟨st', h1, h2, h3, fun x hx => ?_⟩
      rcases h4 x hx with hl | ⟨e, he, hex⟩
      · -- in the log after this put: either already there, or this very block
        have : x ∈ st.log ∨ x = b := by
          unfold Spec.putOne at hl
          split at hl
          · exact Or.inl hl
          · split at hl
            · exact Or.inl hl
            · split at hl
              · exact Or.inl hl
              · simp only [List.mem_append, List.mem_singleton] at hl
                rcases hl with hl | hl
                · exact Or.inl hl
                · right; rw [hl]
        rcases this with hl | hl
        · exact Or.inl hl
        · exact Or.inr ⟨(b, f), by simp, hl.symm⟩
      · exact Or.inr ⟨e, by simp [he], hex⟩

theorem putOneF_api (o : WOpts) (s : Store) (c : Cid) (d : Bytes) (flt : Option Fault) :
    (s.putOneF o c d flt).1.api = s.api := by
  unfold Store.putOneF
  split
  · rfl
  · rfl
  · cases flt with
    | none => simp [Store.applyEvs]
    | some f => simp only; split <;> simp [Store.applyEvs]

theorem runPutsF_api (o : WOpts) : ∀ (h : List (Block × Option Fault)) (s : Store), (runPutsF o h s).api = s.api := by
  intro h
  induction h with
  | nil => intro s; rfl
  | cons e tl ih =>
    intro s
    obtain ⟨b, f⟩ := e
    simp only [runPutsF]
    rw [ih, putOneF_api]

/-- (3a) **… and the closing Finalize, stated outright**: a fresh read-write blockstore (CARv2 mode), any
    history of Puts with any transient write failures, then Finalize: the call returns ok and the file is
    the C05 layout of a log made only of blocks of the history — no debris of a failed Put, nothing else. -/
theorem faulty_history_then_finalize (o : WOpts) (roots : Option (List Cid)) (h : List (Block × Option Fault))
    (ix : Index) (hv2 : o.v1 = false)
    (hix : (runPutsF o h (Store.create .blockstore o roots).1).idx.flatten o.codec = some ix)
    (h64 : 51 + o.dataPad + o.indexPad + (runPutsF o h (Store.create .blockstore o roots).1).pos < 2 ^ 64) :
    ∃ log : List Block, (∀ b ∈ log, ∃ e ∈ h, e.1 = b) ∧
      ((runPutsF o h (Store.create .blockstore o roots).1).step o .finalize).2.1 = .ok ∧
      ((runPutsF o h (Store.create .blockstore o roots).1).step o .finalize).1.file
        = layoutV2 o.dataPad o.indexPad (payload roots log) true o.storeIdentity ix.bytes := by
  have rel0 : Rel o roots (Store.create .blockstore o roots).1 { api := .blockstore, roots := roots.getD [] } :=
    ⟨create_inv .blockstore o roots, rfl, rfl, rfl, rfl⟩
  have hopen0 : (Store.create .blockstore o roots).1.finalized = false ∧
      (Store.create .blockstore o roots).1.closed = false := by simp [Store.create]
  obtain ⟨st', rel, hf, hc, hlog⟩ := faulty_history_rel o roots h _ _ rel0 hopen0
  have hapi : (runPutsF o h (Store.create .blockstore o roots).1).api = .blockstore := by
    rw [runPutsF_api]; simp [Store.create]
  generalize runPutsF o h (Store.create .blockstore o roots).1 = s at *
  obtain ⟨evs, he, hfile⟩ := finalize_file o roots s st'.log ix rel.inv ⟨hf, hc⟩ hv2 hix h64
  refine ⟨st'.log, fun b hb => ?_, ?_, ?_⟩
  · rcases hlog b hb with hl | hl
    · simp at hl
    · exact hl
  · simp [Store.step, hapi, Store.stepBlockstore, Store.finalizeRO, Store.closeInner, hv2, hf, hc, he, Store.applyEvs]
  · simp [Store.step, hapi, Store.stepBlockstore, Store.finalizeRO, Store.closeInner, hv2, hf, hc, he, Store.applyEvs,
      hfile]

/-- (3') The same for the blockstore's batch entry point under a fault on ANY of the batch's write
    calls: whatever the fault does, the store is afterwards related to a specification state — file,
    position and index consistent — that holds only blocks of the old state and of the batch; the
    block whose write failed leaves nothing behind, the ones before it are stored like single Puts. -/
theorem putMany_under_fault (o : WOpts) (roots : Option (List Cid)) :
    ∀ (bs : List Block) (s : Store) (st : Spec.State) (flt : Option Fault),
    Rel o roots s st → s.finalized = false ∧ s.closed = false →
    ∃ st', Rel o roots (s.putManyF o bs flt).1 st' ∧
      (s.putManyF o bs flt).1.finalized = false ∧ (s.putManyF o bs flt).1.closed = false ∧
      (∀ b ∈ st'.log, b ∈ st.log ∨ b ∈ bs) := by
  intro bs
  induction bs with
  | nil => intro s st flt rel hopen; exact ⟨st, rel, hopen.1, hopen.2, fun b hb => Or.inl hb⟩
  | cons b tl ih =>
    intro s st flt rel hopen
    have hfl := putOneF_flags o s b.cid b.data flt
    have hopen' : (s.putOneF o b.cid b.data flt).1.finalized = false ∧ (s.putOneF o b.cid b.data flt).1.closed = false :=
      ⟨by rw [hfl.1]; exact hopen.1, by rw [hfl.2]; exact hopen.2⟩
    -- the specification state the store is related to after this one block
    have hone : ∃ st1, Rel o roots (s.putOneF o b.cid b.data flt).1 st1 ∧ (∀ x ∈ st1.log, x ∈ st.log ∨ x = b) := by
      rcases put_under_fault o roots s st rel hopen b.cid b.data flt with ⟨_, hrel⟩ | ⟨_, hrel⟩
      · exact ⟨st, hrel, fun x hx => Or.inl hx⟩
      · refine ⟨_, hrel, fun x hl => ?_⟩
        unfold Spec.putOne at hl
        split at hl
        · exact Or.inl hl
        · split at hl
          · exact Or.inl hl
          · split at hl
            · exact Or.inl hl
            · simp only [List.mem_append, List.mem_singleton] at hl
              rcases hl with hl | hl
              · exact Or.inl hl
              · right; exact hl
    obtain ⟨st1, hrel1, hlog1⟩ := hone
    unfold Store.putManyF
    cases hp : s.putOneF o b.cid b.data flt with
    | mk s1 r =>
      obtain ⟨out, evs⟩ := r
      rw [hp] at hrel1 hopen'
      cases out with
      | ok =>
        simp only
        obtain ⟨st', h1, h2, h3, h4⟩ := ih s1 st1 (flt.map fun f => ⟨f.call - evs.length, f.bytes⟩) hrel1 hopen'
        refine ⟨st', h1, h2, h3, fun x hx => ?_⟩
        rcases h4 x hx with hl | hl
        · rcases hlog1 x hl with h | h
          · exact Or.inl h
          · exact Or.inr (by simp [h])
        · exact Or.inr (by simp [hl])
      | err e =>
        exact ⟨st1, hrel1, hopen'.1, hopen'.2, fun x hx => by
          rcases hlog1 x hx with h | h
          · exact Or.inl h
          · exact Or.inr (by simp [h])⟩
      | bool v =>
        exact ⟨st1, hrel1, hopen'.1, hopen'.2, fun x hx => by
          rcases hlog1 x hx with h | h
          · exact Or.inl h
          · exact Or.inr (by simp [h])⟩
      | data v =>
        exact ⟨st1, hrel1, hopen'.1, hopen'.2, fun x hx => by
          rcases hlog1 x hx with h | h
          · exact Or.inl h
          · exact Or.inr (by simp [h])⟩
      | size v =>
        exact ⟨st1, hrel1, hopen'.1, hopen'.2, fun x hx => by
          rcases hlog1 x hx with h | h
          · exact Or.inl h
          · exact Or.inr (by simp [h])⟩
      | cids v =>
        exact ⟨st1, hrel1, hopen'.1, hopen'.2, fun x hx => by
          rcases hlog1 x hx with h | h
          · exact Or.inl h
          · exact Or.inr (by simp [h])⟩

/-- (4) A Finalize whose write fails reports an error and leaves the store closed: no later call can
    succeed, so no malformed archive is ever acknowledged. -/
theorem failed_finalize_closes (o : WOpts) (s : Store) (flt : Fault) (evs : List WriteEv)
    (hv2 : o.v1 = false) (hopen : s.finalized = false ∧ s.closed = false)
    (he : s.finalizeEvs o = some evs) (hfire : flt.call < evs.length) :
    (s.finalizeF o (some flt)).2.1 = .err .other ∧ (s.finalizeF o (some flt)).1.closed = true := by
  unfold Store.finalizeF
  simp only [hv2, hopen.1, hopen.2, he, hfire, ↓reduceIte, Bool.false_eq_true, false_or, and_false]
  cases s.api <;> simp

/-- (4b) … and a RETRY does not paper over it: after a Finalize whose write failed, a second Finalize (and
    FinalizeReadOnly, and any Put) on the same read-write blockstore reports an error and writes nothing — it
    never reports success over the half-written file. -/
theorem failed_finalize_retry_refused (o : WOpts) (s : Store) (flt : Fault) (evs : List WriteEv)
    (hv2 : o.v1 = false) (hapi : s.api = .blockstore) (hopen : s.finalized = false ∧ s.closed = false)
    (he : s.finalizeEvs o = some evs) (hfire : flt.call < evs.length) (c : Cid) (d : Bytes) :
    let s' := (s.finalizeF o (some flt)).1
    (∃ e, (s'.step o .finalize).2.1 = .err e) ∧ (s'.step o .finalize).2.2 = [] ∧ (s'.step o .finalize).1.file = s'.file ∧
    (∃ e, (s'.step o .finalizeRO).2.1 = .err e) ∧ (s'.step o .finalizeRO).2.2 = [] ∧
    (s'.step o (.put c d)).2.1 = .err .closed ∧ (s'.step o (.put c d)).2.2 = [] := by
  have h : s.finalizeF o (some flt)
      = ({ s.applyEvs (faultyPrefix evs flt) with finalized := true, closed := true }, .err .other, faultyPrefix evs flt) := by
    unfold Store.finalizeF
    simp [hv2, hopen.1, hopen.2, hapi, he, hfire]
  simp only [h]
  refine ⟨?_, ?_, ?_, ?_, ?_, ?_, ?_⟩ <;>
    simp [Store.step, Store.applyEvs, hapi, Store.stepBlockstore, Store.finalizeRO, Store.closeInner, hv2]
/-- (4c) The same for the storage CAR: after a Finalize whose write failed, Finalize again and Put are refused
    (closed) and write nothing. -/
theorem failed_finalize_retry_refused_storage (o : WOpts) (s : Store) (flt : Fault) (evs : List WriteEv)
    (hv2 : o.v1 = false) (hapi : s.api = .storage) (hopen : s.closed = false)
    (he : s.finalizeEvs o = some evs) (hfire : flt.call < evs.length) (c : Cid) (d : Bytes) :
    let s' := (s.finalizeF o (some flt)).1
    (s'.step o .finalize).2.1 = .err .closed ∧ (s'.step o .finalize).2.2 = [] ∧ (s'.step o .finalize).1.file = s'.file ∧
    (s'.step o (.put c d)).2.1 = .err .closed ∧ (s'.step o (.put c d)).2.2 = [] := by
  have h : s.finalizeF o (some flt)
      = ({ s.applyEvs (faultyPrefix evs flt) with closed := true }, .err .other, faultyPrefix evs flt) := by
    unfold Store.finalizeF
    simp [hv2, hopen, hapi, he, hfire]
  simp only [h]
  refine ⟨?_, ?_, ?_, ?_, ?_⟩ <;>
    simp [Store.step, Store.applyEvs, hapi, Store.stepStorage, hv2]
/-- (5b) A failed `FinalizeReadOnly` (read-write blockstore, CARv2 mode, fault on any of its writes) returns
    an error and leaves the store finalized but open; from then on **no finalizing call and no write
    reports success**: a second `FinalizeReadOnly` and `Finalize` are refused, `Put` is refused (lookups
    still answer from what is on disk). -/
theorem failed_finalizeRO_then_refused (o : WOpts) (s : Store) (flt : Fault) (evs : List WriteEv)
    (hv2 : o.v1 = false) (hapi : s.api = .blockstore) (hopen : s.finalized = false ∧ s.closed = false)
    (he : s.finalizeEvs o = some evs) (hfire : flt.call < evs.length) (c : Cid) (d : Bytes) :
    let s' := (s.finalizeROF o (some flt)).1
    (s.finalizeROF o (some flt)).2.1 = .err .other ∧ s'.finalized = true ∧ s'.closed = false ∧
    (s'.step o .finalizeRO).2.1 = .err .finalized ∧
    (s'.step o .finalize).2.1 = .err .finalized ∧
    (s'.step o (.put c d)).2.1 = .err .finalized := by
  have h : s.finalizeROF o (some flt)
      = ({ s.applyEvs (faultyPrefix evs flt) with finalized := true }, .err .other, faultyPrefix evs flt) := by
    unfold Store.finalizeROF
    simp [hv2, hopen.1, hopen.2, hapi, he, hfire]
  simp only [h]
  refine ⟨trivial, trivial, ?_, ?_, ?_, ?_⟩
  · simp [Store.applyEvs, hopen.2]
  · simp [Store.step, Store.applyEvs, hapi, Store.stepBlockstore, Store.finalizeRO, hv2, hopen.2]
  · simp [Store.step, Store.applyEvs, hapi, Store.stepBlockstore, Store.finalizeRO, Store.closeInner, hv2, hopen.2]
  · simp [Store.step, Store.applyEvs, hapi, Store.stepBlockstore, hopen.2]

/-- Non-vacuity: a fault on the CID write of a Put into a fresh store meets (1)'s premises. -/
example : let o : WOpts := {}
    let s := (Store.create .storage o none).1
    shouldPut o s.idx ⟨1, 0x55, 0x12, List.replicate 32 1⟩ = .ok true ∧
    (1 : Nat) < (ldWriteEvs (s.base + s.pos) [(⟨1, 0x55, 0x12, List.replicate 32 1⟩ : Cid).bytes, [7]]).length := by
  simp [Store.create, shouldPut, Cid.isIdentity, Cid.byteLen, Cid.bytes, Cid.mhBytes, uvarint_small,
    InsIndex.hasMultihash, ldWriteEvs, chunkEvs]

end Car.C16
