import CarModel.Proofs.Cli
import CarModel.Proofs.Create
import CarModel.Proofs.FactsTie
import CarModel.Proofs.InspectFull
import CarModel.Proofs.Session
import CarModel.Properties.C07
/-
C19 — CLI outputs are valid archives and mean what the library says.

Modelled sub-commands (CarModel/Cli.lean): index (any codec, none, --version 1), index create,
detach-index, concat (both versions), list, get-block, filter (a writing session of the C04/C05
store over the selected blocks), and the two judges `car inspect --full` (C13's Inspect) and
`car verify`. Proved here for every valid input: what `index` and `concat` emit; the rest of the
statement is carried by theorems of other properties, named below, and by the differential run.
-/
namespace Car.C19
open Car Car.Cli

/-- Guard facts: VerifyCar applies the overlap rule only under HasIndex; InspectCar re-walks the
    stream before its end-of-data probe; ConcatCar writes the pragma before the header. -/
theorem cli_facts :
    Facts.verifyOverlapGuard = ["HasIndex"] ∧
    Facts.inspectCarOrder = ["NewReader", "Inspect", "Seek", "NewBlockReader", "SkipNext", "Read"] ∧
    Facts.concatOrder = ["payloadSize", "Open", "NewReader", "DataReader", "NewCarReader", "HeaderSize", "Write", "NewHeader", "WriteTo", "WriteHeader", "Seek", "Copy"] := by
  decide

/-- (1) `car index --codec c` on every valid CARv1 (any roots, any walkable blocks — identity CIDs and
    repeated blocks included) emits pragma ++ header(|payload|) ++ the payload unchanged ++ the index
    of exactly its sections at their offsets. By C01/C02 (`scanBlockReader_v2`) such a layout reads
    back as the same roots and blocks; by C03 (`loadIndex_records_*`) a regenerated index has the
    same records. -/
theorem index_output (maxHeader : Nat) (c : Nat) (roots : Option (List Cid)) (bs : List Block) (ix : Index)
    (hwf : (CarHeader.mk roots 1).wf) (hmax : (encodeHeaderBody ⟨roots, 1⟩).length ≤ maxHeader)
    (h63 : (encodeHeaderBody ⟨roots, 1⟩).length < 2 ^ 63) (hok : Walkable bs)
    (hix : Index.load c (withOffsets (headerSize ⟨roots, 1⟩) bs) = some ix) :
    indexCmd maxHeader 2 (some c) (payload roots bs)
      = .ok (pragma ++ (V2Header.new (payload roots bs).length).bytes ++ payload roots bs ++ ix.bytes) :=
  indexCmd_v1 maxHeader c roots bs ix hwf hmax h63 hok hix

/-- (1b) with `--version 1` (or `--codec none`) the payload is emitted unchanged, for every input
    whose container opens. -/
theorem index_v1_is_payload (maxHeader : Nat) (codec : Option Nat) (src : Bytes) (v : Nat) (p : Bytes) (hd : V2Header)
    (h : openPayload maxHeader src = .ok (v, p, hd)) : indexCmd maxHeader 1 codec src = .ok p := by
  unfold indexCmd; rw [h]; simp

theorem index_none_is_payload (maxHeader : Nat) (src : Bytes) (v : Nat) (p : Bytes) (hd : V2Header)
    (h : openPayload maxHeader src = .ok (v, p, hd)) :
    ∃ hdr : V2Header, hdr.indexOffset = 0 ∧ indexCmd maxHeader 2 none src = .ok (pragma ++ hdr.bytes ++ p) := by
  unfold indexCmd; rw [h]
  exact ⟨{ V2Header.new (if v = 1 then src.length else hd.dataSize) with indexOffset := 0 }, rfl, by simp⟩

/-- (2) `car concat` of valid CARv1 inputs (each with at least one root) yields the concatenation of
    the inputs' block sequences under the first input's roots: exactly `payload r1 (b1 ++ b2 ++ …)`. -/
theorem concat_output (maxHeader : Nat) (r1 : Option (List Cid)) (b1 : List Block)
    (rest : List (Option (List Cid) × List Block))
    (h1 : ConcatIn maxHeader r1) (hrest : ∀ x ∈ rest, ConcatIn maxHeader x.1) :
    concatCmd maxHeader 1 (payload r1 b1 :: rest.map fun x => payload x.1 x.2)
      = .ok (payload r1 (b1 ++ rest.flatMap (·.2))) :=
  concat_v1 maxHeader r1 b1 rest h1 hrest

/-- `car list`: on every valid CARv1, and on every CARv2 laid out around it (any paddings, with or without an
    index), the listing is exactly the CIDs of the sections, in order, repeats included. -/
theorem list_output (H : HashFn) (dp ip : Nat) (roots : Option (List Cid)) (bs : List Block) (hasIdx fi : Bool)
    (index : Bytes) (ok : PayloadOK H {} roots bs) (lok : LayoutOK dp ip (payload roots bs).length) :
    listCmd H (payload roots bs) = .ok (bs.map (·.cid)) ∧
    listCmd H (layoutV2 dp ip (payload roots bs) hasIdx fi index) = .ok (bs.map (·.cid)) := by
  constructor
  · simp [listCmd, scanBlockReader_v1 H {} true roots bs ok]
  · simp [listCmd, scanBlockReader_v2 H {} true dp ip roots bs hasIdx fi index ok (by decide) lok]

/-- `car get-block` on a CARv1 without identity blocks, for a non-identity CID: the bytes of a section that
    carries the CID's multihash, or an error exactly when no section does — C07 end to end behind the command. -/
theorem get_block_output (roots : Option (List Cid)) (log : List Block) (c : Cid) (r : ReadOnly)
    (hopen : openReadOnly .blockstore {} .auto (payload roots log) = .ok r)
    (hwf : (CarHeader.mk roots 1).wf) (hmax : (encodeHeaderBody ⟨roots, 1⟩).length ≤ ({} : WOpts).maxHeader)
    (h63 : (encodeHeaderBody ⟨roots, 1⟩).length < 2 ^ 63) (hok : ∀ b ∈ log, b.idxOk (roIdxOpts {}))
    (hsz : (payload roots log).length < 2 ^ 63)
    (hnoid : ∀ b ∈ log, b.cid.isIdentity = false) (hlog : ∀ b ∈ log, b.getOk {}) (hc : c.isIdentity = false) :
    (∃ b ∈ log, Spec.sameKey {} b.cid c = true ∧ getBlockCmd (payload roots log) c = .ok b.data) ∨
    ((∀ b ∈ log, Spec.sameKey {} b.cid c = false) ∧ getBlockCmd (payload roots log) c = .error .notFound) := by
  have hkept : ∀ b ∈ log, (({} : WOpts).storeIdentity || !b.cid.isIdentity) = true := by
    intro b hb; simp [hnoid b hb]
  have hid : identityShortcut {} c = false := by simp [identityShortcut, hc]
  rcases (C07.opened_v1_has_get {} roots log r hopen hwf hmax h63 hok hsz hkept hlog c hid).2 with ⟨b, hb, hk, hg⟩ | ⟨hn, hg⟩
  · exact Or.inl ⟨b, hb, hk, by simp [getBlockCmd, hopen, hg]⟩
  · exact Or.inr ⟨hn, by simp [getBlockCmd, hopen, hg]⟩
/-- (3) `car detach-index` emits exactly the bytes from the index offset on. -/
theorem detach_output (maxHeader : Nat) (src p : Bytes) (hd : V2Header)
    (h : openPayload maxHeader src = .ok (2, p, hd)) (hi : hd.indexOffset ≠ 0) :
    detachCmd maxHeader src = .ok (src.drop hd.indexOffset) := by
  unfold detachCmd; rw [h]; simp [hi]

/-- (4) **`car verify` accepts what `car index` emits** whenever the roots are among the blocks: for
    every valid payload (blocks hash to their CIDs), either codec, the layout of (1) passes every rule
    of `VerifyCar` — header consistency, the hash-verifying scan, roots present, and an index lookup
    that must succeed for every non-identity block. Composition of C01/C02 (the layout reads back as
    the blocks), C11 (`Load` is well formed, so the index reads back; lookups after `Load` are exact). -/
theorem verify_accepts_index_output (H : HashFn) (o : ReadOpts) (codec : Nat) (roots : List Cid) (bs : List Block) (ix : Index)
    (hne : roots.isEmpty = false) (hin : (roots.all fun r => bs.any fun b => b.cid == r) = true)
    (ok : PayloadOK H o (some roots) bs) (h10 : 10 ≤ o.maxHeader)
    (lok : LayoutOK 0 0 (payload (some roots) bs).length)
    (hix : Index.load codec (withOffsets (headerSize ⟨some roots, 1⟩) bs) = some ix)
    (hrec : RecordsOK (withOffsets (headerSize ⟨some roots, 1⟩) bs)) :
    verifyCar H o (layoutV2 0 0 (payload (some roots) bs) true false ix.bytes) = .ok () :=
  verify_accepts_indexed H o codec roots bs ix hne hin ok h10 lok hix hrec

/-- (4') the same for every padded layout and either characteristics flag, with any record list that
    covers the blocks (what `filter`, `get-dag --version 2` and `create` leave: C05 layouts). -/
theorem verify_accepts_padded_output (H : HashFn) (o : ReadOpts) (dp ip : Nat) (fi : Bool) (codec : Nat) (roots : List Cid)
    (bs : List Block) (rs : List Record) (ix : Index)
    (hne : roots.isEmpty = false) (hin : (roots.all fun r => bs.any fun b => b.cid == r) = true)
    (ok : PayloadOK H o (some roots) bs) (h10 : 10 ≤ o.maxHeader)
    (lok : LayoutOK dp ip (payload (some roots) bs).length)
    (hix : Index.load codec rs = some ix) (hrec : RecordsOK rs)
    (hmem : ∀ b ∈ bs, ∃ off, (⟨b.cid, off⟩ : Record) ∈ rs) :
    verifyCar H o (layoutV2 dp ip (payload (some roots) bs) true fi ix.bytes) = .ok () :=
  verify_accepts_layout H o dp ip fi codec roots bs rs ix hne hin ok h10 lok hix hrec hmem

/-- (5) **`car inspect --full` accepts what `car index` emits**, for every valid payload and either
    codec, and reports the payload's own statistics plus the codec: the layout of (1) is a laid-out
    CARv2 (C13 `inspect_valid_v2`), and a serialized index starts with its codec varint. -/
theorem inspect_accepts_index_output (H : HashFn) (hU : H.Uniform) (o : ReadOpts) (roots : Option (List Cid))
    (bs : List Block) (ix : Index)
    (hwf : (CarHeader.mk roots 1).wf) (hmax : (encodeHeaderBody ⟨roots, 1⟩).length ≤ o.maxHeader)
    (h63 : (encodeHeaderBody ⟨roots, 1⟩).length < 2 ^ 63) (h10 : 10 ≤ o.maxHeader)
    (lok : LayoutOK 0 0 (payload roots bs).length)
    (hok : ∀ b ∈ bs, b.wf o.maxSection ∧ b.cid.digest.length ≤ maxDigestAlloc ∧
      (sumOk H b.cid b.data = true ∧ verifies H b.cid b.data = true)) :
    inspect H o true (layoutV2 0 0 (payload roots bs) true false ix.bytes)
      = .ok (statsOf 2 (finalHeader 0 0 (payload roots bs).length true false) (roots.getD [])
              (bs.map seenOf) ix.codec) := by
  have := inspect_layoutV2 H hU o true 0 0 roots bs true false ix.bytes ix.codec hwf hmax h63 h10 lok
    (fun b hb => ⟨(hok b hb).1, (hok b hb).2.1, fun _ => (hok b hb).2.2⟩) (fun _ => index_bytes_codec ix)
  simpa using this

/-- (5b) … and what `car concat` (and every sub-command whose output is a valid CARv1 payload:
    `index --version 1`, `filter`/`get-dag`/`create` in CARv1 mode) emits: inspection of
    `payload r (b1 ++ b2 ++ …)` succeeds with the concatenation's statistics. -/
theorem inspect_accepts_concat_output (H : HashFn) (hU : H.Uniform) (o : ReadOpts) (r1 : Option (List Cid))
    (b1 : List Block) (rest : List (Option (List Cid) × List Block))
    (hwf : (CarHeader.mk r1 1).wf) (hmax : (encodeHeaderBody ⟨r1, 1⟩).length ≤ o.maxHeader)
    (h63 : (encodeHeaderBody ⟨r1, 1⟩).length < 2 ^ 63)
    (hok : ∀ b ∈ b1 ++ rest.flatMap (·.2), b.wf o.maxSection ∧ b.cid.digest.length ≤ maxDigestAlloc ∧
      (sumOk H b.cid b.data = true ∧ verifies H b.cid b.data = true)) :
    inspect H o true (payload r1 (b1 ++ rest.flatMap (·.2)))
      = .ok (statsOf 1 {} (r1.getD []) ((b1 ++ rest.flatMap (·.2)).map seenOf) 0) :=
  inspect_layoutV1 H hU o true r1 _ hwf hmax h63
    (fun b hb => ⟨(hok b hb).1, (hok b hb).2.1, fun _ => (hok b hb).2.2⟩)

/-- (6) **`car filter --version 2`, `car get-dag --version 2` and `car create` are writing sessions**: each
    opens a fresh read-write blockstore under its output roots, puts the selected (filter: in source
    order, `sel` = the source's blocks that pass the CID list or its inverse; get-dag / create: the
    blocks the traversal / the builder loads, in load order) blocks one by one, and finalizes. For every
    such block list the output is the layout of exactly the blocks the reference log keeps of it —
    "filter keeps exactly the selected blocks in source order", once per key — with the flattened
    index; by (4') `car verify` accepts it when the roots are among them, by C05 inspection does. -/
theorem filter_getdag_create_output (roots : List Cid) (sel : List Block) (ix : Index)
    (hix : ((Store.create .blockstore {} (some roots)).1.puts {} sel).idx.flatten codecMhSorted = some ix)
    (h64 : 51 + ((Store.create .blockstore {} (some roots)).1.puts {} sel).pos < 2 ^ 64) :
    (((Store.create .blockstore {} (some roots)).1.puts {} sel).step {} .finalize).2.1 = .ok ∧
    (((Store.create .blockstore {} (some roots)).1.puts {} sel).step {} .finalize).1.file
      = layoutV2 0 0 (payload (some roots) (Spec.puts {} { api := .blockstore, roots := roots } sel).log)
          true false ix.bytes := by
  have := session_file {} (some roots) sel ix rfl hix (by simpa using h64)
  simpa using this

/-- Non-vacuity: a one-block list is walkable. -/
example : Walkable [⟨⟨1, 0x55, 0, [1, 2]⟩, [1, 2]⟩] := by
  intro b hb
  simp only [List.mem_cons, List.not_mem_nil, or_false] at hb
  subst hb
  simp [Cid.wf, maxDigestAlloc, Cid.byteLen, Cid.bytes, Cid.mhBytes, uvarint_small]

end Car.C19
