import CarModel.IndexGen
import CarModel.Layout
/-
`v2/writer.go`: WrapV1, ExtractV1File, ReplaceRootsInFile, as functions on file contents.
-/
namespace Car

/-- `WrapV1(src, dst)`: LoadIndex over the seekable source, then pragma, header for `len(src)`,
    the source bytes verbatim, the index. -/
def wrapV1 (o : IdxOpts) (codec : Nat) (src : Bytes) : Except Err Bytes :=
  match generateIndex .seekable o codec src with
  | .error e => .error e
  | .ok ix => .ok (pragma ++ (V2Header.new src.length).bytes ++ src ++ ix.bytes)

/-- Copy `n` bytes from `src` starting at `srcOff` to the start of `dst` in chunks (`io.CopyN`):
    each chunk is read completely, then written. `src` and `dst` may be the same file (in place):
    `file` is the shared content, reads see earlier writes. Returns the file after the copy. -/
def copyInPlace (file : Bytes) (srcOff : Nat) : (chunks : List Nat) → (done : Nat) → Bytes
  | [], _ => file
  | c :: cs, done =>
    let buf := (file.drop (srcOff + done)).take c
    copyInPlace (writeAt file done buf) srcOff cs (done + buf.length)

/-- `ExtractV1File(src, dst)`; `dst` = previous content of the destination (`none` = absent),
    `samePath` = source and destination are the same file. Result: destination content. -/
def extractV1 (maxHeader : Nat) (src : Bytes) (dst : Option Bytes) (samePath : Bool) (chunk : Nat) : Except Err Bytes :=
  match readHeader maxHeader src with
  | .error e => .error e
  | .ok (h, rest) =>
    if h.version = 1 then .error .other          -- ErrAlreadyV1
    else if h.version ≠ 2 then .error .badVersion
    else match readV2Header rest with
      | .error e => .error e
      | .ok (v2h, _) =>
        let avail := (src.drop v2h.dataOffset).take v2h.dataSize
        if avail.length < v2h.dataSize then .error .eof     -- CopyN ran out of source
        else if samePath then
          -- in place: chunked copy inside one file, then truncate to dataSize
          let nchunks := v2h.dataSize / (chunk + 1) + 1
          let copied := copyInPlace src v2h.dataOffset (List.replicate nchunks (chunk + 1)) 0
          .ok (copied.take v2h.dataSize)
        else
          -- written over the start of the old content (if any); truncated if that was longer
          .ok (match dst with | some _ => avail | none => avail)

/-- `ReplaceRootsInFile(path, roots)`: `(result, file afterwards)`. -/
def replaceRoots (maxHeader : Nat) (file : Bytes) (newRoots : Option (List Cid)) : Except Err Unit × Bytes :=
  match readHeader maxHeader file with
  | .error e => (.error e, file)
  | .ok (h, rest) =>
    let newHdr := encodeHeader ⟨newRoots, 1⟩
    if h.version = 1 then
      let cur := file.length - rest.length
      if cur ≠ newHdr.length then (.error .other, file)
      else (.ok (), writeAt file 0 newHdr)
    else if h.version = 2 then
      match readV2Header rest with
      | .error e => (.error e, file)
      | .ok (v2h, _) =>
        match readHeader maxHeader (file.drop v2h.dataOffset) with
        | .error e => (.error e, file)
        | .ok (_, rest1) =>
          let cur := (file.drop v2h.dataOffset).length - rest1.length
          if cur ≠ newHdr.length then (.error .other, file)
          else (.ok (), writeAt file v2h.dataOffset newHdr)
    else (.error .badVersion, file)

end Car
