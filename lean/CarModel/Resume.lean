import CarModel.Store
/-
`v2/internal/store/resume.go` (`ResumableVersion`, `Resume`) as called by
`blockstore.OpenReadWriteFile` (non-empty file) and `storage.OpenReadableWritable`.
-/
namespace Car

/-- `CarHeader.Matches`: same version, same roots as a multiset (any order).
    (repaired: fixed C12/D10; the original checked one-sided containment only). -/
def rootsMatch (a b : List Cid) : Bool :=
  a.length == b.length && a.all fun r => a.count r == b.count r

/-- The section scan of `Resume`: (records, payload-relative end offset).
    `pl` = payload window as `dataReader` sees it (everything from `base` on).
    A section whose data runs past the end of the file is refused (repaired: fixed C06/D4). -/
def resumeLoop (zeroEOF : Bool) (pl : Bytes) : (fuel pos : Nat) → InsIndex → Except Err (InsIndex × Nat)
  | 0, pos, ix => .ok (ix, pos)
  | fuel + 1, pos, ix =>
    match readUvarint (pl.drop pos) with
    | .error .eof => .ok (ix, pos)
    | .error e => .error (verr e)
    | .ok (len, r1) =>
      if len = 0 then (if zeroEOF then .ok (ix, pos) else .error .zeroSection) else
      match cidFromReader r1 with
      | .error .eof => .error .eof
      | .error .invalid => .error .badCid
      | .ok (n, c, r2) =>
        let afterCid := pl.length - r2.length
        let next : Int := (afterCid : Int) + ((len : Int) - (n : Int))
        if next < 0 then .error .other
        else if len > n ∧ next.toNat > pl.length then .error .unexpectedEOF
        else resumeLoop zeroEOF pl fuel next.toNat (ix.insert ⟨c, pos⟩)

/-- `ResumableVersion` + `Resume`: the mutations issued (truncate, header un-finalise) and the
    resumed store or the error. Every refusal on version, padding or roots returns **no** mutation. -/
def resumeCore (api : Api) (o : WOpts) (roots : Option (List Cid)) (file : Bytes) :
    List WriteEv × Except Err Store :=
  -- ResumableVersion: ReadVersion with default limits
  match readHeader (32 * 2 ^ 20) file with
  | .error e => ([], .error e)
  | .ok (pragmaOrV1, _) =>
    if ¬ ((pragmaOrV1.version = 1 ∧ o.v1) ∨ (pragmaOrV1.version = 2 ∧ ¬ o.v1)) then ([], .error .badVersion) else
    -- header in file (CARv2 only); on any read/range error it stays zero
    let hif : V2Header :=
      if o.v1 then {} else
      match readV2Header (file.drop 11) with
      | .ok (h, _) => h
      | .error _ => {}
    if ¬ o.v1 ∧ hif.dataOffset ≠ 0 ∧ hif.dataOffset ≠ o.base then ([], .error .other)   -- padding mismatch
    -- a finalised header always carries an index offset past the payload (repaired: fixed C06/D6)
    else if ¬ o.v1 ∧ hif.dataOffset ≠ 0 ∧ hif.indexOffset < hif.dataOffset + hif.dataSize then ([], .error .badHeader)
    else
    match readHeader o.maxHeader (file.drop o.base) with
    | .error e => ([], .error e)
    | .ok (h, _) =>
      if h.version ≠ 1 ∨ ! rootsMatch h.rootList (roots.getD []) then ([], .error .other) else
      let evs1 : List WriteEv := if hif.dataOffset ≠ 0 then [.truncate (hif.dataOffset + hif.dataSize)] else []
      let evs2 : List WriteEv := if o.v1 then [] else headerEvs {}   -- new(carv2.Header).WriteTo at 11
      let file' := applyWrites file (evs1 ++ evs2)
      let pl' := file'.drop o.base
      match resumeLoop o.zeroEOF pl' (pl'.length + 1) (headerSize h) [] with
      | .error e => (evs1 ++ evs2, .error e)
      | .ok (ix, pos) =>
        (evs1 ++ evs2, .ok { api := api, file := file', base := o.base, pos := pos, idx := ix, roots := roots })

structure ResumeResult where
  /-- the file after the attempt -/
  file : Bytes
  evs : List WriteEv
  res : Except Err Store

def resume (api : Api) (o : WOpts) (roots : Option (List Cid)) (file : Bytes) : ResumeResult :=
  let r := resumeCore api o roots file
  ⟨applyWrites file r.1, r.1, r.2⟩

end Car
