import CarModel.Store
import CarModel.Reader
/-
`blockstore.ReadOnly` (NewReadOnly/OpenReadOnly) and `storage.OpenReadable`: random access through
an index (embedded, generated or supplied) into the payload window, confirmed at each candidate
offset by `store.FindCid`; key listing by a linear walk.
-/
namespace Car

/-- any index a read-only store may hold -/
inductive AnyIndex
  | disk (ix : Index)
  | ins (ix : InsIndex)
  deriving Repr

def AnyIndex.getAll : AnyIndex → Cid → List Nat
  | .disk ix, c => ix.getAll c
  | .ins ix, c => ix.getAll c

structure ReadOnly where
  api : Api
  /-- the CARv1 payload window (`backing` / `reader`) -/
  payload : Bytes
  idx : AnyIndex
  roots : List Cid
  deriving Repr

/-- how the store got its index -/
inductive IdxSource
  | auto                        -- embedded index if the CARv2 has one, else generated
  | supplied (ix : Index)       -- caller-supplied (blockstore.NewReadOnly only)
  deriving Repr

/-- `NewReadOnly(backing, idx, opts…)` / `OpenReadable(reader, opts…)`. -/
def openReadOnly (api : Api) (o : WOpts) (src : IdxSource) (file : Bytes) : Except Err ReadOnly :=
  let io : IdxOpts := { zeroEOF := o.zeroEOF, storeIdentity := o.storeIdentity,
                        maxIndexCidSize := o.maxIndexCidSize, maxHeader := o.maxHeader }
  let gen (payload : Bytes) : Except Err AnyIndex :=
    match loadIndexRecords .seekable io payload with
    | .error e => .error e
    | .ok rs =>
      match api with
      | .storage => .ok (.ins (InsIndex.load [] rs))
      | .blockstore => match Index.load o.codec rs with
        | some ix => .ok (.disk ix)
        | none => .error .other
  match readHeader o.maxHeader file with
  | .error e => .error e
  | .ok (h0, _) =>
    if h0.version = 1 then
      match readHeader o.maxHeader file with
      | .error e => .error e
      | .ok (h1, _) =>
        let ix : Except Err AnyIndex := match src with
          | .supplied ix => .ok (.disk ix)
          | .auto => gen file
        ix.map fun i => { api := api, payload := file, idx := i, roots := h1.rootList }
    else if h0.version = 2 then
      match readV2Header ((file.drop 11).take 40) with
      | .error e => .error e
      | .ok (hdr, _) =>
        let payload := (file.drop hdr.dataOffset).take hdr.dataSize
        match readHeader o.maxHeader payload with
        | .error e => .error e
        | .ok (h1, _) =>
          let ix : Except Err AnyIndex := match src with
            | .supplied ix => .ok (.disk ix)
            | .auto =>
              if hdr.hasIndex then
                match Index.read (file.drop hdr.indexOffset) with
                | .ok (ix, _) => .ok (.disk ix)
                | .error _ => .error .other
              else gen payload
          ix.map fun i => { api := api, payload := payload, idx := i, roots := h1.rootList }
    else .error .badVersion

def ReadOnly.findCid (o : WOpts) (r : ReadOnly) (key : Cid) (readBytes : Bool) :=
  findCidAux o r.payload key readBytes (r.idx.getAll key)

/-- Has / Get / GetSize / keys / roots on the read-only store. -/
def ReadOnly.step (o : WOpts) (r : ReadOnly) : Op → Out
  | .has c =>
    if identityShortcut o c then .bool true
    else match r.findCid o c false with
      | .error e => .err e
      | .ok none => .bool false
      | .ok (some _) => .bool true
  | .get c =>
    if identityShortcut o c then .data c.digest
    else match r.api with
      | .blockstore => match r.findCid o c true with
        | .error e => .err e
        | .ok none => .err .notFound
        | .ok (some (d, _, _)) => .data d
      | .storage => match r.findCid o c false with
        | .error e => .err e
        | .ok none => .err .notFound
        | .ok (some (_, n, off)) => .data ((r.payload.drop off).take n)
  | .getSize c =>
    if c.isIdentity then .size c.digest.length      -- known finding: ignores StoreIdentityCIDs
    else match r.findCid o c false with
      | .error e => .err e
      | .ok none => .err .notFound
      | .ok (some (_, n, _)) => .size n
  | .roots => .cids r.roots
  | _ => .err .other

/-- `ReadOnly.AllKeysChan`: linear walk over the payload from the end of the header: the CID sequence
    (mapped to raw-codec CIDv1 keys unless whole CIDs are requested); errors end the listing silently. -/
def allKeysWalk (o : WOpts) : (fuel : Nat) → Bytes → List Cid
  | 0, _ => []
  | fuel + 1, w =>
    match readUvarint w with
    | .error _ => []
    | .ok (len, r1) =>
      if len = 0 then []
      else match cidFromReader r1 with
        | .error _ => []
        | .ok (_, c, _) =>
          (if o.wholeCids then c else c.toRawV1) :: allKeysWalk o fuel (r1.drop len)

def ReadOnly.allKeys (o : WOpts) (r : ReadOnly) : Except Err (List Cid) :=
  match readHeader o.maxHeader r.payload with
  | .error e => .error e
  | .ok (_, rest) => .ok (allKeysWalk o (rest.length + 1) rest)

end Car
