import CarModel.V2
/-
The intended CARv2 file layout (specification side): pragma, header, data padding, payload,
index padding, index bytes. Short enough to read in a minute.
-/
namespace Car

/-- The header a finalised file carries for a payload of `n` bytes. -/
def finalHeader (dataPad indexPad n : Nat) (hasIndex fullyIndexed : Bool) : V2Header :=
  { charHi := if fullyIndexed then 2 ^ 7 else 0, charLo := 0,
    dataOffset := 51 + dataPad, dataSize := n,
    indexOffset := if hasIndex then 51 + dataPad + n + indexPad else 0 }

/-- A complete CARv2 file. `index = []` with `hasIndex = false` is an index-less CARv2. -/
def layoutV2 (dataPad indexPad : Nat) (payload : Bytes) (hasIndex fullyIndexed : Bool) (index : Bytes) : Bytes :=
  pragma ++ (finalHeader dataPad indexPad payload.length hasIndex fullyIndexed).bytes
    ++ zeros dataPad ++ payload ++ (if hasIndex then zeros indexPad ++ index else [])

end Car
