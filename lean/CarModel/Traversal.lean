import CarModel.IndexGen
import CarModel.Layout
/-
Traversal writers (v2/selective.go + internal/loader, root selectivecar.go / car.go WriteCar).
The traversal engine (go-ipld-prime selectors, go-merkledag Walk) is a **parameter**: it shows up
only as the sequence of block loads it performs, `loads : List Cid` (with repetitions), against a
store `get : Cid → Bytes`. What go-car adds is modelled: the counting pass, the teeing pass with its
first-visit de-duplication, offsets, sizes, callbacks, Prepare/Dump.
-/
namespace Car

/-- first-visit order without repetitions (`cid.Set` / `rcrds` map membership test) -/
def dedupFirst : List Cid → List Cid
  | [] => []
  | c :: cs => c :: (dedupFirst cs).filter (· != c)

/-- the blocks a traversal writer emits for a load sequence -/
def emitted (get : Cid → Bytes) (loads : List Cid) : List Block :=
  (dedupFirst loads).map fun c => ⟨c, get c⟩

/-- `TeeingLinkSystem` output: the CARv1 the teeing pass writes (header, then one section per first visit) -/
def teeOutput (roots : List Cid) (get : Cid → Bytes) (loads : List Cid) : Bytes :=
  payload (some roots) (emitted get loads)

/-- `CountingLinkSystem` total + header size. The counting pass de-duplicates exactly as the
    teeing pass does (repaired: fixed C15/D12; it used to count every load). -/
def countedSize (roots : List Cid) (get : Cid → Bytes) (loads : List Cid) : Nat :=
  headerSize ⟨some roots, 1⟩ + ((emitted get loads).map sectionSize).sum

/-- what the old counting pass announced (every load counted) — kept to state the repaired defect -/
def countedSizeNoDedup (roots : List Cid) (get : Cid → Bytes) (loads : List Cid) : Nat :=
  headerSize ⟨some roots, 1⟩ + ((loads.map fun c => (⟨c, get c⟩ : Block)).map sectionSize).sum

/-- per-block callbacks of the root-module SelectiveCar: (cid, offset, size) in emission order -/
def callbacks (roots : List Cid) (get : Cid → Bytes) (loads : List Cid) : List (Cid × Nat × Nat) :=
  let bs := emitted get loads
  (withOffsets (headerSize ⟨some roots, 1⟩) bs).zip (bs.map sectionSize) |>.map fun p => (p.1.cid, p.1.offset, p.2)

/-- `SelectiveCarPrepared.Dump`: header, then every prepared CID fetched again and written -/
def dumpOutput (roots : List Cid) (get : Cid → Bytes) (cids : List Cid) : Bytes :=
  payload (some roots) (cids.map fun c => ⟨c, get c⟩)

/-- `traversalCar.WriteTo`: the CARv2 around the teeing output (index bytes as a parameter) -/
def selectiveV2 (dataPad indexPad : Nat) (roots : List Cid) (get : Cid → Bytes) (loads : List Cid)
    (withIndex : Bool) (index : Bytes) : Bytes :=
  layoutV2 dataPad indexPad (teeOutput roots get loads) withIndex false index

end Car
