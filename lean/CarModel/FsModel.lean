import CarModel.Bytes
/-
A model of the part of a POSIX file system that `car extract` talks to: a name space of
directories, regular files and symbolic links, kernel path resolution with symlink following,
and the five calls the extractor makes (`stat`/`lstat`, `mkdir`, `open(O_CREAT|O_TRUNC)`,
`symlink`) plus Go's `filepath.EvalSymlinks` and `os.MkdirAll`, which are user-land loops over them.

Not modelled (trusted base, DESIGN.md): hard links, mount points, permissions, name-length limits,
NUL bytes in names, concurrent modification of the tree by another process.
-/
namespace Car.FS
open Car

abbrev Seg := Bytes
/-- An absolute path: the names from the file-system root down. -/
abbrev P := List Seg

inductive Node where
  | file (d : Bytes)
  | dir
  | link (t : Bytes)
  deriving DecidableEq, Repr, Inhabited

/-- The name space: first match wins; the root `[]` always is a directory. -/
abbrev Fs := List (P × Node)

def lookup (fs : Fs) (p : P) : Option Node :=
  if p = [] then some .dir else (fs.find? (fun e => e.1 = p)).map (·.2)

def set (fs : Fs) (p : P) (n : Node) : Fs := (p, n) :: fs

inductive Errno where
  | enoent | enotdir | eexist | eisdir | eloop | redirect | engine
  deriving DecidableEq, Repr, Inhabited

def dot : Seg := [0x2E]
def dotdot : Seg := [0x2E, 0x2E]
def slash : UInt8 := 0x2F

/-- split at '/', dropping empty components ("a//b/" = "a/b"). -/
def splitAux : Bytes → Seg → List Seg
  | [], acc => if acc = [] then [] else [acc.reverse]
  | b :: bs, acc =>
    if b = slash then (if acc = [] then splitAux bs [] else acc.reverse :: splitAux bs [])
    else splitAux bs (b :: acc)

def splitSegs (s : Bytes) : List Seg := splitAux s []

def isAbs (s : Bytes) : Bool := s.head? = some slash

/-- Result of a path walk: the object exists at canonical path `p`, or everything but the last
    component exists (`parent` canonical, a directory) and `name` is missing in it. -/
inductive Res where
  | found (p : P)
  | missingLast (parent : P) (name : Seg)
  deriving DecidableEq, Repr

/-- Kernel path resolution from directory `cur` over the remaining components. `follow` says whether
    a symlink in the final position is followed (`stat`/`open`) or not (`lstat`/`mkdir`/`symlink`).
    `fuel` bounds the number of symlinks followed (ELOOP). -/
def walk (fs : Fs) (follow : Bool) (fuel : Nat) (cur : P) (rest : List Seg) : Except Errno Res :=
  match rest with
  | [] => .ok (.found cur)
  | s :: rest =>
    if s = [] ∨ s = dot then walk fs follow fuel cur rest
    else if s = dotdot then walk fs follow fuel cur.dropLast rest
    else match lookup fs (cur ++ [s]) with
      | none => if rest = [] then .ok (.missingLast cur s) else .error .enoent
      | some .dir => walk fs follow fuel (cur ++ [s]) rest
      | some (.file _) => if rest = [] then .ok (.found (cur ++ [s])) else .error .enotdir
      | some (.link t) =>
        if rest = [] ∧ follow = false then .ok (.found (cur ++ [s]))
        else if t = [] then .error .enoent
        else match fuel with
          | 0 => .error .eloop
          | fuel + 1 => walk fs follow fuel (if isAbs t then [] else cur) (splitSegs t ++ rest)
termination_by (fuel, rest.length)
decreasing_by
  all_goals simp_wf
  · exact Prod.Lex.right _ (by simp)
  · exact Prod.Lex.right _ (by simp)
  · exact Prod.Lex.right _ (by simp)
  · exact Prod.Lex.left _ _ (by omega)

def kernelLoops : Nat := 40
def goLoops : Nat := 255

/-- `os.Stat`: the node a path names, following every symlink. -/
def stat (fs : Fs) (p : P) : Except Errno Node :=
  match walk fs true kernelLoops [] p with
  | .error e => .error e
  | .ok (.missingLast _ _) => .error .enoent
  | .ok (.found q) => match lookup fs q with
    | some n => .ok n
    | none => .error .enoent

/-- `os.Lstat`. -/
def lstat (fs : Fs) (p : P) : Except Errno Node :=
  match walk fs false kernelLoops [] p with
  | .error e => .error e
  | .ok (.missingLast _ _) => .error .enoent
  | .ok (.found q) => match lookup fs q with
    | some n => .ok n
    | none => .error .enoent

/-- `filepath.EvalSymlinks` on an absolute path: the canonical path of an existing object. -/
def evalSymlinks (fs : Fs) (p : P) : Except Errno P :=
  match walk fs true goLoops [] p with
  | .error e => .error e
  | .ok (.missingLast _ _) => .error .enoent
  | .ok (.found q) => .ok q

/-- `mkdir(2)`: never follows a symlink in the final position. -/
def mkdir (fs : Fs) (p : P) : Fs × Except Errno Unit :=
  match walk fs false kernelLoops [] p with
  | .error e => (fs, .error e)
  | .ok (.found _) => (fs, .error .eexist)
  | .ok (.missingLast par name) => (set fs (par ++ [name]) .dir, .ok ())

/-- `symlink(2)`. -/
def symlink (fs : Fs) (target : Bytes) (p : P) : Fs × Except Errno Unit :=
  if target = [] then (fs, .error .enoent) else
  match walk fs false kernelLoops [] p with
  | .error e => (fs, .error e)
  | .ok (.found _) => (fs, .error .eexist)
  | .ok (.missingLast par name) => (set fs (par ++ [name]) (.link target), .ok ())

/-- `os.Create` = `open(O_RDWR|O_CREAT|O_TRUNC)` followed by writing `d`: follows symlinks in the
    final position, creating the file a dangling link points at. -/
def create (fs : Fs) (p : P) (d : Bytes) : Fs × Except Errno Unit :=
  match walk fs true kernelLoops [] p with
  | .error e => (fs, .error e)
  | .ok (.missingLast par name) => (set fs (par ++ [name]) (.file d), .ok ())
  | .ok (.found q) => match lookup fs q with
    | some (.file _) => (set fs q (.file d), .ok ())
    | some .dir => (fs, .error .eisdir)
    | _ => (fs, .error .enoent)

/-- the tail of `os.MkdirAll`: `Mkdir`, tolerating a directory that is already there -/
def mkdirThen (fs1 : Fs) (p : P) : Fs × Except Errno Unit :=
  match mkdir fs1 p with
  | (fs2, .ok ()) => (fs2, .ok ())
  | (fs2, .error e) =>
    match lstat fs2 p with
    | .ok .dir => (fs2, .ok ())
    | _ => (fs2, .error e)

/-- `os.MkdirAll` (Go 1.23): stat fast path, parents first, then `Mkdir`. The first argument is
    the recursion budget (`p.length` suffices). -/
def mkdirAllAux (fs : Fs) : Nat → P → Fs × Except Errno Unit
  | 0, p =>
    match stat fs p with
    | .ok .dir => (fs, .ok ())
    | .ok _ => (fs, .error .enotdir)
    | .error _ => mkdirThen fs p
  | n + 1, p =>
    match stat fs p with
    | .ok .dir => (fs, .ok ())
    | .ok _ => (fs, .error .enotdir)
    | .error _ =>
      if p.length ≥ 2 then
        match mkdirAllAux fs n p.dropLast with
        | (fs1, .error e) => (fs1, .error e)
        | (fs1, .ok ()) => mkdirThen fs1 p
      else mkdirThen fs p

def mkdirAll (fs : Fs) (p : P) : Fs × Except Errno Unit := mkdirAllAux fs p.length p

end Car.FS
