/-
Bytes: the byte-string vocabulary of the model. Core Lean only.
-/
namespace Car

abbrev Bytes := List UInt8

/-- `n` zero bytes (padding, un-finalised header). -/
def zeros (n : Nat) : Bytes := List.replicate n 0

/-- little-endian encoding of `n` on `k` bytes (`binary.LittleEndian.PutUint64` for k = 8). -/
def leN : (k : Nat) → Nat → Bytes
  | 0, _ => []
  | k + 1, n => UInt8.ofNat (n % 256) :: leN k (n / 256)

/-- little-endian decoding (`binary.LittleEndian.Uint64`). -/
def leVal : Bytes → Nat
  | [] => 0
  | b :: bs => b.toNat + 256 * leVal bs

def le64 (n : Nat) : Bytes := leN 8 n
def le32 (n : Nat) : Bytes := leN 4 n

/-- lexicographic comparison, as `bytes.Compare a b < 0`. -/
def bytesLt : Bytes → Bytes → Bool
  | [], [] => false
  | [], _ :: _ => true
  | _ :: _, [] => false
  | a :: as, b :: bs => if a.toNat < b.toNat then true else if b.toNat < a.toNat then false else bytesLt as bs

/-- `bytes.Compare a b <= 0`. -/
def bytesLe (a b : Bytes) : Bool := !bytesLt b a

/-- overwrite `data` into `file` at offset `off`, zero-filling a hole (pwrite semantics). -/
def writeAt (file : Bytes) (off : Nat) (data : Bytes) : Bytes :=
  if data = [] then file else   -- a zero-length pwrite changes nothing, not even the size
  let base := if file.length < off then file ++ zeros (off - file.length) else file
  base.take off ++ data ++ base.drop (off + data.length)

/-- `ftruncate`. -/
def truncate (file : Bytes) (n : Nat) : Bytes :=
  if file.length < n then file ++ zeros (n - file.length) else file.take n

end Car
