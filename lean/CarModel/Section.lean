import CarModel.Header
/-
Length-delimited sections (`util.LdWrite/LdSize/LdReadSize/LdRead/ReadNode`, v2 module),
the CARv1 payload, and the verifying front-to-back scan that every streaming reader performs.
Streams are modelled by the list of bytes that remain.
-/
namespace Car

/-- Error classes (messages are not modelled). `eof` is the clean end-of-archive signal. -/
inductive Err
  | eof | unexpectedEOF | tooLarge | headerTooLarge | badVarint | badCid | hashMismatch
  | badHeader | badVersion | noRoots | zeroSection | cidTooLarge | notFound | closed | finalized | nonCanonical | other
  deriving DecidableEq, Repr, Inhabited

structure Block where
  cid : Cid
  data : Bytes
  deriving DecidableEq, Repr, Inhabited

/-- Reader options (`carv2.Options` fields that readers consult). -/
structure ReadOpts where
  zeroEOF : Bool := false
  maxSection : Nat := 8 * 2 ^ 20
  maxHeader : Nat := 32 * 2 ^ 20
  trusted : Bool := false
  deriving Repr

/-- `util.LdWrite(w, cid.Bytes(), data)`. -/
def sectionBytes (b : Block) : Bytes :=
  uvarint (b.cid.byteLen + b.data.length) ++ b.cid.bytes ++ b.data

/-- `util.LdSize(cid.Bytes(), data)`. -/
def sectionSize (b : Block) : Nat :=
  let l := b.cid.byteLen + b.data.length
  uvarintSize l + l

def sectionsBytes (bs : List Block) : Bytes := bs.flatMap sectionBytes

/-- The CARv1 payload: framed header, then sections in order. -/
def payload (roots : Option (List Cid)) (bs : List Block) : Bytes :=
  encodeHeader { roots := roots, version := 1 } ++ sectionsBytes bs

def verr : VErr → Err
  | .eof => .eof
  | .unexpectedEOF => .unexpectedEOF
  | .overflow => .badVarint
  | .notMinimal => .badVarint

/-- `util.LdReadSize`. -/
def ldReadSize (zeroEOF : Bool) (max : Nat) (bs : Bytes) : Except Err (Nat × Bytes) :=
  match readUvarint bs with
  | .error e => .error (verr e)
  | .ok (l, rest) =>
    if l = 0 ∧ zeroEOF then .error .eof
    else if l > max then .error .tooLarge
    else .ok (l, rest)

/-- `util.LdRead`: the `l` bytes after the length prefix.
    A stream that ends before `l` bytes are available is an unclean end
    (`io.ReadFull` reports `io.EOF` when it read nothing; the repaired `LdRead` maps that to
    `ErrUnexpectedEOF`, see known_findings: fixed C02/D1). -/
def ldRead (zeroEOF : Bool) (max : Nat) (bs : Bytes) : Except Err (Bytes × Bytes) :=
  match ldReadSize zeroEOF max bs with
  | .error e => .error e
  | .ok (l, rest) =>
    if rest.length < l then .error .unexpectedEOF
    else .ok (rest.take l, rest.drop l)

/-- `util.ReadNode`. -/
def readNode (zeroEOF : Bool) (max : Nat) (bs : Bytes) : Except Err (Block × Bytes) :=
  match ldRead zeroEOF max bs with
  | .error e => .error e
  | .ok (sec, rest) =>
    match cidFromBytes sec with
    | .error _ => .error .badCid
    | .ok (n, c) => .ok (⟨c, sec.drop n⟩, rest)

/-- `c.Prefix().Sum(data)`: `none` when go-cid/go-multihash refuse to compute it (unknown hash
    function, or a digest longer than the function's output); reported as `ErrInvalidCid`. -/
def sumOk (H : HashFn) (c : Cid) (data : Bytes) : Bool :=
  if c.mhCode = 0 then true
  else match H c.mhCode data with
    | none => false
    | some full => c.digest.length ≤ full.length

/-- What go-multihash decides before it looks at any data: is the function registered, and is the
    requested digest length within its output. -/
def preOk (H : HashFn) (c : Cid) : Bool :=
  if c.mhCode = 0 then true
  else match H c.mhCode [] with
    | none => false
    | some full => c.digest.length ≤ full.length

/-- A hash-function family: whether a code is registered, and how long its output is, do not depend
    on the data hashed. -/
def HashFn.Uniform (H : HashFn) : Prop :=
  ∀ code d, (H code d).map List.length = (H code []).map List.length

theorem preOk_eq_sumOk (H : HashFn) (hU : H.Uniform) (c : Cid) (d : Bytes) : preOk H c = sumOk H c d := by
  unfold preOk sumOk
  by_cases h0 : c.mhCode = 0
  · simp [h0]
  · simp only [h0, ↓reduceIte]
    have := hU c.mhCode d
    cases h1 : H c.mhCode d <;> cases h2 : H c.mhCode [] <;> simp_all

/-- The hash check of `BlockReader.Next` / `CarReader.Next`. -/
def checkBlock (H : HashFn) (trusted : Bool) (b : Block) : Except Err Unit :=
  if trusted then .ok ()
  else if !sumOk H b.cid b.data then .error .badCid
  else if verifies H b.cid b.data then .ok () else .error .hashMismatch

/-- One `Next()`: read a section, verify it. -/
def nextBlock (H : HashFn) (o : ReadOpts) (bs : Bytes) : Except Err (Block × Bytes) :=
  match readNode o.zeroEOF o.maxSection bs with
  | .error e => .error e
  | .ok (b, rest) =>
    match checkBlock H o.trusted b with
    | .error e => .error e
    | .ok () => .ok (b, rest)

/-- Call `Next()` until it fails; the error that ended the iteration is part of the result
    (`eof` = clean end). Fuel = input length + 1 (every section consumes ≥ 1 byte). -/
def scanAux (H : HashFn) (o : ReadOpts) : Nat → Bytes → List Block × Err
  | 0, _ => ([], .other)
  | fuel + 1, bs =>
    match nextBlock H o bs with
    | .error e => ([], e)
    | .ok (b, rest) =>
      let r := scanAux H o fuel rest
      (b :: r.1, r.2)

def scanSections (H : HashFn) (o : ReadOpts) (bs : Bytes) : List Block × Err :=
  scanAux H o (bs.length + 1) bs

/-- `carv1.ReadHeader`. -/
def readHeader (maxHeader : Nat) (bs : Bytes) : Except Err (CarHeader × Bytes) :=
  match ldRead false maxHeader bs with
  | .error .tooLarge => .error .headerTooLarge
  | .error e => .error e
  | .ok (hb, rest) =>
    match decodeHeaderBody hb with
    | .error .invalid => .error .badHeader
    | .error .nonCanonical => .error .nonCanonical
    | .ok h => .ok (h, rest)

/-- Result of a whole-archive scan: open error, or roots + blocks + the error that ended it. -/
structure ScanResult where
  roots : List Cid
  blocks : List Block
  ending : Err
  deriving DecidableEq, Repr

/-- The internal CARv1 reader (`carv1.NewCarReader` + `Next` loop) over a whole stream. -/
def scanV1 (H : HashFn) (o : ReadOpts) (requireRoots : Bool) (bs : Bytes) : Except Err ScanResult :=
  match readHeader o.maxHeader bs with
  | .error e => .error e
  | .ok (h, rest) =>
    if h.version ≠ 1 then .error .badVersion
    else if requireRoots ∧ h.rootList = [] then .error .noRoots
    else
      let r := scanSections H o rest
      .ok ⟨h.rootList, r.1, r.2⟩

end Car
