import CarModel.IndexGen
import CarModel.Inspect
import CarModel.ReadOnly
import CarModel.Spec
import CarModel.Resume
/-
The `car` sub-commands of C19 as functions from input files to output bytes (cmd/car/index.go,
detach.go, concat.go, list.go, get.go, lib/filter.go, lib/verify.go, lib/inspect.go).
-/
namespace Car.Cli
open Car

/-- `carv2.OpenReader` + `DataReader`: container version, payload bytes, CARv2 header. -/
def openPayload (maxHeader : Nat) (src : Bytes) : Except Err (Nat × Bytes × V2Header) :=
  match readHeader maxHeader src with
  | .error e => .error e
  | .ok (h, rest) =>
    if h.version = 1 then .ok (1, src, {})
    else if h.version = 2 then
      match readV2Header rest with
      | .error e => .error e
      | .ok (v2h, _) => .ok (2, (src.drop v2h.dataOffset).take v2h.dataSize, v2h)
    else .error .badVersion

/-- The re-emitting loop of `IndexCar`: records every section (identity CIDs too), copies sections
    until the end of the payload or a zero length (which is copied and ends the loop). Returns the
    records and the end position of what was copied. -/
def indexWalk (p : Bytes) : (fuel pos : Nat) → List Record → Except Err (List Record × Nat)
  | 0, pos, acc => .ok (acc, pos)
  | fuel + 1, pos, acc =>
    match readUvarint (p.drop pos) with
    | .error .eof => .ok (acc, pos)
    | .error e => .error (verr e)
    | .ok (len, r1) =>
      let lp := p.length - r1.length
      if len = 0 then .ok (acc, lp)
      else match cidFromReader r1 with
        | .error .eof => .error .unexpectedEOF
        | .error .invalid => .error .badCid
        | .ok (n, c, r2) =>
          if len < n then .error .nonCanonical          -- bookkeeping and stream part ways: not modelled
          else if r2.length < len - n then .error .eof  -- io.CopyN hits the end
          else indexWalk p fuel (lp + len) (acc ++ [⟨c, pos⟩])

/-- `car index [--version 2] [--codec c] in out` (`codec = none` for `--codec none`). -/
def indexCmd (maxHeader : Nat) (outVersion : Nat) (codec : Option Nat) (src : Bytes) : Except Err Bytes :=
  match openPayload maxHeader src with
  | .error e => .error e
  | .ok (v, p, hd) =>
    if outVersion = 1 then .ok p
    else
      let ds := if v = 1 then src.length else hd.dataSize
      let hdr := V2Header.new ds
      match codec with
      | none => .ok (pragma ++ ({ hdr with indexOffset := 0 } : V2Header).bytes ++ p)
      | some c =>
        match readHeader maxHeader p with
        | .error e => .error e
        | .ok (h, rest) =>
          match indexWalk p (p.length + 1) (p.length - rest.length) [] with
          | .error e => .error e
          | .ok (recs, endPos) =>
            match Index.load c recs with
            | none => .error .other
            | some ix =>
              .ok (pragma ++ hdr.bytes ++ encodeHeader h ++ (p.take endPos).drop (p.length - rest.length) ++ ix.bytes)

/-- `car index create in out`: a detached index of the payload, default options. -/
def indexCreateCmd (maxHeader : Nat) (codec : Nat) (src : Bytes) : Except Err Bytes :=
  match openPayload maxHeader src with
  | .error e => .error e
  | .ok (_, p, _) =>
    match loadIndexRecords .seekable { maxHeader := maxHeader } p with
    | .error e => .error e
    | .ok recs =>
      match Index.load codec recs with
      | none => .error .other
      | some ix => .ok ix.bytes

/-- `car detach-index in out`: the bytes from the index offset to the end of the file. -/
def detachCmd (maxHeader : Nat) (src : Bytes) : Except Err Bytes :=
  match openPayload maxHeader src with
  | .error e => .error e
  | .ok (v, _, hd) =>
    if v ≠ 2 ∨ hd.indexOffset = 0 then .error .other       -- "no index present"
    else .ok (src.drop hd.indexOffset)

/-- what `concat` takes from each input: the payload header as re-encoded, and the sections -/
def concatParts (maxHeader : Nat) : List Bytes → Except Err (List (Bytes × Bytes))
  | [] => .ok []
  | src :: more =>
    match openPayload maxHeader src with
    | .error e => .error e
    | .ok (_, p, _) =>
      match readHeader maxHeader p with
      | .error e => .error e
      | .ok (h, rest) =>
        if h.version ≠ 1 then .error .badVersion
        else if (h.roots.getD []).isEmpty then .error .noRoots     -- the root-module reader insists on roots
        else match concatParts maxHeader more with
          | .error e => .error e
          | .ok l => .ok ((encodeHeader h, rest) :: l)

/-- `car concat [--version v] -o out in…`: the first input's header, then every input's sections.
    Version 2 (repaired, fixed C19/D15): pragma and a header announcing the whole payload. -/
def concatCmd (maxHeader : Nat) (outVersion : Nat) (srcs : List Bytes) : Except Err Bytes :=
  match concatParts maxHeader srcs with
  | .error e => .error e
  | .ok [] => .error .other
  | .ok ((h1, s1) :: tl) =>
    let payload := h1 ++ s1 ++ (tl.flatMap (·.2))
    if outVersion = 2 then .ok (pragma ++ ({ V2Header.new payload.length with indexOffset := 0 } : V2Header).bytes ++ payload)
    else .ok payload

/-- `car get-block`: the read-only blockstore over the file (default options), `Get` of the CID. -/
def getBlockCmd (src : Bytes) (c : Cid) : Except Err Bytes :=
  match openReadOnly .blockstore {} .auto src with
  | .error e => .error e
  | .ok r => match r.step {} (.get c) with
    | .data d => .ok d
    | .err e => .error e
    | _ => .error .other

/-- `car list` (plain): the CIDs of the sections in order, through the block reader with default limits;
    anything but a clean end is an error. -/
def listCmd (H : HashFn) (src : Bytes) : Except Err (List Cid) :=
  match scanBlockReader H {} true src with
  | .error e => .error e
  | .ok x => if x.ending == .eof then .ok (x.blocks.map (·.cid)) else .error .other

/-- `lib.VerifyCar` (repaired, fixed C19/D16: the overlap rule applies only when there is an index). -/
def verifyCar (H : HashFn) (o : ReadOpts) (file : Bytes) : Except Err Unit :=
  match readHeader o.maxHeader file with
  | .error e => .error e
  | .ok (h0, rest) =>
    let hdrE : Except Err (Option V2Header) :=
      if h0.version = 2 then (match readV2Header rest with | .ok (h, _) => .ok (some h) | .error e => .error e)
      else if h0.version = 1 then .ok none else .error .badVersion
    match hdrE with
    | .error e => .error e
    | .ok hdr =>
      match scanBlockReader H o true file with
      | .error e => .error e
      | .ok x =>
        if x.roots.isEmpty then .error .noRoots
        else
          let v2bad : Bool := match hdr with
            | none => false
            | some h => h.dataSize = 0 ||
                (decide (file.length > 51 + h.dataSize) && h.indexOffset = 0) ||
                decide (h.dataOffset < 51) ||
                (h.indexOffset ≠ 0 && decide (h.indexOffset < 51 + h.dataSize))
          if v2bad then .error .other
          else if x.ending ≠ .eof then .error x.ending
          else if !(x.roots.all fun r => x.blocks.any fun b => b.cid == r) then .error .other
          else match hdr with
            | none => .ok ()
            | some h =>
              if h.indexOffset = 0 then .ok ()
              else match Index.read (file.drop h.indexOffset) with
                | .error _ => .error .other
                | .ok (ix, _) =>
                  if x.blocks.all fun b => b.cid.isIdentity || !(ix.getAll b.cid).isEmpty then .ok () else .error .other

end Car.Cli
