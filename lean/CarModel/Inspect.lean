import CarModel.Reader
import CarModel.Index
/-
`Reader.Inspect(validateBlockHash)` (v2/reader.go): its own walk over the payload window —
length varint, `CidFromReader` on the *unbounded* stream, then hash the data (full validation) or
seek over it — and the statistics it accumulates.
Repaired behaviours modelled (known_findings: fixed C13): the inner header of a CARv2 must be
version 1 (D19); under full validation a block whose announced length runs past the end of the
payload is an unexpected EOF rather than "whatever is there hashes fine" (D20).
-/
namespace Car

structure Stats where
  version : Nat
  header : V2Header
  roots : List Cid
  rootsPresent : Bool
  blockCount : Nat
  /-- (codec, count) ascending by codec -/
  codecCounts : List (Nat × Nat)
  mhCounts : List (Nat × Nat)
  minCid : Nat
  avgCid : Nat
  maxCid : Nat
  minBlock : Nat
  avgBlock : Nat
  maxBlock : Nat
  indexCodec : Nat
  deriving DecidableEq, Repr

/-- one inspected section: (cid, cid length, block length) -/
structure Seen where
  cid : Cid
  cidLen : Nat
  blockLen : Nat
  deriving DecidableEq, Repr

def bump (k : Nat) : List (Nat × Nat) → List (Nat × Nat)
  | [] => [(k, 1)]
  | (a, n) :: t => if a = k then (a, n + 1) :: t else if k < a then (k, 1) :: (a, n) :: t else (a, n) :: bump k t

/-- statistics of a list of inspected sections (what the loop accumulates) -/
def statsOf (version : Nat) (hdr : V2Header) (roots : List Cid) (seen : List Seen) (indexCodec : Nat) : Stats :=
  let n := seen.length
  let cl := seen.map (·.cidLen)
  let bl := seen.map (·.blockLen)
  { version := version, header := hdr, roots := roots,
    rootsPresent := roots.all fun r => seen.any fun s => s.cid == r,
    blockCount := n,
    codecCounts := seen.foldl (fun acc s => bump s.cid.codec acc) [],
    mhCounts := seen.foldl (fun acc s => bump s.cid.mhCode acc) [],
    minCid := if n = 0 then 0 else cl.foldl min (cl.headD 0),
    avgCid := if n = 0 then 0 else cl.sum / n,
    maxCid := cl.foldl max 0,
    minBlock := if n = 0 then 0 else bl.foldl min (bl.headD 0),
    avgBlock := if n = 0 then 0 else bl.sum / n,
    maxBlock := bl.foldl max 0,
    indexCodec := indexCodec }

/-- The section loop of Inspect over the payload window `w` (what is left of it). -/
def inspectLoop (H : HashFn) (o : ReadOpts) (validate : Bool) : (fuel : Nat) → Bytes → List Seen → Except Err (List Seen)
  | 0, _, acc => .ok acc
  | fuel + 1, w, acc =>
    match readUvarint w with
    | .error .eof => .ok acc
    | .error e => .error (verr e)
    | .ok (len, r1) =>
      if len = 0 ∧ o.zeroEOF then .ok acc
      else if len > o.maxSection then .error .tooLarge
      else match cidFromReader r1 with
        | .error .eof => .error .eof
        | .error .invalid => .error .badCid
        | .ok (n, c, r2) =>
          if len < n then .error .other          -- "section length shorter than CID length"
          else
            let blockLen := len - n
            if validate then
              let data := r2.take blockLen
              -- multihash.SumStream refuses an unknown function before it reads and an over-long
              -- digest length before the caller can look at how much was read: raw error either way
              if !preOk H c then .error .other
              else if data.length < blockLen then .error .unexpectedEOF
              else if !sumOk H c data then .error .other
              else if !verifies H c data then .error .hashMismatch
              else inspectLoop H o validate fuel (r2.drop blockLen) (acc ++ [⟨c, n, blockLen⟩])
            else
              -- Seek over the data: never fails, even past the end
              inspectLoop H o validate fuel (r2.drop blockLen) (acc ++ [⟨c, n, blockLen⟩])

/-- `NewReader` + `Inspect`. -/
def inspect (H : HashFn) (o : ReadOpts) (validate : Bool) (file : Bytes) : Except Err Stats :=
  match readHeader o.maxHeader file with
  | .error e => .error e
  | .ok (h0, rest) =>
    if h0.version ≠ 1 ∧ h0.version ≠ 2 then .error .badVersion else
    let v2 : Except Err V2Header :=
      if h0.version = 2 then (readV2Header ((file.drop 11).take 40)).map (·.1) else .ok {}
    match v2 with
    | .error e => .error e
    | .ok hdr =>
      let window := if h0.version = 2 then (file.drop hdr.dataOffset).take hdr.dataSize else file
      match readHeader o.maxHeader window with
      | .error e => .error e
      | .ok (h1, secs) =>
        if h0.version = 2 ∧ h1.version ≠ 1 then .error .badVersion else
        match inspectLoop H o validate (secs.length + 1) secs [] with
        | .error e => .error e
        | .ok seen =>
          if h0.version = 2 ∧ hdr.hasIndex then
            match readUvarint (file.drop hdr.indexOffset) with
            | .error e => .error (verr e)
            | .ok (codec, _) => .ok (statsOf h0.version hdr h1.rootList seen codec)
          else .ok (statsOf h0.version hdr h1.rootList seen 0)

end Car
