import CarModel.Driver.Util
import CarModel.IndexGen
import CarModel.Layout
/- Family `idx` — C03: generated index vs reference scan, for every reader kind and codec. -/
namespace Car.Driver

def natsStr (l : List Nat) : String :=
  if l.isEmpty then "-" else String.intercalate "." ((l.mergeSort (fun a b => decide (a ≤ b))).map toString)

def strLe (a b : String) : Bool := decide (a ≤ b)

def entriesStr (es : List (Nat × Bytes × Nat)) : String :=
  if es.isEmpty then "-" else
  String.intercalate ";" ((es.map fun e => s!"{e.1}:{hexOr e.2.1}:{e.2.2}").mergeSort strLe)

def idxOpts (kv : KV) : IdxOpts :=
  { zeroEOF := KV.bool kv "z", storeIdentity := KV.bool kv "sid",
    maxIndexCidSize := KV.nat kv "mcs" 2048, maxHeader := KV.nat kv "mh" (32 * 2 ^ 20) }

def parseCids (s : String) : List Cid := if s == "-" then [] else (s.splitOn ",").filterMap parseCid

def famIdx (kv : KV) : String × String :=
  let o := idxOpts kv
  let kind := if KV.getD kv "kind" "seek" == "plain" then SrcKind.plain else SrcKind.seekable
  let codec := KV.getD kv "codec" "mh"
  let src := KV.bytes kv "arch"
  let qs := parseCids (KV.getD kv "q" "-")
  let roots := parseRoots (KV.getD kv "roots" "nil")
  let blocks := parseBlocks (KV.getD kv "blocks" "-")
  -- M: the model of LoadIndex + Load + GetAll/ForEach
  let rog := KV.getD kv "kind" "seek" == "rog"
  -- ReadOrGenerateIndex on a CARv2 that carries an index: the embedded index, read back
  let embedded : Option (Except Err Index) :=
    if rog then
      match readHeader o.maxHeader src with
      | .ok (h, _) =>
        if h.version = 2 then
          match readV2Header ((src.drop 11).take 40) with
          | .ok (v2h, _) =>
            if v2h.hasIndex then some (readOrGenerateIndex o (if codec == "sorted" then codecSorted else codecMhSorted) src) else none
          | .error _ => none
        else none
      | .error _ => none
    else none
  let m :=
    match embedded with
    | some (.error e) => s!"open={errName e}"
    | some (.ok ix) =>
      let gets := String.intercalate "," (qs.map fun q => natsStr (ix.getAll q))
      let each := match ix with
        | .sorted _ => "na"
        | .mh mi => entriesStr mi.entries
      s!"open=ok get={if qs.isEmpty then "-" else gets} each={each}"
    | none =>
    match loadIndexRecords kind o src with
    | .error e => s!"open={errName e}"
    | .ok rs =>
      if codec == "ins" then
        let ix := InsIndex.load [] rs
        let gets := String.intercalate "," (qs.map fun q => natsStr (ix.getAll q))
        s!"open=ok get={if qs.isEmpty then "-" else gets} each={entriesStr (ix.map fun r => (r.cid.mhCode, r.cid.digest, r.offset))}"
      else
        match Index.load (if codec == "sorted" then codecSorted else codecMhSorted) rs with
        | none => "open=other"
        | some ix =>
          let gets := String.intercalate "," (qs.map fun q => natsStr (ix.getAll q))
          let each := match ix with
            | .sorted _ => "na"
            | .mh mi => entriesStr mi.entries
          s!"open=ok get={if qs.isEmpty then "-" else gets} each={each}"
  -- S: reference scan of the block list the archive was built from
  let h := headerSize { roots := roots, version := 1 }
  let all := withOffsets h blocks
  let kept := all.filter fun r => o.storeIdentity || !r.cid.isIdentity
  let pad := KV.nat kv "pad"
  let s :=
    if kept.any (fun r => r.cid.byteLen > o.maxIndexCidSize) then "open=cidtoolarge"
    else if pad > 0 ∧ ¬ o.zeroEOF then "open=zerosection"
    else
      let key (a b : Cid) : Bool :=
        if codec == "mh" then a.digest == b.digest && a.mhCode == b.mhCode else a.digest == b.digest
      let gets := String.intercalate "," (qs.map fun q => natsStr ((kept.filter fun r => key r.cid q).map (·.offset)))
      let each := if codec == "sorted" then "na"
        else entriesStr (kept.map fun r => (r.cid.mhCode, r.cid.digest, r.offset))
      s!"open=ok get={if qs.isEmpty then "-" else gets} each={each}"
  (m, s)

end Car.Driver
