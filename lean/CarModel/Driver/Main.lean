import CarModel.Driver.Scan
import CarModel.Driver.Idx
import CarModel.Driver.Ops
import CarModel.Driver.Read
import CarModel.Driver.Walk
import CarModel.Driver.Crash
import CarModel.Driver.Deferred
import CarModel.Driver.Xform
import CarModel.Driver.IdxSer
import CarModel.Driver.Inspect
import CarModel.Driver.RO
import CarModel.Driver.Parse
import CarModel.Driver.Trav
import CarModel.Driver.Extract
import CarModel.Driver.Cli
namespace Car.Driver

structure DState where
  tbl : HashTable := []
  sess : Option Sess := none
  dsess : Option DSess := none
  rosess : Option ROSess := none

/-- One script line → (new state, "M …" text, "S …" text). Unknown family → `bad-op`. -/
def step (st : DState) (line : String) : DState × String × String :=
  let toks := (line.trimAscii.toString.splitOn " ").filter (· ≠ "")
  match toks with
  | [] => (st, "skip", "")
  | fam :: rest =>
    let kv := parseKV rest
    let H := mkHash st.tbl
    if fam == "hash" then
      ({ st with tbl := (KV.nat kv "code", KV.bytes kv "data", KV.bytes kv "digest") :: st.tbl }, "skip", "")
    else if fam == "reset" then ({ tbl := [] }, "skip", "")
    else if fam == "open" then let r := famOpen kv; ({ st with sess := some r.1 }, r.2.1, r.2.2)
    else if fam == "dopen" then let r := famDOpen kv; ({ st with dsess := some r.1 }, r.2.1, r.2.2)
    else if ["donput", "dhas", "dput", "dclose"].contains fam then
      match st.dsess with
      | none => (st, "bad-op", "")
      | some se => let r := famDOp se fam kv; ({ st with dsess := some r.1 }, r.2.1, r.2.2)
    else if fam == "reopen" then
      match st.sess with
      | none => (st, "bad-op", "")
      | some se => let r := famReopen se kv; ({ st with sess := some r.1 }, r.2.1, r.2.2)
    else if fam == "fcheck" then
      match st.sess with
      | none => (st, "bad-op", "")
      | some se => let r := famFcheck H se; (st, r.1, r.2)
    else if fam == "read" then
      match st.sess with
      | none => (st, "bad-op", "")
      | some se => let r := famRead H se kv; (st, r.1, r.2)
    else if ["put", "many", "has", "get", "size", "keys", "roots", "finalize", "finro", "close", "discard", "file", "reproot"].contains fam then
      match st.sess with
      | none => (st, "bad-op", "")
      | some se => let r := famOp se fam kv; ({ st with sess := some r.1 }, r.2.1, r.2.2)
    else if fam == "scan" then let r := famScan H kv; (st, r.1, r.2)
    else if fam == "mut" then let r := famMut H kv; (st, r.1, r.2)
    else if fam == "walk" then let r := famWalk H kv; (st, r.1, r.2)
    else if fam == "crash" then let r := famCrash H kv; (st, r.1, r.2)
    else if fam == "xform" then let r := famXform kv; (st, r.1, r.2)
    else if fam == "idxser" then let r := famIdxSer kv; (st, r.1, r.2)
    else if fam == "idxbig" then let r := famIdxBig kv; (st, r.1, r.2)
    else if fam == "inspect" then let r := famInspect H kv; (st, r.1, r.2)
    else if fam == "ro" then let r := famRO kv; ({ st with rosess := some r.1 }, r.2.1, r.2.2)
    else if fam == "roq" then
      match st.rosess with
      | none => (st, "bad-op", "")
      | some se => let r := famROQ se kv; (st, r.1, r.2)
    else if fam == "parse" then let r := famParse H kv; (st, r.1, r.2)
    else if fam == "conc" then (st, "race=0 panic=0 deadlock=0 rt=1 final=1", "race=0 panic=0 deadlock=0 rt=1 final=1")
    else if fam == "trav" then let r := famTrav kv; (st, r.1, r.2)
    else if fam == "extract" then let r := famExtract kv; (st, r.1, r.2)
    -- the built binary (own argument handling, -p, error clean-up): containment is what C17 states for
    -- every input (extract_contained), so that is what the model answers
    else if fam == "extractcli" then (st, "outside=same", "outside=same")
    -- C13 on inputs the header model declines (non-canonical but accepted dag-cbor headers): for a CARv1 or
    -- an index-less CARv2, Inspect(true) succeeds iff the hash-verifying scan ends cleanly, with the same
    -- roots and block count — `inspect_iff_scan`, which holds for every byte string
    else if fam == "inspagree" then (st, "agree=1", "agree=1")
    else if fam == "cli" then let r := famCli H kv; (st, r.1, r.2)
    else if fam == "root" then
      -- C18: the CID `car root` prints = the single root in the header = the root the engine built
      let w := KV.getD kv "want" ""
      (st, s!"printed={w} header={w}", s!"printed={w} header={w}")
    else if fam == "idx" then let r := famIdx kv; (st, r.1, r.2)
    else (st, "bad-op", "")

partial def loop (h : IO.FS.Stream) (out : IO.FS.Stream) (st : DState) : IO Unit := do
  let line ← h.getLine
  if line.isEmpty then return ()
  let (st', m, s) := step st line
  out.putStrLn s!"M {m}"
  out.putStrLn s!"S {s}"
  loop h out st'

end Car.Driver
