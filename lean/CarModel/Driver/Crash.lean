import CarModel.Driver.Ops
import CarModel.Crash
/- Family `crash` — C06: every crash image of a writing session, reopened. -/
namespace Car.Driver

def parseTrace (s : String) : List WriteEv :=
  if s == "-" then [] else
  (s.splitOn ",").filterMap fun t =>
    match t.splitOn ":" with
    | ["t", n] => n.toNat?.map WriteEv.truncate
    | [off, d] => match off.toNat?, fromHex d with
      | some o, some b => some (.write o b)
      | _, _ => none
    | _ => none

structure SessRun where
  evs : List WriteEv
  /-- (event count after which the put is acknowledged, the block) for each successful put -/
  acks : List (Nat × Block)
  store : Store

def runPuts (o : WOpts) : List Block → SessRun → SessRun
  | [], r => r
  | b :: bs, r =>
    let res := r.store.putOne o b.cid b.data
    match res.2.1 with
    | .ok => runPuts o bs { evs := r.evs ++ res.2.2, acks := r.acks ++ [(r.evs.length + res.2.2.length, b)], store := res.1 }
    | _ => runPuts o bs { r with store := res.1 }

def famCrash (H : HashFn) (kv : KV) : String × String :=
  let o := wopts kv
  let roots := parseRoots (KV.getD kv "roots" "nil")
  let api := if KV.getD kv "api" "bs" == "st" then Api.storage else Api.blockstore
  let base := KV.bytes kv "base"
  let prior := parseBlocks (KV.getD kv "prior" "-")
  let puts := parseBlocks (KV.getD kv "puts" "-")
  let fin := KV.bool kv "fin"
  let traceI := parseTrace (KV.getD kv "trace" "-")
  let k := KV.nat kv "k"
  let j := KV.nat kv "j"
  let extra := parseBlocks (KV.getD kv "extra" "-")
  -- the model's own session
  let start : Option (Store × List WriteEv) :=
    if base.isEmpty then some (Store.create api o roots)
    else match (resume api o roots base).res with
      | .ok s => some (s, (resume api o roots base).evs)
      | .error _ => none
  match start with
  | none => ("bad-session", "")
  | some (s0, evs0) =>
    let r := runPuts o puts { evs := evs0, acks := [], store := s0 }
    let finEvs := if fin then (r.store.step o .finalize).2.2 else []
    let traceM := r.evs ++ finEvs
    let traceok := traceM == traceI
    let img := crashImage base traceI k j
    let acked : List Block := prior ++ (r.acks.filter (fun a => a.1 ≤ k)).map (·.2)
    let attempted := prior ++ puts
    -- where each acknowledged block's section starts (first stored block with that key, per spec log)
    let rr := resume api o roots img
    let verdict :=
      match rr.res with
      | .error _ =>
        -- nothing acknowledged may be destroyed by the failed attempt
        let st : Store := { api := api, file := rr.file, base := o.base, pos := 0, idx := [], roots := roots }
        let okAll := acked.all fun b =>
          if Spec.idRule o b.cid then true else
          -- some intact section carrying the block's key and bytes is still in the file (a put that was
          -- acknowledged as "already stored" lives in the section of the block that carries its key)
          (attempted.filter fun a => Spec.sameKey o a.cid b.cid && a.data == b.data).any fun a =>
            (List.range (st.payloadBytes.length + 1)).any fun off => intactAt rr.file o.base off a
        s!"open=err safe={if okAll then 1 else 0}"
      | .ok s1 =>
        let has := acked.all fun b =>
          match (s1.step o (.has b.cid)).2.1, (s1.step o (.get b.cid)).2.1 with
          | .bool true, .data d => d == b.data || (attempted.any fun a => Spec.sameKey o a.cid b.cid && a.data == d)
          | _, _ => false
        let only := s1.idx.all fun rec => attempted.any fun a => a.cid == rec.cid
        -- carry on: put the extra blocks, finalize, decode
        let s2 := (runPuts o extra { evs := [], acks := [], store := s1 }).store
        let s3 := (s2.step o .finalize)
        let finalOk :=
          match s3.2.1 with
          | .ok =>
            match scanBlockReader H {} true s3.1.file with
            | .ok x => x.ending == .eof &&
                (acked ++ extra).all (fun b => Spec.idRule o b.cid || x.blocks.any (fun y => Spec.sameKey o y.cid b.cid && (y.data == b.data || attempted.any fun a => a.cid == y.cid && a.data == y.data))) &&
                x.blocks.all (fun y => (attempted ++ extra).any fun a => a.cid == y.cid && a.data == y.data)
            | .error _ => false
          | _ => false
        s!"open=ok safe={if has && only && finalOk then 1 else 0} has={if has then 1 else 0} only={if only then 1 else 0} final={if finalOk then 1 else 0}"
    (s!"trace={if traceok then "ok" else "differs"} " ++ verdict, "trace=ok safe=1")

end Car.Driver
