import CarModel.Driver.Ops
import CarModel.Driver.Scan
import CarModel.RootReader
/- Family `read` — C01: the current session's finished file through every reader. -/
namespace Car.Driver

/-- `carv2.NewReader` → `DataReader` → block reader over the payload window. -/
def readerPayload (H : HashFn) (o : ReadOpts) (file : Bytes) : Except Err ScanResult :=
  match readHeader o.maxHeader file with
  | .error e => .error e
  | .ok (h, rest) =>
    if h.version = 1 then scanBlockReader H o true file
    else if h.version = 2 then
      match readV2Header rest with
      | .error e => .error e
      | .ok (v2h, _) => scanBlockReader H o true ((file.drop v2h.dataOffset).take v2h.dataSize)
    else .error .badVersion

def famRead (H : HashFn) (se : Sess) (kv : KV) : String × String :=
  let o := readOpts kv
  let rd := KV.getD kv "rd" "br-seek"
  let file := se.m.file
  let r :=
    if rd == "root" || rd == "rootload" then scanRoot H true file
    else if rd == "root-noerr" then scanRoot H false file
    else if rd == "payload-v1" || rd == "ro" || rd == "st" then readerPayload H o file
    else runReader H rd o file
  let m := resStr H o r
  let s := s!"open=ok roots={cidsStr se.s.roots} blocks={blocksStr se.s.log} end=eof sound=1"
  (m, s)

/-- `fcheck`: Inspect(true) and VerifyCar verdicts on the session's finished file. -/
def famFcheck (H : HashFn) (se : Sess) : String × String :=
  let o : ReadOpts := {}
  let r := scanBlockReader H o true se.m.file
  let m := match r with
    | .ok x =>
      if x.ending == .eof then
        let cids := x.blocks.map (·.cid)
        let v := !x.roots.isEmpty && x.roots.all (fun c => cids.contains c)
        s!"inspect=ok nblocks={x.blocks.length} verify={if v then "ok" else "err"}"
      else s!"inspect={errName x.ending} nblocks=0 verify=err"
    | .error e => s!"inspect={errName e} nblocks=0 verify=err"
  let cids := se.s.log.map (·.cid)
  let v := !se.s.roots.isEmpty && se.s.roots.all (fun c => cids.contains c)
  let s := s!"inspect=ok nblocks={se.s.log.length}" ++ (if v then " verify=ok" else "")
  (m, s)

end Car.Driver
