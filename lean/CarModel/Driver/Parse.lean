import CarModel.Driver.Walk
import CarModel.Driver.Inspect
import CarModel.Driver.Idx
/- Family `parse` — C09: every parsing entry point on arbitrary bytes: result class (where modelled),
   no panic, bounded allocation, terminates. -/
namespace Car.Driver

def famParse (H : HashFn) (kv : KV) : String × String :=
  let ep := KV.getD kv "ep" "next-seek"
  let o := readOpts kv
  let input := KV.bytes kv "in"
  let tail := " panic=0 allocok=1 slow=0"
  let m :=
    if ep == "next-seek" then resStr H o (runReader H "br-seek" o input)
    else if ep == "next-plain" then resStr H o (runReader H "br-plain" o input)
    else if ep == "skip-seek" || ep == "skip-plain" then
      match newBlockReader o (ep == "skip-seek") input with
      | .error e => s!"open={errName e}"
      | .ok br =>
        let r := runFinite H o (List.replicate 4000 's') br
        s!"open=ok roots={cidsStr br.roots} visits={visitsStr r.1} end={r.2.1}"
    else if ep == "inspect-full" then (famInspect H ((("full", "1") :: kv))).1
    else if ep == "inspect-quick" then (famInspect H ((("full", "0") :: kv))).1
    else if ep == "genindex-seek" || ep == "genindex-plain" then
      let io : IdxOpts := { zeroEOF := o.zeroEOF, maxHeader := o.maxHeader }
      match loadIndexRecords (if ep == "genindex-seek" then .seekable else .plain) io input with
      | .error e => s!"open={errName e}"
      | .ok rs => s!"open=ok each={entriesStr (MhIndex.load rs).entries}"
    else ""
  -- specification of the header limit (exact-limit lines only): the payload header is refused as
  -- too large exactly when its declared length exceeds MaxAllowedHeaderSize, at every entry point
  let limSpec :=
    if KV.getD kv "lim" "0" != "1" || ep == "root" || ep == "indexread" || ep == "extract" || ep == "readonly" || ep == "readable" || ep == "readorgen" || ep == "skip-dr" || ep == "next-dr" || ep == "readversion" || ep == "indexreader" || ep == "openreader" then "" else
    let hp := if input.take 11 == pragma then leVal ((input.drop 27).take 8) else 0
    match readUvarint (input.drop hp) with
    | .ok (h, _) => if h > o.maxHeader then " _lim=hdr" else " _lim=!hdr"
    | .error _ => ""
  (m ++ tail, "panic=0 allocok=1 slow=0" ++ limSpec)

end Car.Driver
