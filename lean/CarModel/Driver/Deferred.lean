import CarModel.Driver.Ops
import CarModel.Deferred
/- Family `dopen/donput/dhas/dput/dclose` — C20. -/
namespace Car.Driver

structure DSess where
  o : WOpts
  roots : Option (List Cid)
  m : Deferred
  -- specification bookkeeping: a direct writer's spec state (created at the first put), callbacks, closed
  s : Option Spec.State := none
  scbs : List PutCb := []
  sclosed : Bool := false
  /-- a plain stream asked to carry a CARv2 (explicit WriteAsCarV1(false)): the inner writer cannot be
      built, so every Put fires its listeners and then fails, and nothing is ever written -/
  refuse : Bool := false

def natsDot (l : List Nat) : String := if l.isEmpty then "-" else String.intercalate "." (l.map toString)

def dOutStr (out : Option Bytes) : String :=
  match out with
  | none => "exists=0 out=-"
  | some f => s!"exists=1 out={hexOr f}"

def famDOpen (kv : KV) : DSess × String × String :=
  let o := wopts kv
  let o := if KV.getD kv "target" "path" == "stream" then { o with v1 := true } else o
  let roots := parseRoots (KV.getD kv "roots" "nil")
  ({ o := o, roots := roots, m := { roots := roots }, refuse := KV.bool kv "sv2" },
    "r=ok exists=0 out=-", "r=ok exists=0 out=-")

def specOut (se : DSess) : Option Bytes :=
  se.s.map fun st =>
    if se.sclosed then ((Spec.finalFile se.o se.roots st.log).getD []) else Spec.openFile se.o se.roots st.log

def famDOp (se : DSess) (fam : String) (kv : KV) : DSess × String × String :=
  let c := (parseCid (KV.getD kv "c" "")).getD default
  let op : DOp :=
    if fam == "donput" then
      let sp : Option (Nat × Bool) :=
        if KV.getD kv "spawn" "-" == "-" then none else some (KV.nat kv "spawn", KV.bool kv "sonce")
      .onPut (KV.nat kv "id") (KV.bool kv "once") sp
    else if fam == "dhas" then .has c
    else if fam == "dput" then .put c (KV.bytes kv "d")
    else .close
  if se.refuse then
    match op with
    | .put _ _ =>
      if se.m.closed then (se, "r=closed fired=- exists=0 out=-", "r=closed fired=- exists=0 out=-") else
      let (cbs', fired) := fireLoop (2 * se.m.cbs.length + 2) 0 se.m.cbs []
      let str := s!"r=other fired={natsDot fired} exists=0 out=-"
      ({ se with m := { se.m with cbs := cbs' } }, str, str)
    | _ =>
      let r := se.m.step se.o op
      let str := s!"r={outStr false r.2.res} fired=- exists=0 out=-"
      ({ se with m := r.1 }, str, str)
  else
  let r := se.m.step se.o op
  let mstr := s!"r={outStr false r.2.res} fired={natsDot r.2.fired} {dOutStr r.1.output}"
  -- specification
  match op with
  | .onPut id once sp =>
    let se' := { se with m := r.1, scbs := se.scbs ++ [{ id := id, once := once, spawn := sp }] }
    (se', mstr, s!"r=ok fired=- {dOutStr (specOut se')}")
  | .has c =>
    let res := if se.sclosed then "closed" else match se.s with
      | none => "false"
      | some st => outStr false (Spec.step se.o st (.has c)).2
    ({ se with m := r.1 }, mstr, s!"r={res} fired=- {dOutStr (specOut se)}")
  | .put c d =>
    if se.sclosed then ({ se with m := r.1 }, mstr, s!"r=closed fired=- {dOutStr (specOut se)}")
    else
      let st := se.s.getD { api := .storage, roots := se.roots.getD [] }
      let rs := Spec.step se.o st (.put c d)
      let (keep, firedS) := specFire (2 * se.scbs.length + 2) se.scbs
      let se' := { se with m := r.1, s := some rs.1, scbs := keep }
      (se', mstr, s!"r={outStr false rs.2} fired={natsDot firedS} {dOutStr (specOut se')}")
  | .close =>
    if se.sclosed then ({ se with m := r.1 }, mstr, s!"r=closed fired=- {dOutStr (specOut se)}")
    else
      let se' := { se with m := r.1, sclosed := true }
      (se', mstr, s!"r=ok fired=- {dOutStr (specOut se')}")

end Car.Driver
