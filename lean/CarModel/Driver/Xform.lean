import CarModel.Driver.Idx
import CarModel.Transform
/- Family `xform` — C10: WrapV1 / ExtractV1File / ReplaceRootsInFile. -/
namespace Car.Driver

def famXform (kv : KV) : String × String :=
  let op := KV.getD kv "op" "wrap"
  let input := KV.bytes kv "in"
  if op == "wrap" then
    let o := idxOpts kv
    let codec := if KV.getD kv "codec" "mh" == "sorted" then codecSorted else codecMhSorted
    let m := match wrapV1 o codec input with
      | .ok out => s!"r=ok out={hexOr out}"
      | .error e => s!"r={errName e}"
    -- spec: pragma, header for |x|, x verbatim, the index of x's sections
    let roots := parseRoots (KV.getD kv "roots" "nil")
    let blocks := parseBlocks (KV.getD kv "blocks" "-")
    let recs := (withOffsets (headerSize ⟨roots, 1⟩) blocks).filter fun r => o.storeIdentity || !r.cid.isIdentity
    -- an indexed CID above MaxIndexCidSize is refused; one that is not indexed (identity, by default) is not
    let s := if recs.any fun r => r.cid.byteLen > o.maxIndexCidSize then "r=cidtoolarge"
      else match Index.load codec recs with
      | some ix => s!"r=ok out={hexOr (layoutV2 0 0 input true false ix.bytes)}"
      | none => "r=!ok"
    (m, s)
  else if op == "extract" then
    let same := KV.getD kv "dst" "absent" == "same"
    let m := match extractV1 (32 * 2 ^ 20) input (if KV.getD kv "dst" "absent" == "larger" then some [] else none) same 32767 with
      | .ok out => s!"r=ok out={hexOr out}"
      | .error e => s!"r={errName e}"
    (m, s!"r=ok out={hexOr (KV.bytes kv "x")}")
  else
    let newRoots := parseRoots (KV.getD kv "roots" "nil")
    let r := replaceRoots (32 * 2 ^ 20) input newRoots
    let m := match r.1 with
      | .ok () => s!"r=ok out={hexOr r.2}"
      | .error _ => s!"r=err out={hexOr r.2}"
    -- spec: same encoded header length → only the header bytes change; else error and file untouched
    let oldRoots := parseRoots (KV.getD kv "old" "nil")
    let base := KV.nat kv "base"
    let oldH := encodeHeader ⟨oldRoots, 1⟩
    let newH := encodeHeader ⟨newRoots, 1⟩
    let s := if oldH.length == newH.length
      then s!"r=ok out={hexOr (input.take base ++ newH ++ input.drop (base + oldH.length))}"
      else s!"r=err out={hexOr input}"
    (m, s)

end Car.Driver
