import CarModel.Driver.Scan
import CarModel.Inspect
/- Family `inspect` — C13: Reader.Inspect vs a hash-verifying scan of the same input. -/
namespace Car.Driver

def countsStr (l : List (Nat × Nat)) : String :=
  if l.isEmpty then "-" else String.intercalate "," (l.map fun p => s!"{p.1}:{p.2}")

def statsStr (s : Stats) : String :=
  s!"v={s.version} hdr={s.header.charHi}.{s.header.charLo}.{s.header.dataOffset}.{s.header.dataSize}.{s.header.indexOffset} " ++
  s!"roots={cidsStr s.roots} rp={if s.rootsPresent then 1 else 0} n={s.blockCount} " ++
  s!"cid={s.minCid}.{s.avgCid}.{s.maxCid} blk={s.minBlock}.{s.avgBlock}.{s.maxBlock} " ++
  s!"codecs={countsStr s.codecCounts} mh={countsStr s.mhCounts} idx={s.indexCodec}"

def famInspect (H : HashFn) (kv : KV) : String × String :=
  let o := readOpts kv
  let validate := KV.bool kv "full"
  let input := KV.bytes kv "in"
  let m := match inspect H o validate input with
    | .ok s => "r=ok " ++ statsStr s
    | .error e => s!"r={errName e}"
  -- specification (full validation only): succeed iff the verifying scan succeeds (+ index codec readable),
  -- and report the statistics of that scan
  let s :=
    if !validate then "" else
    match scanBlockReader H o true input with
    | .error .nonCanonical => ""      -- header outside the modelled cbor subset: no verdict
    | .error _ => "r=!ok"
    | .ok x =>
      if x.ending != .eof then "r=!ok" else
      -- container facts the scan does not return: version and v2 header
      match readHeader o.maxHeader input with
      | .error _ => "r=!ok"
      | .ok (h0, _) =>
        let hdr : V2Header := if h0.version = 2 then
            match readV2Header ((input.drop 11).take 40) with | .ok (h, _) => h | .error _ => {}
          else {}
        let seen := x.blocks.map fun b => (⟨b.cid, b.cid.byteLen, b.data.length⟩ : Seen)
        if h0.version = 2 ∧ hdr.hasIndex then
          match readUvarint (input.drop hdr.indexOffset) with
          | .error _ => "r=!ok"
          | .ok (codec, _) => "r=ok " ++ statsStr (statsOf h0.version hdr x.roots seen codec)
        else "r=ok " ++ statsStr (statsOf h0.version hdr x.roots seen 0)
  (m, s)

end Car.Driver
