import CarModel.Driver.Idx
import CarModel.Spec
import CarModel.Resume
import CarModel.Faults
import CarModel.Transform
/- Families `open/put/many/has/get/size/keys/roots/finalize/finro/close/discard/file` — C04, C05, C20. -/
namespace Car.Driver

structure Sess where
  o : WOpts
  roots : Option (List Cid)
  m : Store
  s : Spec.State

def wopts (kv : KV) : WOpts :=
  { dataPad := KV.nat kv "dp", indexPad := KV.nat kv "ip",
    codec := (if KV.getD kv "codec" "mh" == "sorted" then codecSorted
              else if KV.getD kv "codec" "mh" == "none" then 0x300000 else codecMhSorted),
    v1 := KV.bool kv "v1", storeIdentity := KV.bool kv "sid", allowDup := KV.bool kv "dup",
    wholeCids := KV.bool kv "whole", maxIndexCidSize := KV.nat kv "mcs" 2048,
    zeroEOF := KV.bool kv "z", maxSection := KV.nat kv "ms" (8 * 2 ^ 20), maxHeader := KV.nat kv "mh" (32 * 2 ^ 20) }

def sortedCids (cs : List Cid) : String :=
  if cs.isEmpty then "-" else String.intercalate "," ((cs.map cidHex).mergeSort strLe)

def outStr (sortCids : Bool) : Out → String
  | .ok => "ok"
  | .err e => errName e
  | .bool b => if b then "true" else "false"
  | .data d => "d:" ++ hexOr d
  | .size n => s!"n:{n}"
  | .cids l => if sortCids then "c:" ++ sortedCids l else "l:" ++ cidsStr l

def parseOp (fam : String) (kv : KV) : Option Op :=
  let c := (parseCid (KV.getD kv "c" "")).getD default
  if fam == "put" then some (.put c (KV.bytes kv "d"))
  else if fam == "many" then some (.putMany (parseBlocks (KV.getD kv "b" "-")))
  else if fam == "has" then some (.has c)
  else if fam == "get" then some (.get c)
  else if fam == "size" then some (.getSize c)
  else if fam == "keys" then some .allKeys
  else if fam == "roots" then some .roots
  else if fam == "finalize" then some .finalize
  else if fam == "finro" then some .finalizeRO
  else if fam == "close" then some .close
  else if fam == "discard" then some .discard
  else none

def famOpen (kv : KV) : Sess × String × String :=
  let o := wopts kv
  let roots := parseRoots (KV.getD kv "roots" "nil")
  let api := if KV.getD kv "api" "bs" == "st" then Api.storage else Api.blockstore
  let (m, _) := Store.create api o roots
  ({ o := o, roots := roots, m := m, s := { api := api, roots := roots.getD [] } }, "r=ok", "r=ok")

def parseFault (kv : KV) : Option Fault :=
  match (KV.get kv "fail").map (·.splitOn ":") with
  | some [k, n] => match k.toNat?, n.toNat? with
    | some k, some n => some ⟨k, n⟩
    | _, _ => none
  | _ => none

/-- put / finalize with an injected write failure (C16) -/
def famFaultOp (se : Sess) (fam : String) (kv : KV) (f : Fault) : Sess × String × String :=
  if fam == "put" then
    let c := (parseCid (KV.getD kv "c" "")).getD default
    let d := KV.bytes kv "d"
    let guard : Option Err := if se.m.closed then some .closed
      else if se.m.api = .blockstore ∧ se.m.finalized then some .finalized else none
    match guard with
    | some e => (se, "r=" ++ errName e, "r=" ++ errName e)
    | none =>
      let rm := se.m.putOneF se.o c d (some f)
      let fired := match rm.2.1 with | .err .other => true | _ => false
      if fired then ({ se with m := rm.1 }, "r=other", "r=other")   -- spec: a failed Put stores nothing
      else
        let rs := Spec.step se.o se.s (.put c d)
        ({ se with m := rm.1, s := rs.1 }, "r=" ++ outStr false rm.2.1, "r=" ++ outStr false rs.2)
  else if fam == "many" then
    let bs := parseBlocks (KV.getD kv "b" "-")
    let guard : Option Err := if se.m.closed then some .closed
      else if se.m.api = .blockstore ∧ se.m.finalized then some .finalized else none
    match guard with
    | some e => (se, "r=" ++ errName e, "r=" ++ errName e)
    | none =>
      let rm := se.m.putManyF se.o bs (some f)
      let fired := match rm.2.1 with | .err .other => true | _ => false
      -- spec: the batch is acknowledged block by block; the ones before the failing block are stored
      let rs := Spec.step se.o se.s (.putMany (bs.take rm.2.2.2))
      if fired then ({ se with m := rm.1, s := rs.1 }, "r=other", "r=other")
      else
        let rs := Spec.step se.o se.s (.putMany bs)
        ({ se with m := rm.1, s := rs.1 }, "r=" ++ outStr false rm.2.1, "r=" ++ outStr false rs.2)
  else if fam == "finro" then
    let rm := se.m.finalizeROF se.o (some f)
    let fired := match rm.2.1 with | .err .other => true | _ => false
    if fired then
      -- spec: FinalizeReadOnly failed; the store counts as finalized (every later write and finalizing call
      -- is refused), it is not closed
      ({ se with m := rm.1, s := { se.s with finalized := true } }, "r=other", "r=other")
    else
      let rs := Spec.step se.o se.s .finalizeRO
      ({ se with m := rm.1, s := rs.1 }, "r=" ++ outStr false rm.2.1, "r=" ++ outStr false rs.2)
  else
    let rm := se.m.finalizeF se.o (some f)
    let fired := match rm.2.1 with | .err .other => true | _ => false
    if fired then
      -- spec: Finalize failed; the store is unusable from now on (closed), nothing is acknowledged
      ({ se with m := rm.1, s := { se.s with closed := true, finalized := true } }, "r=other", "r=other")
    else
      let rs := Spec.step se.o se.s .finalize
      ({ se with m := rm.1, s := rs.1 }, "r=" ++ outStr false rm.2.1, "r=" ++ outStr false rs.2)

def famOp (se : Sess) (fam : String) (kv : KV) : Sess × String × String :=
  if (fam == "put" || fam == "finalize" || fam == "many" || fam == "finro") && (parseFault kv).isSome then
    famFaultOp se fam kv ((parseFault kv).getD ⟨0, 0⟩)
  else if fam == "reproot" then
    -- car create's last step: ReplaceRootsInFile on the finalised file (C18)
    let nr := parseRoots (KV.getD kv "roots" "nil")
    let r := replaceRoots (32 * 2 ^ 20) se.m.file nr
    match r.1 with
    | .ok _ => ({ se with roots := nr, m := { se.m with file := r.2 } }, "r=ok", "r=ok")
    | .error e => (se, "r=" ++ errName e, "r=ok")
  else if fam == "file" then
    let spec := if se.s.finalized ∨ (se.s.api = .storage ∧ se.s.closed) then
                  ((Spec.finalFile se.o se.roots se.s.log).map toHex).getD "none"
                else toHex (Spec.openFile se.o se.roots se.s.log)
    (se, s!"file={toHex se.m.file}", s!"file={spec}")
  else match parseOp fam kv with
    | none => (se, "bad-op", "")
    | some op =>
      let rm := se.m.step se.o op
      let rs := Spec.step se.o se.s op
      let sortC := match op with | .allKeys => true | _ => false
      ({ se with m := rm.1, s := rs.1 }, "r=" ++ outStr sortC rm.2.1, "r=" ++ outStr sortC rs.2)

/-- `reopen`: OpenReadWrite / OpenReadableWritable on the session's current file. -/
def famReopen (se : Sess) (kv : KV) : Sess × String × String :=
  let o := wopts kv
  let roots := parseRoots (KV.getD kv "roots" "nil")
  let api := if KV.getD kv "api" "bs" == "st" then Api.storage else Api.blockstore
  let rr := resume api o roots se.m.file
  -- specification: accepted iff same container version, same data padding, same roots up to order
  let okSpec := o.v1 == se.o.v1 && (o.v1 || o.dataPad == se.o.dataPad) &&
    rootsMatch se.s.roots (roots.getD [])
  let s' : Spec.State := if okSpec then { se.s with closed := false, finalized := false, api := api } else se.s
  match rr.res with
  | .ok st =>
    ({ se with o := o, m := st, s := s' }, "r=ok", if okSpec then "r=ok" else "r=!ok")
  | .error _ =>
    ({ se with m := { se.m with file := rr.file }, s := s' }, "r=err", if okSpec then "r=ok" else "r=!ok")

end Car.Driver
