import CarModel.Driver.Idx
import CarModel.Spec
import CarModel.Resume
/- Families `open/put/many/has/get/size/keys/roots/finalize/finro/close/discard/file` — C04, C05, C20. -/
namespace Car.Driver

structure Sess where
  o : WOpts
  roots : Option (List Cid)
  m : Store
  s : Spec.State

def wopts (kv : KV) : WOpts :=
  { dataPad := KV.nat kv "dp", indexPad := KV.nat kv "ip",
    codec := (if KV.getD kv "codec" "mh" == "sorted" then codecSorted
              else if KV.getD kv "codec" "mh" == "none" then 0x300000 else codecMhSorted),
    v1 := KV.bool kv "v1", storeIdentity := KV.bool kv "sid", allowDup := KV.bool kv "dup",
    wholeCids := KV.bool kv "whole", maxIndexCidSize := KV.nat kv "mcs" 2048,
    zeroEOF := KV.bool kv "z", maxSection := KV.nat kv "ms" (8 * 2 ^ 20), maxHeader := KV.nat kv "mh" (32 * 2 ^ 20) }

def sortedCids (cs : List Cid) : String :=
  if cs.isEmpty then "-" else String.intercalate "," ((cs.map cidHex).mergeSort strLe)

def outStr (sortCids : Bool) : Out → String
  | .ok => "ok"
  | .err e => errName e
  | .bool b => if b then "true" else "false"
  | .data d => "d:" ++ hexOr d
  | .size n => s!"n:{n}"
  | .cids l => if sortCids then "c:" ++ sortedCids l else "l:" ++ cidsStr l

def parseOp (fam : String) (kv : KV) : Option Op :=
  let c := (parseCid (KV.getD kv "c" "")).getD default
  if fam == "put" then some (.put c (KV.bytes kv "d"))
  else if fam == "many" then some (.putMany (parseBlocks (KV.getD kv "b" "-")))
  else if fam == "has" then some (.has c)
  else if fam == "get" then some (.get c)
  else if fam == "size" then some (.getSize c)
  else if fam == "keys" then some .allKeys
  else if fam == "roots" then some .roots
  else if fam == "finalize" then some .finalize
  else if fam == "finro" then some .finalizeRO
  else if fam == "close" then some .close
  else if fam == "discard" then some .discard
  else none

def famOpen (kv : KV) : Sess × String × String :=
  let o := wopts kv
  let roots := parseRoots (KV.getD kv "roots" "nil")
  let api := if KV.getD kv "api" "bs" == "st" then Api.storage else Api.blockstore
  let (m, _) := Store.create api o roots
  ({ o := o, roots := roots, m := m, s := { api := api, roots := roots.getD [] } }, "r=ok", "r=ok")

def famOp (se : Sess) (fam : String) (kv : KV) : Sess × String × String :=
  if fam == "file" then
    let spec := if se.s.finalized ∨ (se.s.api = .storage ∧ se.s.closed) then
                  ((Spec.finalFile se.o se.roots se.s.log).map toHex).getD "none"
                else toHex (Spec.openFile se.o se.roots se.s.log)
    (se, s!"file={toHex se.m.file}", s!"file={spec}")
  else match parseOp fam kv with
    | none => (se, "bad-op", "")
    | some op =>
      let rm := se.m.step se.o op
      let rs := Spec.step se.o se.s op
      let sortC := match op with | .allKeys => true | _ => false
      ({ se with m := rm.1, s := rs.1 }, "r=" ++ outStr sortC rm.2.1, "r=" ++ outStr sortC rs.2)

/-- `reopen`: OpenReadWrite / OpenReadableWritable on the session's current file. -/
def famReopen (se : Sess) (kv : KV) : Sess × String × String :=
  let o := wopts kv
  let roots := parseRoots (KV.getD kv "roots" "nil")
  let api := if KV.getD kv "api" "bs" == "st" then Api.storage else Api.blockstore
  let rr := resume api o roots se.m.file
  -- specification: accepted iff same container version, same data padding, same roots up to order
  let okSpec := o.v1 == se.o.v1 && (o.v1 || o.dataPad == se.o.dataPad) &&
    rootsMatch se.s.roots (roots.getD [])
  let s' : Spec.State := if okSpec then { se.s with closed := false, finalized := false, api := api } else se.s
  match rr.res with
  | .ok st =>
    ({ se with o := o, m := st, s := s' }, "r=ok", if okSpec then "r=ok" else "r=!ok")
  | .error _ =>
    ({ se with m := { se.m with file := rr.file }, s := s' }, "r=err", if okSpec then "r=ok" else "r=!ok")

end Car.Driver
