import CarModel.Driver.Scan
import CarModel.Proofs.BlockReader
/- Family `walk` — C14: any mix of Next and SkipNext over seekable / plain sources. -/
namespace Car.Driver

def visitStr : Visit → String
  | .read b => s!"n:{cidHex b.cid}:{hexOr b.data}"
  | .skipped m => s!"s:{cidHex m.cid}:{m.offset}:{m.sourceOffset}:{m.size}"

def visitsStr (vs : List Visit) : String := if vs.isEmpty then "-" else String.intercalate ";" (vs.map visitStr)

/-- run a finite choice string; stop at the first error, `none` if the string runs out first -/
def runFinite (H : HashFn) (o : ReadOpts) : List Char → BR → List Visit × String × BR
  | [], br => ([], "none", br)
  | ch :: rest, br =>
    if ch == 's' then
      match br.skipNext o with
      | .error e => ([], errName e, br)
      | .ok (m, br') => let r := runFinite H o rest br'; (.skipped m :: r.1, r.2.1, r.2.2)
    else
      match br.next H o with
      | .error e => ([], errName e, br)
      | .ok (b, br') => let r := runFinite H o rest br'; (.read b :: r.1, r.2.1, r.2.2)

def famWalk (H : HashFn) (kv : KV) : String × String :=
  let o := readOpts kv
  let kind := KV.getD kv "kind" "bytes"
  let seekable := kind != "plain"
  let arch := KV.bytes kv "arch"
  let roots := parseRoots (KV.getD kv "roots" "nil")
  let blocks := parseBlocks (KV.getD kv "blocks" "-")
  let ch := (KV.getD kv "ch" "").toList
  let cnt := KV.bool kv "cnt"
  let ver := KV.nat kv "ver" 1
  let dp := KV.nat kv "dp"
  let m := match newBlockReader o seekable arch with
    | .error e => s!"open={errName e}"
    | .ok br =>
      let r := runFinite H o ch br
      let base := s!"open=ok roots={cidsStr br.roots} visits={visitsStr r.1} end={r.2.1}"
      if cnt then
        let c := r.2.2.consumed
        -- the byte count is modelled for walks that end cleanly; after a failure only the bound matters
        base ++ (if r.2.1 == "eof" then s!" consumed={c}" else "") ++ (if ver == 2 then s!" over={if c > 51 + dp + (payload roots blocks).length then 1 else 0}" else "")
      else base
  -- specification: the visits the theorem predicts from the block list, clean EOF right after the last block
  let choice : Nat → Bool := fun i => ch.getD i 'n' == 's'
  let base := if ver == 2 then 51 + dp else 0
  let exp := expectedVisits choice base 0 (headerSize ⟨roots, 1⟩) blocks
  -- (a section limit below some section's size makes the archive unreadable for this reader: then only the
  -- bound on consumption is demanded, and that Next and SkipNext agree is the model's business)
  let tooBig := blocks.any fun b => b.cid.byteLen + b.data.length > o.maxSection
  let fits := blocks.takeWhile fun b => b.cid.byteLen + b.data.length ≤ o.maxSection
  let s := if tooBig then
      -- every call — Next or SkipNext alike — visits the sections before the first over-limit one and is
      -- then refused with the too-large error
      s!"open=ok roots={cidsStr (roots.getD [])} visits={visitsStr (expectedVisits choice base 0 (headerSize ⟨roots, 1⟩) fits)} end=toolarge" ++
        (if cnt ∧ ver == 2 then " over=0" else "")
    else s!"open=ok roots={cidsStr (roots.getD [])} visits={visitsStr exp} end=eof" ++ (if cnt ∧ ver == 2 then " over=0" else "")
  (m, s)

end Car.Driver
