import CarModel.Driver.Util
import CarModel.Extract
/- Family `extract` — C17: `car extract` over the file-system model; the UnixFS engine's trace is an input. -/
namespace Car.Driver
open Car.FS Car.Extract

def hexB (s : String) : Bytes := if s == "-" || s == "" then [] else (fromHex s).getD []

/-- `E<name>` enter, `L` leave, `F<name>.<data>.<ok>`, `S<name>.<target>`, `M<name>`, `B<name>`, `X`. -/
def parseEv (t : String) : Option Ev :=
  match t.toList with
  | 'L' :: [] => some .leave
  | 'X' :: [] => some .fail
  | 'E' :: r => some (.enter (hexB (String.ofList r)))
  | 'M' :: r => some (.missing (hexB (String.ofList r)))
  | 'B' :: r => some (.bad (hexB (String.ofList r)))
  | 'S' :: r => match (String.ofList r).splitOn "." with
    | [n, t] => some (.sym (hexB n) (hexB t))
    | _ => none
  | 'F' :: r => match (String.ofList r).splitOn "." with
    | [n, d, ok] => some (.file (hexB n) (hexB d) (ok == "1"))
    | _ => none
  | _ => none

def parseEvs (s : String) : List Ev := if s == "" then [] else (s.splitOn ",").filterMap parseEv

def parseRoot (s : String) : Option Root :=
  if s == "raw" then some .raw
  else if s == "fail" then some .fail
  else if s == "other" then some .other
  else match s.splitOn ":" with
    | ["dir", evs] => some (.dir (parseEvs evs))
    | ["dir"] => some (.dir [])
    | ["file", r] => match r.splitOn "." with
      | [d, ok] => some (.file (hexB d) (ok == "1"))
      | _ => none
    | _ => none

/-- `<relpath>:<d|f|l>:<data>` items; paths relative to the sandbox. -/
def parsePre (sb : P) (s : String) : Fs :=
  if s == "-" || s == "" then [] else
  (s.splitOn ",").filterMap fun item =>
    match item.splitOn ":" with
    | [p, k, d] =>
      let path := sb ++ splitSegs (hexB p)
      if k == "d" then some (path, Node.dir)
      else if k == "f" then some (path, Node.file (hexB d))
      else if k == "l" then some (path, Node.link (hexB d))
      else none
    | _ => none

def prefixesOf (p : P) : List P := (List.range (p.length + 1)).map fun k => p.take k

def pathLt (a b : P) : Bool :=
  bytesLt (a.foldl (fun acc s => acc ++ [slash] ++ s) []) (b.foldl (fun acc s => acc ++ [slash] ++ s) [])

/-- canonical listing of everything below the sandbox (first binding of a path wins) -/
def listing (sb : P) (fs : Fs) : String :=
  let paths := (fs.map (·.1)).filter fun p => sb.isPrefixOf p && p != sb
  let uniq := paths.foldl (fun acc p => if acc.contains p then acc else p :: acc) []
  let sorted := uniq.mergeSort (fun a b => !pathLt b a)
  let items := sorted.map fun p =>
    let rel := (p.drop sb.length).foldl (fun acc s => if acc.isEmpty then s else acc ++ [slash] ++ s) []
    match lookup fs p with
    | some .dir => toHex rel ++ ":d:"
    | some (.file d) => toHex rel ++ ":f:" ++ toHex d
    | some (.link t) => toHex rel ++ ":l:" ++ toHex t
    | none => toHex rel ++ ":?:"
  if items.isEmpty then "-" else String.intercalate "," items

def famExtract (kv : KV) : String × String :=
  let sb := splitSegs (hexB (KV.getD kv "sb" ""))
  let out := splitSegs (hexB (KV.getD kv "out" ""))
  let fs0 : Fs := parsePre sb (KV.getD kv "pre" "-") ++ (prefixesOf sb).map fun p => (p, Node.dir)
  let roots := ((KV.getD kv "roots" "").splitOn ";").filterMap parseRoot
  let (fs1, res) := extractAll out fs0 roots
  -- everything outside the resolved output directory must read as before
  let outside : Bool :=
    match evalSymlinks fs0 out with
    | .error _ => (fs1.map (·.1)).all fun p => lookup fs1 p == lookup fs0 p
    | .ok root => ((fs1.map (·.1)).filter fun p => !(root.isPrefixOf p)).all fun p => lookup fs1 p == lookup fs0 p
  let r := match res with | .ok _ => "ok" | .error _ => "err"
  -- C18 lines carry the tree the extraction must reproduce
  let spec := match KV.get kv "want" with
    | some w => s!"r=ok tree={w} outside=same"
    | none => "outside=same"
  (s!"r={r} tree={listing sb fs1} outside={if outside then "same" else "changed"}", spec)

end Car.Driver
