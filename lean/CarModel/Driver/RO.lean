import CarModel.Driver.Ops
import CarModel.ReadOnly
/- Families `ro` (open a read-only store over an archive) and `roq` (one query) — C07. -/
namespace Car.Driver

structure ROSess where
  o : WOpts
  m : Option ReadOnly
  roots : List Cid
  blocks : List Block

def famRO (kv : KV) : ROSess × String × String :=
  let o := wopts kv
  let api := if KV.getD kv "api" "bs" == "st" then Api.storage else Api.blockstore
  let file := KV.bytes kv "arch"
  let roots := (parseRoots (KV.getD kv "roots" "nil")).getD []
  let blocks := parseBlocks (KV.getD kv "blocks" "-")
  let srcName := KV.getD kv "src" "auto"
  -- a supplied index is generated from the payload with the stated codec and identity option
  let payloadOf (f : Bytes) : Bytes :=
    match readHeader o.maxHeader f with
    | .ok (h, _) => if h.version = 2 then
        match readV2Header ((f.drop 11).take 40) with
        | .ok (hdr, _) => (f.drop hdr.dataOffset).take hdr.dataSize
        | .error _ => f
      else f
    | .error _ => f
  let src : IdxSource :=
    if srcName == "auto" then .auto else
    let io : IdxOpts := { storeIdentity := KV.bool kv "ssid", maxIndexCidSize := 1048576 }
    match loadIndexRecords .seekable io (payloadOf file) with
    | .ok rs => match Index.load (if srcName == "sorted" then codecSorted else codecMhSorted) rs with
      | some ix => .supplied ix
      | none => .auto
    | .error _ => .auto
  match openReadOnly api o src file with
  | .error e => ({ o := o, m := none, roots := roots, blocks := blocks }, s!"open={errName e}", "open=ok")
  | .ok r =>
    let keys := match api with
      | .blockstore => match r.allKeys o with
        | .ok ks => "l:" ++ cidsStr ks
        | .error e => errName e
      | .storage => "na"
    let skeys := match api with
      | .blockstore => "l:" ++ cidsStr (blocks.map fun (b : Block) => if o.wholeCids then b.cid else b.cid.toRawV1)
      | .storage => "na"
    ({ o := o, m := some r, roots := roots, blocks := blocks },
     s!"open=ok roots={cidsStr r.roots} keys={keys}", s!"open=ok roots={cidsStr roots} keys={skeys}")

def famROQ (se : ROSess) (kv : KV) : String × String :=
  match se.m with
  | none => ("bad-op", "")
  | some r =>
    let c := (parseCid (KV.getD kv "c" "")).getD default
    let kind := KV.getD kv "kind" "has"
    let op : Op := if kind == "has" then .has c else if kind == "get" then .get c else .getSize c
    let m := "r=" ++ outStr false (r.step se.o op)
    -- specification: a front-to-back scan of the payload
    let idr := Spec.idRule se.o c
    let carrying := se.blocks.filter fun b => Spec.sameKey se.o b.cid c
    let alts (f : Block → String) : String :=
      if carrying.isEmpty then "notfound" else String.intercalate "|" (carrying.map f).eraseDups
    let s :=
      if kind == "has" then s!"r={if idr || !carrying.isEmpty then "true" else "false"}"
      else if kind == "get" then (if idr then s!"r=d:{hexOr c.digest}" else "r=" ++ alts fun b => "d:" ++ hexOr b.data)
      else (if idr then s!"r=n:{c.digest.length}" else "r=" ++ alts fun b => s!"n:{b.data.length}")
    (m, s)

end Car.Driver
