import CarModel.Driver.Idx
/- Family `idxser` — C11: index serialisation round trip, canonical form, permutation invariance. -/
namespace Car.Driver

def parseRecs (s : String) : List Record :=
  if s == "-" then [] else
  (s.splitOn ";").filterMap fun t =>
    match t.splitOn "@" with
    | [c, o] => match parseCid c, o.toNat? with
      | some c, some o => some ⟨c, o⟩
      | _, _ => none
    | _ => none

def famIdxSer (kv : KV) : String × String :=
  let codecName := KV.getD kv "codec" "mh"
  let codec := if codecName == "sorted" then codecSorted else codecMhSorted
  let recs := parseRecs (KV.getD kv "recs" "-")
  let perm := ((KV.getD kv "perm" "").splitOn ".").filterMap String.toNat?
  let recs2 := perm.filterMap fun i => recs[i]?
  let nodup := KV.bool kv "nodup"
  let qs := parseCids (KV.getD kv "q" "-")
  let out (rs : List Record) : String :=
    match Index.load codec rs with
    | none => "r=err"
    | some ix =>
      let bytes := ix.bytes
      -- read it back and query the re-read index
      let back := match Index.read bytes with
        | .ok (ix2, rest) =>
          let gets := String.intercalate "," (qs.map fun q => natsStr (ix2.getAll q))
          let each := match ix2 with
            | .sorted _ => "na"
            | .mh mi => entriesStr mi.entries
          s!"rt=ok rest={rest.length} get={if qs.isEmpty then "-" else gets} each={each}"
        | .error _ => "rt=err"
      s!"r=ok n={bytes.length} len={bytes.length} " ++ (if nodup then s!"bytes={hexOr bytes} " else "") ++ back
  let m := out recs2
  -- specification: everything is a function of the record multiset (canonical listing), the byte count is right,
  -- and (no shared digest) the bytes do not depend on the load order: compare with the identity order
  let s :=
    let key (a b : Cid) : Bool := if codecName == "mh" then a.digest == b.digest && a.mhCode == b.mhCode else a.digest == b.digest
    let gets := String.intercalate "," (qs.map fun q => natsStr ((recs.filter fun r => key r.cid q).map (·.offset)))
    let each := if codecName == "sorted" then "na" else entriesStr (recs.map fun r => (r.cid.mhCode, r.cid.digest, r.offset))
    let refBytes := match Index.load codec recs with | some ix => hexOr ix.bytes | none => "-"
    s!"r=ok rt=ok rest=0 get={if qs.isEmpty then "-" else gets} each={each}" ++ (if nodup then s!" bytes={refBytes}" else "")
  (m, s)

/-- record `i` of the big-bucket case: a sha2-256-coded raw CID whose 32-byte digest starts with `i`
    (big endian, 4 bytes) and goes on with the bytes `i + j`; offset `100 i + 7` -/
def bigRecord (i : Nat) : Record :=
  let d : Bytes := [UInt8.ofNat (i / 2 ^ 24), UInt8.ofNat (i / 2 ^ 16), UInt8.ofNat (i / 2 ^ 8), UInt8.ofNat i] ++
    (List.range 28).map fun j => UInt8.ofNat (i + j + 4)
  ⟨⟨1, 0x55, 0x12, d⟩, 100 * i + 7⟩

/-- `idxbig`: one bucket past a megabyte — the count the writer reports, the bytes written, the round trip
    and three lookups (no hex dump of the index). -/
def famIdxBig (kv : KV) : String × String :=
  let codec := if KV.getD kv "codec" "mh" == "sorted" then codecSorted else codecMhSorted
  let n := KV.nat kv "n" 27000
  let recs := (List.range n).map bigRecord
  let qs := [0, n / 2, n - 1].map fun i => (bigRecord i).cid
  let res := match Index.load codec recs with
    | none => "r=err"
    | some ix =>
      let bytes := ix.bytes
      match Index.read bytes with
      | .ok (ix2, rest) =>
        let gets := String.intercalate "," (qs.map fun q => natsStr (ix2.getAll q))
        s!"r=ok n={bytes.length} len={bytes.length} rt=ok rest={rest.length} get={gets}"
      | .error _ => s!"r=ok n={bytes.length} len={bytes.length} rt=err"
  (res, res)

end Car.Driver
