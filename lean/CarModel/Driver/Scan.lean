import CarModel.Driver.Util
import CarModel.Layout
import CarModel.RootReader
/-
Families `scan` (any byte string through a scanning reader) and `mut` (a valid archive,
truncated or corrupted) — C01 (reader side), C02.
-/
namespace Car.Driver

/-- Which reader: br-seek | br-plain (v2 BlockReader over bytes.Reader / plain reader),
    v1 (internal carv1.CarReader, requires roots), root (root-module CarReader). -/
def runReader (H : HashFn) (rd : String) (o : ReadOpts) (input : Bytes) : Except Err ScanResult :=
  if rd == "br-seek" then scanBlockReader H o true input
  else if rd == "br-plain" then scanBlockReader H o false input
  else if rd == "v1" then scanV1 H o true input
  else if rd == "root" || rd == "rootload" then scanRoot H true input
  else if rd == "rootloadfast" then
    -- LoadCar into a store with PutMany: blocks are handed over in batches of 1001 and at a clean end;
    -- a failure drops the batch being collected
    match scanRoot H true input with
    | .error e => .error e
    | .ok r => if r.ending == .eof then .ok r else .ok { r with blocks := r.blocks.take (1001 * (r.blocks.length / 1001)) }
  else .error .other

/-- result + (for verifying readers) whether every returned block verifies under `H`. -/
def resStr (H : HashFn) (o : ReadOpts) (r : Except Err ScanResult) : String :=
  match r with
  | .error _ => scanResultStr r ++ (if o.trusted then "" else " sound=1")
  | .ok x =>
    if o.trusted then scanResultStr r
    else scanResultStr r ++ " sound=" ++ (if x.blocks.all (fun b => verifies H b.cid b.data) then "1" else "0")

/-- a pure-SkipNext scan (`sk-seek` / `sk-plain`): the CIDs visited and how the iteration ended -/
def skipScanStr (H : HashFn) (o : ReadOpts) (seekable : Bool) (input : Bytes) : String :=
  let tail := if o.trusted then "" else " sound=1"
  match newBlockReader o seekable input with
  | .error e => s!"open={errName e}" ++ tail
  | .ok br =>
    let r := BR.runChoices H o (fun _ => true) (input.length + 2) 0 br
    let cids := r.1.filterMap fun v => match v with | .skipped m => some m.cid | .read b => some b.cid
    s!"open=ok roots={cidsStr br.roots} cids={cidsStr cids} end={errName r.2}" ++ tail

def isSkipReader (rd : String) : Bool := rd == "sk-seek" || rd == "sk-plain"

def readerStr (H : HashFn) (rd : String) (o : ReadOpts) (input : Bytes) : String :=
  if isSkipReader rd then skipScanStr H o (rd == "sk-seek") input else resStr H o (runReader H rd o input)

def famScan (H : HashFn) (kv : KV) : String × String :=
  let o := readOpts kv
  let input := KV.bytes kv "in"
  let m := readerStr H (KV.getD kv "rd" "br-seek") o input
  -- specification for arbitrary bytes (C02, first half): whatever comes back is sound.
  -- the harness measures `sound` with go-multihash, independently of go-car.
  let s := if o.trusted then "" else "sound=1"
  (m, s)

/-- Build the archive a `mut` line describes. -/
def buildArchive (kv : KV) : Bytes × Nat :=
  let roots := parseRoots (KV.getD kv "roots" "nil")
  let blocks := parseBlocks (KV.getD kv "blocks" "-")
  let p := payload roots blocks
  if KV.getD kv "ver" "1" == "1" then (p, 0)
  else
    let dp := KV.nat kv "dp"
    (layoutV2 dp 0 p true true [], 51 + dp)

/-- Section boundaries inside the payload, relative to payload start (end of header, then after each section). -/
def boundaries (roots : Option (List Cid)) (blocks : List Block) : List Nat :=
  let h := headerSize { roots := roots, version := 1 }
  (blocks.foldl (fun (acc : List Nat × Nat) b => let e := acc.2 + sectionSize b; (acc.1 ++ [e], e)) ([h], h)).1

def famMut (H : HashFn) (kv : KV) : String × String :=
  let o := readOpts kv
  let rd := KV.getD kv "rd" "br-seek"
  let roots := parseRoots (KV.getD kv "roots" "nil")
  let blocks := parseBlocks (KV.getD kv "blocks" "-")
  let (built, base) := buildArchive kv
  let arch := KV.bytes kv "arch"
  let archok := if arch.take built.length == built ∧ (base = 0 → arch = built) then "1" else "0"
  match KV.get kv "trunc" with
  | some ks =>
    let k := ks.toNat!
    let input := arch.take k
    let m := readerStr H rd o input
    -- spec: cut inside the container header / payload header → open fails;
    -- cut on a section boundary → exactly the complete sections, clean end;
    -- elsewhere → exactly the complete sections, then an error that is not a clean end.
    let bnds := boundaries roots blocks
    let rel := k - base
    let s :=
      if k < base + bnds.head! then "open=!ok"
      else
        let complete := (bnds.drop 1).filter (· ≤ rel) |>.length
        let pre := if isSkipReader rd then cidsStr ((blocks.take complete).map (·.cid)) else blocksStr (blocks.take complete)
        let bk := if isSkipReader rd then "cids" else "blocks"
        if rd == "rootloadfast" && !bnds.contains rel then "open=ok end=!eof"   -- which blocks reached the store is batch policy
        else if bnds.contains rel then
          -- a CARv2 whose window is cut short still announces dataSize: cut ≠ end is not clean for v2 either,
          -- but the limit reader cannot tell; the property only demands clean EOF *exactly on* boundaries.
          s!"open=ok {bk}={pre} end=eof"
        else s!"open=ok {bk}={pre} end=!eof"
    (m ++ s!" archok={archok}", s)
  | none =>
    let i := KV.nat kv "flip"
    let x := UInt8.ofNat (KV.nat kv "xor" 1)
    let input := arch.take i ++ ((arch.drop i).take 1).map (· ^^^ x) ++ arch.drop (i + 1)
    let m := resStr H o (runReader H rd o input)
    -- spec: a flipped byte inside block i's data or digest → blocks before i, then a non-clean error.
    let bnds := boundaries roots blocks
    let rel := i - base
    let s :=
      if i < base + bnds.head! then ""   -- header corruption: no demand beyond soundness
      else
        let idx := (bnds.drop 1).filter (· ≤ rel) |>.length
        match blocks[idx]? with
        | none => ""
        | some b =>
          let secStart := bnds[idx]!
          let l := b.cid.byteLen + b.data.length
          let cidStart := secStart + uvarintSize l
          let digStart := cidStart + (b.cid.byteLen - b.cid.digest.length)
          if rel ≥ digStart then
            if rd == "rootloadfast" then "open=ok end=!eof" else
            s!"open=ok blocks={blocksStr (blocks.take idx)} end=!eof"
          else "sound=1"
    (m ++ s!" archok={archok}", if s.isEmpty then "sound=1" else s ++ " sound=1")

end Car.Driver
