import CarModel.Driver.Ops
import CarModel.Driver.Scan
import CarModel.Cli
import CarModel.Traversal
/- Family `cli` — C19: the car sub-commands as functions from input files to output bytes, each output
   archive then judged by the inspection and verification models. -/
namespace Car.Driver
open Car.Cli

def rdOpts : ReadOpts := { zeroEOF := true }

/-- verdicts of `car inspect --full` and `car verify` on an output archive -/
def judge (H : HashFn) (out : Bytes) : String :=
  let i := match inspect H rdOpts true out with | .ok _ => "ok" | .error _ => "err"
  let v := match verifyCar H {} out with | .ok _ => "ok" | .error _ => "err"
  s!"inspect={i} verify={v}"

def judgeSpec (roots : List Cid) (blocks : List Block) : String :=
  let v := if !roots.isEmpty && roots.all (fun r => blocks.any fun b => b.cid == r) then "ok" else "err"
  s!"inspect=ok verify={v}"

def codecOf (s : String) : Option Nat :=
  if s == "none" then none else if s == "sorted" then some codecSorted else some codecMhSorted

def outStrB (H : HashFn) (archive : Bool) : Except Err Bytes → String
  | .ok b => s!"r=ok out={hexOr b}" ++ (if archive then " " ++ judge H b else "")
  | .error .nonCanonical => "r=noncanon"
  | .error _ => "r=err"

/-- blocks the default store keeps of a list, in order (multihash keys, identity CIDs dropped) -/
def specLog (o : WOpts) (bs : List Block) : List Block :=
  (bs.foldl (fun (s : Spec.State) b => (Spec.step o s (.put b.cid b.data)).1) { api := .blockstore, roots := [] }).log

def famCli (H : HashFn) (kv : KV) : String × String :=
  let op := KV.getD kv "op" ""
  let input := KV.bytes kv "in"
  let roots := parseRoots (KV.getD kv "roots" "nil")
  let blocks := parseBlocks (KV.getD kv "blocks" "-")
  let hs := headerSize ⟨roots, 1⟩
  let mh := 32 * 2 ^ 20
  if op == "index" then
    let ver := KV.nat kv "ver" 2
    let codec := codecOf (KV.getD kv "codec" "mh")
    let m := outStrB H true (indexCmd mh ver codec input)
    let p := payload roots blocks
    let s : String :=
      if ver == 1 then s!"r=ok out={hexOr p} " ++ judgeSpec (roots.getD []) blocks
      else match codec with
        | none => s!"r=ok out={hexOr (layoutV2 0 0 p false false [])} " ++ judgeSpec (roots.getD []) blocks
        | some c => match Index.load c (withOffsets hs blocks) with
          | some ix => s!"r=ok out={hexOr (layoutV2 0 0 p true false ix.bytes)} " ++ judgeSpec (roots.getD []) blocks
          | none => "r=err"
    (m, s)
  else if op == "indexcreate" then
    let c := (codecOf (KV.getD kv "codec" "mh")).getD codecMhSorted
    let m := outStrB H false (indexCreateCmd mh c input)
    let recs := (withOffsets hs blocks).filter fun r => !r.cid.isIdentity
    let s := if blocks.any (fun b => !b.cid.isIdentity && b.cid.byteLen > 2048) then "r=err"
      else match Index.load c recs with
        | some ix => s!"r=ok out={hexOr ix.bytes}"
        | none => "r=err"
    (m, s)
  else if op == "detach" then
    let m := outStrB H false (detachCmd mh input)
    -- "an index equal to a regenerated one": the writer's codec and identity option are in the line
    let c := (codecOf (KV.getD kv "codec" "mh")).getD codecMhSorted
    let sid := KV.bool kv "sid"
    let recs := (withOffsets hs blocks).filter fun r => sid || !r.cid.isIdentity
    let s := if KV.getD kv "codec" "mh" == "none" then "r=err" else
      match Index.load c recs with
      | some ix => s!"r=ok out={hexOr ix.bytes}"
      | none => "r=err"
    (m, s)
  else if op == "list" then
    let m := match listCmd H input with
      | .error _ => "r=err"
      | .ok cs => s!"r=ok cids={cidsStr cs}"
    (m, s!"r=ok cids={cidsStr (blocks.map (·.cid))}")
  else if op == "getblock" then
    let c := (parseCid (KV.getD kv "c" "")).getD default
    let o : WOpts := {}
    let m := match getBlockCmd input c with
      | .ok d => s!"r=ok out={hexOr d}"
      | .error _ => "r=err"
    let s := if c.isIdentity then s!"r=ok out={hexOr c.digest}" else
      match blocks.find? fun b => Spec.sameKey o b.cid c with
      | some b => s!"r=ok out={hexOr b.data}"
      | none => "r=err"
    (m, s)
  else if op == "filter" then
    let ver := KV.nat kv "ver" 2
    let inv := KV.bool kv "inv"
    let sel := parseCids (KV.getD kv "cids" "-")
    let keep : Cid → Bool := fun c => if sel.contains c then !inv else inv
    let o : WOpts := { v1 := ver == 1 }
    let m := match scanBlockReader H {} true input with
      | .error _ => "r=err"
      | .ok x =>
        if x.ending != .eof then "r=err" else
        let outRoots := x.roots.filter keep
        let (st0, _) := Store.create .blockstore o (some outRoots)
        let st := (x.blocks.filter fun b => keep b.cid).foldl (fun (s : Store) b => (s.step o (.put b.cid b.data)).1) st0
        let fin := st.step o .finalize
        match fin.2.1 with
        | .ok => s!"r=ok out={hexOr fin.1.file} " ++ judge H fin.1.file
        | _ => "r=err"
    let outRoots := (roots.getD []).filter keep
    let log := specLog o (blocks.filter fun b => keep b.cid)
    let s := match Spec.finalFile o (some outRoots) log with
      | some f => s!"r=ok out={hexOr f} " ++ judgeSpec outRoots log
      | none => "r=err"
    (m, s)
  else if op == "filterappend" then
    -- `car filter --append`: reopen the existing CARv2 output under its own roots (a resumed
    -- session: C12), put the newly selected blocks of `in`, finalize
    let ver := KV.nat kv "ver" 2
    let inv := KV.bool kv "inv"
    let sel := parseCids (KV.getD kv "cids" "-")
    let keep : Cid → Bool := fun c => if sel.contains c then !inv else inv
    let prev := KV.bytes kv "prev"
    let o : WOpts := {}
    let m := match scanBlockReader H {} true input with
      | .error _ => "r=err"
      | .ok x =>
        if ver != 2 then "r=err" else
        -- OpenReader(outfile): must be a CARv2 whose inner header can be read
        match newBlockReader {} true prev with
        | .error _ => "r=err"
        | .ok pr =>
          if pr.version != 2 then "r=err" else
          let rr := resume .blockstore o (some pr.roots) prev
          match rr.res with
          | .error _ => "r=err"
          | .ok st0 =>
            -- the walk stops at the first error of the source; blocks put before it stay put
            let st := (x.blocks.filter fun b => keep b.cid).foldl (fun (s : Store) b => (s.step o (.put b.cid b.data)).1) st0
            if x.ending != .eof then "r=err" else
            let fin := st.step o .finalize
            match fin.2.1 with
            | .ok => s!"r=ok out={hexOr fin.1.file} " ++ judge H fin.1.file
            | _ => "r=err"
    let proots := (parseRoots (KV.getD kv "proots" "nil")).getD []
    let pblocks := parseBlocks (KV.getD kv "pblocks" "-")
    let log := specLog o (pblocks ++ blocks.filter fun b => keep b.cid)
    let s := if ver != 2 || KV.nat kv "pver" 2 != 2 then "r=err" else
      match Spec.finalFile o (some proots) log with
      | some f => s!"r=ok out={hexOr f} " ++ judgeSpec proots log
      | none => "r=err"
    (m, s)
  else if op == "getdag" then
    -- `car get-dag`: the traversal engine's load sequence is an input (`loads`, `eng`); version 2 is a
    -- store session under the requested root that puts every loaded block, version 1 the root
    -- module's selective writer (C15)
    let ver := KV.nat kv "ver" 2
    let root := (parseCid (KV.getD kv "root" "")).getD default
    let loads := parseCids (KV.getD kv "loads" "-")
    -- the source is a read-only blockstore with default options: a key is answered by the first
    -- section carrying its multihash
    let get : Cid → Bytes := fun c =>
      ((blocks.find? fun b => b.cid.mhCode == c.mhCode && b.cid.digest == c.digest).map (·.data)).getD []
    let eng := KV.getD kv "eng" "ok"
    let o : WOpts := {}
    let res :=
      if eng != "ok" then "r=err"
      else if ver == 1 then
        let v1 := teeOutput [root] get loads
        s!"r=ok out={hexOr v1} " ++ judge H v1
      else
        let (st0, _) := Store.create .blockstore o (some [root])
        let st := loads.foldl (fun (s : Store) c => (s.step o (.put c (get c))).1) st0
        let fin := st.step o .finalize
        match fin.2.1 with
        | .ok => s!"r=ok out={hexOr fin.1.file} " ++ judge H fin.1.file
        | _ => "r=err"
    -- spec: exactly the loaded blocks, once each (per store key for version 2: multihash; per CID for
    -- version 1), in first-load order, under the requested root
    let log := specLog o (loads.map fun c => ⟨c, get c⟩)
    let s :=
      if eng != "ok" then "r=err"
      else if ver == 1 then
        -- the root module's writer keys by whole CID: every distinct loaded CID once, in first-load order
        let log1 := (dedupFirst loads).map fun c => (⟨c, get c⟩ : Block)
        s!"r=ok out={hexOr (payload (some [root]) log1)} " ++ judgeSpec [root] log1
      else match Spec.finalFile o (some [root]) log with
        | some f => s!"r=ok out={hexOr f} " ++ judgeSpec [root] log
        | none => "r=err"
    (res, s)
  else if op == "concat" then
    let ver := KV.nat kv "ver" 1
    let n := KV.nat kv "n" 1
    let ins := (List.range n).map fun i => KV.bytes kv s!"in{i}"
    let m := outStrB H true (concatCmd mh ver ins)
    let rootsOf (i : Nat) := parseRoots (KV.getD kv s!"roots{i}" "nil")
    let blocksOf (i : Nat) := parseBlocks (KV.getD kv s!"blocks{i}" "-")
    let all := (List.range n).flatMap blocksOf
    let p := payload (rootsOf 0) all
    let anyNoRoots := (List.range n).any fun i => ((rootsOf i).getD []).isEmpty
    let s := if anyNoRoots then "r=err"
      else if ver == 2 then s!"r=ok out={hexOr (layoutV2 0 0 p false false [])} " ++ judgeSpec ((rootsOf 0).getD []) all
      else s!"r=ok out={hexOr p} " ++ judgeSpec ((rootsOf 0).getD []) all
    (m, s)
  else ("bad-op", "")

end Car.Driver
