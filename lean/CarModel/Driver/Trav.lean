import CarModel.Driver.Idx
import CarModel.Traversal
/- Family `trav` — C15: traversal writers, with the engine's load sequence as input. -/
namespace Car.Driver

def famTrav (kv : KV) : String × String :=
  let kind := KV.getD kv "kind" "v1"
  let blocks := parseBlocks (KV.getD kv "blocks" "-")
  let get : Cid → Bytes := fun c => ((blocks.find? fun b => b.cid == c).map (·.data)).getD []
  let loads := parseCids (KV.getD kv "loads" "-")
  let roots := if kind == "writecar" || kind == "rootselmulti" then parseCids (KV.getD kv "roots" "-")
               else (parseCid (KV.getD kv "root" "")).toList
  let dp := KV.nat kv "dp"
  let ip := KV.nat kv "ip"
  let idxName := KV.getD kv "idx" "mh"
  let v1 := teeOutput roots get loads
  let em := emitted get loads
  let idxBytes : Bytes :=
    if idxName == "none" then [] else
    match Index.load (if idxName == "sorted" then codecSorted else codecMhSorted) (withOffsets (headerSize ⟨some roots, 1⟩) em) with
    | some ix => ix.bytes
    | none => []
  let total := 51 + dp + v1.length + (if idxName == "none" then 0 else ip + idxBytes.length)
  let ioff := if idxName == "none" then 0 else 51 + dp + v1.length + ip
  let eng := KV.getD kv "eng" "ok"
  let res :=
    if eng != "ok" then
      -- the engine failed part-way: the writers that return a byte count still return what went out
      (if kind == "v1" || (kind == "v2sel" && KV.getD kv "opened" "1" == "1") then "r=err nsame=1" else "r=err")
    else if kind == "v2sel" then s!"r=ok n={total} len={total} hdr={51 + dp}.{countedSize roots get loads}.{ioff} v1={hexOr v1}"
    else if kind == "v1" then s!"r=ok n={v1.length} v1={hexOr v1}"
    else if kind == "file" then s!"r=ok len={total} hdr={51 + dp}.{v1.length}.{ioff} v1={hexOr v1}"
    else if kind == "rootsel" || kind == "rootselmulti" then
      let cbs := callbacks roots get loads
      let cb := if cbs.isEmpty then "-" else String.intercalate "," (cbs.map fun p => s!"{cidHex p.1}:{p.2.1}:{p.2.2}")
      s!"r=ok v1={hexOr v1} cb={cb} size={countedSize roots get loads} cids={cidsStr (dedupFirst loads)} dumpsame=1"
    else s!"r=ok v1={hexOr v1}"
  (res, res)

end Car.Driver
