import CarModel.Reader
import CarModel.Hex
import CarModel.Sha256
/-
Driver utilities: line protocol parsing and canonical printing. Not part of any theorem.
-/
namespace Car.Driver

abbrev KV := List (String × String)

def parseKV (toks : List String) : KV :=
  toks.filterMap fun t =>
    match t.splitOn "=" with
    | [k, v] => some (k, v)
    | k :: v :: more => some (k, String.intercalate "=" (v :: more))
    | _ => none

def KV.get (kv : KV) (k : String) : Option String := (kv.find? (·.1 == k)).map (·.2)
def KV.getD (kv : KV) (k : String) (d : String) : String := (KV.get kv k).getD d
def KV.nat (kv : KV) (k : String) (d : Nat := 0) : Nat := ((KV.get kv k).bind String.toNat?).getD d
def KV.bool (kv : KV) (k : String) : Bool := KV.getD kv k "0" == "1"
def KV.bytes (kv : KV) (k : String) : Bytes := ((KV.get kv k).bind fromHex).getD []

def errName : Err → String
  | .eof => "eof" | .unexpectedEOF => "ueof" | .tooLarge => "toolarge" | .headerTooLarge => "hdrtoolarge"
  | .badVarint => "badvarint" | .badCid => "badcid" | .hashMismatch => "mismatch"
  | .badHeader => "badheader" | .badVersion => "badversion" | .noRoots => "noroots"
  | .zeroSection => "zerosection" | .cidTooLarge => "cidtoolarge" | .notFound => "notfound"
  | .closed => "closed" | .finalized => "finalized" | .nonCanonical => "noncanon" | .other => "other"

def cidHex (c : Cid) : String := toHex c.bytes

def cidsStr (cs : List Cid) : String :=
  if cs.isEmpty then "-" else String.intercalate "," (cs.map cidHex)

def blockStr (b : Block) : String := cidHex b.cid ++ ":" ++ hexOr b.data

def blocksStr (bs : List Block) : String :=
  if bs.isEmpty then "-" else String.intercalate ";" (bs.map blockStr)

def parseCid (s : String) : Option Cid := (fromHex s).bind cidCast

/-- `nil` = nil slice, `-` = empty slice, else comma-separated CID hex. -/
def parseRoots (s : String) : Option (List Cid) :=
  if s == "nil" then none
  else if s == "-" then some []
  else some ((s.splitOn ",").filterMap parseCid)

def parseBlock (s : String) : Option Block :=
  match s.splitOn ":" with
  | [c, d] => match parseCid c, fromHex d with
    | some c, some d => some ⟨c, d⟩
    | _, _ => none
  | _ => none

def parseBlocks (s : String) : List Block :=
  if s == "-" then [] else (s.splitOn ";").filterMap parseBlock

def readOpts (kv : KV) : ReadOpts :=
  { zeroEOF := KV.bool kv "z", maxSection := KV.nat kv "ms" (8 * 2 ^ 20),
    maxHeader := KV.nat kv "mh" (32 * 2 ^ 20), trusted := KV.bool kv "tr" }

/-- Hash table lines (`hash code=… data=… digest=…`) for functions the driver does not implement. -/
abbrev HashTable := List (Nat × Bytes × Bytes)

def mkHash (tbl : HashTable) : HashFn := fun code data =>
  if code = 0x12 then some (Sha256.hash data)
  else if code = 0x56 then some (Sha256.hash (Sha256.hash data))
  else (tbl.find? fun e => e.1 == code && e.2.1 == data).map (·.2.2)

def scanResultStr : Except Err ScanResult → String
  | .error e => s!"open={errName e}"
  | .ok r => s!"open=ok roots={cidsStr r.roots} blocks={blocksStr r.blocks} end={errName r.ending}"

end Car.Driver
