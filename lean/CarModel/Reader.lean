import CarModel.V2
/-
`v2/block_reader.go`: NewBlockReader / Next / SkipNext with the offset bookkeeping, over a
seekable or a plain source. For CARv2 the reader is an `io.LimitReader` over the payload window
(never seekable, so SkipNext slurps).
-/
namespace Car

structure BR where
  version : Nat
  roots : List Cid
  /-- bytes still readable through `br.r` (for v2: the rest of the payload window) -/
  rest : Bytes
  /-- total length of the underlying source -/
  srcLen : Nat
  /-- `br.offset`: source offset of the next section -/
  offset : Nat
  v1offset : Nat
  /-- `br.readerSize` (−1 = unknown) -/
  readerSize : Option Nat
  /-- `br.r` implements io.ReadSeeker (v1 over a seekable source only) -/
  seekable : Bool
  /-- bytes *read* from the underlying source so far (seeks do not count) -/
  consumed : Nat := 0
  deriving Repr

structure BlockMeta where
  cid : Cid
  offset : Nat
  sourceOffset : Nat
  size : Nat
  deriving DecidableEq, Repr

/-- `NewBlockReader`. -/
def newBlockReader (o : ReadOpts) (seekable : Bool) (src : Bytes) : Except Err BR :=
  match readHeader o.maxHeader src with
  | .error e => .error e
  | .ok (h, rest) =>
    if h.version = 1 then
      .ok { version := 1, roots := h.rootList, rest := rest, srcLen := src.length,
            offset := headerSize h, v1offset := 0, readerSize := none, seekable := seekable,
            consumed := src.length - rest.length }
    else if h.version = 2 then
      match readV2Header rest with
      | .error e => .error e
      | .ok (v2h, rest2) =>
        let skip := v2h.dataOffset - pragmaSize - v2HeaderSize
        -- plain reader: CopyN(discard) fails with io.EOF when the stream is short;
        -- seekable reader: Seek succeeds, the next read reports EOF
        if ¬ seekable ∧ rest2.length < skip then .error .eof else
        let window := (rest2.drop skip).take v2h.dataSize
        match readHeader o.maxHeader window with
        | .error e => .error e
        | .ok (h1, wrest) =>
          if h1.version ≠ 1 then .error .badVersion
          else .ok { version := 2, roots := h1.rootList, rest := wrest, srcLen := src.length,
                     offset := v2h.dataOffset + headerSize h1, v1offset := v2h.dataOffset,
                     readerSize := some (v2h.dataOffset + v2h.dataSize), seekable := false,
                     consumed := 51 + (if seekable then 0 else skip) + (window.length - wrest.length) }
    else .error .badVersion

/-- `BlockReader.Next`. -/
def BR.next (H : HashFn) (o : ReadOpts) (br : BR) : Except Err (Block × BR) :=
  match nextBlock H o br.rest with
  | .error e => .error e
  | .ok (b, rest) =>
    let ss := b.cid.byteLen + b.data.length
    .ok (b, { br with rest := rest, offset := br.offset + uvarintSize ss + ss,
                      consumed := br.consumed + (br.rest.length - rest.length) })

/-- `BlockReader.SkipNext`. -/
def BR.skipNext (o : ReadOpts) (br : BR) : Except Err (BlockMeta × BR) :=
  match ldReadSize o.zeroEOF o.maxSection br.rest with
  | .error e => .error e
  | .ok (l, rest) =>
    if l = 0 then .error .badCid else
    match cidFromReader (rest.take l) with
    | .error .eof => .error .unexpectedEOF   -- repaired: was a clean io.EOF (fixed C02/D1)
    | .error .invalid => .error .badCid
    | .ok (n, c, _) =>
      let blockSize := l - n
      let lenSize := uvarintSize l
      let after := rest.drop n
      if br.seekable then
        -- Seek(blockSize, SeekCurrent) always succeeds; compare with the source size
        let final := br.offset + lenSize + l
        if final > br.srcLen then .error .unexpectedEOF
        else .ok (⟨c, br.offset - br.v1offset, br.offset, blockSize⟩,
                  { br with rest := after.drop blockSize, offset := final, readerSize := some br.srcLen,
                            consumed := br.consumed + lenSize + n })
      else
        if after.length < blockSize then .error .unexpectedEOF
        else .ok (⟨c, br.offset - br.v1offset, br.offset, blockSize⟩,
                  { br with rest := after.drop blockSize, offset := br.offset + lenSize + n + blockSize,
                            consumed := br.consumed + lenSize + n + blockSize })

/-- Drain with `Next()`. -/
def BR.drain (H : HashFn) (o : ReadOpts) (br : BR) : List Block × Err :=
  scanSections H o br.rest

/-- Whole-stream result of the v2 block reader. -/
def scanBlockReader (H : HashFn) (o : ReadOpts) (seekable : Bool) (src : Bytes) : Except Err ScanResult :=
  match newBlockReader o seekable src with
  | .error e => .error e
  | .ok br => let r := br.drain H o; .ok ⟨br.roots, r.1, r.2⟩

end Car

namespace Car

/-- What one step of a mixed Next/SkipNext iteration yields. -/
inductive Visit
  | read (b : Block)
  | skipped (m : BlockMeta)
  deriving DecidableEq, Repr

def Visit.cid : Visit → Cid
  | .read b => b.cid
  | .skipped m => m.cid

/-- Iterate with `choice i = true` ⇒ `SkipNext`, `false` ⇒ `Next`, until an error (eof = clean end). -/
def BR.runChoices (H : HashFn) (o : ReadOpts) (choice : Nat → Bool) : (fuel i : Nat) → BR → List Visit × Err
  | 0, _, _ => ([], .other)
  | fuel + 1, i, br =>
    if choice i then
      match br.skipNext o with
      | .error e => ([], e)
      | .ok (m, br') => let r := BR.runChoices H o choice fuel (i + 1) br'; (.skipped m :: r.1, r.2)
    else
      match br.next H o with
      | .error e => ([], e)
      | .ok (b, br') => let r := BR.runChoices H o choice fuel (i + 1) br'; (.read b :: r.1, r.2)

end Car
