import CarModel.Store
/-
C16: transient write failures. A fault is "(k, n)": the k-th write call of the operation returns an
error after `n` bytes of it reached the file (n ≤ length: a short write, or a full write whose
error is still reported). The model is the repaired behaviour (fixed C16/D13): a Put whose section
write fails rewinds the data writer and cuts the partial section off again, so the store — file,
position, index — is exactly what it was before the call.
-/
namespace Car

structure Fault where
  call : Nat
  bytes : Nat
  deriving Repr, DecidableEq

/-- the write events that reach the file when call `f.call` of `evs` fails after `f.bytes` bytes -/
def faultyPrefix (evs : List WriteEv) (f : Fault) : List WriteEv :=
  evs.take f.call ++ (match evs[f.call]? with
    | some (.write off d) => [.write off (d.take f.bytes)]
    | _ => [])

/-- Put of one block under an optional fault. Returns the new store, the answer, the events that
    reached the file (including the repair truncate), and whether the fault fired. -/
def Store.putOneF (o : WOpts) (s : Store) (c : Cid) (d : Bytes) (fault : Option Fault) :
    Store × Out × List WriteEv :=
  match shouldPut o s.idx c with
  | .error e => (s, .err e, [])
  | .ok false => (s, .ok, [])
  | .ok true =>
    let evs := ldWriteEvs (s.base + s.pos) [c.bytes, d]
    match fault with
    | some f =>
      if f.call < evs.length then
        -- partial section written, then undone: rewind + truncate back to the section start
        let done := faultyPrefix evs f ++ [.truncate (s.base + s.pos)]
        (s.applyEvs done, .err .other, done)
      else
        let s' := { s.applyEvs evs with pos := s.pos + sectionSize ⟨c, d⟩, idx := s.idx.insert ⟨c, s.pos⟩ }
        (s', .ok, evs)
    | none =>
      let s' := { s.applyEvs evs with pos := s.pos + sectionSize ⟨c, d⟩, idx := s.idx.insert ⟨c, s.pos⟩ }
      (s', .ok, evs)

/-- PutMany under an optional fault: block by block, like Put; the fault's call index counts the
    write calls of the whole batch. The blocks before the failing one are stored (written, indexed)
    exactly as by single Puts; the failing one is undone. Also returns how many blocks were stored
    or skipped before the batch ended. -/
def Store.putManyF (o : WOpts) (s : Store) : List Block → Option Fault → Store × Out × List WriteEv × Nat
  | [], _ => (s, .ok, [], 0)
  | b :: bs, fault =>
    match s.putOneF o b.cid b.data fault with
    | (s', .ok, evs) =>
      let r := Store.putManyF o s' bs (fault.map fun f => ⟨f.call - evs.length, f.bytes⟩)
      (r.1, r.2.1, evs ++ r.2.2.1, r.2.2.2 + 1)
    | (s', out, evs) => (s', out, evs, 0)

/-- Finalize under an optional fault: the partial index/header stays, the store is closed/finalised
    and reports the error; nothing can succeed afterwards. -/
def Store.finalizeF (o : WOpts) (s : Store) (fault : Option Fault) : Store × Out × List WriteEv :=
  match fault with
  | none => s.step o .finalize
  | some f =>
    if o.v1 ∨ s.closed ∨ (s.api = .blockstore ∧ s.finalized) then s.step o .finalize
    else match s.finalizeEvs o with
      | none => s.step o .finalize
      | some evs =>
        if f.call < evs.length then
          let done := faultyPrefix evs f
          let s' := s.applyEvs done
          match s.api with
          | .blockstore => ({ s' with finalized := true, closed := true }, .err .other, done)
          | .storage => ({ s' with closed := true }, .err .other, done)
        else s.step o .finalize

/-- FinalizeReadOnly (blockstore) under an optional fault: the store is marked finalized before the
    index and header are written, so after the failure it is finalized (not closed), the partial writes
    stay, and every later finalizing call is refused. -/
def Store.finalizeROF (o : WOpts) (s : Store) (fault : Option Fault) : Store × Out × List WriteEv :=
  match fault with
  | none => s.step o .finalizeRO
  | some f =>
    if o.v1 ∨ s.closed ∨ s.finalized ∨ s.api ≠ .blockstore then s.step o .finalizeRO
    else match s.finalizeEvs o with
      | none => s.step o .finalizeRO
      | some evs =>
        if f.call < evs.length then
          let done := faultyPrefix evs f
          ({ s.applyEvs done with finalized := true }, .err .other, done)
        else s.step o .finalizeRO

end Car
