import CarModel.Cid
/-
`v2/index`: the two on-disk index codecs (car-index-sorted 0x0400, car-multihash-index-sorted
0x0401) at the byte level, as the code stores them (compact per-width buckets), plus `Load`,
`Marshal`, `Unmarshal`, `GetAll` (binary search + forward scan) and `ForEach`.
Go maps become association lists kept sorted by key (the code sorts keys before every
order-sensitive use: Marshal, ForEach).
-/
namespace Car

structure Record where
  cid : Cid
  offset : Nat
  deriving DecidableEq, Repr, Inhabited

/-- `singleWidthIndex`: `width` = digest length + 8; `index` = compact records. -/
structure SingleWidth where
  width : Nat
  len : Nat
  index : Bytes
  deriving DecidableEq, Repr, Inhabited

/-- `multiWidthIndex` (map width → bucket), kept ascending by width. -/
abbrev MultiWidth := List SingleWidth

/-- `MultihashIndexSorted` (map code → multiWidthIndex), kept ascending by code. -/
abbrev MhIndex := List (Nat × MultiWidth)

def codecSorted : Nat := 0x0400
def codecMhSorted : Nat := 0x0401

/-- `digestRecord.write`. -/
def compactEntry (digest : Bytes) (offset : Nat) : Bytes := digest ++ le64 offset

/-- distinct values, ascending (the sorted key set of a Go map). -/
def distinctSorted (l : List Nat) : List Nat :=
  (l.mergeSort (fun a b => decide (a ≤ b))).eraseDups

/-- `multiWidthIndex.Load`: split by digest length, sort each group by digest (stable), compact. -/
def MultiWidth.load (rs : List Record) : MultiWidth :=
  let widths := distinctSorted (rs.map fun r => r.cid.digest.length)
  widths.map fun w =>
    let grp := rs.filter fun r => r.cid.digest.length == w
    let sorted := grp.mergeSort (fun a b => bytesLe a.cid.digest b.cid.digest)
    { width := w + 8, len := sorted.length,
      index := sorted.flatMap fun r => compactEntry r.cid.digest r.offset }

/-- `MultihashIndexSorted.Load`: group by multihash code first. -/
def MhIndex.load (rs : List Record) : MhIndex :=
  let codes := distinctSorted (rs.map fun r => r.cid.mhCode)
  codes.map fun c => (c, MultiWidth.load (rs.filter fun r => r.cid.mhCode == c))

/-- `singleWidthIndex.Marshal`: width u32, byte length i64, compact bytes. -/
def SingleWidth.marshal (s : SingleWidth) : Bytes := le32 s.width ++ le64 s.index.length ++ s.index

/-- `multiWidthIndex.Marshal`: bucket count i32, buckets ascending by width. -/
def MultiWidth.marshal (m : MultiWidth) : Bytes := le32 m.length ++ m.flatMap SingleWidth.marshal

/-- `MultihashIndexSorted.Marshal`: code count i32, then per code: code u64 + multi-width. -/
def MhIndex.marshal (m : MhIndex) : Bytes :=
  le32 m.length ++ m.flatMap fun e => le64 e.1 ++ MultiWidth.marshal e.2

inductive IdxErr | unexpectedEOF | eof | malformed | unknownCodec | badVarint
  deriving DecidableEq, Repr

def maxIndexWidth : Nat := 32 * 2 ^ 20

/-- `singleWidthIndex.Unmarshal` (+ `checkUnmarshalLengths`). -/
def SingleWidth.unmarshal (bs : Bytes) : Except IdxErr (SingleWidth × Bytes) :=
  if bs.length < 4 then .error .unexpectedEOF else
  let width := leVal (bs.take 4)
  let r1 := bs.drop 4
  if r1.length < 8 then .error .unexpectedEOF else
  let dataLen := leVal (r1.take 8)
  let r2 := r1.drop 8
  if width < 8 then .error .malformed
  else if width > maxIndexWidth then .error .malformed
  else if dataLen ≥ 2 ^ 63 then .error .malformed
  else if r2.length < dataLen then .error (if r2.length = 0 ∧ dataLen > 0 then .eof else .unexpectedEOF)
  else .ok ({ width := width, len := dataLen / width, index := r2.take dataLen }, r2.drop dataLen)

/-- insert/replace by key in an association list kept ascending (Go map assignment + sorted iteration). -/
def putSW (s : SingleWidth) : MultiWidth → MultiWidth
  | [] => [s]
  | t :: ts => if t.width = s.width then s :: ts else if s.width < t.width then s :: t :: ts else t :: putSW s ts

def unmarshalBuckets : Nat → Bytes → MultiWidth → Except IdxErr (MultiWidth × Bytes)
  | 0, bs, acc => .ok (acc, bs)
  | n + 1, bs, acc =>
    match SingleWidth.unmarshal bs with
    | .error e => .error e
    | .ok (s, rest) => unmarshalBuckets n rest (putSW s acc)

/-- `multiWidthIndex.Unmarshal`. The count is an int32; negative counts are rejected.
    (The int64 "sum" overflow guard cannot trigger for in-memory inputs and is not modelled.) -/
def MultiWidth.unmarshal (bs : Bytes) : Except IdxErr (MultiWidth × Bytes) :=
  if bs.length < 4 then .error .unexpectedEOF else
  let l := leVal (bs.take 4)
  if l ≥ 2 ^ 31 then .error .malformed
  else unmarshalBuckets l (bs.drop 4) []

def putCode (e : Nat × MultiWidth) : MhIndex → MhIndex
  | [] => [e]
  | t :: ts => if t.1 = e.1 then e :: ts else if e.1 < t.1 then e :: t :: ts else t :: putCode e ts

def unmarshalCodes : Nat → Bytes → MhIndex → Except IdxErr (MhIndex × Bytes)
  | 0, bs, acc => .ok (acc, bs)
  | n + 1, bs, acc =>
    if bs.length < 8 then .error .unexpectedEOF else
    let code := leVal (bs.take 8)
    match MultiWidth.unmarshal (bs.drop 8) with
    | .error e => .error e
    | .ok (m, rest) => unmarshalCodes n rest (putCode (code, m) acc)

/-- `MultihashIndexSorted.Unmarshal`. -/
def MhIndex.unmarshal (bs : Bytes) : Except IdxErr (MhIndex × Bytes) :=
  if bs.length < 4 then .error .unexpectedEOF else
  let l := leVal (bs.take 4)
  if l ≥ 2 ^ 31 then .error .malformed
  else unmarshalCodes l (bs.drop 4) []

/-- digest of entry `i` in a compact bucket (Go slice `index[i*w : (i+1)*w-8]`). -/
def SingleWidth.digestAt (s : SingleWidth) (i : Nat) : Bytes :=
  (s.index.drop (i * s.width)).take (s.width - 8)

def SingleWidth.offsetAt (s : SingleWidth) (i : Nat) : Nat :=
  leVal ((s.index.drop (i * s.width + (s.width - 8))).take 8)

/-- Go's `sort.Search(n, f)`: binary search exactly as the stdlib runs it (any predicate). -/
def goSearch (f : Nat → Bool) : (fuel lo hi : Nat) → Nat
  | 0, lo, _ => lo
  | fuel + 1, lo, hi =>
    if lo < hi then
      let h := (lo + hi) / 2
      if !f h then goSearch f fuel (h + 1) hi else goSearch f fuel lo h
    else lo

/-- forward scan of `getAll`: offsets of consecutive entries equal to `d` starting at `i`. -/
def scanEqual (s : SingleWidth) (d : Bytes) : (fuel i : Nat) → List Nat
  | 0, _ => []
  | fuel + 1, i =>
    if i < s.len then
      if s.digestAt i == d then s.offsetAt i :: scanEqual s d fuel (i + 1) else []
    else []

/-- `singleWidthIndex.getAll`: all offsets for digest `d` (callback never stops early). `[]` = not found. -/
def SingleWidth.getAll (s : SingleWidth) (d : Bytes) : List Nat :=
  let i := goSearch (fun i => bytesLe d (s.digestAt i)) (s.len + 1) 0 s.len
  scanEqual s d (s.len + 1) i

def MultiWidth.getAll (m : MultiWidth) (d : Bytes) : List Nat :=
  match m.find? (fun s => s.width == d.length + 8) with
  | some s => s.getAll d
  | none => []

def MhIndex.getAll (m : MhIndex) (code : Nat) (d : Bytes) : List Nat :=
  match m.find? (fun e => e.1 == code) with
  | some e => MultiWidth.getAll e.2 d
  | none => []

/-- `forEachDigest`: (digest, offset) for `len(index)/width` segments. -/
def SingleWidth.entries (s : SingleWidth) : List (Bytes × Nat) :=
  (List.range (s.index.length / s.width)).map fun i => (s.digestAt i, s.offsetAt i)

def MultiWidth.entries (m : MultiWidth) : List (Bytes × Nat) := m.flatMap SingleWidth.entries

/-- `MultihashIndexSorted.ForEach`: (code, digest, offset), ascending by code, width, digest. -/
def MhIndex.entries (m : MhIndex) : List (Nat × Bytes × Nat) :=
  m.flatMap fun e => (MultiWidth.entries e.2).map fun x => (e.1, x.1, x.2)

/-- A loaded / unmarshalled on-disk index of either codec. -/
inductive Index
  | sorted (m : MultiWidth)
  | mh (m : MhIndex)
  deriving DecidableEq, Repr

def Index.codec : Index → Nat
  | .sorted _ => codecSorted
  | .mh _ => codecMhSorted

def Index.load (codec : Nat) (rs : List Record) : Option Index :=
  if codec = codecSorted then some (.sorted (MultiWidth.load rs))
  else if codec = codecMhSorted then some (.mh (MhIndex.load rs))
  else none

/-- `index.WriteTo`: uvarint codec, then the codec's Marshal. -/
def Index.bytes : Index → Bytes
  | .sorted m => uvarint codecSorted ++ MultiWidth.marshal m
  | .mh m => uvarint codecMhSorted ++ MhIndex.marshal m

/-- `index.ReadFrom`. -/
def Index.read (bs : Bytes) : Except IdxErr (Index × Bytes) :=
  match readUvarint bs with
  | .error .eof => .error .eof
  | .error .unexpectedEOF => .error .unexpectedEOF
  | .error _ => .error .badVarint
  | .ok (codec, rest) =>
    if codec = codecSorted then
      match MultiWidth.unmarshal rest with
      | .error e => .error e
      | .ok (m, r) => .ok (.sorted m, r)
    else if codec = codecMhSorted then
      match MhIndex.unmarshal rest with
      | .error e => .error e
      | .ok (m, r) => .ok (.mh m, r)
    else .error .unknownCodec

/-- `Index.GetAll(c, …)`: offsets recorded for `c`'s key (digest, or (code, digest)). -/
def Index.getAll (ix : Index) (c : Cid) : List Nat :=
  match ix with
  | .sorted m => MultiWidth.getAll m c.digest
  | .mh m => MhIndex.getAll m c.mhCode c.digest

end Car

namespace Car

/-- The byte count `Marshal`/`WriteTo` report (the running sums the Go code keeps). -/
def SingleWidth.marshalN (s : SingleWidth) : Nat := 4 + 8 + s.index.length
def MultiWidth.marshalN (m : MultiWidth) : Nat := 4 + (m.map SingleWidth.marshalN).sum
def MhIndex.marshalN (m : MhIndex) : Nat := 4 + (m.map fun e => 8 + MultiWidth.marshalN e.2).sum
def Index.writeToN : Index → Nat
  | .sorted m => (uvarint codecSorted).length + MultiWidth.marshalN m
  | .mh m => (uvarint codecMhSorted).length + MhIndex.marshalN m

end Car
