import CarModel.Spec
/-
`v2/storage/deferred/deferredcarwriter.go`: a CAR writer that creates its output (file and CAR
header) only on the first Put, with OnPut callbacks (plain or once-only).
-/
namespace Car

structure PutCb where
  id : Nat
  once : Bool
  /-- what the callback itself does when it runs: nothing, or `OnPut` of one more (plain) callback -/
  spawn : Option (Nat × Bool) := none
  deriving DecidableEq, Repr

structure Deferred where
  roots : Option (List Cid)
  /-- the lazily created `storage.WritableCar` (`dcw.w`) -/
  w : Option Store := none
  closed : Bool := false
  cbs : List PutCb := []
  deriving Repr

inductive DOp
  | onPut (id : Nat) (once : Bool) (spawn : Option (Nat × Bool))
  | has (c : Cid)
  | put (c : Cid) (d : Bytes)
  | close
  deriving Repr

/-- The Go loop `for i := 0; i < len(cb); i++ { cb[i](n); if once { cb = append(cb[:i], cb[i+1:]...); i-- } }`,
    index-based with in-place removal, re-reading the list on every round: a callback that registers another
    one appends to the very list being walked, so the new one is met later in the same Put.
    Returns the remaining callbacks and the ids fired, in order. -/
def fireLoop : (fuel i : Nat) → List PutCb → List Nat → List PutCb × List Nat
  | 0, _, cbs, fired => (cbs, fired)
  | fuel + 1, i, cbs, fired =>
    match cbs[i]? with
    | none => (cbs, fired)
    | some cb =>
      let cbs1 := match cb.spawn with
        | some (id2, once2) => cbs ++ [{ id := id2, once := once2 }]
        | none => cbs
      if cb.once then fireLoop fuel i (cbs1.eraseIdx i) (fired ++ [cb.id])
      else fireLoop fuel (i + 1) cbs1 (fired ++ [cb.id])

/-- Reference for one Put's callbacks, as a queue: take the first, note it, let what it registers join the
    end of the queue, keep it unless it is once-only. (The code's index loop with in-place removal must agree.) -/
def specFire : Nat → List PutCb → List PutCb × List Nat
  | 0, q => (q, [])
  | _ + 1, [] => ([], [])
  | fuel + 1, cb :: rest =>
    let rest' := match cb.spawn with
      | some (id2, once2) => rest ++ [{ id := id2, once := once2 }]
      | none => rest
    let r := specFire fuel rest'
    ((if cb.once then r.1 else cb :: r.1), cb.id :: r.2)

structure DOut where
  res : Out
  fired : List Nat := []
  deriving Repr

/-- the deferred writer forces CARv1 for stream targets; `o` is the effective option set -/
def Deferred.step (o : WOpts) (d : Deferred) : DOp → Deferred × DOut
  | .onPut id once sp => ({ d with cbs := d.cbs ++ [{ id := id, once := once, spawn := sp }] }, { res := .ok })
  | .has c =>
    if d.closed then (d, { res := .err .closed })
    else match d.w with
      | none => (d, { res := .bool false })
      | some s => (d, { res := (s.step o (.has c)).2.1 })
  | .put c data =>
    if d.closed then (d, { res := .err .closed })
    else
      let (cbs', fired) := fireLoop (2 * d.cbs.length + 2) 0 d.cbs []
      let s := match d.w with
        | none => (Store.create .storage o d.roots).1
        | some s => s
      let r := s.step o (.put c data)
      ({ d with w := some r.1, cbs := cbs' }, { res := r.2.1, fired := fired })
  | .close =>
    if d.closed then (d, { res := .err .closed })
    else match d.w with
      | none => ({ d with closed := true }, { res := .ok })
      | some s =>
        let r := s.step o .finalize
        ({ d with closed := true, w := some r.1 }, { res := r.2.1 })

/-- bytes that have reached the stream / file so far (`none` = the file does not exist yet) -/
def Deferred.output (d : Deferred) : Option Bytes := d.w.map (·.file)

end Car
