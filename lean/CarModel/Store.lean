import CarModel.IndexGen
import CarModel.Layout
/-
The writable stores: `blockstore.ReadWrite` (v2/blockstore/readwrite.go + readonly.go) and
`storage.StorageCar` in readable-writable mode (v2/storage/storage.go), with the shared
internals `store.ShouldPut/Has/FindCid/Finalize` (v2/internal/store).
A store is a state machine `step : Store → Op → Store × Out × List WriteEv`; the file is the list
of its bytes; every write the code issues is reported as a `WriteEv` (for C06/C16).
-/
namespace Car

structure WOpts where
  dataPad : Nat := 0
  indexPad : Nat := 0
  codec : Nat := codecMhSorted
  v1 : Bool := false
  storeIdentity : Bool := false
  allowDup : Bool := false
  wholeCids : Bool := false
  maxIndexCidSize : Nat := 2048
  zeroEOF : Bool := false
  maxSection : Nat := 8 * 2 ^ 20
  maxHeader : Nat := 32 * 2 ^ 20
  deriving Repr

inductive Api | blockstore | storage
  deriving DecidableEq, Repr

inductive WriteEv
  | write (off : Nat) (data : Bytes)
  | truncate (size : Nat)
  deriving DecidableEq, Repr

def WriteEv.apply (f : Bytes) : WriteEv → Bytes
  | .write off d => writeAt f off d
  | .truncate n => Car.truncate f n

def applyWrites (f : Bytes) (ws : List WriteEv) : Bytes := ws.foldl WriteEv.apply f

structure Store where
  api : Api
  file : Bytes
  /-- absolute offset of the CARv1 payload: 51 + data padding, or 0 in CARv1 mode -/
  base : Nat
  /-- `dataWriter.Position()`: payload-relative offset of the next section -/
  pos : Nat
  idx : InsIndex
  roots : Option (List Cid)
  closed : Bool := false
  finalized : Bool := false
  deriving Repr

inductive Op
  | put (c : Cid) (d : Bytes)
  | putMany (bs : List Block)
  | has (c : Cid)
  | get (c : Cid)
  | getSize (c : Cid)
  | allKeys
  | roots
  | finalize
  | finalizeRO
  | close
  | discard
  deriving Repr

inductive Out
  | ok
  | err (e : Err)
  | bool (b : Bool)
  | data (d : Bytes)
  | size (n : Nat)
  | cids (l : List Cid)
  deriving DecidableEq, Repr

def WOpts.base (o : WOpts) : Nat := if o.v1 then 0 else 51 + o.dataPad

/-- consecutive writes of `parts`, the first at absolute offset `off` (one `Write` call each) -/
def chunkEvs (off : Nat) (parts : List Bytes) : List WriteEv :=
  (parts.foldl (fun (acc : List WriteEv × Nat) p => (acc.1 ++ [.write acc.2 p], acc.2 + p.length)) ([], off)).1

/-- `LdWrite(w, parts…)` at absolute offset `off`: one write for the varint, one per part. -/
def ldWriteEvs (off : Nat) (parts : List Bytes) : List WriteEv :=
  chunkEvs off (uvarint (parts.map List.length).sum :: parts)

/-- Creating a new store: pragma (CARv2 only), then the CARv1 header at `base`. -/
def Store.create (api : Api) (o : WOpts) (roots : Option (List Cid)) : Store × List WriteEv :=
  let hb := encodeHeaderBody { roots := roots, version := 1 }
  let evs := (if o.v1 then [] else [WriteEv.write 0 pragma]) ++ ldWriteEvs o.base [hb]
  ({ api := api, file := applyWrites [] evs, base := o.base, pos := (encodeHeader ⟨roots, 1⟩).length,
     idx := [], roots := roots }, evs)

/-- `store.ShouldPut`: `.ok true` = write it, `.ok false` = skip silently.
    De-duplication by multihash uses `HasMultihash` (repaired: fixed C04/D3; was digest-only `Get`). -/
def shouldPut (o : WOpts) (idx : InsIndex) (c : Cid) : Except Err Bool :=
  if !o.storeIdentity && c.isIdentity then .ok false
  else if c.byteLen > o.maxIndexCidSize then .error .cidTooLarge
  else if !o.allowDup then
    if o.wholeCids then .ok (!idx.hasExactCid c) else .ok (!idx.hasMultihash c)
  else .ok true

/-- `store.Has` (index only; used by ReadWrite.Has and StorageCar.Has in writable mode). -/
def storeHas (o : WOpts) (idx : InsIndex) (c : Cid) : Bool :=
  if !o.storeIdentity && c.isIdentity then true
  else if o.wholeCids then idx.hasExactCid c else idx.hasMultihash c

/-- One candidate of `FindCid`'s callback: read the section at payload offset `off`.
    Returns (cid found there, data, data length, payload offset of the data). -/
def readAtOffset (o : WOpts) (payloadBytes : Bytes) (off : Nat) (readBytes : Bool) :
    Except Err (Cid × Bytes × Nat × Nat) :=
  let s := payloadBytes.drop off
  if readBytes then
    match readNode o.zeroEOF o.maxSection s with
    | .error e => .error e
    | .ok (b, _) => .ok (b.cid, b.data, b.data.length, 0)
  else
    match readUvarint s with
    | .error e => .error (verr e)
    | .ok (l, r1) =>
      match cidFromReader r1 with
      | .error .eof => .error .eof
      | .error .invalid => .error .badCid
      | .ok (n, c, _) => .ok (c, [], l - n, off + (s.length - r1.length) + n)

/-- `store.FindCid`: walk the index's candidate offsets in order; confirm the CID at each. -/
def findCidAux (o : WOpts) (payloadBytes : Bytes) (key : Cid) (readBytes : Bool) :
    List Nat → Except Err (Option (Bytes × Nat × Nat))
  | [] => .ok none
  | off :: rest =>
    match readAtOffset o payloadBytes off readBytes with
    | .error e => .error e
    | .ok (c, d, len, dataOff) =>
      let hit := if o.wholeCids then c == key else (c.mhCode == key.mhCode && c.digest == key.digest)
      if hit then .ok (some (d, len, dataOff)) else findCidAux o payloadBytes key readBytes rest

def Store.payloadBytes (s : Store) : Bytes := s.file.drop s.base

def Store.findCid (o : WOpts) (s : Store) (key : Cid) (readBytes : Bool) : Except Err (Option (Bytes × Nat × Nat)) :=
  findCidAux o s.payloadBytes key readBytes (s.idx.getAll key)

/-- The byte chunks `index.WriteTo` hands to the writer, one per `w.Write`/`binary.Write` call. -/
def singleWidthChunks (s : SingleWidth) : List Bytes := [le32 s.width, le64 s.index.length, s.index]

def multiWidthChunks (m : MultiWidth) : List Bytes := le32 m.length :: m.flatMap singleWidthChunks

def indexChunks : Index → List Bytes
  | .sorted m => uvarint codecSorted :: multiWidthChunks m
  | .mh m => uvarint codecMhSorted :: le32 m.length :: m.flatMap fun e => le64 e.1 :: multiWidthChunks e.2

/-- Write events of `index.WriteTo(flattened, offsetWriter(indexOffset))`. -/
def indexEvs (off : Nat) (ix : Index) : List WriteEv := chunkEvs off (indexChunks ix)

/-- The header `store.Finalize` writes for this store. -/
def Store.finalHeader (o : WOpts) (s : Store) : V2Header :=
  (((V2Header.new 0).withDataPadding o.dataPad).withIndexPadding o.indexPad |>.withDataSize s.pos).setFullyIndexed o.storeIdentity

def headerEvs (h : V2Header) : List WriteEv :=
  chunkEvs 11 [le64 h.charHi ++ le64 h.charLo, le64 h.dataOffset ++ le64 h.dataSize ++ le64 h.indexOffset]

/-- `store.Finalize`: flatten, write the index at `IndexOffset`, then the header at 11.
    `none` = unknown index codec (e.g. `WithoutIndex()`), reported as an error before any write. -/
def Store.finalizeEvs (o : WOpts) (s : Store) : Option (List WriteEv) :=
  match s.idx.flatten o.codec with
  | none => none
  | some ix => some (indexEvs (s.finalHeader o).indexOffset ix ++ headerEvs (s.finalHeader o))

def Store.applyEvs (s : Store) (evs : List WriteEv) : Store := { s with file := applyWrites s.file evs }

/-- one block of `PutMany` / `StorageCar.Put` -/
def Store.putOne (o : WOpts) (s : Store) (c : Cid) (d : Bytes) : Store × Out × List WriteEv :=
  match shouldPut o s.idx c with
  | .error e => (s, .err e, [])
  | .ok false => (s, .ok, [])
  | .ok true =>
    let evs := ldWriteEvs (s.base + s.pos) [c.bytes, d]
    let s' := { s.applyEvs evs with pos := s.pos + sectionSize ⟨c, d⟩, idx := s.idx.insert ⟨c, s.pos⟩ }
    (s', .ok, evs)

def Store.putMany (o : WOpts) (s : Store) : List Block → Store × Out × List WriteEv
  | [] => (s, .ok, [])
  | b :: bs =>
    match s.putOne o b.cid b.data with
    | (s', .ok, evs) => let r := Store.putMany o s' bs; (r.1, r.2.1, evs ++ r.2.2)
    | r => r

/-- the non-locking identity short-circuit of ReadOnly.Get / StorageCar.GetStream -/
def identityShortcut (o : WOpts) (c : Cid) : Bool := !o.storeIdentity && c.isIdentity

def Store.finalizeRO (o : WOpts) (s : Store) : Store × Out × List WriteEv :=
  if o.v1 then ({ s with finalized := true }, .ok, [])
  else if s.closed then (s, .err .closed, [])
  else if s.finalized then (s, .err .finalized, [])
  else match s.finalizeEvs o with
    | none => ({ s with finalized := true }, .err .other, [])
    | some evs => ({ s.applyEvs evs with finalized := true }, .ok, evs)

def Store.closeInner (o : WOpts) (s : Store) : Store × Out :=
  if !o.v1 && !s.finalized then (s, .err .other)
  else if s.closed then (s, .err .closed)
  else ({ s with closed := true }, .ok)

/-- `blockstore.ReadWrite`, one public call. -/
def Store.stepBlockstore (o : WOpts) (s : Store) : Op → Store × Out × List WriteEv
  | .put c d => if s.closed then (s, .err .closed, []) else if s.finalized then (s, .err .finalized, [])
                else s.putOne o c d
  | .putMany bs => if s.closed then (s, .err .closed, []) else if s.finalized then (s, .err .finalized, [])
                   else s.putMany o bs
  | .has c => if s.closed then (s, .err .closed, []) else (s, .bool (storeHas o s.idx c), [])
  | .get c =>
    if identityShortcut o c then (s, .data c.digest, [])
    else if s.closed then (s, .err .closed, [])
    else match s.findCid o c true with
      | .error e => (s, .err e, [])
      | .ok none => (s, .err .notFound, [])
      | .ok (some (d, _, _)) => (s, .data d, [])
  | .getSize c =>
    -- unconditional identity short-circuit, unlike Has/Get (known finding C04/C07 getsize-identity;
    -- go-car's own TestReadOnly pins this behaviour, so it is recorded rather than repaired)
    if c.isIdentity then (s, .size c.digest.length, [])
    else if s.closed then (s, .err .closed, [])
    else match s.findCid o c false with
      | .error e => (s, .err e, [])
      | .ok none => (s, .err .notFound, [])
      | .ok (some (_, n, _)) => (s, .size n, [])
  | .allKeys =>
    if s.closed then (s, .err .closed, [])
    else (s, .cids (s.idx.cids.map fun c => if o.wholeCids then c else c.toRawV1), [])
  | .roots => if s.closed then (s, .err .other, []) else (s, .cids (s.roots.getD []), [])
  | .finalizeRO => s.finalizeRO o
  | .finalize =>
    -- Go evaluates both calls before looking at either error; the first error wins
    let r1 := s.finalizeRO o
    let r2 := r1.1.closeInner o
    (r2.1, if r1.2.1 = .ok then r2.2 else r1.2.1, r1.2.2)
  | .close => let r := s.closeInner o; (r.1, r.2, [])
  | .discard => ({ s with closed := true }, .ok, [])

/-- `storage.StorageCar` (readable + writable), one public call. -/
def Store.stepStorage (o : WOpts) (s : Store) : Op → Store × Out × List WriteEv
  | .put c d => if s.closed then (s, .err .closed, []) else s.putOne o c d
  | .has c => if s.closed then (s, .err .closed, []) else (s, .bool (storeHas o s.idx c), [])
  | .get c =>
    if identityShortcut o c then (s, .data c.digest, [])
    else if s.closed then (s, .err .closed, [])
    else match s.findCid o c false with
      | .error e => (s, .err e, [])
      | .ok none => (s, .err .notFound, [])
      | .ok (some (_, n, off)) => (s, .data ((s.payloadBytes.drop off).take n), [])
  | .roots => (s, .cids (s.roots.getD []), [])
  | .finalize =>
    -- CARv1 mode closes the store too (repaired: fixed C04/D11; was a no-op)
    if o.v1 then ({ s with closed := true }, .ok, [])
    else if s.closed then (s, .err .closed, [])
    else match s.finalizeEvs o with
      | none => ({ s with closed := true }, .err .other, [])
      | some evs => ({ s.applyEvs evs with closed := true }, .ok, evs)
  | _ => (s, .err .other, [])

def Store.step (o : WOpts) (s : Store) (op : Op) : Store × Out × List WriteEv :=
  match s.api with
  | .blockstore => s.stepBlockstore o op
  | .storage => s.stepStorage o op

def Store.run (o : WOpts) (s : Store) : List Op → Store × List Out
  | [] => (s, [])
  | op :: ops =>
    let r := s.step o op
    let r' := Store.run o r.1 ops
    (r'.1, r.2.1 :: r'.2)

end Car
