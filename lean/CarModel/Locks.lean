/-
C08: the locking discipline of the concurrent types (blockstore.ReadOnly/ReadWrite,
storage.StorageCar, deferred.DeferredCarWriter), as a small-step semantics of threads sharing one
reader/writer lock. Each public method is a sequence of events; the sequences are extracted from
the Go sources on every run (`Gen/Facts.lean`, `lockTable`).
-/
namespace Car.Locks

/-- what a method does to the lock and to guarded fields (field = small number) -/
inductive Ev
  | lock | rlock | unlock | runlock
  | read (f : Nat) | write (f : Nat)
  deriving DecidableEq, Repr

/-- the lock mode a thread holds -/
inductive Mode | none | r | w
  deriving DecidableEq, Repr

/-- sequential well-lockedness: every guarded read happens under some lock, every guarded write
    under the exclusive lock, lock/unlock are balanced and the method ends holding nothing -/
def wellLockedFrom : Mode → List Ev → Bool
  | m, [] => m == .none
  | .none, .lock :: es => wellLockedFrom .w es
  | .none, .rlock :: es => wellLockedFrom .r es
  | .w, .unlock :: es => wellLockedFrom .none es
  | .r, .runlock :: es => wellLockedFrom .none es
  | .r, .read _ :: es => wellLockedFrom .r es
  | .w, .read _ :: es => wellLockedFrom .w es
  | .w, .write _ :: es => wellLockedFrom .w es
  | _, _ => false

def wellLocked (es : List Ev) : Bool := wellLockedFrom .none es

/-- a running thread: the mode it holds and what it still has to do -/
structure Thread where
  mode : Mode
  rest : List Ev
  deriving Repr

/-- the shared lock: who holds it exclusively, how many hold it shared -/
structure Lock where
  writer : Option Nat := none     -- thread index
  readers : List Nat := []        -- thread indices, with multiplicity (never repeated here)
  deriving Repr

structure Config where
  lock : Lock
  threads : List Thread
  deriving Repr

/-- thread `i` fires its next event -/
inductive Step : Config → Config → Prop
  | lock (c : Config) (i : Nat) (t : Thread) (es : List Ev) :
      c.threads[i]? = some t → t.rest = .lock :: es → c.lock.writer = none → c.lock.readers = [] →
      Step c { lock := { writer := some i, readers := [] }, threads := c.threads.set i ⟨.w, es⟩ }
  | rlock (c : Config) (i : Nat) (t : Thread) (es : List Ev) :
      c.threads[i]? = some t → t.rest = .rlock :: es → c.lock.writer = none →
      Step c { lock := { c.lock with readers := i :: c.lock.readers }, threads := c.threads.set i ⟨.r, es⟩ }
  | unlock (c : Config) (i : Nat) (t : Thread) (es : List Ev) :
      c.threads[i]? = some t → t.rest = .unlock :: es → c.lock.writer = some i →
      Step c { lock := { c.lock with writer := none }, threads := c.threads.set i ⟨.none, es⟩ }
  | runlock (c : Config) (i : Nat) (t : Thread) (es : List Ev) :
      c.threads[i]? = some t → t.rest = .runlock :: es → i ∈ c.lock.readers →
      Step c { lock := { c.lock with readers := c.lock.readers.erase i }, threads := c.threads.set i ⟨.none, es⟩ }
  | access (c : Config) (i : Nat) (t : Thread) (e : Ev) (es : List Ev) :
      c.threads[i]? = some t → t.rest = e :: es → (∃ f, e = .read f ∨ e = .write f) →
      Step c { c with threads := c.threads.set i ⟨t.mode, es⟩ }

inductive Reachable (c0 : Config) : Config → Prop
  | refl : Reachable c0 c0
  | step (c c' : Config) : Reachable c0 c → Step c c' → Reachable c0 c'

/-- two threads are about to touch the same guarded field, at least one of them writing -/
def Race (c : Config) : Prop :=
  ∃ (i j : Nat) (ti tj : Thread) (f : Nat) (ei ej : Ev) (esi esj : List Ev), i ≠ j ∧ c.threads[i]? = some ti ∧ c.threads[j]? = some tj ∧
    ti.rest = ei :: esi ∧ tj.rest = ej :: esj ∧
    ((ei = .write f ∧ (ej = .write f ∨ ej = .read f)) ∨ (ej = .write f ∧ ei = .read f))

/-- a method path is ONE critical section: once it has released the lock it never takes it again, so
    nothing it decided under the lock can be stale when it acts on it (no check-then-act window) -/
def singleSectionFrom : Bool → List Ev → Bool
  | _, [] => true
  | released, .lock :: es => !released && singleSectionFrom released es
  | released, .rlock :: es => !released && singleSectionFrom released es
  | _, .unlock :: es => singleSectionFrom true es
  | _, .runlock :: es => singleSectionFrom true es
  | released, .read _ :: es => singleSectionFrom released es
  | released, .write _ :: es => singleSectionFrom released es

def singleSection (es : List Ev) : Bool := singleSectionFrom false es

def Ev.isAccess : Ev → Bool
  | .read _ => true
  | .write _ => true
  | _ => false

def Ev.isRead : Ev → Bool
  | .read _ => true
  | _ => false

end Car.Locks
