import CarModel.Bytes
/-
Unsigned varints. Two decoders exist in the code base:
 * go-varint `ReadUvarint`/`FromUvarint` (v2 module, go-cid): at most 9 bytes, minimal encoding only;
 * stdlib `binary.ReadUvarint` (root module `util`): at most 10 bytes, non-minimal accepted.
One encoder: `binary.PutUvarint` (go-varint's PutUvarint is an alias).
-/
namespace Car

/-- LEB128, as `binary.PutUvarint`. -/
def uvarint (n : Nat) : Bytes :=
  if n < 128 then [UInt8.ofNat n]
  else UInt8.ofNat (n % 128 + 128) :: uvarint (n / 128)
termination_by n
decreasing_by omega

/-- go-varint `UvarintSize` (= number of bytes `uvarint` emits). -/
def uvarintSize (n : Nat) : Nat :=
  if n < 128 then 1 else 1 + uvarintSize (n / 128)
termination_by n
decreasing_by omega

inductive VErr | eof | unexpectedEOF | overflow | notMinimal
  deriving DecidableEq, Repr

/-- go-varint `ReadUvarint`: `i` = index of the byte being read (shift = 7*i). -/
def readUvarintAux : (i : Nat) → (acc : Nat) → Bytes → Except VErr (Nat × Bytes)
  | i, _, [] => .error (if i = 0 then .eof else .unexpectedEOF)
  | i, acc, b :: rest =>
    if (i = 8 ∧ b.toNat ≥ 128) ∨ i ≥ 9 then .error .overflow
    else if b.toNat < 128 then
      if b.toNat = 0 ∧ i > 0 then .error .notMinimal
      else .ok (acc + b.toNat * 2 ^ (7 * i), rest)
    else readUvarintAux (i + 1) (acc + (b.toNat - 128) * 2 ^ (7 * i)) rest

/-- go-varint `ReadUvarint` over the remaining input. -/
def readUvarint (bs : Bytes) : Except VErr (Nat × Bytes) := readUvarintAux 0 0 bs

/-- stdlib `binary.ReadUvarint`: up to 10 bytes, the 10th must be ≤ 1; non-minimal accepted.
    EOF after ≥1 byte is `unexpectedEOF` (Go ≥ 1.15). -/
def readUvarintStdAux : (i : Nat) → (acc : Nat) → Bytes → Except VErr (Nat × Bytes)
  | i, _, [] => .error (if i = 0 then .eof else .unexpectedEOF)
  | i, acc, b :: rest =>
    if i ≥ 10 ∨ (i = 9 ∧ b.toNat > 1) then .error .overflow
    else if b.toNat < 128 then
      .ok (acc + b.toNat * 2 ^ (7 * i), rest)
    else readUvarintStdAux (i + 1) (acc + (b.toNat - 128) * 2 ^ (7 * i)) rest

def readUvarintStd (bs : Bytes) : Except VErr (Nat × Bytes) := readUvarintStdAux 0 0 bs

end Car
