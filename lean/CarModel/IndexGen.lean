import CarModel.InsIndex
import CarModel.V2
/-
`v2/index_gen.go` `LoadIndex`: one pass over a CARv1 or CARv2 source recording
(CID, payload-relative offset of the section's length prefix) for every section.
The source is either seekable (position may run past the end; errors show up on the next read)
or a plain stream read through the discarding wrapper (`internal/io/converter.go`), where a
forward seek is a discard that fails if the stream is short and a backward one is a no-op.
The header is read through the same wrapped reader as everything else (repaired: fixed C03/D2).
-/
namespace Car

structure IdxOpts where
  zeroEOF : Bool := false
  storeIdentity : Bool := false
  maxIndexCidSize : Nat := 2048
  maxHeader : Nat := 32 * 2 ^ 20
  deriving Repr

inductive SrcKind | seekable | plain
  deriving DecidableEq, Repr

/-- relative seek from position `pos` by `delta` (may be negative) on a source of `len` bytes. -/
def seekRel (kind : SrcKind) (len pos : Nat) (delta : Int) : Except Err Nat :=
  match kind with
  | .seekable =>
    let p : Int := (pos : Int) + delta
    -- Seek(delta, SeekCurrent): a negative position is refused, and so is one past 2^63-1
    -- (the int64 sum wraps negative: "negative position" / "Seek offset overflow")
    if p < 0 ∨ p ≥ 2 ^ 63 then .error .other else .ok p.toNat
  | .plain =>
    if delta < 0 then .ok pos                      -- io.CopyN with n < 0 copies nothing, no error
    else if pos + delta.toNat > len then .error .eof   -- CopyN hits the end of the stream
    else .ok (pos + delta.toNat)

/-- The section loop of `LoadIndex`. `pos` = absolute position of the next length prefix. -/
def loadLoop (kind : SrcKind) (o : IdxOpts) (src : Bytes) (dataOffset dataSize : Nat) :
    (fuel pos : Nat) → List Record → Except Err (List Record)
  | 0, _, acc => .ok acc
  | fuel + 1, pos, acc =>
    -- end of the CARv2 payload window (checked before every section; repaired: fixed C03/D18)
    if dataSize ≠ 0 ∧ pos - dataOffset ≥ dataSize then .ok acc else
    match readUvarint (src.drop pos) with
    | .error .eof => .ok acc
    | .error e => .error (verr e)
    | .ok (sectionLen, r1) =>
      if sectionLen = 0 then (if o.zeroEOF then .ok acc else .error .zeroSection) else
      match cidFromReader r1 with
      | .error .eof => .error .eof
      | .error .invalid => .error .badCid
      | .ok (cidLen, c, r2) =>
        let keep := o.storeIdentity || !c.isIdentity
        if keep ∧ cidLen > o.maxIndexCidSize then .error .cidTooLarge else
        let acc' := if keep then acc ++ [⟨c, pos - dataOffset⟩] else acc
        let afterCid := src.length - r2.length
        match seekRel kind src.length afterCid ((sectionLen : Int) - (cidLen : Int)) with
        | .error e => .error e
        | .ok next => loadLoop kind o src dataOffset dataSize fuel next acc'

/-- `LoadIndex` up to `idx.Load`: the records, in payload order. -/
def loadIndexRecords (kind : SrcKind) (o : IdxOpts) (src : Bytes) : Except Err (List Record) :=
  match readHeader o.maxHeader src with
  | .error e => .error e
  | .ok (h, rest) =>
    if h.version = 1 then
      loadLoop kind o src 0 0 (src.length + 1) (src.length - rest.length) []
    else if h.version = 2 then
      match readV2Header rest with
      | .error e => .error e
      | .ok (v2h, _) =>
        -- Seek(dataOffset, SeekStart): forward from position 51
        if kind = .plain ∧ v2h.dataOffset > src.length then .error .eof else
        match readHeader o.maxHeader (src.drop v2h.dataOffset) with
        | .error e => .error e
        | .ok (h1, rest1) =>
          if h1.version ≠ 1 then .error .badVersion
          else loadLoop kind o src v2h.dataOffset v2h.dataSize (src.length + 1) (src.length - rest1.length) []
    else .error .badVersion

/-- `GenerateIndex` with an on-disk codec. -/
def generateIndex (kind : SrcKind) (o : IdxOpts) (codec : Nat) (src : Bytes) : Except Err Index :=
  match loadIndexRecords kind o src with
  | .error e => .error e
  | .ok rs => match Index.load codec rs with
    | some ix => .ok ix
    | none => .error .other

/-- Reference: (cid, offset) of every section of a block list laid out after a header of `h` bytes. -/
def withOffsets (h : Nat) : List Block → List Record
  | [] => []
  | b :: bs => ⟨b.cid, h⟩ :: withOffsets (h + sectionSize b) bs

end Car

namespace Car

/-- Reference: the records `LoadIndex` must produce for blocks laid out from payload offset `off`:
    every section's CID with the offset of its length prefix, identity CIDs only when stored. -/
def keptRecords (o : IdxOpts) : Nat → List Block → List Record
  | _, [] => []
  | off, b :: bs =>
    (if o.storeIdentity || !b.cid.isIdentity then [⟨b.cid, off⟩] else []) ++ keptRecords o (off + sectionSize b) bs

/-- `ReadOrGenerateIndex`: a CARv1 is indexed; a CARv2 hands back its embedded index when the header
    claims one (whatever codec or identity policy the caller asks for), else its data window is indexed. -/
def readOrGenerateIndex (o : IdxOpts) (codec : Nat) (src : Bytes) : Except Err Index :=
  match readHeader o.maxHeader src with
  | .error e => .error e
  | .ok (h, _) =>
    if h.version = 1 then generateIndex .seekable o codec src
    else if h.version = 2 then
      match readV2Header ((src.drop 11).take 40) with
      | .error e => .error e
      | .ok (v2h, _) =>
        if v2h.hasIndex then
          match Index.read (src.drop v2h.indexOffset) with
          | .ok (ix, _) => .ok ix
          | .error _ => .error .other
        else generateIndex .seekable o codec src
    else .error .badVersion

end Car
