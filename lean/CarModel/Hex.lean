import CarModel.Bytes
namespace Car

def hexDigit (n : Nat) : Char := if n < 10 then Char.ofNat (48 + n) else Char.ofNat (87 + n)

def toHex (bs : Bytes) : String :=
  String.ofList (bs.flatMap fun b => [hexDigit (b.toNat / 16), hexDigit (b.toNat % 16)])

def hexVal (c : Char) : Option Nat :=
  if '0' ≤ c ∧ c ≤ '9' then some (c.toNat - 48)
  else if 'a' ≤ c ∧ c ≤ 'f' then some (c.toNat - 87)
  else if 'A' ≤ c ∧ c ≤ 'F' then some (c.toNat - 55)
  else none

def fromHexAux : List Char → Array UInt8 → Option (Array UInt8)
  | [], acc => some acc
  | [_], _ => none
  | a :: b :: r, acc =>
    match hexVal a, hexVal b with
    | some x, some y => fromHexAux r (acc.push (UInt8.ofNat (16 * x + y)))
    | _, _ => none

/-- `-` denotes the empty string (so that tokens are never empty). -/
def fromHex (s : String) : Option Bytes :=
  if s = "-" then some [] else (fromHexAux s.toList #[]).map Array.toList

def hexOr (bs : Bytes) : String := if bs.isEmpty then "-" else toHex bs

end Car
