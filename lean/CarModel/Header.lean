import CarModel.Cid
/-
The CARv1 header: dag-cbor map {roots: [CID…], version: n}, as go-ipld-cbor (refmt) encodes
`carv1.CarHeader`, framed by a uvarint length (`util.LdWrite`).
The decoder is exact on the canonical subset (what any go-car writer emits, plus the CARv2
pragma) and answers `nonCanonical` elsewhere: refmt's behaviour outside that subset is a
parameter of the model (DESIGN section 2), and the correspondence check skips header-dependent
comparisons there.
-/
namespace Car

structure CarHeader where
  /-- `none` = nil slice (encoded as cbor null), `some []` = empty slice (encoded as `0x80`). -/
  roots : Option (List Cid)
  version : Nat
  deriving DecidableEq, Repr

def CarHeader.rootList (h : CarHeader) : List Cid := h.roots.getD []

/-- cbor major-type head with argument `n` (minimal encoding), `mt` already shifted (e.g. 0x40). -/
def cborHead (mt : Nat) (n : Nat) : Bytes :=
  if n < 24 then [UInt8.ofNat (mt + n)]
  else if n < 2 ^ 8 then [UInt8.ofNat (mt + 24), UInt8.ofNat n]
  else if n < 2 ^ 16 then UInt8.ofNat (mt + 25) :: (leN 2 n).reverse
  else if n < 2 ^ 32 then UInt8.ofNat (mt + 26) :: (leN 4 n).reverse
  else UInt8.ofNat (mt + 27) :: (leN 8 n).reverse

/-- tag 42, byte string = 0x00 ++ cid bytes. -/
def cborCid (c : Cid) : Bytes := [0xd8, 0x2a] ++ cborHead 0x40 (c.byteLen + 1) ++ [0x00] ++ c.bytes

def keyRoots : Bytes := [0x65, 0x72, 0x6f, 0x6f, 0x74, 0x73]                 -- text(5) "roots"
def keyVersion : Bytes := [0x67, 0x76, 0x65, 0x72, 0x73, 0x69, 0x6f, 0x6e]   -- text(7) "version"

def cborRoots : Option (List Cid) → Bytes
  | none => [0xf6]
  | some rs => cborHead 0x80 rs.length ++ rs.flatMap cborCid

/-- `cbor.DumpObject(&CarHeader{…})`. -/
def encodeHeaderBody (h : CarHeader) : Bytes :=
  [0xa2] ++ keyRoots ++ cborRoots h.roots ++ keyVersion ++ cborHead 0x00 h.version

/-- `carv1.WriteHeader`: uvarint length prefix + body. -/
def encodeHeader (h : CarHeader) : Bytes :=
  let b := encodeHeaderBody h
  uvarint b.length ++ b

/-- `carv1.HeaderSize`. -/
def headerSize (h : CarHeader) : Nat := (encodeHeader h).length

/-- The CARv2 pragma: a CARv1-framed header `{version: 2}` (11 bytes). -/
def pragmaBody : Bytes := [0xa1] ++ keyVersion ++ [0x02]

inductive HdrErr | invalid | nonCanonical
  deriving DecidableEq, Repr

/-- read a minimal cbor head of major type `mt`; returns (argument, rest). -/
def readCborHead (mt : Nat) (bs : Bytes) : Option (Nat × Bytes) :=
  match bs with
  | [] => none
  | b :: r =>
    let v := b.toNat
    if v < mt ∨ v ≥ mt + 28 then none else
    let ai := v - mt
    if ai < 24 then some (ai, r)
    else
      let k := 2 ^ (ai - 24)
      if r.length < k then none else
      let n := leVal (r.take k).reverse
      -- minimality
      if (ai = 24 ∧ n < 24) ∨ (ai = 25 ∧ n < 2 ^ 8) ∨ (ai = 26 ∧ n < 2 ^ 16) ∨ (ai = 27 ∧ n < 2 ^ 32) then none
      else some (n, r.drop k)

def stripPrefix (p : Bytes) (bs : Bytes) : Option Bytes :=
  if bs.take p.length = p then some (bs.drop p.length) else none

/-- decode `n` tag-42 CIDs. -/
def decodeCids : Nat → Bytes → Option (List Cid × Bytes)
  | 0, bs => some ([], bs)
  | n + 1, bs =>
    match stripPrefix [0xd8, 0x2a] bs with
    | none => none
    | some r0 =>
      match readCborHead 0x40 r0 with
      | none => none
      | some (len, r1) =>
        if len = 0 ∨ r1.length < len then none else
        match r1.take len with
        | 0x00 :: cb =>
          match cidCast cb with
          | none => none
          | some c =>
            match decodeCids n (r1.drop len) with
            | none => none
            | some (cs, rest) => some (c :: cs, rest)
        | _ => none

/-- optional `roots` entry: (value, rest, keys used). `none` = present but outside the canonical subset. -/
def decodeRootsField (r : Bytes) : Option (Option (List Cid) × Bytes × Nat) :=
  match stripPrefix keyRoots r with
  | none => some (none, r, 0)
  | some r' =>
    match r' with
    | 0xf6 :: r'' => some (none, r'', 1)
    | _ =>
      match readCborHead 0x80 r' with
      | none => none
      | some (n, r'') =>
        match decodeCids n r'' with
        | none => none
        | some (cs, rest) => some (some cs, rest, 1)

/-- optional `version` entry. -/
def decodeVersionField (r : Bytes) : Option (Nat × Bytes × Nat) :=
  match stripPrefix keyVersion r with
  | none => some (0, r, 0)
  | some r' =>
    match readCborHead 0x00 r' with
    | none => none
    | some (v, rest) => some (v, rest, 1)

/-- Decode a header body. Canonical subset: a definite map whose keys are a subset of
    {roots, version} in canonical order; roots null or a definite array of tag-42 CIDs;
    version a minimal unsigned int; nothing trailing. -/
def decodeHeaderBody (bs : Bytes) : Except HdrErr CarHeader :=
  match bs with
  | [] => .error .invalid
  | m :: r =>
    if m.toNat < 0xa0 ∨ m.toNat > 0xa2 then .error .nonCanonical else
    match decodeRootsField r with
    | none => .error .nonCanonical
    | some (roots, r1, used1) =>
      match decodeVersionField r1 with
      | none => .error .nonCanonical
      | some (v, r2, used2) =>
        if used1 + used2 ≠ m.toNat - 0xa0 ∨ r2 ≠ [] then .error .nonCanonical
        else .ok { roots := roots, version := v }

end Car
