import CarModel.Varint
/-
CIDs and multihashes as go-cid v0.5.0 / go-multihash v0.2.3 parse and print them.
A Go `cid.Cid` is the byte string itself; here it is the structured value, and
`Cid.bytes` is the (unique, minimal-varint) encoding.
-/
namespace Car

structure Cid where
  version : Nat
  codec   : Nat
  mhCode  : Nat
  digest  : Bytes
  deriving DecidableEq, Repr, Inhabited

namespace Cid

/-- multihash bytes: `uvarint code ++ uvarint len ++ digest` (`multihash.Encode`). -/
def mhBytes (c : Cid) : Bytes := uvarint c.mhCode ++ uvarint c.digest.length ++ c.digest

/-- `Cid.Bytes()`; CIDv0 is the bare multihash. -/
def bytes (c : Cid) : Bytes :=
  if c.version = 0 then c.mhBytes else uvarint 1 ++ uvarint c.codec ++ c.mhBytes

def byteLen (c : Cid) : Nat := c.bytes.length

/-- multihash code 0 (`multihash.IDENTITY`). -/
def isIdentity (c : Cid) : Bool := c.mhCode == 0

/-- Well-formedness: exactly the CIDs the parsers can return / constructors can build. -/
def wf (c : Cid) : Prop :=
  (c.version = 0 ∧ c.codec = 0x70 ∧ c.mhCode = 0x12 ∧ c.digest.length = 32) ∨
  (c.version = 1 ∧ c.codec < 2 ^ 63 ∧ c.mhCode < 2 ^ 63 ∧ c.digest.length < 2 ^ 31)

instance (c : Cid) : Decidable c.wf := by unfold wf; exact inferInstance

/-- `cid.NewCidV1(cid.Raw, c.Hash())` — the multihash key form used by AllKeysChan. -/
def toRawV1 (c : Cid) : Cid := { version := 1, codec := 0x55, mhCode := c.mhCode, digest := c.digest }

end Cid

inductive CidErr | eof | invalid
  deriving DecidableEq, Repr

/-- `multihash.readMultihashFromBuf`: returns (bytes consumed, code, digest). -/
def mhFromBytes (bs : Bytes) : Except CidErr (Nat × Nat × Bytes) :=
  if bs.length < 2 then .error .invalid else
  match readUvarint bs with
  | .error _ => .error .invalid
  | .ok (code, r1) =>
    match readUvarint r1 with
    | .error _ => .error .invalid
    | .ok (len, r2) =>
      if len > 2 ^ 31 - 1 then .error .invalid
      else if len > r2.length then .error .invalid
      else .ok (bs.length - r2.length + len, code, r2.take len)

/-- `cid.CidFromBytes`: returns (bytes consumed, cid). -/
def cidFromBytes (bs : Bytes) : Except CidErr (Nat × Cid) :=
  match bs with
  | 0x12 :: 0x20 :: _ :: _ =>
    if bs.length < 34 then .error .invalid
    else .ok (34, { version := 0, codec := 0x70, mhCode := 0x12, digest := (bs.drop 2).take 32 })
  | _ =>
    match readUvarint bs with
    | .error _ => .error .invalid
    | .ok (vers, r1) =>
      if vers ≠ 1 then .error .invalid else
      match readUvarint r1 with
      | .error _ => .error .invalid
      | .ok (codec, r2) =>
        match mhFromBytes r2 with
        | .error e => .error e
        | .ok (n, code, dig) =>
          .ok (bs.length - r2.length + n, { version := 1, codec := codec, mhCode := code, digest := dig })

/-- go-cid's cap on a digest read from a stream. -/
def maxDigestAlloc : Nat := 32 * 2 ^ 20

/-- `cid.CidFromReader` over the remaining stream: (bytes consumed, cid, rest).
    `.eof` only when the stream is empty at the first byte (raw `io.EOF`). -/
def cidFromReader (bs : Bytes) : Except CidErr (Nat × Cid × Bytes) :=
  match readUvarint bs with
  | .error .eof => .error .eof
  | .error _ => .error .invalid
  | .ok (vers, r1) =>
    if vers = 0x12 then
      -- one byte (0x12) consumed; read 33 more and `mh.Cast` the 34 bytes
      if r1.length < 33 then .error .invalid
      else match r1 with
        | 0x20 :: d => .ok (34, { version := 0, codec := 0x70, mhCode := 0x12, digest := d.take 32 }, d.drop 32)
        | _ => .error .invalid
    else if vers ≠ 1 then .error .invalid
    else match readUvarint r1 with
      | .error _ => .error .invalid
      | .ok (codec, r2) =>
        match readUvarint r2 with
        | .error _ => .error .invalid
        | .ok (code, r3) =>
          match readUvarint r3 with
          | .error _ => .error .invalid
          | .ok (mhl, r4) =>
            if mhl > maxDigestAlloc then .error .invalid
            else if r4.length < mhl then .error .invalid
            else .ok (bs.length - r4.length + mhl,
                      { version := 1, codec := codec, mhCode := code, digest := r4.take mhl }, r4.drop mhl)

/-- `cid.Cast`: the whole buffer must be one CID. -/
def cidCast (bs : Bytes) : Option Cid :=
  match cidFromBytes bs with
  | .ok (n, c) => if n = bs.length then some c else none
  | .error _ => none

/-- Hash functions are a parameter: `H code data` = full digest, `none` = unknown function. -/
abbrev HashFn := Nat → Bytes → Option Bytes

/-- `c.Prefix().Sum(data)` then `Equals(c)`: does `data` hash to `c`?
    identity: digest = data; otherwise the (possibly truncated) digest is a prefix of `H`. -/
def verifies (H : HashFn) (c : Cid) (data : Bytes) : Bool :=
  if c.mhCode = 0 then c.digest == data
  else match H c.mhCode data with
    | none => false
    | some full => c.digest.length ≤ full.length && full.take c.digest.length == c.digest

end Car
