import CarModel.Resume
/-
Crash images (C06): the file left behind when a session is cut after `k` complete writes and `j`
bytes of the next one.
-/
namespace Car

/-- the part of an interrupted event that reached the disk (`truncate` is atomic) -/
def WriteEv.cut (j : Nat) : WriteEv → List WriteEv
  | .write off d => if j = 0 then [] else [.write off (d.take j)]
  | .truncate _ => []

def crashImage (f0 : Bytes) (ws : List WriteEv) (k j : Nat) : Bytes :=
  applyWrites f0 (ws.take k ++ (match ws[k]? with | some w => w.cut j | none => []))

/-- is the section of block `b` intact at payload offset `off` of file `f` (payload at `base`)? -/
def intactAt (f : Bytes) (base off : Nat) (b : Block) : Bool :=
  (f.drop (base + off)).take (sectionSize b) == sectionBytes b

end Car
