import CarModel.Proofs.TornHeader
import CarModel.Proofs.Crash
namespace Car

theorem leVal_zeros (n : Nat) : leVal (zeros n) = 0 := by
  induction n with
  | zero => rfl
  | succ n ih => simp only [zeros, List.replicate_succ, leVal] at *; simp [ih]

/-- A 40-byte slot whose bytes 24..32 (the DataSize field) are still zero is not a readable header. -/
theorem readV2Header_datasize_zero (pre : Bytes) (rest : Bytes) (hl : pre.length = 24) :
    ∃ e, readV2Header (pre ++ (zeros 16 ++ rest)) = .error e := by
  unfold readV2Header
  have l1 : ¬ ((pre ++ (zeros 16 ++ rest)).length < 16) := by simp [hl, zeros]; omega
  have l2 : ¬ ((pre ++ (zeros 16 ++ rest)).length < 40) := by simp [hl, zeros]; omega
  simp only [l1, l2, ↓reduceIte]
  have : leVal (((pre ++ (zeros 16 ++ rest)).drop 24).take 8) = 0 := by
    have e : zeros 16 ++ rest = zeros 8 ++ (zeros 8 ++ rest) := by
      simp [zeros, ← List.append_assoc, List.replicate_append_replicate]
    rw [List.drop_left' hl, e, List.take_left' (by simp [zeros]), leVal_zeros]
  rw [this]
  split
  · exact ⟨_, rfl⟩
  · simp

/-- a header write torn after at most 24 bytes leaves such a slot -/
theorem torn_header_le24 (h : V2Header) (j : Nat) (hj : j ≤ 24) :
    ∃ pre, pre.length = 24 ∧ h.bytes.take j ++ zeros (40 - j) = pre ++ zeros 16 := by
  refine ⟨h.bytes.take j ++ zeros (24 - j), by simp [V2Header.bytes_length, zeros]; omega, ?_⟩
  rw [List.append_assoc]
  congr 1
  simp only [zeros, List.replicate_append_replicate]; congr 1; omega

/-- An unreadable header slot is treated exactly like the all-zero slot of an un-finalised file. -/
theorem resumeCore_unreadable_header (api : Api) (o : WOpts) (roots : Option (List Cid)) (hb tail : Bytes)
    (hv2 : o.v1 = false) (hl : hb.length = 40) (e : Err) (hbad : readV2Header (hb ++ tail) = .error e) :
    resumeCore api o roots (pragma ++ hb ++ tail) = resumeCore api o roots (pragma ++ zeros 40 ++ tail) := by
  have hbase : o.base = 51 + o.dataPad := by simp [WOpts.base, hv2]
  have hdrop11 : ∀ h : Bytes, (pragma ++ h ++ tail).drop 11 = h ++ tail := by
    intro h; rw [List.append_assoc]; exact List.drop_left' (by decide)
  have hdropb : ∀ h : Bytes, h.length = 40 → (pragma ++ h ++ tail).drop o.base = tail.drop o.dataPad := by
    intro h hh
    have hl : (pragma ++ h).length = 51 := by simp [hh, pragma, pragmaBody, keyVersion]
    rw [hbase, ← List.drop_drop, List.drop_left' hl]
  have r : ∀ h : Bytes, readHeader (32 * 2 ^ 20) (pragma ++ h ++ tail) = .ok (⟨none, 2⟩, h ++ tail) := by
    intro h; rw [List.append_assoc, readHeader_pragma _ _ (by decide)]
  obtain ⟨e0, he0⟩ := readV2Header_zeros tail
  have hz : (zeros 40).length = 40 := by simp [zeros]
  have m1 := headerEvs_apply hb tail hl {}
  have m2 := headerEvs_apply (zeros 40) tail hz {}
  unfold resumeCore
  simp only [r, hdrop11, hbad, he0, hdropb hb hl, hdropb (zeros 40) hz]
  simp only [hv2, Bool.false_eq_true, and_false, not_false_eq_true, and_self, or_true, not_true_eq_false,
    ↓reduceIte, ne_eq, show ({} : V2Header).dataOffset = 0 from rfl, false_and, List.nil_append, m1, m2]

end Car
