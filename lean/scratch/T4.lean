import CarModel.Proofs.Resume
namespace Car

theorem leN_zero (m : Nat) : leN m 0 = zeros m := by
  induction m with
  | zero => rfl
  | succ m ih => simp [leN, ih, zeros, List.replicate_succ]

/-- The first `k` bytes of a little-endian field followed by zeros are the field of the value
    reduced modulo `256^k` — what a write torn after `k` bytes leaves in a zeroed slot. -/
theorem leN_mod (m : Nat) : ∀ (k n : Nat), k ≤ m →
    leN m (n % 256 ^ k) = (leN m n).take k ++ zeros (m - k) := by
  induction m with
  | zero => intro k n hk; simp [leN, zeros]
  | succ m ih =>
    intro k n hk
    cases k with
    | zero => simp [Nat.mod_one, leN_zero]
    | succ k =>
      have h1 : n % 256 ^ (k + 1) % 256 = n % 256 := by
        rw [Nat.pow_succ, Nat.mul_comm]; exact Nat.mod_mul_right_mod n 256 (256 ^ k)
      have h2 : n % 256 ^ (k + 1) / 256 = n / 256 % 256 ^ k := by
        rw [Nat.pow_succ, Nat.mul_comm, Nat.mod_mul_right_div_self]
      simp only [leN, List.take_succ_cons, List.cons_append, h1, h2]
      rw [ih k (n / 256) (by omega)]
      have e : m + 1 - (k + 1) = m - k := by omega
      rw [e]

theorem le64_mod (k n : Nat) (hk : k ≤ 8) : le64 (n % 256 ^ k) = (le64 n).take k ++ zeros (8 - k) :=
  leN_mod 8 k n hk
theorem truncate_append_ge (a b : Bytes) (t : Nat) (h : a.length ≤ t) :
    truncate (a ++ b) t = a ++ truncate b (t - a.length) := by
  unfold truncate
  by_cases hl : (a ++ b).length < t
  · have hl2 : b.length < t - a.length := by simp at hl; omega
    rw [if_pos hl, if_pos hl2, List.append_assoc, List.length_append, Nat.sub_add_eq]
  · have hl2 : ¬ b.length < t - a.length := by simp at hl; omega
    rw [if_neg hl, if_neg hl2, List.take_append, List.take_of_length_le h]

/-- After Resume's two mutations the 40 header bytes no longer matter. -/
theorem resume_mutations_erase_header (h : V2Header) (tail : Bytes) (t : Nat) (ht : 51 ≤ t) :
    applyWrites (pragma ++ h.bytes ++ tail) ([.truncate t] ++ headerEvs {})
      = pragma ++ zeros 40 ++ truncate tail (t - 51) := by
  rw [applyWrites_append]
  have hl : (pragma ++ h.bytes).length = 51 := by simp [V2Header.bytes_length, pragma, pragmaBody, keyVersion]
  have : applyWrites (pragma ++ h.bytes ++ tail) [.truncate t] = pragma ++ h.bytes ++ truncate tail (t - 51) := by
    simp only [applyWrites, List.foldl_cons, List.foldl_nil, WriteEv.apply]
    rw [truncate_append_ge _ _ _ (by omega), hl]
  rw [this, headerEvs_apply _ _ (V2Header.bytes_length _), zeroHeader_bytes]

theorem resumeCore_header_refused (api : Api) (o : WOpts) (roots : Option (List Cid)) (h : V2Header) (tail : Bytes)
    (hv2 : o.v1 = false) (hwf : h.wf)
    (hbad : h.dataOffset ≠ o.base ∨ h.indexOffset < h.dataOffset + h.dataSize) :
    ∃ e, resumeCore api o roots (pragma ++ h.bytes ++ tail) = ([], .error e) := by
  have hd0 : h.dataOffset ≠ 0 := by have := hwf.dOff.1; omega
  have hdrop11 : (pragma ++ h.bytes ++ tail).drop 11 = h.bytes ++ tail := by
    rw [List.append_assoc]; exact List.drop_left' (by decide)
  unfold resumeCore
  simp only
  rw [List.append_assoc, readHeader_pragma _ _ (by decide)]
  rw [← List.append_assoc, hdrop11, readV2Header_bytes _ hwf]
  simp only [hv2, Bool.false_eq_true, and_false, not_false_eq_true, and_self, or_true, not_true_eq_false,
    ↓reduceIte, true_and, ne_eq, hd0]
  by_cases hb : h.dataOffset = o.base
  · have hlt : h.indexOffset < h.dataOffset + h.dataSize := by
      rcases hbad with hb' | hb'
      · exact absurd hb hb'
      · exact hb'
    simp only [hb, not_true_eq_false, ↓reduceIte]
    rw [← hb]
    simp only [hlt, ↓reduceIte]
    exact ⟨_, rfl⟩
  · simp only [hb, not_false_eq_true, ↓reduceIte]
    exact ⟨_, rfl⟩

theorem resumeCore_header_congr (api : Api) (o : WOpts) (roots : Option (List Cid)) (h1 h2 : V2Header) (tail : Bytes)
    (hv2 : o.v1 = false) (hwf1 : h1.wf) (hwf2 : h2.wf)
    (hoff1 : h1.dataOffset = o.base) (hoff2 : h2.dataOffset = o.base) (hsz : h1.dataSize = h2.dataSize)
    (hio1 : h1.dataOffset + h1.dataSize ≤ h1.indexOffset) (hio2 : h2.dataOffset + h2.dataSize ≤ h2.indexOffset) :
    resumeCore api o roots (pragma ++ h1.bytes ++ tail) = resumeCore api o roots (pragma ++ h2.bytes ++ tail) := by
  have hbase : o.base = 51 + o.dataPad := by simp [WOpts.base, hv2]
  have hb0 : o.base ≠ 0 := by omega
  have hdrop11 : ∀ h : V2Header, (pragma ++ h.bytes ++ tail).drop 11 = h.bytes ++ tail := by
    intro h; rw [List.append_assoc]; exact List.drop_left' (by decide)
  have hdropb : ∀ h : V2Header, (pragma ++ h.bytes ++ tail).drop o.base = tail.drop o.dataPad := by
    intro h
    have hl : (pragma ++ h.bytes).length = 51 := by simp [V2Header.bytes_length, pragma, pragmaBody, keyVersion]
    rw [hbase, ← List.drop_drop, List.drop_left' hl]
  have hmut1 := resume_mutations_erase_header h1 tail (o.base + h1.dataSize) (by omega)
  have hmut2 := resume_mutations_erase_header h2 tail (o.base + h2.dataSize) (by omega)
  have c1 : ¬ (h1.indexOffset < o.base + h1.dataSize) := by omega
  have c2 : ¬ (h2.indexOffset < o.base + h2.dataSize) := by omega
  have r1 : readHeader (32 * 2 ^ 20) (pragma ++ h1.bytes ++ tail) = .ok (⟨none, 2⟩, h1.bytes ++ tail) := by
    rw [List.append_assoc, readHeader_pragma _ _ (by decide)]
  have r2 : readHeader (32 * 2 ^ 20) (pragma ++ h2.bytes ++ tail) = .ok (⟨none, 2⟩, h2.bytes ++ tail) := by
    rw [List.append_assoc, readHeader_pragma _ _ (by decide)]
  rw [hsz] at hmut1 c1
  unfold resumeCore
  simp only [r1, r2, hdrop11, readV2Header_bytes _ hwf1, readV2Header_bytes _ hwf2, hdropb]
  simp only [hv2, Bool.false_eq_true, and_false, not_false_eq_true, and_self, or_true, not_true_eq_false,
    ↓reduceIte, true_and, ne_eq, hoff1, hoff2, hb0, c1, c2, false_and, and_true, hmut1, hmut2, hsz]

theorem le64_zero : le64 0 = zeros 8 := leN_zero 8

/-- A header write torn after `j ≥ 32` bytes into a zeroed slot: all fields but the index offset are
    complete, the index offset is reduced modulo `256^(j-32)`. -/
theorem torn_header_ge32 (h : V2Header) (j : Nat) (h32 : 32 ≤ j) (hj : j ≤ 40) :
    h.bytes.take j ++ zeros (40 - j) = ({ h with indexOffset := h.indexOffset % 256 ^ (j - 32) } : V2Header).bytes := by
  have hA : (le64 h.charHi ++ le64 h.charLo ++ le64 h.dataOffset ++ le64 h.dataSize).length = 32 := by
    simp [le64_length]
  simp only [V2Header.bytes]
  rw [List.take_append, List.take_of_length_le (by omega), hA, le64_mod _ _ (by omega), List.append_assoc]
  congr 3; omega

/-- … torn after `24 ≤ j ≤ 32` bytes: the data size is reduced modulo `256^(j-24)`, the index offset is zero. -/
theorem torn_header_24_32 (h : V2Header) (j : Nat) (h24 : 24 ≤ j) (hj : j ≤ 32) :
    h.bytes.take j ++ zeros (40 - j)
      = ({ h with dataSize := h.dataSize % 256 ^ (j - 24), indexOffset := 0 } : V2Header).bytes := by
  have hA : (le64 h.charHi ++ le64 h.charLo ++ le64 h.dataOffset).length = 24 := by simp [le64_length]
  have hB : (le64 h.charHi ++ le64 h.charLo ++ le64 h.dataOffset ++ le64 h.dataSize).length = 32 := by
    simp [le64_length]
  simp only [V2Header.bytes]
  rw [List.take_append, hB, List.take_append, hA, List.take_of_length_le (l := le64 h.charHi ++ le64 h.charLo ++ le64 h.dataOffset) (by omega),
    le64_mod _ _ (by omega), le64_zero]
  have e1 : (le64 h.indexOffset).take (j - 32) = [] := by
    have : j - 32 = 0 := by omega
    rw [this]; rfl
  rw [e1]
  have e2 : zeros (40 - j) = zeros (8 - (j - 24)) ++ zeros 8 := by
    simp only [zeros, List.replicate_append_replicate]; congr 1; omega
  rw [e2]; simp
end Car
