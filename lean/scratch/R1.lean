import CarModel.Properties.C07
import CarModel.Properties.C03
namespace Car

theorem mem_keptRecords (o : IdxOpts) : ∀ (bs : List Block) (off : Nat) (r : Record), r ∈ keptRecords o off bs →
    ∃ l1 b l2, bs = l1 ++ b :: l2 ∧ r = ⟨b.cid, off + (sectionsBytes l1).length⟩ := by
  intro bs
  induction bs with
  | nil => intro off r h; simp [keptRecords] at h
  | cons b tl ih =>
    intro off r h
    simp only [keptRecords, List.mem_append] at h
    rcases h with h | h
    · split at h
      · simp only [List.mem_singleton] at h
        exact ⟨[], b, tl, rfl, by simp [h, sectionsBytes]⟩
      · simp at h
    · obtain ⟨l1, b', l2, hl, hr⟩ := ih _ _ h
      refine ⟨b :: l1, b', l2, by simp [hl], ?_⟩
      rw [hr, sectionsBytes_cons, List.length_append, sectionBytes_length]
      congr 1; omega

theorem keptRecords_complete (o : IdxOpts) : ∀ (l1 : List Block) (b : Block) (l2 : List Block) (off : Nat),
    (o.storeIdentity || !b.cid.isIdentity) = true →
    (⟨b.cid, off + (sectionsBytes l1).length⟩ : Record) ∈ keptRecords o off (l1 ++ b :: l2) := by
  intro l1
  induction l1 with
  | nil => intro b l2 off hk; simp [keptRecords, hk, sectionsBytes]
  | cons a tl ih =>
    intro b l2 off hk
    simp only [List.cons_append, keptRecords, List.mem_append]
    right
    have := ih b l2 (off + sectionSize a) hk
    rw [sectionsBytes_cons, List.length_append, sectionBytes_length]
    have e : off + (sectionSize a + (sectionsBytes tl).length) = off + sectionSize a + (sectionsBytes tl).length := by omega
    rw [e]; exact this

namespace C07x
open Car.C07

/-- the index options a read-only store derives from its own options -/
def roIdxOpts (o : WOpts) : IdxOpts :=
  { zeroEOF := o.zeroEOF, storeIdentity := o.storeIdentity, maxIndexCidSize := o.maxIndexCidSize, maxHeader := o.maxHeader }

/-- What `OpenReadOnly` builds over a CARv1: the payload itself and an index that is sound and
    complete for it. -/
theorem opened_v1_indexOK (o : WOpts) (roots : Option (List Cid)) (log : List Block) (r : ReadOnly)
    (hopen : openReadOnly .blockstore o .auto (payload roots log) = .ok r)
    (hwf : (CarHeader.mk roots 1).wf) (hmax : (encodeHeaderBody ⟨roots, 1⟩).length ≤ o.maxHeader)
    (h63 : (encodeHeaderBody ⟨roots, 1⟩).length < 2 ^ 63) (hok : ∀ b ∈ log, b.idxOk (roIdxOpts o))
    (hsz : (payload roots log).length < 2 ^ 63)
    (hkept : ∀ b ∈ log, (o.storeIdentity || !b.cid.isIdentity) = true) :
    r.payload = payload roots log ∧ r.api = .blockstore ∧ r.roots = (roots.getD []) ∧
    IndexOK o r.idx.getAll (headerSize ⟨roots, 1⟩) log := by
  have hoffs : ∀ rc ∈ keptRecords (roIdxOpts o) (headerSize ⟨roots, 1⟩) log, rc.offset < 2 ^ 64 := by
    intro rc hrc
    obtain ⟨l1, b, l2, hl, hr⟩ := mem_keptRecords _ _ _ _ hrc
    have : (payload roots log).length = headerSize ⟨roots, 1⟩ + (sectionsBytes log).length := by
      simp [payload, headerSize]
    have h2 : (sectionsBytes l1).length ≤ (sectionsBytes log).length := by
      rw [hl]; simp [sectionsBytes]
    have p : (2:Nat) ^ 63 < 2 ^ 64 := by decide
    rw [hr]; simp only; omega
  unfold openReadOnly at hopen
  simp only [payload] at hopen
  rw [readHeader_encode o.maxHeader ⟨roots, 1⟩ _ hwf hmax h63] at hopen
  simp only [↓reduceIte] at hopen
  have hload := loadIndexRecords_v1 .seekable (roIdxOpts o) roots log hwf hmax h63 hok hsz
  simp only [payload, roIdxOpts] at hload
  rw [hload] at hopen
  simp only at hopen
  cases hl : Index.load o.codec (keptRecords (roIdxOpts o) (headerSize ⟨roots, 1⟩) log) with
  | none => simp only [roIdxOpts] at hl; simp [hl, Except.map] at hopen
  | some ix =>
    simp only [roIdxOpts] at hl
    simp only [hl, Except.map, Except.ok.injEq] at hopen
    subst hopen
    refine ⟨by simp [payload], rfl, rfl, ?_, ?_⟩
    · intro key off hoff
      have := (index_getAll_load o.codec _ ix hl hoffs key off).mp hoff
      obtain ⟨rc, hrc, _, _, ho⟩ := this
      obtain ⟨l1, b, l2, hl1, hr⟩ := mem_keptRecords _ _ _ _ hrc
      exact ⟨l1, b, l2, hl1, by rw [← ho, hr]⟩
    · intro l1 b l2 key hlog hk
      refine (index_getAll_load o.codec _ ix hl hoffs key _).mpr ⟨⟨b.cid, headerSize ⟨roots, 1⟩ + (sectionsBytes l1).length⟩, ?_, ?_, ?_, rfl⟩
      · rw [hlog]; exact keptRecords_complete _ l1 b l2 _ (hkept b (by rw [hlog]; simp))
      · intro _
        unfold Spec.sameKey at hk
        split at hk
        · have := eq_of_beq hk; rw [this]
        · simp only [Bool.and_eq_true, beq_iff_eq] at hk; exact hk.1
      · unfold Spec.sameKey at hk
        split at hk
        · have := eq_of_beq hk; rw [this]
        · simp only [Bool.and_eq_true, beq_iff_eq] at hk; exact hk.2
end C07x
end Car
