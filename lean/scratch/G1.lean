import CarModel.Properties.C04
namespace Car.C04x
open Car Car.C04

/-- GetSize outside the recorded finding (every key except an identity CID under StoreIdentityCIDs):
    the identity rule answers with the digest length, otherwise the size of a stored block carrying the
    key, or not-found when none does. -/
theorem getSize_refines (o : WOpts) (roots : Option (List Cid)) (s : Store) (st : Spec.State)
    (rel : Rel o roots s st) (hapi : s.api = .blockstore) (hopen : s.closed = false)
    (hlog : ∀ b ∈ st.log, b.getOk o) (c : Cid) (hout : ¬ (c.isIdentity = true ∧ o.storeIdentity = true)) :
    (Spec.idRule o c = true → (s.step o (.getSize c)).2.1 = .size c.digest.length) ∧
    (Spec.idRule o c = false →
      (∃ b ∈ st.log, Spec.sameKey o b.cid c = true ∧ (s.step o (.getSize c)).2.1 = .size b.data.length) ∨
      (Spec.stored o st c = none ∧ (s.step o (.getSize c)).2.1 = .err .notFound)) := by
  constructor
  · intro hid
    have hi : c.isIdentity = true := by
      simp only [Spec.idRule, Bool.and_eq_true, Bool.not_eq_true'] at hid; exact hid.2
    simp [Store.step, hapi, Store.stepBlockstore, hi]
  · intro hid
    have hi : c.isIdentity = false := by
      cases h : c.isIdentity with
      | false => rfl
      | true =>
        have : o.storeIdentity = false := by
          cases h2 : o.storeIdentity with
          | false => rfl
          | true => exact absurd ⟨h, h2⟩ hout
        simp [Spec.idRule, h, this] at hid
    rcases findCid_log o roots s st rel hlog c false with ⟨b, d, n, dOff, hf, hm, hs, hn, _, _⟩ | ⟨hf, hnone⟩
    · left
      refine ⟨b, hm, hs, ?_⟩
      simp [Store.step, hapi, Store.stepBlockstore, hi, hopen, hf, hn]
    · right
      exact ⟨hnone, by simp [Store.step, hapi, Store.stepBlockstore, hi, hopen, hf]⟩
end Car.C04x
