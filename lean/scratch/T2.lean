import CarModel.Proofs.Resume
import scratch.T1
namespace Car

theorem truncate_append_ge (a b : Bytes) (t : Nat) (h : a.length ≤ t) :
    truncate (a ++ b) t = a ++ truncate b (t - a.length) := by
  unfold truncate
  by_cases hl : (a ++ b).length < t
  · have hl2 : b.length < t - a.length := by simp at hl; omega
    simp only [hl, hl2, ↓reduceIte, List.append_assoc, List.length_append]
    congr 2; omega
  · have hl2 : ¬ b.length < t - a.length := by simp at hl; omega
    simp only [hl, hl2, ↓reduceIte]
    rw [List.take_append]
    rw [List.take_of_length_le h]

/-- After Resume's two mutations the 40 header bytes no longer matter. -/
theorem resume_mutations_erase_header (h : V2Header) (tail : Bytes) (t : Nat) (ht : 51 ≤ t) :
    applyWrites (pragma ++ h.bytes ++ tail) ([.truncate t] ++ headerEvs {})
      = pragma ++ zeros 40 ++ truncate tail (t - 51) := by
  rw [applyWrites_append]
  have hl : (pragma ++ h.bytes).length = 51 := by simp [V2Header.bytes_length, pragma, pragmaBody, keyVersion]
  have : applyWrites (pragma ++ h.bytes ++ tail) [.truncate t] = pragma ++ h.bytes ++ truncate tail (t - 51) := by
    simp only [applyWrites, List.foldl_cons, List.foldl_nil, WriteEv.apply]
    rw [truncate_append_ge _ _ _ (by omega), hl]
  rw [this, headerEvs_apply _ _ (V2Header.bytes_length _), zeroHeader_bytes]

theorem resumeCore_header_refused (api : Api) (o : WOpts) (roots : Option (List Cid)) (h : V2Header) (tail : Bytes)
    (hv2 : o.v1 = false) (hwf : h.wf)
    (hbad : h.dataOffset ≠ o.base ∨ h.indexOffset < h.dataOffset + h.dataSize) :
    ∃ e, resumeCore api o roots (pragma ++ h.bytes ++ tail) = ([], .error e) := by
  have hd0 : h.dataOffset ≠ 0 := by have := hwf.dOff.1; omega
  have hdrop11 : (pragma ++ h.bytes ++ tail).drop 11 = h.bytes ++ tail := by
    rw [List.append_assoc]; exact List.drop_left' (by decide)
  unfold resumeCore
  simp only
  rw [List.append_assoc, readHeader_pragma _ _ (by decide)]
  rw [← List.append_assoc, hdrop11, readV2Header_bytes _ hwf]
  simp only [hv2, Bool.false_eq_true, and_false, not_false_eq_true, and_self, or_true, not_true_eq_false,
    ↓reduceIte, true_and, ne_eq, hd0]
  by_cases hb : h.dataOffset = o.base
  · have hlt : h.indexOffset < h.dataOffset + h.dataSize := by
      rcases hbad with hb' | hb'
      · exact absurd hb hb'
      · exact hb'
    simp only [hb, not_true_eq_false, ↓reduceIte]
    rw [← hb]
    simp only [hlt, ↓reduceIte]
    exact ⟨_, rfl⟩
  · simp only [hb, not_false_eq_true, ↓reduceIte]
    exact ⟨_, rfl⟩

theorem resumeCore_header_congr (api : Api) (o : WOpts) (roots : Option (List Cid)) (h1 h2 : V2Header) (tail : Bytes)
    (hv2 : o.v1 = false) (hwf1 : h1.wf) (hwf2 : h2.wf)
    (hoff1 : h1.dataOffset = o.base) (hoff2 : h2.dataOffset = o.base) (hsz : h1.dataSize = h2.dataSize)
    (hio1 : h1.dataOffset + h1.dataSize ≤ h1.indexOffset) (hio2 : h2.dataOffset + h2.dataSize ≤ h2.indexOffset) :
    resumeCore api o roots (pragma ++ h1.bytes ++ tail) = resumeCore api o roots (pragma ++ h2.bytes ++ tail) := by
  have hbase : o.base = 51 + o.dataPad := by simp [WOpts.base, hv2]
  have key : ∀ (h : V2Header), h.wf → h.dataOffset = o.base → h.dataOffset + h.dataSize ≤ h.indexOffset →
      resumeCore api o roots (pragma ++ h.bytes ++ tail) =
        ([.truncate (o.base + h.dataSize)] ++ headerEvs {},
          match readHeader o.maxHeader (tail.drop o.dataPad) with
          | .error e => .error e
          | .ok (hd, _) =>
            if hd.version ≠ 1 ∨ ! rootsMatch hd.rootList (roots.getD []) then .error .other else
            let file' := pragma ++ zeros 40 ++ truncate tail (o.base + h.dataSize - 51)
            let pl' := file'.drop o.base
            match resumeLoop o.zeroEOF pl' (pl'.length + 1) (headerSize hd) [] with
            | .error e => .error e
            | .ok (ix, pos) => .ok { api := api, file := file', base := o.base, pos := pos, idx := ix, roots := roots }) := by
    intro h hwf hoff hio
    have hd0 : h.dataOffset ≠ 0 := by have := hwf.dOff.1; omega
    have hdrop11 : (pragma ++ h.bytes ++ tail).drop 11 = h.bytes ++ tail := by
      rw [List.append_assoc]; exact List.drop_left' (by decide)
    have hdropb : (pragma ++ h.bytes ++ tail).drop o.base = tail.drop o.dataPad := by
      have hl : (pragma ++ h.bytes).length = 51 := by simp [V2Header.bytes_length, pragma, pragmaBody, keyVersion]
      rw [hbase, ← List.drop_drop, List.drop_left' hl]
    have hmut := resume_mutations_erase_header h tail (o.base + h.dataSize) (by omega)
    unfold resumeCore
    simp only
    rw [List.append_assoc, readHeader_pragma _ _ (by decide)]
    rw [← List.append_assoc, hdrop11, readV2Header_bytes _ hwf]
    have c2 : ¬ (h.indexOffset < o.base + h.dataSize) := by omega
    simp only [hv2, Bool.false_eq_true, and_false, not_false_eq_true, and_self, or_true, not_true_eq_false,
      ↓reduceIte, true_and, ne_eq, hd0, hoff, c2, hdropb, false_and, and_true]
    rw [hmut]
    cases hrd : readHeader o.maxHeader (tail.drop o.dataPad) with
    | error e => simp
    | ok v =>
      obtain ⟨hd, r⟩ := v
      simp only
      split
      · simp
      · simp only [List.append_assoc]
        split <;> simp_all
  rw [key h1 hwf1 hoff1 hio1, key h2 hwf2 hoff2 hio2, hsz]
end Car
