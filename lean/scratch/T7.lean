import CarModel.Proofs.TornHeader
import CarModel.Proofs.Crash
namespace Car

theorem readUvarint_zero_byte (rest : Bytes) : readUvarint ((0 : UInt8) :: rest) = .ok (0, rest) := by
  simp [readUvarint, readUvarintAux]

/-- The section scan of `Resume` over `header ++ sections ++ (a zero byte …)`: it walks the sections
    and meets the zero length. -/
theorem resumeLoop_sections_then_zero (zeroEOF : Bool) (hdr : Bytes) (acked : List Block) (X : Bytes) (ix : InsIndex)
    (fuel : Nat) (hlog : LogOK' acked) :
    resumeLoop zeroEOF (hdr ++ sectionsBytes acked ++ ((0 : UInt8) :: X)) (fuel + 1 + acked.length) hdr.length ix
      = if zeroEOF then .ok (insertAll ix hdr.length acked, (hdr ++ sectionsBytes acked).length)
        else .error .zeroSection := by
  rw [resumeLoop_sections_then zeroEOF ((0 : UInt8) :: X) acked hdr ix (fuel + 1) hlog]
  unfold resumeLoop
  rw [List.drop_left' rfl, readUvarint_zero_byte]
  simp
end Car
