import CarModel.Properties.C08
namespace Car.C08x
open Car Car.Locks

/-- (5) Isolation of exclusive sections: while a thread holds the exclusive lock, no OTHER thread is
    about to read or write ANY guarded field (not only the same one). -/
theorem exclusive_isolation (methods : List (List Ev)) (hwl : ∀ es ∈ methods, wellLocked es = true)
    (c : Config) (hr : Reachable (initial methods) c) (i j : Nat) (ti tj : Thread) (hij : i ≠ j)
    (hi : c.threads[i]? = some ti) (hj : c.threads[j]? = some tj) (hw : ti.mode = .w)
    (e : Ev) (es : List Ev) (hnext : tj.rest = e :: es) : ∀ f, e ≠ .read f ∧ e ≠ .write f := by
  have inv := reachable_inv _ c (initial_inv methods hwl) hr
  have hnone := C08.exclusive_sections methods hwl c hr i j ti tj hij hi hj hw
  have hwlj := inv.wl j tj hj
  rw [hnext, hnone] at hwlj
  intro f
  constructor
  · rintro rfl; have := (mode_of_read _ _ _ hwlj).1; simp at this
  · rintro rfl; have := (mode_of_write _ _ _ hwlj).1; simp at this

/-- (6) Stability of shared sections: while some thread holds the lock shared, NO thread (itself
    included) is about to write any guarded field. -/
theorem shared_isolation (methods : List (List Ev)) (hwl : ∀ es ∈ methods, wellLocked es = true)
    (c : Config) (hr : Reachable (initial methods) c) (i j : Nat) (ti tj : Thread)
    (hi : c.threads[i]? = some ti) (hj : c.threads[j]? = some tj) (hrd : ti.mode = .r)
    (f : Nat) (es : List Ev) : tj.rest ≠ .write f :: es := by
  have inv := reachable_inv _ c (initial_inv methods hwl) hr
  intro hnext
  have hwlj := inv.wl j tj hj
  rw [hnext] at hwlj
  have hwj := (mode_of_write _ _ _ hwlj).1
  have hwr := (inv.wmode j tj hj).mp hwj
  have hri := (inv.rmode i ti hi).mp hrd
  rw [inv.excl (by simp [hwr])] at hri
  cases hri
end Car.C08x
