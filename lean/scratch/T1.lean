import CarModel.Proofs.Resume
namespace Car

theorem leN_zero (m : Nat) : leN m 0 = zeros m := by
  induction m with
  | zero => rfl
  | succ m ih => simp [leN, ih, zeros, List.replicate_succ]

/-- The first `k` bytes of a little-endian field followed by zeros are the field of the value
    reduced modulo `256^k` — what a write torn after `k` bytes leaves in a zeroed slot. -/
theorem leN_mod (m : Nat) : ∀ (k n : Nat), k ≤ m →
    leN m (n % 256 ^ k) = (leN m n).take k ++ zeros (m - k) := by
  induction m with
  | zero => intro k n hk; simp [leN, zeros]
  | succ m ih =>
    intro k n hk
    cases k with
    | zero => simp [Nat.mod_one, leN_zero]
    | succ k =>
      have h1 : n % 256 ^ (k + 1) % 256 = n % 256 := by
        rw [Nat.pow_succ, Nat.mul_comm]; exact Nat.mod_mul_right_mod n 256 (256 ^ k)
      have h2 : n % 256 ^ (k + 1) / 256 = n / 256 % 256 ^ k := by
        rw [Nat.pow_succ, Nat.mul_comm, Nat.mod_mul_right_div_self]
      simp only [leN, List.take_succ_cons, List.cons_append, h1, h2]
      rw [ih k (n / 256) (by omega)]
      have e : m + 1 - (k + 1) = m - k := by omega
      rw [e]

theorem le64_mod (k n : Nat) (hk : k ≤ 8) : le64 (n % 256 ^ k) = (le64 n).take k ++ zeros (8 - k) :=
  leN_mod 8 k n hk
end Car
