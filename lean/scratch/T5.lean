import CarModel.Proofs.TornHeader
namespace Car.C06x
open Car

theorem crash_in_final_header_write (api : Api) (o : WOpts) (roots : Option (List Cid)) (n : Nat) (fi : Bool)
    (tail : Bytes) (j : Nat) (hv2 : o.v1 = false) (hn : 0 < n) (lok : LayoutOK o.dataPad o.indexPad n)
    (h32 : 32 ≤ j) (hj : j ≤ 40) :
    let H := finalHeader o.dataPad o.indexPad n true fi
    (∃ e, resumeCore api o roots (pragma ++ (H.bytes.take j ++ zeros (40 - j)) ++ tail) = ([], .error e)) ∨
    resumeCore api o roots (pragma ++ (H.bytes.take j ++ zeros (40 - j)) ++ tail)
      = resumeCore api o roots (pragma ++ H.bytes ++ tail) := by
  intro H
  have hwf : H.wf := finalHeader_wf o.dataPad o.indexPad n true fi hn lok
  have hbase : o.base = 51 + o.dataPad := by simp [WOpts.base, hv2]
  rw [torn_header_ge32 H j h32 hj]
  have hwf' : ({ H with indexOffset := H.indexOffset % 256 ^ (j - 32) } : V2Header).wf :=
    ⟨hwf.hi, hwf.lo, hwf.dOff, hwf.dSize, Nat.lt_of_le_of_lt (Nat.mod_le _ _) hwf.iOff⟩
  by_cases hlt : H.indexOffset % 256 ^ (j - 32) < H.dataOffset + H.dataSize
  · exact Or.inl (resumeCore_header_refused api o roots _ tail hv2 hwf' (Or.inr hlt))
  · have hoff : H.dataOffset = o.base := by simp [H, finalHeader, hbase]
    have hio : H.dataOffset + H.dataSize ≤ H.indexOffset := by simp [H, finalHeader]
    exact Or.inr (resumeCore_header_congr api o roots _ H tail hv2 hwf' hwf hoff hoff rfl (Nat.le_of_not_lt hlt) hio)

theorem crash_in_final_header_datasize (api : Api) (o : WOpts) (roots : Option (List Cid)) (n : Nat) (fi : Bool)
    (tail : Bytes) (j : Nat) (hv2 : o.v1 = false) (hn : 0 < n) (lok : LayoutOK o.dataPad o.indexPad n)
    (h24 : 24 ≤ j) (hj : j ≤ 32) (hpart : n % 256 ^ (j - 24) ≠ 0) :
    let H := finalHeader o.dataPad o.indexPad n true fi
    ∃ e, resumeCore api o roots (pragma ++ (H.bytes.take j ++ zeros (40 - j)) ++ tail) = ([], .error e) := by
  intro H
  have hwf : H.wf := finalHeader_wf o.dataPad o.indexPad n true fi hn lok
  rw [torn_header_24_32 H j h24 hj]
  have hsz : H.dataSize = n := rfl
  have hwf' : ({ H with dataSize := H.dataSize % 256 ^ (j - 24), indexOffset := 0 } : V2Header).wf :=
    ⟨hwf.hi, hwf.lo, hwf.dOff, ⟨Nat.pos_of_ne_zero hpart, Nat.lt_of_le_of_lt (Nat.mod_le _ _) hwf.dSize.2⟩, (by decide : (0:Nat) < 2 ^ 63)⟩
  refine resumeCore_header_refused api o roots _ tail hv2 hwf' (Or.inr ?_)
  have := hwf.dOff.1
  show 0 < H.dataOffset + n % 256 ^ (j - 24)
  omega
end Car.C06x
