import CarModel.Proofs.V2
namespace Car.Facts
namespace Tr

structure Hdr where
  dataOffset : Nat := 0
  dataSize : Nat := 0
  indexOffset : Nat := 0
  deriving DecidableEq, Repr

/-- uint64 wrap-around -/
def w (n : Nat) : Nat := n % 2 ^ 64

/-- v2/car.go NewHeader -/
def newHeader (dataSize : Nat) : Hdr :=
  let header : Hdr := { dataSize := dataSize }
  let header : Hdr := { header with dataOffset := w (11 + 40) }
  let header : Hdr := { header with indexOffset := w (header.dataOffset + dataSize) }
  header

def translated_newHeader : Bool := true

/-- v2/car.go WithIndexPadding -/
def withIndexPadding (h : Hdr) (padding : Nat) : Hdr :=
  let h : Hdr := { h with indexOffset := w (h.indexOffset + padding) }
  h

def translated_withIndexPadding : Bool := true

/-- v2/car.go WithDataPadding -/
def withDataPadding (h : Hdr) (padding : Nat) : Hdr :=
  let h : Hdr := { h with dataOffset := w (w (11 + 40) + padding) }
  let h : Hdr := { h with indexOffset := w (h.indexOffset + padding) }
  h

def translated_withDataPadding : Bool := true

/-- v2/car.go WithDataSize -/
def withDataSize (h : Hdr) (size : Nat) : Hdr :=
  let h : Hdr := { h with dataSize := size }
  let h : Hdr := { h with indexOffset := w (size + h.indexOffset) }
  h

def translated_withDataSize : Bool := true

/-- v2/car.go HasIndex -/
def hasIndex (h : Hdr) : Bool :=
  (h.indexOffset != 0)

def translated_hasIndex : Bool := true

end Tr
end Car.Facts
namespace Car
open Car.Facts

/-- the model's header seen as the translated structure (the characteristics are not touched by the arithmetic) -/
def V2Header.toTr (h : V2Header) : Tr.Hdr := { dataOffset := h.dataOffset, dataSize := h.dataSize, indexOffset := h.indexOffset }

theorem tr_newHeader (n : Nat) : Tr.newHeader n = (V2Header.new n).toTr := by
  simp [Tr.newHeader, V2Header.new, V2Header.toTr, Tr.w, u64, pragmaSize, v2HeaderSize]

theorem tr_withIndexPadding (h : V2Header) (p : Nat) : Tr.withIndexPadding h.toTr p = (h.withIndexPadding p).toTr := by
  simp [Tr.withIndexPadding, V2Header.withIndexPadding, V2Header.toTr, Tr.w, u64]

theorem tr_withDataPadding (h : V2Header) (p : Nat) : Tr.withDataPadding h.toTr p = (h.withDataPadding p).toTr := by
  simp [Tr.withDataPadding, V2Header.withDataPadding, V2Header.toTr, Tr.w, u64, pragmaSize, v2HeaderSize]

theorem tr_withDataSize (h : V2Header) (n : Nat) : Tr.withDataSize h.toTr n = (h.withDataSize n).toTr := by
  simp [Tr.withDataSize, V2Header.withDataSize, V2Header.toTr, Tr.w, u64]

theorem tr_hasIndex (h : V2Header) : Tr.hasIndex h.toTr = h.hasIndex := by
  simp [Tr.hasIndex, V2Header.hasIndex, V2Header.toTr]
end Car
