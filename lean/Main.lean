import CarModel.Driver.Main
def main : IO Unit := do
  Car.Driver.loop (← IO.getStdin) (← IO.getStdout) {}
