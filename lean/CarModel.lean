import CarModel.Bytes
import CarModel.Varint
