package main

import (
	"bytes"
	"encoding/hex"
	"fmt"
	"io"
	"os"
	"strings"

	carv2 "github.com/ipld/go-car/v2"
)

// counting sources: how many bytes go-car actually reads from the wrapped source
type cntPlain struct {
	r io.Reader
	n int
}

func (c *cntPlain) Read(p []byte) (int, error) { k, err := c.r.Read(p); c.n += k; return k, err }

// like *os.File: Read + Seek, no ReadByte
type cntSeek struct {
	r *bytes.Reader
	n int
}

func (c *cntSeek) Read(p []byte) (int, error)          { k, err := c.r.Read(p); c.n += k; return k, err }
func (c *cntSeek) Seek(o int64, w int) (int64, error)   { return c.r.Seek(o, w) }

// like bytes.Reader: Read + Seek + ReadByte
type cntSeekByte struct{ cntSeek }

func (c *cntSeekByte) ReadByte() (byte, error) {
	b, err := c.r.ReadByte()
	if err == nil {
		c.n++
	}
	return b, err
}

func famC14(g *Gen, o *Out, n int, thorough bool) {
	for c := 0; c < n; c++ {
		maxB := 5
		if thorough {
			maxB = 10
		}
		roots, bs, ver, dp, arch, _ := genArchive(g, maxB)
		o.HashBlocks(bs)
		ro := defaultReadOpts()
		if c >= 6 && g.pick(4) == 0 {
			// a section limit some blocks exceed (and a header limit that is far above it): Next and SkipNext
			// apply the same limit to a section
			ro.ms = uint64(60 + g.pick(100))
		}
		nch := 3
		if thorough {
			nch = 12
		}
		for t := 0; t < nch; t++ {
			// a choice string at least as long as the block list (+2 calls past the end)
			var sb strings.Builder
			for i := 0; i < len(bs)+2; i++ {
				sb.WriteByte("ns"[g.pick(2)])
			}
			if t == 0 {
				sb.Reset()
				sb.WriteString(strings.Repeat("s", len(bs)+2))
			}
			choices := sb.String()
			for _, kind := range []string{"bytes", "plain", "file", "osfile", "dr"} {
				var src io.Reader
				var count func() int
				lineArch, lineVer, lineDp := arch, ver, dp
				switch kind {
				case "dr":
					// the payload as handed out by Reader.DataReader: seekable, but for a CARv1 without
					// SeekEnd (internal offset reader), for a CARv2 an io.SectionReader
					rd, err := carv2.NewReader(bytes.NewReader(arch))
					if err != nil {
						continue
					}
					dr, err := rd.DataReader()
					if err != nil {
						continue
					}
					src = dr
					if ver == 2 {
						off, sz := leU64(arch[27:35]), leU64(arch[35:43])
						lineArch, lineVer, lineDp = arch[off:off+sz], 1, 0
					}
				case "bytes":
					s := &cntSeekByte{cntSeek{r: bytes.NewReader(arch)}}
					src, count = s, func() int { return s.n }
				case "file":
					s := &cntSeek{r: bytes.NewReader(arch)}
					src, count = s, func() int { return s.n }
				case "plain":
					s := &cntPlain{r: bytes.NewReader(arch)}
					src, count = s, func() int { return s.n }
				case "osfile":
					if t > 0 {
						continue
					}
					p := tmpPath("c14.car")
					os.WriteFile(p, arch, 0o644)
					f, err := os.Open(p)
					if err != nil {
						panic(err)
					}
					defer f.Close()
					src, count = f, nil
				}
				os.WriteFile(tmpPath("c14-current-case.txt"), []byte(fmt.Sprintf("walk kind=%s ver=%d ch=%s arch=%x\n", kind, ver, choices, arch)), 0o644)
				res := runChoices(src, ro, choices)
				if count != nil {
					if strings.HasSuffix(res, "end=eof") {
						res += fmt.Sprintf(" consumed=%d", count())
					} else {
						res += fmt.Sprintf(" _consumed=%d", count())
					}
					if ver == 2 {
						end := int(leU64(arch[27:35]) + leU64(arch[35:43]))
						res += fmt.Sprintf(" over=%d", b2i(count() > end))
					}
				}
				mk := kind
				if kind == "osfile" {
					mk = "file"
				}
				if kind == "dr" { // CARv1: skipping falls back to reading; CARv2: a section reader seeks
					mk = map[int]string{1: "plain", 2: "bytes"}[ver]
				}
				line := fmt.Sprintf("walk kind=%s cnt=%d %s roots=%s blocks=%s ver=%d dp=%d ch=%s arch=%s", mk, b2i(count != nil), ro, roots,
					blocksStr(bs), lineVer, lineDp, choices, hex.EncodeToString(lineArch))
				o.Line(line, res)
				o.Count("walk/" + kind + fmt.Sprintf("/v%d", ver))
			}
		}
	}
	if workDir != "" {
		os.RemoveAll(workDir)
	}
}

// runChoices drives Next/SkipNext per the choice string until the first error.
func runChoices(src io.Reader, ro readOpts, choices string) string {
	br, err := carv2.NewBlockReader(src, ro.opts()...)
	if err != nil {
		return "open=" + classify(err)
	}
	var vs []string
	end := "none"
	for i := 0; i < len(choices); i++ {
		if choices[i] == 's' {
			m, err := br.SkipNext()
			if err != nil {
				end = classify(err)
				break
			}
			vs = append(vs, fmt.Sprintf("s:%x:%d:%d:%d", m.Cid.Bytes(), m.Offset, m.SourceOffset, m.Size))
		} else {
			b, err := br.Next()
			if err != nil {
				end = classify(err)
				break
			}
			vs = append(vs, fmt.Sprintf("n:%x:%s", b.Cid().Bytes(), hexOr(b.RawData())))
		}
	}
	v := "-"
	if len(vs) > 0 {
		v = strings.Join(vs, ";")
	}
	return fmt.Sprintf("open=ok roots=%s visits=%s end=%s", cidsStr(br.Roots), v, end)
}
