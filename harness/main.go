package main

import (
	"flag"
	"fmt"
	"os"
	"runtime"
	"strconv"
	"sync/atomic"
	"time"
)

// progress: bumped by every script line; the watchdog reads it
var progress atomic.Int64

// watchdog: a call into the library that never returns, or that keeps allocating, must end the run with
// the case written down (a hang or an unbounded allocation is a failing input), not eat the machine:
// the process exits 3 when no script line was produced for VERIF_STALL_SECS (default 300, thorough 1800)
// and 4 when the live heap passes VERIF_HEAP_LIMIT_MB (default 8192).
func watchdog(thorough bool) {
	stall := 300
	if thorough {
		stall = 1800
	}
	if v, err := strconv.Atoi(os.Getenv("VERIF_STALL_SECS")); err == nil && v > 0 {
		stall = v
	}
	heapMB := 8192
	if v, err := strconv.Atoi(os.Getenv("VERIF_HEAP_LIMIT_MB")); err == nil && v > 0 {
		heapMB = v
	}
	die := func(code int, why string) {
		if noted.kind != "" {
			os.WriteFile(tmpPath("current-case.txt"), []byte(fmt.Sprintf("%s %s in=%x\n%s\n", noted.kind, noted.opts, noted.input, why)), 0o644)
		}
		fmt.Fprintln(os.Stderr, "watchdog:", why)
		os.Exit(code)
	}
	last, lastAt := progress.Load(), time.Now()
	var m runtime.MemStats
	for {
		time.Sleep(250 * time.Millisecond)
		if p := progress.Load(); p != last {
			last, lastAt = p, time.Now()
		} else if time.Since(lastAt) > time.Duration(stall)*time.Second {
			die(3, fmt.Sprintf("hang: no progress for %d s", stall))
		}
		runtime.ReadMemStats(&m)
		if m.HeapAlloc > uint64(heapMB)<<20 {
			die(4, fmt.Sprintf("unbounded allocation: live heap %d MiB", m.HeapAlloc>>20))
		}
	}
}

func main() {
	fam := flag.String("fam", "", "family")
	seed := flag.Int64("seed", 1, "seed")
	n := flag.Int("n", 10, "number of cases")
	out := flag.String("out", ".", "output dir")
	thorough := flag.Bool("thorough", false, "thorough tier")
	flag.Parse()
	g := newGen(*seed)
	o := newOut(*out)
	go watchdog(*thorough)
	defer func() {
		// a panic that escapes a family is a crash of the library on the case noted last: write the
		// case down for the replay, then let the process die with the panic
		if r := recover(); r != nil {
			if noted.kind != "" {
				os.WriteFile(tmpPath("current-case.txt"), []byte(fmt.Sprintf("%s %s in=%x\npanic: %v\n", noted.kind, noted.opts, noted.input, r)), 0o644)
			}
			o.Close()
			panic(r)
		}
	}()
	defer func() {
		o.Close()
		fmt.Fprintf(os.Stdout, "{\"family\":%q,\"lines\":%d,\"dist\":%s}\n", *fam, o.lines, o.StatsJSON())
	}()
	switch *fam {
	case "c02":
		famC02(g, o, *n, *thorough)
	case "c01":
		famC01(g, o, *n, *thorough)
	case "c05":
		famC05(g, o, *n, *thorough)
	case "c14":
		famC14(g, o, *n, *thorough)
	case "c12":
		famC12(g, o, *n, *thorough)
	case "c06":
		famC06(g, o, *n, *thorough)
	case "c20":
		famC20(g, o, *n, *thorough)
	case "c16":
		famC16(g, o, *n, *thorough)
	case "c10":
		famC10(g, o, *n, *thorough)
	case "c11":
		famC11(g, o, *n, *thorough)
	case "c13":
		famC13(g, o, *n, *thorough)
	case "c07":
		famC07(g, o, *n, *thorough)
	case "c09":
		famC09(g, o, *n, *thorough)
	case "c08":
		famC08(g, o, *n, *thorough)
	case "c19":
		famC19(g, o, *n, *thorough)
	case "c18":
		famC18(g, o, *n, *thorough)
	case "c17":
		famC17(g, o, *n, *thorough)
	case "c15":
		famC15(g, o, *n, *thorough)
	case "c04":
		famC04(g, o, *n, *thorough)
	case "c03":
		famC03(g, o, *n, *thorough)
	default:
		fmt.Fprintln(os.Stderr, "unknown family", *fam)
		os.Exit(2)
	}
}

// noted: the call the harness is about to make into the library (kept by reference: no copying, no
// formatting unless the process is about to die).
var noted struct {
	kind, opts string
	input      []byte
}

func noteCase(kind, opts string, input []byte) {
	noted.kind, noted.opts, noted.input = kind, opts, input
}
