package main

import (
	"bytes"
	"context"
	"fmt"
	"io"
	"os"
	"path/filepath"
	"strings"

	"github.com/ipfs/go-cid"
	carv2 "github.com/ipld/go-car/v2"
	"github.com/ipld/go-ipld-prime"
	"github.com/ipld/go-ipld-prime/datamodel"
	"github.com/ipld/go-ipld-prime/linking"
	cidlink "github.com/ipld/go-ipld-prime/linking/cid"
	basicnode "github.com/ipld/go-ipld-prime/node/basic"
	"github.com/ipld/go-ipld-prime/traversal"
	"github.com/ipld/go-ipld-prime/traversal/selector"
	selectorparse "github.com/ipld/go-ipld-prime/traversal/selector/parse"
	"github.com/multiformats/go-multicodec"
	mh "github.com/multiformats/go-multihash"
)

// refWalk: the walk `car get-dag` asks the traversal engine for (match-all-recursively, each link
// once, absent blocks skipped unless strict), run here directly on go-ipld-prime over the blocks the
// archive holds; returns the engine's load sequence. The engine is a recorded input of the model.
func refWalk(have map[string][]byte, root cid.Cid, strict bool) (loads []cid.Cid, err error) {
	ls := cidlink.DefaultLinkSystem()
	ls.TrustedStorage = true
	ls.StorageReadOpener = func(_ linking.LinkContext, l datamodel.Link) (io.Reader, error) {
		c := l.(cidlink.Link).Cid
		d, ok := have[string(c.Hash())] // the read-only blockstore behind get-dag answers by multihash
		if !ok {
			if strict {
				return nil, fmt.Errorf("not found")
			}
			return nil, traversal.SkipMe{}
		}
		loads = append(loads, c)
		return bytes.NewReader(d), nil
	}
	rootNode, err := ls.Load(ipld.LinkContext{}, cidlink.Link{Cid: root}, basicnode.Prototype.Any)
	if err != nil {
		return loads, err
	}
	prog := traversal.Progress{Cfg: &traversal.Config{
		LinkSystem: ls,
		LinkTargetNodePrototypeChooser: func(datamodel.Link, ipld.LinkContext) (datamodel.NodePrototype, error) {
			return basicnode.Prototype.Any, nil
		},
		LinkVisitOnlyOnce: true,
	}}
	sel, err := selector.CompileSelector(selectorparse.CommonSelector_MatchAllRecursively)
	if err != nil {
		return loads, err
	}
	err = prog.WalkMatching(rootNode, sel, func(traversal.Progress, datamodel.Node) error { return nil })
	return loads, err
}

// getdagCases: a random dag-cbor/raw DAG packed (shuffled, with strangers, sometimes with a block
// missing) into an archive, then `car get-dag` in both output versions, with the root given or taken
// from the archive, strict or not.
func (g *Gen) getdagCases(o *Out, dir string, thorough bool) {
	d := g.buildDag(1 + g.pick(3))
	var bs []Blk
	for _, c := range d.all {
		data, _ := d.store.Get(context.Background(), cidlink.Link{Cid: c}.Binary())
		bs = append(bs, Blk{c, data})
	}
	g.Shuffle(len(bs), func(i, j int) { bs[i], bs[j] = bs[j], bs[i] })
	missing := g.pick(4) == 0
	if missing && len(bs) > 1 {
		i := g.pick(len(bs))
		if bs[i].C.Equals(d.root) && g.pick(2) == 0 {
			i = (i + 1) % len(bs)
		}
		bs = append(bs[:i:i], bs[i+1:]...)
	}
	for i := 0; i < g.pick(3); i++ {
		bs = append(bs, g.Block())
	}
	o.HashBlocks(bs)
	roots := []cid.Cid{d.root}
	if g.pick(4) == 0 {
		roots = append(roots, g.Block().C)
	}
	var arch []byte
	if g.pick(2) == 0 {
		arch = writeAll(roots, bs, true)
	} else {
		arch = writeAll(roots, bs, false, carv2.UseDataPadding([]uint64{0, 11}[g.pick(2)]))
	}
	in := filepath.Join(dir, "dag.car")
	os.WriteFile(in, arch, 0o644)
	out := filepath.Join(dir, "dagout.bin")
	have := map[string][]byte{}
	for _, b := range bs {
		if _, dup := have[string(b.C.Hash())]; !dup { // first section carrying the multihash wins
			have[string(b.C.Hash())] = b.D
		}
	}
	for _, ver := range []int{1, 2} {
		strict := g.pick(3) == 0
		implicit := len(roots) == 1 && g.pick(2) == 0
		// --version 1 goes through the root module's selective writer, which has no lenient mode: an
		// absent block fails the command whatever --strict says
		loads, werr := refWalk(have, d.root, strict || ver == 1)
		g.prepOut(out)
		args := []string{"get-dag", fmt.Sprintf("--version=%d", ver)}
		if strict {
			args = append(args, "--strict")
		}
		if implicit {
			args = append(args, in, out)
		} else {
			args = append(args, in, d.root.String(), out)
		}
		_, _, err := runCar(nil, dir, args...)
		o.Line(fmt.Sprintf("cli op=getdag ver=%d strict=%d eng=%s root=%x loads=%s roots=%s blocks=%s in=%x", ver, b2i(strict), okOrErr(werr), d.root.Bytes(),
			cidsStr(loads), rootsArg(roots), blocksStr(bs), arch), outRes(dir, out, err, true))
		o.Count(fmt.Sprintf("getdag/v%d/missing=%d/%s", ver, b2i(missing), okOrErr(err)))
	}
}


// judgeOut runs `car inspect --full` and `car verify` on an output archive.
func judgeOut(dir, p string) string {
	_, _, ierr := runCar(nil, dir, "inspect", "--full", p)
	_, _, verr := runCar(nil, dir, "verify", p)
	return fmt.Sprintf("inspect=%s verify=%s", okOrErr(ierr), okOrErr(verr))
}

func outRes(dir, p string, err error, archive bool) string {
	if err != nil {
		return "r=err"
	}
	b, rerr := os.ReadFile(p)
	if rerr != nil {
		return "r=err"
	}
	s := "r=ok out=" + hexOr(b)
	if archive {
		s += " " + judgeOut(dir, p)
	}
	return s
}

// cidLines: the CIDs `car list` printed, as hex.
// stdoutRes: a sub-command run without its optional output argument writes the result to standard
// output — exactly the bytes it would have written to the file, and nothing else.
func stdoutRes(dir, tmp string, so string, err error, archive bool) string {
	if err != nil {
		return "r=err"
	}
	os.WriteFile(tmp, []byte(so), 0o644)
	return outRes(dir, tmp, nil, archive)
}

func cidLines(s string) string {
	var cs []cid.Cid
	for _, l := range strings.Split(strings.TrimSpace(s), "\n") {
		if l == "" {
			continue
		}
		c, err := cid.Decode(strings.TrimSpace(l))
		if err != nil {
			return "unparsable"
		}
		cs = append(cs, c)
	}
	return cidsStr(cs)
}

type c19Archive struct {
	roots  []cid.Cid
	bs     []Blk
	bytes  []byte
	ver    int
	codec  string
	hasIdx bool
}

func (g *Gen) c19Archive(maxB int) c19Archive {
	bs := g.Blocks(maxB)
	if len(bs) > 0 && g.pick(3) == 0 {
		// a block that occurs twice, early: commands that count or stop on matches see it twice
		i := g.pick((len(bs) + 1) / 2)
		bs = append(bs[:i+1:i+1], append([]Blk{bs[i]}, bs[i+1:]...)...)
	}
	roots := g.Roots(bs)
	if g.pick(3) != 0 && len(bs) > 0 { // mostly archives whose roots are among their blocks
		roots = []cid.Cid{bs[g.pick(len(bs))].C}
		if g.pick(3) == 0 {
			roots = append(roots, bs[g.pick(len(bs))].C)
		}
	}
	a := c19Archive{roots: roots, bs: bs, codec: "mh"}
	switch g.pick(4) {
	case 0:
		a.ver, a.bytes = 1, writeAll(roots, bs, true)
	case 1: // index-less CARv2, perhaps padded
		a.ver, a.codec = 2, "none"
		a.bytes = indexlessV2(writeAll(roots, bs, true), []int{0, 0, 7}[g.pick(3)])
	default:
		a.ver, a.hasIdx = 2, true
		opts := []carv2.Option{carv2.UseDataPadding([]uint64{0, 0, 13}[g.pick(3)])}
		if g.pick(2) == 0 {
			a.codec = "sorted"
			opts = append(opts, carv2.UseIndexCodec(multicodec.CarIndexSorted))
		}
		a.bytes = writeAll(roots, bs, false, opts...)
	}
	return a
}

// prepOut puts the output path into one of the states a user's disk can be in: absent, an old
// shorter file, an old much longer file. Every sub-command must produce the same output.
func (g *Gen) prepOut(p string) {
	os.Remove(p)
	switch g.pick(4) {
	case 0:
		os.WriteFile(p, g.bytes(1+g.pick(30)), 0o644)
	case 1:
		os.WriteFile(p, g.bytes(20000+g.pick(9000)), 0o644)
	}
}

func famC19(g *Gen, o *Out, n int, thorough bool) {
	base := tmpPath("c19")
	os.MkdirAll(base, 0o755)
	for c := 0; c < n; c++ {
		dir := filepath.Join(base, fmt.Sprintf("s%d", c))
		os.RemoveAll(dir)
		os.MkdirAll(dir, 0o755)
		maxB := 5
		if thorough {
			maxB = 9
		}
		a := g.c19Archive(maxB)
		if c == 0 {
			// fixed: a selected block that occurs twice before other selected blocks, the last of them the
			// root (A A B C, roots = C): commands that count matches or stop early lose B or C
			mk := func(d string) Blk {
				h, _ := mh.Sum([]byte(d), mh.SHA2_256, -1)
				return Blk{cid.NewCidV1(cid.Raw, h), []byte(d)}
			}
			bA, bB, bC := mk("block A"), mk("block B, longer than A"), mk("C")
			a = c19Archive{roots: []cid.Cid{bC.C}, bs: []Blk{bA, bA, bB, bC}, codec: "mh", ver: 1}
			a.bytes = writeAll(a.roots, a.bs, true)
		}
		o.HashBlocks(a.bs)
		in := filepath.Join(dir, "in.car")
		os.WriteFile(in, a.bytes, 0o644)
		desc := fmt.Sprintf("roots=%s blocks=%s in=%x", rootsArg(a.roots), blocksStr(a.bs), a.bytes)
		out := filepath.Join(dir, "out.bin")
		// --- index
		for _, codec := range []string{"mh", "sorted", "none"} {
			if !thorough && g.pick(2) == 0 {
				continue
			}
			g.prepOut(out)
			cname := map[string]string{"mh": "car-multihash-index-sorted", "sorted": "car-index-sorted", "none": "none"}[codec]
			_, _, err := runCar(nil, dir, "index", "--codec="+cname, in, out)
			o.Line(fmt.Sprintf("cli op=index ver=2 codec=%s %s", codec, desc), outRes(dir, out, err, true))
			o.Count("index/" + codec)
		}
		g.prepOut(out)
		_, _, err := runCar(nil, dir, "index", "--version=1", in, out)
		o.Line(fmt.Sprintf("cli op=index ver=1 codec=none %s", desc), outRes(dir, out, err, true))
		// the same two requests with the output argument omitted: the archive goes to standard output
		{
			codec := []string{"mh", "sorted", "none"}[g.pick(3)]
			cname := map[string]string{"mh": "car-multihash-index-sorted", "sorted": "car-index-sorted", "none": "none"}[codec]
			so, _, err := runCar(nil, dir, "index", "--codec="+cname, in)
			o.Line(fmt.Sprintf("cli op=index via=stdout ver=2 codec=%s %s", codec, desc), stdoutRes(dir, out, so, err, true))
			so, _, err = runCar(nil, dir, "index", "--version=1", in)
			o.Line(fmt.Sprintf("cli op=index via=stdout ver=1 codec=none %s", desc), stdoutRes(dir, out, so, err, true))
			o.Count("index/stdout")
		}
		// --- index create
		{
			codec := []string{"mh", "sorted"}[g.pick(2)]
			cname := map[string]string{"mh": "car-multihash-index-sorted", "sorted": "car-index-sorted"}[codec]
			g.prepOut(out)
			_, _, err := runCar(nil, dir, "index", "--codec="+cname, "create", in, out)
			o.Line(fmt.Sprintf("cli op=indexcreate codec=%s %s", codec, desc), outRes(dir, out, err, false))
			o.Count("indexcreate/" + codec)
		}
		// --- detach-index
		g.prepOut(out)
		_, _, err = runCar(nil, dir, "detach-index", in, out)
		o.Line(fmt.Sprintf("cli op=detach codec=%s sid=1 %s", map[bool]string{true: a.codec, false: "none"}[a.hasIdx], desc), outRes(dir, out, err, false))
		o.Count(fmt.Sprintf("detach/hasidx=%d", b2i(a.hasIdx)))
		if g.pick(2) == 0 {
			so, _, err := runCar(nil, dir, "detach-index", in)
			o.Line(fmt.Sprintf("cli op=detach via=stdout codec=%s sid=1 %s", map[bool]string{true: a.codec, false: "none"}[a.hasIdx], desc), stdoutRes(dir, out, so, err, false))
			o.Count("detach/stdout")
		}
		// --- list
		{
			so, _, err := runCar(nil, dir, "list", in)
			res := "r=err"
			if err == nil {
				res = "r=ok cids=" + cidLines(so)
			}
			o.Line("cli op=list "+desc, res)
			// the same listing into a file (the optional second argument)
			g.prepOut(out)
			_, _, err = runCar(nil, dir, "list", in, out)
			res = "r=err"
			if err == nil {
				b, _ := os.ReadFile(out)
				res = "r=ok cids=" + cidLines(string(b))
			}
			o.Line("cli op=list via=file "+desc, res)
		}
		// --- get-block: a present key, the same hash under another codec, an absent key
		{
			keys := []cid.Cid{g.Block().C}
			if len(a.bs) > 0 {
				b := a.bs[g.pick(len(a.bs))]
				keys = append(keys, b.C, cid.NewCidV1(0x71, b.C.Hash()))
			}
			for _, k := range keys {
				g.prepOut(out)
				_, _, err := runCar(nil, dir, "get-block", in, k.String(), out)
				o.Line(fmt.Sprintf("cli op=getblock c=%x %s", k.Bytes(), desc), outRes(dir, out, err, false))
				o.Count("getblock/" + okOrErr(err))
				if g.pick(3) == 0 {
					so, _, err := runCar(nil, dir, "get-block", in, k.String())
					o.Line(fmt.Sprintf("cli op=getblock via=stdout c=%x %s", k.Bytes(), desc), stdoutRes(dir, out, so, err, false))
					o.Count("getblock/stdout")
				}
			}
		}
		// --- filter (and its inverse), both output versions
		{
			var sel []cid.Cid
			all := g.pick(3) == 0
			if c == 0 {
				all = true
			}
			for _, b := range a.bs {
				if all || g.pick(2) == 0 {
					sel = append(sel, b.C)
				}
			}
			if g.pick(3) == 0 {
				sel = append(sel, g.Block().C) // a CID that is not in the archive
			}
			if c == 0 {
				sel = []cid.Cid{a.bs[0].C, a.bs[2].C, a.bs[3].C} // exactly the distinct CIDs of the archive
			}
			var lines []string
			for _, s := range sel {
				lines = append(lines, s.String())
			}
			cf := filepath.Join(dir, "cids.txt")
			// the list as people write it: newline-terminated, without the final newline, with blank lines
			// and stray spaces, with CRLF line ends
			list := strings.Join(lines, "\n") + "\n"
			switch g.pick(5) {
			case 1:
				list = strings.Join(lines, "\n")
			case 2:
				list = "\n  " + strings.Join(lines, " \n\n\t") + "  "
			case 3:
				list = strings.Join(lines, "\r\n") + "\r\n"
			}
			os.WriteFile(cf, []byte(list), 0o644)
			for _, inv := range []bool{false, true} {
				ver := 1 + g.pick(2)
				g.prepOut(out)
				args := []string{"filter", "--cid-file=" + cf, fmt.Sprintf("--version=%d", ver)}
				if inv {
					args = append(args, "--inverse")
				}
				_, _, err := runCar(nil, dir, append(args, in, out)...)
				o.Line(fmt.Sprintf("cli op=filter ver=%d inv=%d cids=%s %s", ver, b2i(inv), cidsStr(sel), desc), outRes(dir, out, err, true))
				o.Count(fmt.Sprintf("filter/v%d/inv=%d", ver, b2i(inv)))
			}
		}
		// --- filter --append: a first selection into a fresh CARv2, then more blocks of a second
		// archive appended to it (and the refusals: --version 1, an existing CARv1 output)
		if thorough || g.pick(2) == 0 {
			var sel1 []cid.Cid
			for _, b := range a.bs {
				if g.pick(3) != 0 {
					sel1 = append(sel1, b.C)
				}
			}
			pver := 2
			if g.pick(6) == 0 {
				pver = 1
			}
			in1 := map[cid.Cid]bool{}
			var l1 []string
			for _, s := range sel1 {
				in1[s] = true
				l1 = append(l1, s.String())
			}
			cf1 := filepath.Join(dir, "cids1.txt")
			os.WriteFile(cf1, []byte(strings.Join(l1, "\n")+"\n"), 0o644)
			os.Remove(out)
			if _, _, err := runCar(nil, dir, "filter", "--cid-file="+cf1, fmt.Sprintf("--version=%d", pver), in, out); err == nil {
				prev, _ := os.ReadFile(out)
				var proots []cid.Cid
				for _, r := range a.roots {
					if in1[r] {
						proots = append(proots, r)
					}
				}
				var pblocks []Blk
				for _, b := range a.bs {
					if in1[b.C] {
						pblocks = append(pblocks, b)
					}
				}
				b2 := g.c19Archive(4)
				if g.pick(3) == 0 {
					b2 = a // the same archive again: everything already there is skipped
				}
				o.HashBlocks(b2.bs)
				in2 := filepath.Join(dir, "in2.car")
				os.WriteFile(in2, b2.bytes, 0o644)
				var sel2 []cid.Cid
				for _, b := range b2.bs {
					if g.pick(2) == 0 {
						sel2 = append(sel2, b.C)
					}
				}
				var l2 []string
				for _, s := range sel2 {
					l2 = append(l2, s.String())
				}
				cf2 := filepath.Join(dir, "cids2.txt")
				os.WriteFile(cf2, []byte(strings.Join(l2, "\n")+"\n"), 0o644)
				inv := g.pick(2) == 0
				ver := 2
				if g.pick(8) == 0 {
					ver = 1
				}
				args := []string{"filter", "--append", "--cid-file=" + cf2, fmt.Sprintf("--version=%d", ver)}
				if inv {
					args = append(args, "--inverse")
				}
				_, _, err := runCar(nil, dir, append(args, in2, out)...)
				if err != nil {
					os.Remove(out) // a refused append: whatever it left is not an output
				}
				o.Line(fmt.Sprintf("cli op=filterappend ver=%d pver=%d inv=%d cids=%s proots=%s pblocks=%s prev=%x roots=%s blocks=%s in=%x", ver, pver, b2i(inv), cidsStr(sel2),
					rootsArg(proots), blocksStr(pblocks), prev, rootsArg(b2.roots), blocksStr(b2.bs), b2.bytes), outRes(dir, out, err, true))
				o.Count(fmt.Sprintf("filterappend/v%d/pv%d", ver, pver))
			}
		}
		// --- get-dag
		if thorough || g.pick(2) == 0 {
			g.getdagCases(o, dir, thorough)
		}
		// --- concat with one or two more archives
		{
			ins := []c19Archive{a}
			for i := 0; i < 1+g.pick(2); i++ {
				ins = append(ins, g.c19Archive(3))
			}
			var args []string
			var d []string
			for i, x := range ins {
				o.HashBlocks(x.bs)
				p := filepath.Join(dir, fmt.Sprintf("c%d.car", i))
				os.WriteFile(p, x.bytes, 0o644)
				args = append(args, p)
				d = append(d, fmt.Sprintf("roots%d=%s blocks%d=%s in%d=%x", i, rootsArg(x.roots), i, blocksStr(x.bs), i, x.bytes))
			}
			for _, ver := range []int{1, 2} {
				g.prepOut(out)
				_, _, err := runCar(nil, dir, append([]string{"concat", fmt.Sprintf("--version=%d", ver), "--output=" + out}, args...)...)
				o.Line(fmt.Sprintf("cli op=concat ver=%d n=%d %s", ver, len(ins), strings.Join(d, " ")), outRes(dir, out, err, true))
				o.Count(fmt.Sprintf("concat/v%d", ver))
			}
		}
		os.RemoveAll(dir)
	}
	os.RemoveAll(base)
	if workDir != "" {
		os.RemoveAll(workDir)
	}
}
