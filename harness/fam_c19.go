package main

import (
	"fmt"
	"os"
	"path/filepath"
	"strings"

	"github.com/ipfs/go-cid"
	carv2 "github.com/ipld/go-car/v2"
	"github.com/multiformats/go-multicodec"
)

// judgeOut runs `car inspect --full` and `car verify` on an output archive.
func judgeOut(dir, p string) string {
	_, _, ierr := runCar(nil, dir, "inspect", "--full", p)
	_, _, verr := runCar(nil, dir, "verify", p)
	return fmt.Sprintf("inspect=%s verify=%s", okOrErr(ierr), okOrErr(verr))
}

func outRes(dir, p string, err error, archive bool) string {
	if err != nil {
		return "r=err"
	}
	b, rerr := os.ReadFile(p)
	if rerr != nil {
		return "r=err"
	}
	s := "r=ok out=" + hexOr(b)
	if archive {
		s += " " + judgeOut(dir, p)
	}
	return s
}

// cidLines: the CIDs `car list` printed, as hex.
func cidLines(s string) string {
	var cs []cid.Cid
	for _, l := range strings.Split(strings.TrimSpace(s), "\n") {
		if l == "" {
			continue
		}
		c, err := cid.Decode(strings.TrimSpace(l))
		if err != nil {
			return "unparsable"
		}
		cs = append(cs, c)
	}
	return cidsStr(cs)
}

type c19Archive struct {
	roots  []cid.Cid
	bs     []Blk
	bytes  []byte
	ver    int
	codec  string
	hasIdx bool
}

func (g *Gen) c19Archive(maxB int) c19Archive {
	bs := g.Blocks(maxB)
	if len(bs) > 0 && g.pick(3) == 0 {
		// a block that occurs twice, early: commands that count or stop on matches see it twice
		i := g.pick((len(bs) + 1) / 2)
		bs = append(bs[:i+1:i+1], append([]Blk{bs[i]}, bs[i+1:]...)...)
	}
	roots := g.Roots(bs)
	if g.pick(3) != 0 && len(bs) > 0 { // mostly archives whose roots are among their blocks
		roots = []cid.Cid{bs[g.pick(len(bs))].C}
		if g.pick(3) == 0 {
			roots = append(roots, bs[g.pick(len(bs))].C)
		}
	}
	a := c19Archive{roots: roots, bs: bs, codec: "mh"}
	switch g.pick(4) {
	case 0:
		a.ver, a.bytes = 1, writeAll(roots, bs, true)
	case 1: // index-less CARv2, perhaps padded
		a.ver, a.codec = 2, "none"
		a.bytes = indexlessV2(writeAll(roots, bs, true), []int{0, 0, 7}[g.pick(3)])
	default:
		a.ver, a.hasIdx = 2, true
		opts := []carv2.Option{carv2.UseDataPadding([]uint64{0, 0, 13}[g.pick(3)])}
		if g.pick(2) == 0 {
			a.codec = "sorted"
			opts = append(opts, carv2.UseIndexCodec(multicodec.CarIndexSorted))
		}
		a.bytes = writeAll(roots, bs, false, opts...)
	}
	return a
}

func famC19(g *Gen, o *Out, n int, thorough bool) {
	base := tmpPath("c19")
	os.MkdirAll(base, 0o755)
	for c := 0; c < n; c++ {
		dir := filepath.Join(base, fmt.Sprintf("s%d", c))
		os.RemoveAll(dir)
		os.MkdirAll(dir, 0o755)
		maxB := 5
		if thorough {
			maxB = 9
		}
		a := g.c19Archive(maxB)
		o.HashBlocks(a.bs)
		in := filepath.Join(dir, "in.car")
		os.WriteFile(in, a.bytes, 0o644)
		desc := fmt.Sprintf("roots=%s blocks=%s in=%x", rootsArg(a.roots), blocksStr(a.bs), a.bytes)
		out := filepath.Join(dir, "out.bin")
		// --- index
		for _, codec := range []string{"mh", "sorted", "none"} {
			if !thorough && g.pick(2) == 0 {
				continue
			}
			os.Remove(out)
			cname := map[string]string{"mh": "car-multihash-index-sorted", "sorted": "car-index-sorted", "none": "none"}[codec]
			_, _, err := runCar(nil, dir, "index", "--codec="+cname, in, out)
			o.Line(fmt.Sprintf("cli op=index ver=2 codec=%s %s", codec, desc), outRes(dir, out, err, true))
			o.Count("index/" + codec)
		}
		os.Remove(out)
		_, _, err := runCar(nil, dir, "index", "--version=1", in, out)
		o.Line(fmt.Sprintf("cli op=index ver=1 codec=none %s", desc), outRes(dir, out, err, true))
		// --- index create
		{
			codec := []string{"mh", "sorted"}[g.pick(2)]
			cname := map[string]string{"mh": "car-multihash-index-sorted", "sorted": "car-index-sorted"}[codec]
			os.Remove(out)
			_, _, err := runCar(nil, dir, "index", "--codec="+cname, "create", in, out)
			o.Line(fmt.Sprintf("cli op=indexcreate codec=%s %s", codec, desc), outRes(dir, out, err, false))
			o.Count("indexcreate/" + codec)
		}
		// --- detach-index
		os.Remove(out)
		_, _, err = runCar(nil, dir, "detach-index", in, out)
		o.Line(fmt.Sprintf("cli op=detach codec=%s sid=1 %s", map[bool]string{true: a.codec, false: "none"}[a.hasIdx], desc), outRes(dir, out, err, false))
		o.Count(fmt.Sprintf("detach/hasidx=%d", b2i(a.hasIdx)))
		// --- list
		{
			so, _, err := runCar(nil, dir, "list", in)
			res := "r=err"
			if err == nil {
				res = "r=ok cids=" + cidLines(so)
			}
			o.Line("cli op=list "+desc, res)
		}
		// --- get-block: a present key, the same hash under another codec, an absent key
		{
			keys := []cid.Cid{g.Block().C}
			if len(a.bs) > 0 {
				b := a.bs[g.pick(len(a.bs))]
				keys = append(keys, b.C, cid.NewCidV1(0x71, b.C.Hash()))
			}
			for _, k := range keys {
				os.Remove(out)
				_, _, err := runCar(nil, dir, "get-block", in, k.String(), out)
				o.Line(fmt.Sprintf("cli op=getblock c=%x %s", k.Bytes(), desc), outRes(dir, out, err, false))
				o.Count("getblock/" + okOrErr(err))
			}
		}
		// --- filter (and its inverse), both output versions
		{
			var sel []cid.Cid
			all := g.pick(3) == 0
			for _, b := range a.bs {
				if all || g.pick(2) == 0 {
					sel = append(sel, b.C)
				}
			}
			if g.pick(3) == 0 {
				sel = append(sel, g.Block().C) // a CID that is not in the archive
			}
			var lines []string
			for _, s := range sel {
				lines = append(lines, s.String())
			}
			cf := filepath.Join(dir, "cids.txt")
			os.WriteFile(cf, []byte(strings.Join(lines, "\n")+"\n"), 0o644)
			for _, inv := range []bool{false, true} {
				ver := 1 + g.pick(2)
				os.Remove(out)
				args := []string{"filter", "--cid-file=" + cf, fmt.Sprintf("--version=%d", ver)}
				if inv {
					args = append(args, "--inverse")
				}
				_, _, err := runCar(nil, dir, append(args, in, out)...)
				o.Line(fmt.Sprintf("cli op=filter ver=%d inv=%d cids=%s %s", ver, b2i(inv), cidsStr(sel), desc), outRes(dir, out, err, true))
				o.Count(fmt.Sprintf("filter/v%d/inv=%d", ver, b2i(inv)))
			}
		}
		// --- concat with one or two more archives
		{
			ins := []c19Archive{a}
			for i := 0; i < 1+g.pick(2); i++ {
				ins = append(ins, g.c19Archive(3))
			}
			var args []string
			var d []string
			for i, x := range ins {
				o.HashBlocks(x.bs)
				p := filepath.Join(dir, fmt.Sprintf("c%d.car", i))
				os.WriteFile(p, x.bytes, 0o644)
				args = append(args, p)
				d = append(d, fmt.Sprintf("roots%d=%s blocks%d=%s in%d=%x", i, rootsArg(x.roots), i, blocksStr(x.bs), i, x.bytes))
			}
			for _, ver := range []int{1, 2} {
				os.Remove(out)
				_, _, err := runCar(nil, dir, append([]string{"concat", fmt.Sprintf("--version=%d", ver), "--output=" + out}, args...)...)
				o.Line(fmt.Sprintf("cli op=concat ver=%d n=%d %s", ver, len(ins), strings.Join(d, " ")), outRes(dir, out, err, true))
				o.Count(fmt.Sprintf("concat/v%d", ver))
			}
		}
		os.RemoveAll(dir)
	}
	os.RemoveAll(base)
	if workDir != "" {
		os.RemoveAll(workDir)
	}
}
