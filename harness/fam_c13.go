package main

import (
	"io"
	"github.com/ipfs/go-cid"
	mh "github.com/multiformats/go-multihash"
	"bytes"
	"fmt"
	"sort"
	"strings"

	carv2 "github.com/ipld/go-car/v2"
	"github.com/multiformats/go-multicodec"
)

func countsStr(m map[multicodec.Code]uint64) string {
	if len(m) == 0 {
		return "-"
	}
	keys := make([]uint64, 0, len(m))
	for k := range m {
		keys = append(keys, uint64(k))
	}
	sort.Slice(keys, func(i, j int) bool { return keys[i] < keys[j] })
	s := make([]string, len(keys))
	for i, k := range keys {
		s[i] = fmt.Sprintf("%d:%d", k, m[multicodec.Code(k)])
	}
	return strings.Join(s, ",")
}

var inspectCalls int

func runInspect(input []byte, ro readOpts, full bool) string {
	noteCase(fmt.Sprintf("inspect full=%d", b2i(full)), ro.String(), input)
	r, err := carv2.NewReader(bytes.NewReader(input), ro.opts()...)
	if err != nil {
		return "r=" + classify(err)
	}
	inspectCalls++
	if inspectCalls%2 == 0 {
		r.Inspect(!full) // every other time the other kind of inspection has been run on this Reader before
	}
	st, err := r.Inspect(full)
	// the same Reader asked again (also after Roots and a payload reader were used) answers the same
	r.Roots()
	if dr, derr := r.DataReader(); derr == nil {
		io.CopyN(io.Discard, dr, 7)
	}
	st2, err2 := r.Inspect(full)
	again := ""
	if (err == nil) != (err2 == nil) || (err == nil && fmt.Sprint(st) != fmt.Sprint(st2)) {
		again = " again=differs"
	}
	if err != nil {
		c := classify(err)
		if strings.Contains(err.Error(), "section length shorter than CID length") {
			c = "other"
		}
		return "r=" + c + again
	}
	h := st.Header
	return fmt.Sprintf("r=ok v=%d hdr=%d.%d.%d.%d.%d roots=%s rp=%d n=%d cid=%d.%d.%d blk=%d.%d.%d codecs=%s mh=%s idx=%d",
		st.Version, h.Characteristics.Hi, h.Characteristics.Lo, h.DataOffset, h.DataSize, h.IndexOffset, cidsStr(st.Roots),
		b2i(st.RootsPresent), st.BlockCount, st.MinCidLength, st.AvgCidLength, st.MaxCidLength,
		st.MinBlockLength, st.AvgBlockLength, st.MaxBlockLength, countsStr(st.CodecCounts), countsStr(st.MhTypeCounts), uint64(st.IndexCodec)) + again
}

// hashKindArchives: a valid two-block archive per hash function / digest length of the alphabet
// (truncated digests, identity, double hashes ...), inspected with and without validation.
func hashKindArchives(g *Gen, o *Out) {
	for _, hc := range hashAlphabet[5:] {
		d := g.bytes(3 + g.pick(20))
		h, err := mh.Sum(d, hc.code, hc.len)
		if err != nil {
			continue
		}
		first := g.Block()
		bs := []Blk{first, {cid.NewCidV1(cid.Raw, h), d}}
		o.HashBlocks(bs)
		arch := writeAll([]cid.Cid{first.C}, bs, g.pick(2) == 0)
		ro := defaultReadOpts()
		refSections(arch, o.Hash)
		for _, full := range []bool{true, false} {
			o.Line(fmt.Sprintf("inspect full=%d %s in=%s", b2i(full), ro, hexOr(arch)), runInspect(arch, ro, full))
		}
		o.Count(fmt.Sprintf("valid-kind/%d", hc.code))
	}
}

// inspectAgrees: the property stated on the implementation alone — Inspect(true) succeeds iff the
// hash-verifying block reader ends cleanly, and then both report the same roots and block count.
func inspectAgrees(input []byte, ro readOpts) string {
	scanOK, nScan, rootsScan := false, 0, ""
	if br, err := carv2.NewBlockReader(bytes.NewReader(input), ro.opts()...); err == nil {
		rootsScan = cidsStr(br.Roots)
		for {
			_, err := br.Next()
			if err == io.EOF {
				scanOK = true
				break
			}
			if err != nil {
				break
			}
			nScan++
		}
	}
	inspOK, nInsp, rootsInsp := false, 0, ""
	if r, err := carv2.NewReader(bytes.NewReader(input), ro.opts()...); err == nil {
		if st, err := r.Inspect(true); err == nil {
			inspOK, nInsp, rootsInsp = true, int(st.BlockCount), cidsStr(st.Roots)
		}
	}
	if scanOK != inspOK || (scanOK && (nScan != nInsp || rootsScan != rootsInsp)) {
		return fmt.Sprintf("agree=0 _scan=%v/%d _inspect=%v/%d", scanOK, nScan, inspOK, nInsp)
	}
	return "agree=1"
}

// headerVariants: the CARv1 header of (roots, version 1) in encodings a lenient dag-cbor decoder accepts
// although go-car would not write them: their length differs from the canonical re-encoding.
func headerVariants(root cid.Cid) [][]byte {
	rb := append([]byte{0xd8, 0x2a, 0x58, byte(len(root.Bytes()) + 1), 0x00}, root.Bytes()...)
	key := func(k string) []byte { return append([]byte{0x60 + byte(len(k))}, k...) }
	cat := func(parts ...[]byte) []byte {
		var b []byte
		for _, p := range parts {
			b = append(b, p...)
		}
		return b
	}
	bodies := [][]byte{
		cat([]byte{0xa2}, key("roots"), []byte{0x81}, rb, key("version"), []byte{0x01}),       // as written
		cat([]byte{0xa2}, key("version"), []byte{0x01}, key("roots"), []byte{0x81}, rb),       // keys reordered
		cat([]byte{0xa2}, key("roots"), []byte{0x81}, rb, key("version"), []byte{0x18, 0x01}), // version in two bytes
		cat([]byte{0xa2}, key("roots"), []byte{0x9f}, rb, []byte{0xff}, key("version"), []byte{0x01}), // indefinite-length roots
		cat([]byte{0xa1}, key("version"), []byte{0x01}),                                       // no roots key
		cat([]byte{0xa2}, key("roots"), []byte{0x98, 0x01}, rb, key("version"), []byte{0x01}), // array length in two bytes
		cat([]byte{0xbf}, key("roots"), []byte{0x81}, rb, key("version"), []byte{0x01}, []byte{0xff}), // indefinite-length map
	}
	var out [][]byte
	for _, b := range bodies {
		out = append(out, append(varintBytes(uint64(len(b))), b...))
	}
	return out
}

func varintBytes(x uint64) []byte {
	var b []byte
	for x >= 0x80 {
		b = append(b, byte(x)|0x80)
		x >>= 7
	}
	return append(b, byte(x))
}

// headerVariantCases: the same two sections under every header variant, as CARv1 and inside an index-less
// CARv2 (padded and not).
func headerVariantCases(g *Gen, o *Out) {
	bs := []Blk{g.Block(), g.Block()}
	o.HashBlocks(bs)
	var secs []byte
	for _, b := range bs {
		secs = append(secs, sectionOf(b)...)
	}
	ro := defaultReadOpts()
	for i, h := range headerVariants(bs[0].C) {
		v1 := append(append([]byte{}, h...), secs...)
		for _, in := range [][]byte{v1, indexlessV2(v1, 0), indexlessV2(v1, 9)} {
			o.Line(fmt.Sprintf("inspagree %s in=%s", ro, hexOr(in)), inspectAgrees(in, ro))
			o.Count(fmt.Sprintf("header-variant/%d", i))
		}
	}
}

func famC13(g *Gen, o *Out, n int, thorough bool) {
	hashKindArchives(g, o)
	headerVariantCases(g, o)
	for c := 0; c < n; c++ {
		maxB := 5
		if thorough {
			maxB = 10
		}
		_, bs, ver, _, arch, pend := genArchive(g, maxB)
		o.HashBlocks(bs)
		ro := defaultReadOpts()
		if g.pick(4) == 0 {
			ro.zeroEOF = true
		}
		// the two size limits are separate: a section limit some sections exceed under a roomy header limit,
		// and a header limit at or below the header's length under a roomy section limit
		switch {
		case c%4 == 1:
			ro.ms = uint64(40 + g.pick(120))
		case c%8 == 6:
			ro.mh = uint64(20 + g.pick(60))
		case c%8 == 2:
			ro.ms, ro.mh = uint64(40+g.pick(120)), uint64(40+g.pick(120))
		}
		emit := func(in []byte, tag string) {
			refSections(in, o.Hash)
			for _, full := range []bool{true, false} {
				o.Line(fmt.Sprintf("inspect full=%d %s in=%s", b2i(full), ro, hexOr(in)), runInspect(in, ro, full))
			}
			o.Count(tag)
		}
		emit(arch, fmt.Sprintf("valid/v%d", ver))
		// structure-aware corruptions
		stride := 1
		if !thorough && len(arch) > 300 {
			stride = len(arch) / 150
		}
		if thorough && len(arch)*len(arch) > 600000 {
			stride = len(arch) * len(arch) / 600000 // every offset of small archives; a bounded script for big ones
		}
		for i := 0; i < len(arch); i += stride {
			m := append([]byte{}, arch...)
			switch g.pick(4) {
			case 0:
				m[i] ^= byte(1 << g.pick(8))
			case 1:
				m[i]++
			case 2:
				m[i]--
			default:
				m[i] = byte(g.pick(256))
			}
			emit(m, "mutated")
		}
		for j := 0; j < 6; j++ {
			k := g.pick(len(arch) + 1)
			emit(arch[:k], "truncated")
		}
		// cuts around every length prefix and inside CIDs (which read fails decides the verdict), as a
		// file truncation and, for CARv2, as a window that ends there (data size shrunk in the header)
		{
			base := 0
			if ver == 2 {
				base = int(leU64(arch[27:35]))
			}
			cuts := sectionCuts(arch, base, pend)
			if !thorough && len(cuts) > 40 {
				cuts = cuts[len(cuts)-40:]
			}
			for _, k := range cuts {
				if k <= base || k >= pend {
					continue
				}
				emit(arch[:k], "cut-at-prefix")
				if ver == 2 {
					m := append([]byte{}, arch...)
					putLeU64(m[35:43], uint64(k-base))
					emit(m, "window-ends-at-prefix")
				}
			}
		}
		// corpus (fixed C13/D19, D20): inner-header version changed; last section's length prefix enlarged
		{
			base := 0
			if ver == 2 {
				base = int(leU64(arch[27:35]))
			}
			hl := int(arch[base]) // header length varint (one byte for these sizes) or first byte of it
			if arch[base] < 0x80 && base+hl < len(arch) {
				m := append([]byte{}, arch...)
				m[base+hl] = byte(2 + g.pick(3)) // the `version` value is the last byte of the header
				emit(m, "inner-version")
			}
			if len(bs) > 0 {
				// start of the last section = pend - size of last section
				last := bs[len(bs)-1]
				ss := len(sectionOf(last))
				p := pend - ss
				if arch[p] < 0x70 {
					m := append([]byte{}, arch...)
					m[p] += byte(1 + g.pick(8))
					emit(m, "last-length-enlarged")
				}
			}
		}
		// the index-codec probe (CARv2 with an index): the varint at the index offset in every shape a
		// varint reader can disagree about — non-minimal, 9 and 10 bytes, cut, an unknown codec
		if ver == 2 && len(arch) > 51 {
			ioff := int(leU64(arch[43:51]))
			if ioff > 0 && ioff+2 <= len(arch) {
				for _, enc := range [][]byte{
					{0x81, 0x88, 0x00},       // 0x0401 with a padding byte: not minimal
					{0x80, 0x88, 0x80, 0x00}, // 0x0400, not minimal
					{0x80, 0x80, 0x80, 0x80, 0x80, 0x80, 0x80, 0x80, 0x80, 0x01}, // 10 bytes: 2^63
					{0xff, 0xff, 0xff, 0xff, 0xff, 0xff, 0xff, 0xff, 0x7f},       // 9 bytes: 2^63-1
					{0x80}, {0x81, 0x88}, {0x05}, {0x82, 0x08}, {},
				} {
					m := append(append([]byte{}, arch[:ioff]...), enc...)
					if len(enc) > 2 {
						m = append(m, arch[ioff+2:]...)
					}
					emit(m, "index-codec-varint")
				}
			}
		}
		// a zero-length section in the middle of the payload (sections, or garbage, follow it), read with and
		// without ZeroLengthSectionAsEOF: with the option the scan and the inspection both end there
		if ver == 1 && len(bs) > 1 {
			p := len(arch) - len(sectionOf(bs[len(bs)-1]))
			for _, fill := range [][]byte{{0}, {0, 0, 0}, {0, 0xff, 0x01}} {
				m := append(append(append([]byte{}, arch[:p]...), fill...), arch[p:]...)
				saved := ro.zeroEOF
				for _, z := range []bool{true, false} {
					ro.zeroEOF = z
					emit(m, "zero-section-mid-payload")
					emit(indexlessV2(m, 0), "zero-section-mid-payload-v2")
				}
				ro.zeroEOF = saved
			}
		}
		// a payload with trailing null padding, and (v2) a cut exactly at the payload end
		if ver == 1 {
			emit(append(append([]byte{}, arch...), make([]byte, 1+g.pick(4))...), "nullpad")
		} else {
			emit(arch[:pend], "v2-no-index-bytes")
		}
	}
}

func putLeU64(b []byte, x uint64) {
	for i := 0; i < 8; i++ {
		b[i] = byte(x >> (8 * i))
	}
}
