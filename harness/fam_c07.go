package main

import (
	"bytes"
	"context"
	"encoding/hex"
	"fmt"

	"github.com/ipfs/go-cid"
	carv2 "github.com/ipld/go-car/v2"
	"github.com/ipld/go-car/v2/blockstore"
	"github.com/ipld/go-car/v2/index"
	"github.com/ipld/go-car/v2/storage"
)

// famC07: read-only random access (blockstore.NewReadOnly, storage.OpenReadable) vs a scan.
func famC07(g *Gen, o *Out, n int, thorough bool) {
	ctx := context.Background()
	for c := 0; c < n; c++ {
		maxB := 6
		if thorough {
			maxB = 12
		}
		bs := g.Blocks(maxB)
		// the first 32 cases are a fixed corpus: the edge block list in every archive shape x store
		// identity option x API x key mode, so that what they show does not depend on the seed
		force := c < 32
		if force {
			bs = g.EdgeBlocks()
		}
		o.HashBlocks(bs)
		roots := g.Roots(bs)
		// the archive: CARv1, CARv2 with embedded index (identity stored or not), index-less CARv2
		shape := g.pick(4)
		var arch []byte
		var dp uint64
		wsid := g.pick(2) == 0
		if force {
			shape, wsid = c%4, true
		}
		switch shape {
		case 0:
			arch = writeAll(roots, bs, true)
		case 1, 2:
			dp = []uint64{0, 3, 50, 4097}[g.pick(4)]
			arch = writeAll(roots, bs, false, carv2.UseDataPadding(dp), carv2.StoreIdentityCIDs(wsid))
			if !wsid {
				// the writer skipped identity blocks: describe what is really in the payload
				var kept []Blk
				for _, b := range bs {
					if !idRule(wOpts{sid: false}, b.C) {
						kept = append(kept, b)
					}
				}
				bs = kept
			}
		default:
			dp = []uint64{0, 7}[g.pick(2)]
			arch = indexlessV2(writeAll(roots, bs, true), int(dp))
		}
		wo := wOpts{codec: []string{"mh", "sorted"}[g.pick(2)], mcs: 1 << 20}
		wo.whole = g.pick(2) == 0
		wo.sid = g.pick(2) == 0
		if force {
			wo.sid, wo.whole = (c/4)%2 == 0, (c/16)%2 == 0
		}
		if shape == 0 && (g.pick(4) == 0 || (force && (c/16)%2 == 1)) { // null padding after a CARv1, read with ZeroLengthSectionAsEOF
			arch = append(arch, make([]byte, 1+g.pick(4))...)
			wo.z = true
		}
		api := []string{"bs", "st"}[g.pick(2)]
		if force {
			api = []string{"bs", "st"}[(c/8)%2]
		}
		src := "auto"
		ssid := false
		if api == "bs" && g.pick(3) == 0 {
			src = []string{"sorted", "mh"}[g.pick(2)]
			ssid = wo.sid // a supplied index is expected to follow the same identity policy as the store (documented)
		}
		var has func(cid.Cid) string
		var get func(cid.Cid) string
		var size func(cid.Cid) string
		openRes := ""
		if api == "bs" {
			var idx index.Index
			if src != "auto" {
				idx = newIndex(src)
				pl := arch
				if shape != 0 {
					pl = payloadOf(arch)
				}
				if err := carv2.LoadIndex(idx, bytes.NewReader(pl), carv2.StoreIdentityCIDs(ssid), carv2.MaxIndexCidSize(1<<20),
					carv2.ZeroLengthSectionAsEOF(wo.z)); err != nil {
					continue
				}
			}
			ro, err := blockstore.NewReadOnly(bytes.NewReader(arch), idx, wo.opts()...)
			if err != nil {
				openRes = "open=" + classifyIdx(err)
			} else {
				r, _ := ro.Roots()
				ch, err := ro.AllKeysChan(ctx)
				keys := "l:-"
				if err == nil {
					var ks []cid.Cid
					for k := range ch {
						ks = append(ks, k)
					}
					keys = "l:" + cidsStr(ks)
				}
				openRes = fmt.Sprintf("open=ok roots=%s keys=%s", cidsStr(r), keys)
				has = func(c cid.Cid) string {
					h, err := ro.Has(ctx, c)
					if err != nil {
						return classifyStore(err)
					}
					return fmt.Sprint(h)
				}
				get = func(c cid.Cid) string {
					b, err := ro.Get(ctx, c)
					if err != nil {
						return classifyStore(err)
					}
					return "d:" + hexOr(b.RawData())
				}
				size = func(c cid.Cid) string {
					n, err := ro.GetSize(ctx, c)
					if err != nil {
						return classifyStore(err)
					}
					return fmt.Sprintf("n:%d", n)
				}
			}
		} else {
			rc, err := storage.OpenReadable(bytes.NewReader(arch), wo.opts()...)
			if err != nil {
				openRes = "open=" + classifyIdx(err)
			} else {
				openRes = fmt.Sprintf("open=ok roots=%s keys=na", cidsStr(rc.Roots()))
				has = func(c cid.Cid) string {
					h, err := rc.Has(ctx, string(c.Bytes()))
					if err != nil {
						return classifyStore(err)
					}
					return fmt.Sprint(h)
				}
				get = func(c cid.Cid) string {
					b, err := rc.Get(ctx, string(c.Bytes()))
					if err != nil {
						return classifyStore(err)
					}
					return "d:" + hexOr(b)
				}
			}
		}
		o.Line(fmt.Sprintf("ro api=%s %s src=%s ssid=%d roots=%s blocks=%s arch=%s", api, wo, src, b2i(ssid), rootsArg(roots), blocksStr(bs),
			hex.EncodeToString(arch)), openRes)
		o.Count(fmt.Sprintf("%s/shape%d/src=%s", api, shape, src))
		if has == nil {
			continue
		}
		for _, q := range g.queries(bs) {
			o.Line(fmt.Sprintf("roq kind=has c=%x", q.Bytes()), "r="+has(q))
			o.Line(fmt.Sprintf("roq kind=get c=%x", q.Bytes()), "r="+get(q))
			if size != nil {
				o.Line(fmt.Sprintf("roq kind=size c=%x", q.Bytes()), "r="+size(q))
			}
		}
	}
}
