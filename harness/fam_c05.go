package main

import (
	"bytes"
	"fmt"
	"os"

	"github.com/ipfs/go-cid"
	"github.com/ipld/go-car/cmd/car/lib"
	carv2 "github.com/ipld/go-car/v2"
	mh "github.com/multiformats/go-multihash"
)

// fcheck runs the library's own inspection and verifier over a finished file.
func fcheck(file []byte, seq int) string {
	res := ""
	r, err := carv2.NewReader(bytes.NewReader(file))
	if err != nil {
		res = "inspect=" + classify(err) + " nblocks=0"
	} else {
		st, err := r.Inspect(true)
		if err != nil {
			res = "inspect=" + classify(err) + " nblocks=0"
		} else {
			res = fmt.Sprintf("inspect=ok nblocks=%d", st.BlockCount)
		}
	}
	p := tmpPath(fmt.Sprintf("verify-%d.car", seq))
	os.WriteFile(p, file, 0o644)
	defer os.Remove(p)
	if err := lib.VerifyCar(p); err != nil {
		res += " verify=err"
	} else {
		res += " verify=ok"
	}
	return res
}

// longSession: one session far longer than the generated ones (thousands of sections), so that
// anything that batches, pages or caps by count in Put/Flatten/Finalize is crossed.
func longSession(g *Gen, o *Out, nblocks, seq int) {
	bs := make([]Blk, nblocks)
	for i := range bs {
		d := []byte{byte(i), byte(i >> 8), byte(i >> 16)}[:1+i%3]
		if i%3 == 0 {
			d = append(d, byte(i>>8), 0xEE)
		}
		h, _ := mh.Sum(d, mh.SHA2_256, -1)
		bs[i] = Blk{cid.NewCidV1(cid.Raw, h), d}
	}
	wo := g.wOpts()
	wo.v1 = false
	api := []string{"bs", "st"}[g.pick(2)]
	roots := []cid.Cid{bs[0].C}
	st, err := openStore(api, wo, roots, seq)
	o.Line(fmt.Sprintf("open api=%s %s roots=%s", api, wo, rootsArg(roots)), "r="+classifyStore(err))
	if err != nil {
		return
	}
	for _, b := range bs {
		o.Line(fmt.Sprintf("put c=%x d=%s", b.C.Bytes(), hexOr(b.D)), "r="+st.do("put", b.C, b.D, nil))
	}
	o.Line("finalize", "r="+st.do("finalize", cid.Undef, nil, nil))
	f := st.fileBytes()
	o.Line("file", fmt.Sprintf("file=%x", f))
	o.Line("fcheck", fcheck(f, seq))
	o.Count(fmt.Sprintf("long/%s/codec=%s/blocks=%d", api, wo.codec, nblocks))
	st.cleanup()
}

func famC05(g *Gen, o *Out, n int, thorough bool) {
	seq := 0
	seq++
	longSession(g, o, 2100+g.pick(2500), seq)
	if thorough {
		for _, k := range []int{1025, 4097 + g.pick(100), 8200 + g.pick(1000)} {
			seq++
			longSession(g, o, k, seq)
		}
	}
	for c := 0; c < n; c++ {
		maxB := 6
		if thorough {
			maxB = 16
		}
		bs := g.Blocks(maxB)
		if g.pick(8) == 0 {
			bs = nil
		}
		if c < 2 {
			// sections whose body (CID + data) sits exactly on and around the 1/2- and 2/3-byte length
			// prefix boundaries, through both APIs
			bs = append(boundaryBlocks(g), bs...)
		}
		o.HashBlocks(bs)
		roots := g.Roots(bs)
		wo := g.wOpts()
		api := []string{"bs", "st"}[g.pick(2)]
		if c < 2 {
			api = []string{"bs", "st"}[c]
		}
		seq++
		st, err := openStore(api, wo, roots, seq)
		o.Line(fmt.Sprintf("open api=%s %s roots=%s", api, wo, rootsArg(roots)), "r="+classifyStore(err))
		if err != nil {
			continue
		}
		for i := 0; i < len(bs); {
			if api == "bs" && g.pick(3) == 0 {
				// the blockstore's batch entry point; a batch may carry the same block twice
				k := 1 + g.pick(3)
				if i+k > len(bs) {
					k = len(bs) - i
				}
				many := append([]Blk{}, bs[i:i+k]...)
				if g.pick(2) == 0 {
					many = append(many, many[g.pick(len(many))])
				}
				o.Line("many b="+blocksStr(many), "r="+st.do("many", cid.Undef, nil, many))
				i += k
				continue
			}
			b := bs[i]
			o.Line(fmt.Sprintf("put c=%x d=%s", b.C.Bytes(), hexOr(b.D)), "r="+st.do("put", b.C, b.D, nil))
			i++
		}
		o.Line("finalize", "r="+st.do("finalize", cid.Undef, nil, nil))
		f := st.fileBytes()
		o.Line("file", fmt.Sprintf("file=%x", f))
		o.Line("fcheck", fcheck(f, seq))
		o.Count(fmt.Sprintf("%s/v1=%d/sid=%d/codec=%s", api, b2i(wo.v1), b2i(wo.sid), wo.codec))
		st.cleanup()
	}
	if workDir != "" {
		os.RemoveAll(workDir)
	}
}
