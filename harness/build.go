package main

import (
	"bytes"
	"context"
	"io"

	"github.com/ipfs/go-cid"
	carv2 "github.com/ipld/go-car/v2"
	"github.com/ipld/go-car/v2/storage"
)

// memFile is an in-memory io.ReaderAt + io.WriterAt + io.Writer (+ Truncate), enough for storage.*.
type memFile struct {
	b   []byte
	pos int64
}

func (m *memFile) WriteAt(p []byte, off int64) (int, error) {
	end := int(off) + len(p)
	if end > len(m.b) {
		m.b = append(m.b, make([]byte, end-len(m.b))...)
	}
	copy(m.b[off:], p)
	return len(p), nil
}

func (m *memFile) Write(p []byte) (int, error) {
	n, err := m.WriteAt(p, m.pos)
	m.pos += int64(n)
	return n, err
}

func (m *memFile) ReadAt(p []byte, off int64) (int, error) {
	if off >= int64(len(m.b)) {
		return 0, io.EOF
	}
	n := copy(p, m.b[off:])
	if n < len(p) {
		return n, io.EOF
	}
	return n, nil
}

func (m *memFile) Truncate(size int64) error {
	if int(size) <= len(m.b) {
		m.b = m.b[:size]
	} else {
		m.b = append(m.b, make([]byte, int(size)-len(m.b))...)
	}
	return nil
}

// writeAll writes every listed block (no de-duplication, identity blocks kept) with the real
// storage writer and returns the file bytes.
func writeAll(roots []cid.Cid, bs []Blk, v1 bool, extra ...carv2.Option) []byte {
	opts := append([]carv2.Option{carv2.WriteAsCarV1(v1), carv2.AllowDuplicatePuts(true),
		carv2.StoreIdentityCIDs(true), carv2.MaxIndexCidSize(1 << 20)}, extra...)
	var w storage.WritableCar
	var err error
	mf := &memFile{}
	var buf bytes.Buffer
	if v1 {
		w, err = storage.NewWritable(&buf, roots, opts...)
	} else {
		w, err = storage.NewWritable(mf, roots, opts...)
	}
	if err != nil {
		panic(err)
	}
	for _, b := range bs {
		if err := w.Put(context.Background(), string(b.C.Bytes()), b.D); err != nil {
			panic(err)
		}
	}
	if err := w.Finalize(); err != nil {
		panic(err)
	}
	if v1 {
		return buf.Bytes()
	}
	return mf.b
}
