package main

import (
	"fmt"
	"os"

	"github.com/ipfs/go-cid"
)

// famC12: interleavings of {Put, Discard+reopen, Finalize+reopen} on one file, final Finalize, and
// the bytes compared with the uninterrupted session's; plus single-field mismatches on reopen.
func famC12(g *Gen, o *Out, n int, thorough bool) {
	seq := 0
	for c := 0; c < n; c++ {
		wo := g.wOpts()
		wo.mcs = 2048
		if g.pick(4) == 0 {
			// a small read-side section limit: what a session wrote, the same session options reopen
			wo.ms = uint64(40 + g.pick(120))
		}
		api := []string{"bs", "st"}[g.pick(2)]
		bs := g.Blocks(6)
		o.HashBlocks(bs)
		roots := g.Roots(bs)
		seq++
		st, err := openStore(api, wo, roots, seq)
		o.Line(fmt.Sprintf("open api=%s %s roots=%s", api, wo, rootsArg(roots)), "r="+classifyStore(err))
		if err != nil {
			continue
		}
		steps := 3 + g.pick(8)
		if thorough {
			steps = 4 + g.pick(16)
		}
		closed := false
		for i := 0; i < steps; i++ {
			switch k := g.pick(10); {
			case k < 5 && len(bs) > 0:
				b := bs[g.pick(len(bs))]
				o.Line(fmt.Sprintf("put c=%x d=%s", b.C.Bytes(), hexOr(b.D)), "r="+st.do("put", b.C, b.D, nil))
			case k < 7:
				// interrupt by Discard (blockstore) — storage has no Discard: the handle is simply dropped
				if api == "bs" {
					o.Line("discard", "r="+st.do("discard", cid.Undef, nil, nil))
				}
				closed = true
			case k < 9:
				o.Line("finalize", "r="+st.do("finalize", cid.Undef, nil, nil))
				closed = true
			default:
				o.Line("file", fmt.Sprintf("file=%x", st.fileBytes()))
			}
			if closed {
				// reopen: mostly with the same roots/options, sometimes a single-field mismatch
				ro, rr := wo, roots
				what := "same"
				switch g.pick(8) {
				case 0:
					ro.v1 = !ro.v1
					what = "version"
				case 1:
					if !ro.v1 {
						switch g.pick(4) {
						case 0: // a payload offset at or past the end of the existing file
							ro.dp = uint64(len(st.fileBytes())) + uint64(g.pick(3)*40)
						case 1:
							ro.dp = []uint64{4096, 1413, 70000}[g.pick(3)] + ro.dp
						case 2:
							if ro.dp > 0 {
								ro.dp = uint64(g.pick(int(ro.dp)))
								break
							}
							fallthrough
						default:
							ro.dp = ro.dp + 1 + uint64(g.pick(5))
						}
						what = "padding"
					}
				case 2:
					rr = g.Roots(bs)
					what = "roots"
				case 3:
					if len(roots) > 1 { // a permutation of the roots matches
						rr = append([]cid.Cid{}, roots...)
						rr[0], rr[len(rr)-1] = rr[len(rr)-1], rr[0]
						what = "perm"
					}
				case 4:
					if len(roots) > 1 { // same set, different multiset
						rr = append([]cid.Cid{}, roots...)
						rr[0] = rr[1]
						what = "multiset"
					}
				}
				before := st.fileBytes()
				err := st.reopen(ro, rr)
				o.Line(fmt.Sprintf("reopen api=%s %s roots=%s", api, ro, rootsArg(rr)), "r="+okOrErr(err))
				o.Count("reopen/" + what + "/" + okOrErr(err))
				if err != nil {
					// a refused reopen must leave the bytes alone
					after := st.fileBytes()
					o.Line("file", fmt.Sprintf("file=%x", after))
					_ = before
					// carry on with a matching reopen
					err = st.reopen(wo, roots)
					o.Line(fmt.Sprintf("reopen api=%s %s roots=%s", api, wo, rootsArg(roots)), "r="+okOrErr(err))
					if err != nil {
						break
					}
				}
				closed = false
			}
		}
		if !closed {
			o.Line("finalize", "r="+st.do("finalize", cid.Undef, nil, nil))
		}
		o.Line("file", fmt.Sprintf("file=%x", st.fileBytes()))
		st.cleanup()
	}
	if workDir != "" {
		os.RemoveAll(workDir)
	}
}

func okOrErr(err error) string {
	if err == nil {
		return "ok"
	}
	return "err"
}
